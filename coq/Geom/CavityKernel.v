(* C10 -- why the head matrix stays singular for models with an enclosed non-conductive region
   (known findings hole, hole+blob, shell0, shell00): the indicator vector of a "cavity wall" is in the kernel.

   A cavity wall W is a mesh that (i) is a current barrier (no current unknowns of its own), (ii) is not an
   outermost mesh of a part, so deflate never touches its vertices, (iii) shares no vertex with another mesh,
   (iv) is closed and seen from OUTSIDE by every other mesh it communicates with, so that the double-layer
   operator of the constant on W vanishes on their triangles (Gauss' solid-angle law; Section hypothesis on the
   abstract kernel Dk).  Then every row of the assembled head matrix sums to zero over the columns of W's vertices,
   for every S kernel, conductivities, orientations: N_row_sum_zero / N_col_sum_zero force it block by block. *)
From Coq Require Import List NArith ZArith Bool FMapPositive Reals Lra Lia.
From OM Require Import Base.Ops Geom.Assembly Geom.AssemblyProofs.
Import ListNotations.
Local Open Scope R_scope.

Section Cavity.
Variable K : R.
Variable pos : N -> R * R * R.
Variable area : N -> R.
Variable Sk : N -> N -> R.
Variable Dk : N -> N -> nat -> R.
Variable g : igeom R.
Variable VV : list N.
Hypothesis WF : wf_indexed g VV.
Notation mgetR := (mget RO).
Notation maddR := (madd RO).
Notation NvalR := (Nval RO pos area).
Notation vixg := (vix g).

Variable w : nat.                       (* the number of the cavity wall *)
Notation W := (gmesh g w).
Definition CW : list N := map vixg (mverts W).

Hypothesis W_wf : mesh_wf W.
Hypothesis W_valid : incl (mverts W) VV.
Hypothesis W_barrier : mbarrier W = true.
Hypothesis W_not_deflated : forall v, In v (mverts W) -> ~ In (vixg v) (outer_idx g).
(* no other mesh of a pair shares a vertex with W; a pair never lists W under two different numbers *)
Hypothesis W_disjoint : forall p k, In p (gpairs g) -> (k = pm1 p \/ k = pm2 p) -> k <> w ->
  forall v, In v (mverts (gmesh g k)) -> ~ In v (mverts W).
(* Gauss: W is closed and every triangle of another mesh lies outside it *)
Hypothesis W_gauss : forall p k t1, In p (gpairs g) -> (k = pm1 p \/ k = pm2 p) -> k <> w -> In t1 (mtris (gmesh g k)) ->
  Rsum (fun t2 => Dk (tid t1) (tid t2) 0 + Dk (tid t1) (tid t2) 1 + Dk (tid t1) (tid t2) 2) (mtris W) = 0.

Lemma CW_nodup : NoDup CW.
Proof.
  unfold CW. destruct W_wf as [Hnd _]. revert Hnd W_valid. generalize (mverts W) as l.
  induction l as [|a l IH]; intros Hnd Hv; simpl; constructor.
  - intros Hin. apply in_map_iff in Hin. destruct Hin as [b [E Hb]]. inversion Hnd; subst.
    assert (b = a) by (apply (wf_inj _ _ WF); auto; apply Hv; simpl; auto). subst; auto.
  - inversion Hnd; subst. apply IH; auto. intros x Hx; apply Hv; simpl; auto.
Qed.
Lemma CW_sub : incl CW (Cidx g VV).
Proof. intros x Hx. unfold CW in Hx. apply in_map_iff in Hx. destruct Hx as [v [<- Hv]]. apply in_map. apply W_valid; auto. Qed.
Lemma memCW v : In v VV -> memN (vixg v) CW = true -> In v (mverts W).
Proof.
  intros Hv H. apply memN_In in H. unfold CW in H. apply in_map_iff in H. destruct H as [u [E Hu]].
  assert (u = v) by (apply (wf_inj _ _ WF); auto). subst; auto.
Qed.
Lemma memCW_in v : In v (mverts W) -> memN (vixg v) CW = true.
Proof. intros H. apply memN_In. unfold CW. apply in_map; auto. Qed.
Lemma memCW_out v : In v VV -> ~ In v (mverts W) -> memN (vixg v) CW = false.
Proof. intros Hv H. destruct (memN (vixg v) CW) eqn:E; auto. apply memCW in E; auto. contradiction. Qed.

Lemma hit_false_cols i j r (C : list N) : ~ In i C -> ~ In j C -> forall c, In c C -> hit i j r c = false.
Proof.
  intros Hi Hj c Hc. unfold hit.
  replace (N.eqb j c) with false by (symmetry; apply N.eqb_neq; intros ->; auto).
  replace (N.eqb i c) with false by (symmetry; apply N.eqb_neq; intros ->; auto).
  destruct (N.eqb i r); auto.
Qed.

Lemma rowsum_fold_steps {A} (f : store R -> A -> store R) (d : A -> R) r C (L : list A) :
  (forall a, In a L -> forall M, rowsum (f M a) r C = rowsum M r C + d a) ->
  forall M, rowsum (fold_left f L M) r C = rowsum M r C + Rsum d L.
Proof.
  induction L as [|a L IH]; intros H M; simpl; [lra|].
  rewrite IH by (intros; apply H; simpl; auto). rewrite (H a) by (simpl; auto). lra.
Qed.

Section OnePair.
Variable p : pair R.
Hypothesis Hp : In p (gpairs g).
Variable r : N.

Let tri_out : forall t, In t (mtris (gmesh g (pm1 p))) \/ In t (mtris (gmesh g (pm2 p))) -> ~ In (tix t) CW.
Proof. intros t Ht Hin. apply (wf_tri _ _ WF p t Hp Ht). apply CW_sub; auto. Qed.

Lemma S_diag_keepsC coeff ts M : (forall t, In t ts -> ~ In (tix t) CW) ->
  rowsum (S_diag RO Sk (@mset R) M coeff ts) r CW = rowsum M r CW.
Proof.
  revert M. induction ts as [|t1 rest IH]; intros M Ht; cbn [S_diag]; auto.
  rewrite IH by (intros; apply Ht; simpl; auto).
  apply (keeps_fold r CW (fun B t2 => mset B (tix t1) (tix t2) (fmul RO (Sk (tid t1) (tid t2)) coeff))).
  intros t2 H2 M0. apply rowsum_mset_frame. apply hit_false_cols; apply Ht; simpl; auto.
Qed.
Lemma S_off_keepsC coeff ts1 ts2 M : (forall t, In t ts1 -> ~ In (tix t) CW) -> (forall t, In t ts2 -> ~ In (tix t) CW) ->
  rowsum (S_off RO Sk (@mset R) M coeff ts1 ts2) r CW = rowsum M r CW.
Proof.
  intros H1 H2. unfold S_off. revert M. apply keeps_fold; intros t1 Ht1.
  apply (keeps_fold r CW (fun B t2 => mset B (tix t1) (tix t2) (fmul RO (Sk (tid t1) (tid t2)) coeff))).
  intros t2 Ht2 M0. apply rowsum_mset_frame. apply hit_false_cols; auto.
Qed.

(* D block whose columns are vertices of a mesh other than W: nothing lands in the columns of W *)
Lemma D_block_keepsC_other coeff ts1 k M : (forall t, In t ts1 -> ~ In (tix t) CW) ->
  (k = pm1 p \/ k = pm2 p) -> k <> w ->
  rowsum (D_block RO Dk g M coeff ts1 (mtris (gmesh g k))) r CW = rowsum M r CW.
Proof.
  intros H1 Hk Hkw. unfold D_block. revert M. apply keeps_fold; intros t1 Ht1. apply keeps_fold; intros t2 Ht2.
  apply (keeps_fold r CW (fun M i => maddR M (tix t1) (vixg (tvi t2 i)) (fmul RO (Dk (tid t1) (tid t2) i) coeff))).
  intros i _ M0. apply rowsum_madd_frame. apply hit_false_cols; auto.
  destruct (wf_mesh _ _ WF p Hp) as [W1 [W2 [I1 I2]]].
  assert (mesh_wf (gmesh g k) /\ incl (mverts (gmesh g k)) VV) as [Wk Ik] by (destruct Hk; subst; auto).
  destruct Wk as [_ HT]. destruct (HT t2 Ht2) as [_ [A0 [A1 A2]]].
  assert (In (tvi t2 i) (mverts (gmesh g k))) as Hin by (destruct i as [|[|i]]; simpl; auto).
  intros Hc. apply memN_In in Hc. apply memCW in Hc; auto. eapply W_disjoint; eauto.
Qed.

(* D block whose columns are the vertices of W, rows on another mesh: Gauss *)
Lemma D_block_keepsC_W coeff k M : (k = pm1 p \/ k = pm2 p) -> k <> w ->
  rowsum (D_block RO Dk g M coeff (mtris (gmesh g k)) (mtris W)) r CW = rowsum M r CW.
Proof.
  intros Hk Hkw. unfold D_block.
  pose proof CW_nodup as Hnd.
  assert (forall t1, ~ In (tix t1) CW -> forall t2 M0, In t2 (mtris W) ->
     rowsum (fold_left (fun M i => maddR M (tix t1) (vixg (tvi t2 i)) (fmul RO (Dk (tid t1) (tid t2) i) coeff)) [0%nat; 1%nat; 2%nat] M0) r CW
     = rowsum M0 r CW + (if N.eqb (tix t1) r then (Dk (tid t1) (tid t2) 0 + Dk (tid t1) (tid t2) 1 + Dk (tid t1) (tid t2) 2) * coeff else 0)) as Hin.
  { intros t1 Ht1 t2 M0 Ht2.
    rewrite (rowsum_fold_madd (fun _ => tix t1) (fun i => vixg (tvi t2 i)) (fun i => fmul RO (Dk (tid t1) (tid t2) i) coeff)) by auto.
    f_equal. destruct W_wf as [_ HT]. destruct (HT t2 Ht2) as [_ [A0 [A1 A2]]].
    cbn [Rsum]. unfold delta. cbn [tvi].
    rewrite !memCW_in by auto.
    replace (memN (tix t1) CW) with false by (symmetry; destruct (memN (tix t1) CW) eqn:E; auto; apply memN_In in E; contradiction).
    rewrite !andb_false_r, !andb_true_r. change (fmul RO) with Rmult.
    destruct (N.eqb (tix t1) r); lra. }
  assert (forall t1, ~ In (tix t1) CW -> forall M0,
     rowsum (fold_left (fun M t2 => fold_left (fun M i => maddR M (tix t1) (vixg (tvi t2 i)) (fmul RO (Dk (tid t1) (tid t2) i) coeff)) [0%nat; 1%nat; 2%nat] M) (mtris W) M0) r CW
     = rowsum M0 r CW + Rsum (fun t2 => if N.eqb (tix t1) r then (Dk (tid t1) (tid t2) 0 + Dk (tid t1) (tid t2) 1 + Dk (tid t1) (tid t2) 2) * coeff else 0) (mtris W)) as Hmid.
  { intros t1 Ht1 M0.
    apply (rowsum_fold_steps (fun M t2 => fold_left (fun M i => maddR M (tix t1) (vixg (tvi t2 i)) (fmul RO (Dk (tid t1) (tid t2) i) coeff)) [0%nat; 1%nat; 2%nat] M)).
    intros t2 Ht2 M1. apply Hin; auto. }
  revert M. apply keeps_fold. intros t1 Ht1 M0.
  assert (~ In (tix t1) CW) as Hout by (apply tri_out; destruct Hk; subst; auto).
  rewrite (Hmid t1 Hout M0).
  destruct (N.eqb (tix t1) r); [|rewrite Rsum_zero by auto; lra].
  transitivity (rowsum M0 r CW + coeff * Rsum (fun t2 => Dk (tid t1) (tid t2) 0 + Dk (tid t1) (tid t2) 1 + Dk (tid t1) (tid t2) 2) (mtris W)).
  { f_equal. rewrite <- Rsum_scal. apply Rsum_ext; intros; ring. }
  rewrite (W_gauss p k t1 Hp Hk Hkw Ht1). lra.
Qed.

(* N block of two different meshes, at most one of which is W *)
Lemma N_off_keepsC coeff S m1 m2 (i1 i2 : bool) M :
  mesh_wf m1 -> mesh_wf m2 ->
  (forall a, In a (mverts m1) -> memN (vixg a) CW = i1) -> (forall b, In b (mverts m2) -> memN (vixg b) CW = i2) ->
  (i1 && i2 = false)%bool ->
  rowsum (N_off RO pos area g M coeff S m1 m2) r CW = rowsum M r CW.
Proof.
  intros W1 W2 H1 H2 Hx. unfold N_off.
  pose proof CW_nodup as Hnd.
  assert (forall L M0,
    rowsum (fold_left (fun M a => fold_left (fun M b => maddR M (vixg a) (vixg b)
              (fmul RO (NvalR (Nfac RO a b) S m1 m2 a b) coeff)) (mverts m2) M) L M0) r CW
    = rowsum M0 r CW +
      Rsum (fun a => Rsum (fun b => delta r CW (vixg a) (vixg b) (fmul RO (NvalR (Nfac RO a b) S m1 m2 a b) coeff)) (mverts m2)) L) as H.
  { induction L as [|a L IH]; intros M0; cbn [fold_left Rsum]; [lra|].
    rewrite IH. rewrite (rowsum_fold_madd (fun _ => vixg a) vixg) by auto. lra. }
  rewrite H. clear H.
  match goal with |- _ + ?X = _ => assert (X = 0) as HX; [|rewrite HX; lra] end.
  assert (forall a b, In a (mverts m1) -> In b (mverts m2) -> i1 <> i2 -> Nfac RO a b = quarter RO /\ N.eqb (vixg a) (vixg b) = false) as Hne.
  { intros a b Ha Hb Hd. assert (vixg a <> vixg b) as Hv.
    { intros E. apply Hd. rewrite <- (H1 a Ha), <- (H2 b Hb), E; auto. }
    split; [|apply N.eqb_neq; auto]. unfold Nfac. destruct (N.eqb_spec a b) as [->|]; [contradiction Hv; auto|auto]. }
  destruct i1, i2; try discriminate.
  - (* m1 = W : column sums *)
    transitivity (Rsum (fun b => if N.eqb (vixg b) r then coeff * Rsum (fun a => NvalR (quarter RO) S m1 m2 a b) (mverts m1) else 0) (mverts m2)).
    { rewrite Rsum_swap. apply Rsum_ext; intros b Hb.
      transitivity (Rsum (fun a => if N.eqb (vixg b) r then coeff * NvalR (quarter RO) S m1 m2 a b else 0) (mverts m1)).
      - apply Rsum_ext; intros a Ha. destruct (Hne a b Ha Hb) as [Ef En]; [discriminate|].
        unfold delta. rewrite (H2 b Hb), (H1 a Ha), En, Ef. cbn [negb]. rewrite ?andb_false_r, ?andb_true_r.
        change (fmul RO) with Rmult. destruct (N.eqb (vixg b) r); lra.
      - destruct (N.eqb (vixg b) r); [rewrite Rsum_scal; auto | apply Rsum_zero; auto]. }
    apply Rsum_zero; intros b _. destruct (N.eqb (vixg b) r); auto.
    replace (Rsum _ (mverts m1)) with 0; [ring|]. symmetry. apply (Nval_col_sum_zero pos area (quarter RO) S m1 m2 b W1).
  - (* m2 = W : row sums *)
    transitivity (Rsum (fun a => if N.eqb (vixg a) r then coeff * Rsum (fun b => NvalR (quarter RO) S m1 m2 a b) (mverts m2) else 0) (mverts m1)).
    { apply Rsum_ext; intros a Ha.
      transitivity (Rsum (fun b => if N.eqb (vixg a) r then coeff * NvalR (quarter RO) S m1 m2 a b else 0) (mverts m2)).
      - apply Rsum_ext; intros b Hb. destruct (Hne a b Ha Hb) as [Ef En]; [discriminate|].
        unfold delta. rewrite (H2 b Hb), (H1 a Ha), Ef. rewrite ?andb_false_r, ?andb_true_r.
        change (fmul RO) with Rmult. destruct (N.eqb (vixg a) r); lra.
      - destruct (N.eqb (vixg a) r); [rewrite Rsum_scal; auto | apply Rsum_zero; auto]. }
    apply Rsum_zero; intros a _. destruct (N.eqb (vixg a) r); auto.
    replace (Rsum _ (mverts m2)) with 0; [ring|]. symmetry. apply (Nval_row_sum_zero pos area (quarter RO) S m1 m2 a W2).
  - (* neither *)
    apply Rsum_zero; intros a Ha. apply Rsum_zero; intros b Hb. unfold delta. rewrite (H2 b Hb), (H1 a Ha), !andb_false_r. lra.
Qed.

(* N block of one mesh: the general triangular sum *)
Lemma N_diag_sum coeff S m M : (forall i j, S i j = S j i) ->
  forall L, rowsum (N_diag RO pos area g M coeff S m L) r CW
  = rowsum M r CW + 0 * 0 +
    (fix T (l : list N) : R := match l with [] => 0 | a :: rest =>
       Rsum (fun b => delta r CW (vixg a) (vixg b) (fmul RO (NvalR (quarter RO) S m m a b) coeff)) (a :: rest) + T rest end) L.
Proof.
  intros HS L. pose proof CW_nodup as Hnd. revert M. induction L as [|a L IH]; intros M; cbn [N_diag]; [lra|].
  rewrite IH. rewrite (rowsum_fold_madd (fun _ => vixg a) vixg (fun b => fmul RO (NvalR (quarter RO) S m m a b) coeff)) by auto. lra.
Qed.

Lemma N_diag_keepsC_other coeff S m M : (forall i j, S i j = S j i) ->
  (forall a, In a (mverts m) -> memN (vixg a) CW = false) ->
  rowsum (N_diag RO pos area g M coeff S m (mverts m)) r CW = rowsum M r CW.
Proof.
  intros HS H. rewrite N_diag_sum by auto.
  match goal with |- _ + _ + ?X = _ => assert (X = 0) as HX; [|rewrite HX; lra] end.
  assert (forall L, incl L (mverts m) ->
    (fix T (l : list N) : R := match l with [] => 0 | a :: rest =>
       Rsum (fun b => delta r CW (vixg a) (vixg b) (fmul RO (NvalR (quarter RO) S m m a b) coeff)) (a :: rest) + T rest end) L = 0) as G.
  { induction L as [|a L IH]; intros HL; auto. rewrite IH by (intros x Hx; apply HL; simpl; auto).
    rewrite Rsum_zero; [lra|]. intros b Hb. unfold delta. rewrite (H a), (H b) by (apply HL; simpl; auto; destruct Hb; auto).
    rewrite !andb_false_r; lra. }
  apply G, incl_refl.
Qed.

(* the wall itself *)
Lemma N_diag_keepsC_W coeff S M : (forall i j, S i j = S j i) ->
  rowsum (N_diag RO pos area g M coeff S W (mverts W)) r CW = rowsum M r CW.
Proof.
  intros HS. rewrite N_diag_sum by auto.
  match goal with |- _ + _ + ?X = _ => assert (X = 0) as HX; [|rewrite HX; lra] end.
  set (wt := fun a b => fmul RO (NvalR (quarter RO) S W W a b) coeff).
  assert (forall a b, wt a b = wt b a) as Hw.
  { intros a b. unfold wt. rewrite (Nval_sym pos area (quarter RO) S W a b HS); auto. }
  destruct W_wf as [WN WT].
  destruct (in_dec N.eq_dec r CW) as [Hr|Hr].
  - (* r = vix rho for a vertex rho of W *)
    unfold CW in Hr. apply in_map_iff in Hr. destruct Hr as [rho [<- Hrho]].
    assert (forall a b, In a (mverts W) -> In b (mverts W) ->
       delta (vixg rho) CW (vixg a) (vixg b) (wt a b) = (if N.eqb a rho then wt a b else 0) + (if (N.eqb b rho && negb (N.eqb a b))%bool then wt a b else 0)) as Hd.
    { intros a b Ha Hb. unfold delta.
      assert (forall u v, In u (mverts W) -> In v (mverts W) -> N.eqb (vixg u) (vixg v) = N.eqb u v) as E.
      { intros u v Hu Hv. destruct (N.eqb_spec u v) as [->|Hne]; [apply N.eqb_refl|].
        apply N.eqb_neq; intros H; apply Hne, (wf_inj _ _ WF); auto. }
      rewrite !E by auto. rewrite !memCW_in by auto. rewrite !andb_true_r; auto. }
    assert (forall L, incl L (mverts W) -> NoDup L ->
      (fix T (l : list N) : R := match l with [] => 0 | a :: rest => Rsum (fun b => delta (vixg rho) CW (vixg a) (vixg b) (wt a b)) (a :: rest) + T rest end) L
      = if memN rho L then Rsum (fun b => wt rho b) L else 0) as G.
    { induction L as [|a L IH]; intros HL HndL; [reflexivity|].
      inversion HndL as [|? ? HaL HndL']; subst.
      rewrite IH by (auto; intros x Hx; apply HL; simpl; auto).
      transitivity (Rsum (fun b => (if N.eqb a rho then wt a b else 0) + (if (N.eqb b rho && negb (N.eqb a b))%bool then wt a b else 0)) (a :: L)
                    + (if memN rho L then Rsum (fun b => wt rho b) L else 0)).
      { f_equal. apply Rsum_ext; intros b Hb. apply Hd; apply HL; simpl; auto. }
      cbn [memN existsb Rsum]. rewrite N.eqb_refl. cbn [negb andb]. rewrite (N.eqb_sym rho a).
      destruct (N.eqb_spec a rho) as [->|Har]; cbn [orb].
      - change (existsb (N.eqb rho) L) with (memN rho L).
        destruct (memN rho L) eqn:E; [apply memN_In in E; contradiction|]. rewrite andb_false_r.
        assert (Rsum (fun b => wt rho b + (if (N.eqb b rho && negb (N.eqb rho b))%bool then wt rho b else 0)) L = Rsum (fun b => wt rho b) L) as E2.
        { apply Rsum_ext; intros b Hb. destruct (N.eqb_spec b rho) as [->|]; [contradiction|]. simpl; lra. }
        rewrite E2; lra.
      - rewrite andb_false_r.
        assert (Rsum (fun b => 0 + (if (N.eqb b rho && negb (N.eqb a b))%bool then wt a b else 0)) L
                = Rsum (fun b => if N.eqb b rho then wt a rho else 0) L) as E2.
        { apply Rsum_ext; intros b Hb. destruct (N.eqb_spec b rho) as [->|]; simpl; [|lra].
          replace (N.eqb a rho) with false by (symmetry; apply N.eqb_neq; auto). simpl; lra. }
        rewrite E2, (Rsum_spike (fun _ => wt a rho) rho L HndL').
        change (existsb (N.eqb rho) L) with (memN rho L).
        destruct (memN rho L); [rewrite (Hw a rho)|]; lra. }
    etransitivity; [exact (G (mverts W) (incl_refl _) WN)|].
    destruct (memN rho (mverts W)); auto.
    unfold wt. change (fmul RO) with Rmult.
    transitivity (Rsum (fun b => coeff * NvalR (quarter RO) S W W rho b) (mverts W)); [apply Rsum_ext; intros; ring|].
    rewrite Rsum_scal. replace (Rsum _ (mverts W)) with 0; [ring|].
    symmetry; apply (Nval_row_sum_zero pos area (quarter RO) S W W rho (conj WN WT)).
  - (* r is not a column of W: no cell of row r is written in these columns *)
    assert (forall L, incl L (mverts W) ->
      (fix T (l : list N) : R := match l with [] => 0 | a :: rest => Rsum (fun b => delta r CW (vixg a) (vixg b) (wt a b)) (a :: rest) + T rest end) L = 0) as G.
    { induction L as [|a L IH]; intros HL; auto. rewrite IH by (intros x Hx; apply HL; simpl; auto).
      rewrite Rsum_zero; [lra|]. intros b Hb. unfold delta.
      assert (forall u, In u (mverts W) -> N.eqb (vixg u) r = false) as E.
      { intros u Hu. apply N.eqb_neq. intros <-. apply Hr. unfold CW. apply in_map; auto. }
      rewrite (E a), (E b) by (apply HL; simpl; auto; destruct Hb; auto). simpl; lra. }
    exact (G (mverts W) (incl_refl _)).
Qed.
End OnePair.

Lemma sbget_symR off B i j : sbget RO off B i j = sbget RO off B j i.
Proof. unfold sbget. apply mget_sym. Qed.

Lemma verts_out p k : In p (gpairs g) -> (k = pm1 p \/ k = pm2 p) -> k <> w ->
  forall a, In a (mverts (gmesh g k)) -> memN (vixg a) CW = false.
Proof.
  intros Hp Hk Hkw a Ha. apply memCW_out.
  - destruct (wf_mesh _ _ WF p Hp) as [_ [_ [I1 I2]]]. destruct Hk; subst; auto.
  - eapply W_disjoint; eauto.
Qed.

Lemma pair_step_keepsC p r : In p (gpairs g) -> forall M,
  rowsum (pair_step RO K pos area Sk Dk g M p) r CW = rowsum M r CW.
Proof.
  intros Hp M. unfold pair_step. cbv zeta.
  destruct (wf_mesh _ _ WF p Hp) as [W1 [W2 [I1 I2]]].
  assert (forall t, In t (mtris (gmesh g (pm1 p))) -> ~ In (tix t) CW) as T1.
  { intros t Ht Hin. apply (wf_tri _ _ WF p t Hp (or_introl Ht)). apply CW_sub; auto. }
  assert (forall t, In t (mtris (gmesh g (pm2 p))) -> ~ In (tix t) CW) as T2.
  { intros t Ht Hin. apply (wf_tri _ _ WF p t Hp (or_intror Ht)). apply CW_sub; auto. }
  set (cS := fmul RO (fmul RO (fofZ RO (porient p)) K) (psiginv p)).
  set (cN := fmul RO (fmul RO (fofZ RO (porient p)) K) (psig p)).
  set (cD := fmul RO (fopp RO (fmul RO (fofZ RO (porient p)) K)) (pind p)).
  clearbody cS cN cD.
  assert (forall off B i j, sbget RO off B i j = sbget RO off B j i) as HSB by (intros; apply sbget_symR).
  assert (forall B i j, mgetR B i j = mgetR B j i) as HMG by (intros; apply mget_sym).
  assert (feqb RO (f0 RO) (f0 RO) = true) as F00 by (simpl; destruct (Req_EM_T 0 0); auto; congruence).
  destruct (Nat.eqb_spec (pm1 p) (pm2 p)) as [E12|N12].
  - unfold diag_block. cbv zeta.
    destruct (Nat.eq_dec (pm1 p) w) as [E1|N1].
    + rewrite E1. rewrite W_barrier. rewrite F00. apply N_diag_keepsC_W; auto.
    + assert (forall a, In a (mverts (gmesh g (pm1 p))) -> memN (vixg a) CW = false) as Vo by (apply (verts_out p); auto).
      set (m := gmesh g (pm1 p)) in *. clear F00.
      destruct (mbarrier m); destruct (feqb RO _ _);
        rewrite ?(D_block_keepsC_other p Hp r cD (mtris m) (pm1 p)) by auto;
        rewrite ?N_diag_keepsC_other by auto; rewrite ?S_diag_keepsC by auto; reflexivity.
  - unfold nondiag_block. cbv zeta.
    destruct (Nat.eq_dec (pm1 p) w) as [E1|N1]; [|destruct (Nat.eq_dec (pm2 p) w) as [E2|N2]].
    + (* W first *)
      assert (pm2 p <> w) as N2 by congruence.
      assert (forall b, In b (mverts (gmesh g (pm2 p))) -> memN (vixg b) CW = false) as Vo by (apply (verts_out p); auto).
      rewrite E1 in *. rewrite W_barrier. cbn [negb andb]. cbv iota. rewrite F00.
      set (m2 := gmesh g (pm2 p)) in *.
      destruct (tris_eqb (mtris W) (mtris m2)); destruct (mbarrier m2); cbn [negb andb];
        rewrite ?(D_block_keepsC_W p Hp r cD (pm2 p)) by auto;
        rewrite (N_off_keepsC r cN _ W m2 true false) by (auto using memCW_in); reflexivity.
    + (* W second *)
      assert (forall a, In a (mverts (gmesh g (pm1 p))) -> memN (vixg a) CW = false) as Vo by (apply (verts_out p); auto).
      rewrite E2 in *. rewrite W_barrier. cbn [negb]. rewrite !andb_false_r. cbv iota. rewrite F00.
      set (m1 := gmesh g (pm1 p)) in *.
      destruct (mbarrier m1);
        rewrite ?(D_block_keepsC_W p Hp r cD (pm1 p)) by auto;
        rewrite (N_off_keepsC r cN _ m1 W false true) by (auto using memCW_in); reflexivity.
    + assert (forall a, In a (mverts (gmesh g (pm1 p))) -> memN (vixg a) CW = false) as Vo1 by (apply (verts_out p); auto).
      assert (forall a, In a (mverts (gmesh g (pm2 p))) -> memN (vixg a) CW = false) as Vo2 by (apply (verts_out p); auto).
      set (m1 := gmesh g (pm1 p)) in *. set (m2 := gmesh g (pm2 p)) in *. clear F00.
      destruct (mbarrier m1); destruct (mbarrier m2); destruct (tris_eqb (mtris m1) (mtris m2)); cbn [negb andb];
        destruct (feqb RO _ _);
        rewrite ?(D_block_keepsC_other p Hp r cD (mtris m2) (pm1 p)) by auto;
        rewrite ?(D_block_keepsC_other p Hp r cD (mtris m1) (pm2 p)) by auto;
        rewrite ?(N_off_keepsC r _ _ m1 m2 false false) by auto;
        rewrite ?S_off_keepsC by auto; reflexivity.
Qed.

(* the indicator vector of the cavity wall is in the kernel of the head matrix *)
Theorem cavity_wall_indicator_in_kernel_lemma : forall r,
  Rsum (fun v => mgetR (headmat RO K pos area Sk Dk g) r (vixg v)) (mverts W) = 0.
Proof.
  intros r.
  transitivity (rowsum (assemble_pairs RO K pos area Sk Dk g) r CW).
  - unfold rowsum, CW.
    assert (forall (f h : N -> R) L, (forall u, In u L -> f u = h (vixg u)) -> Rsum f L = Rsum h (map vixg L)) as HM.
    { intros f h L; induction L as [|a L IH]; intros HH; simpl; auto. rewrite HH, IH; simpl; auto. intros; apply HH; simpl; auto. }
    apply HM. intros u Hu. unfold headmat.
    apply (deflate_frame (fun _ => (0, 0, 0)) (fun _ => 0) (fun _ _ => 0) (fun _ _ _ => 0)). right. apply W_not_deflated; auto.
  - unfold assemble_pairs.
    rewrite (keeps_fold r CW (pair_step RO K pos area Sk Dk g) (gpairs g)).
    + unfold rowsum. apply Rsum_zero; intros; apply mget_empty.
    + intros p Hp M. apply pair_step_keepsC; auto.
Qed.
End Cavity.
