(* Lemmas about the running minima of dist_point_interface / dist_point_geom, the sensor rows and the
   weight matrix (theorems of C09), over the reals. *)
From Coq Require Import Reals Lra Lia List Bool Arith.
From OM Require Import Base.Ops Geom.V3Q Geom.V3R Geom.Danielsson Geom.DanielssonProofs Geom.SensorsModel.
Import ListNotations.
Local Open Scope R_scope.

Notation rvec := (@vec R).
Notation ritri := (@itri R).

(* ---------- flattening of the triangle iteration ---------- *)
Definition tagged : Type := (nat * nat * ritri)%type.
Fixpoint flat_mesh (mi ti : nat) (m : @mesh R) : list tagged :=
  match m with [] => [] | t :: m' => (mi, ti, t) :: flat_mesh mi (S ti) m' end.
Fixpoint flat_meshes (mi : nat) (ms : @interface R) : list tagged :=
  match ms with [] => [] | m :: ms' => flat_mesh mi 0 m ++ flat_meshes (S mi) ms' end.

Definition step_tri (p : rvec) (st : @istate R) (x : tagged) : @istate R :=
  scan_tri Rops p (fst (fst x)) (snd (fst x)) st (snd x).

Lemma scan_mesh_flat p mi m : forall ti st,
  scan_mesh Rops p mi ti st m = fold_left (step_tri p) (flat_mesh mi ti m) st.
Proof. induction m; intros; simpl; auto. Qed.
Lemma scan_meshes_flat p ms : forall mi st,
  scan_meshes Rops p mi st ms = fold_left (step_tri p) (flat_meshes mi ms) st.
Proof.
  induction ms; intros; simpl; auto.
  rewrite fold_left_app, <- scan_mesh_flat. apply IHms.
Qed.

Lemma flat_mesh_nth mi m : forall ti0 ti t,
  In (mi, ti, t) (flat_mesh mi ti0 m) <-> (ti0 <= ti)%nat /\ nth_error m (ti - ti0) = Some t.
Proof.
  induction m; intros; simpl.
  - split; [tauto|]. intros [_ H]. destruct (ti - ti0)%nat; discriminate.
  - rewrite IHm. split.
    + intros [H | [H1 H2]].
      * inversion H; subst. split; [lia|]. rewrite Nat.sub_diag. reflexivity.
      * split; [lia|]. replace (ti - ti0)%nat with (S (ti - S ti0)) by lia. exact H2.
    + intros [H1 H2]. destruct (Nat.eq_dec ti ti0).
      * subst. rewrite Nat.sub_diag in H2. inversion H2. auto.
      * right. split; [lia|]. replace (ti - ti0)%nat with (S (ti - S ti0)) in H2 by lia. exact H2.
Qed.
Lemma flat_mesh_mi mi m : forall ti0 x, In x (flat_mesh mi ti0 m) -> fst (fst x) = mi.
Proof. induction m; simpl; intros; [tauto|]. destruct H; [subst; auto | eauto]. Qed.

Lemma flat_meshes_nth ms : forall mi0 mi ti t,
  In (mi, ti, t) (flat_meshes mi0 ms) <-> (mi0 <= mi)%nat /\ nth_tri ms (mi - mi0) ti = Some t.
Proof.
  induction ms; intros; simpl.
  - unfold nth_tri. split; [tauto|]. intros [_ H]. destruct (mi - mi0)%nat; discriminate.
  - rewrite in_app_iff, IHms. unfold nth_tri. split.
    + intros [H | [H1 H2]].
      * pose proof (flat_mesh_mi _ _ _ _ H) as E. simpl in E. subst mi0.
        apply flat_mesh_nth in H. split; [lia|]. rewrite Nat.sub_diag. simpl. rewrite Nat.sub_0_r in H. tauto.
      * split; [lia|]. replace (mi - mi0)%nat with (S (mi - S mi0)) by lia. exact H2.
    + intros [H1 H2]. destruct (Nat.eq_dec mi mi0).
      * subst. left. rewrite Nat.sub_diag in H2. simpl in H2. apply flat_mesh_nth. rewrite Nat.sub_0_r. split; [lia|auto].
      * right. split; [lia|]. replace (mi - mi0)%nat with (S (mi - S mi0)) in H2 by lia. exact H2.
Qed.

(* ---------- the running minimum over a list of tagged triangles ---------- *)
Definition dtri (p : rvec) (x : tagged) := dist_point_triangle Rops p (fst (snd x)) (vzero Rops).

Lemma step_err_sticky p l : forall st c, is_err st = Some c -> is_err (fold_left (step_tri p) l st) = Some c.
Proof.
  induction l; intros; simpl; auto. apply IHl. unfold step_tri, scan_tri. rewrite H. exact H.
Qed.

Definition min_inv (p : rvec) (al0 : rvec) (l : list tagged) (st : @istate R) : Prop :=
  is_err st = None ->
  (forall x, In x l -> exists d al ins, dtri p x = DOk d al ins) /\
  (l = [] -> is_d st = None /\ is_al st = al0 /\ is_near st = None) /\
  (l <> [] -> exists x d al ins, In x l /\ dtri p x = DOk d al ins /\ is_d st = Some d /\ is_al st = al /\
                           is_near st = Some (fst x) /\
                           forall y d' al' ins', In y l -> dtri p y = DOk d' al' ins' -> d <= d').

Lemma min_inv_fold p al0 l : min_inv p al0 l (fold_left (step_tri p) l (mkIS None al0 None None)).
Proof.
  induction l using rev_ind.
  - intros _. simpl. split; [intros x []|]. split; [auto|congruence].
  - rewrite fold_left_app. simpl.
    set (st := fold_left (step_tri p) l (mkIS None al0 None None)) in *.
    intro Herr.
    assert (E0 : is_err st = None).
    { destruct (is_err st) eqn:E; auto. unfold step_tri, scan_tri in Herr. rewrite E in Herr. congruence. }
    specialize (IHl E0). destruct IHl as [Hall [Hnil Hmin]].
    destruct x as [[mi ti] t].
    unfold step_tri, scan_tri in Herr |- *. rewrite E0 in Herr |- *. simpl fst in *. simpl snd in *.
    change (dist_point_triangle Rops p (fst t) (vzero Rops)) with (dtri p (mi, ti, t)) in *.
    destruct (dtri p (mi, ti, t)) as [dx alx insx | c] eqn:Ex; [|simpl in Herr; discriminate].
    assert (Hall' : forall y, In y (l ++ [(mi, ti, t)]) -> exists d al ins, dtri p y = DOk d al ins).
    { intros y Hy. apply in_app_iff in Hy. destruct Hy as [Hy | [Hy | []]]; [auto|subst y; eauto]. }
    split; [exact Hall'|]. split; [intro H; destruct l; discriminate|]. intros _.
    destruct l as [|y0 l1].
    + destruct (Hnil eq_refl) as (D & A & N). rewrite D. simpl.
      exists (mi, ti, t), dx, alx, insx. split; [left; auto|]. repeat split; auto.
      intros y d' al' ins' [Hy | []] Hd. subst y. rewrite Ex in Hd. inversion Hd. lra.
    + destruct Hmin as (x0 & d0 & a0 & i0 & Hin & Hd0 & D & A & N & Hle); [congruence|].
      rewrite D. cbn [lt_min is_d is_al is_near is_err]. change (fltb Rops) with Rltb.
      destruct (Rltb dx d0) eqn:Elt.
      * apply Rltb_true in Elt. cbn [lt_min is_d is_al is_near is_err].
        exists (mi, ti, t), dx, alx, insx. split; [apply in_app_iff; right; left; auto|]. repeat split; auto.
        intros y d' al' ins' Hy Hd. apply in_app_iff in Hy. destruct Hy as [Hy | [Hy | []]].
        -- specialize (Hle _ _ _ _ Hy Hd). lra.
        -- subst y. rewrite Ex in Hd. inversion Hd. lra.
      * apply Rltb_false in Elt.
        exists x0, d0, a0, i0. split; [apply in_app_iff; left; auto|]. repeat split; auto.
        intros y d' al' ins' Hy Hd. apply in_app_iff in Hy. destruct Hy as [Hy | [Hy | []]].
        -- eapply Hle; eauto.
        -- subst y. rewrite Ex in Hd. inversion Hd. lra.
Qed.

(* dist_point_interface: the answer is a triangle of the interface, carries that triangle's own weights,
   and no triangle of the interface is closer *)
Lemma interface_min_is_min : forall p ifc al0 st,
  dist_point_interface Rops p ifc al0 = st -> is_err st = None ->
  (forall mi ti t, nth_tri ifc mi ti = Some t -> exists d al ins, dist_point_triangle Rops p (fst t) (vzero Rops) = DOk d al ins) /\
  ((forall mi ti, nth_tri ifc mi ti = None) /\ is_d st = None /\ is_al st = al0 /\ is_near st = None
   \/
   exists mi ti t d ins, is_near st = Some (mi, ti) /\ nth_tri ifc mi ti = Some t /\ is_d st = Some d /\
     dist_point_triangle Rops p (fst t) (vzero Rops) = DOk d (is_al st) ins /\
     forall mi' ti' t' d' al' ins', nth_tri ifc mi' ti' = Some t' ->
        dist_point_triangle Rops p (fst t') (vzero Rops) = DOk d' al' ins' -> d <= d').
Proof.
  intros p ifc al0 st Hst Herr. subst st. unfold dist_point_interface in *.
  rewrite scan_meshes_flat in *.
  pose proof (min_inv_fold p al0 (flat_meshes 0 ifc) Herr) as [Hall [Hnil Hmin]].
  assert (Hnth : forall mi ti t, nth_tri ifc mi ti = Some t <-> In (mi, ti, t) (flat_meshes 0 ifc)).
  { intros. rewrite flat_meshes_nth. rewrite Nat.sub_0_r. split; [intro; split; [lia|auto] | tauto]. }
  split.
  - intros mi ti t H. apply Hnth in H. apply Hall in H. exact H.
  - destruct (flat_meshes 0 ifc) eqn:El.
    + left. split; [|exact (Hnil eq_refl)]. intros mi ti. destruct (nth_tri ifc mi ti) eqn:E; auto. apply Hnth in E. destruct E.
    + right. rewrite <- El in *. destruct Hmin as (x & d & al & ins & Hin & Hd & D & A & N & Hle); [rewrite El; congruence|].
      destruct x as [[mi ti] tx]. exists mi, ti, tx, d, ins. simpl in N.
      repeat split; auto; [apply Hnth; auto | unfold dtri in Hd; simpl in Hd; rewrite A; exact Hd |].
      intros mi' ti' t' d' al' ins' Hn Hd'. apply Hnth in Hn. eapply (Hle (mi', ti', t')); eauto.
Qed.

(* ---------- dist_point_geom ---------- *)
Definition zero_bounds (g : @geometry R) : list (nat * @interface R) :=
  flat_map (fun d => if Reqb (fst d) 0 then snd d else []) g.

Lemma geom_flat k p g : forall st,
  fold_left (scan_domain Rops k p) g st = fold_left (scan_boundary Rops k p) (zero_bounds g) st.
Proof.
  induction g; intros; simpl; auto.
  rewrite fold_left_app, IHg. unfold scan_domain. change (feqb Rops) with Reqb. change (f0 Rops) with 0.
  destruct (Reqb (fst a) 0); reflexivity.
Qed.

Lemma bstep_err_sticky k p l : forall st c, gs_err st = Some c -> gs_err (fold_left (scan_boundary Rops k p) l st) = Some c.
Proof. induction l; intros; simpl; auto. apply IHl. unfold scan_boundary. rewrite H. exact H. Qed.

Definition tri_of (b : nat * @interface R) (mi ti : nat) := nth_tri (snd b) mi ti.

(* all triangles of a list of boundaries are at least d away *)
Definition all_ge (p : rvec) (l : list (nat * @interface R)) (d : R) : Prop :=
  forall b' mi' ti' t' d' al' ins', In b' l -> tri_of b' mi' ti' = Some t' ->
    dist_point_triangle Rops p (fst t') (vzero Rops) = DOk d' al' ins' -> d <= d'.

(* invariant of the loop of dist_point_geom AS IT IS, for the triangle and the distance (not the weights) *)
Definition ginv (p : rvec) (l : list (nat * @interface R)) (st : @gstate R) : Prop :=
  gs_err st = None ->
  (l = [] -> gs_d st = None /\ gs_near st = None) /\
  (l <> [] -> exists b mi ti t d al ins, In b l /\ gs_near st = Some (fst b, mi, ti) /\ tri_of b mi ti = Some t /\
      gs_d st = Some d /\ dist_point_triangle Rops p (fst t) (vzero Rops) = DOk d al ins /\ all_ge p l d).

Lemma ginv_fold p al0 l : ginv p l (fold_left (scan_boundary Rops false p) l (mkGS None al0 None None)).
Proof.
  induction l using rev_ind.
  - intros _. simpl. split; [auto|congruence].
  - rewrite fold_left_app. cbn [fold_left].
    set (st := fold_left (scan_boundary Rops false p) l (mkGS None al0 None None)) in *.
    intro Herr.
    assert (E0 : gs_err st = None).
    { destruct (gs_err st) eqn:E; auto. unfold scan_boundary in Herr. rewrite E in Herr. congruence. }
    specialize (IHl E0). destruct IHl as [Hnil Hmin].
    unfold scan_boundary in Herr |- *. rewrite E0 in Herr |- *.
    set (r := dist_point_interface Rops p (snd x) (gs_al st)) in *.
    destruct (is_err r) eqn:Er; [cbn in Herr; discriminate|].
    destruct (interface_min_is_min p (snd x) (gs_al st) r eq_refl Er) as [_ [Hempty | Hr]].
    { destruct Hempty as (_ & D & _ & N). rewrite D in Herr. cbn in Herr. discriminate. }
    destruct Hr as (mi & ti & t & d & ins & N & Ht & D & Hd & Hle).
    rewrite D, N in Herr |- *.
    split; [intro H; destruct l; discriminate|]. intros _.
    destruct l as [|y0 l1].
    + destruct (Hnil eq_refl) as (D0 & N0). rewrite D0. cbn [lt_min gs_d gs_al gs_near gs_err].
      exists x, mi, ti, t, d, (is_al r), ins. split; [left; auto|]. repeat split; auto.
      intros b' mi' ti' t' d' al' ins' [Hb | []] Ht' Hd'. subst b'. eapply Hle; eauto.
    + destruct Hmin as (b0 & mi0 & ti0 & t0 & d0 & a0 & ins0 & Hin & N0 & Ht0 & D0 & Hd0 & Hle0); [congruence|].
      rewrite D0. cbn [lt_min]. change (fltb Rops) with Rltb.
      destruct (Rltb d d0) eqn:Elt; cbn [gs_d gs_al gs_near gs_err].
      * apply Rltb_true in Elt.
        exists x, mi, ti, t, d, (is_al r), ins. split; [apply in_app_iff; right; left; auto|]. repeat split; auto.
        intros b' mi' ti' t' d' al' ins' Hb Ht' Hd'. apply in_app_iff in Hb. destruct Hb as [Hb | [Hb | []]].
        -- specialize (Hle0 _ _ _ _ _ _ _ Hb Ht' Hd'). lra.
        -- subst b'. eapply Hle; eauto.
      * apply Rltb_false in Elt.
        exists b0, mi0, ti0, t0, d0, a0, ins0. split; [apply in_app_iff; left; auto|]. repeat split; auto.
        intros b' mi' ti' t' d' al' ins' Hb Ht' Hd'. apply in_app_iff in Hb. destruct Hb as [Hb | [Hb | []]].
        -- eapply Hle0; eauto.
        -- subst b'. specialize (Hle _ _ _ _ _ _ Ht' Hd'). lra.
Qed.

Lemma geom_unfold p g al0 :
  dist_point_geom Rops p g al0 = fold_left (scan_boundary Rops false p) (zero_bounds g) (mkGS None al0 None None).
Proof. unfold dist_point_geom, dist_point_geom_gen. apply geom_flat. Qed.

(* dist_point_geom as it is: the TRIANGLE and the DISTANCE handed back are right - a triangle of a boundary of a
   zero-conductivity domain, none of these boundaries has a closer one - in any declaration order *)
Lemma geom_nearest_triangle : forall p g al0 st,
  dist_point_geom Rops p g al0 = st -> gs_err st = None -> zero_bounds g <> [] ->
  exists b mi ti t d al ins, In b (zero_bounds g) /\ gs_near st = Some (fst b, mi, ti) /\ nth_tri (snd b) mi ti = Some t /\
      gs_d st = Some d /\ dist_point_triangle Rops p (fst t) (vzero Rops) = DOk d al ins /\ all_ge p (zero_bounds g) d.
Proof.
  intros p g al0 st Hst Herr Hne. subst st. rewrite geom_unfold in *.
  destruct (ginv_fold p al0 (zero_bounds g) Herr) as [_ H]. exact (H Hne).
Qed.

(* ... and the WEIGHTS handed back are those of the nearest triangle of the LAST boundary scanned *)
Lemma geom_alphas_of_last : forall p g al0 st l bl,
  dist_point_geom Rops p g al0 = st -> gs_err st = None -> zero_bounds g = l ++ [bl] ->
  exists mi ti t d ins, nth_tri (snd bl) mi ti = Some t /\
      dist_point_triangle Rops p (fst t) (vzero Rops) = DOk d (gs_al st) ins /\ all_ge p [bl] d.
Proof.
  intros p g al0 st l bl Hst Herr Hz. subst st. rewrite geom_unfold, Hz, fold_left_app in *. cbn [fold_left] in *.
  set (st := fold_left (scan_boundary Rops false p) l (mkGS None al0 None None)) in *.
  assert (E0 : gs_err st = None).
  { destruct (gs_err st) eqn:E; auto. unfold scan_boundary in Herr. rewrite E in Herr. congruence. }
  unfold scan_boundary in Herr |- *. rewrite E0 in Herr |- *.
  set (r := dist_point_interface Rops p (snd bl) (gs_al st)) in *.
  destruct (is_err r) eqn:Er; [cbn in Herr; discriminate|].
  destruct (interface_min_is_min p (snd bl) (gs_al st) r eq_refl Er) as [_ [Hempty | Hr]].
  { destruct Hempty as (_ & D & _ & N). rewrite D in Herr. cbn in Herr. discriminate. }
  destruct Hr as (mi & ti & t & d & ins & N & Ht & D & Hd & Hle).
  rewrite D, N. exists mi, ti, t, d, ins.
  assert (A : gs_al (if lt_min Rops d (gs_d st) then mkGS (Some d) (is_al r) (Some (fst bl, mi, ti)) None
                     else mkGS (gs_d st) (is_al r) (gs_near st) None) = is_al r) by (destruct (lt_min Rops d (gs_d st)); reflexivity).
  rewrite A. repeat split; auto.
  intros b' mi' ti' t' d' al' ins' [Hb | []] Ht' Hd'. subst b'. eapply Hle; eauto.
Qed.

(* PARTIAL: when the last boundary scanned holds a triangle strictly nearer than every triangle of the boundaries
   scanned before it, the weights are those of the returned triangle *)
Definition last_is_strictly_nearest (p : rvec) (l : list (nat * @interface R)) (bl : nat * @interface R) : Prop :=
  exists mi ti t d al ins, nth_tri (snd bl) mi ti = Some t /\
    dist_point_triangle Rops p (fst t) (vzero Rops) = DOk d al ins /\
    forall b' mi' ti' t' d' al' ins', In b' l -> tri_of b' mi' ti' = Some t' ->
      dist_point_triangle Rops p (fst t') (vzero Rops) = DOk d' al' ins' -> d < d'.

Lemma geom_alphas_belong_partial : forall p g al0 st l bl,
  dist_point_geom Rops p g al0 = st -> gs_err st = None -> zero_bounds g = l ++ [bl] ->
  last_is_strictly_nearest p l bl ->
  exists b mi ti t d ins, In b (zero_bounds g) /\ gs_near st = Some (fst b, mi, ti) /\ nth_tri (snd b) mi ti = Some t /\
      gs_d st = Some d /\ dist_point_triangle Rops p (fst t) (vzero Rops) = DOk d (gs_al st) ins /\ all_ge p (zero_bounds g) d.
Proof.
  intros p g al0 st l bl Hst Herr Hz (mi1 & ti1 & t1 & d1 & al1 & ins1 & Ht1 & Hd1 & Hstrict). subst st.
  rewrite geom_unfold, Hz, fold_left_app in *. cbn [fold_left] in *.
  pose proof (ginv_fold p al0 l) as Hinv.
  set (st := fold_left (scan_boundary Rops false p) l (mkGS None al0 None None)) in *.
  assert (E0 : gs_err st = None).
  { destruct (gs_err st) eqn:E; auto. unfold scan_boundary in Herr. rewrite E in Herr. congruence. }
  specialize (Hinv E0). destruct Hinv as [Hnil Hmin].
  unfold scan_boundary in Herr |- *. rewrite E0 in Herr |- *.
  set (r := dist_point_interface Rops p (snd bl) (gs_al st)) in *.
  destruct (is_err r) eqn:Er; [cbn in Herr; discriminate|].
  destruct (interface_min_is_min p (snd bl) (gs_al st) r eq_refl Er) as [_ [Hempty | Hr]].
  { destruct Hempty as (_ & D & _ & N). rewrite D in Herr. cbn in Herr. discriminate. }
  destruct Hr as (mi & ti & t & d & ins & N & Ht & D & Hd & Hle).
  rewrite D, N.
  assert (Hd1' : d <= d1) by exact (Hle _ _ _ _ _ _ Ht1 Hd1).
  assert (Himp : lt_min Rops d (gs_d st) = true).
  { destruct l as [|y0 l1].
    - destruct (Hnil eq_refl) as (D0 & _). rewrite D0. reflexivity.
    - destruct Hmin as (b0 & mi0 & ti0 & t0 & d0 & a0 & ins0 & Hin & N0 & Ht0 & D0 & Hd0 & Hle0); [congruence|].
      rewrite D0. cbn [lt_min]. change (fltb Rops) with Rltb. apply Rltb_true.
      specialize (Hstrict _ _ _ _ _ _ _ Hin Ht0 Hd0). lra. }
  rewrite Himp. cbn [gs_d gs_al gs_near gs_err].
  exists bl, mi, ti, t, d, ins. split; [apply in_app_iff; right; left; auto|]. repeat split; auto.
  intros b' mi' ti' t' d' al' ins' Hb Ht' Hd'. apply in_app_iff in Hb. destruct Hb as [Hb | [Hb | []]].
  - specialize (Hstrict _ _ _ _ _ _ _ Hb Ht' Hd'). lra.
  - subst b'. eapply Hle; eauto.
Qed.

(* special case: a single boundary of a zero-conductivity domain (only the air is non-conductive) *)
Lemma geom_alphas_belong_single : forall p g al0 st bl,
  dist_point_geom Rops p g al0 = st -> gs_err st = None -> zero_bounds g = [bl] ->
  exists b mi ti t d ins, In b (zero_bounds g) /\ gs_near st = Some (fst b, mi, ti) /\ nth_tri (snd b) mi ti = Some t /\
      gs_d st = Some d /\ dist_point_triangle Rops p (fst t) (vzero Rops) = DOk d (gs_al st) ins /\ all_ge p (zero_bounds g) d.
Proof.
  intros p g al0 st bl Hst Herr Hz.
  destruct (geom_alphas_of_last p g al0 st [] bl Hst Herr Hz) as (mi & ti & t & d & ins & Ht & Hd & _).
  apply (geom_alphas_belong_partial p g al0 st [] bl Hst Herr Hz).
  exists mi, ti, t, d, (gs_al st), ins. repeat split; auto. intros b' ? ? ? ? ? ? [].
Qed.

(* ---------- sensor rows ---------- *)
Lemma row_set_cols (r : @srow R) c v : forall c', In c' (map fst (row_set r c v)) -> c' = c \/ In c' (map fst r).
Proof.
  induction r as [|[c0 v0] r]; simpl; intros c' H.
  - destruct H as [H | []]; auto.
  - destruct (Nat.eqb c c0) eqn:E; simpl in H.
    + apply Nat.eqb_eq in E. subst. destruct H; auto.
    + destruct H as [H | H]; [auto|]. apply IHr in H. tauto.
Qed.
Lemma row_set_length (r : @srow R) c v : (length (row_set r c v) <= S (length r))%nat.
Proof. induction r as [|[c0 v0] r]; simpl; [lia|]. destruct (Nat.eqb c c0); simpl; lia. Qed.

Lemma row_support_le3 : forall (ix : idx3) (al : rvec),
  (length (write_row ix al) <= 3)%nat /\
  forall c, In c (map fst (write_row ix al)) -> c = get3 ix 0 \/ c = get3 ix 1 \/ c = get3 ix 2.
Proof.
  intros ix al. unfold write_row. split.
  - pose proof (row_set_length (row_set (row_set [] (get3 ix 0) (get3 al 0)) (get3 ix 1) (get3 al 1)) (get3 ix 2) (get3 al 2)).
    pose proof (row_set_length (row_set [] (get3 ix 0) (get3 al 0)) (get3 ix 1) (get3 al 1)).
    pose proof (row_set_length (@nil (nat * R)) (get3 ix 0) (get3 al 0)). simpl in *. lia.
  - intros c H. apply row_set_cols in H. destruct H as [H | H]; [auto|].
    apply row_set_cols in H. destruct H as [H | H]; [auto|].
    apply row_set_cols in H. destruct H as [H | []]; auto.
Qed.

Definition distinct3 (ix : idx3) : Prop := get3 ix 0 <> get3 ix 1 /\ get3 ix 0 <> get3 ix 2 /\ get3 ix 1 <> get3 ix 2.

Lemma write_row_distinct : forall (ix : idx3) (al : rvec), distinct3 ix ->
  write_row ix al = [(get3 ix 0, get3 al 0); (get3 ix 1, get3 al 1); (get3 ix 2, get3 al 2)].
Proof.
  intros [[i0 i1] i2] [[a0 a1] a2] (H1 & H2 & H3). cbv [get3 fst snd] in *. unfold write_row. cbv [get3 fst snd]. cbn [row_set].
  destruct (Nat.eqb_spec i1 i0); [congruence|]. cbn [row_set].
  destruct (Nat.eqb_spec i2 i0); [congruence|]. destruct (Nat.eqb_spec i2 i1); [congruence|]. reflexivity.
Qed.

Definition row_sum (r : @srow R) : R := fold_right (fun cv acc => snd cv + acc) 0 r.

Lemma row_sums_to_one : forall (ix : idx3) (al : rvec), distinct3 ix ->
  get3 al 0 + get3 al 1 + get3 al 2 = 1 -> row_sum (write_row ix al) = 1.
Proof. intros ix al H S. rewrite write_row_distinct by auto. unfold row_sum. cbn [fold_right snd]. lra. Qed.

Lemma constant_potential_read_back : forall (ix : idx3) (al : rvec) (c : R), distinct3 ix ->
  get3 al 0 + get3 al 1 + get3 al 2 = 1 -> row_apply Rops (write_row ix al) (fun _ => c) = c.
Proof.
  intros ix al c H S. rewrite write_row_distinct by auto. unfold row_apply. cbn [fold_right snd fst]. change (fadd Rops) with Rplus. change (fmul Rops) with Rmult. change (f0 Rops) with 0.
  replace (get3 al 0 * c + (get3 al 1 * c + (get3 al 2 * c + 0))) with ((get3 al 0 + get3 al 1 + get3 al 2) * c) by ring.
  rewrite S. ring.
Qed.

(* every interface id designates one interface *)
Definition ids_ok (g : @geometry R) : Prop :=
  forall d b, In d g -> In b (snd d) -> find_iface g (fst b) = Some (snd b).

Lemma zero_bounds_in g b : In b (zero_bounds g) -> exists d, In d g /\ In b (snd d).
Proof.
  unfold zero_bounds. rewrite in_flat_map. intros (d & Hd & Hb). exists d. split; auto.
  destruct (Reqb (fst d) 0); [auto|destruct Hb].
Qed.

(* a row of Head2EEGMat as the code is: on the returned (nearest) triangle, with non-negative weights summing to
   one - those of the nearest triangle of the LAST boundary scanned - so a constant is read back.  FULL statement. *)
Lemma head2eeg_row_weights : forall g p r l bl, ids_ok g -> zero_bounds g = l ++ [bl] ->
  head2eeg_row Rops g p = Some r ->
  exists b mi ti t d al0 ins al,
    In b (zero_bounds g) /\ nth_tri (snd b) mi ti = Some t /\
    dist_point_triangle Rops p (fst t) (vzero Rops) = DOk d al0 ins /\ all_ge p (zero_bounds g) d /\
    r = write_row (snd t) al /\
    (exists mi' ti' t' d' ins', nth_tri (snd bl) mi' ti' = Some t' /\
        dist_point_triangle Rops p (fst t') (vzero Rops) = DOk d' al ins') /\
    0 <= get3 al 0 /\ 0 <= get3 al 1 /\ 0 <= get3 al 2 /\ get3 al 0 + get3 al 1 + get3 al 2 = 1 /\
    (distinct3 (snd t) -> row_sum r = 1 /\ forall c, row_apply Rops r (fun _ => c) = c).
Proof.
  intros g p r l bl Hids Hz H. unfold head2eeg_row in H.
  set (st := dist_point_geom Rops p g (vzero Rops)) in *.
  destruct (gs_err st) eqn:Eerr; [discriminate|].
  assert (Hne : zero_bounds g <> []) by (rewrite Hz; destruct l; discriminate).
  destruct (geom_nearest_triangle p g (vzero Rops) st eq_refl Eerr Hne) as (b & mi & ti & t & d & al0 & ins & Hb & N & Ht & D & Hd & Hle).
  destruct (geom_alphas_of_last p g (vzero Rops) st l bl eq_refl Eerr Hz) as (mi' & ti' & t' & d' & ins' & Ht' & Hd' & _).
  unfold geom_triangle in H. rewrite N in H.
  destruct (zero_bounds_in _ _ Hb) as (dm & Hdm & Hbd).
  rewrite (Hids _ _ Hdm Hbd), Ht in H. inversion H; subst r.
  pose proof (dpc_weights_nonneg_sum1 _ _ _ _ _ _ Hd') as (W0 & W1 & W2 & WS).
  exists b, mi, ti, t, d, al0, ins, (gs_al st). repeat split; eauto 10.
  - apply row_sums_to_one; auto.
  - intro c. apply constant_potential_read_back; auto.
Qed.

(* PARTIAL: under the hypothesis of geom_alphas_belong_partial the entries are the returned triangle's own weights,
   i.e. the row reconstructs a nearest point of the non-conductive boundaries (up to dpc: see the dpc_nearest theorems) *)
Lemma head2eeg_row_spec_partial : forall g p r l bl, ids_ok g -> zero_bounds g = l ++ [bl] ->
  last_is_strictly_nearest p l bl ->
  head2eeg_row Rops g p = Some r ->
  exists b mi ti t d al ins,
    In b (zero_bounds g) /\ nth_tri (snd b) mi ti = Some t /\
    dist_point_triangle Rops p (fst t) (vzero Rops) = DOk d al ins /\
    r = write_row (snd t) al /\ all_ge p (zero_bounds g) d.
Proof.
  intros g p r l bl Hids Hz Hlast H. unfold head2eeg_row in H.
  set (st := dist_point_geom Rops p g (vzero Rops)) in *.
  destruct (gs_err st) eqn:Eerr; [discriminate|].
  destruct (geom_alphas_belong_partial p g (vzero Rops) st l bl eq_refl Eerr Hz Hlast) as (b & mi & ti & t & d & ins & Hb & N & Ht & D & Hd & Hle).
  unfold geom_triangle in H. rewrite N in H.
  destruct (zero_bounds_in _ _ Hb) as (dm & Hdm & Hbd).
  rewrite (Hids _ _ Hdm Hbd), Ht in H. inversion H; subst r.
  exists b, mi, ti, t, d, (gs_al st), ins. repeat split; auto.
Qed.

(* a row of Head2ECoGMat *)
Lemma head2ecog_row_spec : forall ifc p r,
  head2ecog_row Rops ifc p = Some r ->
  exists mi ti t d al ins, nth_tri ifc mi ti = Some t /\
    dist_point_triangle Rops p (fst t) (vzero Rops) = DOk d al ins /\ r = write_row (snd t) al /\
    (forall mi' ti' t' d' al' ins', nth_tri ifc mi' ti' = Some t' ->
        dist_point_triangle Rops p (fst t') (vzero Rops) = DOk d' al' ins' -> d <= d') /\
    get3 al 0 + get3 al 1 + get3 al 2 = 1 /\
    (distinct3 (snd t) -> row_sum r = 1 /\ forall c, row_apply Rops r (fun _ => c) = c).
Proof.
  intros ifc p r H. unfold head2ecog_row in H.
  set (st := dist_point_interface Rops p ifc (vzero Rops)) in *.
  destruct (is_err st) eqn:Eerr; [discriminate|].
  destruct (interface_min_is_min p ifc (vzero Rops) st eq_refl Eerr) as [_ [Hempty | Hr]].
  { destruct Hempty as (_ & _ & _ & N). rewrite N in H. discriminate. }
  destruct Hr as (mi & ti & t & d & ins & N & Ht & D & Hd & Hle).
  rewrite N, Ht in H. inversion H; subst r.
  pose proof (dpc_weights_nonneg_sum1 _ _ _ _ _ _ Hd) as (W0 & W1 & W2 & WS).
  exists mi, ti, t, d, (is_al st), ins. repeat split; auto.
  - apply row_sums_to_one; auto.
  - intro c. apply constant_potential_read_back; auto.
Qed.

(* ---------- label grouping and the weight matrix ---------- *)
Lemma index_of_some names l : forall k, index_of names l = Some k -> nth_error names k = Some l.
Proof.
  induction names; simpl; intros k H; [discriminate|].
  destruct (Nat.eqb_spec a l).
  - inversion H; subst. reflexivity.
  - destruct (index_of names l); [|discriminate]. inversion H; subst. simpl. auto.
Qed.
Lemma index_of_none names l : index_of names l = None -> ~ In l names.
Proof.
  induction names; simpl; intros H; [tauto|].
  destruct (Nat.eqb_spec a l); [discriminate|].
  destruct (index_of names l); [discriminate|]. intros [E | E]; [congruence | tauto].
Qed.

Lemma names_from_labels : forall labels n0 nm0 names nb ix, group_labels nm0 n0 labels = (names, nb, ix) ->
  forall x, In x names -> In x nm0 \/ In x labels.
Proof.
  induction labels as [|a r IH]; intros n0 nm0 names nb ix H x Hx; simpl in H.
  - inversion H; subst; auto.
  - destruct (index_of nm0 a).
    + destruct (group_labels nm0 n0 r) as [[nm1 n1] ix0] eqn:Eg. inversion H; subst.
      destruct (IH _ _ _ _ _ Eg x Hx); simpl; auto.
    + destruct (group_labels (nm0 ++ [a]) (S n0) r) as [[nm1 n1] ix0] eqn:Eg. inversion H; subst.
      destruct (IH _ _ _ _ _ Eg x Hx) as [Hi | Hi]; simpl; auto.
      apply in_app_iff in Hi. destruct Hi as [Hi | [Hi | []]]; auto.
Qed.

Lemma NoDup_snoc (l : list nat) x : NoDup l -> ~ In x l -> NoDup (l ++ [x]).
Proof.
  induction l; simpl; intros Hnd Hx; [constructor; [tauto|constructor]|].
  inversion Hnd; subst. constructor; [rewrite in_app_iff; simpl; intuition|]. apply IHl; intuition.
Qed.

Lemma group_spec : forall labels names nb names' nb' ix,
  nb = length names -> NoDup names -> group_labels names nb labels = (names', nb', ix) ->
  (exists ext, names' = names ++ ext) /\ NoDup names' /\ nb' = length names' /\ length ix = length labels /\
  forall i k, nth_error ix i = Some k -> nth_error names' k = nth_error labels i.
Proof.
  induction labels as [|l r IH]; intros names nb names' nb' ix Hnb Hnd H; simpl in H.
  - inversion H; subst. repeat split; auto. exists []. rewrite app_nil_r; auto. intros [|i] k E; discriminate.
  - destruct (index_of names l) eqn:Ei.
    + destruct (group_labels names nb r) as [[nm1 n1] ix0] eqn:Eg. inversion H; subst.
      destruct (IH _ _ _ _ _ eq_refl Hnd Eg) as ((ext & He) & Hnd' & Hn & Hl & Hix).
      repeat split; eauto; [simpl; lia|].
      intros [|i] k E; simpl in *; [|auto]. inversion E; subst.
      apply index_of_some in Ei. rewrite nth_error_app1; [auto|]. apply nth_error_Some. congruence.
    + destruct (group_labels (names ++ [l]) (S nb) r) as [[nm1 n1] ix0] eqn:Eg. inversion H; subst.
      assert (Hnd2 : NoDup (names ++ [l])) by (apply NoDup_snoc; auto; apply index_of_none; auto).
      assert (Hlen2 : S (length names) = length (names ++ [l])) by (rewrite app_length; simpl; lia).
      destruct (IH (names ++ [l]) (S (length names)) _ _ _ Hlen2 Hnd2 Eg) as ((ext & He) & Hnd' & Hn & Hl & Hix).
      repeat split; eauto; [exists (l :: ext); rewrite He, <- app_assoc; reflexivity | simpl; lia |].
      intros [|i] k E; simpl in *; [|auto]. inversion E; subst.
      rewrite <- app_assoc. rewrite nth_error_app2 by lia. rewrite Nat.sub_diag. reflexivity.
Qed.

(* Sensors::getWeightsMatrix for a freshly loaded object: entry (s,i) is the weight of integration point i
   when the label of i is the s-th distinct label (in order of first appearance), and zero otherwise *)
Lemma weights_matrix_groups : forall labels (w : list R) names nb ix,
  group_labels [] 0 labels = (names, nb, ix) ->
  NoDup names /\ nb = length names /\ (forall l, In l names <-> In l labels) /\
  forall s i l wi, nth_error labels i = Some l -> nth_error w i = Some wi -> (s < nb)%nat ->
     weights_entry Rops ix w s i = if Nat.eqb (nth s names 0%nat) l then wi else 0.
Proof.
  intros labels w names nb ix H.
  destruct (group_spec labels [] 0%nat names nb ix eq_refl (NoDup_nil _) H) as ((ext & He) & Hnd & Hn & Hl & Hix).
  split; [auto|]. split; [auto|]. split.
  - intro l. split.
    + intro Hin. destruct (names_from_labels _ _ _ _ _ _ H _ Hin) as [[] | Hi]; auto.
    + intro Hin. apply In_nth_error in Hin. destruct Hin as [i Hi].
      assert (Hlen : (i < length ix)%nat) by (rewrite Hl; apply nth_error_Some; congruence).
      destruct (nth_error ix i) as [k|] eqn:Ek; [|apply nth_error_None in Ek; lia].
      specialize (Hix _ _ Ek). rewrite Hi in Hix. eapply nth_error_In; eauto.
  - intros s i l wi Hlab Hw Hs. unfold weights_entry. rewrite Hw.
    assert (Hlen : (i < length ix)%nat) by (rewrite Hl; apply nth_error_Some; congruence).
    destruct (nth_error ix i) as [k|] eqn:Ek; [|apply nth_error_None in Ek; lia].
    specialize (Hix _ _ Ek). rewrite Hlab in Hix.
    assert (Hsn : nth_error names s = Some (nth s names 0%nat)) by (apply nth_error_nth'; lia).
    change (f0 Rops) with 0.
    destruct (Nat.eqb_spec k s) as [e|ne]; destruct (Nat.eqb_spec (nth s names 0%nat) l) as [e'|ne']; auto.
    + subst k. rewrite Hsn in Hix. congruence.
    + exfalso. apply ne. rewrite <- e' in Hix.
      eapply (proj1 (NoDup_nth_error names) Hnd); [apply nth_error_Some; congruence|]. rewrite Hix, Hsn. reflexivity.
Qed.

(* ---------- the label-based constructors ---------- *)
Lemma index_of_in names l : In l names -> exists k, index_of names l = Some k.
Proof.
  induction names; simpl; intros H; [destruct H|].
  destruct (Nat.eqb_spec a l); [eauto|]. destruct H as [H | H]; [congruence|].
  destruct (IHnames H) as [k Hk]. rewrite Hk. eauto.
Qed.

(* grouping by label through the constructors: two integration points get the same row exactly when they carry the same
   label; the row is the position of the first occurrence of that label; entry (s,i) is the weight of point i when s is
   that position and zero otherwise; the matrix has one row per integration point *)
Lemma ctor_groups_by_label : forall (labels : list nat) (w : list R),
  fst (ctor_weights_matrix Rops labels w) = length labels /\
  length (ctor_index labels) = length labels /\
  (forall i li, nth_error labels i = Some li ->
     exists k, nth_error (ctor_index labels) i = Some k /\ index_of labels li = Some k /\ nth_error labels k = Some li /\
     forall s wi, nth_error w i = Some wi -> weights_entry Rops (ctor_index labels) w s i = if Nat.eqb k s then wi else 0) /\
  (forall i j li lj ki kj, nth_error labels i = Some li -> nth_error labels j = Some lj ->
     nth_error (ctor_index labels) i = Some ki -> nth_error (ctor_index labels) j = Some kj -> (ki = kj <-> li = lj)).
Proof.
  intros labels w.
  assert (Hix : forall i li, nth_error labels i = Some li ->
            exists k, nth_error (ctor_index labels) i = Some k /\ index_of labels li = Some k /\ nth_error labels k = Some li).
  { intros i li Hi. unfold ctor_index. rewrite nth_error_map, Hi. simpl.
    destruct (index_of_in labels li (nth_error_In _ _ Hi)) as [k Hk]. rewrite Hk.
    exists k. repeat split; auto. apply index_of_some; auto. }
  split; [reflexivity|]. split; [unfold ctor_index; apply map_length|]. split.
  - intros i li Hi. destruct (Hix i li Hi) as (k & H1 & H2 & H3). exists k. repeat split; auto.
    intros s wi Hw. unfold weights_entry. rewrite H1, Hw. reflexivity.
  - intros i j li lj ki kj Hi Hj Hki Hkj.
    destruct (Hix i li Hi) as (k & H1 & H2 & H3). destruct (Hix j lj Hj) as (k' & H1' & H2' & H3').
    rewrite H1 in Hki. rewrite H1' in Hkj. inversion Hki; inversion Hkj; subst. split.
    + intro E. subst. congruence.
    + intro E. subst. congruence.
Qed.

(* ---------- file semantics of Sensors::load ---------- *)
Lemma file_weights_spec : forall ncol (lastcol : list R) i wi, nth_error lastcol i = Some wi ->
  nth_error (file_weights Rops ncol lastcol) i = Some (if Nat.eqb ncol 7 then wi else 1).
Proof.
  intros ncol lastcol i wi H. unfold file_weights. destruct (Nat.eqb ncol 7); [auto|].
  rewrite nth_error_map, H. reflexivity.
Qed.

(* an unlabelled file: every integration point is its own sensor and carries the weight of the file (7th column when
   there are 7 columns, 1 otherwise) *)
Lemma unlabelled_entry : forall ncol (lastcol : list R) s i wi, nth_error lastcol i = Some wi ->
  weights_entry Rops (unlabelled_index (length lastcol)) (file_weights Rops ncol lastcol) s i =
  if Nat.eqb i s then (if Nat.eqb ncol 7 then wi else 1) else 0.
Proof.
  intros ncol lastcol s i wi H. unfold weights_entry, unlabelled_index.
  assert (Hi : (i < length lastcol)%nat) by (apply nth_error_Some; congruence).
  assert (E : nth_error (seq 0 (length lastcol)) i = Some i).
  { rewrite nth_error_nth' with (d := 0%nat) by (rewrite seq_length; auto). rewrite seq_nth by auto. reflexivity. }
  rewrite E, (file_weights_spec ncol lastcol i wi H). reflexivity.
Qed.

(* ---------- the labelled / unlabelled rule ---------- *)
Lemma labelled_rule : forall dots, file_is_labelled dots = true <-> forall b, In b dots -> b = false.
Proof.
  intro dots. unfold file_is_labelled. rewrite negb_true_iff. split.
  - intros H b Hb. destruct b; auto. exfalso.
    assert (existsb (fun b => b) dots = true) by (apply existsb_exists; exists true; auto). congruence.
  - intro H. apply not_true_is_false. intro E. apply existsb_exists in E. destruct E as (b & Hb & Hbt). rewrite (H b Hb) in Hbt. discriminate.
Qed.
Lemma labelled_rule_ignores_line_order : forall dots dots', (forall b, In b dots <-> In b dots') -> file_is_labelled dots = file_is_labelled dots'.
Proof.
  intros dots dots' H. apply eq_true_iff_eq. rewrite !labelled_rule. split; intros G b Hb; apply G; apply H; auto.
Qed.
