(* C05 -- accumulation inside omp critical: every schedule adds the same contributions, in SOME order of the
   iterations.  With a commutative-associative addition (true in R, false for doubles) the result is therefore
   independent of the schedule; for doubles the theorem that holds is the "some order" one. *)
From OM Require Import Base.Lists Geom.ParLoops Geom.ParLoopsProofs.
From Coq Require Import Permutation.
Local Open Scope Z_scope.

Section Crit.
  Variable F : Type.
  Variable E : Type.
  Variable fadd : F -> F -> F.
  Variable f0 : F.
  Notation store := (store F).
  Notation contribs := (list (list (slot * F))).
  Notation accum_list := (accum_list F fadd f0).
  Notation apply_accs := (apply_accs F fadd).
  Notation run := (run F E).
  Notation step := (step F E).
  Notation init := (init F E).

  Definition crit_its (cs : contribs) : list (list (action F E)) := map (fun svs => [Crit (accum_list svs)]) cs.

  Lemma sem_accum_list svs : forall st env, fst (sem_bs F (accum_list svs) (st, env)) = apply_accs svs st.
  Proof.
    induction svs as [|[s v] svs IH]; intros st env; simpl; auto.
  Qed.

  Lemma apply_accs_app a b st : apply_accs (a ++ b) st = apply_accs b (apply_accs a st).
  Proof. unfold ParLoops.apply_accs; apply fold_left_app. Qed.

  Lemma run_seq_crit cs st : run_seq F E (crit_its cs) st = apply_accs (concat cs) st.
  Proof.
    revert st; induction cs as [|svs cs IH]; intros st; simpl; auto.
    rewrite apply_accs_app, <- IH. unfold crit_its; simpl. f_equal.
    unfold ParLoops.run_iter; simpl. rewrite app_nil_r. apply sem_accum_list.
  Qed.

  Definition contrib_of (cs : contribs) (i : nat) : list (slot * F) := nth i cs [].

  Definition crit_inv (cs : contribs) (st0 : store) (done : list nat) (c : config F E) : Prop :=
    c_store F E c = apply_accs (flat_map (contrib_of cs) done) st0 /\ NoDup done /\
    length (c_threads F E c) = length cs /\
    (forall i, In i done -> (i < length cs)%nat) /\
    forall i th, nth_error (c_threads F E c) i = Some th ->
      (In i done /\ t_rest F E th = []) \/
      (~ In i done /\ t_rest F E th = [Crit (accum_list (contrib_of cs i))]).

  Lemma NoDup_snoc {A} (l : list A) x : NoDup l -> ~ In x l -> NoDup (l ++ [x]).
  Proof.
    induction l as [|h t IH]; simpl; intros ND Hn; [constructor; auto; constructor|].
    inversion ND; subst. constructor.
    - rewrite in_app_iff; simpl; intuition.
    - apply IH; auto.
  Qed.

  Lemma crit_inv_step cs st0 done c i : crit_inv cs st0 done c ->
    exists done', crit_inv cs st0 done' (step i c).
  Proof.
    intros (HS & ND & HL & HB & HT). unfold ParLoops.step.
    destruct (nth_error (c_threads F E c) i) as [th|] eqn:Hn; [|exists done; repeat split; auto].
    destruct (HT i th Hn) as [(Hin & Hr)|(Hnin & Hr)]; rewrite Hr.
    - exists done; repeat split; auto.
    - assert (Hlt : (i < length (c_threads F E c))%nat) by (apply nth_error_Some; congruence).
      exists (done ++ [i]). unfold crit_inv; simpl. repeat split.
      + rewrite sem_accum_list, flat_map_app, apply_accs_app, <- HS. simpl. rewrite app_nil_r. reflexivity.
      + apply NoDup_snoc; auto.
      + rewrite upd_length; auto.
      + intros j Hj. apply in_app_iff in Hj as [Hj|[<-|[]]]; auto. lia.
      + intros j th' Hj. rewrite nth_error_upd in Hj.
        destruct (Nat.eqb_spec i j) as [->|Hne]; simpl in Hj.
        * apply Nat.ltb_lt in Hlt; rewrite Hlt in Hj. injection Hj as <-. left; split; simpl; auto.
          apply in_app_iff; right; left; auto.
        * destruct (HT j th' Hj) as [(A & B)|(A & B)]; [left|right]; split; auto.
          -- apply in_app_iff; auto.
          -- rewrite in_app_iff; simpl; intros [H|[H|[]]]; auto.
  Qed.

  Lemma crit_inv_run cs st0 sch : forall done c, crit_inv cs st0 done c ->
    exists done', crit_inv cs st0 done' (run sch c).
  Proof.
    induction sch as [|i sch IH]; intros done c H; simpl; eauto.
    destruct (crit_inv_step cs st0 done c i H) as [d' H']. eapply IH; eauto.
  Qed.

  Lemma crit_inv_init cs st : crit_inv cs st [] (init (crit_its cs) st).
  Proof.
    repeat split; simpl; auto.
    - constructor.
    - unfold crit_its; rewrite !map_length; auto.
    - intros i [].
    - intros i th Hi. right; split; auto. unfold crit_its in Hi. rewrite !nth_error_map in Hi.
      unfold contrib_of. destruct (nth_error cs i) as [svs|] eqn:Ei; simpl in Hi; [|discriminate].
      injection Hi as <-; simpl. erewrite nth_error_nth; eauto.
  Qed.

  (* THEOREM B (any F, in particular doubles): a complete schedule executes the critical sections one at a time
     in some order of the iterations -- a permutation of 0..n-1 -- and the final store is exactly the result of
     applying the contributions in that order. *)
  Theorem critical_sum_some_order cs sch st :
    finished F E (run sch (init (crit_its cs) st)) ->
    exists order, Permutation order (seq 0 (length cs)) /\
      c_store F E (run sch (init (crit_its cs) st)) = apply_accs (flat_map (contrib_of cs) order) st.
  Proof.
    intros Fin. destruct (crit_inv_run cs st sch [] _ (crit_inv_init cs st)) as (order & HS & ND & HL & HB & HT).
    exists order; split; auto.
    apply NoDup_Permutation; auto; [apply seq_NoDup|].
    intros i; rewrite in_seq; split; [intros H; specialize (HB i H); lia|].
    intros [_ Hi]; simpl in Hi.
    destruct (nth_error (c_threads F E (run sch (init (crit_its cs) st))) i) as [th|] eqn:Hn;
      [|apply nth_error_None in Hn; lia].
    destruct (HT i th Hn) as [(A & _)|(_ & B)]; auto.
    rewrite (Fin th (nth_error_In _ _ Hn)) in B; discriminate.
  Qed.

  (* value of one slot: the initial value plus the contributions to that slot, folded left to right *)
  Lemma apply_accs_slot svs : forall st s,
    apply_accs svs st s = fold_left fadd (map snd (filter (fun sv => slot_eqb (fst sv) s) svs)) (st s).
  Proof.
    induction svs as [|[s' v] svs IH]; intros st s; simpl; auto.
    unfold ParLoops.apply_accs in *; simpl. rewrite IH. unfold ParLoops.supd; simpl.
    destruct (slot_eqb_spec s' s) as [->|Hne]; simpl; auto.
  Qed.

  Lemma flat_map_ext_in' {A B} (f g : A -> list B) l : (forall a, In a l -> f a = g a) -> flat_map f l = flat_map g l.
  Proof. induction l as [|x l IH]; simpl; intros H; auto. rewrite H, IH; auto. Qed.
  Lemma Permutation_flat_map' {A B} (f : A -> list B) l1 l2 : Permutation l1 l2 -> Permutation (flat_map f l1) (flat_map f l2).
  Proof.
    induction 1; simpl; auto.
    - apply Permutation_app_head; auto.
    - rewrite !app_assoc. apply Permutation_app_tail, Permutation_app_comm.
    - eapply Permutation_trans; eauto.
  Qed.

  Lemma concat_as_flat_map (cs : contribs) : concat cs = flat_map (contrib_of cs) (seq 0 (length cs)).
  Proof.
    unfold contrib_of. induction cs as [|x cs IH] using rev_ind; simpl; auto.
    rewrite concat_app, app_length; simpl. rewrite Nat.add_1_r, seq_S, flat_map_app; simpl.
    rewrite app_nth2, Nat.sub_diag by lia; simpl. f_equal.
    rewrite IH. apply flat_map_ext_in'. intros i Hi. apply in_seq in Hi. rewrite app_nth1; auto; lia.
  Qed.

  (* ---- with a commutative and associative addition the order does not matter ---- *)
  Section CommAssoc.
    Hypothesis fadd_comm : forall a b, fadd a b = fadd b a.
    Hypothesis fadd_assoc : forall a b c, fadd (fadd a b) c = fadd a (fadd b c).

    Lemma apply_accs_mor svs : forall s1 s2, store_eq F s1 s2 -> store_eq F (apply_accs svs s1) (apply_accs svs s2).
    Proof.
      induction svs as [|[s v] svs IH]; intros s1 s2 H; simpl; auto.
      apply IH. intro t. unfold ParLoops.supd. rewrite (H s). destruct (slot_eqb s t); auto.
    Qed.

    Lemma apply_accs_perm l1 l2 : Permutation l1 l2 -> forall st, store_eq F (apply_accs l1 st) (apply_accs l2 st).
    Proof.
      induction 1; intros st.
      - apply store_eq_refl.
      - simpl. apply IHPermutation.
      - simpl. apply apply_accs_mor. destruct x as [s1 v1], y as [s2 v2]; simpl. intro t.
        unfold ParLoops.supd.
        repeat match goal with |- context [slot_eqb ?a ?b] => destruct (slot_eqb_spec a b); subst end; try congruence.
        all: try (rewrite !fadd_assoc; f_equal; apply fadd_comm).
      - eapply store_eq_trans; eauto.
    Qed.

    Theorem critical_sum_schedule_independent cs sch st :
      finished F E (run sch (init (crit_its cs) st)) ->
      store_eq F (c_store F E (run sch (init (crit_its cs) st))) (run_seq F E (crit_its cs) st).
    Proof.
      intros Fin. destruct (critical_sum_some_order cs sch st Fin) as (order & HP & ->).
      rewrite run_seq_crit, concat_as_flat_map.
      apply apply_accs_perm. apply Permutation_flat_map'; auto.
    Qed.
  End CommAssoc.

  (* the critical loop is race free but NOT conflict free: DRF holds for any contributions *)
  Lemma crit_its_DRF cs : DRF F E (crit_its cs).
  Proof.
    intros i j iti itj a b _ Hi Hj Ha Hb _.
    unfold crit_its in *. rewrite nth_error_map in Hi, Hj.
    destruct (nth_error cs i); [|discriminate]. destruct (nth_error cs j); [|discriminate].
    injection Hi as <-. injection Hj as <-. simpl in *. rewrite app_nil_r in *.
    apply in_map_iff in Ha as (x & <- & _). apply in_map_iff in Hb as (y & <- & _). auto.
  Qed.
End Crit.
