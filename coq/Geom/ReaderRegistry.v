(* C17 — the registries of file readers (GeometryIO::registery, MeshIO::registery) as explicit process state.
   Every format registers one PROTOTYPE reader object (a static); a reader owns an fstream.
     create(filename) : registery.at(extension)->clone(filename)      -- a new reader per load (clones = true)
   A load opens the reader's stream, reads, and closes it on success; when the read throws, the stream of the reader
   that was used stays open (the clone is simply abandoned).  If create handed out the prototype itself (clones = false),
   a failed load would leave the prototype's stream open and `ifs.open` on an open stream fails: every later load of
   that format in the process would throw OpenError. *)
From OM Require Import Base.Lists.
Local Open Scope Z_scope.

(* what a file does to a fresh reader: exception before the stream is opened (unknown file: status only), exception after
   (stream left open), success (stream closed) *)
Inductive fkind := FOk | FFailBeforeOpen (st : Z) | FFailAfterOpen (st : Z).
Notation registry := (list bool).          (* per format: is the prototype's stream open *)
Definition E_OPEN : Z := 2130.             (* OpenMEEG::OpenError as reported by the harness *)

Definition r_load (clones : bool) (fmt : nat) (f : fkind) (r : registry) : registry * Z :=
  if clones then (r, match f with FOk => 0 | FFailBeforeOpen st | FFailAfterOpen st => st end)
  else if nth fmt r false then (r, E_OPEN)
  else match f with
       | FOk => (r, 0)
       | FFailBeforeOpen st => (r, st)
       | FFailAfterOpen st => (upd r fmt true, st)
       end.
Fixpoint r_trace (clones : bool) (h : list (nat * fkind)) (r : registry) : list Z * registry :=
  match h with
  | [] => ([], r)
  | (fmt, f) :: h' => let '(r', st) := r_load clones fmt f r in let '(t, r'') := r_trace clones h' r' in (st :: t, r'')
  end.

Definition status_of (f : fkind) : Z := match f with FOk => 0 | FFailBeforeOpen st | FFailAfterOpen st => st end.

(* with one clone per load: the registry never changes and every load gets the status the file gives to a fresh reader *)
Lemma failed_load_leaves_registry_unchanged_lemma : forall h r,
  r_trace true h r = (map (fun p => status_of (snd p)) h, r).
Proof.
  induction h as [|[fmt f] h IH]; intros r; simpl; auto.
  rewrite IH. destruct f; reflexivity.
Qed.

(* handing out the prototype: a failed .geom load (format 0) makes the next, valid, load fail *)
Lemma prototype_reuse_refuted_lemma :
  fst (r_trace false [(0%nat, FFailAfterOpen 2137); (0%nat, FOk)] [false; false]) = [2137; 2130]
  /\ fst (r_trace true [(0%nat, FFailAfterOpen 2137); (0%nat, FOk)] [false; false]) = [2137; 0].
Proof. vm_compute. split; reflexivity. Qed.
