(* Integration kernels of OpenMEEG, transcribed statement by statement, generic over Ops (Base/Ops.v).
   DEFINITIONS ONLY (no proofs here): the same Gallina terms are (a) what the theorems of C16/C02/C03 talk
   about (R instance, Base/OpsR.v), (b) what runs against the C++ (float instance, extract/prelude.ml).
   Operand order and association follow the C++ text exactly (a+b+c = (a+b)+c, d*V = V*d = (d*x,d*y,d*z)),
   the absolute thresholds are the literals of the source.

   Sources (paths relative to the repository):
     OpenMEEG/include/vect3.h      Vect3::solid_angle
     OpenMEEG/include/analytics.h  integral_simplified_green, analyticS, analyticD3, analyticDipPotDer
     OpenMEEG/include/dipole.h     Dipole::potential
     OpenMEEG/include/operators.h  Details::operatorFerguson (per-triangle term and the sum over the fan)
     OpenMEEG/src/mesh.cpp         Mesh::update: triangle area / normal (inputs of analyticS(Triangle)) *)
From OM Require Import Base.Ops Base.Vec3.
From Coq Require Import ZArith QArith List.
Import ListNotations.

Section Kernels.
  Context {F : Type} (o : Ops F).
  Local Notation "a + b" := (fadd o a b).
  Local Notation "a - b" := (fsub o a b).
  Local Notation "a * b" := (fmul o a b).
  Local Notation "a / b" := (fdiv o a b).
  Local Notation V := (vec3 F).
  Local Notation vadd := (vadd o). Local Notation vsub := (vsub o). Local Notation vscale := (vscale o).
  Local Notation vdivs := (vdivs o). Local Notation dot := (dot o). Local Notation cross := (cross o).
  Local Notation norm := (norm o). Local Notation norm2 := (norm2 o). Local Notation det3 := (det3 o).
  Local Notation normalize := (normalize o). Local Notation vopp := (vopp o).

  (* the literal 1e-10 (one correctly rounded division of exact operands = the double nearest to 10^-10) *)
  Definition thr_1e10 : F := fQ o (1 # 10000000000).

  (* ---- vect3.h: double Vect3::solid_angle(V1,V2,V3) const, receiver = x -------------------------------- *)
  Definition solid_angle_den (Y1 Y2 Y3 : V) (y1 y2 y3 : F) : F :=
    y1 * y2 * y3 + y1 * dot Y2 Y3 + y2 * dot Y3 Y1 + y3 * dot Y1 Y2.

  (* the degeneracy test shared by solid_angle and analyticD3::f, as repaired in /repo (fix: relative coplanarity
     test):  fabs(d)<=1e-10*(y1*y2*y3).  The pinned tree had the absolute  fabs(d)<1e-10  (d has the dimension of a
     volume -- DESIGN 4 #16; Geom/CoplanarForms.v keeps both forms and the refutation of the absolute one). *)
  Definition coplanar_test (d y1 y2 y3 : F) : bool := fleb o (fabs o d) (thr_1e10 * (y1 * y2 * y3)).

  Definition solid_angle (x v1 v2 v3 : V) : F :=
    let Y1 := vsub v1 x in
    let Y2 := vsub v2 x in
    let Y3 := vsub v3 x in
    let y1 := norm Y1 in
    let y2 := norm Y2 in
    let y3 := norm Y3 in
    let d := det3 Y1 Y2 Y3 in
    if coplanar_test d y1 y2 y3 then f0 o
    else f2 o * fatan2 o d (solid_angle_den Y1 Y2 Y3 y1 y2 y3).

  (* ---- analytics.h: integral_simplified_green ----------------------------------------------------------- *)
  Definition green_arg (p0x : V) (norm2p0x : F) (p1x : V) (norm2p1x : F) (p1p0 : V) (norm2p1p0 : F) : F :=
    (norm2p0x * norm2p1p0 - dot p0x p1p0) / (norm2p1x * norm2p1p0 - dot p1x p1p0).

  Definition integral_simplified_green (p0x : V) (norm2p0x : F) (p1x : V) (norm2p1x : F)
                                       (p1p0 : V) (norm2p1p0 : F) : F :=
    let arg := green_arg p0x norm2p0x p1x norm2p1x p1p0 norm2p1p0 in
    if andb (fisnormal o arg) (fltb o (f0 o) arg) then fln o arg
    else fabs o (fln o (norm2p1x / norm2p0x)).

  (* ---- analytics.h: class analyticS --------------------------------------------------------------------- *)
  Record analyticS_t := mkS {
    S_p0 : V; S_p1 : V; S_p2 : V;
    S_p2p1 : V; S_p1p0 : V; S_p0p2 : V;
    S_nu0 : V; S_nu1 : V; S_nu2 : V;
    S_n : V;
    S_norm2p2p1 : F; S_norm2p1p0 : F; S_norm2p0p2 : F }.

  (* initialize(v0,v1,v2) followed by  n = <given>  and finish_intialization() *)
  Definition analyticS_init_with_normal (v0 v1 v2 n : V) : analyticS_t :=
    let p1p0 := vsub v1 v0 in
    let p2p1 := vsub v2 v1 in
    let p0p2 := vsub v0 v2 in
    {| S_p0 := v0; S_p1 := v1; S_p2 := v2;
       S_p2p1 := p2p1; S_p1p0 := p1p0; S_p0p2 := p0p2;
       S_nu0 := normalize (cross p1p0 n);
       S_nu1 := normalize (cross p2p1 n);
       S_nu2 := normalize (cross p0p2 n);
       S_n := n;
       S_norm2p2p1 := norm p2p1; S_norm2p1p0 := norm p1p0; S_norm2p0p2 := norm p0p2 |}.

  (* analyticS(const Vect3& v0,v1,v2):  n = p1p0^p0p2;  n /= n.norm(); *)
  Definition analyticS_init (v0 v1 v2 : V) : analyticS_t :=
    let n0 := cross (vsub v1 v0) (vsub v0 v2) in
    analyticS_init_with_normal v0 v1 v2 (vdiveq o n0 (norm n0)).

  (* mesh.cpp Mesh::update:  normaldir = crossprod(v0-v1,v0-v2); area = normaldir.norm()/2.0;
     normal = normaldir.normalize()  -- what analyticS(const Triangle&) and operatorFerguson read *)
  Definition triangle_normaldir (v0 v1 v2 : V) : V := cross (vsub v0 v1) (vsub v0 v2).
  Definition triangle_area (v0 v1 v2 : V) : F := norm (triangle_normaldir v0 v1 v2) / f2 o.
  Definition triangle_normal (v0 v1 v2 : V) : V := normalize (triangle_normaldir v0 v1 v2).
  (* analyticS(const Triangle& T) *)
  Definition analyticS_init_triangle (v0 v1 v2 : V) : analyticS_t :=
    analyticS_init_with_normal v0 v1 v2 (triangle_normal v0 v1 v2).

  Definition analyticS_f (a : analyticS_t) (x : V) : F :=
    let p0x := vsub (S_p0 a) x in
    let p1x := vsub (S_p1 a) x in
    let p2x := vsub (S_p2 a) x in
    let norm2p0x := norm p0x in
    let norm2p1x := norm p1x in
    let norm2p2x := norm p2x in
    let g0 := integral_simplified_green p0x norm2p0x p1x norm2p1x (S_p1p0 a) (S_norm2p1p0 a) in
    let g1 := integral_simplified_green p1x norm2p1x p2x norm2p2x (S_p2p1 a) (S_norm2p2p1 a) in
    let g2 := integral_simplified_green p2x norm2p2x p0x norm2p0x (S_p0p2 a) (S_norm2p0p2 a) in
    let alpha := dot p0x (S_n a) in
    (dot p0x (S_nu0 a) * g0 + dot p1x (S_nu1 a) * g1 + dot p2x (S_nu2 a) * g2)
      - alpha * solid_angle x (S_p0 a) (S_p1 a) (S_p2 a).

  (* the three addends and alpha*omega of the last reduction (for the rounding-class scale) *)
  Definition analyticS_f_terms (a : analyticS_t) (x : V) : list F :=
    let p0x := vsub (S_p0 a) x in
    let p1x := vsub (S_p1 a) x in
    let p2x := vsub (S_p2 a) x in
    let norm2p0x := norm p0x in
    let norm2p1x := norm p1x in
    let norm2p2x := norm p2x in
    let g0 := integral_simplified_green p0x norm2p0x p1x norm2p1x (S_p1p0 a) (S_norm2p1p0 a) in
    let g1 := integral_simplified_green p1x norm2p1x p2x norm2p2x (S_p2p1 a) (S_norm2p2p1 a) in
    let g2 := integral_simplified_green p2x norm2p2x p0x norm2p0x (S_p0p2 a) (S_norm2p0p2 a) in
    [dot p0x (S_nu0 a) * g0; dot p1x (S_nu1 a) * g1; dot p2x (S_nu2 a) * g2;
     dot p0x (S_n a) * solid_angle x (S_p0 a) (S_p1 a) (S_p2 a)].

  (* ---- analytics.h: class analyticD3 -------------------------------------------------------------------- *)
  Record analyticD3_t := mkD3 {
    D_v0 : V; D_v1 : V; D_v2 : V;
    D_D1 : V; D_D2 : V; D_D3 : V;
    D_U1 : V; D_U2 : V; D_U3 : V }.

  Definition unit_vector (v : V) : V := vdivs v (norm v).

  Definition analyticD3_init (v0 v1 v2 : V) : analyticD3_t :=
    let D1 := vsub v1 v0 in
    let D2 := vsub v2 v1 in
    let D3 := vsub v0 v2 in
    {| D_v0 := v0; D_v1 := v1; D_v2 := v2; D_D1 := D1; D_D2 := D2; D_D3 := D3;
       D_U1 := unit_vector D1; D_U2 := unit_vector D2; D_U3 := unit_vector D3 |}.

  Definition analyticD3_f (a : analyticD3_t) (x : V) : V :=
    let Y1 := vsub (D_v0 a) x in
    let Y2 := vsub (D_v1 a) x in
    let Y3 := vsub (D_v2 a) x in
    let y1 := norm Y1 in
    let y2 := norm Y2 in
    let y3 := norm Y3 in
    let d := det3 Y1 Y2 Y3 in
    if coplanar_test d y1 y2 y3 then vconst (f0 o)
    else
      let omega := f2 o * fatan2 o d (solid_angle_den Y1 Y2 Y3 y1 y2 y3) in
      let Z1 := cross Y2 Y3 in
      let Z2 := cross Y3 Y1 in
      let Z3 := cross Y1 Y2 in
      let g1 := fln o ((y2 + dot Y2 (D_U1 a)) / (y1 + dot Y1 (D_U1 a))) in
      let g2 := fln o ((y3 + dot Y3 (D_U2 a)) / (y2 + dot Y2 (D_U2 a))) in
      let g3 := fln o ((y1 + dot Y1 (D_U3 a)) / (y3 + dot Y3 (D_U3 a))) in
      let N := vadd (vadd Z1 Z2) Z3 in
      let S := vadd (vadd (vscale g1 (D_U1 a)) (vscale g2 (D_U2 a))) (vscale g3 (D_U3 a)) in
      vdivs (vadd (vscale omega (mkV (dot Z1 N) (dot Z2 N) (dot Z3 N)))
                  (vscale d (mkV (dot (D_D2 a) S) (dot (D_D3 a) S) (dot (D_D1 a) S))))
            (norm2 N).

  (* ---- dipole.h: Dipole::potential ---------------------------------------------------------------------- *)
  Definition dipole_potential (r0 q r : V) : F :=
    let x := vsub r r0 in
    let nrm2 := norm2 x in
    dot q x / (nrm2 * fsqrt o nrm2).

  (* ---- analytics.h: class analyticDipPotDer ------------------------------------------------------------- *)
  Record analyticDipPotDer_t := mkDPD {
    P_r0 : V; P_q : V;
    P_H0 : V; P_H1 : V; P_H2 : V;
    P_H0p0DivNorm2 : V; P_H1p1DivNorm2 : V; P_H2p2DivNorm2 : V; P_n : V }.

  Definition analyticDipPotDer_init (r0 q p0 p1 p2 : V) : analyticDipPotDer_t :=
    let p1p0 := vsub p0 p1 in
    let p2p1 := vsub p1 p2 in
    let p0p2 := vsub p2 p0 in
    let p1p0n := vdivs p1p0 (norm p1p0) in
    let p2p1n := vdivs p2p1 (norm p2p1) in
    let p0p2n := vdivs p0p2 (norm p0p2) in
    let p1H0 := vscale (dot p1p0 p2p1n) p2p1n in
    let H0 := vadd p1H0 p1 in
    let H0p0 := vsub p0 H0 in
    let p2H1 := vscale (dot p2p1 p0p2n) p0p2n in
    let H1 := vadd p2H1 p2 in
    let H1p1 := vsub p1 H1 in
    let p0H2 := vscale (dot p0p2 p1p0n) p1p0n in
    let H2 := vadd p0H2 p0 in
    let H2p2 := vsub p2 H2 in
    {| P_r0 := r0; P_q := q; P_H0 := H0; P_H1 := H1; P_H2 := H2;
       P_H0p0DivNorm2 := vdivs H0p0 (norm2 H0p0);
       P_H1p1DivNorm2 := vdivs H1p1 (norm2 H1p1);
       P_H2p2DivNorm2 := vdivs H2p2 (norm2 H2p2);
       P_n := normalize (vopp (cross p1p0 p0p2)) |}.

  Definition analyticDipPotDer_f (a : analyticDipPotDer_t) (r : V) : V :=
    let P1part := mkV (dot (P_H0p0DivNorm2 a) (vsub r (P_H0 a)))
                      (dot (P_H1p1DivNorm2 a) (vsub r (P_H1 a)))
                      (dot (P_H2p2DivNorm2 a) (vsub r (P_H2 a))) in
    let x := vsub r (P_r0 a) in
    let inv_xnrm2 := f1 o / norm2 x in
    let EMpart :=
      dot (P_n a) (vsub (P_q a) (vscale inv_xnrm2 (vscale (f3 o * dot (P_q a) x) x)))
        * (inv_xnrm2 * fsqrt o inv_xnrm2) in
    vscale (fopp o EMpart) P1part.

  (* ---- operators.h: Details::operatorFerguson(x,V,m) ---------------------------------------------------- *)
  (* one triangle of the fan around V: opposite edge (A,B) = T.edge(V), area = T.area() (stored) *)
  Definition ferguson_term (x Vv A B : V) (area : F) : V :=
    let AB := vdivs (vsub A B) (f2 o * area) in
    let analyS := analyticS_init Vv A B in
    vscale (analyticS_f analyS x) AB.

  (* result = 0.0; for each triangle of the fan: result += term *)
  Definition operatorFerguson (x Vv : V) (fan : list (V * V * F)) : V :=
    fold_left (fun acc t => match t with (A, B, area) => vadd acc (ferguson_term x Vv A B area) end)
              fan (vconst (f0 o)).
End Kernels.
