(* C19: a mesh reader that succeeds has consumed as many vertices / triangles as the file announced:
   nothing is invented. *)
From OM Require Import Base.Lists Geom.MeshCount.
Require Import ZifyBool.
Local Open Scope Z_scope.

Lemma get_uint_len ts x r : get_uint ts = MOk (x, r) -> length ts = S (length r).
Proof. destruct ts as [|t r']; cbn; [discriminate|]. destruct (k_us t =? 1); [|destruct (k_us t =? 2); discriminate]. intros H; inversion H; subst; reflexivity. Qed.
Lemma get_dbl_len ts x r : get_dbl ts = MOk (x, r) -> length ts = S (length r).
Proof. destruct ts as [|t r']; cbn; [discriminate|]. destruct (k_ds t =? 1); [|destruct (k_ds t =? 2); discriminate]. intros H; inversion H; subst; reflexivity. Qed.
Lemma get_char_len ts x r : get_char ts = MOk (x, r) -> length ts = S (length r).
Proof. destruct ts as [|t r']; cbn; [discriminate|]. destruct (k_c1 t); [|discriminate]. intros H; inversion H; subst; reflexivity. Qed.

Lemma get_many_len get k :
  (forall ts x r, get ts = MOk (x, r) -> length ts = S (length r)) ->
  forall ts xs r, get_many get k ts = MOk (xs, r) -> length ts = (k + length r)%nat /\ length xs = k.
Proof.
  intros G. induction k as [|k IH]; intros ts xs r H; cbn [get_many] in H.
  - inversion H; subst. split; reflexivity.
  - destruct (get ts) as [[x r1]|e] eqn:E; [|discriminate].
    destruct (get_many get k r1) as [[xs' r2]|e] eqn:E2; [|discriminate].
    inversion H; subst. apply G in E. apply IH in E2. cbn [length]. lia.
Qed.

(* n >= 0 items of k tokens: exactly n items come back and exactly k*n tokens were consumed *)
Lemma read_items_exact get k :
  (forall ts x r, get ts = MOk (x, r) -> length ts = S (length r)) ->
  forall fuel n ts xs r, read_items fuel get k n ts = MOk (xs, r) ->
  Z.of_nat (length xs) = Z.max 0 n /\ Z.of_nat (length ts) = Z.of_nat k * Z.max 0 n + Z.of_nat (length r) /\
  Forall (fun x => length x = k) xs.
Proof.
  intros G. induction fuel as [|fuel IH]; intros n ts xs r H; cbn [read_items] in H.
  - destruct (n <=? 0) eqn:En; [|discriminate]. inversion H; subst. cbn [length]. repeat split; try lia. constructor.
  - destruct (n <=? 0) eqn:En.
    + inversion H; subst. cbn [length]. repeat split; try lia. constructor.
    + destruct (get_many get k ts) as [[x r1]|e] eqn:E; [|discriminate].
      destruct (read_items fuel get k (n - 1) r1) as [[xs' r2]|e] eqn:E2; [|discriminate].
      inversion H; subst. apply (get_many_len get k G) in E. apply IH in E2.
      destruct E as [E Ex]. destruct E2 as (L1 & L2 & L3). cbn [length].
      assert (M : Z.max 0 n = Z.max 0 (n - 1) + 1) by lia. rewrite M.
      split; [lia|]. split; [|constructor; assumption].
      rewrite Z.mul_add_distr_l. lia.
Qed.

(* tri: success means the file holds the two announced counts worth of tokens *)
Theorem tri_announced_count_checked ts pts trs :
  read_tri ts = MOk (pts, trs) ->
  exists (npts ntr : Z) (rest : list mtok),
    Z.of_nat (length pts) = Z.max 0 npts /\ Z.of_nat (length trs) = Z.max 0 ntr /\
    Z.of_nat (length ts) = 2 + 6 * Z.max 0 npts + 4 + 3 * Z.max 0 ntr + Z.of_nat (length rest) /\
    Forall (fun t => forallb (fun a => (0 <=? a) && (a <? npts)) t = true) trs.
Proof.
  unfold read_tri. intros H.
  destruct (get_char ts) as [[u r0]|e] eqn:E0; [|discriminate].
  destruct (get_uint r0) as [[npts r1]|e] eqn:E1; [|discriminate].
  destruct (read_items (length r1) get_dbl 6 npts r1) as [[ps r2]|e] eqn:E2; [|discriminate].
  destruct (get_char r2) as [[u' r3]|e] eqn:E3; [|discriminate].
  destruct (get_many get_uint 3 r3) as [[ns r4]|e] eqn:E4; [|discriminate].
  destruct (read_items (length r4) get_uint 3 (nth 2 ns 0) r4) as [[qs r5]|e] eqn:E5; [|discriminate].
  unfold check_tris in H. destruct (forallb (in_range npts) qs) eqn:F; [|discriminate].
  inversion H; subst pts trs. clear H.
  apply get_char_len in E0, E3. apply get_uint_len in E1.
  apply (read_items_exact get_dbl 6 get_dbl_len) in E2. apply (read_items_exact get_uint 3 get_uint_len) in E5.
  apply (get_many_len get_uint 3 get_uint_len) in E4.
  exists npts, (nth 2 ns 0), r5. rewrite map_length.
  destruct E2 as (A1 & A2 & _). destruct E5 as (B1 & B2 & _). destruct E4 as [C1 _].
  repeat split; try lia.
  apply Forall_forall. intros t Ht. rewrite forallb_forall in F. apply F in Ht. exact Ht.
Qed.

Theorem off_announced_count_checked ts pts trs :
  read_off ts = MOk (pts, trs) ->
  exists (npts ntr : Z) (rest : list mtok),
    Z.of_nat (length pts) = Z.max 0 npts /\ Z.of_nat (length trs) = Z.max 0 ntr /\
    Z.of_nat (length ts) = 4 + 3 * Z.max 0 npts + 4 * Z.max 0 ntr + Z.of_nat (length rest) /\
    k_word (nth 0 ts {| k_c1 := false; k_us := 0; k_u := 0; k_ds := 0; k_d := 0; k_word := 0 |}) = 1.
Proof.
  unfold read_off. intros H. destruct ts as [|m r0]; [discriminate|].
  destruct (negb (k_word m =? 1)) eqn:M; [discriminate|].
  destruct r0 as [|t r0']; [discriminate|].
  destruct (k_word t =? 2); [discriminate|].
  destruct (get_many get_uint 3 (t :: r0')) as [[hs r1]|e] eqn:E1; [|discriminate].
  destruct (read_items (length r1) get_dbl 3 (nth 0 hs 0) r1) as [[ps r2]|e] eqn:E2; [|discriminate].
  destruct (read_items (length r2) get_uint 4 (nth 1 hs 0) r2) as [[qs r3]|e] eqn:E3; [|discriminate].
  unfold check_tris in H. destruct (forallb (in_range (nth 0 hs 0)) (map (skipn 1) qs)); [|discriminate].
  inversion H; subst pts trs. clear H.
  apply (get_many_len get_uint 3 get_uint_len) in E1.
  apply (read_items_exact get_dbl 3 get_dbl_len) in E2. apply (read_items_exact get_uint 4 get_uint_len) in E3.
  exists (nth 0 hs 0), (nth 1 hs 0), r3. rewrite map_length.
  destruct E2 as (A1 & A2 & _). destruct E3 as (B1 & B2 & _). destruct E1 as [C1 _]. cbn [length nth] in *.
  repeat split; try lia.
Qed.

(* a file with fewer tokens than its counts announce is refused *)
Theorem tri_short_file_rejected ts npts r1 u r0 :
  get_char ts = MOk (u, r0) -> get_uint r0 = MOk (npts, r1) -> Z.of_nat (length r1) < 6 * npts ->
  exists e, read_tri ts = MErr e.
Proof.
  intros E0 E1 Hs. destruct (read_tri ts) as [[pts trs]|e] eqn:R; [exfalso|eauto].
  unfold read_tri in R. rewrite E0, E1 in R.
  destruct (read_items (length r1) get_dbl 6 npts r1) as [[ps r2]|e] eqn:E2; [|discriminate].
  apply (read_items_exact get_dbl 6 get_dbl_len) in E2. destruct E2 as (A1 & A2 & _). lia.
Qed.
