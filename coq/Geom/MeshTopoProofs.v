(* Lemmas about the local-orientation model: consistent meshes are left alone; per-triangle cyclic rotation and
   whole-mesh reversal do not change the consistency verdict; the reader's global repair undoes a whole-interface
   reversal (under Gauss' law, which enters as the relation between the two solid-angle signs). *)
From OM Require Import Base.Lists Geom.MeshTopo Geom.GeomModel.
From Coq Require Import Permutation.
Local Open Scope Z_scope.

Lemma consistent_untouched ts : has_correct_orientation ts = true -> correct_local_orientation ts = ts.
Proof. unfold correct_local_orientation. intros ->. reflexivity. Qed.

Lemma filter_len_perm {A} (p : A -> bool) l l' : Permutation l l' -> length (filter p l) = length (filter p l').
Proof.
  induction 1; simpl; auto.
  - destruct (p x); simpl; auto.
  - destruct (p x), (p y); simpl; auto.
  - congruence.
Qed.

Lemma existsb_perm {A} (p : A -> bool) l l' : Permutation l l' -> existsb p l = existsb p l'.
Proof.
  induction 1; simpl; auto.
  - rewrite IHPermutation; auto.
  - destruct (p x), (p y); auto.
  - congruence.
Qed.

(* the verdict only depends on the multiset of directed edges *)
Lemma has_correct_orientation_edges ts ts' :
  Permutation (flat_map tri_edges ts) (flat_map tri_edges ts') -> has_correct_orientation ts' = has_correct_orientation ts.
Proof.
  intros P. unfold has_correct_orientation. f_equal. rewrite <- (existsb_perm (edge_bad ts') _ _ P).
  assert (C : forall e, count_edge e ts' = count_edge e ts) by (intros e; unfold count_edge; symmetry; apply filter_len_perm; auto).
  generalize (flat_map tri_edges ts). intros l.
  induction l as [|e l IH]; simpl; auto. rewrite IH. f_equal.
  unfold edge_bad. rewrite !C. reflexivity.
Qed.

(* cyclic rotations of a triangle *)
Definition tri_rot (t : tri) : tri := let '(a, b, c) := t in (b, c, a).
Inductive rotated : tri -> tri -> Prop :=
| rot0 t : rotated t t
| rot1 t : rotated t (tri_rot t)
| rot2 t : rotated t (tri_rot (tri_rot t)).

Lemma rotated_edges t t' : rotated t t' -> Permutation (tri_edges t) (tri_edges t').
Proof.
  intros H; destruct H as [t|[[a b] c]|[[a b] c]]; simpl; auto.
  - (* [(b,c);(c,a);(a,b)] vs [(c,a);(a,b);(b,c)] *)
    apply Permutation_cons_append with (l := [(c, a); (a, b)]).
  - (* vs [(a,b);(b,c);(c,a)] *)
    apply Permutation_sym. apply Permutation_cons_append with (l := [(b, c); (c, a)]).
Qed.

Lemma rotated_all_edges ts ts' : Forall2 rotated ts ts' -> Permutation (flat_map tri_edges ts) (flat_map tri_edges ts').
Proof. induction 1; simpl; auto. apply Permutation_app; auto. apply rotated_edges; auto. Qed.

(* per-triangle cyclic rotation: same verdict, and a consistent mesh stays exactly as written *)
Lemma rotation_keeps_verdict ts ts' : Forall2 rotated ts ts' -> has_correct_orientation ts' = has_correct_orientation ts.
Proof. intros H. apply has_correct_orientation_edges, rotated_all_edges, H. Qed.

Lemma rotation_consistent_untouched ts ts' : Forall2 rotated ts ts' -> has_correct_orientation ts = true ->
  correct_local_orientation ts' = ts'.
Proof. intros H C. apply consistent_untouched. rewrite (rotation_keeps_verdict _ _ H). exact C. Qed.

(* whole-mesh reversal *)
Definition swap_edge (e : nat * nat) : nat * nat := (snd e, fst e).

Lemma flip_edges t : Permutation (tri_edges (tri_flip t)) (map swap_edge (tri_edges t)).
Proof.
  destruct t as [[a b] c]; simpl. unfold swap_edge; simpl.
  (* [(a,c);(c,b);(b,a)] vs [(c,b);(a,c);(b,a)] *)
  apply perm_swap.
Qed.

Lemma flip_all_edges ts : Permutation (flat_map tri_edges (map tri_flip ts)) (map swap_edge (flat_map tri_edges ts)).
Proof.
  induction ts as [|t ts IH]; simpl; auto. rewrite map_app. apply Permutation_app; auto. apply flip_edges.
Qed.

Lemma edge_eqb_swap e f : edge_eqb (swap_edge e) (swap_edge f) = edge_eqb e f.
Proof. unfold edge_eqb, swap_edge; simpl. apply andb_comm. Qed.

Lemma swap_swap e : swap_edge (swap_edge e) = e.
Proof. destruct e; reflexivity. Qed.

Lemma count_edge_flip e ts : count_edge e (map tri_flip ts) = count_edge (swap_edge e) ts.
Proof.
  unfold count_edge. rewrite (filter_len_perm _ _ _ (flip_all_edges ts)).
  induction (flat_map tri_edges ts) as [|x l IH]; simpl; auto.
  rewrite <- (edge_eqb_swap e (swap_edge x)), swap_swap.
  destruct (edge_eqb (swap_edge e) x); simpl; rewrite IH; reflexivity.
Qed.

Lemma edge_bad_flip ts e : edge_bad (map tri_flip ts) e = edge_bad ts (swap_edge e).
Proof.
  unfold edge_bad. rewrite !count_edge_flip. unfold swap_edge at 2 3 4 5; simpl.
  rewrite (Nat.eqb_sym (snd e) (fst e)).
  destruct (Nat.eqb_spec (fst e) (snd e)) as [E|E]; auto.
Qed.

Lemma existsb_map {A B} (p : B -> bool) (f : A -> B) l : existsb p (map f l) = existsb (fun a => p (f a)) l.
Proof. induction l; simpl; auto. rewrite IHl. reflexivity. Qed.

Lemma flip_keeps_verdict ts : has_correct_orientation (map tri_flip ts) = has_correct_orientation ts.
Proof.
  unfold has_correct_orientation. f_equal.
  rewrite (existsb_perm _ _ _ (flip_all_edges ts)), existsb_map.
  induction (flat_map tri_edges ts) as [|x l IH]; simpl; auto.
  rewrite IH, edge_bad_flip, swap_swap. reflexivity.
Qed.

Lemma flip_consistent_untouched ts : has_correct_orientation ts = true -> correct_local_orientation (map tri_flip ts) = map tri_flip ts.
Proof. intros C. apply consistent_untouched. rewrite flip_keeps_verdict. exact C. Qed.

Lemma tri_flip_invol t : tri_flip (tri_flip t) = t.
Proof. destruct t as [[a b] c]; reflexivity. Qed.

(* the oriented triangle set of an interface: each member mesh as written (orientation +1) or reversed (-1) *)
Definition oriented_tris (tris : nat -> list tri) (i : list (Z * nat)) : list tri :=
  flat_map (fun om => if fst om =? 1 then tris (snd om) else map tri_flip (tris (snd om))) i.

Definition neg_om (om : Z * nat) : Z * nat := (- fst om, snd om).

Lemma oriented_neg (tris : nat -> list tri) i : (forall om, In om i -> fst om = 1 \/ fst om = -1) ->
  oriented_tris (fun m => map tri_flip (tris m)) i = oriented_tris tris (map neg_om i).
Proof.
  unfold oriented_tris. induction i as [|[o m] i IH]; intros Ho; simpl; auto.
  rewrite IH by (intros om Hom; apply Ho; right; auto). f_equal.
  destruct (Ho (o, m) (or_introl eq_refl)) as [E|E]; simpl in E; subst; simpl; auto.
  rewrite map_map. rewrite (map_ext _ (fun t => t)) by apply tri_flip_invol. apply map_id.
Qed.

Lemma neg_om_invol i : map neg_om (map neg_om i) = i.
Proof. rewrite map_map. rewrite (map_ext _ (fun x => x)); [apply map_id|]. intros [o m]; unfold neg_om; simpl. f_equal. lia. Qed.

(* global_flip_by_solid_angle_sign: reverse the winding of every mesh of an interface in the files.  Gauss' law says
   the solid angle at an interior point changes sign (s becomes -s); the reader's repair then yields the same
   oriented interface as for the original files. *)
Lemma global_flip_same_oriented_interface (tris : nat -> list tri) (i i1 i2 : list (Z * nat)) (s : Z) :
  (forall om, In om i -> fst om = 1 \/ fst om = -1) -> (s = 1 \/ s = -1) ->
  orient_iface s i = Some i1 -> orient_iface (- s) i = Some i2 ->
  oriented_tris (fun m => map tri_flip (tris m)) i2 = oriented_tris tris i1.
Proof.
  intros Ho Hs H1 H2. unfold orient_iface in *.
  destruct Hs as [Hs | Hs]; rewrite Hs in *; simpl in *; injection H1 as <-; injection H2 as <-.
  - apply oriented_neg; auto.
  - rewrite oriented_neg.
    + change (map (fun om : Z * nat => (- fst om, snd om)) i) with (map neg_om i). rewrite neg_om_invol. reflexivity.
    + intros om Hom. apply in_map_iff in Hom. destruct Hom as [[o m] [<- Hin]]. simpl.
      destruct (Ho _ Hin) as [E|E]; simpl in E; subst; auto.
Qed.

(* interface_oriented_outward, combinatorial level.  [solid i] stands for the sign of the solid angle of the signed union
   [i] at an interior point; Gauss' law is the hypothesis that reversing every member reverses the sign. *)
Section Gauss.
Variable solid : list (Z * nat) -> Z.
Hypothesis gauss_reversal : forall i, solid (map neg_om i) = - solid i.

Lemma repaired_interface_sign i i' : (solid i = 1 \/ solid i = -1) -> orient_iface (solid i) i = Some i' -> solid i' = -1.
Proof.
  intros Hs H. unfold orient_iface in H. destruct Hs as [E|E]; rewrite E in *; simpl in H; injection H as <-.
  - change (map (fun om : Z * nat => (- fst om, snd om)) i) with (map neg_om i). rewrite gauss_reversal, E. reflexivity.
  - exact E.
Qed.

Lemma unclosed_interface_rejected i : solid i <> 1 -> solid i <> -1 -> orient_iface (solid i) i = None.
Proof.
  intros H1 H2. unfold orient_iface. destruct (Z.eqb_spec (solid i) 1); [congruence|]. destruct (Z.eqb_spec (solid i) (-1)); [congruence|]. reflexivity.
Qed.
End Gauss.
