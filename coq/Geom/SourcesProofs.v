(* C08 -- lemmas about Geom/Sources.v that hold for every numeric instance (loop/buffer structure). *)
From Coq Require Import List ZArith Bool Arith Lia Permutation.
From OM Require Import Base.Ops Base.Lists Geom.AdaptInt Geom.Sources.
Import ListNotations.

(* option-map over a list *)
Fixpoint omap {A B} (f : A -> option B) (l : list A) : option (list B) :=
  match l with
  | [] => Some []
  | a :: l' => match f a with
               | None => None
               | Some b => match omap f l' with None => None | Some bs => Some (b :: bs) end
               end
  end.

Lemma omap_length {A B} (f : A -> option B) l M : omap f l = Some M -> length M = length l.
Proof.
  revert M; induction l as [|a l IH]; simpl; intros M H.
  - inversion H; auto.
  - destruct (f a); [|discriminate]. destruct (omap f l); [|discriminate]. inversion H; simpl; f_equal; auto.
Qed.

Lemma omap_nth {A B} (f : A -> option B) l M a0 b0 i :
  omap f l = Some M -> i < length l -> f (nth i l a0) = Some (nth i M b0).
Proof.
  revert M i; induction l as [|a l IH]; simpl; intros M i H Hi; [lia|].
  destruct (f a) eqn:E; [|discriminate]. destruct (omap f l) eqn:E2; [|discriminate]. inversion H; subst.
  destruct i; simpl; auto. apply IH; auto. lia.
Qed.

Lemma omap_app {A B} (f : A -> option B) l1 l2 :
  omap f (l1 ++ l2) = match omap f l1, omap f l2 with Some a, Some b => Some (a ++ b) | _, _ => None end.
Proof.
  induction l1 as [|a l1 IH]; simpl.
  - destruct (omap f l2); auto.
  - destruct (f a); auto. rewrite IH. destruct (omap f l1), (omap f l2); auto.
Qed.

Lemma omap_reindex {A B} (f : A -> option B) l M a0 b0 (p : list nat) :
  omap f l = Some M -> (forall i, In i p -> i < length l) ->
  omap f (map (fun i => nth i l a0) p) = Some (map (fun i => nth i M b0) p).
Proof.
  intros H. induction p as [|i p IH]; simpl; intros Hp; auto.
  rewrite (omap_nth f l M a0 b0 i H) by (apply Hp; auto).
  rewrite IH; auto.
Qed.

Lemma omap_none {A B} (f : A -> option B) l : omap f l = None <-> exists a, In a l /\ f a = None.
Proof.
  induction l as [|a l IH]; simpl.
  - split; [discriminate|intros [a [[] _]]].
  - destruct (f a) eqn:E.
    + destruct (omap f l) eqn:E2.
      * split; [discriminate|]. intros [x [[->|Hx] Hf]]; [congruence|].
        destruct IH as [_ IH]. discriminate IH. exists x; auto.
      * split; auto. intros _. destruct IH as [IH _]. destruct (IH eq_refl) as [x [Hx Hf]]. exists x; auto.
    + split; auto. intros _. exists a; auto.
Qed.

Lemma omap_permutation {A B} (f : A -> option B) l l' M :
  Permutation l l' -> omap f l = Some M -> exists M', omap f l' = Some M' /\ Permutation M M'.
Proof.
  intros P; revert M; induction P; intros M H; simpl in *.
  - inversion H; exists []; auto.
  - destruct (f x); [|discriminate]. destruct (omap f l) eqn:E; [|discriminate]. inversion H; subst.
    destruct (IHP _ eq_refl) as [M' [H1 H2]]. rewrite H1. eexists; split; eauto.
  - destruct (f y); [|discriminate]. destruct (f x); [|discriminate]. destruct (omap f l); [|discriminate].
    inversion H; subst. eexists; split; eauto. apply perm_swap.
  - destruct (IHP1 _ H) as [M1 [H1 Q1]]. destruct (IHP2 _ H1) as [M2 [H2 Q2]].
    exists M2; split; auto. eapply perm_trans; eauto.
Qed.

Section Structure.
Context {F : Type} (o : Ops F).
Variable contains : domain (F:=F) -> pt (F:=F) -> bool.
Variable IDer : dipole (F:=F) -> triangle (F:=F) -> pt (F:=F).
Variable IPot : dipole (F:=F) -> triangle (F:=F) -> F.
Variable K : F.

Local Notation add_at := (add_at o).
Local Notation dsm_body := (dsm_body o contains IDer IPot K).
Local Notation dsm_loop := (dsm_loop o contains IDer IPot K).
Local Notation DSM := (DSM o contains IDer IPot K).
Local Notation dsm_col := (dsm_col o contains IDer IPot K).
Local Notation zeros := (zeros o).

Lemma add_at_length v i x : length (add_at v i x) = length v.
Proof. apply upd_length. Qed.

Lemma fold_left_length {A} (f : list F -> A -> list F) (Hf : forall v a, length (f v a) = length v) l v :
  length (fold_left f l v) = length v.
Proof. revert v; induction l as [|a l IH]; intros v; simpl; auto. rewrite IH; auto. Qed.

Lemma op_potder_length d m rhs c : length (op_potder o IDer d m rhs c) = length rhs.
Proof.
  unfold op_potder. apply fold_left_length. intros v t. unfold op_potder_tri.
  destruct (tr_vidx t) as [[i0 i1] i2]. rewrite !add_at_length; auto.
Qed.
Lemma op_pot_length d m rhs c : length (op_pot o IPot d m rhs c) = length rhs.
Proof. unfold op_pot. apply fold_left_length. intros v t. apply add_at_length. Qed.
Lemma dsm_omesh_length d cond fD rhs om : length (dsm_omesh o IDer IPot d cond fD rhs om) = length rhs.
Proof. unfold dsm_omesh. destruct (negb _); rewrite ?op_pot_length, op_potder_length; auto. Qed.
Lemma dsm_boundary_length d cond rhs b : length (dsm_boundary o IDer IPot K d cond rhs b) = length rhs.
Proof. unfold dsm_boundary. apply fold_left_length. intros; apply dsm_omesh_length. Qed.

Lemma zeros_length n : length (zeros n) = n.
Proof. apply repeat_length. Qed.
Lemma set_zero_zeros v : set_zero o v = zeros (length v).
Proof. unfold set_zero, Sources.zeros. induction v; simpl; auto. f_equal; auto. Qed.

(* the loop invariant: rhs_col keeps its length; with the reset, the column does not depend on its content *)
Lemma dsm_body_reset geo named buf d :
  dsm_body true geo named buf d =
  match dsm_body true geo named (zeros (length buf)) d with
  | None => None
  | Some (b', c) => Some ((if negb (feqb o (match lookup_domain contains geo named d with Some (_, dom) => dm_cond dom | None => f0 o end) (f0 o)) then b' else buf), c)
  end.
Proof.
  unfold Sources.dsm_body. destruct (lookup_domain contains geo named d) as [[k dom]|]; auto.
  rewrite zeros_length, !set_zero_zeros, zeros_length.
  destruct (negb (feqb o (dm_cond dom) (f0 o))); auto.
  destruct (dom_ok (length buf) dom); auto.
Qed.

Lemma dsm_body_length reset geo named buf d b' c :
  dsm_body reset geo named buf d = Some (b', c) -> length b' = length buf /\ length c = length buf.
Proof.
  unfold Sources.dsm_body. destruct (lookup_domain contains geo named d) as [[k dom]|]; [|discriminate].
  destruct (negb _).
  - destruct (dom_ok _ _); [|discriminate]. intros H; inversion H; subst.
    rewrite fold_left_length by (intros; apply dsm_boundary_length).
    destruct reset; unfold set_zero; rewrite ?map_length; auto.
  - intros H; inversion H; subst. rewrite zeros_length; auto.
Qed.

(* refinement: the loop with the threaded buffer computes, column by column, what each dipole gives alone *)
Lemma dsm_loop_eq_map geo named init ds :
  length init = g_size geo -> DSM geo named init ds = omap (dsm_col geo named) ds.
Proof.
  unfold Sources.DSM. revert init; induction ds as [|d ds IH]; intros init Hl; simpl; auto.
  unfold Sources.dsm_col at 1. rewrite dsm_body_reset, Hl.
  destruct (dsm_body true geo named (zeros (g_size geo)) d) as [[b' c]|] eqn:E; simpl; auto.
  rewrite IH; auto.
  destruct (dsm_body_length _ _ _ _ _ _ _ E) as [H1 _]. rewrite zeros_length in H1.
  destruct (negb _); auto.
Qed.

Lemma dsm_single geo named init d :
  length init = g_size geo ->
  DSM geo named init [d] = option_map (fun c => [c]) (dsm_col geo named d).
Proof. intros H. rewrite dsm_loop_eq_map; auto. Qed.

Lemma dsm_column_local geo named init init' ds M i d0 :
  length init = g_size geo -> length init' = g_size geo ->
  DSM geo named init ds = Some M -> i < length ds ->
  DSM geo named init' [nth i ds d0] = Some [nth i M []].
Proof.
  intros H1 H2 H Hi. rewrite dsm_loop_eq_map in H; auto. rewrite dsm_single; auto.
  rewrite (omap_nth _ _ _ d0 [] i H Hi); auto.
Qed.

Lemma dsm_failure_local geo named init ds :
  length init = g_size geo ->
  (DSM geo named init ds = None <-> exists d, In d ds /\ DSM geo named init [d] = None).
Proof.
  intros H. rewrite dsm_loop_eq_map, omap_none; auto. split; intros [d [Hd Hn]]; exists d; split; auto.
  - rewrite dsm_single, Hn; auto.
  - rewrite dsm_single in Hn; auto. destruct (dsm_col geo named d); auto; discriminate.
Qed.

Lemma dsm_reindex geo named init init' ds M d0 (p : list nat) :
  length init = g_size geo -> length init' = g_size geo ->
  DSM geo named init ds = Some M -> (forall i, In i p -> i < length ds) ->
  DSM geo named init' (map (fun i => nth i ds d0) p) = Some (map (fun i => nth i M []) p).
Proof. intros H1 H2 H Hp. rewrite dsm_loop_eq_map in *; auto. apply omap_reindex; auto. Qed.

Lemma dsm_permutation geo named init init' ds ds' M :
  length init = g_size geo -> length init' = g_size geo ->
  Permutation ds ds' -> DSM geo named init ds = Some M ->
  exists M', DSM geo named init' ds' = Some M' /\ Permutation M M'.
Proof. intros H1 H2 P H. rewrite dsm_loop_eq_map in *; auto. eapply omap_permutation; eauto. Qed.

Lemma dsm_split geo named init i1 i2 ds1 ds2 M1 M2 :
  length init = g_size geo -> length i1 = g_size geo -> length i2 = g_size geo ->
  DSM geo named i1 ds1 = Some M1 -> DSM geo named i2 ds2 = Some M2 ->
  DSM geo named init (ds1 ++ ds2) = Some (M1 ++ M2).
Proof. intros H H1 H2 A B. rewrite dsm_loop_eq_map in *; auto. rewrite omap_app, A, B; auto. Qed.

Lemma dsm_repeat geo named init ds M :
  length init = g_size geo -> DSM geo named init ds = Some M ->
  DSM geo named init (ds ++ ds) = Some (M ++ M).
Proof. intros H A. eapply dsm_split; eauto. Qed.

Lemma dsm_shape geo named init ds M :
  length init = g_size geo -> DSM geo named init ds = Some M ->
  length M = length ds /\ forall c, In c M -> length c = g_size geo.
Proof.
  intros H A. rewrite dsm_loop_eq_map in A; auto. split; [eapply omap_length; eauto|].
  intros c Hc. destruct (In_nth _ _ [] Hc) as [i [Hi Hn]]. rewrite (omap_length _ _ _ A) in Hi.
  pose proof (omap_nth _ _ _ (pzero o, pzero o) [] i A Hi) as E. rewrite Hn in E.
  unfold Sources.dsm_col in E. destruct (dsm_body _ _ _ _) as [[b' c']|] eqn:E2; [|discriminate].
  simpl in E; inversion E; subst. destruct (dsm_body_length _ _ _ _ _ _ _ E2) as [_ L]. rewrite zeros_length in L; auto.
Qed.

(* a dipole whose domain has conductivity 0 gives the zero column *)
Lemma dsm_col_nonconductive geo named d k dom :
  lookup_domain contains geo named d = Some (k, dom) -> feqb o (dm_cond dom) (f0 o) = true ->
  dsm_col geo named d = Some (zeros (g_size geo)).
Proof.
  intros L C. unfold Sources.dsm_col, Sources.dsm_body. rewrite L, C; simpl. rewrite zeros_length; auto.
Qed.

Lemma dsm_zero_in_nonconductive geo named init ds M i d0 k dom :
  length init = g_size geo -> DSM geo named init ds = Some M -> i < length ds ->
  lookup_domain contains geo named (nth i ds d0) = Some (k, dom) -> feqb o (dm_cond dom) (f0 o) = true ->
  nth i M [] = zeros (g_size geo).
Proof.
  intros H A Hi L C. rewrite dsm_loop_eq_map in A; auto.
  pose proof (omap_nth _ _ _ d0 [] i A Hi) as E. rewrite (dsm_col_nonconductive _ _ _ _ _ L C) in E. congruence.
Qed.

(* naming the domain the dipole lies in gives the same column as letting the library locate it *)
Lemma dsm_col_named_eq_located geo n d r :
  domain_of_point contains geo (dpos d) = Some r -> domain_of_name geo n = Some r ->
  dsm_col geo (Some n) d = dsm_col geo None d.
Proof.
  intros A B. unfold Sources.dsm_col, Sources.dsm_body, lookup_domain. rewrite A, B; auto.
Qed.

Lemma dsm_named_domain_eq_located geo n init init' ds :
  length init = g_size geo -> length init' = g_size geo ->
  (forall d, In d ds -> exists r, domain_of_point contains geo (dpos d) = Some r /\ domain_of_name geo n = Some r) ->
  DSM geo (Some n) init ds = DSM geo None init' ds.
Proof.
  intros H1 H2 Hd. rewrite !dsm_loop_eq_map; auto. clear H1 H2.
  induction ds as [|d ds IH]; simpl; auto.
  destruct (Hd d) as [r [A B]]; [left; auto|]. rewrite (dsm_col_named_eq_located _ _ _ _ A B).
  rewrite IH; auto. intros; apply Hd; right; auto.
Qed.

(* domain(name) returns the domain of that name when names are unique (the uniqueness itself is C11's) *)
Lemma find_idx_some {A} (p : A -> bool) l k0 k a : find_idx p l k0 = Some (k, a) ->
  k0 <= k /\ nth_error l (k - k0) = Some a /\ p a = true.
Proof.
  revert k0; induction l as [|x l IH]; simpl; intros k0 H; [discriminate|].
  destruct (p x) eqn:E.
  - inversion H; subst. rewrite Nat.sub_diag; auto.
  - destruct (IH _ H) as [H1 [H2 H3]]. split; [lia|]. split; auto.
    replace (k - k0) with (S (k - S k0)) by lia. auto.
Qed.

Lemma domain_of_name_unique (geo : geometry (F:=F)) k dom :
  nth_error (g_domains geo) k = Some dom -> NoDup (map dm_name (g_domains geo)) ->
  domain_of_name geo (dm_name dom) = Some (k, dom).
Proof.
  unfold domain_of_name. generalize (g_domains geo). intros l.
  assert (G : forall k0, nth_error l k = Some dom -> NoDup (map dm_name l) ->
              find_idx (fun d => Z.eqb (dm_name d) (dm_name dom)) l k0 = Some (k0 + k, dom)).
  { revert k; induction l as [|x l IH]; intros k k0 Hn Hd; [destruct k; discriminate|].
    simpl. destruct k; simpl in Hn.
    - inversion Hn; subst. rewrite Z.eqb_refl. f_equal. f_equal. lia.
    - inversion Hd; subst. destruct (Z.eqb_spec (dm_name x) (dm_name dom)) as [E|E].
      + exfalso. apply H1. rewrite E. apply in_map. eapply nth_error_In; eauto.
      + rewrite IH with (k := k); auto. f_equal. f_equal. lia. }
  intros; apply (G 0); auto.
Qed.

(* ---- without the reset the column of a dipole contains what was left by the previous ones: the general shape ---- *)
Lemma dsm_noreset_first geo named init d :
  DSM_noreset o contains IDer IPot K geo named init [d] =
  option_map (fun bc => [snd bc]) (Sources.dsm_body o contains IDer IPot K false geo named init d).
Proof. unfold DSM_noreset; simpl. destruct (Sources.dsm_body _ _ _ _ _ _ _ _ _ _) as [[b c]|]; auto. Qed.

(* ---- DipSource2MEGMat, DipSource2InternalPotMat: column j is a function of dipole j ---- *)
Variable MagFactor : F.
Variable kpot : dipole (F:=F) -> pt (F:=F) -> F.
Local Notation DS2MEG := (DS2MEG o MagFactor).
Local Notation DS2IP := (DS2IP o contains K kpot).

Definition ds2meg_col1 (S : sensors) (d : dipole) : list F :=
  sparse_mul_col o (sn_nb S) (sn_weights S) (map (fun po => meg_entry o MagFactor (fst po) (snd po) d) (sn_points S)).

Lemma ds2meg_eq_map S ds : DS2MEG S ds = map (ds2meg_col1 S) ds.
Proof. unfold Sources.DS2MEG, ds2meg_mat. rewrite map_map; auto. Qed.

Lemma ds2meg_column_local S ds i d0 :
  i < length ds -> DS2MEG S [nth i ds d0] = [nth i (DS2MEG S ds) []].
Proof.
  intros Hi. rewrite !ds2meg_eq_map. simpl. f_equal.
  rewrite nth_indep with (d' := ds2meg_col1 S d0) by (rewrite map_length; auto). rewrite map_nth; auto.
Qed.

Lemma ds2meg_reindex S ds d0 (p : list nat) :
  (forall i, In i p -> i < length ds) ->
  DS2MEG S (map (fun i => nth i ds d0) p) = map (fun i => nth i (DS2MEG S ds) []) p.
Proof.
  intros Hp. rewrite !ds2meg_eq_map, map_map. apply map_ext_in. intros i Hi.
  rewrite nth_indep with (d' := ds2meg_col1 S d0) by (rewrite map_length; auto). rewrite map_nth; auto.
Qed.

Lemma ds2ip_eq_map geo named pts ds :
  DS2IP geo named pts ds =
  match ip_points o contains geo pts with
  | None => None
  | Some kept => omap (ds2ip_col o contains K kpot geo named kept) ds
  end.
Proof.
  unfold Sources.DS2IP. destruct (ip_points _ _ _ _) as [kept|]; auto.
  induction ds as [|d ds IH]; simpl; auto. destruct (ds2ip_col _ _ _ _ _ _ _ _); auto. rewrite IH; auto.
Qed.

Lemma ds2ip_column_local geo named pts ds M i d0 :
  DS2IP geo named pts ds = Some M -> i < length ds ->
  DS2IP geo named pts [nth i ds d0] = Some [nth i M []].
Proof.
  rewrite !ds2ip_eq_map. destruct (ip_points _ _ _ _) as [kept|]; [|discriminate]. intros A Hi.
  simpl. rewrite (omap_nth _ _ _ d0 [] i A Hi); auto.
Qed.

Lemma ds2ip_reindex geo named pts ds M d0 (p : list nat) :
  DS2IP geo named pts ds = Some M -> (forall i, In i p -> i < length ds) ->
  DS2IP geo named pts (map (fun i => nth i ds d0) p) = Some (map (fun i => nth i M []) p).
Proof.
  rewrite !ds2ip_eq_map. destruct (ip_points _ _ _ _) as [kept|]; [|discriminate]. intros A Hp.
  apply omap_reindex; auto.
Qed.

End Structure.
