(* C03, algebraic lift (MathComp): from the homogeneity degree of each block of the symmetric-BEM system to the
   scaling law of the gains.  Unknowns: nv potentials (P1, vertex rows/columns) then nt normal currents (P0,
   triangle rows/columns);  H = [N D^T; D S]  (assembleHeadMat.cpp),  right-hand side  b = [bv; bt]
   (assembleSourceMat.cpp), x = H^-1 b, gains  A x_v  (EEG/ECoG/internal potential) and  M x_v + P  (MEG).
     lengths * s        : N*s, D*s^2, S*s^3;  dipole rhs: bv/s, bt*1     (kernel degrees, Geom/ScaleKernels.v)
     conductivities * k : N*k, D*1,   S/k;    dipole rhs: bv*1, bt/k
   The head matrix is assumed invertible (hypothesis); no square roots are needed. *)
Set Warnings "-notation-overridden,-ambiguous-paths,-notation-incompatible-format".
From mathcomp Require Import all_ssreflect all_algebra.
Set Implicit Arguments. Unset Strict Implicit. Unset Printing Implicit Defensive.
Import GRing.Theory.
Local Open Scope ring_scope.

Section Lift.
  Variable F : fieldType.
  Variables nv nt m : nat.
  Variables (N : 'M[F]_nv) (Dt : 'M[F]_(nv, nt)) (D : 'M[F]_(nt, nv)) (S : 'M[F]_nt).
  Variables (bv : 'M[F]_(nv, m)) (bt : 'M[F]_(nt, m)).
  Let H := block_mx N Dt D S.
  Let b := col_mx bv bt.
  Hypothesis Hinv : H \in unitmx.
  Let x := invmx H *m b.

  (* generic form: blocks multiplied by cN, cD, cS, right-hand side rows by betav, betat; if the factors are tied by
     cN = betav/muv, cD = betav/mut = betat/muv, cS = betat/mut then every solution of the rescaled system has
     potentials muv * (original potentials) and currents mut * (original currents) *)
  Lemma block_rescale (cN cD cS betav betat muv mut : F) (ys : 'M[F]_(nv + nt, m)) :
    betav != 0 -> betat != 0 -> muv != 0 -> mut != 0 ->
    cN = betav / muv -> cD = betav / mut -> cD = betat / muv -> cS = betat / mut ->
    block_mx (cN *: N) (cD *: Dt) (cD *: D) (cS *: S) *m ys = col_mx (betav *: bv) (betat *: bt) ->
    ys = col_mx (muv *: usubmx x) (mut *: dsubmx x).
  Proof.
    move=> bv0 bt0 mv0 mt0 eN eD1 eD2 eS.
    rewrite -{1}(vsubmxK ys); set yv := usubmx ys; set yt := dsubmx ys.
    rewrite mul_block_col => /eq_col_mx [Etop Ebot].
    pose z := col_mx (muv^-1 *: yv) (mut^-1 *: yt).
    have Hz : H *m z = b.
      rewrite /H /z /b mul_block_col; congr col_mx.
      - apply: (scalerI bv0); rewrite -Etop scalerDr eN eD1.
        by rewrite -!scalemxAr -!scalemxAl !scalerA.
      - apply: (scalerI bt0); rewrite -Ebot scalerDr {1}eD2 eS.
        by rewrite -!scalemxAr -!scalemxAl !scalerA.
    have zx : z = x by rewrite /x -Hz mulKmx.
    by rewrite -zx /z col_mxKu col_mxKd !scalerA !divff // !scale1r vsubmxK.
  Qed.

  (* ---- lengths * s ---------------------------------------------------------------------------------------- *)
  Section Length.
    Variable s : F.
    Hypothesis s0 : s != 0.
    Let Hs := block_mx (s *: N) (s ^+ 2 *: Dt) (s ^+ 2 *: D) (s ^+ 3 *: S).
    Let bs := col_mx (s^-1 *: bv) bt.

    Lemma length_scaling_solution (xs : 'M[F]_(nv + nt, m)) :
      Hs *m xs = bs -> xs = col_mx (s ^- 2 *: usubmx x) (s ^- 3 *: dsubmx x).
    Proof.
      move=> E.
      apply: (@block_rescale s (s ^+ 2) (s ^+ 3) s^-1 1 (s ^- 2) (s ^- 3)).
      - by rewrite invr_eq0.
      - exact: oner_neq0.
      - by rewrite invr_eq0 expf_neq0.
      - by rewrite invr_eq0 expf_neq0.
      - by rewrite invrK expr2 mulrA mulVf // mul1r.
      - by rewrite invrK exprS mulrA mulVf // mul1r.
      - by rewrite invrK mul1r.
      - by rewrite invrK mul1r.
      - by rewrite scale1r; exact: E.
    Qed.

    (* potentials scale by s^-2 *)
    Lemma potentials_length_scale (xs : 'M[F]_(nv + nt, m)) :
      Hs *m xs = bs -> usubmx xs = s ^- 2 *: usubmx x.
    Proof. by move/length_scaling_solution->; rewrite col_mxKu. Qed.

    (* EEG / ECoG / internal-potential-from-surface gain: a fixed (degree 0) interpolation of the potentials *)
    Lemma gain_eeg_scale p (A : 'M[F]_(p, nv)) (xs : 'M[F]_(nv + nt, m)) :
      Hs *m xs = bs -> A *m usubmx xs = s ^- 2 *: (A *m usubmx x).
    Proof. by move/potentials_length_scale->; rewrite -scalemxAr. Qed.

    (* MEG gain: Ferguson matrix of degree 0 on the potentials + primary field of degree -2 *)
    Lemma gain_meg_scale p (M P : 'M[F]_(p, _)) (xs : 'M[F]_(nv + nt, m)) :
      Hs *m xs = bs -> (s ^- 2 *: P) + M *m usubmx xs = s ^- 2 *: (P + M *m usubmx x).
    Proof. by move/potentials_length_scale->; rewrite -scalemxAr scalerDr. Qed.

    (* internal potential: Surf2Vol has a D part (degree 0) on potentials and an S part (degree 1) on currents,
       the source term has degree -2 *)
    Lemma gain_internal_pot_scale p (Bv : 'M[F]_(p, nv)) (Bt : 'M[F]_(p, nt)) (P : 'M[F]_(p, m)) (xs : 'M[F]_(nv + nt, m)) :
      Hs *m xs = bs ->
      (s ^- 2 *: P) + row_mx Bv (s *: Bt) *m xs = s ^- 2 *: (P + row_mx Bv Bt *m x).
    Proof.
      move/length_scaling_solution->; rewrite -{3}(vsubmxK x) !mul_row_col scalerDr; congr (_ + _).
      rewrite scalerDr -!scalemxAr; congr (_ + _).
      rewrite -scalemxAl scalerA; congr (_ *: _).
      by rewrite exprSr invfM -mulrA mulVf // mulr1.
    Qed.

    (* other right-hand sides, same head matrix.  EIT with a unit current on one triangle (coefficient 1/area):
       vertex rows degree 0, triangle rows degree 1  =>  potentials * s^-1;  with a unit current density
       (coefficient ~1): rows of degree 2 and 3  =>  potentials * s;  surface (dipole-density) sources: rows of degree
       1 and 2  =>  potentials unchanged *)
    Lemma potentials_length_scale_gen (a : F) (xs : 'M[F]_(nv + nt, m)) : a != 0 ->
      Hs *m xs = col_mx (a *: bv) ((a * s) *: bt) -> usubmx xs = (a / s) *: usubmx x.
    Proof.
      move=> a0 E.
      have s20 : s ^+ 2 != 0 by rewrite expf_neq0.
      have e1 : s = a / (a / s) by rewrite invf_div mulrC -mulrA mulVf // mulr1.
      have e2 : s ^+ 2 = a / (a / s ^+ 2) by rewrite invf_div mulrC -mulrA mulVf // mulr1.
      have e3 : s ^+ 2 = a * s / (a / s) by rewrite invf_div mulrC mulrA mulfVK // -expr2.
      have e4 : s ^+ 3 = a * s / (a / s ^+ 2) by rewrite invf_div mulrC mulrA mulfVK // -exprSr.
      have -> := (@block_rescale s (s ^+ 2) (s ^+ 3) a (a * s) (a / s) (a / s ^+ 2) xs _ _ _ _ e1 e2 e3 e4 E);
        by rewrite ?col_mxKu ?mulf_neq0 ?invr_eq0.
    Qed.

    Lemma gain_eit_unit_current_scale p (A : 'M[F]_(p, nv)) (xs : 'M[F]_(nv + nt, m)) :
      Hs *m xs = col_mx bv (s *: bt) -> A *m usubmx xs = s^-1 *: (A *m usubmx x).
    Proof.
      move=> E; have := (@potentials_length_scale_gen 1 xs (oner_neq0 _)).
      by rewrite scale1r mul1r div1r => /(_ E) ->; rewrite -scalemxAr.
    Qed.

    Lemma gain_eit_unit_density_scale p (A : 'M[F]_(p, nv)) (xs : 'M[F]_(nv + nt, m)) :
      Hs *m xs = col_mx (s ^+ 2 *: bv) (s ^+ 3 *: bt) -> A *m usubmx xs = s *: (A *m usubmx x).
    Proof.
      move=> E; have := (@potentials_length_scale_gen (s ^+ 2) xs (expf_neq0 _ s0)).
      rewrite -exprSr => /(_ E) ->; rewrite -scalemxAr; congr (_ *: _).
      by rewrite expr2 -mulrA mulfV // mulr1.
    Qed.

    Lemma gain_surface_source_scale p (A : 'M[F]_(p, nv)) (xs : 'M[F]_(nv + nt, m)) :
      Hs *m xs = col_mx (s *: bv) (s ^+ 2 *: bt) -> A *m usubmx xs = A *m usubmx x.
    Proof.
      move=> E; have := (@potentials_length_scale_gen s xs s0).
      by rewrite -expr2 mulfV // scale1r => /(_ E) ->.
    Qed.
  End Length.

  (* ---- conductivities * k ------------------------------------------------------------------------------------ *)
  Section Conductivity.
    Variable k : F.
    Hypothesis k0 : k != 0.
    Let Hk := block_mx (k *: N) (1 *: Dt) (1 *: D) (k^-1 *: S).
    Let bk := col_mx bv (k^-1 *: bt).

    Lemma sigma_scaling_solution (xk : 'M[F]_(nv + nt, m)) :
      Hk *m xk = bk -> xk = col_mx (k^-1 *: usubmx x) (dsubmx x).
    Proof.
      move=> E.
      have := (@block_rescale k 1 k^-1 1 k^-1 k^-1 1 xk).
      rewrite !scale1r; apply => //.
      - exact: oner_neq0.
      - by rewrite invr_eq0.
      - by rewrite invr_eq0.
      - exact: oner_neq0.
      - by rewrite invrK mul1r.
      - by rewrite invr1 mulr1.
      - by rewrite invrK mulVf.
      - by rewrite invr1 mulr1.
      - by move: E; rewrite /Hk /bk !scale1r.
    Qed.

    Lemma potentials_sigma_scale (xk : 'M[F]_(nv + nt, m)) :
      Hk *m xk = bk -> usubmx xk = k^-1 *: usubmx x.
    Proof. by move/sigma_scaling_solution->; rewrite col_mxKu. Qed.

    Lemma gain_sigma_scale p (A : 'M[F]_(p, nv)) (xk : 'M[F]_(nv + nt, m)) :
      Hk *m xk = bk -> A *m usubmx xk = k^-1 *: (A *m usubmx x).
    Proof. by move/potentials_sigma_scale->; rewrite -scalemxAr. Qed.

    (* the Ferguson operator carries one factor sigma, the primary field none: MEG gains do not change *)
    Lemma gain_meg_sigma_invariant p (M P : 'M[F]_(p, _)) (xk : 'M[F]_(nv + nt, m)) :
      Hk *m xk = bk -> P + (k *: M) *m usubmx xk = P + M *m usubmx x.
    Proof.
      move/potentials_sigma_scale->; congr (_ + _).
      by rewrite -scalemxAl -scalemxAr scalerA mulfV // scale1r.
    Qed.

    (* internal potential: D part sigma-free on potentials, S part 1/sigma on currents, source term 1/sigma *)
    Lemma gain_internal_pot_sigma_scale p (Bv : 'M[F]_(p, nv)) (Bt : 'M[F]_(p, nt)) (P : 'M[F]_(p, m)) (xk : 'M[F]_(nv + nt, m)) :
      Hk *m xk = bk ->
      (k^-1 *: P) + row_mx Bv (k^-1 *: Bt) *m xk = k^-1 *: (P + row_mx Bv Bt *m x).
    Proof.
      move/sigma_scaling_solution->; rewrite -{3}(vsubmxK x) !mul_row_col scalerDr; congr (_ + _).
      by rewrite scalerDr -!scalemxAr -scalemxAl scalemxAr.
    Qed.
  End Conductivity.
End Lift.
