(* C04 x C08 -- the premise `col i S = dsm1 i` of the adjoint theorems, discharged from the DipSourceMat loop model:
   when the batch source matrix S and the per-dipole columns dsm1 i are what Geom/Sources.v's DSM returns (for the batch, and
   for each dipole alone, from any initial buffer contents), the premise is C08's dsm_column_local, and the adjoint gains equal
   the direct ones. *)
From mathcomp Require Import all_ssreflect all_algebra.
From Coq Require Import ZArith List.
From OM Require Import Base.Ops Geom.AdaptInt Geom.Sources Geom.SourcesProofs Geom.Gain.
Set Implicit Arguments.
Unset Strict Implicit.
Unset Printing Implicit Defensive.
Import GRing.Theory.
Local Open Scope ring_scope.

Section Bridge.
Variable R : fieldType.

(* the operations DipSourceMat's loop uses, on an arbitrary field (sqrt/ln/atan2/comparisons are not used by the loop) *)
Definition ofZ (z : Z) : R :=
  match z with Z0 => 0 | Zpos p => (Pos.to_nat p)%:R | Zneg p => - (Pos.to_nat p)%:R end.
Definition FOps : Ops R :=
  mkOps R 0 1 +%R (fun x y => x - y) *%R (fun x y => x / y) -%R id (fun _ _ => false) (fun _ _ => false)
        (fun x y => x == y) ofZ id id (fun _ _ => 0) 0.

Variable contains : domain (F:=R) -> pt (F:=R) -> bool.
Variable IDer : dipole (F:=R) -> triangle (F:=R) -> pt (F:=R).
Variable IPot : dipole (F:=R) -> triangle (F:=R) -> R.
Variable K : R.
Variable geo : geometry (F:=R).
Variable named : option Z.
Variables n me mm nd : nat.

Variable ds : list (dipole (F:=R)).
Variable d0 : dipole (F:=R).
Hypothesis ds_nd : List.length ds = nd.
Variables init init1 : list R.                       (* contents of the uninitialised buffers: arbitrary *)
Hypothesis init_len : List.length init = g_size geo.
Hypothesis init1_len : List.length init1 = g_size geo.

Variable M : list (list R).
Hypothesis batch : DSM FOps contains IDer IPot K geo named init ds = Some M.

Definition col0 (o : option (list (list R))) : list R := match o with Some (c :: _) => c | _ => nil end.
(* DipSourceMat(geo,dipoles,...) as a matrix; DipSourceMat(geo,dipoles.submat(i,1,0,ncol),"").getcol(0) as a column *)
Definition S_of : 'M[R]_(n, nd) := \matrix_(r, i) List.nth (nat_of_ord r) (List.nth (nat_of_ord i) M nil) 0.
Definition dsm1_of (i : 'I_nd) : 'cV[R]_n :=
  \col_r List.nth (nat_of_ord r) (col0 (DSM FOps contains IDer IPot K geo named init1 (List.nth (nat_of_ord i) ds d0 :: nil))) 0.

Lemma column_premise : forall i, col i S_of = dsm1_of i.
Proof.
move=> i; apply/colP => r; rewrite !mxE.
have Hi : (nat_of_ord i < List.length ds)%coq_nat by rewrite ds_nd; apply/ltP.
by rewrite (@dsm_column_local R FOps contains IDer IPot K geo named init init1 ds M (nat_of_ord i) d0 init_len init1_len batch Hi).
Qed.

Variable H : 'M[R]_n.
Variable A : 'M[R]_(me, n).
Variable B : 'M[R]_(mm, n).
Variable P : 'M[R]_(mm, nd).
Variable solveLin : 'M[R]_n -> forall k, 'M[R]_(n, k) -> 'M[R]_(n, k).
Hypothesis solveLin_spec : forall (X : 'M[R]_n) k (Y : 'M[R]_(n, k)), X \in unitmx -> solveLin X Y = invmx X *m Y.

Theorem adjoint_eq_direct_dsm : H^T = H -> H \in unitmx ->
  gain_adjoint H A dsm1_of solveLin = gain_direct A S_of (invmx H).
Proof. by move=> Hs Hu; apply: adjoint_eq_direct => //; exact: column_premise. Qed.

Theorem meg_adjoint_eq_direct_dsm : H^T = H -> H \in unitmx ->
  gain_meg_adjoint H B P dsm1_of solveLin = gain_meg_direct B S_of P (invmx H).
Proof. by move=> Hs Hu; apply: meg_adjoint_eq_direct => //; exact: column_premise. Qed.
End Bridge.
