(* Additivity of the solid-angle formula (van Oosterom-Strackee, as coded) when a triangle is split by a point of an
   edge:  Omega(x; v1,v2,v3) = Omega(x; v1,v2,m) + Omega(x; v1,m,v3),  m = (1-t) v2 + t v3, 0 <= t <= 1,
   under explicit branch conditions: none of the three coplanarity tests fires and the three denominators are positive
   (each |Omega| < PI: the atan branch of atan2).  The algebraic core (the imaginary part of
   (D1 + i d1)(D2 + i d2) conj(D + i d) vanishes modulo y_k^2 = |Y_k|^2) is proved by nsatz. *)
From Coq Require Import Reals Lra Nsatz.
From OM Require Import Base.Ops Base.OpsR Base.Vec3 Geom.Kernels Geom.KernelProofs.
Local Open Scope R_scope.

Lemma split_identity (a1 a2 a3 b1 b2 b3 c1 c2 c3 t y1 y2 y3 ym : R) :
  let m1 := (1-t)*b1 + t*c1 in let m2 := (1-t)*b2 + t*c2 in let m3 := (1-t)*b3 + t*c3 in
  y1*y1 = a1*a1+a2*a2+a3*a3 -> y2*y2 = b1*b1+b2*b2+b3*b3 -> y3*y3 = c1*c1+c2*c2+c3*c3 ->
  ym*ym = m1*m1+m2*m2+m3*m3 ->
  let d := a1*(b2*c3-b3*c2) + a2*(b3*c1-b1*c3) + a3*(b1*c2-b2*c1) in
  let ab := a1*b1+a2*b2+a3*b3 in let bc := b1*c1+b2*c2+b3*c3 in let ca := c1*a1+c2*a2+c3*a3 in
  let am := a1*m1+a2*m2+a3*m3 in let bm := b1*m1+b2*m2+b3*m3 in let cm := c1*m1+c2*m2+c3*m3 in
  let D := y1*y2*y3 + y1*bc + y2*ca + y3*ab in
  let D1 := y1*y2*ym + y1*bm + y2*am + ym*ab in
  let D2 := y1*ym*y3 + y1*cm + ym*ca + y3*am in
  D*(t*D2 + (1-t)*D1) - (D1*D2 - t*(1-t)*d*d) = 0.
Proof. intros. subst d ab bc ca am bm cm D D1 D2 m1 m2 m3. nsatz. Qed.

(* atan a + atan b = atan((a+b)/(1-ab)) for a, b of the same sign with ab < 1 *)
Lemma atan_sum_range_pos a b : 0 <= a -> 0 <= b -> a * b < 1 -> - (PI / 2) < atan a + atan b < PI / 2.
Proof.
  intros Ha Hb Hab. pose proof PI_RGT_0.
  assert (0 <= atan a) by (rewrite <- atan_0; destruct Ha as [Ha| <-]; [left; apply atan_increasing; auto|right; auto]).
  assert (0 <= atan b) by (rewrite <- atan_0; destruct Hb as [Hb| <-]; [left; apply atan_increasing; auto|right; auto]).
  split; [lra|].
  destruct Hb as [Hb|Hb].
  - assert (a < / b).
    { apply Rmult_lt_reg_r with b; auto. rewrite Rinv_l by lra. exact Hab. }
    pose proof (atan_increasing _ _ H2) as Hi. rewrite atan_inv in Hi by auto. lra.
  - rewrite <- Hb, atan_0. destruct (atan_bound a). lra.
Qed.

Lemma atan_add a b : - (PI / 2) < atan a + atan b < PI / 2 -> 1 - a * b <> 0 ->
  atan a + atan b = atan ((a + b) / (1 - a * b)).
Proof.
  intros Hr Hn.
  assert (Ca : cos (atan a) <> 0) by (destruct (atan_bound a); apply Rgt_not_eq, cos_gt_0; lra).
  assert (Cb : cos (atan b) <> 0) by (destruct (atan_bound b); apply Rgt_not_eq, cos_gt_0; lra).
  assert (Cs : cos (atan a + atan b) <> 0) by (apply Rgt_not_eq, cos_gt_0; lra).
  rewrite <- (atan_tan (atan a + atan b)) at 1 by exact Hr.
  rewrite tan_plus; auto; rewrite !tan_atan; auto.
Qed.

Lemma atan_split d D D1 D2 t : 0 <= t <= 1 -> 0 < D -> 0 < D1 -> 0 < D2 ->
  D * (t * D2 + (1 - t) * D1) = D1 * D2 - t * (1 - t) * d * d ->
  atan (d / D) = atan (t * d / D1) + atan ((1 - t) * d / D2).
Proof.
  intros Ht HD H1 H2 E.
  set (a := t * d / D1). set (b := (1 - t) * d / D2).
  assert (Hc : 0 < t * D2 + (1 - t) * D1) by nra.
  assert (Hab : 1 - a * b = D * (t * D2 + (1 - t) * D1) / (D1 * D2)).
  { rewrite E. unfold a, b. field. lra. }
  assert (Hpos : 0 < 1 - a * b).
  { rewrite Hab. apply Rdiv_lt_0_compat; nra. }
  assert (Hq : (a + b) / (1 - a * b) = d / D).
  { rewrite Hab. unfold a, b. field. repeat split; lra. }
  assert (Hr : - (PI / 2) < atan a + atan b < PI / 2).
  { destruct (Rle_dec 0 d) as [Hd|Hd].
    - apply atan_sum_range_pos; try lra; unfold a, b.
      + apply Rmult_le_pos; [nra|left; apply Rinv_0_lt_compat; auto].
      + apply Rmult_le_pos; [nra|left; apply Rinv_0_lt_compat; auto].
    - assert (Ha : 0 <= - a) by (unfold a; replace (- (t * d / D1)) with (t * (- d) / D1) by (field; lra);
                                  apply Rmult_le_pos; [nra|left; apply Rinv_0_lt_compat; auto]).
      assert (Hb : 0 <= - b) by (unfold b; replace (- ((1 - t) * d / D2)) with ((1 - t) * (- d) / D2) by (field; lra);
                                  apply Rmult_le_pos; [nra|left; apply Rinv_0_lt_compat; auto]).
      pose proof (atan_sum_range_pos (- a) (- b) Ha Hb ltac:(nra)) as Hn. rewrite !atan_opp in Hn. lra. }
  rewrite <- Hq. symmetry. apply atan_add; auto. lra.
Qed.

Lemma Ratan2_pos_den y x : 0 < x -> Ratan2 y x = atan (y / x).
Proof. intros H. unfold Ratan2. destruct (Rlt_dec 0 x); [reflexivity|lra]. Qed.

Lemma norm_sq (v : V3) : norm OpsR v * norm OpsR v = vx v * vx v + vy v * vy v + vz v * vz v.
Proof. unfold norm. cbn [fsqrt OpsR]. rewrite sqrt_sqrt by apply norm2_nonneg'. unfold norm2, sqr; cbn. reflexivity. Qed.

Theorem solid_angle_edge_split_lemma (x v1 v2 v3 : V3) (t : R) :
  let m := vadd OpsR (vscale OpsR (1 - t) v2) (vscale OpsR t v3) in
  let Y1 := vsub OpsR v1 x in let Y2 := vsub OpsR v2 x in let Y3 := vsub OpsR v3 x in let Ym := vsub OpsR m x in
  0 <= t <= 1 ->
  coplanar_test OpsR (det3 OpsR Y1 Y2 Y3) (norm OpsR Y1) (norm OpsR Y2) (norm OpsR Y3) = false ->
  coplanar_test OpsR (det3 OpsR Y1 Y2 Ym) (norm OpsR Y1) (norm OpsR Y2) (norm OpsR Ym) = false ->
  coplanar_test OpsR (det3 OpsR Y1 Ym Y3) (norm OpsR Y1) (norm OpsR Ym) (norm OpsR Y3) = false ->
  0 < solid_angle_den OpsR Y1 Y2 Y3 (norm OpsR Y1) (norm OpsR Y2) (norm OpsR Y3) ->
  0 < solid_angle_den OpsR Y1 Y2 Ym (norm OpsR Y1) (norm OpsR Y2) (norm OpsR Ym) ->
  0 < solid_angle_den OpsR Y1 Ym Y3 (norm OpsR Y1) (norm OpsR Ym) (norm OpsR Y3) ->
  solid_angle OpsR x v1 v2 v3 = solid_angle OpsR x v1 v2 m + solid_angle OpsR x v1 m v3.
Proof.
  intros m Y1 Y2 Y3 Ym Ht C0 C1 C2 HD HD1 HD2.
  unfold solid_angle. cbv zeta. fold Y1 Y2 Y3 Ym. rewrite C0, C1, C2.
  cbn [fmul fatan2 f2 fZ fofZ OpsR]. rewrite !Ratan2_pos_den by assumption.
  assert (Em : Ym = mkV ((1 - t) * vx Y2 + t * vx Y3) ((1 - t) * vy Y2 + t * vy Y3) ((1 - t) * vz Y2 + t * vz Y3)).
  { unfold Ym, Y2, Y3, m, vsub, vadd, vscale; cbn. f_equal; ring. }
  assert (E1 : det3 OpsR Y1 Y2 Ym = t * det3 OpsR Y1 Y2 Y3) by (rewrite Em; unfold det3, dot, cross; cbn; ring).
  assert (E2 : det3 OpsR Y1 Ym Y3 = (1 - t) * det3 OpsR Y1 Y2 Y3) by (rewrite Em; unfold det3, dot, cross; cbn; ring).
  rewrite E1, E2.
  rewrite (atan_split (det3 OpsR Y1 Y2 Y3) _ _ _ t Ht HD HD1 HD2); [ring|].
  pose proof (split_identity (vx Y1) (vy Y1) (vz Y1) (vx Y2) (vy Y2) (vz Y2) (vx Y3) (vy Y3) (vz Y3) t
                (norm OpsR Y1) (norm OpsR Y2) (norm OpsR Y3) (norm OpsR Ym)
                (norm_sq Y1) (norm_sq Y2) (norm_sq Y3)) as K. cbv zeta in K.
  assert (Nm : norm OpsR Ym * norm OpsR Ym =
               ((1 - t) * vx Y2 + t * vx Y3) * ((1 - t) * vx Y2 + t * vx Y3) + ((1 - t) * vy Y2 + t * vy Y3) * ((1 - t) * vy Y2 + t * vy Y3)
               + ((1 - t) * vz Y2 + t * vz Y3) * ((1 - t) * vz Y2 + t * vz Y3)).
  { rewrite norm_sq. rewrite Em. cbn. reflexivity. }
  specialize (K Nm).
  unfold solid_angle_den, det3; unfold dot, cross. rewrite Em. cbn [vx vy vz fadd fsub fmul OpsR].
  rewrite Em in K. unfold det3, dot, cross in K. cbn [vx vy vz fadd fsub fmul OpsR] in K. apply Rminus_diag_uniq. rewrite <- K. ring.
Qed.
