(* Closed form = integral, PROVED for the edge term of the single-layer kernel (Coquelicot RInt):
     log(arg) of integral_simplified_green  =  int_edge 1/|x-y| dl(y)       for every x off the edge line,
   with y(t) = p0 + t (p1-p0), t in [0,1], dl = |p1-p0| dt.  This is the one-dimensional building block of
   analyticS::f (S = sum_i dist_i * g_i - alpha * solid angle); the two-dimensional identity
   analyticS::f = int_T 1/|x-y| dS itself remains measured (reference quadrature).
   Primitive: G(t) = ln((C t + B)/sqrt C + sqrt(A + 2 B t + C t^2)),  G' = sqrt C / sqrt(A + 2 B t + C t^2). *)
From Coq Require Import Reals Lra.
From Coquelicot Require Import Coquelicot.
From OM Require Import Geom.EdgeAlgebra.
Local Open Scope R_scope.

Section Calc.
  Variables A B C : R.
  Hypothesis HD : 0 < A * C - B * B.
  Hypothesis HA : 0 <= A.
  Notation q := (q A B C). Notation s := (s C). Notation arg := (arg A B C).

  Definition G (t : R) : R := ln (arg t).

  Lemma G_derive t : is_derive G t (s / sqrt (q t)).
  Proof.
    pose proof (q_pos A B C HD HA t) as Hq. pose proof (arg_pos A B C HD HA t) as Ha.
    pose proof (s_pos A B C HD HA) as Hs. pose proof (rq_pos A B C HD HA t) as Hr.
    unfold G, EdgeAlgebra.arg, EdgeAlgebra.q in *. auto_derive.
    - repeat split; auto.
    - pose proof (s_sq A B C HD HA) as SS. pose proof (s_arg A B C HD HA t) as SA.
      unfold EdgeAlgebra.arg, EdgeAlgebra.q in SA.
      set (r := sqrt (A + 2 * B * t + C * t * t)) in *.
      assert (Hx : 0 < C * t + B + s * r) by (rewrite <- SA; apply Rmult_lt_0_compat; auto).
      assert (E : forall c, s * s = c -> c * 1 * / s = s) by (intros c <-; field; lra).
      rewrite (E C SS). field. repeat split; try lra.
  Qed.

  Lemma h_continuous t : continuous (fun t => s / sqrt (q t)) t.
  Proof.
    apply (ex_derive_continuous (fun t => s / sqrt (q t))).
    pose proof (q_pos A B C HD HA t) as Hq. pose proof (rq_pos A B C HD HA t) as Hr.
    unfold EdgeAlgebra.q in *. auto_derive. repeat split; auto; lra.
  Qed.

  Lemma edge_RInt : is_RInt (fun t => s / sqrt (q t)) 0 1 (G 1 - G 0).
  Proof.
    apply (is_RInt_derive G (fun t => s / sqrt (q t))); intros; [apply G_derive | apply h_continuous].
  Qed.

  Lemma G_diff : G 1 - G 0 = ln ((sqrt A * s - B) / (sqrt (q 1) * s - (B + C))).
  Proof.
    unfold G. rewrite <- ln_div; try (apply arg_pos; assumption).
    rewrite (arg_quotient A B C HD HA). reflexivity.
  Qed.
End Calc.

From OM Require Import Base.Ops Base.OpsR Base.Vec3 Geom.Kernels Geom.KernelProofs.

Theorem green_log_is_edge_integral_lemma (p0 p1 x : V3) :
  let p0x := vsub OpsR p0 x in let p1x := vsub OpsR p1 x in let e := vsub OpsR p1 p0 in
  0 < norm2 OpsR (cross OpsR p0x e) ->
  is_RInt (fun t => norm OpsR e / norm OpsR (vsub OpsR (vadd OpsR p0 (vscale OpsR t e)) x)) 0 1
          (ln (green_arg OpsR p0x (norm OpsR p0x) p1x (norm OpsR p1x) e (norm OpsR e))).
Proof.
  intros p0x p1x e H.
  set (A := norm2 OpsR p0x). set (B := dot OpsR p0x e). set (C := norm2 OpsR e).
  assert (HD : 0 < A * C - B * B) by (unfold A, B, C; rewrite lagrange; exact H).
  assert (HA : 0 <= A) by apply norm2_nonneg'.
  pose proof (edge_RInt A B C HD HA) as HI. rewrite (G_diff A B C HD HA) in HI.
  assert (Q1 : EdgeAlgebra.q A B C 1 = norm2 OpsR p1x).
  { unfold EdgeAlgebra.q, A, B, C, p0x, p1x, e, norm2, sqr, dot, vsub; destruct p0, p1, x; cbn. ring. }
  assert (BC : B + C = dot OpsR p1x e).
  { unfold A, B, C, p0x, p1x, e, norm2, sqr, dot, vsub; destruct p0, p1, x; cbn. ring. }
  rewrite Q1, BC in HI.
  eapply is_RInt_ext; [|exact HI].
  intros t _. cbn beta. unfold norm. cbn [fsqrt OpsR]. fold C. unfold EdgeAlgebra.s. f_equal. f_equal.
  unfold EdgeAlgebra.q, A, B, C, p0x, e, norm2, sqr, dot, vsub, vadd, vscale; destruct p0, p1, x; cbn. ring.
Qed.
