(* C17 — state of an OpenMEEG::Sensors object under repeated load (sensors.cpp, Sensors::load(std::istream&)).
   Fields: m_nb, m_names, m_pointSensorIdx, rows of m_positions / m_orientations / m_weights / m_radii, m_triangles.
   A sensor file is described by [sdesc] (parsed by the check; the parse itself is a pure function of the file).
   pinned  : load only overwrites m_positions, m_weights, m_pointSensorIdx, m_nb (and m_orientations when ncol>=6);
             m_names and m_triangles are appended to.
   repaired: every field is reset before the first assignment. *)
From OM Require Import Base.Lists.
Local Open Scope Z_scope.

Record sdesc := {
  s_status : Z;            (* 0, or the exception thrown before anything is modified (OpenError, ragged lines) *)
  s_labeled : bool;
  s_names : list Z;        (* label of every line (identities), when labeled *)
  s_nlin : nat;
  s_ncol : nat             (* columns after removing the label *)
}.
Record sst := {
  x_nb : nat; x_names : list Z; x_idx : list nat; x_npos : nat; x_norient : nat; x_nweights : nat; x_nradii : nat; x_ntri : nat
}.
Definition sst0 : sst := {| x_nb := 0; x_names := []; x_idx := []; x_npos := 0; x_norient := 0; x_nweights := 0; x_nradii := 0; x_ntri := 0 |}.

Definition E_GENERIC : Z := 2160.     (* OpenMEEG::GenericError: 2000 + BAD_GENERIC as reported by the harness *)

Fixpoint index_of (x : Z) (l : list Z) : option nat :=
  match l with [] => None | y :: t => if x =? y then Some 0%nat else option_map S (index_of x t) end.

(* the "Sensor index" loop *)
Fixpoint assign (names : list Z) (nb : nat) (known : list Z) : nat * list Z * list nat :=
  match names with
  | [] => (nb, known, [])
  | n :: t =>
      match index_of n known with
      | Some k => let '(nb', kn', idx) := assign t nb known in (nb', kn', k :: idx)
      | None => let '(nb', kn', idx) := assign t (S nb) (known ++ [n]) in (nb', kn', nb :: idx)
      end
  end.

Definition d_status_ok (d : sdesc) : bool := s_status d =? 0.

(* geom = the object was constructed with a geometry (EIT) *)
Definition s_load (fixed geom : bool) (d : sdesc) (s : sst) : sst * Z :=
  if negb (d_status_ok d) then (s, s_status d) else
  let s0 := if fixed then sst0 else s in
  let s1 := {| x_nb := x_nb s0; x_names := x_names s0; x_idx := x_idx s0; x_npos := s_nlin d; x_norient := x_norient s0;
               x_nweights := x_nweights s0; x_nradii := x_nradii s0; x_ntri := x_ntri s0 |} in
  if geom then
    let '(nb, names, idx) := if s_labeled d then assign (s_names d) 0 (x_names s1) else (s_nlin d, x_names s1, seq 0 (s_nlin d)) in
    ({| x_nb := nb; x_names := names; x_idx := idx; x_npos := s_nlin d;
        x_norient := if (6 <=? s_ncol d)%nat then s_nlin d else x_norient s1;
        x_nweights := s_nlin d; x_nradii := s_nlin d; x_ntri := (x_ntri s1 + s_nlin d)%nat |}, 0)
  else if (s_ncol d =? 4)%nat then (s1, E_GENERIC)
  else
    let '(nb, names, idx) := if s_labeled d then assign (s_names d) 0 (x_names s1) else (s_nlin d, x_names s1, seq 0 (s_nlin d)) in
    ({| x_nb := nb; x_names := names; x_idx := idx; x_npos := s_nlin d;
        x_norient := if (6 <=? s_ncol d)%nat then s_nlin d else x_norient s1;
        x_nweights := s_nlin d; x_nradii := x_nradii s1; x_ntri := x_ntri s1 |}, 0).

(* public observation after a load: the exception class, or every accessor of the loaded object
   (getNumberOfSensors, getNumberOfPositions, getNames, m_pointSensorIdx through getWeightsMatrix, hasOrientations,
   hasNames, number of injection triangle lists) *)
Definition s_observe (st : Z) (s : sst) : list Z :=
  if st =? 0 then
    [0; Z.of_nat (x_nb s); Z.of_nat (x_npos s); Z.of_nat (x_norient s); Z.of_nat (x_nweights s); Z.of_nat (x_nradii s);
     Z.of_nat (x_ntri s); if (length (x_names s) =? x_nb s)%nat then 1 else 0; Z.of_nat (length (x_names s))]
    ++ x_names s ++ map Z.of_nat (x_idx s)
  else [st].

Definition dummy_sdesc : sdesc := {| s_status := 3; s_labeled := false; s_names := []; s_nlin := 0; s_ncol := 0 |}.

Definition s_step (fixed geom : bool) (W : list sdesc) (i : nat) (s : sst) : sst * list Z :=
  let '(s', st) := s_load fixed geom (nth i W dummy_sdesc) s in (s', s_observe st s').
Fixpoint s_run (fixed geom : bool) (W : list sdesc) (h : list nat) (s : sst) : sst :=
  match h with [] => s | i :: h' => s_run fixed geom W h' (fst (s_step fixed geom W i s)) end.
Fixpoint s_trace (fixed geom : bool) (W : list sdesc) (h : list nat) (s : sst) : list (list Z) :=
  match h with [] => [] | i :: h' => let '(s', r) := s_step fixed geom W i s in r :: s_trace fixed geom W h' s' end.
Definition s_last (fixed geom : bool) (W : list sdesc) (h : list nat) (i : nat) : list Z :=
  snd (s_step fixed geom W i (s_run fixed geom W h sst0)).
