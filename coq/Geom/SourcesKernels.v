(* C08 -- the premise `kernels_linear` of the linearity theorems, checked for the code's kernels as transcribed by C16
   (Geom/Kernels.v: analyticDipPotDer::f and Dipole::potential), real instance.  The triangle-dependent part of
   analyticDipPotDer (H0.., n) does not involve the moment; the moment enters EMpart linearly. *)
From Coq Require Import List ZArith Reals Lra.
From OM Require Import Base.Ops Geom.AdaptInt Geom.AdaptIntProofs Geom.Sources Geom.SourcesLinear.
From OM Require Base.Vec3 Geom.Kernels.
Import ListNotations.
Local Open Scope R_scope.

Definition to_v (p : pt (F:=R)) : Vec3.vec3 R := Vec3.mkV (px p) (py p) (pz p).
Definition of_v (v : Vec3.vec3 R) : pt (F:=R) := (Vec3.vx v, Vec3.vy v, Vec3.vz v).

(* the kernels DipSourceMat integrates, as functions of (dipole, triangle, point) *)
Definition code_kder (d : dipole (F:=R)) (t : triangle (F:=R)) (r : pt (F:=R)) : pt (F:=R) :=
  of_v (Kernels.analyticDipPotDer_f ROps
          (Kernels.analyticDipPotDer_init ROps (to_v (dpos d)) (to_v (dmom d))
             (to_v (t0 (tr_pts t))) (to_v (t1 (tr_pts t))) (to_v (t2 (tr_pts t))))
          (to_v r)).
Definition code_kpot (d : dipole (F:=R)) (r : pt (F:=R)) : R :=
  Kernels.dipole_potential ROps (to_v (dpos d)) (to_v (dmom d)) (to_v r).

Lemma dipder_f_linear (a1 a2 a : Kernels.analyticDipPotDer_t (F:=R)) (x y : R) r :
  Kernels.P_r0 a1 = Kernels.P_r0 a -> Kernels.P_r0 a2 = Kernels.P_r0 a ->
  Kernels.P_H0 a1 = Kernels.P_H0 a -> Kernels.P_H0 a2 = Kernels.P_H0 a ->
  Kernels.P_H1 a1 = Kernels.P_H1 a -> Kernels.P_H1 a2 = Kernels.P_H1 a ->
  Kernels.P_H2 a1 = Kernels.P_H2 a -> Kernels.P_H2 a2 = Kernels.P_H2 a ->
  Kernels.P_H0p0DivNorm2 a1 = Kernels.P_H0p0DivNorm2 a -> Kernels.P_H0p0DivNorm2 a2 = Kernels.P_H0p0DivNorm2 a ->
  Kernels.P_H1p1DivNorm2 a1 = Kernels.P_H1p1DivNorm2 a -> Kernels.P_H1p1DivNorm2 a2 = Kernels.P_H1p1DivNorm2 a ->
  Kernels.P_H2p2DivNorm2 a1 = Kernels.P_H2p2DivNorm2 a -> Kernels.P_H2p2DivNorm2 a2 = Kernels.P_H2p2DivNorm2 a ->
  Kernels.P_n a1 = Kernels.P_n a -> Kernels.P_n a2 = Kernels.P_n a ->
  Kernels.P_q a = Vec3.vadd ROps (Vec3.vscale ROps x (Kernels.P_q a1)) (Vec3.vscale ROps y (Kernels.P_q a2)) ->
  of_v (Kernels.analyticDipPotDer_f ROps a r)
  = plc x y (of_v (Kernels.analyticDipPotDer_f ROps a1 r)) (of_v (Kernels.analyticDipPotDer_f ROps a2 r)).
Proof.
  intros E1 E2 E3 E4 E5 E6 E7 E8 E9 E10 E11 E12 E13 E14 E15 E16 Eq.
  unfold Kernels.analyticDipPotDer_f.
  rewrite E1, E2, E3, E4, E5, E6, E7, E8, E9, E10, E11, E12, E13, E14, E15, E16, Eq.
  destruct (Kernels.P_q a1) as [q1x q1y q1z], (Kernels.P_q a2) as [q2x q2y q2z].
  set (xx := Vec3.vsub ROps r (Kernels.P_r0 a)). destruct xx as [x0 x1 x2].
  set (nn := Kernels.P_n a). destruct nn as [n0 n1 n2].
  set (P1 := Vec3.mkV _ _ _). destruct P1 as [p0 p1 p2].
  apply pt_eq;
    cbv [of_v plc padd pscale px py pz fst snd Vec3.vscale Vec3.vadd Vec3.vsub Vec3.dot Vec3.norm2 Vec3.sqr Vec3.f3 Vec3.fZ
         Vec3.vx Vec3.vy Vec3.vz fmul fadd fsub fdiv fopp fsqrt fofZ f1 ROps];
    unfold Rdiv; ring.
Qed.

Theorem code_kernels_linear : kernels_linear code_kder code_kpot.
Proof.
  split.
  - intros p q1 q2 a b t r. unfold code_kder. apply dipder_f_linear; reflexivity.
  - intros p q1 q2 a b r. unfold code_kpot, Kernels.dipole_potential.
    set (xx := Vec3.vsub ROps (to_v r) (to_v (dpos (p, plc a b q1 q2)))).
    change (Vec3.vsub ROps (to_v r) (to_v (dpos (p, q1)))) with xx.
    change (Vec3.vsub ROps (to_v r) (to_v (dpos (p, q2)))) with xx.
    destruct xx as [x0 x1 x2]. destruct q1 as [[a1 a2] a3], q2 as [[b1 b2] b3].
    cbv [to_v dmom snd plc padd pscale px py pz fst Vec3.dot Vec3.norm2 Vec3.sqr Vec3.vx Vec3.vy Vec3.vz
         fmul fadd fdiv fsqrt ROps].
    unfold Rdiv. ring.
Qed.

(* hence, for the code's kernels: linearity with the fixed rule, homogeneity with the adaptive scheme *)
Section CodeKernels.
Variable contains : domain (F:=R) -> pt (F:=R) -> bool.
Variable K : R.
Variable rule : qrule (F:=R).
Variable tol : R.

Theorem dsm_linear_in_moment_code geo named p q1 q2 a b c1 c2 :
  dsm_colk contains K rule tol code_kder code_kpot 0 geo named (p, q1) = Some c1 ->
  dsm_colk contains K rule tol code_kder code_kpot 0 geo named (p, q2) = Some c2 ->
  dsm_colk contains K rule tol code_kder code_kpot 0 geo named (p, plc a b q1 q2) = Some (lc a b c1 c2).
Proof. apply dsm_linear_in_moment_fixed. apply code_kernels_linear. Qed.

Theorem dsm_homogeneous_in_moment_code depth geo named p q a c :
  dsm_colk contains K rule tol code_kder code_kpot depth geo named (p, q) = Some c ->
  dsm_colk contains K rule tol code_kder code_kpot depth geo named (p, pscale ROps a q) = Some (map (Rmult a) c).
Proof. apply dsm_homogeneous_in_moment. apply kernels_linear_homogeneous. apply code_kernels_linear. Qed.

Theorem ds2ip_linear_code geo named pts p q1 q2 a b M1 M2 :
  DS2IP ROps contains K code_kpot geo named pts [(p, q1)] = Some M1 ->
  DS2IP ROps contains K code_kpot geo named pts [(p, q2)] = Some M2 ->
  DS2IP ROps contains K code_kpot geo named pts [(p, plc a b q1 q2)] = Some (lcM a b M1 M2).
Proof. intros. apply ds2ip_linear; auto. apply code_kernels_linear. Qed.
End CodeKernels.
