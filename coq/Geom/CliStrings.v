(* C20 — readable command lines for Examples and witnesses (proof side only; never extracted). *)
From Coq Require Import List ZArith String Ascii.
From OM Require Import Geom.Cli.
Import ListNotations.

Fixpoint s2t (s : string) : tok :=
  match s with
  | EmptyString => []
  | String c r => Z.of_N (N_of_ascii c) :: s2t r
  end.
Definition cmdline (l : list string) : list tok := map s2t l.
