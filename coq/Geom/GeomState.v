(* C17 — bookkeeping state of an OpenMEEG::Geometry object under repeated load / import (geometry.h, geometry.cpp).

   Fields modelled: geom_vertices (as coordinate identities), number of meshes and domains, nested, num_params,
   nb_current_barrier_triangles_, meshpairs (count), independant_parts (count), invalid_vertices_ (set of
   coordinate identities).  What one load does to a FRESH object is the descriptor [gdesc] (measured by the check
   in a fresh process per geometry/conductivity file pair); the model says what the same load does to a USED object,
   following the code:
     load(geom[,cond]) : clear(); read_geometry_file; [read_conductivity_file;] finalize()
     finalize()        : if has_conductivities() mark_current_barriers();   (inserts into invalid_vertices_, erases the
                                                                              vertices shared with non isolated meshes,
                                                                              appends to independant_parts)
                         if domains nonempty: set outermost, check nested;
                         generate_indices();   (vertex gets an index iff its coordinates are not in invalid_vertices_;
                                                resets nb_current_barrier_triangles_; sets num_params)
                         make_mesh_pairs();    (appends to meshpairs)
     import(meshes)    : clear(); load points and triangles of every mesh (no finalize)
     clear()           : pinned   : vertices, meshes, domains, nested, outer_domain, num_params
                         repaired : also meshpairs, independant_parts, invalid_vertices_, nb_current_barrier_triangles_ *)
From OM Require Import Base.Lists.
Local Open Scope Z_scope.

Record gdesc := {
  d_status : Z;               (* 0 = ok, otherwise exception class; the fields below describe the object left behind *)
  d_verts : list Z;           (* coordinate identities of geom_vertices, storage order *)
  d_nmeshes : nat;
  d_ndomains : nat;
  d_finalized : bool;         (* finalize() was reached *)
  d_marks : bool;             (* has_conductivities(): mark_current_barriers() runs *)
  d_inv_add : list Z;         (* vertices of fully immersed meshes (inserted into invalid_vertices_) *)
  d_noniso : list Z;          (* vertices of non isolated meshes (erased from invalid_vertices_) *)
  d_parts : nat;              (* independant parts appended *)
  d_tri_idx : nat;            (* triangle indices handed out by generate_indices *)
  d_cbt : nat;
  d_pairs : nat;              (* pairs appended by make_mesh_pairs *)
  d_nested : bool;
  d_headmat : Z               (* fingerprint of HeadMat assembled on the freshly loaded object *)
}.

Record gst := {
  g_verts : list Z; g_nmeshes : nat; g_ndomains : nat; g_nested : bool; g_nparams : nat;
  g_cbt : nat; g_pairs : nat; g_parts : nat; g_invalid : list Z;
  g_loaded : option nat        (* index of the descriptor the meshes/domains come from *)
}.
Definition gst0 : gst :=
  {| g_verts := []; g_nmeshes := 0; g_ndomains := 0; g_nested := false; g_nparams := 0;
     g_cbt := 0; g_pairs := 0; g_parts := 0; g_invalid := []; g_loaded := None |}.

Definition memZ (x : Z) (l : list Z) : bool := existsb (Z.eqb x) l.
Definition addZ (x : Z) (l : list Z) : list Z := if memZ x l then l else l ++ [x].
Definition unionZ (a b : list Z) : list Z := fold_left (fun acc x => addZ x acc) b a.

(* Geometry::clear() *)
Definition g_clear (fixed : bool) (s : gst) : gst :=
  {| g_verts := []; g_nmeshes := 0; g_ndomains := 0; g_nested := false; g_nparams := 0;
     g_cbt := if fixed then 0%nat else g_cbt s;
     g_pairs := if fixed then 0%nat else g_pairs s;
     g_parts := if fixed then 0%nat else g_parts s;
     g_invalid := if fixed then [] else g_invalid s;
     g_loaded := None |}.

(* Geometry::finalize() on an object whose meshes/domains are those of d *)
Definition g_finalize (d : gdesc) (s : gst) : gst :=
  let inv := if d_marks d then filter (fun v => negb (memZ v (d_noniso d))) (unionZ (g_invalid s) (d_inv_add d)) else g_invalid s in
  let parts := if d_marks d then (g_parts s + d_parts d)%nat else g_parts s in
  {| g_verts := g_verts s; g_nmeshes := g_nmeshes s; g_ndomains := g_ndomains s;
     g_nested := match g_ndomains s with O => g_nested s | _ => d_nested d end;
     g_nparams := (length (filter (fun v => negb (memZ v inv)) (g_verts s)) + d_tri_idx d)%nat;
     g_cbt := d_cbt d;
     g_pairs := (g_pairs s + d_pairs d)%nat;
     g_parts := parts;
     g_invalid := inv;
     g_loaded := g_loaded s |}.

(* start of the repaired finalize(): derived containers cleared (mesh flags are below this level) *)
Definition g_reset_derived (s : gst) : gst :=
  {| g_verts := g_verts s; g_nmeshes := g_nmeshes s; g_ndomains := g_ndomains s; g_nested := g_nested s; g_nparams := g_nparams s;
     g_cbt := g_cbt s; g_pairs := 0; g_parts := 0; g_invalid := []; g_loaded := g_loaded s |}.

Fixpoint eqbZs (a b : list Z) : bool :=
  match a, b with [], [] => true | x :: a', y :: b' => (x =? y) && eqbZs a' b' | _, _ => false end.
(* two descriptors of the same geometry file (same vertices, meshes, domains), possibly different conductivities *)
Definition same_geometry (a b : gdesc) : bool :=
  (eqbZs (d_verts a) (d_verts b) && Nat.eqb (d_nmeshes a) (d_nmeshes b) && Nat.eqb (d_ndomains a) (d_ndomains b))%bool.

(* Geometry::load(geom[,cond]) with descriptor number i *)
Definition g_load (fixed : bool) (i : nat) (d : gdesc) (s : gst) : gst :=
  let s1 := g_clear fixed s in
  let s2 := {| g_verts := d_verts d; g_nmeshes := d_nmeshes d; g_ndomains := d_ndomains d; g_nested := g_nested s1;
               g_nparams := g_nparams s1; g_cbt := g_cbt s1; g_pairs := g_pairs s1; g_parts := g_parts s1;
               g_invalid := g_invalid s1; g_loaded := Some i |} in
  if d_finalized d then g_finalize d s2 else s2.

(* observation after an operation *)
Definition g_observe (st : Z) (s : gst) : list Z :=
  [st; Z.of_nat (length (g_verts s)); Z.of_nat (g_nmeshes s); Z.of_nat (g_ndomains s); Z.of_nat (g_nparams s);
   Z.of_nat (g_pairs s); Z.of_nat (g_parts s); Z.of_nat (length (g_invalid s)); Z.of_nat (g_cbt s);
   if g_nested s then 1 else 0].

Inductive gop :=
| GLoad (i : nat)        (* load / import described by descriptor i (an import is a descriptor with d_finalized = false) *)
| GHeadMat               (* HeadMat(geo) : fingerprint of the result *)
| GOther                 (* another assembly on the same geometry (DipSourceMat): result not observed *)
| GFinalize              (* finalize() called again on an object whose last load reached finalize *)
| GPollute               (* programmatic construction on the object as it is (add_vertices, add_mesh, add_triangle, finalize):
                            appends by design; its own result is not observed, what matters is the load that follows *)
| GSetCond (j : nat).    (* Domain::set_conductivity in place with the values of descriptor j (same geometry file as the loaded
                            one, another conductivity file), then finalize() *)

Definition dummy_desc : gdesc :=
  {| d_status := 3; d_verts := []; d_nmeshes := 0; d_ndomains := 0; d_finalized := false; d_marks := false; d_inv_add := [];
     d_noniso := []; d_parts := 0; d_tri_idx := 0; d_cbt := 0; d_pairs := 0; d_nested := false; d_headmat := 0 |}.

(* HeadMat iterates communicating_mesh_pairs() and isolated_parts(): when these contain entries of an earlier load they
   point into destroyed meshes - the result is then not a function of the files (modelled as the marker -7) *)
Definition g_headmat (W : list gdesc) (s : gst) : Z :=
  match g_loaded s with
  | None => -1
  | Some i => let d := nth i W dummy_desc in
              if negb (d_marks d) then -1        (* not finalized, or some domain without conductivity: nothing is assembled *)
              else if (Nat.eqb (g_pairs s) (d_pairs d) && Nat.eqb (g_parts s) (d_parts d)
                  && Nat.eqb (g_nparams s) (length (filter (fun v => negb (memZ v (filter (fun v => negb (memZ v (d_noniso d))) (d_inv_add d)))) (d_verts d)) + d_tri_idx d))%bool
              then d_headmat d else -7
  end.

Definition g_step (fixed : bool) (W : list gdesc) (o : gop) (s : gst) : gst * list Z :=
  match o with
  | GLoad i => let d := nth i W dummy_desc in let s' := g_load fixed i d s in (s', g_observe (d_status d) s')
  | GHeadMat => (s, g_observe (g_headmat W s) s)
  | GOther => (s, g_observe (-2) s)
  | GFinalize =>
      match g_loaded s with
      | Some i => let d := nth i W dummy_desc in
                  if d_finalized d then
                    (* repaired: finalize() first clears the derived containers and the mesh flags.
                       pinned: it appends to them; in addition mark_current_barriers reads the flags it set on the first
                       call (a current barrier becomes isolated), which is below this bookkeeping level: the pinned
                       clause is exact only for geometries without current barriers *)
                    let s' := g_finalize d (if fixed then g_reset_derived s else s) in (s', g_observe 0 s')
                  else (s, g_observe (-1) s)
      | None => (s, g_observe (-1) s)
      end
  | GPollute =>
      ({| g_verts := g_verts s; g_nmeshes := g_nmeshes s; g_ndomains := g_ndomains s; g_nested := g_nested s; g_nparams := g_nparams s;
          g_cbt := g_cbt s; g_pairs := g_pairs s; g_parts := g_parts s; g_invalid := g_invalid s; g_loaded := None |}, [-3])
  | GSetCond j =>
      match g_loaded s with
      | Some i => let di := nth i W dummy_desc in let dj := nth j W dummy_desc in
                  if (d_finalized di && d_finalized dj && same_geometry di dj)%bool then
                    let s0 := {| g_verts := g_verts s; g_nmeshes := g_nmeshes s; g_ndomains := g_ndomains s; g_nested := g_nested s;
                                 g_nparams := g_nparams s; g_cbt := g_cbt s; g_pairs := g_pairs s; g_parts := g_parts s;
                                 g_invalid := g_invalid s; g_loaded := Some j |} in
                    let s' := g_finalize dj (if fixed then g_reset_derived s0 else s0) in (s', g_observe 0 s')
                  else (s, g_observe (-1) s)
      | None => (s, g_observe (-1) s)
      end
  end.

Fixpoint g_run (fixed : bool) (W : list gdesc) (h : list gop) (s : gst) : gst :=
  match h with [] => s | o :: h' => g_run fixed W h' (fst (g_step fixed W o s)) end.
Fixpoint g_trace (fixed : bool) (W : list gdesc) (h : list gop) (s : gst) : list (list Z) :=
  match h with [] => [] | o :: h' => let '(s', r) := g_step fixed W o s in r :: g_trace fixed W h' s' end.
(* public result of the last operation of a history *)
Definition g_last (fixed : bool) (W : list gdesc) (h : list gop) (o : gop) : list Z :=
  snd (g_step fixed W o (g_run fixed W h gst0)).
