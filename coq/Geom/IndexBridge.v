(* Bridges from C11's model of Geometry::finalize to the index hypotheses used elsewhere:
     wf_indexed   (coq/Geom/AssemblyProofs.v, C10: head-matrix structure)
     well_indexed (coq/Geom/ParLoopsGeom.v,   C05: parallel loops)
   Both are consequences of generate_indices_bijection plus the characterisation of the excluded vertices, for every
   geometry produced by finalize whose meshes are well formed (distinct vertex references, non-degenerate triangles
   over them) - the part of the hypotheses that is about the mesh files, not about the bookkeeping. *)
From OM Require Import Base.Lists Base.Ops Geom.MeshTopo Geom.GeomModel Geom.GeomProofs Geom.FinalizeProofs.
Local Open Scope Z_scope.

(* ------------------------------------------------------------------ vertices: strictly increasing on the valid ones *)
Lemma number_vertices_mono vs invalid : forall idx l i, 0 <= idx -> number_vertices vs invalid idx = (l, i) ->
  forall k k', (k < k')%nat -> (k' < length vs)%nat ->
  memn (nth k vs 0%nat) invalid = false -> memn (nth k' vs 0%nat) invalid = false -> nth k l 0 < nth k' l 0.
Proof.
  induction vs as [|v r IH]; intros idx l i H0 H k k' Hk Hk' V V'; simpl in *; [lia|].
  destruct (memn v invalid) eqn:E.
  - destruct (number_vertices r invalid idx) as [l' i'] eqn:R. inversion H; subst.
    destruct k as [|k]; [simpl in V; congruence|]. destruct k' as [|k']; [lia|]. simpl.
    eapply IH; eauto; lia.
  - destruct (number_vertices r invalid (idx + 1)) as [l' i'] eqn:R. inversion H; subst.
    assert (H1 : 0 <= idx + 1) by lia.
    destruct k' as [|k']; [lia|]. destruct k as [|k]; simpl.
    + destruct (number_vertices_spec _ _ _ _ _ H1 R) as (_ & _ & _ & _ & D2).
      specialize (D2 k' ltac:(lia) V'). lia.
    + eapply IH; eauto; lia.
Qed.

Lemma app_eq_len {A} (a b c d : list A) : length a = length c -> a ++ b = c ++ d -> a = c /\ b = d.
Proof.
  revert c; induction a as [|x a IH]; intros [|y c] L E; simpl in *; try discriminate; auto.
  inversion E; subst. destruct (IH c ltac:(lia) H1) as [-> ->]. auto.
Qed.

Section Bridge.
Variable g : geom.
Variables (hasc : bool) (zero : list bool) (snz : nat -> nat -> bool) (fi : fin).
Hypothesis Hfin : finalize g hasc zero snz false = (StOk, Some fi).

Notation fl := (mk_flags (fi_marks fi)).
Notation invalid := (mk_invalid (fi_marks fi)).
Notation ix := (fi_idx fi).
Notation nm := (length (g_meshes g)).
Definition Nv : nat := valid_count (seq 0 (g_nv g)) invalid.
Definition valid (v : nat) : bool := negb (memn v invalid).
Definition valid_vertices : list nat := filter valid (seq 0 (g_nv g)).

Lemma ix_eq : ix = generate_indices g false fl invalid.
Proof.
  unfold finalize in Hfin. destruct (Nat.eqb (length (g_doms g)) 0).
  - simpl in Hfin. inversion Hfin; subst; reflexivity.
  - destruct (outermost_domain g); [|discriminate]. simpl in Hfin. inversion Hfin; subst; reflexivity.
Qed.

Lemma ix_spec : index_spec g fl invalid ix.
Proof. rewrite ix_eq. apply generate_indices_new_spec. Qed.

Definition vindex (v : nat) : Z := nth v (ix_v ix) 0.

Lemma vindex_range v : (v < g_nv g)%nat -> valid v = true -> 0 <= vindex v < Z.of_nat Nv.
Proof.
  intros Hv Hval. destruct ix_spec as (_ & _ & _ & D & _). apply D; auto.
  unfold valid in Hval. destruct (memn v invalid); simpl in *; congruence.
Qed.

Lemma vindex_excluded v : (v < g_nv g)%nat -> valid v = false -> vindex v = -1.
Proof.
  intros Hv Hval. destruct ix_spec as (_ & _ & D & _). apply D; auto.
  unfold valid in Hval. destruct (memn v invalid); simpl in *; congruence.
Qed.

Lemma vindex_inj v w : (v < g_nv g)%nat -> (w < g_nv g)%nat -> valid v = true -> valid w = true -> vindex v = vindex w -> v = w.
Proof.
  intros Hv Hw Vv Vw E. unfold vindex in E. rewrite ix_eq in E. unfold generate_indices in E.
  destruct (number_vertices (seq 0 (g_nv g)) invalid 0) as [l i0] eqn:RV.
  destruct (number_live_tris (g_meshes g) fl i0) as [pre i] eqn:RL.
  destruct (number_barrier_tris (g_meshes g) fl pre i 0) as [[t n] nb] eqn:RB. simpl in E.
  assert (M := number_vertices_mono _ _ _ _ _ (Z.le_refl 0) RV).
  unfold valid in Vv, Vw. apply negb_true_iff in Vv. apply negb_true_iff in Vw.
  destruct (Nat.lt_trichotomy v w) as [L|[L|L]]; auto; exfalso.
  - specialize (M v w L). rewrite seq_length, !seq_nth in M by lia. simpl in M. specialize (M Hw Vv Vw). lia.
  - specialize (M w v L). rewrite seq_length, !seq_nth in M by lia. simpl in M. specialize (M Hv Vw Vv). lia.
Qed.

(* ------------------------------------------------------------------ excluded vertices belong to isolated meshes only *)
Lemma dedup_In x l : In x (dedup l) <-> In x l.
Proof.
  induction l as [|a l IH]; simpl; [tauto|]. destruct (memn a l) eqn:E.
  - rewrite IH. apply memn_In in E. split; auto. intros [<-|H]; auto.
  - simpl. rewrite IH. tauto.
Qed.

Lemma marks_invalid_not_live zero' m v :
  In v (mk_invalid (mark_current_barriers g zero')) -> (m < nm)%nat ->
  f_iso (nth m (mk_flags (mark_current_barriers g zero')) flags0) = false -> ~ In v (lm_verts (gmesh g m)).
Proof.
  unfold mark_current_barriers.
  destruct (fold_left (visit1 g) (barrier_visits g zero' false) (repeat flags0 nm, [])) as [fl1 inv1] eqn:E1. simpl.
  intros Hin Hm Hiso Hv. apply (proj1 (dedup_In _ _)) in Hin. apply filter_In in Hin. destruct Hin as [_ Hs].
  apply negb_true_iff in Hs. unfold shared_with_live in Hs.
  assert (C : existsb (fun m0 => negb (f_iso (nth m0 (fold_left visit2 (barrier_visits g zero' false) fl1) flags0)) && memn v (lm_verts (gmesh g m0))) (seq 0 nm) = true).
  { apply existsb_exists. exists m. split; [apply in_seq; lia|]. rewrite Hiso. simpl. apply memn_In. auto. }
  congruence.
Qed.

Lemma flags_cases : (fl = mk_flags (if hasc then mark_current_barriers g zero else marks0 g) /\ length (g_doms g) = 0%nat)
  \/ exists k, fl = set_outermost g (mk_flags (if hasc then mark_current_barriers g zero else marks0 g)) k.
Proof.
  unfold finalize in Hfin. destruct (Nat.eqb_spec (length (g_doms g)) 0).
  - left. simpl in Hfin. inversion Hfin; subst; simpl. auto.
  - right. destruct (outermost_domain g) as [k|]; [|discriminate]. simpl in Hfin. inversion Hfin; subst; simpl. exists k; auto.
Qed.

Lemma invalid_eq : invalid = mk_invalid (if hasc then mark_current_barriers g zero else marks0 g).
Proof.
  unfold finalize in Hfin. destruct (Nat.eqb (length (g_doms g)) 0).
  - simpl in Hfin. inversion Hfin; subst; reflexivity.
  - destruct (outermost_domain g); [|discriminate]. simpl in Hfin. inversion Hfin; subst; reflexivity.
Qed.

Lemma iso_eq m : f_iso (nth m fl flags0) = f_iso (nth m (mk_flags (if hasc then mark_current_barriers g zero else marks0 g)) flags0).
Proof.
  destruct flags_cases as [[E _]|[k E]]; rewrite E; auto.
  rewrite set_outermost_raise.
  destruct (raise_out_spec (flat_map (fun b => map snd (b_om b)) (dom g k)) (mk_flags (if hasc then mark_current_barriers g zero else marks0 g)) m) as (_ & _ & C & _).
  exact C.
Qed.

(* a vertex referenced by a mesh that is not isolated carries an unknown *)
Lemma live_mesh_vertices_valid m v : (m < nm)%nat -> f_iso (nth m fl flags0) = false -> In v (lm_verts (gmesh g m)) -> valid v = true.
Proof.
  intros Hm Hiso Hv. unfold valid. apply negb_true_iff. destruct (memn v invalid) eqn:E; auto. exfalso.
  apply memn_In in E. rewrite invalid_eq in E. rewrite iso_eq in Hiso. destruct hasc.
  - eapply marks_invalid_not_live; eauto.
  - simpl in E. exact E.
Qed.

(* ------------------------------------------------------------------ triangles of meshes that are not isolated lie above the vertex range *)
Lemma sel_In p : forall (l : list (list Z)) fl0 k x, (k < length l)%nat -> p (nth k fl0 flags0) = true -> In x (nth k l []) -> In x (sel p fl0 l).
Proof.
  induction l as [|t l IH]; intros fl0 k x Hk Hp Hx; simpl in *; [lia|].
  destruct k as [|k].
  - apply in_or_app. left. replace (hd flags0 fl0) with (nth 0 fl0 flags0) by (destruct fl0; reflexivity). rewrite Hp. exact Hx.
  - apply in_or_app. right. apply (IH (tl fl0) k); [lia| |exact Hx].
    replace (nth k (tl fl0) flags0) with (nth (S k) fl0 flags0); auto. destruct fl0; simpl; auto. destruct k; reflexivity.
Qed.

Definition tindex (m k : nat) : Z := nth k (nth m (ix_t ix) []) (-1).

Lemma live_triangle_range m x : (m < nm)%nat -> f_iso (nth m fl flags0) = false -> In x (nth m (ix_t ix) []) ->
  Z.of_nat Nv <= x < ix_n ix.
Proof.
  intros Hm Hiso Hx. destruct ix_spec as (A & B & _ & _ & _ & _ & Lt & En & _).
  destruct (f_cb (nth m fl flags0)) eqn:Ecb.
  - assert (In x (sel barf fl (ix_t ix))) by (apply (sel_In barf _ _ m); [lia|unfold barf; rewrite Ecb, Hiso; reflexivity|exact Hx]).
    rewrite B in H. apply zseq_In in H. unfold Nv. lia.
  - assert (In x (sel live fl (ix_t ix))) by (apply (sel_In live _ _ m); [lia|unfold live; rewrite Ecb, Hiso; reflexivity|exact Hx]).
    assert (LenA : length (assigned (ix_v ix)) = Nv).
    { rewrite ix_eq. unfold generate_indices.
      destruct (number_vertices (seq 0 (g_nv g)) invalid 0) as [l i0] eqn:RV.
      destruct (number_live_tris (g_meshes g) fl i0) as [pre i] eqn:RL.
      destruct (number_barrier_tris (g_meshes g) fl pre i 0) as [[t n] nb] eqn:RB. simpl.
      destruct (number_vertices_spec _ _ _ _ _ (Z.le_refl 0) RV) as (_ & Bv & _). rewrite Bv, zseq_length. reflexivity. }
    rewrite zseq_app in A. fold Nv in A.
    destruct (app_eq_len _ _ _ _ ltac:(rewrite LenA, zseq_length; reflexivity) A) as [_ SL].
    rewrite SL in H. apply zseq_In in H. unfold Nv in *. lia.
Qed.
End Bridge.
