(* GeomFile::save_geom (repaired): the Meshes and Interfaces sections written for a loaded geometry.
   Run through the domains, their boundaries, the meshes of each boundary's interface; an interface (identified by its
   name = its number here) and a mesh are appended the first time they are met. *)
From OM Require Import Base.Lists Geom.GeomModel.
Local Open Scope Z_scope.

Definition add_new (acc : list nat) (x : nat) : list nat := if memn x acc then acc else acc ++ [x].

Definition saved_meshes (g : geom) : list nat :=
  fold_left add_new (flat_map (fun b => map snd (b_om b)) (concat (g_doms g))) [].

Definition add_new_iface (acc : list (nat * list (Z * nat))) (b : gbound) : list (nat * list (Z * nat)) :=
  if memn (b_if b) (map fst acc) then acc else acc ++ [(b_if b, b_om b)].

Definition saved_ifaces (g : geom) : list (nat * list (Z * nat)) := fold_left add_new_iface (concat (g_doms g)) [].

(* lemmas *)
Lemma memn_In' k l : memn k l = true <-> In k l.
Proof.
  unfold memn. rewrite existsb_exists. split.
  - intros [x [Hx E]]. apply Nat.eqb_eq in E. subst; auto.
  - intros H. exists k. split; auto. apply Nat.eqb_refl.
Qed.

Lemma fold_add_new l : forall acc, NoDup acc ->
  NoDup (fold_left add_new l acc) /\ forall x, In x (fold_left add_new l acc) <-> In x acc \/ In x l.
Proof.
  induction l as [|a l IH]; intros acc ND; simpl.
  - split; auto. intros x; tauto.
  - unfold add_new at 2 4. destruct (memn a acc) eqn:E.
    + destruct (IH acc ND) as [A B]. split; auto. intros x. rewrite B. apply memn_In' in E.
      split; [intros [C|C]; auto|intros [C|[<-|C]]; auto].
    + assert (ND' : NoDup (acc ++ [a])).
      { assert (~ In a acc) by (intros C; apply memn_In' in C; congruence).
        clear - ND H. induction acc as [|y acc IH]; simpl; [repeat constructor; auto|].
        inversion ND; subst. constructor.
        - rewrite in_app_iff. intros [C|[C|[]]]; auto. subst. apply H. left; auto.
        - apply IH; auto. intros C. apply H. right; auto. }
      destruct (IH _ ND') as [A B]. split; auto. intros x. rewrite B, in_app_iff. simpl. tauto.
Qed.

(* the Meshes section lists each mesh used by some domain exactly once *)
Lemma saved_meshes_spec g : NoDup (saved_meshes g)
  /\ forall m, In m (saved_meshes g) <-> exists d b om, In d (g_doms g) /\ In b d /\ In om (b_om b) /\ snd om = m.
Proof.
  unfold saved_meshes. destruct (fold_add_new (flat_map (fun b => map snd (b_om b)) (concat (g_doms g))) [] (NoDup_nil _)) as [A B].
  split; auto. intros m. rewrite B. split.
  - intros [[]|H]. apply in_flat_map in H. destruct H as [b [Hb Hm]]. apply in_concat in Hb. destruct Hb as [d [Hd Hb]].
    apply in_map_iff in Hm. destruct Hm as [om [E Hom]]. exists d, b, om. auto.
  - intros [d [b [om [Hd [Hb [Hom E]]]]]]. right. apply in_flat_map. exists b. split.
    + apply in_concat. exists d; auto.
    + apply in_map_iff. exists om; auto.
Qed.
