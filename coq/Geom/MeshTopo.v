(* Local orientation repair of a mesh, as done by Mesh::update(true) at load time (OpenMEEG/src/mesh.cpp:
   compute_edge_map, has_correct_orientation, correct_local_orientation, adjacent_triangles in mesh.h).
   Triangles are triples of geometry vertex numbers; Edge::operator== compares coordinates, which after the
   de-duplication of add_vertex is equality of vertex numbers.  No proofs here. *)
From OM Require Import Base.Lists.

Notation tri := (nat * nat * nat)%type.

Definition tri_verts (t : tri) : list nat := let '(a, b, c) := t in [a; b; c].
(* Triangle::edges(): (v1,v2), (v2,v0), (v0,v1) *)
Definition tri_edges (t : tri) : list (nat * nat) := let '(a, b, c) := t in [(b, c); (c, a); (a, b)].
(* Triangle::change_orientation: swap the first two vertices *)
Definition tri_flip (t : tri) : tri := let '(a, b, c) := t in (b, a, c).

Definition edge_eqb (e f : nat * nat) : bool := Nat.eqb (fst e) (fst f) && Nat.eqb (snd e) (snd f).
Definition count_edge (e : nat * nat) (ts : list tri) : nat :=
  length (filter (edge_eqb e) (flat_map tri_edges ts)).

(* compute_edge_map: an edge gets +1 for each triangle running through it one way and -1 for the other way;
   has_correct_orientation is false iff some entry is +2 or -2 *)
Definition edge_bad (ts : list tri) (e : nat * nat) : bool :=
  let n1 := count_edge e ts in
  let n2 := if Nat.eqb (fst e) (snd e) then 0 else count_edge (snd e, fst e) ts in
  Nat.eqb (n1 - n2) 2 || Nat.eqb (n2 - n1) 2.

Definition has_correct_orientation (ts : list tri) : bool :=
  negb (existsb (edge_bad ts) (flat_map tri_edges ts)).

(* Mesh::adjacent_triangles(t): run through the vertices of t and, for each, through the triangles containing it (in
   triangle order); a triangle enters the result when it is met for the second time *)
Definition occurrences (v : nat) (t : tri) : nat := length (filter (Nat.eqb v) (tri_verts t)).
Definition vertex_triangles (ts : list tri) (v : nat) : list nat :=
  flat_map (fun j => repeat j (occurrences v (nth j ts (0, 0, 0)))) (seq 0 (length ts)).

Definition memb (k : nat) (l : list nat) : bool := existsb (Nat.eqb k) l.

Fixpoint second_occurrences (l : list nat) (once twice : list nat) : list nat :=
  match l with
  | [] => []
  | j :: r => if memb j twice then second_occurrences r once twice
              else if memb j once then j :: second_occurrences r once (j :: twice)
              else second_occurrences r (j :: once) twice
  end.

Definition adjacent_triangles (ts : list tri) (t : tri) : list nat :=
  second_occurrences (flat_map (vertex_triangles ts) (tri_verts t)) [] [].

Definition has_same_edge (e1 e2 : list (nat * nat)) : bool := existsb (fun b => existsb (fun a => edge_eqb a b) e1) e2.

(* one pop of the stack: the neighbours not yet reached are pushed (the last one ends on top) and reversed when they
   run along a shared edge in the same direction as the popped triangle *)
Definition visit_neighbour (e1 : list (nat * nat)) (st : list tri * list nat * list nat) (j : nat) : list tri * list nat * list nat :=
  let '(ts, seen, stack) := st in
  if memb j seen then st
  else let t2 := nth j ts (0, 0, 0) in
       ((if has_same_edge e1 (tri_edges t2) then upd ts j (tri_flip t2) else ts), j :: seen, j :: stack).

Fixpoint flood (fuel : nat) (ts : list tri) (seen stack : list nat) : list tri :=
  match fuel with
  | O => ts
  | S f =>
    match stack with
    | [] => ts
    | k :: rest =>
      let t1 := nth k ts (0, 0, 0) in
      let '(ts', seen', stack') := fold_left (visit_neighbour (tri_edges t1)) (adjacent_triangles ts t1) (ts, seen, rest) in
      flood f ts' seen' stack'
    end
  end.

Definition correct_local_orientation (ts : list tri) : list tri :=
  if has_correct_orientation ts then ts
  else match ts with
       | [] => ts
       | _ => flood (S (length ts)) ts [0] [0]
       end.
