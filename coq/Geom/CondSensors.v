(* C19 -- token-level models (with explicit failure outcomes) of
   (a) the .cond definition loop of OpenMEEG/include/Properties.H (repaired: a value that cannot be read is an error)
       followed by Geometry::read_conductivity_file's lookup of every domain name, and
   (b) the column-count logic of Sensors::load(std::istream&) (OpenMEEG/src/sensors.cpp).
   Lexing is assumed (views built by checks/c19.py).  Model only: no proofs here. *)
From OM Require Import Base.Lists.
Local Open Scope Z_scope.

(* ---------- .cond ---------- *)
(* a white-space separated chunk: its identity as a string; does it start with '#'; what `>> double` makes of it:
   0 fails, 1 consumes it whole, 2 consumes a proper prefix and leaves the chunk c_rest (identity, starts with '#') *)
Record ctok := { c_name : Z; c_hash : bool; c_num : Z; c_rest : Z; c_rest_hash : bool }.
Definition cstream := list (list ctok).

Inductive cres := COk (names : list Z) | CErr | CFuel.

Fixpoint cnext (s : cstream) : option (ctok * cstream) :=
  match s with
  | [] => None
  | [] :: r => cnext r
  | (t :: l) :: r => Some (t, l :: r)
  end.
Definition ctotal (s : cstream) : nat := length (concat s) + length s.

(* io_utils::skip_comments("#"): while the next chunk starts with '#', drop the rest of its line *)
Fixpoint cskip (fuel : nat) (s : cstream) : cstream :=
  match fuel with
  | O => s
  | S f => match cnext s with
           | Some (t, s') => if c_hash t then cskip f (tl s') else s
           | None => s
           end
  end.

Definition define (acc : list Z) (n : Z) : list Z := if existsb (Z.eqb n) acc then acc else acc ++ [n].

(* while (is.peek()!=EOF) { skip_comments; >> id (break when nothing is left); >> value (error when it fails); >> ws } *)
Fixpoint cond_loop (fuel : nat) (s : cstream) (acc : list Z) : cres :=
  match fuel with
  | O => CFuel
  | S f =>
      match cnext (cskip (S (length s)) s) with
      | None => COk acc
      | Some (id, s1) =>
          match cnext s1 with
          | None => CErr
          | Some (v, s2) =>
              if c_num v =? 1 then cond_loop f s2 (define acc (c_name id))
              else if c_num v =? 2 then
                cond_loop f (match s2 with l :: r => ({| c_name := c_rest v; c_hash := c_rest_hash v; c_num := 0; c_rest := 0; c_rest_hash := false |} :: l) :: r | [] => [] end)
                          (define acc (c_name id))
              else CErr
          end
      end
  end.

(* header_ok comes from the character-level lexer (Geom/GeomLex.lex_cond); then every domain must be defined *)
Definition load_cond_strict (header_ok : bool) (s : cstream) (doms : list Z) : bool :=
  if header_ok then
    match cond_loop (S (ctotal s)) s [] with
    | COk names => forallb (fun d => existsb (Z.eqb d) names) doms
    | _ => false
    end
  else false.

(* ---------- sensors ---------- *)
(* a line: is it empty (no character at all), its number of white-space separated tokens, does its first token contain
   exactly one '.', the identity of its first token *)
Record sline := { s_empty : bool; s_ntok : nat; s_dot : bool; s_name : Z }.
Inductive sres := SOk (nlin nsensors ncol : nat) | SErr | SUnmodelled.

Fixpoint distinct (l : list Z) (seen : list Z) : nat :=
  match l with
  | [] => O
  | x :: t => if existsb (Z.eqb x) seen then distinct t seen else S (distinct t (x :: seen))
  end.

(* Sensors::load without a geometry: the leading comment lines are already removed (skip_comments assumed) *)
Definition sensors_load (ls : list sline) : sres :=
  let ne := filter (fun l => negb (s_empty l)) ls in
  match ne with
  | [] => SErr                                          (* 0 x (size_t)-1 matrix: submat asserts *)
  | l0 :: _ =>
      let ncol := s_ntok l0 in
      if negb (forallb (fun l => Nat.eqb (s_ntok l) ncol) ne) then SErr
      else if Nat.eqb ncol 0 then SUnmodelled           (* tokens[0] of an empty token list: undefined behaviour *)
      else
        let labeled := negb (existsb s_dot ne) in
        let nc := if labeled then (ncol - 1)%nat else ncol in
        if Nat.ltb nc 3 then SErr                       (* submat(0,nlin,0,3) asserts *)
        else if Nat.eqb nc 4 then SErr                  (* radii need a geometry *)
        else SOk (length ne) (if labeled then distinct (map s_name ne) [] else length ne) nc
  end.
