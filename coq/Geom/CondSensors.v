(* C19 -- token-level models (with explicit failure outcomes) of
   (a) the .cond definition loop of OpenMEEG/include/Properties.H (repaired: a value that cannot be read is an error)
       followed by Geometry::read_conductivity_file's lookup of every domain name, and
   (b) the column-count logic of Sensors::load(std::istream&) (OpenMEEG/src/sensors.cpp).
   Lexing is assumed (views built by checks/c19.py).  Model only: no proofs here. *)
From OM Require Import Base.Lists.
Local Open Scope Z_scope.

(* ---------- .cond ---------- *)
(* a white-space separated chunk: its identity as a string; does it start with '#'; what `>> double` makes of it:
   0 fails, 1 consumes it whole, 2 consumes a proper prefix and leaves the chunk c_rest (identity, starts with '#') *)
Record ctok := { c_name : Z; c_hash : bool; c_num : Z; c_rest : Z; c_rest_hash : bool }.
Definition cstream := list (list ctok).

Inductive cres := COk (names : list Z) | CErr | CFuel.

Fixpoint cnext (s : cstream) : option (ctok * cstream) :=
  match s with
  | [] => None
  | [] :: r => cnext r
  | (t :: l) :: r => Some (t, l :: r)
  end.
Definition ctotal (s : cstream) : nat := length (concat s) + length s.

(* io_utils::skip_comments("#"): while the next chunk starts with '#', drop the rest of its line *)
Fixpoint cskip (fuel : nat) (s : cstream) : cstream :=
  match fuel with
  | O => s
  | S f => match cnext s with
           | Some (t, s') => if c_hash t then cskip f (tl s') else s
           | None => s
           end
  end.

Definition define (acc : list Z) (n : Z) : list Z := if existsb (Z.eqb n) acc then acc else acc ++ [n].

(* while (is.peek()!=EOF) { skip_comments; >> id (break when nothing is left); >> value (error when it fails); >> ws } *)
Fixpoint cond_loop (fuel : nat) (s : cstream) (acc : list Z) : cres :=
  match fuel with
  | O => CFuel
  | S f =>
      match cnext (cskip (S (length s)) s) with
      | None => COk acc
      | Some (id, s1) =>
          match cnext s1 with
          | None => CErr
          | Some (v, s2) =>
              if c_num v =? 1 then cond_loop f s2 (define acc (c_name id))
              else if c_num v =? 2 then
                cond_loop f (match s2 with l :: r => ({| c_name := c_rest v; c_hash := c_rest_hash v; c_num := 0; c_rest := 0; c_rest_hash := false |} :: l) :: r | [] => [] end)
                          (define acc (c_name id))
              else CErr
          end
      end
  end.

(* header_ok comes from the character-level lexer (Geom/GeomLex.lex_cond); then every domain must be defined *)
Definition load_cond_strict (header_ok : bool) (s : cstream) (doms : list Z) : bool :=
  if header_ok then
    match cond_loop (S (ctotal s)) s [] with
    | COk names => forallb (fun d => existsb (Z.eqb d) names) doms
    | _ => false
    end
  else false.

(* ---------- sensors ---------- *)
(* a line: is it empty (no character at all), its number of white-space separated tokens, does its first token contain
   exactly one '.', the identity of its first token, its position in the file *)
Record sline := { s_empty : bool; s_ntok : nat; s_dot : bool; s_name : Z; s_idx : Z }.
(* accepted: number of rows, number of sensors, number of value columns, and for each row the line it was read from
   and the sensor it belongs to *)
Inductive sres := SOk (nlin nsensors ncol : nat) (rows : list (Z * nat)) | SErr | SUnmodelled.

Fixpoint index_of (x : Z) (l : list Z) (k : nat) : nat :=
  match l with [] => k | y :: t => if Z.eqb x y then k else index_of x t (S k) end.
Fixpoint distinct_names (l : list Z) (seen : list Z) : list Z :=
  match l with
  | [] => seen
  | x :: t => if existsb (Z.eqb x) seen then distinct_names t seen else distinct_names t (seen ++ [x])
  end.

(* Sensors::load reads its file twice: a counting pass (number of lines, of columns, labelled or not) and a reading
   pass that takes as many lines as were counted.  Each pass has its own rule for the lines it ignores. *)
Section TwoPass.
  Variables cskip rskip : sline -> bool.
  Definition counted (ls : list sline) : list sline := filter (fun l => negb (cskip l)) ls.
  (* `do getline while (skipped)`, n times *)
  Definition read_rows (n : nat) (ls : list sline) : list sline := firstn n (filter (fun l => negb (rskip l)) ls).

  Definition sensors_load2 (ls : list sline) : sres :=
    let ne := counted ls in
    match ne with
    | [] => SErr                                          (* 0 x (size_t)-1 matrix: submat asserts *)
    | l0 :: _ =>
        let ncol := s_ntok l0 in
        if negb (forallb (fun l => Nat.eqb (s_ntok l) ncol) ne) then SErr
        else if Nat.eqb ncol 0 then SUnmodelled           (* tokens[0] of an empty token list *)
        else
          let labeled := negb (existsb s_dot ne) in
          let nc := if labeled then (ncol - 1)%nat else ncol in
          if Nat.ltb nc 3 then SErr                       (* submat(0,nlin,0,3) asserts *)
          else if Nat.eqb nc 4 then SErr                  (* radii need a geometry *)
          else
            let rows := read_rows (length ne) ls in
            if negb (Nat.eqb (length rows) (length ne)) then SUnmodelled    (* the reading pass runs out of lines *)
            else
              let names := distinct_names (map s_name rows) [] in
              SOk (length ne) (if labeled then length names else length ne) nc
                  (map (fun kr => (s_idx (snd kr), if labeled then index_of (s_name (snd kr)) names 0 else fst kr))
                       (combine (seq 0 (length rows)) rows))
    end.
End TwoPass.

(* the code: both passes ignore the lines without any character, and only those *)
Definition sensors_load (ls : list sline) : sres := sensors_load2 s_empty s_empty ls.
