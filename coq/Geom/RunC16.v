(* EXTRACT-F: c16 frun_c16 *)
(* Executable entry point of the C16 correspondence: decodes a case (integers | doubles), runs the generic
   kernels of Geom/Kernels.v and Geom/Quadrature.v over the given Ops instance.  Besides the result, most
   operations return the absolute magnitudes of the terms of the last reduction (the rounding-class scale). *)
From OM Require Import Base.Ops Base.Vec3 Gen.GenQuadTables Geom.Kernels Geom.Quadrature Geom.IntegratorCtors.
From Coq Require Import ZArith QArith List.
Import ListNotations.

Section Run.
  Context {F : Type} (o : Ops F).
  Local Notation V := (vec3 F).

  Definition fdec (A : Type) := list F -> option (A * list F).
  Definition getV : fdec V := fun l => match l with a :: b :: c :: r => Some (mkV a b c, r) | _ => None end.
  Definition getF : fdec F := fun l => match l with a :: r => Some (a, r) | _ => None end.
  Definition fbind {A B} (m : fdec A) (k : A -> fdec B) : fdec B :=
    fun l => match m l with Some (a, r) => k a r | None => None end.
  Definition fret {A} (a : A) : fdec A := fun l => Some (a, l).
  Notation "'fdo' x <- m ; k" := (fbind m (fun x => k)) (at level 200, x pattern, m at level 100, k at level 200).
  Fixpoint getMany {A} (n : nat) (d : fdec A) : fdec (list A) :=
    match n with O => fret [] | S n' => fdo x <- d; fdo xs <- getMany n' d; fret (x :: xs) end.

  Definition outV (v : V) : list F := [vx v; vy v; vz v].
  Definition vabs (v : V) : V := mkV (fabs o (vx v)) (fabs o (vy v)) (fabs o (vz v)).
  Definition bad : list Z * list F := ([(-1)%Z], []).
  Definition ok (fs : list F) : list Z * list F := ([0%Z], fs).
  Definition fin {A} (r : option (A * list F)) (k : A -> list Z * list F) : list Z * list F :=
    match r with Some (a, []) => k a | _ => bad end.

  (* x^a as the harness computes it: r = 1; repeat a times r = r*x *)
  Fixpoint pw (x : F) (a : nat) : F := match a with O => f1 o | S a' => fmul o (pw x a') x end.
  (* polynomial sum_k coef_k x^a_k y^b_k z^c_k, summed from 0.0 left to right *)
  Definition poly_eval (mon : list (F * (nat * nat * nat))) (v : V) : F :=
    fold_left (fun acc m => let '(c, (a, b, cc)) := m in
                 fadd o acc (fmul o (fmul o (fmul o c (pw (vx v) a)) (pw (vy v) b)) (pw (vz v) cc)))
              mon (f0 o).

  Definition rot3 {A} (r : Z) (a b c : A) : A * A * A :=
    match r with 0%Z => (a, b, c) | 1%Z => (b, c, a) | _ => (c, a, b) end.

  (* D3: magnitudes |omega Z_i.N| + |d D_i.S| over N^2, per component *)
  Definition d3_scale (a : analyticD3_t) (x : V) : V :=
    let Y1 := vsub o (D_v0 a) x in let Y2 := vsub o (D_v1 a) x in let Y3 := vsub o (D_v2 a) x in
    let y1 := norm o Y1 in let y2 := norm o Y2 in let y3 := norm o Y3 in
    let d := det3 o Y1 Y2 Y3 in
    let omega := fmul o (f2 o) (fatan2 o d (solid_angle_den o Y1 Y2 Y3 y1 y2 y3)) in
    let Z1 := cross o Y2 Y3 in let Z2 := cross o Y3 Y1 in let Z3 := cross o Y1 Y2 in
    let g1 := fln o (fdiv o (fadd o y2 (dot o Y2 (D_U1 a))) (fadd o y1 (dot o Y1 (D_U1 a)))) in
    let g2 := fln o (fdiv o (fadd o y3 (dot o Y3 (D_U2 a))) (fadd o y2 (dot o Y2 (D_U2 a)))) in
    let g3 := fln o (fdiv o (fadd o y1 (dot o Y1 (D_U3 a))) (fadd o y3 (dot o Y3 (D_U3 a)))) in
    let N := vadd o (vadd o Z1 Z2) Z3 in
    let Sa := vadd o (vadd o (vabs (vscale o g1 (D_U1 a))) (vabs (vscale o g2 (D_U2 a)))) (vabs (vscale o g3 (D_U3 a))) in
    let ad := fabs o d in let ao := fabs o omega in
    vdivs o (vadd o (vscale o ao (mkV (dot o (vabs Z1) (vabs N)) (dot o (vabs Z2) (vabs N)) (dot o (vabs Z3) (vabs N))))
                    (vscale o ad (mkV (dot o (vabs (D_D2 a)) Sa) (dot o (vabs (D_D3 a)) Sa) (dot o (vabs (D_D1 a)) Sa))))
            (norm2 o N).

  (* the integrands the library integrates (operators.h / operators.cpp) plus polynomials *)
  Inductive integrand :=
  | I_poly (mon : list (F * (nat * nat * nat)))
  | I_dippot (r0 q : V)
  | I_S (v0 v1 v2 : V)
  | I_D3 (v0 v1 v2 : V)
  | I_dpd (r0 q : V).

  Definition get_integrand (kind : Z) (zs : list Z) : fdec integrand :=
    match kind with
    | 0%Z => match zs with
             | n :: es =>
               let n := Z.to_nat n in
               fdo cs <- getMany n getF;
               let fix trip (l : list Z) : list (nat * nat * nat) :=
                   match l with a :: b :: c :: r => (Z.to_nat a, Z.to_nat b, Z.to_nat c) :: trip r | _ => [] end in
               fret (I_poly (combine cs (trip es)))
             | _ => fun _ => None
             end
    | 1%Z => fdo r0 <- getV; fdo q <- getV; fret (I_dippot r0 q)
    | 2%Z => fdo a <- getV; fdo b <- getV; fdo c <- getV; fret (I_S a b c)
    | 3%Z => fdo a <- getV; fdo b <- getV; fdo c <- getV; fret (I_D3 a b c)
    | _ => fdo r0 <- getV; fdo q <- getV; fret (I_dpd r0 q)
    end.

  Definition run_integrate (ord depth : nat) (tol : F) (t0 t1 t2 : V) (g : integrand) : list F :=
    let sc (f : V -> F) :=
      let r := integrate o (RS_scalar o) ord depth tol f t0 t1 t2 in
      let s := integrate o (RS_scalar o) ord 0 tol (fun v => fabs o (f v)) t0 t1 t2 in [r; s] in
    let vc (f : V -> V) :=
      let r := integrate o (RS_vec3 o) ord depth tol f t0 t1 t2 in
      let s := integrate o (RS_scalar o) ord 0 tol (fun v => norm o (f v)) t0 t1 t2 in outV r ++ [s] in
    match g with
    | I_poly mon => sc (poly_eval mon)
    | I_dippot r0 q => sc (dipole_potential o r0 q)
    | I_S a b c => let an := analyticS_init_triangle o a b c in sc (analyticS_f o an)
    | I_D3 a b c => let an := analyticD3_init o a b c in vc (analyticD3_f o an)
    | I_dpd r0 q => let an := analyticDipPotDer_init o r0 q t0 t1 t2 in vc (analyticDipPotDer_f o an)
    end.

  Definition frun_c16 (zs : list Z) (fs : list F) : list Z * list F :=
    match zs with
    | 1%Z :: [] =>
      fin ((fdo x <- getV; fdo a <- getV; fdo b <- getV; fdo c <- getV; fret (x, a, b, c)) fs)
          (fun '(x, a, b, c) => ok [solid_angle o x a b c])
    | 2%Z :: [] =>
      fin ((fdo p0 <- getV; fdo p1 <- getV; fdo x <- getV; fret (p0, p1, x)) fs)
          (fun '(p0, p1, x) =>
             let p0x := vsub o p0 x in let p1x := vsub o p1 x in let p1p0 := vsub o p1 p0 in
             ok [integral_simplified_green o p0x (norm o p0x) p1x (norm o p1x) p1p0 (norm o p1p0);
                 green_arg o p0x (norm o p0x) p1x (norm o p1x) p1p0 (norm o p1p0)])
    | 3%Z :: [] =>
      fin ((fdo a <- getV; fdo b <- getV; fdo c <- getV; fdo x <- getV; fret (a, b, c, x)) fs)
          (fun '(a, b, c, x) => let an := analyticS_init o a b c in
             ok (analyticS_f o an x :: map (fabs o) (analyticS_f_terms o an x)))
    | 4%Z :: [] =>
      fin ((fdo a <- getV; fdo b <- getV; fdo c <- getV; fdo x <- getV; fret (a, b, c, x)) fs)
          (fun '(a, b, c, x) => let an := analyticS_init_triangle o a b c in
             ok (analyticS_f o an x :: map (fabs o) (analyticS_f_terms o an x)))
    | 5%Z :: [] =>
      fin ((fdo a <- getV; fdo b <- getV; fdo c <- getV; fdo x <- getV; fret (a, b, c, x)) fs)
          (fun '(a, b, c, x) => let an := analyticD3_init o a b c in
             ok (outV (analyticD3_f o an x) ++ outV (d3_scale an x)))
    | 6%Z :: [] =>
      fin ((fdo r0 <- getV; fdo q <- getV; fdo a <- getV; fdo b <- getV; fdo c <- getV; fdo r <- getV; fret (r0, q, a, b, c, r)) fs)
          (fun '(r0, q, a, b, c, r) => let an := analyticDipPotDer_init o r0 q a b c in
             ok (outV (analyticDipPotDer_f o an r)))
    | 7%Z :: [] =>
      fin ((fdo r0 <- getV; fdo q <- getV; fdo r <- getV; fret (r0, q, r)) fs)
          (fun '(r0, q, r) => ok [dipole_potential o r0 q r])
    | 8%Z :: n :: rots =>
      fin ((fdo x <- getV; fdo v <- getV; fdo ab <- getMany (Z.to_nat n) (fdo a <- getV; fdo b <- getV; fret (a, b)); fret (x, v, ab)) fs)
          (fun '(x, v, ab) =>
             let fan := map (fun '((a, b), r) =>
                               (* the triangle is stored as the rotation r of (V,A,B): r = position of V *)
                               (* codes 3..5: rotation r-3, then Triangle::change_orientation() AFTER the last Mesh::update():
                                  T.edge(V) of the flipped triangle is (B,A), T.area() is still that of the old vertex order *)
                               let flipped := Z.leb 3 r in
                               let r := if flipped then (r - 3)%Z else r in
                               let '(s0, s1, s2) := match r with 0%Z => (v, a, b) | 1%Z => (b, v, a) | _ => (a, b, v) end in
                               if flipped then (b, a, triangle_area o s0 s1 s2) else (a, b, triangle_area o s0 s1 s2)) (combine ab rots) in
             let r := operatorFerguson o x v fan in
             let s := fold_left (fun acc t => let '(a, b, ar) := t in vadd o acc (vabs (ferguson_term o x v a b ar))) fan (vconst (f0 o)) in
             ok (outV r ++ outV s))
    | 9%Z :: ord :: depth :: kind :: rest =>
      fin ((fdo tol <- getF; fdo t0 <- getV; fdo t1 <- getV; fdo t2 <- getV; fdo g <- get_integrand kind rest; fret (tol, t0, t1, t2, g)) fs)
          (fun '(tol, t0, t1, t2, g) => ok (run_integrate (Z.to_nat ord) (Z.to_nat depth) tol t0 t1 t2 g))
    | 13%Z :: ctor :: ord :: depth :: kind :: [] =>   (* every constructor overload of Integrator *)
      fin ((fdo tol <- getF; fdo t0 <- getV; fdo t1 <- getV; fdo t2 <- getV; fdo r0 <- getV; fdo q <- getV; fret (tol, t0, t1, t2, r0, q)) fs)
          (fun '(tol, t0, t1, t2, r0, q) =>
             let '(d, tl) := integrator_params o ctor (Z.to_nat depth) tol in
             let g := match kind with 1%Z => I_dippot r0 q | _ => I_dpd r0 q end in
             let res := run_integrate (Z.to_nat ord) d tl t0 t1 t2 g in
             ([0%Z; Z.of_nat (safe_order (Z.to_nat ord)); Z.of_nat d], tl :: res))
    | 10%Z :: ord :: [] =>          (* the table itself, as doubles: nbPts then l0 l1 l2 w per node *)
      let rule := rule_of_order (Z.to_nat ord) in
      ([0%Z; Z.of_nat (length rule)],
       flat_map (fun p => [fQ o (qp_l0 p); fQ o (qp_l1 p); fQ o (qp_l2 p); fQ o (qp_w p)]) rule)
    | 11%Z :: ord :: depth :: a :: b :: c :: [] =>   (* l0^a l1^b l2^c on the unit triangle through integrate *)
      fin (getF fs)
          (fun tol =>
             let fn (v : V) := fmul o (fmul o (pw (fsub o (fsub o (f1 o) (vx v)) (vy v)) (Z.to_nat a)) (pw (vx v) (Z.to_nat b)))
                                      (pw (vy v) (Z.to_nat c)) in
             ok [integrate o (RS_scalar o) (Z.to_nat ord) (Z.to_nat depth) tol fn
                           (mkV (f0 o) (f0 o) (f0 o)) (mkV (f1 o) (f0 o) (f0 o)) (mkV (f0 o) (f1 o) (f0 o))])
    | 12%Z :: ord :: [] => ([0%Z; Z.of_nat (safe_order (Z.to_nat ord))], [])
    | _ => bad
    end.
End Run.
