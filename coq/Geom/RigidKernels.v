(* C02, kernel level: every integration kernel of Geom/Kernels.v (R instance) is invariant under every rigid
   motion applied to all its arguments; vector-valued results that live in space are equivariant; Gauss nodes
   and the adaptive integrator commute with the motion.  Lemmas (the property file only re-exports them). *)
From Coq Require Import Reals Lra List QArith.
From OM Require Import Base.Ops Base.Vec3 Base.OpsR Base.Rigid Geom.Kernels Geom.Quadrature.
Import ListNotations.
Local Open Scope R_scope.

Section Invariance.
  Variable g : rigid.
  Local Notation mv := (app g).
  Local Notation rt := (rot g).

  Ltac rigid_rw :=
    repeat (rewrite ?app_sub, ?rot_sub, ?rot_norm, ?rot_norm2, ?rot_det3, ?rot_dot, ?rot_cross, ?rot_normalize,
                    ?rot_divs, ?rot_diveq, ?rot_opp, <- (rot_add g), <- (rot_scale g)).

  Lemma solid_angle_den_rot Y1 Y2 Y3 y1 y2 y3 :
    solid_angle_den OpsR (rt Y1) (rt Y2) (rt Y3) y1 y2 y3 = solid_angle_den OpsR Y1 Y2 Y3 y1 y2 y3.
  Proof. unfold solid_angle_den; rewrite !rot_dot; reflexivity. Qed.

  Lemma solid_angle_rigid x v1 v2 v3 :
    solid_angle OpsR (mv x) (mv v1) (mv v2) (mv v3) = solid_angle OpsR x v1 v2 v3.
  Proof.
    unfold solid_angle; cbv zeta. rewrite !app_sub, !rot_norm, rot_det3, solid_angle_den_rot. reflexivity.
  Qed.

  Lemma green_arg_rot p0x n0 p1x n1 p1p0 n10 :
    green_arg OpsR (rt p0x) n0 (rt p1x) n1 (rt p1p0) n10 = green_arg OpsR p0x n0 p1x n1 p1p0 n10.
  Proof. unfold green_arg; rewrite !rot_dot; reflexivity. Qed.

  Lemma green_rot p0x n0 p1x n1 p1p0 n10 :
    integral_simplified_green OpsR (rt p0x) n0 (rt p1x) n1 (rt p1p0) n10
    = integral_simplified_green OpsR p0x n0 p1x n1 p1p0 n10.
  Proof. unfold integral_simplified_green; cbv zeta; rewrite green_arg_rot; reflexivity. Qed.

  (* analyticS: f of the moved triangle at the moved point, for the three ways the C++ builds the object *)
  Lemma analyticS_f_rigid_with_normal v0 v1 v2 n x :
    analyticS_f OpsR (analyticS_init_with_normal OpsR (mv v0) (mv v1) (mv v2) (rt n)) (mv x)
    = analyticS_f OpsR (analyticS_init_with_normal OpsR v0 v1 v2 n) x.
  Proof.
    unfold analyticS_f, analyticS_init_with_normal; cbv zeta;
      cbn [S_p0 S_p1 S_p2 S_p2p1 S_p1p0 S_p0p2 S_nu0 S_nu1 S_nu2 S_n S_norm2p2p1 S_norm2p1p0 S_norm2p0p2].
    rewrite !app_sub, !rot_norm, !rot_cross, !rot_normalize, !rot_dot, !green_rot, solid_angle_rigid.
    reflexivity.
  Qed.

  Lemma analyticS_f_rigid v0 v1 v2 x :
    analyticS_f OpsR (analyticS_init OpsR (mv v0) (mv v1) (mv v2)) (mv x)
    = analyticS_f OpsR (analyticS_init OpsR v0 v1 v2) x.
  Proof.
    unfold analyticS_init; cbv zeta.
    rewrite !app_sub, rot_cross, rot_norm, <- (rot_diveq g). apply analyticS_f_rigid_with_normal.
  Qed.

  Lemma triangle_normal_rigid v0 v1 v2 :
    triangle_normal OpsR (mv v0) (mv v1) (mv v2) = rt (triangle_normal OpsR v0 v1 v2).
  Proof. unfold triangle_normal, triangle_normaldir; rewrite !app_sub, rot_cross, rot_normalize; reflexivity. Qed.

  Lemma triangle_area_rigid v0 v1 v2 :
    triangle_area OpsR (mv v0) (mv v1) (mv v2) = triangle_area OpsR v0 v1 v2.
  Proof. unfold triangle_area, triangle_normaldir; rewrite !app_sub, rot_cross, rot_norm; reflexivity. Qed.

  Lemma analyticS_f_rigid_triangle v0 v1 v2 x :
    analyticS_f OpsR (analyticS_init_triangle OpsR (mv v0) (mv v1) (mv v2)) (mv x)
    = analyticS_f OpsR (analyticS_init_triangle OpsR v0 v1 v2) x.
  Proof. unfold analyticS_init_triangle; rewrite triangle_normal_rigid; apply analyticS_f_rigid_with_normal. Qed.

  (* analyticD3: the three components are coefficients w.r.t. the P1 functions of the triangle: invariant *)
  Lemma unit_vector_rot u : unit_vector OpsR (rt u) = rt (unit_vector OpsR u).
  Proof. unfold unit_vector; rewrite rot_norm, rot_divs; reflexivity. Qed.

  Lemma analyticD3_f_rigid v0 v1 v2 x :
    analyticD3_f OpsR (analyticD3_init OpsR (mv v0) (mv v1) (mv v2)) (mv x)
    = analyticD3_f OpsR (analyticD3_init OpsR v0 v1 v2) x.
  Proof.
    unfold analyticD3_f, analyticD3_init; cbv zeta; cbn [D_v0 D_v1 D_v2 D_D1 D_D2 D_D3 D_U1 D_U2 D_U3].
    rewrite !app_sub, !rot_norm, rot_det3, solid_angle_den_rot, !unit_vector_rot, !rot_cross, !rot_dot.
    rewrite <- !(rot_scale g), <- !(rot_add g), !rot_dot, rot_norm2. reflexivity.
  Qed.

  Lemma dipole_potential_rigid r0 q r :
    dipole_potential OpsR (mv r0) (rt q) (mv r) = dipole_potential OpsR r0 q r.
  Proof. unfold dipole_potential; cbv zeta; rewrite app_sub, rot_norm2, rot_dot; reflexivity. Qed.

  Lemma analyticDipPotDer_f_rigid r0 q p0 p1 p2 r :
    analyticDipPotDer_f OpsR (analyticDipPotDer_init OpsR (mv r0) (rt q) (mv p0) (mv p1) (mv p2)) (mv r)
    = analyticDipPotDer_f OpsR (analyticDipPotDer_init OpsR r0 q p0 p1 p2) r.
  Proof.
    unfold analyticDipPotDer_f, analyticDipPotDer_init; cbv zeta;
      cbn [P_r0 P_q P_H0 P_H1 P_H2 P_H0p0DivNorm2 P_H1p1DivNorm2 P_H2p2DivNorm2 P_n].
    rewrite !app_sub, !rot_norm, <- !(rot_divs g), !rot_dot, <- !(rot_scale g), !app_add_vec, !app_sub,
            !rot_norm2, <- !(rot_divs g), !rot_dot, rot_cross, <- (rot_opp g), rot_normalize.
    rewrite <- (rot_sub g), !rot_dot. reflexivity.
  Qed.

  (* Ferguson: a vector in space, rotates with the frame *)
  Lemma ferguson_term_rigid x Vv A B area :
    ferguson_term OpsR (mv x) (mv Vv) (mv A) (mv B) area = rt (ferguson_term OpsR x Vv A B area).
  Proof.
    unfold ferguson_term; cbv zeta. rewrite analyticS_f_rigid, app_sub, <- (rot_divs g), <- (rot_scale g). reflexivity.
  Qed.

  Definition move_fan (fan : list (V3 * V3 * R)) : list (V3 * V3 * R) :=
    map (fun t => match t with (A, B, area) => (mv A, mv B, area) end) fan.

  Lemma operatorFerguson_rigid x Vv fan :
    operatorFerguson OpsR (mv x) (mv Vv) (move_fan fan) = rt (operatorFerguson OpsR x Vv fan).
  Proof.
    unfold operatorFerguson. rewrite <- (rot_zero g) at 1. cbn [f0 OpsR].
    generalize (vconstR 0). induction fan as [| [[A B] ar] fan IH]; intros acc; cbn [fold_left map move_fan].
    - reflexivity.
    - rewrite ferguson_term_rigid, <- (rot_add g). apply IH.
  Qed.

  (* sensor projection  dotprod(field,direction)/direction.norm()  (assembleSensors.cpp) *)
  Lemma sensor_projection_rigid b n : dotR (rt b) (rt n) / normR (rt n) = dotR b n / normR n.
  Proof. rewrite rot_dot, rot_norm; reflexivity. Qed.

  (* primary field of a dipole at a sensor (DipSource2MEGMat): q ^ diff / |diff|^3 rotates with the frame *)
  Lemma dipole_primary_field_rigid q r p :
    let diff := vsubR p r in let diff' := vsubR (mv p) (mv r) in
    crossR (rt q) (vdivsR diff' (normR diff' * normR diff' * normR diff'))
    = rt (crossR q (vdivsR diff (normR diff * normR diff * normR diff))).
  Proof. cbv zeta. rewrite app_sub, rot_norm, <- (rot_divs g), rot_cross. reflexivity. Qed.

  (* ---- quadrature ------------------------------------------------------------------------------------------ *)
  (* Gauss nodes are barycentric combinations: they follow the rotation exactly, and the translation up to the
     factor l0+l1+l2 -- which is 1 only approximately for the decimal tables of integrator.h *)
  Definition bsum (p : qpoint) : R := fQ OpsR (qp_l0 p) + fQ OpsR (qp_l1 p) + fQ OpsR (qp_l2 p).

  Lemma quad_node_affine p t0 t1 t2 :
    quad_node OpsR p (mv t0) (mv t1) (mv t2) = vaddR (rt (quad_node OpsR p t0 t1 t2)) (vscaleR (bsum p) (tr g)).
  Proof.
    unfold quad_node, bary_point, bsum, app.
    set (a := fQ OpsR (qp_l0 p)); set (b := fQ OpsR (qp_l1 p)); set (c := fQ OpsR (qp_l2 p)).
    assert (E : forall u0 u1 u2, vmultaddR (vmultaddR (vmultaddR vzeroR a u0) b u1) c u2
                 = vaddR (vaddR (vscaleR a u0) (vscaleR b u1)) (vscaleR c u2)) by (intros; v3).
    rewrite !E, !rot_add, !rot_scale. v3.
  Qed.

  Lemma quad_node_rigid p t0 t1 t2 :
    bsum p = 1 -> quad_node OpsR p (mv t0) (mv t1) (mv t2) = mv (quad_node OpsR p t0 t1 t2).
  Proof. intros H; rewrite quad_node_affine, H; unfold app; v3. Qed.

  Lemma midpoint_rigid a b : midpoint OpsR (mv a) (mv b) = mv (midpoint OpsR a b).
  Proof.
    unfold midpoint, app. rewrite rot_scale, rot_add. v3; unfold fQ; cbn; field.
  Qed.

  Lemma area2_rigid t0 t1 t2 : area2 OpsR (mv t0) (mv t1) (mv t2) = area2 OpsR t0 t1 t2.
  Proof. unfold area2; rewrite !app_sub, rot_cross, rot_norm; reflexivity. Qed.

  Section Integration.
    Context {T : Type} (rs : RSpace R T).
    Variable rule : list qpoint.
    Hypothesis rule_sums : Forall (fun p => bsum p = 1) rule.
    (* the integrand in the moved frame takes, at moved points, the values of the integrand in the original frame
       (an invariant scalar kernel, or the hat-function components of a vector kernel) *)
    Variables f f' : V3 -> T.
    Hypothesis f_inv : forall p, f' (mv p) = f p.

    Lemma rule_sum_rigid_aux t0 t1 t2 : forall l, Forall (fun p => bsum p = 1) l -> forall acc,
      fold_left (fun acc p => rs_add rs acc (rs_scale rs (fQ OpsR (qp_w p)) (f' (quad_node OpsR p (mv t0) (mv t1) (mv t2))))) l acc
      = fold_left (fun acc p => rs_add rs acc (rs_scale rs (fQ OpsR (qp_w p)) (f (quad_node OpsR p t0 t1 t2)))) l acc.
    Proof.
      induction l as [| p l IH]; intros Hl acc; cbn [fold_left].
      - reflexivity.
      - inversion Hl as [| ? ? Hp Hl']; subst. rewrite (quad_node_rigid p t0 t1 t2 Hp), f_inv. apply IH; assumption.
    Qed.

    Lemma rule_sum_rigid t0 t1 t2 :
      rule_sum OpsR rs rule f' (mv t0) (mv t1) (mv t2) = rule_sum OpsR rs rule f t0 t1 t2.
    Proof. unfold rule_sum. apply rule_sum_rigid_aux; exact rule_sums. Qed.

    Lemma triangle_integration_rigid t0 t1 t2 :
      triangle_integration_rule OpsR rs rule f' (mv t0) (mv t1) (mv t2)
      = triangle_integration_rule OpsR rs rule f t0 t1 t2.
    Proof. unfold triangle_integration_rule; rewrite area2_rigid, rule_sum_rigid; reflexivity. Qed.

    (* same stopping decisions, hence the same refinement tree and the same value *)
    Lemma adaptive_integration_rigid tol level : forall t0 t1 t2 coarse,
      adaptive_integration_rule OpsR rs rule tol f' (mv t0) (mv t1) (mv t2) coarse level
      = adaptive_integration_rule OpsR rs rule tol f t0 t1 t2 coarse level.
    Proof.
      induction level as [| level IH]; intros t0 t1 t2 coarse; cbn [adaptive_integration_rule]; cbv zeta;
        rewrite !midpoint_rigid, !triangle_integration_rigid.
      - reflexivity.
      - rewrite !IH. reflexivity.
    Qed.
  End Integration.
End Invariance.
