(* Model of the validity-check orchestration: Mesh::has_self_intersection, Mesh::intersection (mesh.cpp),
   Geometry::selfCheck / check / check_inner (geometry.cpp), the exit status of om_check_geom
   (apps/tools/check_geom.cpp) and the refusal of om_assemble -HM (apps/assemble.cpp).
   Parametric in the triangle type, the triangle-triangle predicate and the point-in-interface predicate.
   No proofs here. *)
From Coq Require Import List Bool Arith.
Import ListNotations.

Section Checks.
Variable T : Type.                       (* a triangle *)
Variable vid : T -> nat * nat * nat.     (* identities (addresses) of its three vertices *)
Variable isect : T -> T -> bool.         (* Triangle::intersects *)

Definition v3 (t : T) (k : nat) : nat :=
  match k with O => fst (fst (vid t)) | S O => snd (fst (vid t)) | _ => snd (vid t) end.
(* Triangle::contains(const Vertex& p): address comparison with the three vertices *)
Definition contains (t : T) (v : nat) : bool := Nat.eqb (v3 t 0) v || Nat.eqb (v3 t 1) v || Nat.eqb (v3 t 2) v.

(* guard of has_self_intersection after the fix: commit *)
Definition share_no_vertex (t1 t2 : T) : bool :=
  negb (contains t1 (v3 t2 0)) && negb (contains t1 (v3 t2 1)) && negb (contains t1 (v3 t2 2)).
(* guard of the pinned text: the third conjunct tests a vertex of tit1 itself *)
Definition guard_pinned (t1 t2 : T) : bool :=
  negb (contains t1 (v3 t2 0)) && negb (contains t1 (v3 t2 1)) && negb (contains t1 (v3 t1 2)).

Definition mesh : Type := list T.

(* for tit2 = tit1 .. end : if guard then if intersects then selfIntersects = true *)
Definition inner_loop (guard : T -> T -> bool) (t1 : T) (rest : list T) (acc : bool) : bool :=
  fold_left (fun a t2 => if guard t1 t2 then (if isect t1 t2 then true else a) else a) rest acc.
Fixpoint hsi_loop (guard : T -> T -> bool) (ts : list T) (acc : bool) : bool :=
  match ts with
  | [] => acc
  | t1 :: r => hsi_loop guard r (inner_loop guard t1 (t1 :: r) acc)
  end.
Definition has_self_intersection (m : mesh) : bool := hsi_loop share_no_vertex m false.
Definition has_self_intersection_pinned (m : mesh) : bool := hsi_loop guard_pinned m false.

(* Mesh::intersection: intersects = intersects | triangle1.intersects(triangle2) over all pairs *)
Definition mesh_intersection (m1 m2 : mesh) : bool :=
  fold_left (fun a t1 => fold_left (fun a' t2 => a' || isect t1 t2) m2 a) m1 false.

(* Geometry::selfCheck *)
Fixpoint self_check_loop (nested : bool) (ms : list mesh) (ok : bool) : bool :=
  match ms with
  | [] => ok
  | m1 :: r =>
      let ok1 := if has_self_intersection m1 then false else ok in
      let ok2 := if nested
                 then fold_left (fun a m2 => if mesh_intersection m1 m2 then false else a) r ok1
                 else ok1 in
      self_check_loop nested r ok2
  end.
Definition self_check (nested : bool) (ms : list mesh) : bool := self_check_loop nested ms true.

(* Geometry::check(const Mesh& m) *)
Definition check_mesh (ms : list mesh) (m : mesh) : bool :=
  let ok0 := if has_self_intersection m then false else true in
  fold_left (fun a mesh => if mesh_intersection mesh m then false else a) ms ok0.

(* Geometry::check_inner(const Matrix& dipoles) *)
Variable P : Type.
Variable inside : P -> bool.             (* innermost_interface().contains(point) *)
Definition n_outside (ds : list P) : nat :=
  fold_left (fun n d => if inside d then n else S n) ds 0.
Definition check_inner (nested : bool) (ds : list P) : bool :=
  if negb nested then false else if negb (Nat.eqb (n_outside ds) 0) then false else true.

(* om_check_geom: exit status (help mode and a missing -g are argument handling, C20) *)
Definition om_check_geom (nested : bool) (ms : list mesh) (m : option mesh) (dips : option (list P)) : nat :=
  if negb (self_check nested ms) then 1
  else
    match (match m with Some mm => if negb (check_mesh ms mm) then Some 1 else None | None => None end) with
    | Some c => c
    | None =>
      match dips with
      | Some ds => if negb nested then 1 else if negb (check_inner nested ds) then 1 else 0
      | None => 0
      end
    end.

(* om_assemble -HM: exit(1) before assembling when selfCheck fails *)
Definition om_assemble_hm {HM : Type} (assemble : list mesh -> HM) (nested : bool) (ms : list mesh) : nat * option HM :=
  if negb (self_check nested ms) then (1, None) else (0, Some (assemble ms)).
End Checks.
