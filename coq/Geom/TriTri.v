(* Hand transcription of OpenMEEG/include/Triangle_triangle_intersection.h (Guigue-Devillers overlap test,
   tri_tri_overlap_test_3d with its eps comparisons and the coplanar 2-D fallback) over a record of numeric
   operations, and an independent exact oracle (edge pierces triangle, by signs of 3x3 determinants).
   No proofs here. *)
From Coq Require Import ZArith List Bool.
From OM Require Import Base.Ops Geom.V3Q.
Import ListNotations.

Section TT.
Context {F : Type} (o : Ops F).
Local Notation "x -! y" := (fsub o x y) (at level 50, left associativity).
Local Notation "x *! y" := (fmul o x y) (at level 40, left associativity).
Local Notation vec := (@vec F).
Local Notation vsub := (vsub o). Local Notation vdot := (vdot o). Local Notation vcross := (vcross o).
Local Notation Z0 := (f0 o).
Definition gt (x y : F) : bool := fltb o y x.       (* x >  y *)
Definition lt (x y : F) : bool := fltb o x y.       (* x <  y *)
Definition ge (x y : F) : bool := fleb o y x.       (* x >= y *)
Definition le (x y : F) : bool := fleb o x y.       (* x <= y *)

(* const double eps=1e-16 *)
Definition eps : F := fdiv o (fofZ o 1) (fofZ o (10 ^ 16)).
Definition neps : F := fopp o eps.

(* ---- 2-D part ---- *)
Definition pt2 : Type := (F * F)%type.
(* orient_2d(a,b,c): l = (a0-c0)*(b1-c1), r = (a1-c1)*(b0-c0), o = l-r; a value with |o| <= 1e-10*(|l|+|r|) is an exact
   zero (fix: commit in /repo: collinear points stay collinear after a rigid motion) *)
Definition c1e10 : F := fdiv o (fofZ o 1) (fofZ o (10 ^ 10)).
Definition orient2 (a b c : pt2) : F :=
  let l := (fst a -! fst c) *! (snd b -! snd c) in
  let r := (snd a -! snd c) *! (fst b -! fst c) in
  let d := l -! r in
  if le (fabs o d) (c1e10 *! (fadd o (fabs o l) (fabs o r))) then Z0 else d.

Definition test_vertex (P1 Q1 R1 P2 Q2 R2 : pt2) : bool :=
  if ge (orient2 R2 P2 Q1) Z0 then
    if le (orient2 R2 Q2 Q1) Z0 then
      if gt (orient2 P1 P2 Q1) Z0 then
        (if le (orient2 P1 Q2 Q1) Z0 then true else false)
      else
        (if ge (orient2 P1 P2 R1) Z0 then
           (if ge (orient2 Q1 R1 P2) Z0 then true else false)
         else false)
    else
      if le (orient2 P1 Q2 Q1) Z0 then
        if le (orient2 R2 Q2 R1) Z0 then
          (if ge (orient2 Q1 R1 Q2) Z0 then true else false)
        else false
      else false
  else
    if ge (orient2 R2 P2 R1) Z0 then
      if ge (orient2 Q1 R1 R2) Z0 then
        (if ge (orient2 P1 P2 R1) Z0 then true else false)
      else
        if ge (orient2 Q1 R1 Q2) Z0 then
          (if ge (orient2 R2 R1 Q2) Z0 then true else false)
        else false
    else false.

Definition test_edge (P1 Q1 R1 P2 Q2 R2 : pt2) : bool :=
  if ge (orient2 R2 P2 Q1) Z0 then
    if ge (orient2 P1 P2 Q1) Z0 then
      (if ge (orient2 P1 Q1 R2) Z0 then true else false)
    else
      if ge (orient2 Q1 R1 P2) Z0 then
        (if ge (orient2 R1 P1 P2) Z0 then true else false)
      else false
  else
    if ge (orient2 R2 P2 R1) Z0 then
      if ge (orient2 P1 P2 R1) Z0 then
        if ge (orient2 P1 R1 R2) Z0 then true
        else (if ge (orient2 Q1 R1 R2) Z0 then true else false)
      else false
    else false.

Definition ccw2 (p1 q1 r1 p2 q2 r2 : pt2) : bool :=
  if ge (orient2 p2 q2 p1) Z0 then
    if ge (orient2 q2 r2 p1) Z0 then
      if ge (orient2 r2 p2 p1) Z0 then true
      else test_edge p1 q1 r1 p2 q2 r2
    else
      if ge (orient2 r2 p2 p1) Z0 then test_edge p1 q1 r1 r2 p2 q2
      else test_vertex p1 q1 r1 p2 q2 r2
  else
    if ge (orient2 q2 r2 p1) Z0 then
      if ge (orient2 r2 p2 p1) Z0 then test_edge p1 q1 r1 q2 r2 p2
      else test_vertex p1 q1 r1 q2 r2 p2
    else test_vertex p1 q1 r1 r2 p2 q2.

Definition overlap2 (p1 q1 r1 p2 q2 r2 : pt2) : bool :=
  if lt (orient2 p1 q1 r1) Z0 then
    if lt (orient2 p2 q2 r2) Z0 then ccw2 p1 r1 q1 p2 r2 q2 else ccw2 p1 r1 q1 p2 q2 r2
  else
    if lt (orient2 p2 q2 r2) Z0 then ccw2 p1 q1 r1 p2 r2 q2 else ccw2 p1 q1 r1 p2 q2 r2.

(* coplanar_tri_tri3d: projection on the axis plane where the normal is largest *)
Definition cabs (x : F) : F := if lt x Z0 then fopp o x else x.
Definition coplanar3 (p1 q1 r1 p2 q2 r2 n1 : vec) : bool :=
  let nx := cabs (vx n1) in let ny := cabs (vy n1) in let nz := cabs (vz n1) in
  if gt nx nz && ge nx ny then
    overlap2 (vz q1, vy q1) (vz p1, vy p1) (vz r1, vy r1) (vz q2, vy q2) (vz p2, vy p2) (vz r2, vy r2)
  else if gt ny nz && ge ny nx then
    overlap2 (vx q1, vz q1) (vx p1, vz p1) (vx r1, vz r1) (vx q2, vz q2) (vx p2, vz p2) (vx r2, vz r2)
  else
    overlap2 (vx p1, vy p1) (vx q1, vy q1) (vx r1, vy r1) (vx p2, vy p2) (vx q2, vy q2) (vx r2, vy r2).

(* ---- 3-D part ---- *)
Definition check_min_max (p1 q1 r1 p2 q2 r2 : vec) : bool :=
  if gt (vdot (vsub q2 q1) (vcross (vsub p2 q1) (vsub p1 q1))) Z0 then false
  else if gt (vdot (vsub r2 p1) (vcross (vsub p2 p1) (vsub r1 p1))) Z0 then false
  else true.

(* TRI_TRI_3D(p1,q1,r1,p2,q2,r2,dp2,dq2,dr2); n1 is the normal N1 computed by the caller *)
Definition tri_tri_3d (n1 p1 q1 r1 p2 q2 r2 : vec) (dp2 dq2 dr2 : F) : bool :=
  if gt dp2 Z0 then
    if gt dq2 Z0 then check_min_max p1 r1 q1 r2 p2 q2
    else if gt dr2 Z0 then check_min_max p1 r1 q1 q2 r2 p2
    else check_min_max p1 q1 r1 p2 q2 r2
  else if lt dp2 Z0 then
    if lt dq2 Z0 then check_min_max p1 q1 r1 r2 p2 q2
    else if lt dr2 Z0 then check_min_max p1 q1 r1 q2 r2 p2
    else check_min_max p1 r1 q1 p2 q2 r2
  else
    if lt dq2 Z0 then
      if ge dr2 Z0 then check_min_max p1 r1 q1 q2 r2 p2
      else check_min_max p1 q1 r1 p2 q2 r2
    else if gt dq2 Z0 then
      if gt dr2 Z0 then check_min_max p1 r1 q1 p2 q2 r2
      else check_min_max p1 q1 r1 q2 r2 p2
    else
      if gt dr2 Z0 then check_min_max p1 q1 r1 r2 p2 q2
      else if lt dr2 Z0 then check_min_max p1 r1 q1 r2 p2 q2
      else coplanar3 p1 q1 r1 p2 q2 r2 n1.

(* SNAP_COPLANAR(d,v,N): if (d*d <= 1e-20*DOT(N,N)*DOT(v,v)) d = 0.0;  - a vertex within a relative 1e-10 of the other
   triangle's plane counts as lying in it (fix: commit in /repo) *)
Definition c1e20 : F := fdiv o (fofZ o 1) (fofZ o (10 ^ 20)).
Definition snap (d : F) (v n : vec) : F :=
  if le (d *! d) (c1e20 *! vdot n n *! vdot v v) then Z0 else d.
Definition sdist (x base n : vec) : F := let v := vsub x base in snap (vdot v n) v n.

(* the signed distances (before snapping) of the vertices of T1 to the plane of T2, and of T2 to the plane of T1 *)
Definition plane_dists_raw (p1 q1 r1 p2 q2 r2 : vec) : F * F * F :=
  let n2 := vcross (vsub p2 r2) (vsub q2 r2) in
  (vdot (vsub p1 r2) n2, vdot (vsub q1 r2) n2, vdot (vsub r1 r2) n2).
(* the six signed distances as the code uses them and the two early rejections *)
Definition plane_dists (p1 q1 r1 p2 q2 r2 : vec) : F * F * F :=
  let n2 := vcross (vsub p2 r2) (vsub q2 r2) in
  (sdist p1 r2 n2, sdist q1 r2 n2, sdist r1 r2 n2).

Definition tri_tri_overlap_3d (p1 q1 r1 p2 q2 r2 : vec) : bool :=
  let '(dp1, dq1, dr1) := plane_dists p1 q1 r1 p2 q2 r2 in
  if gt (dp1 *! dq1) Z0 && gt (dp1 *! dr1) Z0 then false
  else
    let n1 := vcross (vsub q1 p1) (vsub r1 p1) in
    let dp2 := sdist p2 r1 n1 in
    let dq2 := sdist q2 r1 n1 in
    let dr2 := sdist r2 r1 n1 in
    if gt (dp2 *! dq2) Z0 && gt (dp2 *! dr2) Z0 then false
    else
      if gt dp1 eps then
        if gt dq1 eps then tri_tri_3d n1 r1 p1 q1 p2 r2 q2 dp2 dr2 dq2
        else if gt dr1 eps then tri_tri_3d n1 q1 r1 p1 p2 r2 q2 dp2 dr2 dq2
        else tri_tri_3d n1 p1 q1 r1 p2 q2 r2 dp2 dq2 dr2
      else if lt dp1 neps then
        if lt dq1 neps then tri_tri_3d n1 r1 p1 q1 p2 q2 r2 dp2 dq2 dr2
        else if lt dr1 neps then tri_tri_3d n1 q1 r1 p1 p2 q2 r2 dp2 dq2 dr2
        else tri_tri_3d n1 p1 q1 r1 p2 r2 q2 dp2 dr2 dq2
      else
        if lt dq1 neps then
          if ge dr1 eps then tri_tri_3d n1 q1 r1 p1 p2 r2 q2 dp2 dr2 dq2
          else tri_tri_3d n1 p1 q1 r1 p2 q2 r2 dp2 dq2 dr2
        else if gt dq1 eps then
          if gt dr1 eps then tri_tri_3d n1 p1 q1 r1 p2 r2 q2 dp2 dr2 dq2
          else tri_tri_3d n1 q1 r1 p1 p2 q2 r2 dp2 dq2 dr2
        else
          if gt dr1 eps then tri_tri_3d n1 r1 p1 q1 p2 q2 r2 dp2 dq2 dr2
          else if lt dr1 neps then tri_tri_3d n1 r1 p1 q1 p2 r2 q2 dp2 dr2 dq2
          else coplanar3 p1 q1 r1 p2 q2 r2 n1.

(* Triangle::intersects *)
Definition tri3 : Type := (vec * vec * vec)%type.
Definition tri_intersects (t1 t2 : tri3) : bool :=
  tri_tri_overlap_3d (get3 t1 0) (get3 t1 1) (get3 t1 2) (get3 t2 0) (get3 t2 1) (get3 t2 2).

(* ---- independent exact oracle (non-coplanar, generic position only) ---- *)
(* orient3(a,b,c,d) = (d-a) . ((b-a) x (c-a)) *)
Definition orient3 (a b c d : vec) : F := vdot (vsub d a) (vcross (vsub b a) (vsub c a)).
Definition sgn (x : F) : Z := if lt x Z0 then (-1)%Z else if gt x Z0 then 1%Z else 0%Z.

(* closed segment [a,b] against closed triangle (u,v,w): None when a determinant vanishes (no clearance) *)
Definition seg_tri (a b u v w : vec) : option bool :=
  let sa := sgn (orient3 u v w a) in
  let sb := sgn (orient3 u v w b) in
  if (Z.eqb sa 0 || Z.eqb sb 0)%bool then None
  else if Z.eqb sa sb then Some false
  else
    let s1 := sgn (orient3 a b u v) in
    let s2 := sgn (orient3 a b v w) in
    let s3 := sgn (orient3 a b w u) in
    if (Z.eqb s1 0 || Z.eqb s2 0 || Z.eqb s3 0)%bool then None
    else Some (Z.eqb s1 s2 && Z.eqb s2 s3).

Definition oor (x y : option bool) : option bool :=
  match x, y with Some a, Some b => Some (a || b) | _, _ => None end.

Definition isect_oracle (t1 t2 : tri3) : option bool :=
  let '(p1, q1, r1) := t1 in let '(p2, q2, r2) := t2 in
  oor (oor (oor (seg_tri p1 q1 p2 q2 r2) (seg_tri q1 r1 p2 q2 r2)) (seg_tri r1 p1 p2 q2 r2))
      (oor (oor (seg_tri p2 q2 p1 q1 r1) (seg_tri q2 r2 p1 q1 r1)) (seg_tri r2 p2 p1 q1 r1)).
End TT.
