(* What is proved about the transcribed Guigue-Devillers tree (C12): the two plane rejections are sound
   (convex-combination argument).  Symmetry in the arguments and agreement with exact geometry on the
   interval-overlap branches are validated against the oracle by checks/c12.py, not proved. *)
From Coq Require Import Reals Lra Psatz List Bool.
From OM Require Import Base.Ops Geom.V3Q Geom.V3R Geom.TriTri.
Local Open Scope R_scope.

Notation rvec := (@vec R).
(* point of a triangle given by barycentric weights *)
Definition comb (a b c : R) (p q r : rvec) : rvec :=
  (a * vx p + b * vx q + c * vx r, a * vy p + b * vy q + c * vy r, a * vz p + b * vz q + c * vz r).
Definition weights (a b c : R) : Prop := 0 <= a /\ 0 <= b /\ 0 <= c /\ a + b + c = 1.
(* the two closed triangles have no common point *)
Definition disjoint_tri (p1 q1 r1 p2 q2 r2 : rvec) : Prop :=
  forall a b c a' b' c', weights a b c -> weights a' b' c' -> comb a b c p1 q1 r1 <> comb a' b' c' p2 q2 r2.

Ltac rops :=
  change (fltb Rops) with Rltb in *; change (fleb Rops) with Rleb in *;
  change (f0 Rops) with 0 in *; change (f1 Rops) with 1 in *;
  change (fsub Rops) with Rminus in *; change (fdiv Rops) with Rdiv in *;
  change (fadd Rops) with Rplus in *; change (fmul Rops) with Rmult in *; change (fopp Rops) with Ropp in *.

Lemma same_side_contra : forall a b c x y z, weights a b c -> 0 < x * y -> 0 < x * z -> a * x + b * y + c * z = 0 -> False.
Proof.
  intros a b c x y z (Ha & Hb & Hc & Hs) Hxy Hxz H.
  assert (Hx : x <> 0) by (intro; subst; lra).
  assert (0 < x * x) by nra.
  assert (E : a * (x * x) + b * (x * y) + c * (x * z) = 0) by (replace (a * (x * x) + b * (x * y) + c * (x * z)) with (x * (a * x + b * y + c * z)) by ring; rewrite H; ring).
  assert (0 <= a * (x * x)) by nra. assert (0 <= b * (x * y)) by nra. assert (0 <= c * (x * z)) by nra.
  assert (a * (x * x) = 0) by lra. assert (b * (x * y) = 0) by lra. assert (c * (x * z) = 0) by lra.
  assert (a = 0) by nra. assert (b = 0) by nra. assert (c = 0) by nra. lra.
Qed.


Lemma snap_cases d v n : snap Rops d v n = 0 \/ snap Rops d v n = d.
Proof. unfold snap. destruct (le Rops _ _); auto. Qed.
Lemma prod_pos_snap a b v n v' n' : 0 < snap Rops a v n * snap Rops b v' n' -> snap Rops a v n = a /\ snap Rops b v' n' = b.
Proof.
  intro H. destruct (snap_cases a v n) as [E | E], (snap_cases b v' n') as [E' | E']; rewrite ?E, ?E' in *; try lra; auto.
Qed.

(* first rejection: the three vertices of T1 strictly on one side of the plane of T2 *)
Lemma plane_rejection_raw_1 : forall p1 q1 r1 p2 q2 r2 dp1 dq1 dr1,
  plane_dists_raw Rops p1 q1 r1 p2 q2 r2 = (dp1, dq1, dr1) -> 0 < dp1 * dq1 -> 0 < dp1 * dr1 ->
  disjoint_tri p1 q1 r1 p2 q2 r2.
Proof.
  intros p1 q1 r1 p2 q2 r2 dp1 dq1 dr1 Hd H1 H2.
  intros a b c a' b' c' W W' E.
    destruct p1 as [[p1x p1y] p1z], q1 as [[q1x q1y] q1z], r1 as [[r1x r1y] r1z],
             p2 as [[p2x p2y] p2z], q2 as [[q2x q2y] q2z], r2 as [[r2x r2y] r2z].
    unfold plane_dists_raw in Hd. cbv [vdot vsub vcross vx vy vz mkv fst snd] in Hd. rops.
    inversion Hd as [[D1 D2 D3]]. clear Hd.
    unfold comb in E. cbv [vx vy vz fst snd] in E. inversion E as [[Ex Ey Ez]]. clear E.
    destruct W' as (_ & _ & _ & S'). destruct (W) as (_ & _ & _ & S).
    apply (same_side_contra a b c dp1 dq1 dr1 W H1 H2).
    set (nx := (p2y - r2y) * (q2z - r2z) - (p2z - r2z) * (q2y - r2y)) in *.
    set (ny := (p2z - r2z) * (q2x - r2x) - (p2x - r2x) * (q2z - r2z)) in *.
    set (nz := (p2x - r2x) * (q2y - r2y) - (p2y - r2y) * (q2x - r2x)) in *.
    transitivity (((a * p1x + b * q1x + c * r1x) - r2x) * nx + ((a * p1y + b * q1y + c * r1y) - r2y) * ny + ((a * p1z + b * q1z + c * r1z) - r2z) * nz).
    + subst dp1 dq1 dr1. replace c with (1 - a - b) by lra. ring.
    + rewrite Ex, Ey, Ez. replace c' with (1 - a' - b') by lra. subst nx ny nz. ring.
Qed.

Lemma plane_rejection_1 : forall p1 q1 r1 p2 q2 r2 dp1 dq1 dr1,
  plane_dists Rops p1 q1 r1 p2 q2 r2 = (dp1, dq1, dr1) -> 0 < dp1 * dq1 -> 0 < dp1 * dr1 ->
  tri_tri_overlap_3d Rops p1 q1 r1 p2 q2 r2 = false /\ disjoint_tri p1 q1 r1 p2 q2 r2.
Proof.
  intros p1 q1 r1 p2 q2 r2 dp1 dq1 dr1 Hd H1 H2. split.
  - unfold tri_tri_overlap_3d. rewrite Hd. unfold gt. rops.
    rewrite (proj2 (Rltb_true 0 (dp1 * dq1)) H1), (proj2 (Rltb_true 0 (dp1 * dr1)) H2). reflexivity.
  - unfold plane_dists, sdist in Hd. cbv zeta in Hd.
    pose proof (f_equal (fun t => fst (fst t)) Hd) as D1. pose proof (f_equal (fun t => snd (fst t)) Hd) as D2.
    pose proof (f_equal (fun t => snd t) Hd) as D3. cbv beta in D1, D2, D3. cbn [fst snd] in D1, D2, D3.
    rewrite <- D1, <- D2 in H1. rewrite <- D1, <- D3 in H2.
    destruct (prod_pos_snap _ _ _ _ _ _ H1) as [E1 E2]. destruct (prod_pos_snap _ _ _ _ _ _ H2) as [_ E3].
    rewrite E1, E2 in H1. rewrite E1, E3 in H2.
    eapply plane_rejection_raw_1; [reflexivity | exact H1 | exact H2].
Qed.

(* second rejection: the three vertices of T2 strictly on one side of the plane of T1 *)
Definition plane_dists2_raw (p1 q1 r1 p2 q2 r2 : rvec) : R * R * R :=
  let n1 := vcross Rops (vsub Rops q1 p1) (vsub Rops r1 p1) in
  (vdot Rops (vsub Rops p2 r1) n1, vdot Rops (vsub Rops q2 r1) n1, vdot Rops (vsub Rops r2 r1) n1).
Definition plane_dists2 (p1 q1 r1 p2 q2 r2 : rvec) : R * R * R :=
  let n1 := vcross Rops (vsub Rops q1 p1) (vsub Rops r1 p1) in
  (sdist Rops p2 r1 n1, sdist Rops q2 r1 n1, sdist Rops r2 r1 n1).

Lemma plane_rejection_raw_2 : forall p1 q1 r1 p2 q2 r2 dp2 dq2 dr2,
  plane_dists2_raw p1 q1 r1 p2 q2 r2 = (dp2, dq2, dr2) -> 0 < dp2 * dq2 -> 0 < dp2 * dr2 ->
  disjoint_tri p1 q1 r1 p2 q2 r2.
Proof.
  intros p1 q1 r1 p2 q2 r2 dp2 dq2 dr2 Hd H1 H2.
  intros a b c a' b' c' W W' E.
    destruct p1 as [[p1x p1y] p1z], q1 as [[q1x q1y] q1z], r1 as [[r1x r1y] r1z],
             p2 as [[p2x p2y] p2z], q2 as [[q2x q2y] q2z], r2 as [[r2x r2y] r2z].
    unfold plane_dists2_raw in Hd. cbv [vdot vsub vcross vx vy vz mkv fst snd] in Hd. rops.
    inversion Hd as [[D1 D2 D3]]. clear Hd.
    unfold comb in E. cbv [vx vy vz fst snd] in E. inversion E as [[Ex Ey Ez]]. clear E.
    destruct W as (_ & _ & _ & S). destruct (W') as (_ & _ & _ & S').
    apply (same_side_contra a' b' c' dp2 dq2 dr2 W' H1 H2).
    set (nx := (q1y - p1y) * (r1z - p1z) - (q1z - p1z) * (r1y - p1y)) in *.
    set (ny := (q1z - p1z) * (r1x - p1x) - (q1x - p1x) * (r1z - p1z)) in *.
    set (nz := (q1x - p1x) * (r1y - p1y) - (q1y - p1y) * (r1x - p1x)) in *.
    transitivity (((a' * p2x + b' * q2x + c' * r2x) - r1x) * nx + ((a' * p2y + b' * q2y + c' * r2y) - r1y) * ny + ((a' * p2z + b' * q2z + c' * r2z) - r1z) * nz).
    + subst dp2 dq2 dr2. replace c' with (1 - a' - b') by lra. ring.
    + rewrite <- Ex, <- Ey, <- Ez. replace c with (1 - a - b) by lra. subst nx ny nz. ring.
Qed.

Lemma plane_rejection_2 : forall p1 q1 r1 p2 q2 r2 dp2 dq2 dr2,
  plane_dists2 p1 q1 r1 p2 q2 r2 = (dp2, dq2, dr2) -> 0 < dp2 * dq2 -> 0 < dp2 * dr2 ->
  tri_tri_overlap_3d Rops p1 q1 r1 p2 q2 r2 = false /\ disjoint_tri p1 q1 r1 p2 q2 r2.
Proof.
  intros p1 q1 r1 p2 q2 r2 dp2 dq2 dr2 Hd H1 H2.
  unfold plane_dists2 in Hd. cbv zeta in Hd.
  pose proof (f_equal (fun t => fst (fst t)) Hd) as D1. pose proof (f_equal (fun t => snd (fst t)) Hd) as D2.
  pose proof (f_equal (fun t => snd t) Hd) as D3. cbv beta in D1, D2, D3. cbn [fst snd] in D1, D2, D3.
  split.
  - unfold tri_tri_overlap_3d. destruct (plane_dists Rops p1 q1 r1 p2 q2 r2) as [[dp1 dq1] dr1].
    destruct (gt Rops (fmul Rops dp1 dq1) (f0 Rops) && gt Rops (fmul Rops dp1 dr1) (f0 Rops)); [reflexivity|].
    cbv zeta. rewrite D1, D2, D3. unfold gt. rops.
    rewrite (proj2 (Rltb_true 0 (dp2 * dq2)) H1), (proj2 (Rltb_true 0 (dp2 * dr2)) H2). reflexivity.
  - unfold sdist in D1, D2, D3. cbv zeta in D1, D2, D3.
    rewrite <- D1, <- D2 in H1. rewrite <- D1, <- D3 in H2.
    destruct (prod_pos_snap _ _ _ _ _ _ H1) as [E1 E2]. destruct (prod_pos_snap _ _ _ _ _ _ H2) as [_ E3].
    rewrite E1, E2 in H1. rewrite E1, E3 in H2.
    eapply plane_rejection_raw_2; [reflexivity | exact H1 | exact H2].
Qed.

(* ---- the exact verdict is invariant under a uniform scaling of the six points ---- *)
Definition vsc (s : R) (v : rvec) : rvec := (s * vx v, s * vy v, s * vz v).
Definition tsc (s : R) (t : @tri3 R) : @tri3 R := (vsc s (get3 t 0), vsc s (get3 t 1), vsc s (get3 t 2)).

Lemma orient3_scale s a b c d : orient3 Rops (vsc s a) (vsc s b) (vsc s c) (vsc s d) = s * s * s * orient3 Rops a b c d.
Proof.
  destruct a as [[ax ay] az], b as [[bx by_] bz], c as [[cx cy] cz], d as [[dx dy] dz].
  unfold orient3, vsc. cbv [vdot vsub vcross vx vy vz mkv fst snd]. rops. ring.
Qed.

Lemma sgn_scale s x : 0 < s -> sgn Rops (s * s * s * x) = sgn Rops x.
Proof.
  intro Hs. assert (H3 : 0 < s * s * s) by (apply Rmult_lt_0_compat; [apply Rmult_lt_0_compat|]; auto).
  unfold sgn, lt, gt. rops.
  destruct (Rltb x 0) eqn:E1.
  - apply Rltb_true in E1. assert (s * s * s * x < 0) by nra. rewrite (proj2 (Rltb_true _ _) H). reflexivity.
  - apply Rltb_false in E1. assert (0 <= s * s * s * x) by nra. rewrite (proj2 (Rltb_false _ _) H).
    destruct (Rltb 0 x) eqn:E2.
    + apply Rltb_true in E2. assert (0 < s * s * s * x) by nra. rewrite (proj2 (Rltb_true _ _) H0). reflexivity.
    + apply Rltb_false in E2. assert (s * s * s * x <= 0) by nra. rewrite (proj2 (Rltb_false _ _) H0). reflexivity.
Qed.

Lemma seg_tri_scale s a b u v w : 0 < s ->
  seg_tri Rops (vsc s a) (vsc s b) (vsc s u) (vsc s v) (vsc s w) = seg_tri Rops a b u v w.
Proof. intro Hs. unfold seg_tri. rewrite !orient3_scale, !sgn_scale by auto. reflexivity. Qed.

(* scaling all six points by s > 0 preserves the exact intersection verdict (and its "no clearance" answer) *)
Lemma isect_oracle_scale : forall s t1 t2, 0 < s -> isect_oracle Rops (tsc s t1) (tsc s t2) = isect_oracle Rops t1 t2.
Proof.
  intros s [[p1 q1] r1] [[p2 q2] r2] Hs. unfold isect_oracle, tsc. cbv [get3 fst snd].
  rewrite !seg_tri_scale by auto. reflexivity.
Qed.
