(* EXTRACT-Z: c12 run_c12 *)
(* Executable entry point of the C12 correspondence: exact rational instance of the triangle-triangle
   decision tree, of the oracle, and of the orchestration instantiated with that predicate. *)
From Coq Require Import ZArith QArith List Bool.
From OM Require Import Base.Lists Base.Wire Base.Ops Geom.V3Q Geom.TriTri Geom.Checks.
Import ListNotations.
Local Open Scope Z_scope.

Definition qvec := (@vec Q).
Definition getQ (den : Z) : dec Q := do n <- getZ; ret (qofZ n den).
Definition getV (den : Z) : dec qvec := do x <- getQ den; do y <- getQ den; do z <- getQ den; ret (x, y, z).
Definition getIdx3 : dec (nat * nat * nat) := do a <- getN; do b <- getN; do c <- getN; ret (a, b, c).
Definition zeroV : qvec := (0%Q, 0%Q, 0%Q).

(* a triangle of a soup: vertex ids + coordinates *)
Definition stri : Type := ((nat * nat * nat) * @tri3 Q)%type.
Definition mk_stri (vs : list qvec) (ix : nat * nat * nat) : stri :=
  (ix, (nth (fst (fst ix)) vs zeroV, nth (snd (fst ix)) vs zeroV, nth (snd ix) vs zeroV)).
Definition s_isect (a b : stri) : bool := tri_intersects Qops (snd a) (snd b).
Definition getMesh (vs : list qvec) : dec (list stri) := do nt <- getN; do ts <- getMany nt getIdx3; ret (map (mk_stri vs) ts).
Definition b2z (b : bool) : Z := if b then 1 else 0.

Definition run_c12 (w : wire) : wire :=
  match w with
  | 20 :: den :: w' =>      (* Triangle::intersects on six points; oracle: 0/1, 2 = no clearance *)
      run_dec (do a <- getV den; do b <- getV den; do c <- getV den; do d <- getV den; do e <- getV den; do f <- getV den;
               ret ((a, b, c), (d, e, f))) w'
        (fun '(t1, t2) => [0; b2z (tri_intersects Qops t1 t2);
                           match isect_oracle Qops t1 t2 with Some b => b2z b | None => 2 end])
  | 10 :: den :: w' =>      (* has_self_intersection (repaired and pinned guard) of a soup *)
      run_dec (do nv <- getN; do vs <- getMany nv (getV den); getMesh vs) w'
        (fun m => [0; b2z (has_self_intersection stri fst s_isect m); b2z (has_self_intersection_pinned stri fst s_isect m)])
  | 11 :: den :: w' =>      (* Mesh::intersection of two soups *)
      run_dec (do nv <- getN; do vs <- getMany nv (getV den); do m1 <- getMesh vs; do m2 <- getMesh vs; ret (m1, m2)) w'
        (fun '(m1, m2) => [0; b2z (mesh_intersection stri s_isect m1 m2)])
  | 12 :: gid :: den :: w' =>  (* geometry level: nested flag, meshes, optional extra mesh; inside flags of the dipoles *)
      run_dec (do nested <- getN; do nv <- getN; do vs <- getMany nv (getV den);
               do nm <- getN; do ms <- getMany nm (getMesh vs);
               do hasm <- getN; do mm <- getMany hasm (getMesh vs);
               do hasd <- getN; do nd <- getN; do ins <- getNs nd;
               ret (negb (Nat.eqb nested 0), ms, mm, (negb (Nat.eqb hasd 0), ins))) w'
        (fun '(nested, ms, mm, (hasd, ins)) =>
           let inside := fun (x : nat) => negb (Nat.eqb x 0) in
           let mo := match mm with m :: _ => Some m | [] => None end in
           [0; b2z (self_check stri fst s_isect nested ms);
               match mo with Some m => b2z (check_mesh stri fst s_isect ms m) | None => 2 end;
               b2z (check_inner nat inside nested ins);
               Z.of_nat (om_check_geom stri fst s_isect nat inside nested ms mo (if hasd then Some ins else None))])
  | _ => [-1]
  end.
