(* C02, decision level: the frame-sensitive decisions of the library, as functions of kernel values.
     Mesh::solid_angle / Interface::solid_angle / Interface::contains / Domain::contains   (mesh.cpp, interface.cpp, domain.cpp)
     dist_point_interface: first strict minimum over the triangles in file order          (danielsson.cpp)
     Interface::is_mesh_orientations_coherent: bounding-box centre / random probe point   (interface.cpp)
   Generic over Ops for the definitions; lemmas over the R instance. *)
From Coq Require Import Reals Lra List Bool.
From OM Require Import Base.Ops Base.Vec3 Base.OpsR Base.Rigid Geom.Kernels Geom.RigidKernels.
Import ListNotations.
Local Open Scope R_scope.

Section Defs.
  Context {F : Type} (o : Ops F).
  Local Notation V := (vec3 F).
  Definition tri := (V * V * V)%type.

  (* double solangle = 0.0; for (triangle) solangle += p.solid_angle(v0,v1,v2); *)
  Definition mesh_solid_angle (p : V) (ts : list tri) : F :=
    fold_left (fun acc t => match t with (a, b, c) => fadd o acc (solid_angle o p a b c) end) ts (f0 o).

  (* for (omesh) solangle += omesh.orientation()*omesh.mesh().solid_angle(p);   orientation = +-1 as a number *)
  Definition interface_solid_angle (p : V) (oms : list (F * list tri)) : F :=
    fold_left (fun acc om => fadd o acc (fmul o (fst om) (mesh_solid_angle p (snd om)))) oms (f0 o).

  (* almost_equal(x,y,eps=1e3): |x-y| < DBL_EPSILON*|x+y|*eps  ||  |x-y| < DBL_MIN *)
  Definition dbl_eps : F := fdiv o (f1 o) (fofZ o (2 ^ 52)%Z).
  Definition almost_equal (x y : F) : bool :=
    orb (fltb o (fabs o (fsub o x y)) (fmul o (fmul o dbl_eps (fabs o (fadd o x y))) (fofZ o 1000%Z)))
        (fltb o (fabs o (fsub o x y)) (dbl_min o)).

  (* Interface::contains: a function of the summed solid angle only *)
  Definition four_pi : F := fmul o (fofZ o 4%Z) (fpi o).
  Definition contains_of_angle (w : F) : bool :=
    if almost_equal w (fopp o four_pi) then true
    else if almost_equal w (f0 o) then false
    else if almost_equal w four_pi then true
    else fltb o (fmul o (fofZ o 2%Z) (fpi o)) (fabs o w).
  Definition interface_contains (p : V) (oms : list (F * list tri)) : bool :=
    contains_of_angle (interface_solid_angle p oms).

  (* Domain::contains: inside = inside && (interface.contains(p)==boundary.inside()) over the boundaries *)
  Definition domain_contains (p : V) (bs : list (bool * list (F * list tri))) : bool :=
    fold_left (fun ins b => andb ins (Bool.eqb (interface_contains p (snd b)) (fst b))) bs true.

  (* Geometry::domain(p): the first domain (file order) that contains p *)
  Fixpoint first_domain (p : V) (ds : list (list (bool * list (F * list tri)))) (k : nat) : option nat :=
    match ds with
    | [] => None
    | d :: ds' => if domain_contains p d then Some k else first_domain p ds' (S k)
    end.

  (* dist_point_interface: distmin = max; for each triangle: if (distance<distmin) { distmin = distance; nearest = it } *)
  Definition argmin_step (st : nat * option (nat * F)) (d : F) : nat * option (nat * F) :=
    match st with (k, best) =>
      match best with
      | None => (S k, Some (k, d))
      | Some (kb, db) => if fltb o d db then (S k, Some (k, d)) else (S k, best)
      end end.
  Definition argmin_first (ds : list F) : option nat :=
    option_map fst (snd (fold_left argmin_step ds (O, None))).
End Defs.

Definition move_tri (g : rigid) (t : tri) : tri := match t with (a, b, c) => (app g a, app g b, app g c) end.
Definition move_omeshes (g : rigid) (oms : list (R * list tri)) := map (fun om => (fst om, map (move_tri g) (snd om))) oms.
Definition move_domain (g : rigid) (bs : list (bool * list (R * list tri))) := map (fun b => (fst b, move_omeshes g (snd b))) bs.

Section Lemmas.
  Variable g : rigid.

  Lemma mesh_solid_angle_rigid p ts :
    mesh_solid_angle OpsR (app g p) (map (move_tri g) ts) = mesh_solid_angle OpsR p ts.
  Proof.
    unfold mesh_solid_angle. generalize (f0 OpsR).
    induction ts as [| [[a b] c] ts IH]; intros acc; cbn [map fold_left move_tri]; [reflexivity |].
    rewrite solid_angle_rigid. apply IH.
  Qed.

  Lemma interface_solid_angle_rigid p oms :
    interface_solid_angle OpsR (app g p) (move_omeshes g oms) = interface_solid_angle OpsR p oms.
  Proof.
    unfold interface_solid_angle, move_omeshes. generalize (f0 OpsR).
    induction oms as [| om oms IH]; intros acc; cbn [map fold_left fst snd]; [reflexivity |].
    rewrite mesh_solid_angle_rigid. apply IH.
  Qed.

  Lemma interface_contains_rigid p oms :
    interface_contains OpsR (app g p) (move_omeshes g oms) = interface_contains OpsR p oms.
  Proof. unfold interface_contains; rewrite interface_solid_angle_rigid; reflexivity. Qed.

  Lemma domain_contains_rigid p bs :
    domain_contains OpsR (app g p) (move_domain g bs) = domain_contains OpsR p bs.
  Proof.
    unfold domain_contains, move_domain. generalize true.
    induction bs as [| b bs IH]; intros acc; cbn [map fold_left fst snd]; [reflexivity |].
    rewrite interface_contains_rigid. apply IH.
  Qed.

  Lemma first_domain_rigid p ds : forall k,
    first_domain OpsR (app g p) (map (move_domain g) ds) k = first_domain OpsR p ds k.
  Proof.
    induction ds as [| d ds IH]; intros k; cbn [map first_domain]; [reflexivity |].
    rewrite domain_contains_rigid, IH. reflexivity.
  Qed.

  (* the nearest-triangle choice depends on the list of distances only: equal distances, equal choice *)
  Lemma argmin_first_ext (ds ds' : list R) : ds = ds' -> argmin_first OpsR ds = argmin_first OpsR ds'.
  Proof. intros ->; reflexivity. Qed.

  Lemma nearest_triangle_rigid (dist dist' : @tri R -> R) ts :
    (forall t, dist' (move_tri g t) = dist t) ->
    argmin_first OpsR (map dist' (map (move_tri g) ts)) = argmin_first OpsR (map dist ts).
  Proof.
    intros H. apply argmin_first_ext. rewrite map_map. apply map_ext. exact H.
  Qed.

  (* orientation repair: the outcome is a function of the solid angle at the probe point; for a closed
     oriented interface (Gauss: the summed solid angle is the same at every interior point) it does not
     depend on which interior probe point the bounding box / random generator yields *)
  Section Probe.
    Variable oms : list (R * list (@tri R)).
    Variable inside : V3 -> Prop.
    Hypothesis gauss : forall p q, inside p -> inside q ->
      interface_solid_angle OpsR p oms = interface_solid_angle OpsR q oms.
    Lemma orientation_probe_independent (decide : R -> bool) p q :
      inside p -> inside q ->
      decide (interface_solid_angle OpsR p oms) = decide (interface_solid_angle OpsR q oms).
    Proof. intros Hp Hq; rewrite (gauss p q Hp Hq); reflexivity. Qed.
    (* and in the moved frame the moved probe sees the same angle *)
    Lemma orientation_probe_moved (decide : R -> bool) p :
      decide (interface_solid_angle OpsR (app g p) (move_omeshes g oms)) = decide (interface_solid_angle OpsR p oms).
    Proof. rewrite interface_solid_angle_rigid; reflexivity. Qed.
  End Probe.
End Lemmas.
