(* C02, decision level: the frame-sensitive decisions of the library, as functions of kernel values.
     Mesh::solid_angle / Interface::solid_angle / Interface::contains / Domain::contains   (mesh.cpp, interface.cpp, domain.cpp)
     dist_point_interface: first strict minimum over the triangles in file order          (danielsson.cpp)
     Interface::is_mesh_orientations_coherent: bounding-box centre / random probe point   (interface.cpp)
   Generic over Ops for the definitions; lemmas over the R instance. *)
From Coq Require Import Reals Lra List Bool.
From OM Require Import Base.Ops Base.Vec3 Base.OpsR Base.Rigid Geom.Kernels Geom.RigidKernels Geom.Decisions.
Import ListNotations.
Local Open Scope R_scope.


Definition move_tri (g : rigid) (t : tri) : tri := match t with (a, b, c) => (app g a, app g b, app g c) end.
Definition move_omeshes (g : rigid) (oms : list (R * list tri)) := map (fun om => (fst om, map (move_tri g) (snd om))) oms.
Definition move_domain (g : rigid) (bs : list (bool * list (R * list tri))) := map (fun b => (fst b, move_omeshes g (snd b))) bs.

Section Lemmas.
  Variable g : rigid.

  Lemma mesh_solid_angle_rigid p ts :
    mesh_solid_angle OpsR (app g p) (map (move_tri g) ts) = mesh_solid_angle OpsR p ts.
  Proof.
    unfold mesh_solid_angle. generalize (f0 OpsR).
    induction ts as [| [[a b] c] ts IH]; intros acc; cbn [map fold_left move_tri]; [reflexivity |].
    rewrite solid_angle_rigid. apply IH.
  Qed.

  Lemma interface_solid_angle_rigid p oms :
    interface_solid_angle OpsR (app g p) (move_omeshes g oms) = interface_solid_angle OpsR p oms.
  Proof.
    unfold interface_solid_angle, move_omeshes. generalize (f0 OpsR).
    induction oms as [| om oms IH]; intros acc; cbn [map fold_left fst snd]; [reflexivity |].
    rewrite mesh_solid_angle_rigid. apply IH.
  Qed.

  Lemma interface_contains_rigid p oms :
    interface_contains OpsR (app g p) (move_omeshes g oms) = interface_contains OpsR p oms.
  Proof. unfold interface_contains; rewrite interface_solid_angle_rigid; reflexivity. Qed.

  Lemma domain_contains_rigid p bs :
    domain_contains OpsR (app g p) (move_domain g bs) = domain_contains OpsR p bs.
  Proof.
    unfold domain_contains, move_domain. generalize true.
    induction bs as [| b bs IH]; intros acc; cbn [map fold_left fst snd]; [reflexivity |].
    rewrite interface_contains_rigid. apply IH.
  Qed.

  Lemma first_domain_rigid p ds : forall k,
    first_domain OpsR (app g p) (map (move_domain g) ds) k = first_domain OpsR p ds k.
  Proof.
    induction ds as [| d ds IH]; intros k; cbn [map first_domain]; [reflexivity |].
    rewrite domain_contains_rigid, IH. reflexivity.
  Qed.

  (* the nearest-triangle choice depends on the list of distances only: equal distances, equal choice *)
  Lemma argmin_first_ext (ds ds' : list R) : ds = ds' -> argmin_first OpsR ds = argmin_first OpsR ds'.
  Proof. intros ->; reflexivity. Qed.

  Lemma nearest_triangle_rigid (dist dist' : @tri R -> R) ts :
    (forall t, dist' (move_tri g t) = dist t) ->
    argmin_first OpsR (map dist' (map (move_tri g) ts)) = argmin_first OpsR (map dist ts).
  Proof.
    intros H. apply argmin_first_ext. rewrite map_map. apply map_ext. exact H.
  Qed.

  (* orientation repair: the outcome is a function of the solid angle at the probe point; for a closed
     oriented interface (Gauss: the summed solid angle is the same at every interior point) it does not
     depend on which interior probe point the bounding box / random generator yields *)
  Section Probe.
    Variable oms : list (R * list (@tri R)).
    Variable inside : V3 -> Prop.
    Hypothesis gauss : forall p q, inside p -> inside q ->
      interface_solid_angle OpsR p oms = interface_solid_angle OpsR q oms.
    Lemma orientation_probe_independent (decide : R -> bool) p q :
      inside p -> inside q ->
      decide (interface_solid_angle OpsR p oms) = decide (interface_solid_angle OpsR q oms).
    Proof. intros Hp Hq; rewrite (gauss p q Hp Hq); reflexivity. Qed.
    (* and in the moved frame the moved probe sees the same angle *)
    Lemma orientation_probe_moved (decide : R -> bool) p :
      decide (interface_solid_angle OpsR (app g p) (move_omeshes g oms)) = decide (interface_solid_angle OpsR p oms).
    Proof. rewrite interface_solid_angle_rigid; reflexivity. Qed.
  End Probe.
End Lemmas.
