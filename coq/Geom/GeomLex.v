(* Character-level model of the .geom and .cond readers, underneath the token-level models GeomFile.v / CondFile.v:
   OpenMEEGMaths/include/IOUtils.H (std::ws, match, match_optional with put-back, skip_comments, token(`:`), filename,
   operator>> for unsigned and std::string), GeomFile.h (load_meshes / load_domains, get_line_tokens, extract_sign),
   Properties.H (PropertyLoader).  A stream is the list of remaining characters plus the fail bit; once the fail bit
   is set every extraction is a no-op (peek gives EOF), exactly as with iostreams.
   Not modelled: the MeshFile (vtp) section; number syntax beyond plain digits; the value of a conductivity (the k-th
   entry line takes the k-th value handed in; its token is the maximal run of non-blank characters). *)
From OM Require Import Base.Lists Geom.GeomModel Geom.GeomFile.
Local Open Scope nat_scope.

Notation str := (list nat).
Record stream := mkS { inp : str; bad : bool }.

Definition isspace (c : nat) : bool := (Nat.eqb c 32) || (Nat.leb 9 c && Nat.leb c 13).
Definition isblank (c : nat) : bool := Nat.eqb c 32 || Nat.eqb c 9.            (* skip_spaces: ` ` and `\t` only *)

Fixpoint drop_while (p : nat -> bool) (l : str) : str :=
  match l with c :: r => if p c then drop_while p r else l | [] => [] end.
Fixpoint take_while (p : nat -> bool) (l : str) : str :=
  match l with c :: r => if p c then c :: take_while p r else [] | [] => [] end.

Definition ws (s : stream) : stream := if bad s then s else mkS (drop_while isspace (inp s)) false.

(* match_string: skip white space, then eat the characters of [pat] as long as they agree; (complete?, eaten, rest) *)
Fixpoint eat (pat l : str) : bool * str * str :=
  match pat, l with
  | [], _ => (true, [], l)
  | p :: pr, c :: r => if Nat.eqb p c then let '(ok, e, rest) := eat pr r in (ok, c :: e, rest) else (false, [], l)
  | _ :: _, [] => (false, [], [])
  end.

(* io_utils::match: what was eaten stays eaten, the fail bit is set on a mismatch *)
Definition mtch (pat : str) (s : stream) : stream :=
  if bad s then s else let '(ok, _, rest) := eat pat (drop_while isspace (inp s)) in mkS rest (negb ok).

(* io_utils::match_optional: on a mismatch the eaten prefix is put back (the skipped white space is not) *)
Definition mtch_opt (pat : str) (s : stream) : stream * bool :=
  if bad s then (s, false)
  else let l := drop_while isspace (inp s) in
       let '(ok, _, rest) := eat pat l in if ok then (mkS rest false, true) else (mkS l false, false).

Definition skip_line (l : str) : str := match drop_while (fun c => negb (Nat.eqb c 10)) l with _ :: r => r | [] => [] end.

(* skip_comments(`#`) / skip_comments(`#`) *)
Fixpoint skip_comments_l (fuel : nat) (l : str) : str :=
  match fuel with
  | O => l
  | S f => match drop_while isspace l with
           | c :: r => if Nat.eqb c 35 then skip_comments_l f (skip_line r) else c :: r
           | [] => []
           end
  end.
Definition skip_comments (s : stream) : stream := if bad s then s else mkS (skip_comments_l (S (length (inp s))) (inp s)) false.

Definition isdigit (c : nat) : bool := Nat.leb 48 c && Nat.leb c 57.
Definition digits_val (d : str) : nat := fold_left (fun acc c => 10 * acc + (c - 48)) d 0.

(* is >> unsigned *)
Definition read_nat (s : stream) : stream * nat :=
  if bad s then (s, 0)
  else let l := drop_while isspace (inp s) in
       match take_while isdigit l with
       | [] => (mkS l true, 0)
       | d => (mkS (drop_while isdigit l) false, digits_val d)
       end.

(* is >> std::string *)
Definition read_word (s : stream) : stream * str :=
  if bad s then (s, [])
  else let l := drop_while isspace (inp s) in
       match take_while (fun c => negb (isspace c)) l with
       | [] => (mkS l true, [])
       | w => (mkS (drop_while (fun c => negb (isspace c)) l) false, w)
       end.

(* io_utils::token(name,`:`): one leading white-space character is tolerated, a second one (or one after the name
   has started) sets the fail bit - the `two blanks` quirk; the delimiter is eaten *)
Fixpoint token_l (l : str) (started : bool) (acc : str) : str * bool * str :=     (* rest, failed, name *)
  match l with
  | [] => ([], true, acc)                                           (* get fails at end of file *)
  | c :: r => if isspace c && started then (r, true, acc)
              else if Nat.eqb c 58 then (r, false, acc)
              else token_l r true (if isspace c then acc else acc ++ [c])
  end.
Definition token (s : stream) : stream * str :=
  if bad s then (s, []) else let '(r, f, n) := token_l (inp s) false [] in (mkS r f, n).

(* io_utils::filename(name,```,false) *)
Fixpoint until_quote (l : str) (acc : str) : str * bool * str :=
  match l with
  | [] => ([], true, acc)
  | c :: r => if Nat.eqb c 34 then (r, false, acc) else until_quote r (acc ++ [c])
  end.
Definition filename (s : stream) : stream * str :=
  if bad s then (s, [])
  else match drop_while isblank (inp s) with
       | [] => (mkS [] true, [])
       | 34 :: r => let '(rest, f, n) := until_quote r [] in (mkS rest f, n)
       | l => let n := take_while (fun c => negb (isspace c)) l in
              match drop_while (fun c => negb (isspace c)) l with
              | _ :: rest => (mkS rest false, n)        (* the terminating white space is eaten *)
              | [] => (mkS [] true, n)
              end
       end.

(* get_line_tokens: the rest of the line, split at white space *)
Fixpoint split_ws (fuel : nat) (l : str) : list str :=
  match fuel with
  | O => []
  | S f => match drop_while isspace l with
           | [] => []
           | l' => take_while (fun c => negb (isspace c)) l' :: split_ws f (drop_while (fun c => negb (isspace c)) l')
           end
  end.
Definition line_tokens (s : stream) : stream * list str :=
  if bad s then (s, [])
  else let line := take_while (fun c => negb (Nat.eqb c 10)) (inp s) in
       let rest := drop_while (fun c => negb (Nat.eqb c 10)) (inp s) in
       match rest with
       | _ :: r => (mkS r false, split_ws (S (length line)) line)
       | [] => (mkS [] (match line with [] => true | _ => false end), split_ws (S (length line)) line)   (* getline at EOF *)
       end.

(* extract_sign *)
Definition signed (t : str) : sgn * str :=
  match t with
  | 43 :: r => (SPlus, r)
  | 45 :: r => (SMinus, r)
  | _ => (SNone, t)
  end.

(* keywords *)
Definition s_header : str := [35;32;68;111;109;97;105;110;32;68;101;115;99;114;105;112;116;105;111;110;32].  (* `# Domain Description ` *)
Definition s_dot : str := [46].
Definition s_MeshFile : str := [77;101;115;104;70;105;108;101].
Definition s_Meshes : str := [77;101;115;104;101;115].
Definition s_Mesh : str := [77;101;115;104].
Definition s_Interfaces : str := [73;110;116;101;114;102;97;99;101;115].
Definition s_Interface : str := [73;110;116;101;114;102;97;99;101].
Definition s_Domains : str := [68;111;109;97;105;110;115].
Definition s_Domain : str := [68;111;109;97;105;110].
Definition s_shared : str := [115;104;97;114;101;100].
Definition colon (k : str) : str := k ++ [58].

(* section_name + filename: n entries `<kw> name: path` / `<kw>: path` / `path` *)
Fixpoint read_descriptions (v : version) (kw : str) (n : nat) (s : stream) : stream * list (option str * str) :=
  match n with
  | O => (s, [])
  | S n' =>
    let '(s1, unnamed) := mtch_opt (colon kw) (skip_comments s) in
    let '(s2, name) :=
      match v, unnamed with
      | V11, false => let '(s', nm) := token (mtch kw s1) in (s', Some nm)
      | _, _ => (s1, None)
      end in
    let '(s3, path) := filename s2 in
    let '(s4, rest) := read_descriptions v kw n' s3 in
    (s4, (name, path) :: rest)
  end.

Fixpoint read_ifaces (v : version) (n : nat) (s : stream) : stream * list (option str * list (sgn * str)) :=
  match n with
  | O => (s, [])
  | S n' =>
    let '(s1, unnamed) := mtch_opt (colon s_Interface) (skip_comments s) in
    let '(s2, name) :=
      match v, unnamed with
      | V11, false => let '(s', nm) := token (mtch s_Interface s1) in (s', Some nm)
      | _, _ => (s1, None)
      end in
    let '(s3, toks) := line_tokens s2 in
    let '(s4, rest) := read_ifaces v n' s3 in
    (s4, (name, map signed toks) :: rest)
  end.

Definition str_eqb (a b : str) : bool := Nat.eqb (length a) (length b) && forallb (fun p => Nat.eqb (fst p) (snd p)) (combine a b).

Definition dtok_of (t : str) : sgn * str + unit := if str_eqb t s_shared then inr tt else inl (signed t).

Fixpoint read_domains (v : version) (n : nat) (s : stream) : stream * list (str * list (sgn * str + unit)) :=
  match n with
  | O => (s, [])
  | S n' =>
    let s1 := mtch s_Domain (skip_comments s) in
    let '(s2, name) := match v with V10 => read_word s1 | V11 => token s1 end in
    let '(s3, toks) := line_tokens s2 in
    let '(s4, rest) := read_domains v n' s3 in
    (s4, (name, map dtok_of toks) :: rest)
  end.

Record lexed := mkLexed {
  lx_version : version; lx_has_meshes : bool;
  lx_paths : list (option str * str);                       (* Meshes section, or the Interfaces section when it lists paths *)
  lx_ifaces : list (option str * list (sgn * str));
  lx_domains : list (str * list (sgn * str + unit)) }.

Definition lex_geom (text : str) : option lexed :=
  let s0 := mkS text false in
  let '(s1, major) := read_nat (mtch s_header s0) in
  let '(s2, minor) := read_nat (mtch s_dot s1) in
  if bad s2 then None
  else match (if Nat.eqb major 1 then if Nat.eqb minor 0 then Some V10 else if Nat.eqb minor 1 then Some V11 else None else None) with
  | None => None
  | Some v =>
    let '(s3, has_meshfile) := match v with V11 => mtch_opt s_MeshFile (skip_comments s2) | V10 => (s2, false) end in
    if has_meshfile then None      (* vtp geometry: outside this model *)
    else
    let '(s4, has_meshes) := match v with V11 => mtch_opt s_Meshes (skip_comments s3) | V10 => (s3, false) end in
    let '(s5, meshes) := if has_meshes then let '(s', n) := read_nat s4 in read_descriptions v s_Mesh n s' else (s4, []) in
    let '(s6, ni) := read_nat (mtch s_Interfaces (skip_comments s5)) in
    let '(s7, _) := mtch_opt s_Mesh s6 in
    if bad s7 then None
    else
    let '(s8, paths, ifaces) :=
      if has_meshes then let '(s', l) := read_ifaces v ni s7 in (s', meshes, l)
      else let '(s', l) := read_descriptions v s_Interface ni s7 in (s', l, []) in
    let '(s9, nd) := read_nat (mtch s_Domains (skip_comments s8)) in
    if bad s9 then None
    else let '(s10, doms) := read_domains v nd s9 in
         if bad s10 then None else Some (mkLexed v has_meshes paths ifaces doms)
  end.

(* ---------------------------------------------------------------- from strings to the token-level file *)
Fixpoint intern (t : list str) (x : str) (k : nat) : nat :=
  match t with
  | [] => k                       (* absent: never happens, every string is put in the table first *)
  | y :: r => if str_eqb x y then k else intern r x (S k)
  end.

Fixpoint decimal_fuel (fuel n : nat) (acc : str) : str :=
  match fuel with
  | O => acc
  | S f => let acc' := (48 + n mod 10) :: acc in if Nat.ltb n 10 then acc' else decimal_fuel f (n / 10) acc'
  end.
Definition decimal (n : nat) : str := decimal_fuel (S n) n [].

Definition lexed_strings (x : lexed) : list str :=
  flat_map (fun e => match fst e with Some n => [n] | None => [] end) (lx_paths x)
  ++ flat_map (fun e => (match fst e with Some n => [n] | None => [] end) ++ map snd (snd e)) (lx_ifaces x)
  ++ flat_map (fun e => fst e :: flat_map (fun t => match t with inl p => [snd p] | inr _ => [] end) (snd e)) (lx_domains x)
  ++ map (fun k => decimal (S k)) (seq 0 (S (length (lx_paths x) + length (lx_ifaces x)))).

(* payloads: the mesh files in the order in which the description names them, each with the path it is stored under *)
Definition to_gfile (x : lexed) (payload : list (str * mesh)) : option (gfile * list str) :=
  let T := lexed_strings x in
  let id := fun s => intern T s 0 in
  if Nat.eqb (length (lx_paths x)) (length payload)
     && forallb (fun p => str_eqb (snd (fst p)) (fst (snd p))) (combine (lx_paths x) payload)
  then
    let entries := map (fun p => (option_map id (fst (fst p)), snd (snd p))) (combine (lx_paths x) payload) in
    let ifs := map (fun e => (option_map id (fst e), map (fun t => (fst t, id (snd t))) (snd e))) (lx_ifaces x) in
    let ds := map (fun e => (id (fst e), map (fun t => match t with inl p => DTok (fst p, id (snd p)) | inr _ => DShared end) (snd e))) (lx_domains x) in
    Some (mkGFile (lx_version x) (if lx_has_meshes x then Some entries else None) (if lx_has_meshes x then [] else entries) ifs ds, T)
  else None.

Definition numname_of (T : list str) (k : nat) : nat := intern T (decimal (S k)) 0.

(* ---------------------------------------------------------------- .cond *)
Definition s_prop_header : str :=
  [35;32;80;114;111;112;101;114;116;105;101;115;32;68;101;115;99;114;105;112;116;105;111;110;32;49;46;48;32;40].  (* `# Properties Description 1.0 (` *)
Definition s_Conductivities : str := [67;111;110;100;117;99;116;105;118;105;116;105;101;115].
Definition s_close : str := [41].

(* the loop of PropertyLoader (as repaired in e52f7cb): while not at end of file: skip comments, read an identifier - if
   nothing but comments and white space was left the loop ends -, read a value - a name without a readable value is
   BadPropertyFile -, skip white space.  The value token is the next run of non-blank characters; whether that token
   is a number is the business of coq/Geom/CondSensors.v (c_num), here a present token counts as readable. *)
Fixpoint cond_entries (fuel : nat) (s : stream) : option (list str) :=
  match fuel with
  | O => Some []
  | S f =>
    if bad s then Some []
    else match inp s with
         | [] => Some []
         | _ => let '(s1, name) := read_word (skip_comments s) in
                if bad s1 then Some []
                else let '(s2, value) := read_word s1 in
                     if bad s2 then None
                     else match cond_entries f (ws s2) with Some r => Some (name :: r) | None => None end
         end
  end.

Definition lex_cond (text : str) : option (list str) :=
  let s1 := mtch s_prop_header (mkS text false) in
  let '(s2, tag) := mtch_opt s_Conductivities s1 in
  let s3 := mtch s_close s2 in
  if negb tag || bad s3 then None else cond_entries (S (length text)) s3.
