(* Models of the frame-sensitive *decisions* of the library, generic over Ops (definitions only; lemmas in
   Geom/RigidDecisions.v; executable entry point Geom/RunC02.v, run against the C++ by checks/c02.py).
     Mesh::solid_angle / Interface::solid_angle / almost_equal / Interface::contains / Domain::contains /
     Geometry::domain(p)                                   (mesh.cpp, interface.cpp, om_common.h, domain.cpp, geometry.cpp)
     dist_point_interface: first strict minimum over the triangles in file order     (danielsson.cpp) *)
From Coq Require Import ZArith List Bool.
From OM Require Import Base.Ops Base.Vec3 Geom.Kernels.
Import ListNotations.

Section Defs.
  Context {F : Type} (o : Ops F).
  Local Notation V := (vec3 F).
  Definition tri := (V * V * V)%type.

  (* double solangle = 0.0; for (triangle) solangle += p.solid_angle(v0,v1,v2); *)
  Definition mesh_solid_angle (p : V) (ts : list tri) : F :=
    fold_left (fun acc t => match t with (a, b, c) => fadd o acc (solid_angle o p a b c) end) ts (f0 o).

  (* for (omesh) solangle += omesh.orientation()*omesh.mesh().solid_angle(p);   orientation = +-1 as a number *)
  Definition interface_solid_angle (p : V) (oms : list (F * list tri)) : F :=
    fold_left (fun acc om => fadd o acc (fmul o (fst om) (mesh_solid_angle p (snd om)))) oms (f0 o).

  (* almost_equal(x,y,eps=1e3): |x-y| < DBL_EPSILON*|x+y|*eps  ||  |x-y| < DBL_MIN *)
  Definition dbl_eps : F := fdiv o (f1 o) (fofZ o (2 ^ 52)%Z).
  Definition almost_equal (x y : F) : bool :=
    orb (fltb o (fabs o (fsub o x y)) (fmul o (fmul o dbl_eps (fabs o (fadd o x y))) (fofZ o 1000%Z)))
        (fltb o (fabs o (fsub o x y)) (dbl_min o)).

  (* Interface::contains: a function of the summed solid angle only *)
  Definition four_pi : F := fmul o (fofZ o 4%Z) (fpi o).
  Definition contains_of_angle (w : F) : bool :=
    if almost_equal w (fopp o four_pi) then true
    else if almost_equal w (f0 o) then false
    else if almost_equal w four_pi then true
    else fltb o (fmul o (fofZ o 2%Z) (fpi o)) (fabs o w).
  Definition interface_contains (p : V) (oms : list (F * list tri)) : bool :=
    contains_of_angle (interface_solid_angle p oms).

  (* Domain::contains: inside = inside && (interface.contains(p)==boundary.inside()) over the boundaries *)
  Definition domain_contains (p : V) (bs : list (bool * list (F * list tri))) : bool :=
    fold_left (fun ins b => andb ins (Bool.eqb (interface_contains p (snd b)) (fst b))) bs true.

  (* Geometry::domain(p): the first domain (file order) that contains p *)
  Fixpoint first_domain (p : V) (ds : list (list (bool * list (F * list tri)))) (k : nat) : option nat :=
    match ds with
    | [] => None
    | d :: ds' => if domain_contains p d then Some k else first_domain p ds' (S k)
    end.

  (* dist_point_interface: distmin = max; for each triangle: if (distance<distmin) { distmin = distance; nearest = it } *)
  Definition argmin_step (st : nat * option (nat * F)) (d : F) : nat * option (nat * F) :=
    match st with (k, best) =>
      match best with
      | None => (S k, Some (k, d))
      | Some (kb, db) => if fltb o d db then (S k, Some (k, d)) else (S k, best)
      end end.
  Definition argmin_first (ds : list F) : option nat :=
    option_map fst (snd (fold_left argmin_step ds (O, None))).
End Defs.
