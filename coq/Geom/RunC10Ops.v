(* EXTRACT-F: c10b frun_c10b *)
(* Entry points for the widened C10 correspondence (SurfSourceMat, EITSourceMat, Head2MEGMat, Surf2VolMat,
   Head2ECoGMat) and for the injected-kernel runs of the whole head matrix: decoding only. *)
From Coq Require Import List NArith ZArith Bool FMapPositive.
From OM Require Import Base.Ops Base.Lists Base.Wire Geom.Assembly Geom.AssemblyOps Geom.RunC10.
Import ListNotations.
Local Open Scope Z_scope.

Definition getBnd : dec (nat * Z * bool) := do k <- getN; do s <- getZ; do b <- getB; ret (k, s, b).
Definition getBnd2 : dec (nat * Z) := do k <- getN; do s <- getZ; ret (k, s).
Definition getNNs : dec (list N) := do n <- getN; getMany n getNN.
Definition getDom : dec (list (nat * Z) * list N) := do nb <- getN; do bs <- getMany nb getBnd2; do ps <- getNNs; ret (bs, ps).
Definition getHit : dec (N * N * N) := do a <- getNN; do b <- getNN; do c <- getNN; ret (a, b, c).
Definition getWij : dec (N * N) := do a <- getNN; do b <- getNN; ret (a, b).

Section Run2.
Context {F : Type} (o : Ops F).
Notation nthF := (nthF o).
Notation tget := (tget o).

Record common := mkCommon { c_K : F; c_pos : N -> F * F * F; c_area : N -> F; c_g : igeom F; c_NT : N; c_rest : list F }.
Definition decode_common (sh : shape) (fs : list F) : common :=
  let nv := length (s_vix sh) in
  let NT := fold_left (fun a m => (a + N.of_nat (length (mtris m)))%N) (s_meshes sh) 0%N in
  let Kc := nthF fs 0 in
  let fs := tl fs in
  let P := tab_of (firstn (3 * nv) fs) 0%N (PositiveMap.empty _) in
  let fs := skipn (3 * nv) fs in
  let A := tab_of (firstn (N.to_nat NT) fs) 0%N (PositiveMap.empty _) in
  let fs := skipn (N.to_nat NT) fs in
  let ps := pairsF o (s_pairs sh) fs in
  let fs := skipn (3 * length (s_pairs sh)) fs in
  mkCommon Kc (fun v => (tget P (3 * v)%N, tget P (3 * v + 1)%N, tget P (3 * v + 2)%N)) (tget A)
           (mkGeom (s_vix sh) (s_meshes sh) ps (s_parts sh) (s_np sh) (s_nb sh)) NT fs.

Definition out_raw (ok : bool) (M : store F) (nl nc : N) : list Z * list F :=
  if ok then ([ST_OK; Z.of_N nl; Z.of_N nc], dump_raw o M nl nc) else ([ST_ASSERT], []).

(* ---- SurfSourceMat ---- *)
Definition run_surfsource (sh : shape) (src : nat) (bnds : list (nat * Z * bool)) (fs : list F) : list Z * list F :=
  let c := decode_common sh fs in
  let g := c_g c in let NT := c_NT c in
  let cond := nthF (c_rest c) 0 in
  let srcm := gmesh g src in
  let '(TS, TD, _) :=
    fold_left (fun '(TS, TD, fs) b =>
      let '(k, _, _) := b in
      let '(TS, fs) := fillS o NT (mtris (gmesh g k)) (mtris srcm) fs TS in
      let '(TD, fs) := fillD o NT (mtris (gmesh g k)) (mtris srcm) fs TD in (TS, TD, fs))
      bnds (PositiveMap.empty _, PositiveMap.empty _, tl (c_rest c)) in
  let Sk := fun t1 t2 => tget TS (t1 * NT + t2)%N in
  let Dk := fun t1 t2 i => tget TD (3 * (t1 * NT + t2) + N.of_nat i)%N in
  let ws := surfsource_writes o (c_K c) (c_pos c) (c_area c) g Sk Dk srcm cond bnds in
  let nl := hm_dim g in let nc := N.of_nat (length (mverts srcm)) in
  out_raw (writes_in_range ws nl nc) (apply_raw o sempty ws) nl nc.

(* ---- EITSourceMat ---- *)
Fixpoint elecsF (es : list (list N)) (fs : list F) : list (list (N * F)) :=
  match es with
  | [] => []
  | e :: r => combine e (firstn (length e) fs) :: elecsF r (skipn (length e) fs)
  end.
Definition run_eit (sh : shape) (es : list (list N)) (fs : list F) : list Z * list F :=
  let c := decode_common sh fs in
  let g := c_g c in let NT := c_NT c in
  let ncoef := fold_left (fun a e => (a + length e)%nat) es O in
  let elecs := elecsF es (c_rest c) in
  let '(TS, TD) := fill_kernels o NT (s_meshes sh) (s_pairs sh) (skipn ncoef (c_rest c)) in
  let Sk := fun t1 t2 => tget TS (t1 * NT + t2)%N in
  let Dk := fun t1 t2 i => tget TD (3 * (t1 * NT + t2) + N.of_nat i)%N in
  let tw := flat_map (eit_pair o (c_K c) (c_area c) g Sk Dk) (gpairs g) in
  let T := apply_sym o sempty tw in
  let ws := eit_writes o T (hm_dim g) elecs in
  let nl := hm_dim g in let nc := N.of_nat (length es) in
  out_raw (writes_in_range tw (gnparams g) (gnparams g) && forallb (forallb (fun t => (t <? gnparams g)%N)) es && writes_in_range ws nl nc)
          (apply_raw o sempty ws) nl nc.

(* ---- Head2MEGMat ---- *)
Fixpoint triplesF (n : nat) (fs : list F) : list (F * F * F) :=
  match n with O => [] | S n' => (nthF fs 0, nthF fs 1, nthF fs 2) :: triplesF n' (skipn 3 fs) end.
Definition fillF (NV : N) (npts : nat) (ms : list mesh) (fs : list F) : @tab F :=
  fst (fold_left (fun '(T, fs) m =>
    if misolated m then (T, fs) else
    fold_left (fun '(T, fs) i =>
      fold_left (fun '(T, fs) v =>
        fold_left (fun '(T, fs) t =>
          (PositiveMap.add (kp (((tid t) * NV + v) * N.of_nat npts + N.of_nat i)%N) (nthF fs 0) T, tl fs))
          (tris_of m v) (T, fs)) (mverts m) (T, fs)) (seq 0 npts) (T, fs)) ms (PositiveMap.empty _, fs)).
Definition run_meg (sh : shape) (nverts npts : nat) (wij : list (N * N)) (nsens : N) (fs : list F) : list Z * list F :=
  let c := decode_common sh fs in
  let g := c_g c in
  let fs := c_rest c in
  let Mag := nthF fs 0 in let fs := tl fs in
  let nm := length (s_meshes sh) in
  let J := firstn nm fs in let fs := skipn nm fs in
  let dirs := triplesF npts fs in let fs := skipn (3 * npts) fs in
  let W := map (fun '((s, j), w) => (s, j, w)) (combine wij (firstn (length wij) fs)) in
  let fs := skipn (length wij) fs in
  let NV := N.of_nat (length (s_vix sh)) in
  let TF := fillF NV npts (s_meshes sh) fs in
  let Fk := fun t v i => tget TF ((t * NV + v) * N.of_nat npts + N.of_nat i)%N in
  let fw := ferguson_writes o (c_pos c) (c_area c) g Mag Fk (fun k => nthF J k) npts in
  let FM := apply_raw o sempty fw in
  let mw := meg_writes o g FM nverts dirs in
  let Mx := apply_raw o sempty mw in
  let ww := weight_writes o Mx (hm_dim g) W in
  let nl := nsens in let nc := hm_dim g in
  out_raw (writes_in_range fw (N.of_nat (3 * npts)) nc && writes_in_range mw (N.of_nat npts) nc && writes_in_range ww nl nc)
          (apply_raw o sempty ww) nl nc.

(* ---- Surf2VolMat ---- *)
Definition fillDp (NP : N) (ts : list tri) (pts : list N) (fs : list F) (T : @tab F) : @tab F * list F :=
  fold_left (fun '(T, fs) t =>
    fold_left (fun '(T, fs) p =>
      let k := (3 * (tid t * NP + p))%N in
      (PositiveMap.add (kp (k + 2)%N) (nthF fs 2) (PositiveMap.add (kp (k + 1)%N) (nthF fs 1) (PositiveMap.add (kp k) (nthF fs 0) T)),
       skipn 3 fs)) pts (T, fs)) ts (T, fs).
Definition fillSp (NP : N) (ts : list tri) (pts : list N) (fs : list F) (T : @tab F) : @tab F * list F :=
  fold_left (fun '(T, fs) t =>
    fold_left (fun '(T, fs) p => (PositiveMap.add (kp (tid t * NP + p)%N) (nthF fs 0) T, tl fs)) pts (T, fs)) ts (T, fs).
Definition run_surf2vol (sh : shape) (ds : list (list (nat * Z) * list N)) (nrows : N) (fs : list F) : list Z * list F :=
  let c := decode_common sh fs in
  let g := c_g c in
  let fs := c_rest c in
  let conds := firstn (length ds) fs in let fs := skipn (length ds) fs in
  let doms := map (fun '((bs, ps), cd) => (cd, bs, ps)) (combine ds conds) in
  let NP := nrows in
  let '(TD, TS, _) :=
    fold_left (fun '(TD, TS, fs) d =>
      let '(bs, ps) := d in
      fold_left (fun '(TD, TS, fs) b =>
        let m := gmesh g (fst b) in
        let '(TD, fs) := fillDp NP (mtris m) ps fs TD in
        if mbarrier m then (TD, TS, fs) else let '(TS, fs) := fillSp NP (mtris m) ps fs TS in (TD, TS, fs)) bs (TD, TS, fs))
      ds (PositiveMap.empty _, PositiveMap.empty _, fs) in
  let Dp := fun t p i => tget TD (3 * (t * NP + p) + N.of_nat i)%N in
  let Sp := fun t p => tget TS (t * NP + p)%N in
  let ws := surf2vol_writes o (c_K c) g Dp Sp doms in
  out_raw (writes_in_range ws nrows (hm_dim g)) (apply_raw o sempty ws) nrows (hm_dim g).

(* ---- Head2ECoGMat ---- *)
Definition run_ecog (sh : shape) (hs : list (N * N * N)) (fs : list F) : list Z * list F :=
  let c := decode_common sh fs in
  let g := c_g c in
  let al := triplesF (length hs) (c_rest c) in
  let hits := map (fun '((a, b, cc), w) => (a, b, cc, w)) (combine hs al) in
  let ws := interp_writes g hits in
  let nl := N.of_nat (length hs) in
  out_raw (writes_in_range ws nl (hm_dim g)) (apply_raw o sempty ws) nl (hm_dim g).

Definition frun_c10b (zs : list Z) (fs : list F) : list Z * list F :=
  match zs with
  | 4 :: w => match (do sh <- getShape; do src <- getN; do nb <- getN; do bs <- getMany nb getBnd; ret (sh, src, bs)) w with
              | Some ((sh, src, bs), []) => run_surfsource sh src bs fs | _ => ([-1], []) end
  | 5 :: w => match (do sh <- getShape; do ne <- getN; do es <- getMany ne getNNs; ret (sh, es)) w with
              | Some ((sh, es), []) => run_eit sh es fs | _ => ([-1], []) end
  | 6 :: w => match (do sh <- getShape; do nv <- getN; do np <- getN; do nw <- getN; do ws <- getMany nw getWij; do ns <- getNN; ret (sh, nv, np, ws, ns)) w with
              | Some ((sh, nv, np, ws, ns), []) => run_meg sh nv np ws ns fs | _ => ([-1], []) end
  | 7 :: w => match (do sh <- getShape; do nd <- getN; do ds <- getMany nd getDom; do nr <- getNN; ret (sh, ds, nr)) w with
              | Some ((sh, ds, nr), []) => run_surf2vol sh ds nr fs | _ => ([-1], []) end
  | 8 :: w => match (do sh <- getShape; do nh <- getN; do hs <- getMany nh getHit; ret (sh, hs)) w with
              | Some ((sh, hs), []) => run_ecog sh hs fs | _ => ([-1], []) end
  | _ => ([-1], [])
  end.
End Run2.
