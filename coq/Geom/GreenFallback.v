(* integral_simplified_green ON the edge line: when the denominator |p1x||e| - p1x.e vanishes (x on the ray from p1
   through p0 and beyond, i.e. on the edge or on its extension on the first-vertex side) the model takes the fallback
   branch, and for x = p0 - s (p1-p0), s > 0, the fallback value is the finite closed form ln((1+s)/s), which is the
   line integral of 1/|x-y| along the edge (Coquelicot RInt). *)
From Coq Require Import Reals Lra Bool.
From Coquelicot Require Import Coquelicot.
From OM Require Import Base.Ops Base.OpsR Base.Vec3 Geom.Kernels Geom.KernelProofs.
Local Open Scope R_scope.

Theorem green_fallback_when_denominator_vanishes_lemma (p0x p1x e : V3) (n0 n1 ne : R) :
  n1 * ne - dot OpsR p1x e = 0 ->
  integral_simplified_green OpsR p0x n0 p1x n1 e ne = Rabs (ln (n1 / n0)).
Proof.
  intros H. unfold integral_simplified_green, green_arg. cbn [fdiv fsub fmul OpsR]. rewrite H.
  unfold Rdiv at 1 2. rewrite Rinv_0, Rmult_0_r.
  cbn [fltb f0 OpsR]. replace (Rltb 0 0) with false by (symmetry; apply Rltb_false; lra).
  rewrite andb_false_r. reflexivity.
Qed.

Lemma norm_scale_nonneg k (v : V3) : 0 <= k -> norm OpsR (vscale OpsR k v) = k * norm OpsR v.
Proof.
  intros Hk. unfold norm. cbn [fsqrt OpsR].
  replace (norm2 OpsR (vscale OpsR k v)) with ((k * k) * norm2 OpsR v)
    by (destruct v; unfold norm2, sqr, vscale; cbn; ring).
  rewrite sqrt_mult_alt by nra. rewrite sqrt_square by lra. reflexivity.
Qed.

Section OnTheLine.
  Variables p0 p1 : V3.
  Variable s : R.
  Hypothesis Hs : 0 < s.
  Let e := vsub OpsR p1 p0.
  Hypothesis He : 0 < norm OpsR e.
  Let x := vsub OpsR p0 (vscale OpsR s e).

  Lemma p0x_eq : vsub OpsR p0 x = vscale OpsR s e.
  Proof. unfold x, e; destruct p0, p1; unfold vsub, vscale; cbn. f_equal; ring. Qed.
  Lemma p1x_eq : vsub OpsR p1 x = vscale OpsR (1 + s) e.
  Proof. unfold x, e; destruct p0, p1; unfold vsub, vscale; cbn. f_equal; ring. Qed.

  Theorem green_on_line_value :
    integral_simplified_green OpsR (vsub OpsR p0 x) (norm OpsR (vsub OpsR p0 x)) (vsub OpsR p1 x) (norm OpsR (vsub OpsR p1 x))
                              e (norm OpsR e) = ln ((1 + s) / s).
  Proof.
    rewrite green_fallback_when_denominator_vanishes_lemma.
    - rewrite p0x_eq, p1x_eq, !norm_scale_nonneg by lra.
      replace ((1 + s) * norm OpsR e / (s * norm OpsR e)) with ((1 + s) / s) by (field; lra).
      apply Rabs_right. apply Rle_ge. rewrite <- ln_1. left. apply ln_increasing; [lra|].
      apply Rmult_lt_reg_r with s; [lra|]. unfold Rdiv. rewrite Rmult_assoc, Rinv_l by lra. lra.
    - rewrite p1x_eq, norm_scale_nonneg by lra.
      assert (E : dot OpsR (vscale OpsR (1 + s) e) e = (1 + s) * (norm OpsR e * norm OpsR e)).
      { unfold norm. cbn [fsqrt OpsR]. rewrite sqrt_sqrt by apply norm2_nonneg'.
        destruct e; unfold dot, vscale, norm2, sqr; cbn. ring. }
      rewrite E. ring.
  Qed.

  (* and that value is the line integral of 1/|x-y| along the edge *)
  Theorem green_on_line_is_edge_integral :
    is_RInt (fun t => norm OpsR e / norm OpsR (vsub OpsR (vadd OpsR p0 (vscale OpsR t e)) x)) 0 1 (ln ((1 + s) / s)).
  Proof.
    assert (HI : is_RInt (fun t => / (s + t)) 0 1 (ln (s + 1) - ln (s + 0))).
    { apply (is_RInt_derive (fun t => ln (s + t)) (fun t => / (s + t))).
      - intros t Ht. rewrite Rmin_left, Rmax_right in Ht by lra. auto_derive. { lra. } { apply Rmult_1_l. }
      - intros t Ht. rewrite Rmin_left, Rmax_right in Ht by lra.
        apply (ex_derive_continuous (fun t => / (s + t))). auto_derive. lra. }
    replace (ln (s + 1) - ln (s + 0)) with (ln ((1 + s) / s)) in HI
      by (rewrite ln_div by lra; f_equal; f_equal; ring).
    eapply is_RInt_ext; [|exact HI].
    intros t Ht. rewrite Rmin_left, Rmax_right in Ht by lra. cbn beta.
    assert (Ey : vsub OpsR (vadd OpsR p0 (vscale OpsR t e)) x = vscale OpsR (s + t) e).
    { unfold x; destruct p0, e; unfold vsub, vadd, vscale; cbn. f_equal; ring. }
    rewrite Ey, norm_scale_nonneg by lra.
    assert (F : forall k n : R, 0 < k -> 0 < n -> / k = n / (k * n)) by (intros; field; lra).
    apply F; lra.
  Qed.
End OnTheLine.

(* a dyadic collinear point: p0 = (0,0,0), p1 = (1,0,0), x = (-1,0,0) (the mirror image of p1 in p0): ln 2 *)
Example green_on_line_dyadic :
  let p0 := mkV 0 0 0 in let p1 := mkV 1 0 0 in let x := mkV (-1) 0 0 in
  integral_simplified_green OpsR (vsub OpsR p0 x) (norm OpsR (vsub OpsR p0 x)) (vsub OpsR p1 x) (norm OpsR (vsub OpsR p1 x))
                            (vsub OpsR p1 p0) (norm OpsR (vsub OpsR p1 p0)) = ln 2.
Proof.
  intros p0 p1 x.
  assert (Ex : x = vsub OpsR p0 (vscale OpsR 1 (vsub OpsR p1 p0))) by (unfold x, p0, p1, vsub, vscale; cbn; f_equal; ring).
  assert (Hn : 0 < norm OpsR (vsub OpsR p1 p0)).
  { unfold norm, norm2, sqr, vsub, p0, p1; cbn. apply sqrt_lt_R0. lra. }
  rewrite Ex. rewrite (green_on_line_value p0 p1 1 ltac:(lra) Hn). f_equal. lra.
Qed.
