(* C19 -- token-level model of the count / stream-state logic of the text mesh readers
   OpenMEEG/include/MeshIOs/{tri,off}.h (load_points + load_triangles) on the repaired tree: every count,
   vertex and triangle extraction is followed by a stream test that throws WrongFileFormat.
   A file is seen as its whitespace-separated tokens (lexing assumed, computed by lib/c19mesh.py):
     k_c1  the token is a single character (consumed whole by `>> char`)
     k_us/k_u   `>> unsigned`: 0 fails, 1 delivers k_u and consumes the token, 2 consumes only a part (outside the model)
     k_ds/k_d   `>> double` likewise (k_d = the 64-bit pattern)
     k_word     1 when the token is the word OFF, 2 when it starts with '#'
   Model only: no proofs in this file. *)
From OM Require Import Base.Lists.
Local Open Scope Z_scope.

Record mtok := { k_c1 : bool; k_us : Z; k_u : Z; k_ds : Z; k_d : Z; k_word : Z }.

Inductive mres (A : Type) := MOk (a : A) | MErr (e : Z).
Arguments MOk {A} a. Arguments MErr {A} e.
Definition E_FORMAT : Z := 40.      (* OpenMEEG::WrongFileFormat *)
Definition E_RANGE : Z := 32.       (* std::out_of_range from indmap.at *)
Definition E_UNMODELLED : Z := 99.

Definition get_uint (ts : list mtok) : mres (Z * list mtok) :=
  match ts with
  | [] => MErr E_FORMAT
  | t :: r => if k_us t =? 1 then MOk (k_u t, r) else if k_us t =? 2 then MErr E_UNMODELLED else MErr E_FORMAT
  end.
Definition get_dbl (ts : list mtok) : mres (Z * list mtok) :=
  match ts with
  | [] => MErr E_FORMAT
  | t :: r => if k_ds t =? 1 then MOk (k_d t, r) else if k_ds t =? 2 then MErr E_UNMODELLED else MErr E_FORMAT
  end.
Definition get_char (ts : list mtok) : mres (unit * list mtok) :=
  match ts with
  | [] => MErr E_FORMAT
  | t :: r => if k_c1 t then MOk (tt, r) else MErr E_UNMODELLED
  end.

(* k consecutive extractions of the same type *)
Fixpoint get_many (get : list mtok -> mres (Z * list mtok)) (k : nat) (ts : list mtok) : mres (list Z * list mtok) :=
  match k with
  | O => MOk ([], ts)
  | S k' => match get ts with
            | MErr e => MErr e
            | MOk (x, r) => match get_many get k' r with MErr e => MErr e | MOk (xs, r') => MOk (x :: xs, r') end
            end
  end.

(* n items of k tokens each; the count comes from the file, the loop is bounded by the tokens present *)
Fixpoint read_items (fuel : nat) (get : list mtok -> mres (Z * list mtok)) (k : nat) (n : Z) (ts : list mtok)
  : mres (list (list Z) * list mtok) :=
  if n <=? 0 then MOk ([], ts)
  else match fuel with
       | O => MErr E_FORMAT
       | S fuel' =>
           match get_many get k ts with
           | MErr e => MErr e
           | MOk (x, r) =>
               match read_items fuel' get k (n - 1) r with
               | MErr e => MErr e
               | MOk (xs, r') => MOk (x :: xs, r')
               end
           end
       end.

Definition in_range (npts : Z) (t : list Z) : bool := forallb (fun a => (0 <=? a) && (a <? npts)) t.

Definition check_tris (npts : Z) (pts : list (list Z)) (trs : list (list Z)) : mres (list (list Z) * list (list Z)) :=
  if forallb (in_range npts) trs then MOk (pts, trs) else MErr E_RANGE.

(* tri.h: "- npts" (npts x: 3 coordinates, 3 normal components) "- ntr ntr ntr" (ntr x: 3 indices) *)
Definition read_tri (ts : list mtok) : mres (list (list Z) * list (list Z)) :=
  match get_char ts with MErr e => MErr e | MOk (_, r0) =>
  match get_uint r0 with MErr e => MErr e | MOk (npts, r1) =>
  match read_items (length r1) get_dbl 6 npts r1 with MErr e => MErr e | MOk (ps, r2) =>
  match get_char r2 with MErr e => MErr e | MOk (_, r3) =>
  match get_many get_uint 3 r3 with MErr e => MErr e | MOk (ns, r4) =>
  let ntr := nth 2 ns 0 in
  match read_items (length r4) get_uint 3 ntr r4 with MErr e => MErr e | MOk (trs, r5) =>
  check_tris npts (map (firstn 3) ps) trs
  end end end end end end.

(* off.h: "OFF" npts ntr trash (npts x 3 coordinates) (ntr x: trash a b c); the magic word is enforced (repaired) *)
Definition read_off (ts : list mtok) : mres (list (list Z) * list (list Z)) :=
  match ts with
  | [] => MErr E_FORMAT
  | m :: r0 =>
    if negb (k_word m =? 1) then MErr E_FORMAT else
    match r0 with
    | t :: _ => if k_word t =? 2 then MErr E_UNMODELLED else
      match get_many get_uint 3 r0 with MErr e => MErr e | MOk (hs, r1) =>
      let npts := nth 0 hs 0 in let ntr := nth 1 hs 0 in
      match read_items (length r1) get_dbl 3 npts r1 with MErr e => MErr e | MOk (ps, r2) =>
      match read_items (length r2) get_uint 4 ntr r2 with MErr e => MErr e | MOk (qs, r3) =>
      check_tris npts ps (map (skipn 1) qs)
      end end end
    | [] => MErr E_FORMAT
    end
  end.
