(* unique_domain_general: interfaces forming a forest under inclusion (a laminar family), the domains of a valid
   description (one per interface: inside it, outside its children; plus the exterior: outside the roots).  For every
   insideness pattern compatible with the inclusions (inside a surface => inside its parent; the interiors of two
   surfaces with the same parent, or of two roots, are disjoint) exactly one domain contains the point. *)
From OM Require Import Base.Lists Geom.MeshTopo Geom.GeomModel Geom.GeomProofs.
From Coq Require Import Permutation.

Section Laminar.
Variable n : nat.
Variable parent : nat -> option nat.
Variable depth : nat -> nat.
Hypothesis parent_ok : forall i j, parent i = Some j -> (j < n)%nat /\ depth i = S (depth j).
Hypothesis root_depth : forall i, parent i = None -> depth i = 0%nat.

Definition is_child (i c : nat) : bool := match parent c with Some j => Nat.eqb j i | None => false end.
Definition is_root (c : nat) : bool := match parent c with None => true | Some _ => false end.
Definition children (i : nat) : list nat := filter (is_child i) (seq 0 n).
Definition roots : list nat := filter is_root (seq 0 n).
Definition dom_of (i : nat) : list (bool * nat) := (true, i) :: map (fun c => (false, c)) (children i).
Definition dom_out : list (bool * nat) := map (fun c => (false, c)) roots.
Definition laminar_sigs : list (list (bool * nat)) := map dom_of (seq 0 n) ++ [dom_out].

Variable ins : nat -> bool.
Hypothesis up : forall i j, (i < n)%nat -> ins i = true -> parent i = Some j -> ins j = true.
Hypothesis disj : forall i j, (i < n)%nat -> (j < n)%nat -> i <> j -> parent i = parent j -> ins i = true -> ins j = true -> False.

Lemma contains_outside l : contains_sig ins (map (fun c => (false, c)) l) = forallb (fun c => negb (ins c)) l.
Proof.
  unfold contains_sig. induction l as [|c l IH]; simpl; auto. rewrite IH. destruct (ins c); reflexivity.
Qed.

Lemma contains_dom_of i : contains_sig ins (dom_of i) = ins i && forallb (fun c => negb (ins c)) (children i).
Proof.
  unfold dom_of. change (contains_sig ins ((true, i) :: map (fun c => (false, c)) (children i)))
    with (Bool.eqb (ins i) true && contains_sig ins (map (fun c => (false, c)) (children i))).
  rewrite contains_outside. destruct (ins i); reflexivity.
Qed.

Lemma depth0_root i : depth i = 0%nat -> parent i = None.
Proof. intros H. destruct (parent i) as [j|] eqn:E; auto. apply parent_ok in E. lia. Qed.

Lemma uniq_depth : forall d i j, (i < n)%nat -> (j < n)%nat -> ins i = true -> ins j = true -> depth i = d -> depth j = d -> i = j.
Proof.
  induction d as [|d IH]; intros i j Hi Hj Ii Ij Di Dj.
  - destruct (Nat.eq_dec i j) as [|Hne]; auto. exfalso.
    apply (disj i j Hi Hj Hne); auto. rewrite (depth0_root i Di), (depth0_root j Dj). reflexivity.
  - destruct (parent i) as [a|] eqn:Pa; [|rewrite (root_depth i Pa) in Di; discriminate].
    destruct (parent j) as [b|] eqn:Pb; [|rewrite (root_depth j Pb) in Dj; discriminate].
    destruct (parent_ok _ _ Pa) as [La Da]. destruct (parent_ok _ _ Pb) as [Lb Db].
    assert (Ia : ins a = true) by (exact (up i a Hi Ii Pa)). assert (Ib : ins b = true) by (exact (up j b Hj Ij Pb)).
    assert (a = b) by (apply (IH a b La Lb Ia Ib); lia). subst b.
    destruct (Nat.eq_dec i j) as [|Hne]; auto. exfalso. apply (disj i j Hi Hj Hne); auto. congruence.
Qed.

(* the ancestor of x that sits k levels higher *)
Lemma ancestor : forall k x, (x < n)%nat -> ins x = true -> (k <= depth x)%nat ->
  exists y, (y < n)%nat /\ ins y = true /\ depth y = (depth x - k)%nat.
Proof.
  induction k as [|k IH]; intros x Hx Ix Hk.
  - exists x. rewrite Nat.sub_0_r. auto.
  - destruct (parent x) as [a|] eqn:Pa; [|rewrite (root_depth x Pa) in Hk; lia].
    destruct (parent_ok _ _ Pa) as [La Da].
    destruct (IH a La (up _ _ Hx Ix Pa) ltac:(lia)) as [y [Hy [Iy Dy]]]. exists y. repeat split; auto. lia.
Qed.

Lemma argmax (f : nat -> nat) (l : list nat) : l <> [] -> exists m, In m l /\ forall x, In x l -> (f x <= f m)%nat.
Proof.
  induction l as [|a l IH]; intros H; [congruence|].
  destruct l as [|b l'].
  - exists a. split; [left; auto|]. intros x [<-|[]]; auto.
  - destruct IH as [m [Hm Hmax]]; [discriminate|].
    destruct (Nat.le_gt_cases (f a) (f m)).
    + exists m. split; [right; auto|]. intros x [<-|Hx]; auto.
    + exists a. split; [left; auto|]. intros x [<-|Hx]; auto. specialize (Hmax x Hx). lia.
Qed.

Lemma child_in i c : (c < n)%nat -> parent c = Some i -> In c (children i).
Proof. intros Hc P. unfold children. apply filter_In. split; [apply in_seq; lia|]. unfold is_child. rewrite P. apply Nat.eqb_refl. Qed.

Lemma forallb_false_witness (p : nat -> bool) l c : In c l -> p c = false -> forallb p l = false.
Proof. intros Hc Hp. induction l as [|a l IH]; [inversion Hc|]. simpl. destruct Hc as [->|Hc]; [rewrite Hp; auto|]. rewrite IH; auto. apply andb_false_r. Qed.

Theorem laminar_unique : length (filter (contains_sig ins) laminar_sigs) = 1%nat.
Proof.
  unfold laminar_sigs. rewrite filter_app, app_length, filter_map_len.
  destruct (filter ins (seq 0 n)) as [|s0 S'] eqn:ES.
  - (* nothing contains the point: only the exterior domain *)
    assert (Hn : forall i, (i < n)%nat -> ins i = false).
    { intros i Hi. destruct (ins i) eqn:E; auto. assert (In i (filter ins (seq 0 n))) by (apply filter_In; split; auto; apply in_seq; lia).
      rewrite ES in H. inversion H. }
    rewrite (filter_ext_in _ (fun _ => false)).
    + assert (Z0 : forall l : list nat, filter (fun _ => false) l = []) by (induction l; auto). rewrite Z0. simpl.
      unfold dom_out. rewrite contains_outside.
      replace (forallb (fun c => negb (ins c)) roots) with true; auto.
      symmetry. apply forallb_forall. intros c Hc. unfold roots in Hc. apply filter_In in Hc. destruct Hc as [Hc _]. apply in_seq in Hc.
      rewrite Hn by lia. reflexivity.
    + intros i Hi. apply in_seq in Hi. rewrite contains_dom_of, Hn by lia. reflexivity.
  - (* the deepest surface containing the point *)
    destruct (argmax depth (filter ins (seq 0 n)) ltac:(rewrite ES; discriminate)) as [m [Hm Hmax]].
    apply filter_In in Hm. destruct Hm as [Hm Im]. apply in_seq in Hm.
    assert (Hmax' : forall x, (x < n)%nat -> ins x = true -> (depth x <= depth m)%nat).
    { intros x Hx Ix. apply Hmax. apply filter_In. split; auto. apply in_seq. lia. }
    rewrite (filter_ext_in _ (fun i => Nat.eqb i m)).
    + rewrite count_eqb_seq.
      replace (Nat.leb 0 m && Nat.ltb m (0 + n))%bool with true
        by (symmetry; apply andb_true_iff; split; [apply Nat.leb_le|apply Nat.ltb_lt]; lia).
      simpl. unfold dom_out. rewrite contains_outside.
      destruct (ancestor (depth m) m ltac:(lia) Im (Nat.le_refl _)) as [y [Hy [Iy Dy]]].
      rewrite (forallb_false_witness _ roots y); auto.
      * unfold roots. apply filter_In. split; [apply in_seq; lia|]. unfold is_root. rewrite depth0_root; auto. lia.
      * rewrite Iy. reflexivity.
    + intros i Hi. apply in_seq in Hi. rewrite contains_dom_of.
      destruct (Nat.eqb_spec i m) as [->|Hne].
      * rewrite Im. simpl. apply forallb_forall. intros c Hc. unfold children in Hc. apply filter_In in Hc. destruct Hc as [Hc Pc].
        apply in_seq in Hc. unfold is_child in Pc. destruct (parent c) as [j|] eqn:P; [|discriminate]. apply Nat.eqb_eq in Pc. subst j.
        destruct (ins c) eqn:Ic; auto. exfalso. destruct (parent_ok _ _ P) as [_ D]. specialize (Hmax' c ltac:(lia) Ic). lia.
      * destruct (ins i) eqn:Ii; auto. simpl.
        assert (Dlt : (depth i < depth m)%nat).
        { specialize (Hmax' i ltac:(lia) Ii). destruct (Nat.eq_dec (depth i) (depth m)) as [E|]; [|lia].
          exfalso. apply Hne. apply (uniq_depth (depth m)); auto; lia. }
        destruct (ancestor (depth m - depth i - 1) m ltac:(lia) Im ltac:(lia)) as [y [Hy [Iy Dy]]].
        destruct (parent y) as [z|] eqn:Pz; [|rewrite (root_depth y Pz) in Dy; lia].
        destruct (parent_ok _ _ Pz) as [Lz Dz].
        assert (Iz : ins z = true) by (exact (up y z Hy Iy Pz)).
        assert (z = i) by (apply (uniq_depth (depth i) z i Lz ltac:(lia) Iz Ii); lia). subst z.
        apply (forallb_false_witness _ _ y); [apply child_in; auto|]. rewrite Iy. reflexivity.
Qed.
End Laminar.
