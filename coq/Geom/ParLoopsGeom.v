(* C05 -- addressing lemmas (packed / column-major / offset blocks), the ownership criterion for
   conflict freedom of `map body domain`, and inversion lemmas for the statement shapes the translator emits. *)
From OM Require Import Base.Lists Geom.ParLoops Geom.ParLoopsProofs.
Local Open Scope Z_scope.

(* ---- address functions ---- *)
(* two-index containers: injective on ordered pairs (Matrix, Bloc) or up to swapping (SymMatrix, SymBloc) *)
Definition ord_inj (dom1 dom2 : Z -> Prop) (a : Z -> Z -> Z) : Prop :=
  forall i j i' j', dom1 i -> dom2 j -> dom1 i' -> dom2 j' -> a i j = a i' j' -> i = i' /\ j = j'.
Definition sym_inj (dom : Z -> Prop) (a : Z -> Z -> Z) : Prop :=
  forall i j i' j', dom i -> dom j -> dom i' -> dom j' -> a i j = a i' j' -> (i = i' /\ j = j') \/ (i = j' /\ j = i').

Lemma tri_lt j j' : 0 <= j < j' -> j * (j + 1) / 2 + j < j' * (j' + 1) / 2.
Proof.
  intros H.
  assert (E1 : 2 * (j * (j + 1) / 2) = j * (j + 1)).
  { assert (Hm : (j * (j + 1)) mod 2 = 0).
    { rewrite Z.mul_mod by lia. destruct (Z.mod_pos_bound j 2) as [? ?]; try lia.
      assert (j mod 2 = 0 \/ j mod 2 = 1) as [e|e] by lia.
      - rewrite e; reflexivity.
      - replace ((j + 1) mod 2) with 0; [rewrite Z.mul_0_r; reflexivity|].
        rewrite Z.add_mod by lia. rewrite e. reflexivity. }
    pose proof (Z.div_mod (j * (j + 1)) 2). lia. }
  assert (E2 : 2 * (j' * (j' + 1) / 2) = j' * (j' + 1)).
  { assert (Hm : (j' * (j' + 1)) mod 2 = 0).
    { rewrite Z.mul_mod by lia. destruct (Z.mod_pos_bound j' 2) as [? ?]; try lia.
      assert (j' mod 2 = 0 \/ j' mod 2 = 1) as [e|e] by lia.
      - rewrite e; reflexivity.
      - replace ((j' + 1) mod 2) with 0; [rewrite Z.mul_0_r; reflexivity|].
        rewrite Z.add_mod by lia. rewrite e. reflexivity. }
    pose proof (Z.div_mod (j' * (j' + 1)) 2). lia. }
  nia.
Qed.

Lemma pidx_le_inj i j i' j' : 0 <= i <= j -> 0 <= i' <= j' -> i + j * (j + 1) / 2 = i' + j' * (j' + 1) / 2 -> i = i' /\ j = j'.
Proof.
  intros H H' Heq.
  destruct (Z.lt_trichotomy j j') as [L|[->|L]].
  - pose proof (tri_lt j j'). lia.
  - lia.
  - pose proof (tri_lt j' j). lia.
Qed.

(* SymMatrix::operator(): packed upper triangle *)
Lemma pidx_sym_inj : sym_inj (fun i => 0 <= i) pidx.
Proof.
  intros i j i' j' Hi Hj Hi' Hj'. unfold pidx.
  destruct (Z.leb_spec i j), (Z.leb_spec i' j'); intros Heq.
  - left. apply pidx_le_inj; lia.
  - right. destruct (pidx_le_inj i j j' i'); try lia.
  - right. destruct (pidx_le_inj j i i' j'); try lia.
  - left. destruct (pidx_le_inj j i j' i'); try lia.
Qed.

(* Matrix::operator(): column major, rows below nlin *)
Lemma cmidx_ord_inj n : ord_inj (fun i => 0 <= i < n) (fun _ => True) (cmidx n).
Proof.
  intros i j i' j' Hi _ Hi' _. unfold cmidx. intros Heq.
  assert (j = j') by nia. subst. lia.
Qed.

(* DiagonalBlock::SymBloc / NonDiagonalBlock::Bloc: the same with offsets subtracted in unsigned arithmetic;
   on indices at or above the offsets there is no wrap-around *)
Lemma symbloc_sym_inj off : sym_inj (fun i => off <= i) (fun i j => pidx (i - off) (j - off)).
Proof.
  intros i j i' j' Hi Hj Hi' Hj' Heq.
  destruct (pidx_sym_inj (i - off) (j - off) (i' - off) (j' - off)) as [[? ?]|[? ?]]; try lia; auto.
Qed.
Lemma bloc_ord_inj n i0 j0 : ord_inj (fun i => i0 <= i < i0 + n) (fun j => j0 <= j) (fun i j => cmidx n (i - i0) (j - j0)).
Proof.
  intros i j i' j' Hi Hj Hi' Hj' Heq.
  destruct (cmidx_ord_inj n (i - i0) (j - j0) (i' - i0) (j' - j0)); try lia; auto.
Qed.
(* an ordered-injective addressing is in particular injective up to swapping when both index ranges coincide *)

Section Own.
  Variable F : Type.
  Variable E : Type.
  Variable fadd : F -> F -> F.
  Variable f0 : F.
  Notation basic := (basic F).
  Notation action := (action F E).
  Notation all_basics := (all_basics F E).
  Notation acts := (map (@Act F E)).

  (* ---- all_basics of the statement shapes ---- *)
  Lemma all_basics_app (a b : list action) : all_basics (a ++ b) = all_basics a ++ all_basics b.
  Proof. unfold ParLoops.all_basics. rewrite accesses_app, map_app. reflexivity. Qed.
  Lemma all_basics_acts (bs : list basic) : all_basics (acts bs) = bs.
  Proof. unfold ParLoops.all_basics. induction bs as [|b bs IH]; simpl; auto. rewrite IH; auto. Qed.
  Lemma all_basics_crit1 (bs : list basic) : all_basics [Crit bs] = bs.
  Proof. unfold ParLoops.all_basics; simpl. rewrite app_nil_r, map_map; simpl. apply map_id. Qed.
  Lemma all_basics_nil : all_basics [] = []. Proof. reflexivity. Qed.
  Lemma in_all_basics_flat_map {X} (f : X -> list action) l b :
    In b (all_basics (flat_map f l)) <-> exists x, In x l /\ In b (all_basics (f x)).
  Proof.
    induction l as [|x l IH]; simpl.
    - split; [intros []|intros (x & [] & _)].
    - rewrite all_basics_app, in_app_iff, IH. split.
      + intros [H|(y & H1 & H2)]; eauto.
      + intros (y & [<-|H1] & H2); eauto.
  Qed.

  (* what a basic of `accum rs s g` / `assign rs s g` can be *)
  Lemma in_accum rs s g b : In b (accum F fadd f0 rs s g) ->
    (is_write F b = false /\ (In (bslot F b) rs \/ bslot F b = s)) \/ (is_write F b = true /\ bslot F b = s).
  Proof.
    unfold accum. rewrite in_app_iff, in_map_iff. intros [(r & <- & Hr)|[<-|[<-|[]]]]; simpl; auto.
  Qed.
  Lemma in_assign rs s g b : In b (assign F rs s g) ->
    (is_write F b = false /\ In (bslot F b) rs) \/ (is_write F b = true /\ bslot F b = s).
  Proof.
    unfold assign. rewrite in_app_iff, in_map_iff. intros [(r & <- & Hr)|[<-|[]]]; simpl; auto.
  Qed.

  (* ---- the ownership criterion ----
     every iteration x owns a set of slots; writes go to owned slots only; reads go to owned slots or to
     slots nobody owns; distinct positions of the domain own disjoint sets. *)
  Lemma owner_conflict_free {X} (dom : list X) (body : X -> list action) (own : X -> slot -> Prop) :
    (forall i j x y s, i <> j -> nth_error dom i = Some x -> nth_error dom j = Some y -> own x s -> own y s -> False) ->
    (forall x b, In x dom -> In b (all_basics (body x)) ->
        own x (bslot F b) \/ (is_write F b = false /\ forall y, In y dom -> ~ own y (bslot F b))) ->
    conflict_free F E (map body dom).
  Proof.
    intros Hdisj Hown i j iti itj a b Hij Hi Hj Ha Hb [Hs Hw].
    rewrite nth_error_map in Hi, Hj.
    destruct (nth_error dom i) as [x|] eqn:Ex; [|discriminate]. injection Hi as <-.
    destruct (nth_error dom j) as [y|] eqn:Ey; [|discriminate]. injection Hj as <-.
    pose proof (nth_error_In _ _ Ex) as Inx. pose proof (nth_error_In _ _ Ey) as Iny.
    destruct (Hown x a Inx Ha) as [Oa|[Ra Na]], (Hown y b Iny Hb) as [Ob|[Rb Nb]].
    - rewrite Hs in Oa. eapply Hdisj; eauto.
    - rewrite Hs in Oa. exact (Nb x Inx Oa).
    - rewrite <- Hs in Ob. exact (Na y Iny Ob).
    - destruct Hw; congruence.
  Qed.

  Lemma nodup_positions {X K} (key : X -> K) (dom : list X) i j x y :
    NoDup (map key dom) -> i <> j -> nth_error dom i = Some x -> nth_error dom j = Some y -> key x <> key y.
  Proof.
    intros ND Hij Hi Hj Heq.
    assert (Hi' : nth_error (map key dom) i = Some (key x)) by (rewrite nth_error_map, Hi; auto).
    assert (Hj' : nth_error (map key dom) j = Some (key y)) by (rewrite nth_error_map, Hj; auto).
    rewrite Heq in Hi'. rewrite <- Hj' in Hi'.
    apply Hij. eapply NoDup_nth_error; eauto. apply nth_error_Some. congruence.
  Qed.

  Lemma NoDup_skipn {A} n (l : list A) : NoDup l -> NoDup (skipn n l).
  Proof.
    revert l; induction n as [|n IH]; intros l H; simpl; auto.
    destruct l; auto. inversion H; auto.
  Qed.
  Lemma In_skipn {A} n (l : list A) x : In x (skipn n l) -> In x l.
  Proof. revert l; induction n as [|n IH]; intros [|a l]; simpl; auto. Qed.

  (* conflict freedom survives truncating iterations by exceptions (throw_at only removes accesses) *)
  Lemma conflict_free_throw_at {X} (dom : list X) (body : X -> list action) (exn : X -> option (nat * E)) :
    conflict_free F E (map body dom) -> conflict_free F E (map (fun x => throw_at F E (exn x) (body x)) dom).
  Proof.
    intros H i j iti itj a b Hij Hi Hj Ha Hb.
    rewrite nth_error_map in Hi, Hj.
    destruct (nth_error dom i) as [x|] eqn:Ex; [|discriminate]. injection Hi as <-.
    destruct (nth_error dom j) as [y|] eqn:Ey; [|discriminate]. injection Hj as <-.
    apply (H i j (body x) (body y)); auto; try (rewrite nth_error_map; rewrite ?Ex, ?Ey; reflexivity).
    - eapply throw_at_basics_incl; eauto.
    - eapply throw_at_basics_incl; eauto.
  Qed.
  Lemma DRF_throw_at {X} (dom : list X) (body : X -> list action) (exn : X -> option (nat * E)) :
    DRF F E (map body dom) -> DRF F E (map (fun x => throw_at F E (exn x) (body x)) dom).
  Proof.
    intros H i j iti itj a b Hij Hi Hj Ha Hb.
    rewrite nth_error_map in Hi, Hj.
    destruct (nth_error dom i) as [x|] eqn:Ex; [|discriminate]. injection Hi as <-.
    destruct (nth_error dom j) as [y|] eqn:Ey; [|discriminate]. injection Hj as <-.
    apply (H i j (body x) (body y)); auto; try (rewrite nth_error_map; rewrite ?Ex, ?Ey; reflexivity).
    - eapply throw_at_accesses_incl; eauto.
    - eapply throw_at_accesses_incl; eauto.
  Qed.
End Own.

(* ---- geometry as far as the loops see it (C11's index-bijection theorem, here a named hypothesis) ---- *)
Record mesh := { m_triangles : list tri; m_vertices : list Z; m_adj : Z -> list tri }.

Record well_indexed (isV : Z -> Prop) (ms : list mesh) : Prop := {
  wi_tri_distinct : forall m, In m ms -> NoDup (map t_index (m_triangles m));       (* distinct triangles, distinct unknowns *)
  wi_vert_distinct : forall m, In m ms -> NoDup (m_vertices m);                     (* distinct vertices, distinct unknowns *)
  wi_vert_isV : forall m v, In m ms -> In v (m_vertices m) -> isV v /\ 0 <= v;
  wi_tvert_isV : forall m t k, In m ms -> In t (m_triangles m) -> isV (t_vertex t k) /\ 0 <= t_vertex t k;
  wi_tri_notV : forall m t, In m ms -> In t (m_triangles m) -> ~ isV (t_index t) /\ 0 <= t_index t;   (* ranges disjoint *)
  wi_adj_tri : forall m v t, In m ms -> In t (m_adj m v) -> ~ isV (t_index t) /\ 0 <= t_index t
}.
