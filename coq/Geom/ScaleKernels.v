(* C03, kernel level: homogeneity degree of every integration kernel of Geom/Kernels.v (R instance) when all
   lengths are multiplied by s > 0 (`scl s` on points, directions and dipole moments unchanged):
     solid_angle 0, integral_simplified_green 0, analyticS::f 1, analyticD3::f 0, Dipole::potential -2,
     analyticDipPotDer::f -3, Ferguson vertex term 0 (area s^2), Gauss nodes 1, area 2, integrals degree+2.
   The coplanarity test shared by solid_angle and analyticD3::f enters only through the hypothesis that it takes
   the same branch on the rescaled data (see Geom/CoplanarForms.v for when that holds). *)
From Coq Require Import Reals Lra List QArith.
From OM Require Import Base.Ops Base.Vec3 Base.OpsR Base.Rigid Geom.Kernels Geom.Quadrature.
Import ListNotations.
Local Open Scope R_scope.

(* ---- real-number lemmas ---------------------------------------------------------------------------------- *)
Lemma div_scale k a b : k <> 0 -> (k * a) / (k * b) = a / b.
Proof. intros Hk. unfold Rdiv. rewrite Rinv_mult. transitivity ((k * / k) * (a * / b)); [ring | rewrite Rinv_r by assumption; ring]. Qed.

Lemma ln_ratio_scale k a b : k <> 0 -> ln ((k * a) / (k * b)) = ln (a / b).
Proof. intros; rewrite div_scale by assumption; reflexivity. Qed.

Lemma Ratan2_pos_scale k y x : 0 < k -> Ratan2 (k * y) (k * x) = Ratan2 y x.
Proof.
  intros Hk. unfold Ratan2. rewrite div_scale by lra.
  destruct (Rlt_dec 0 x) as [Hx | Hx]; destruct (Rlt_dec 0 (k * x)) as [Hkx | Hkx]; try reflexivity; try (exfalso; nra).
  destruct (Rlt_dec x 0) as [Hx' | Hx']; destruct (Rlt_dec (k * x) 0) as [Hkx' | Hkx']; try (exfalso; nra).
  - destruct (Rle_dec 0 y); destruct (Rle_dec 0 (k * y)); try reflexivity; exfalso; nra.
  - destruct (Rlt_dec 0 y); destruct (Rlt_dec 0 (k * y)); try reflexivity; try (exfalso; nra).
    destruct (Rlt_dec y 0); destruct (Rlt_dec (k * y) 0); try reflexivity; exfalso; nra.
Qed.

Lemma sqrt_scale2 s x : 0 <= s -> sqrt (s * s * x) = s * sqrt x.
Proof. exact (sqrt_scale s x). Qed.

(* ---- vectors --------------------------------------------------------------------------------------------------- *)
Section Scale.
  Variable s : R.
  Hypothesis s_pos : 0 < s.
  Local Notation sc := (scl s).
  Let s_nz : s <> 0. Proof. lra. Qed.
  Let s_nn : 0 <= s. Proof. lra. Qed.

  Let s3_pos : 0 < s * s * s. Proof. apply Rmult_lt_0_compat; [apply Rmult_lt_0_compat |]; lra. Qed.
  Let s2_pos : 0 < s * s. Proof. apply Rmult_lt_0_compat; lra. Qed.

  Lemma scl_as k u : scl k u = vscaleR k u. Proof. reflexivity. Qed.

  Lemma normalize_scl k u : 0 < k -> normalizeR (scl k u) = normalizeR u.
  Proof.
    intros Hk. unfold normalize, vdiveq. rewrite scl_norm by lra. unfold scl. set (n := normR u).
    assert (E : forall c, 1 / (k * n) * (k * c) = 1 / n * c).
    { intros c. unfold Rdiv. rewrite Rinv_mult. transitivity ((/ k * k) * (1 * / n * c)); [ring | rewrite Rinv_l by lra; ring]. }
    apply v3_eq; cbn; apply E.
  Qed.

  Lemma unit_vector_scl k u : 0 < k -> unit_vector OpsR (scl k u) = unit_vector OpsR u.
  Proof.
    intros Hk. unfold unit_vector. rewrite scl_norm by lra. unfold scl.
    apply v3_eq; cbn; apply div_scale; lra.
  Qed.

  Lemma solid_angle_den_scl Y1 Y2 Y3 y1 y2 y3 :
    solid_angle_den OpsR (sc Y1) (sc Y2) (sc Y3) (s * y1) (s * y2) (s * y3)
    = s * s * s * solid_angle_den OpsR Y1 Y2 Y3 y1 y2 y3.
  Proof. unfold solid_angle_den. rewrite !scl_dot. cbn. ring. Qed.

  (* solid angle: degree 0, provided the coplanarity test takes the same branch *)
  Lemma solid_angle_scale_partial x v1 v2 v3 :
    let Y1 := vsubR v1 x in let Y2 := vsubR v2 x in let Y3 := vsubR v3 x in
    coplanar_test OpsR (s * s * s * det3R Y1 Y2 Y3) (s * normR Y1) (s * normR Y2) (s * normR Y3)
    = coplanar_test OpsR (det3R Y1 Y2 Y3) (normR Y1) (normR Y2) (normR Y3) ->
    solid_angle OpsR (sc x) (sc v1) (sc v2) (sc v3) = solid_angle OpsR x v1 v2 v3.
  Proof.
    cbv zeta. intros H. unfold solid_angle; cbv zeta.
    rewrite !scl_sub, !scl_norm, scl_det3, solid_angle_den_scl by lra. rewrite H; clear H.
    destruct (coplanar_test OpsR _ _ _ _); [reflexivity |].
    cbn [fmul fatan2 OpsR]. rewrite Ratan2_pos_scale by exact s3_pos. reflexivity.
  Qed.

  Lemma green_arg_scl p0x n0 p1x n1 p1p0 n10 :
    green_arg OpsR (sc p0x) (s * n0) (sc p1x) (s * n1) (sc p1p0) (s * n10) = green_arg OpsR p0x n0 p1x n1 p1p0 n10.
  Proof.
    unfold green_arg. rewrite !scl_dot. cbn [fsub fmul fdiv OpsR].
    replace (s * n0 * (s * n10) - s * s * dotR p0x p1p0) with ((s * s) * (n0 * n10 - dotR p0x p1p0)) by ring.
    replace (s * n1 * (s * n10) - s * s * dotR p1x p1p0) with ((s * s) * (n1 * n10 - dotR p1x p1p0)) by ring.
    apply div_scale; nra.
  Qed.

  Lemma green_scl p0x n0 p1x n1 p1p0 n10 :
    integral_simplified_green OpsR (sc p0x) (s * n0) (sc p1x) (s * n1) (sc p1p0) (s * n10)
    = integral_simplified_green OpsR p0x n0 p1x n1 p1p0 n10.
  Proof.
    unfold integral_simplified_green; cbv zeta. rewrite green_arg_scl.
    cbn [fdiv fln fabs OpsR]. rewrite div_scale by lra. reflexivity.
  Qed.

  (* Dipole::potential: degree -2 (moment unchanged) *)
  Lemma dipole_potential_scale r0 q r :
    dipole_potential OpsR (sc r0) q (sc r) = / (s * s) * dipole_potential OpsR r0 q r.
  Proof.
    unfold dipole_potential; cbv zeta. rewrite scl_sub, scl_norm2.
    replace (dotR q (sc (vsubR r r0))) with (s * dotR q (vsubR r r0)) by (unfold scl, dot; cbn; ring).
    cbn [fdiv fmul fsqrt OpsR]. rewrite sqrt_scale2 by lra.
    set (n2 := norm2R (vsubR r r0)). set (d := dotR q (vsubR r r0)).
    unfold Rdiv. rewrite !Rinv_mult.
    transitivity ((s * / s) * (/ s * / s) * (d * (/ n2 * / sqrt n2))); [ring | rewrite Rinv_r by lra; ring].
  Qed.

  (* ---- more vector facts ---------------------------------------------------------------------------------- *)
  Lemma cross_scl_l k u v : crossR (scl k u) v = scl k (crossR u v).
  Proof. unfold scl; v3. Qed.
  Lemma dot_scl_l k u v : dotR (scl k u) v = k * dotR u v.
  Proof. unfold scl, dot; cbn; ring. Qed.
  Lemma dot_scl_r k u v : dotR u (scl k v) = k * dotR u v.
  Proof. unfold scl, dot; cbn; ring. Qed.
  Lemma vopp_scl k u : voppR (scl k u) = scl k (voppR u).
  Proof. unfold scl; v3. Qed.
  Lemma vscale_scl a k u : vscaleR a (scl k u) = scl k (vscaleR a u).
  Proof. unfold scl; v3. Qed.

  (* the coplanarity test takes the same branch on the rescaled configuration (x; v1,v2,v3) *)
  Definition cop_same (x v1 v2 v3 : V3) : Prop :=
    let Y1 := vsubR v1 x in let Y2 := vsubR v2 x in let Y3 := vsubR v3 x in
    coplanar_test OpsR (s * s * s * det3R Y1 Y2 Y3) (s * normR Y1) (s * normR Y2) (s * normR Y3)
    = coplanar_test OpsR (det3R Y1 Y2 Y3) (normR Y1) (normR Y2) (normR Y3).

  (* analyticS::f : degree 1 *)
  Lemma analyticS_f_scale_with_normal v0 v1 v2 n x : cop_same x v0 v1 v2 ->
    analyticS_f OpsR (analyticS_init_with_normal OpsR (sc v0) (sc v1) (sc v2) n) (sc x)
    = s * analyticS_f OpsR (analyticS_init_with_normal OpsR v0 v1 v2 n) x.
  Proof.
    intros Hc. unfold analyticS_f, analyticS_init_with_normal; cbv zeta;
      cbn [S_p0 S_p1 S_p2 S_p2p1 S_p1p0 S_p0p2 S_nu0 S_nu1 S_nu2 S_n S_norm2p2p1 S_norm2p1p0 S_norm2p0p2].
    rewrite (solid_angle_scale_partial x v0 v1 v2 Hc).
    rewrite !scl_sub, !scl_norm by lra. rewrite !cross_scl_l, !(normalize_scl s) by lra.
    rewrite !green_scl, !dot_scl_l. cbn [fadd fsub fmul OpsR]. ring.
  Qed.

  Lemma analyticS_f_scale v0 v1 v2 x : cop_same x v0 v1 v2 ->
    analyticS_f OpsR (analyticS_init OpsR (sc v0) (sc v1) (sc v2)) (sc x)
    = s * analyticS_f OpsR (analyticS_init OpsR v0 v1 v2) x.
  Proof.
    intros Hc. unfold analyticS_init; cbv zeta. rewrite !scl_sub, scl_cross.
    change (vdiveqR ?u (normR ?u)) with (normalizeR u).
    rewrite (normalize_scl (s * s)) by exact s2_pos. apply analyticS_f_scale_with_normal; exact Hc.
  Qed.

  Lemma triangle_normal_scale v0 v1 v2 : triangle_normal OpsR (sc v0) (sc v1) (sc v2) = triangle_normal OpsR v0 v1 v2.
  Proof. unfold triangle_normal, triangle_normaldir. rewrite !scl_sub, scl_cross. apply normalize_scl; exact s2_pos. Qed.

  Lemma triangle_area_scale v0 v1 v2 : triangle_area OpsR (sc v0) (sc v1) (sc v2) = s * s * triangle_area OpsR v0 v1 v2.
  Proof.
    unfold triangle_area, triangle_normaldir. rewrite !scl_sub, scl_cross, scl_norm by lra.
    cbn [fdiv OpsR]. unfold Rdiv; ring.
  Qed.

  Lemma analyticS_f_scale_triangle v0 v1 v2 x : cop_same x v0 v1 v2 ->
    analyticS_f OpsR (analyticS_init_triangle OpsR (sc v0) (sc v1) (sc v2)) (sc x)
    = s * analyticS_f OpsR (analyticS_init_triangle OpsR v0 v1 v2) x.
  Proof. intros Hc. unfold analyticS_init_triangle. rewrite triangle_normal_scale. apply analyticS_f_scale_with_normal; exact Hc. Qed.

  (* Ferguson vertex term: degree 0 when the stored area is that of the rescaled triangle (s^2 * area) *)
  Lemma ferguson_term_scale x Vv A B area : cop_same x Vv A B ->
    ferguson_term OpsR (sc x) (sc Vv) (sc A) (sc B) (s * s * area) = ferguson_term OpsR x Vv A B area.
  Proof.
    intros Hc. unfold ferguson_term; cbv zeta. rewrite (analyticS_f_scale _ _ _ _ Hc), scl_sub.
    set (a := analyticS_f OpsR _ x). unfold scl. cbn [fmul f2 OpsR].
    assert (E : forall c, s * a * (s * c / (fZ OpsR 2 * (s * s * area))) = a * (c / (fZ OpsR 2 * area))).
    { intros c. unfold Rdiv. rewrite !Rinv_mult.
      transitivity ((s * / s) * (s * / s) * (a * (c * (/ fZ OpsR 2 * / area)))); [ring | rewrite Rinv_r by lra; ring]. }
    apply v3_eq; cbn; apply E.
  Qed.

  (* analyticD3::f : degree 0 (components w.r.t. the P1 functions) *)
  Lemma ln_edge_scl ya yb (Ya Yb U : V3) :
    ln ((s * ya + dotR (sc Ya) U) / (s * yb + dotR (sc Yb) U)) = ln ((ya + dotR Ya U) / (yb + dotR Yb U)).
  Proof.
    rewrite !dot_scl_l.
    replace (s * ya + s * dotR Ya U) with (s * (ya + dotR Ya U)) by ring.
    replace (s * yb + s * dotR Yb U) with (s * (yb + dotR Yb U)) by ring.
    apply ln_ratio_scale; lra.
  Qed.

  Lemma analyticD3_f_scale v0 v1 v2 x : cop_same x v0 v1 v2 ->
    analyticD3_f OpsR (analyticD3_init OpsR (sc v0) (sc v1) (sc v2)) (sc x)
    = analyticD3_f OpsR (analyticD3_init OpsR v0 v1 v2) x.
  Proof.
    intros Hc. unfold analyticD3_f, analyticD3_init; cbv zeta; cbn [D_v0 D_v1 D_v2 D_D1 D_D2 D_D3 D_U1 D_U2 D_U3].
    rewrite !scl_sub, !scl_norm, scl_det3, solid_angle_den_scl by lra.
    unfold cop_same in Hc; cbv zeta in Hc. rewrite Hc; clear Hc.
    destruct (coplanar_test OpsR _ _ _ _); [reflexivity |].
    rewrite !(unit_vector_scl s) by lra.
    cbn [fmul fatan2 fln fdiv fadd OpsR]. rewrite Ratan2_pos_scale by exact s3_pos. rewrite !ln_edge_scl.
    rewrite !scl_cross, !scl_add, !scl_dot, !dot_scl_l, scl_norm2.
    set (om := f2 OpsR * Ratan2 _ _).
    set (d := det3R _ _ _).
    set (N := vaddR (vaddR (crossR _ _) _) _).
    assert (E : forall A B, (om * (s * s * (s * s) * A) + s * s * s * d * (s * B)) / (s * s * (s * s) * norm2R N)
                            = (om * A + d * B) / norm2R N).
    { intros A B. replace (om * (s * s * (s * s) * A) + s * s * s * d * (s * B)) with ((s * s * (s * s)) * (om * A + d * B)) by ring.
      apply div_scale. nra. }
    apply v3_eq; cbn; apply E.
  Qed.

  Lemma scl_scl_mul_l a v : scl s (vscaleR a v) = vscaleR (s * a) v.
  Proof. unfold scl; v3. Qed.

  (* analyticDipPotDer::f : degree -3 (moment unchanged) *)
  Lemma vdivs_unit_scl u : vdivsR (sc u) (s * normR u) = vdivsR u (normR u).
  Proof. unfold scl; apply v3_eq; cbn; apply div_scale; lra. Qed.

  Lemma vdivs_norm2_scl u : vdivsR (sc u) (s * s * norm2R u) = scl (/ s) (vdivsR u (norm2R u)).
  Proof.
    assert (E : forall c n, s * c / (s * s * n) = / s * (c / n)).
    { intros c n. unfold Rdiv. rewrite !Rinv_mult. transitivity ((s * / s) * (/ s * (c * / n))); [ring | rewrite Rinv_r by lra; ring]. }
    unfold scl; apply v3_eq; cbn; apply E.
  Qed.

  Lemma sqrt_inv_scale y : sqrt (/ (s * s) * y) = / s * sqrt y.
  Proof.
    rewrite sqrt_mult_alt by (left; apply Rinv_0_lt_compat; exact s2_pos).
    rewrite sqrt_inv, sqrt_square by lra. reflexivity.
  Qed.

  Lemma analyticDipPotDer_f_scale r0 q p0 p1 p2 r :
    analyticDipPotDer_f OpsR (analyticDipPotDer_init OpsR (sc r0) q (sc p0) (sc p1) (sc p2)) (sc r)
    = scl (/ (s * s * s)) (analyticDipPotDer_f OpsR (analyticDipPotDer_init OpsR r0 q p0 p1 p2) r).
  Proof.
    unfold analyticDipPotDer_f, analyticDipPotDer_init; cbv zeta;
      cbn [P_r0 P_q P_H0 P_H1 P_H2 P_H0p0DivNorm2 P_H1p1DivNorm2 P_H2p2DivNorm2 P_n].
    rewrite !scl_sub, !scl_norm, !vdivs_unit_scl, !dot_scl_l by lra.
    rewrite <- !scl_scl_mul_l. rewrite !scl_add, !scl_sub, !scl_norm2, !vdivs_norm2_scl, !scl_dot.
    rewrite scl_cross, vopp_scl, (normalize_scl (s * s)) by exact s2_pos.
    set (n := normalizeR _). set (x := vsubR r r0).
    cbn [fdiv fmul f1 fsqrt fopp OpsR].
    replace (1 / (s * s * norm2R x)) with (/ (s * s) * (1 / norm2R x)) by (unfold Rdiv; rewrite !Rinv_mult; ring).
    rewrite sqrt_inv_scale, dot_scl_r.
    set (i2 := 1 / norm2R x). set (dq := dotR q x).
    replace (vscaleR (/ (s * s) * i2) (vscaleR (f3 OpsR * (s * dq)) (sc x))) with (vscaleR i2 (vscaleR (f3 OpsR * dq) x)).
    2:{ unfold scl; apply v3_eq; cbn.
        all: match goal with |- ?i * (?c * ?xx) = _ => transitivity ((s * s * / (s * s)) * (i * (c * xx))) end;
          try (rewrite Rinv_r by nra; ring); try (rewrite Rinv_mult; ring). }
    set (EM := dotR n _).
    unfold scl; apply v3_eq; cbn.
    all: rewrite !Rinv_mult;
      match goal with |- _ = _ * (?a * ?b) => transitivity ((/ s * s) * (/ s * / s * / s * (a * b))) end;
      [ring | rewrite Rinv_l by lra; ring].
  Qed.

  (* ---- quadrature: nodes degree 1 (exactly: a linear map, no condition on the table), area degree 2 ----------- *)
  Lemma quad_node_scale p t0 t1 t2 : quad_node OpsR p (sc t0) (sc t1) (sc t2) = sc (quad_node OpsR p t0 t1 t2).
  Proof. unfold quad_node, bary_point, scl. v3. Qed.
  Lemma midpoint_scale a b : midpoint OpsR (sc a) (sc b) = sc (midpoint OpsR a b).
  Proof. unfold midpoint, scl. v3. Qed.
  Lemma area2_scale t0 t1 t2 : area2 OpsR (sc t0) (sc t1) (sc t2) = s * s * area2 OpsR t0 t1 t2.
  Proof. unfold area2. rewrite !scl_sub, scl_cross, scl_norm by lra. reflexivity. Qed.

  Lemma Rleb_scale k a b : 0 < k -> Rleb (k * a) (k * b) = Rleb a b.
  Proof. intros Hk. unfold Rleb. destruct (Rle_dec (k * a) (k * b)), (Rle_dec a b); try reflexivity; exfalso; nra. Qed.

  (* integrand of degree given by c > 0:  f' (s p) = c * f p   =>   integrals scale by s^2 * c, same refinement tree *)
  Section ScalarIntegration.
    Variable rule : list qpoint.
    Variables (f f' : V3 -> R) (c : R).
    Hypothesis c_pos : 0 < c.
    Hypothesis f_hom : forall p, f' (sc p) = c * f p.
    Let k := s * s * c.
    Let k_pos : 0 < k. Proof. unfold k. apply Rmult_lt_0_compat; [exact s2_pos | exact c_pos]. Qed.

    Lemma rule_sum_scale t0 t1 t2 :
      rule_sum OpsR (RS_scalar OpsR) rule f' (sc t0) (sc t1) (sc t2) = c * rule_sum OpsR (RS_scalar OpsR) rule f t0 t1 t2.
    Proof.
      unfold rule_sum. cbn [rs_zero rs_add rs_scale RS_scalar f0 fadd fmul OpsR].
      assert (A : forall acc,
        fold_left (fun acc p => acc + fQ OpsR (qp_w p) * f' (quad_node OpsR p (sc t0) (sc t1) (sc t2))) rule (c * acc)
        = c * fold_left (fun acc p => acc + fQ OpsR (qp_w p) * f (quad_node OpsR p t0 t1 t2)) rule acc).
      { induction rule as [| p l IH]; intros acc; cbn [fold_left]; [reflexivity |].
        rewrite quad_node_scale, f_hom. rewrite <- IH. f_equal. ring. }
      rewrite <- A. f_equal. ring.
    Qed.

    Lemma triangle_integration_scale t0 t1 t2 :
      triangle_integration_rule OpsR (RS_scalar OpsR) rule f' (sc t0) (sc t1) (sc t2)
      = k * triangle_integration_rule OpsR (RS_scalar OpsR) rule f t0 t1 t2.
    Proof.
      unfold triangle_integration_rule. rewrite area2_scale, rule_sum_scale.
      cbn [rs_scale RS_scalar fmul OpsR]. unfold k. ring.
    Qed.

    Lemma adaptive_integration_scale tol level : forall t0 t1 t2 coarse,
      adaptive_integration_rule OpsR (RS_scalar OpsR) rule tol f' (sc t0) (sc t1) (sc t2) (k * coarse) level
      = k * adaptive_integration_rule OpsR (RS_scalar OpsR) rule tol f t0 t1 t2 coarse level.
    Proof.
      induction level as [| level IH]; intros t0 t1 t2 coarse; cbn [adaptive_integration_rule]; cbv zeta;
        rewrite !midpoint_scale, !triangle_integration_scale;
        cbn [rs_zero rs_add rs_sub rs_scale rs_norm RS_scalar f0 fadd fsub fmul fabs fleb OpsR].
      - ring.
      - set (i0 := triangle_integration_rule _ _ _ f t0 _ _). set (i1 := triangle_integration_rule _ _ _ f _ t1 _).
        set (i2 := triangle_integration_rule _ _ _ f _ _ t2). set (i3 := triangle_integration_rule _ _ _ f _ _ _).
        replace (k * coarse - (0 + k * i0 + k * i1 + k * i2 + k * i3)) with (k * (coarse - (0 + i0 + i1 + i2 + i3))) by ring.
        rewrite !Rabs_mult, (Rabs_pos_eq k) by lra.
        replace (tol * (k * Rabs coarse)) with (k * (tol * Rabs coarse)) by ring.
        rewrite Rleb_scale by exact k_pos.
        destruct (Rleb _ _); [ring |]. rewrite !IH. ring.
    Qed.
  End ScalarIntegration.

  Lemma scl_norm_sub kk u v : 0 <= kk -> normR (vsubR (scl kk u) (scl kk v)) = kk * normR (vsubR u v).
  Proof. intros; rewrite scl_sub, scl_norm by assumption; reflexivity. Qed.

  (* the same for vector-valued integrands (components w.r.t. hat functions): f' (s p) = c * f p componentwise *)
  Section VectorIntegration.
    Variable rule : list qpoint.
    Variables (f f' : V3 -> V3) (c : R).
    Hypothesis c_pos : 0 < c.
    Hypothesis f_hom : forall p, f' (sc p) = scl c (f p).
    Let k := s * s * c.
    Let k_pos : 0 < k. Proof. unfold k. apply Rmult_lt_0_compat; [exact s2_pos | exact c_pos]. Qed.

    Lemma rule_sum_scale_v t0 t1 t2 :
      rule_sum OpsR (RS_vec3 OpsR) rule f' (sc t0) (sc t1) (sc t2) = scl c (rule_sum OpsR (RS_vec3 OpsR) rule f t0 t1 t2).
    Proof.
      unfold rule_sum. cbn [rs_zero rs_add rs_scale RS_vec3].
      assert (A : forall acc,
        fold_left (fun acc p => vaddR acc (vscaleR (fQ OpsR (qp_w p)) (f' (quad_node OpsR p (sc t0) (sc t1) (sc t2))))) rule (scl c acc)
        = scl c (fold_left (fun acc p => vaddR acc (vscaleR (fQ OpsR (qp_w p)) (f (quad_node OpsR p t0 t1 t2)))) rule acc)).
      { induction rule as [| p l IH]; intros acc; cbn [fold_left]; [reflexivity |].
        rewrite quad_node_scale, f_hom. rewrite <- IH. f_equal. unfold scl; v3. }
      rewrite <- A. f_equal. unfold scl; v3.
    Qed.

    Lemma triangle_integration_scale_v t0 t1 t2 :
      triangle_integration_rule OpsR (RS_vec3 OpsR) rule f' (sc t0) (sc t1) (sc t2)
      = scl k (triangle_integration_rule OpsR (RS_vec3 OpsR) rule f t0 t1 t2).
    Proof.
      unfold triangle_integration_rule. rewrite area2_scale, rule_sum_scale_v.
      cbn [rs_scale RS_vec3]. unfold k, scl. v3.
    Qed.

    Lemma adaptive_integration_scale_v tol level : forall t0 t1 t2 coarse,
      adaptive_integration_rule OpsR (RS_vec3 OpsR) rule tol f' (sc t0) (sc t1) (sc t2) (scl k coarse) level
      = scl k (adaptive_integration_rule OpsR (RS_vec3 OpsR) rule tol f t0 t1 t2 coarse level).
    Proof.
      induction level as [| level IH]; intros t0 t1 t2 coarse; cbn [adaptive_integration_rule]; cbv zeta;
        rewrite !midpoint_scale, !triangle_integration_scale_v; cbn [rs_zero rs_add rs_sub rs_scale rs_norm RS_vec3].
      - unfold scl; v3.
      - set (i0 := triangle_integration_rule _ _ _ f t0 _ _). set (i1 := triangle_integration_rule _ _ _ f _ t1 _).
        set (i2 := triangle_integration_rule _ _ _ f _ _ t2). set (i3 := triangle_integration_rule _ _ _ f _ _ _).
        replace (vaddR (vaddR (vaddR (vaddR (vconstR (f0 OpsR)) (scl k i0)) (scl k i1)) (scl k i2)) (scl k i3))
          with (scl k (vaddR (vaddR (vaddR (vaddR (vconstR (f0 OpsR)) i0) i1) i2) i3)) by (unfold scl; v3).
        rewrite scl_norm_sub, scl_norm by lra. cbn [fleb fmul OpsR].
        replace (tol * (k * normR coarse)) with (k * (tol * normR coarse)) by ring.
        rewrite Rleb_scale by exact k_pos.
        destruct (Rleb _ _); [reflexivity |]. rewrite !IH. unfold scl; v3.
    Qed.
  End VectorIntegration.
End Scale.
