(* C08 (extension) -- column structure of EITSourceMat and SurfSourceMat: any numeric instance, any kernels. *)
From Coq Require Import List ZArith Bool Arith Lia.
From OM Require Import Base.Ops Base.Lists Geom.AdaptInt Geom.Sources Geom.SurfEIT.
Import ListNotations.

Section Proofs.
Context {F : Type} (o : Ops F).
Local Notation write := (write (F:=F)).

(* what reaches column j, as (row, value) pairs in program order *)
Definition proj (j : nat) (ws : list write) : list (nat * F) :=
  map (fun w => (wrow w, wval w)) (filter (fun w => Nat.eqb (wcol w) j) ws).
Definition apply_rv (n : nat) (rvs : list (nat * F)) : list F :=
  fold_left (fun col rv => add_at o col (fst rv) (snd rv)) rvs (zeros o n).

Lemma proj_app j a b : proj j (a ++ b) = proj j a ++ proj j b.
Proof. unfold proj. rewrite filter_app, map_app; auto. Qed.

Lemma proj_flat_map {A} j (g : A -> list write) l : proj j (flat_map g l) = flat_map (fun a => proj j (g a)) l.
Proof. induction l as [|a l IH]; simpl; auto. rewrite proj_app, IH; auto. Qed.

Lemma run_col_proj n ws j : run_col o n ws j = apply_rv n (proj j ws).
Proof.
  unfold run_col, apply_rv, proj. generalize (zeros o n).
  induction ws as [|w ws IH]; intros c; simpl; auto.
  destruct (Nat.eqb (wcol w) j); simpl; auto.
Qed.

Lemma mat_add_length M w : length (mat_add o M w) = length M.
Proof. apply upd_length. Qed.

Lemma nth_mat_add M w j : j < length M ->
  nth j (mat_add o M w) [] = if Nat.eqb (wcol w) j then add_at o (nth j M []) (wrow w) (wval w) else nth j M [].
Proof.
  intros Hj. unfold mat_add. rewrite nth_upd.
  destruct (Nat.eqb_spec (wcol w) j) as [->|Hn]; simpl; auto.
  destruct (Nat.ltb_spec j (length M)); auto; lia.
Qed.

(* the matrix state after the writes, column j = what the writes addressed to column j do to a zero column *)
Lemma run_writes_col nrows ncols ws j : j < ncols ->
  nth j (run_writes o nrows ncols ws) [] = run_col o nrows ws j.
Proof.
  intros Hj. unfold run_writes, run_col.
  assert (G : forall M, length M = ncols ->
    nth j (fold_left (mat_add o) ws M) [] =
    fold_left (fun col w => if Nat.eqb (wcol w) j then add_at o col (wrow w) (wval w) else col) ws (nth j M [])).
  { induction ws as [|w ws IH]; intros M HM; simpl; auto.
    rewrite IH by (rewrite mat_add_length; auto). rewrite nth_mat_add by lia. auto. }
  rewrite G by (unfold zero_mat; apply repeat_length).
  unfold zero_mat. f_equal. rewrite (nth_indep _ [] (zeros o nrows)) by (rewrite repeat_length; lia). apply nth_repeat.
Qed.

(* ---------------- EITSourceMat ---------------- *)
Variable TM : nat -> nat -> F.
Definition eit_rv (size : nat) (e : electrode (F:=F)) : list (nat * F) :=
  flat_map (fun tc => map (fun i => (i, fmul o (TM (fst tc) i) (snd tc))) (seq 0 size)) e.

Lemma proj_map_col j k (f : nat -> F) (l : list nat) :
  proj j (map (fun i => (i, k, f i)) l) = if Nat.eqb k j then map (fun i => (i, f i)) l else [].
Proof.
  unfold proj. induction l as [|i l IHl]; simpl; [destruct (Nat.eqb k j); auto|].
  unfold wcol at 1; simpl. destruct (Nat.eqb k j); simpl; auto. f_equal; auto.
Qed.

Lemma proj_eit_of size k j e :
  proj j (eit_writes_of o TM size k e) = if Nat.eqb k j then eit_rv size e else [].
Proof.
  unfold eit_writes_of, eit_rv. rewrite proj_flat_map.
  induction e as [|tc e IH]; simpl; [destruct (Nat.eqb k j); auto|]. rewrite IH.
  rewrite (proj_map_col j k (fun i => fmul o (TM (fst tc) i) (snd tc))). destruct (Nat.eqb k j); auto.
Qed.

Lemma proj_eit size k0 es j :
  proj j (eit_writes o TM size k0 es) =
  if (k0 <=? j) && (j <? k0 + length es) then eit_rv size (nth (j - k0) es []) else [].
Proof.
  revert k0; induction es as [|e es IH]; intros k0; simpl.
  - destruct (k0 <=? j); simpl; auto. replace (k0 + 0) with k0 by lia.
    destruct (Nat.ltb_spec j k0); auto. destruct (j - k0); auto.
  - rewrite proj_app, proj_eit_of, IH.
    destruct (Nat.eqb_spec k0 j) as [->|Hn].
    + rewrite Nat.sub_diag, Nat.leb_refl.
      assert (E1 : (S j <=? j) = false) by (apply Nat.leb_gt; lia). rewrite E1.
      assert (E2 : (j <? j + S (length es)) = true) by (apply Nat.ltb_lt; lia). rewrite E2.
      cbn [andb nth]. apply app_nil_r.
    + cbn [app].
      destruct (Nat.leb_spec (S k0) j) as [H1|H1], (Nat.leb_spec k0 j) as [H2|H2]; try lia; cbn [andb]; auto.
      replace (k0 + S (length es)) with (S k0 + length es) by lia.
      destruct (Nat.ltb_spec j (S k0 + length es)); auto.
      replace (j - k0) with (S (j - S k0)) by lia. auto.
Qed.

(* column k of EITSourceMat = what electrode k gives alone *)
Lemma eit_column size es k : k < length es ->
  nth k (EIT o TM size es) [] = apply_rv size (eit_rv size (nth k es [])).
Proof.
  intros Hk. unfold EIT. rewrite run_writes_col, run_col_proj, proj_eit by auto.
  simpl. rewrite Nat.sub_0_r. destruct (Nat.ltb_spec k (length es)); auto; lia.
Qed.

Lemma eit_column_local size es k : k < length es ->
  nth 0 (EIT o TM size [nth k es []]) [] = nth k (EIT o TM size es) [].
Proof. intros Hk. rewrite (eit_column size es k Hk), (eit_column size [nth k es []] 0) by (simpl; lia). auto. Qed.

Lemma eit_reindex size es (p : list nat) k : (forall i, In i p -> i < length es) -> k < length p ->
  nth k (EIT o TM size (map (fun i => nth i es []) p)) [] = nth (nth k p 0) (EIT o TM size es) [].
Proof.
  intros Hp Hk. rewrite eit_column by (rewrite map_length; auto).
  rewrite eit_column by (apply Hp, nth_In; auto).
  f_equal. f_equal. rewrite nth_indep with (d' := (fun i => nth i es []) 0) by (rewrite map_length; auto).
  apply (map_nth (fun i => nth i es [])).
Qed.

(* ---------------- SurfSourceMat ---------------- *)
Variable ST : Type.
Variable st_v : ST -> nat * nat * nat.
Variable NV : nat -> nat -> nat -> list ST -> F.
Variable DV : nat -> nat -> ST -> pt (F:=F).
Variable K : F.
Local Notation star := (SurfEIT.star ST st_v).

Lemma proj_d_star m src c j :
  proj j (d_writes o ST st_v DV m src c) = proj j (d_writes o ST st_v DV m (star src j) c).
Proof.
  unfold d_writes. rewrite !proj_flat_map. apply flat_map_ext. intros t1. rewrite !proj_flat_map.
  unfold SurfEIT.star. induction src as [|t2 src IH]; simpl; auto.
  unfold has_vertex at 1. destruct (st_v t2) as [[a b] cc] eqn:E.
  destruct (Nat.eqb a j || Nat.eqb b j || Nat.eqb cc j) eqn:Hv; simpl.
  - rewrite E, IH; auto.
  - apply orb_false_iff in Hv. destruct Hv as [Hv Hc]. apply orb_false_iff in Hv. destruct Hv as [Ha Hb].
    rewrite <- IH. unfold proj at 1; simpl. unfold wcol; simpl. rewrite Ha, Hb, Hc; simpl; auto.
Qed.

Lemma proj_map_var j v1 (f : nat -> F) (l : list nat) :
  proj j (map (fun i => (v1, i, f i)) l) = map (fun i => (v1, f i)) (filter (fun i => Nat.eqb i j) l).
Proof.
  unfold proj. induction l as [|i l IHl]; simpl; auto.
  unfold wcol at 1; simpl. destruct (Nat.eqb i j); simpl; auto. f_equal; auto.
Qed.

Lemma proj_n_star m nsv src src' c j : star src j = star src' j ->
  proj j (n_writes o ST st_v NV m nsv src c) = proj j (n_writes o ST st_v NV m nsv src' c).
Proof.
  intros Hs. unfold n_writes. rewrite !proj_flat_map. apply flat_map_ext. intros v1.
  rewrite (proj_map_var j v1 (fun i => fmul o (NV (bm_id m) v1 i (star src i)) c)).
  rewrite (proj_map_var j v1 (fun i => fmul o (NV (bm_id m) v1 i (star src' i)) c)).
  apply map_ext_in. intros i Hi. apply filter_In in Hi. destruct Hi as [_ Hi]. apply Nat.eqb_eq in Hi. subst.
  rewrite Hs; auto.
Qed.

(* column j of SurfSourceMat depends on the source mesh only through the triangles around source vertex j *)
Lemma ssm_column_star size cond bounds nsv src src' j : j < nsv -> star src j = star src' j ->
  nth j (SSM o ST st_v NV DV K size cond bounds nsv src) [] = nth j (SSM o ST st_v NV DV K size cond bounds nsv src') [].
Proof.
  intros Hj Hs. unfold SSM. rewrite !run_writes_col, !run_col_proj by auto. f_equal.
  unfold ssm_writes. rewrite !proj_flat_map. apply flat_map_ext. intros b. rewrite !proj_flat_map.
  apply flat_map_ext. intros om. rewrite !proj_app.
  rewrite (proj_n_star _ _ src src') by auto. f_equal.
  destruct (bm_barrier (bo_mesh om)); auto.
  rewrite (proj_d_star _ src), (proj_d_star _ src'), Hs; auto.
Qed.

(* rows: only vertex rows of the boundary meshes (N part) and their triangle rows (D part) are ever written *)
Lemma ssm_rows cond bounds nsv src w :
  In w (ssm_writes o ST st_v NV DV K cond bounds nsv src) ->
  exists b om, In b bounds /\ In om (bb_meshes b) /\
    (In (wrow w) (bm_verts (bo_mesh om)) \/ (bm_barrier (bo_mesh om) = false /\ In (wrow w) (bm_tris (bo_mesh om)))).
Proof.
  unfold ssm_writes. intros H. apply in_flat_map in H. destruct H as [b [Hb H]].
  apply in_flat_map in H. destruct H as [om [Hom H]]. exists b, om. repeat split; auto.
  apply in_app_or in H. destruct H as [H|H].
  - left. unfold n_writes in H. apply in_flat_map in H. destruct H as [v1 [Hv H]].
    apply in_map_iff in H. destruct H as [i [<- _]]. auto.
  - right. destruct (bm_barrier (bo_mesh om)); [destruct H|]. split; auto. unfold d_writes in H. apply in_flat_map in H. destruct H as [t1 [Ht H]].
    apply in_flat_map in H. destruct H as [t2 [_ H]]. destruct (st_v t2) as [[a bb] c].
    simpl in H. destruct H as [<-|[<-|[<-|[]]]]; auto.
Qed.
End Proofs.
