(* C04 -- sanity of the executable reference (Geom/GainFloat.v) in exact rational arithmetic: on concrete systems that
   need row exchanges it returns the exact solution, and gain = P + A * H^-1 * S. *)
From Coq Require Import List ZArith QArith.
From OM Require Import Base.Ops Geom.AdaptIntProofs Geom.GainFloat.
Import ListNotations.
Local Open Scope Q_scope.

Definition qrow_eq (a b : list Q) : bool := (Nat.eqb (length a) (length b)) && forallb (fun xy => Qeq_bool (fst xy) (snd xy)) (combine a b).
Definition qmat_eq (A B : list (list Q)) : bool := (Nat.eqb (length A) (length B)) && forallb (fun ab => qrow_eq (fst ab) (snd ab)) (combine A B).

(* H needs a row exchange at the first and at the second step *)
Definition exH : list (list Q) := [[0; 2; 1]; [1; 1; 1]; [2; 1; 0]].
Definition exS : list (list Q) := [[3; 1]; [3; 0]; [3; -1]].
Definition exX : list (list Q) := [[1; -1]; [1; 1]; [1; 0-1+0]].

Lemma solve_exact_example :
  qmat_eq (matmul QOps exH (solve QOps exH exS) 2) exS = true.
Proof. vm_compute. reflexivity. Qed.

Lemma gain_exact_example :
  (* n=3, nd=2, me=2, with P: gain = P + A * X where H X = S *)
  let fs := concat exH ++ concat exS ++ [1; 0; 0; 0; 1; 1] ++ [10; 20; 30; 40] in
  let X := solve QOps exH exS in
  qrow_eq (gain QOps 3 2 2 true fs)
          (concat (matadd QOps [[10; 20]; [30; 40]] (matmul QOps [[1; 0; 0]; [0; 1; 1]] X 2))) = true
  /\ length (gain QOps 3 2 2 true fs) = 4%nat.
Proof. split; vm_compute; reflexivity. Qed.
