(* Model of Interface::contains / Interface::solid_angle (interface.cpp), Mesh::solid_angle (mesh.cpp) and
   almost_equal (om_common.h) over a record of numeric operations; the per-triangle solid angle is
   Geom/Kernels.v's transcription of Vect3::solid_angle.  No proofs here. *)
From Coq Require Import ZArith List Bool.
From OM Require Import Base.Ops Base.Vec3 Geom.Kernels.
Import ListNotations.

Section Contains.
Context {F : Type} (o : Ops F).
Local Notation "a + b" := (fadd o a b).
Local Notation "a - b" := (fsub o a b).
Local Notation "a * b" := (fmul o a b).
Local Notation V := (vec3 F).

(* std::numeric_limits<double>::epsilon() = 2^-52 ; the default eps=1e3 of almost_equal *)
Definition dbl_eps : F := fdiv o (f1 o) (fofZ o (2 ^ 52)%Z).
Definition c1e3 : F := fofZ o 1000%Z.
(* almost_equal(x,y): (|x-y| < epsilon*|x+y|*1e3) || |x-y| < DBL_MIN *)
Definition almost_equal (x y : F) : bool :=
  fltb o (fabs o (x - y)) (dbl_eps * fabs o (x + y) * c1e3) || fltb o (fabs o (x - y)) (dbl_min o).

Definition triangle : Type := (V * V * V)%type.
(* Mesh::solid_angle: solangle = 0.0; for each triangle: solangle += p.solid_angle(v0,v1,v2) *)
Definition mesh_solid_angle (p : V) (m : list triangle) : F :=
  fold_left (fun acc t => acc + solid_angle o p (fst (fst t)) (snd (fst t)) (snd t)) m (f0 o).
(* Interface::solid_angle: solangle += omesh.orientation()*omesh.mesh().solid_angle(p)   (orientation = +1 / -1) *)
Definition iface_solid_angle (p : V) (ifc : list (Z * list triangle)) : F :=
  fold_left (fun acc om => acc + fofZ o (fst om) * mesh_solid_angle p (snd om)) ifc (f0 o).

Definition four_pi : F := fofZ o 4%Z * fpi o.
Definition two_pi : F := fofZ o 2%Z * fpi o.
(* Interface::contains, on the summed solid angle *)
Definition contains_of_angle (s : F) : bool :=
  if almost_equal s (fopp o four_pi) then true
  else if almost_equal s (f0 o) then false
  else if almost_equal s four_pi then true
  else fltb o two_pi (fabs o s).
Definition iface_contains (p : V) (ifc : list (Z * list triangle)) : bool := contains_of_angle (iface_solid_angle p ifc).
End Contains.
