(* C05 -- composition lemmas, satisfiability witnesses, the counterfactual (accumulation without omp critical),
   the R instance of the critical-sum theorem. *)
From OM Require Import Base.Lists Geom.ParLoops Geom.ParLoopsProofs Geom.ParLoopsCrit Geom.ParLoopsGeom Geom.ParLoopsLoops Gen.GenParLoops.
From Coq Require Import Reals.
Local Open Scope Z_scope.

Section Compose.
  Variable F : Type.
  Variable E : Type.

  (* a conflict-free region in which no iteration raises returns, for EVERY complete schedule, the store of the
     sequential loop *)
  Lemma region_returns_sequential_result (r : region F E) sch st :
    conflict_free F E (r_its F E r) ->
    (forall i it, nth_error (r_its F E r) i = Some it -> athrows F E it = None) ->
    finished F E (run F E sch (init F E (r_its F E r) st)) ->
    exists st', region_outcome F E r sch st = Returned F E st' /\ store_eq F st' (run_seq F E (r_its F E r) st).
  Proof.
    intros CF NT Fin.
    pose proof (rethrow_iff_some_iteration_threw F E (r_its F E r) sch st Fin) as [H _].
    unfold region_outcome.
    destruct (c_ptr F E (run F E sch (init F E (r_its F E r) st))) as [e|] eqn:Ep.
    - destruct H as (i & it & Hi & Ht); [congruence|]. rewrite (NT i it Hi) in Ht; congruence.
    - eexists; split; [reflexivity|]. apply conflict_free_schedule_independent; auto.
  Qed.

  (* regions of one assembly function run one after the other (implicit barrier at the end of each parallel for) *)
  Fixpoint run_regions (rs : list (region F E)) (schs : list (list nat)) (st : store F) : outcome F E :=
    match rs, schs with
    | [], _ => Returned F E st
    | r :: rs', sch :: schs' =>
        match region_outcome F E r sch st with
        | Returned _ _ st' => run_regions rs' schs' st'
        | o => o
        end
    | _ :: _, [] => Terminated F E
    end.
End Compose.

(* ---- a concrete geometry satisfying the indexing hypothesis: two triangles sharing an edge ---- *)
Definition ex_t4 : tri := {| t_index := 4; t_vertex := fun k => if k =? 0 then 0 else if k =? 1 then 1 else 2 |}.
Definition ex_t5 : tri := {| t_index := 5; t_vertex := fun k => if k =? 0 then 1 else if k =? 1 then 3 else 2 |}.
Definition ex_mesh : mesh :=
  {| m_triangles := [ex_t4; ex_t5]; m_vertices := [0; 1; 2; 3];
     m_adj := fun v => if v =? 0 then [ex_t4] else if v =? 3 then [ex_t5] else if (v =? 1) || (v =? 2) then [ex_t4; ex_t5] else [] |}.

Lemma ex_mesh_well_indexed : well_indexed (fun v => v < 4) [ex_mesh].
Proof.
  constructor.
  - intros m [<-|[]]; simpl. repeat constructor; simpl; intuition; discriminate.
  - intros m [<-|[]]; simpl. repeat constructor; simpl; intuition; discriminate.
  - intros m v [<-|[]]; simpl. intuition; subst; lia.
  - intros m t k [<-|[]]; simpl. intros [<-|[<-|[]]]; simpl;
      destruct (k =? 0); try (split; lia); destruct (k =? 1); split; lia.
  - intros m t [<-|[]]; simpl. intros [<-|[<-|[]]]; simpl; lia.
  - intros m v t [<-|[]]; simpl.
    destruct (v =? 0); [intros [<-|[]]; simpl; lia|].
    destruct (v =? 3); [intros [<-|[]]; simpl; lia|].
    destruct ((v =? 1) || (v =? 2))%bool; [intros [<-|[<-|[]]]; simpl; lia|intros []].
Qed.

(* ---- counterfactual: the shared-vertex accumulation of operatorDipolePotDer WITHOUT omp critical ----
   numbers = Z, addition = Z.add: a lost update under one interleaving of the two triangles of ex_mesh. *)
Definition potder_unprotected (ts : list tri) : list (list (action Z unit)) :=
  map (fun t => map (@Act Z unit) (flat_map (fun j => accum Z Z.add 0 [] (0%nat, vidx (t_vertex t j)) (fun _ => 1)) [0; 1; 2])) ts.

Lemma potder_unprotected_not_DRF : ~ DRF Z unit (potder_unprotected [ex_t4; ex_t5]).
Proof.
  intros H.
  (* iteration 0 writes vertex 1 (its j=1), iteration 1 reads vertex 1 (its j=0) *)
  destruct (H 0%nat 1%nat _ _ (Write (0%nat, 1) (fun env => Z.add (hd 0 env) 1), false) (Read (0%nat, 1), false)
              ltac:(discriminate) eq_refl eq_refl) as [X _].
  - simpl. right; right; right; left. reflexivity.
  - simpl. left. reflexivity.
  - split; simpl; auto.
  - discriminate.
Qed.

(* triangle 0 finishes vertex 0 and reads vertex 1; triangle 1 reads vertex 1; both then write it: one +1 is lost *)
Definition interleaved_schedule : list nat := [0;0; 0; 1; 0; 1; 0;0; 1;1;1;1]%nat.

Lemma potder_unprotected_schedule_dependent :
  exists sch s,
    finished Z unit (run Z unit sch (init Z unit (potder_unprotected [ex_t4; ex_t5]) (fun _ => 0))) /\
    c_store Z unit (run Z unit sch (init Z unit (potder_unprotected [ex_t4; ex_t5]) (fun _ => 0))) s
      <> run_seq Z unit (potder_unprotected [ex_t4; ex_t5]) (fun _ => 0) s.
Proof.
  exists interleaved_schedule, (0%nat, 1). split.
  - intros th Hth. vm_compute in Hth. intuition; subst; reflexivity.
  - vm_compute. discriminate.
Qed.

(* ---- the critical-sum theorem instantiated on the reals ---- *)
Lemma critical_sum_schedule_independent_R (E : Type) (cs : list (list (slot * R))) sch st :
  finished R E (run R E sch (init R E (crit_its R E Rplus R0 cs) st)) ->
  store_eq R (c_store R E (run R E sch (init R E (crit_its R E Rplus R0 cs) st))) (run_seq R E (crit_its R E Rplus R0 cs) st).
Proof.
  apply critical_sum_schedule_independent.
  - intros; apply Rplus_comm.
  - intros; apply Rplus_assoc.
Qed.

(* doubles are not associative: already three machine-representable numbers refute the hypothesis the R theorem uses;
   shown on a toy "float" = integers saturating at 2 (an addition that is commutative but not associative),
   where the critical loop's result depends on the order of the iterations. *)
Definition sat_add (a b : Z) : Z := Z.max (-2) (Z.min 2 (a + b)).
Lemma critical_sum_order_matters_without_associativity :
  exists (cs : list (list (slot * Z))) s1 s2 slot,
    finished Z unit (run Z unit s1 (init Z unit (crit_its Z unit sat_add 0 cs) (fun _ => 0))) /\
    finished Z unit (run Z unit s2 (init Z unit (crit_its Z unit sat_add 0 cs) (fun _ => 0))) /\
    c_store Z unit (run Z unit s1 (init Z unit (crit_its Z unit sat_add 0 cs) (fun _ => 0))) slot <>
    c_store Z unit (run Z unit s2 (init Z unit (crit_its Z unit sat_add 0 cs) (fun _ => 0))) slot.
Proof.
  exists [[((0%nat, 0), 2)]; [((0%nat, 0), 2)]; [((0%nat, 0), -2)]], [0; 1; 2]%nat, [0; 2; 1]%nat, (0%nat, 0).
  split; [|split].
  - intros th Hth. vm_compute in Hth. intuition; subst; reflexivity.
  - intros th Hth. vm_compute in Hth. intuition; subst; reflexivity.
  - vm_compute. discriminate.
Qed.
