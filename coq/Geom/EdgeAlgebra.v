(* Scalar algebra behind the edge integral (no analysis library here). *)
From Coq Require Import Reals Lra Lia.
Local Open Scope R_scope.

Section Scalar.
  Variables A B C : R.
  Hypothesis HD : 0 < A * C - B * B.
  Hypothesis HA : 0 <= A.

  Lemma C_pos : 0 < C. Proof. nra. Qed.
  Lemma A_pos : 0 < A. Proof. pose proof C_pos. nra. Qed.

  Definition q (t : R) : R := A + 2 * B * t + C * t * t.
  Lemma Cq t : C * q t = (C * t + B) * (C * t + B) + (A * C - B * B). Proof. unfold q; ring. Qed.
  Lemma q_pos t : 0 < q t.
  Proof.
    pose proof C_pos. pose proof (Cq t). pose proof (Rle_0_sqr (C * t + B)) as Hs; unfold Rsqr in Hs.
    assert (0 < C * q t) by lra.
    apply Rmult_lt_reg_l with C; [lra | rewrite Rmult_0_r; lra].
  Qed.

  Definition s : R := sqrt C.
  Lemma s_pos : 0 < s. Proof. apply sqrt_lt_R0, C_pos. Qed.
  Lemma s_sq : s * s = C. Proof. apply sqrt_sqrt. pose proof C_pos; lra. Qed.
  Lemma rq_pos t : 0 < sqrt (q t). Proof. apply sqrt_lt_R0, q_pos. Qed.
  Lemma rq_sq t : sqrt (q t) * sqrt (q t) = q t. Proof. apply sqrt_sqrt. pose proof (q_pos t); lra. Qed.

  Lemma s_rq_gt t : Rabs (C * t + B) < s * sqrt (q t).
  Proof.
    pose proof s_pos. pose proof (rq_pos t). pose proof s_sq. pose proof (rq_sq t). pose proof (Cq t).
    assert (H4 : (s * sqrt (q t)) * (s * sqrt (q t)) = C * q t) by nra.
    assert (H5 : 0 < s * sqrt (q t)) by nra.
    unfold Rabs. destruct (Rcase_abs (C * t + B)); nra.
  Qed.

  Definition arg (t : R) : R := (C * t + B) / s + sqrt (q t).
  Lemma s_arg t : s * arg t = (C * t + B) + s * sqrt (q t).
  Proof. unfold arg. pose proof s_pos. field. lra. Qed.
  Lemma arg_pos t : 0 < arg t.
  Proof.
    pose proof s_pos. pose proof (s_rq_gt t) as H1. pose proof (s_arg t).
    assert (0 < s * arg t). { unfold Rabs in H1. destruct (Rcase_abs (C * t + B)); lra. }
    apply Rmult_lt_reg_l with s; [lra | rewrite Rmult_0_r; lra].
  Qed.

  (* the closed form: arg 1 / arg 0 is the quotient of integral_simplified_green *)
  Lemma den_pos : 0 < sqrt (q 1) * s - (B + C).
  Proof.
    pose proof (s_rq_gt 1) as H. unfold Rabs in H. destruct (Rcase_abs (C * 1 + B)); lra.
  Qed.
  Lemma num_pos : 0 < sqrt A * s - B.
  Proof.
    pose proof (s_rq_gt 0) as H. assert (E : q 0 = A) by (unfold q; ring). rewrite E in H.
    unfold Rabs in H. destruct (Rcase_abs (C * 0 + B)); lra.
  Qed.
  Lemma arg_quotient : arg 1 / arg 0 = (sqrt A * s - B) / (sqrt (q 1) * s - (B + C)).
  Proof.
    pose proof s_pos as Hs. pose proof (arg_pos 0) as H0. pose proof (arg_pos 1) as H1.
    pose proof den_pos as Hd. pose proof num_pos as Hn.
    assert (E : q 0 = A) by (unfold q; ring).
    pose proof (rq_sq 0) as R0. rewrite E in R0. pose proof (rq_sq 1) as R1. pose proof s_sq as SS.
    assert (Q1 : q 1 = A + 2 * B + C) by (unfold q; ring).
    apply Rmult_eq_reg_r with (arg 0 * (sqrt (q 1) * s - (B + C))).
    2: { apply Rmult_integral_contrapositive_currified; lra. }
    replace (arg 1 / arg 0 * (arg 0 * (sqrt (q 1) * s - (B + C)))) with (arg 1 * (sqrt (q 1) * s - (B + C))) by (field; lra).
    replace ((sqrt A * s - B) / (sqrt (q 1) * s - (B + C)) * (arg 0 * (sqrt (q 1) * s - (B + C)))) with ((sqrt A * s - B) * arg 0) by (field; lra).
    unfold arg. rewrite E.
    apply Rmult_eq_reg_l with s; [|lra].
    replace (s * (((C * 1 + B) / s + sqrt (q 1)) * (sqrt (q 1) * s - (B + C))))
      with ((C + B + s * sqrt (q 1)) * (sqrt (q 1) * s - (B + C))) by (field; lra).
    replace (s * ((sqrt A * s - B) * ((C * 0 + B) / s + sqrt A))) with ((sqrt A * s - B) * (B + s * sqrt A)) by (field; lra).
    nra.
  Qed.
End Scalar.
