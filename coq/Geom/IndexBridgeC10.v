(* wf_indexed (the hypothesis of C10's head-matrix theorems, coq/Geom/AssemblyProofs.v) discharged from C11's model
   of Geometry::finalize: the indexed geometry C10 works on is read off the finalized model, and its well-formedness
   follows from generate_indices_bijection + the characterisation of excluded vertices.  What remains as hypotheses
   is about the mesh files only (distinct vertex references, non-degenerate triangles over them). *)
From OM Require Import Base.Lists Base.Ops Geom.MeshTopo Geom.GeomModel Geom.GeomProofs Geom.FinalizeProofs Geom.IndexBridge.
From OM Require Geom.Assembly Geom.AssemblyProofs.
From Coq Require Import Reals.
Local Open Scope Z_scope.

Definition zidxN (z : Z) : N := if z <? 0 then Assembly.NOIDX else Z.to_N z.

Definition to_tri (k : nat) (t : nat * nat * nat) (i : Z) : Assembly.tri :=
  let '(a, b, c) := t in Assembly.mkTri (N.of_nat k) (N.of_nat a) (N.of_nat b) (N.of_nat c) (zidxN i).

Fixpoint to_tris (k : nat) (ts : list (nat * nat * nat)) (is_ : list Z) : list Assembly.tri :=
  match ts, is_ with
  | t :: r, i :: ri => to_tri k t i :: to_tris (S k) r ri
  | _, _ => []
  end.

Definition to_mesh (m : lmesh) (f : flags) (tidx : list Z) : Assembly.mesh :=
  Assembly.mkMesh (map N.of_nat (lm_verts m)) (to_tris 0 (lm_tris m) tidx) (f_out f) (f_cb f) (f_iso f).

Fixpoint to_meshes (ms : list lmesh) (fl : list flags) (ts : list (list Z)) : list Assembly.mesh :=
  match ms with
  | [] => []
  | m :: r => to_mesh m (hd flags0 fl) (hd [] ts) :: to_meshes r (tl fl) (tl ts)
  end.

Definition to_igeom (g : geom) (fi : fin) (sig sinv ind : nat -> nat -> R) : Assembly.igeom R :=
  Assembly.mkGeom (map zidxN (ix_v (fi_idx fi)))
    (to_meshes (g_meshes g) (mk_flags (fi_marks fi)) (ix_t (fi_idx fi)))
    (map (fun p => let '(i, j, o) := p in Assembly.mkPair i j o (sig i j) (sinv i j) (ind i j)) (fi_pairs fi))
    (mk_parts (fi_marks fi)) (Z.to_N (ix_n (fi_idx fi))) (Z.to_N (ix_nb (fi_idx fi))).

Lemma to_meshes_nth : forall ms fl ts k, (k < length ms)%nat ->
  nth k (to_meshes ms fl ts) Assembly.empty_mesh = to_mesh (nth k ms (mkLMesh [] [])) (nth k fl flags0) (nth k ts []).
Proof.
  induction ms as [|m r IH]; intros fl ts k Hk; simpl in *; [lia|]. destruct k as [|k].
  - destruct fl, ts; reflexivity.
  - rewrite IH by lia. destruct fl, ts; simpl; auto; destruct k; auto.
Qed.

Lemma to_meshes_length ms : forall fl ts, length (to_meshes ms fl ts) = length ms.
Proof. induction ms; intros; simpl; auto. Qed.

Lemma to_tris_In t : forall ts is_ k, In t (to_tris k ts is_) ->
  exists a b c i, In (a, b, c) ts /\ In i is_ /\ Assembly.tv0 t = N.of_nat a /\ Assembly.tv1 t = N.of_nat b /\ Assembly.tv2 t = N.of_nat c /\ Assembly.tix t = zidxN i.
Proof.
  induction ts as [|[[a b] c] r IH]; intros [|i ri] k H; simpl in H; try contradiction.
  destruct H as [<-|H].
  - exists a, b, c, i. simpl. repeat split; auto.
  - destruct (IH _ _ H) as (a' & b' & c' & i' & H1 & H2 & H3). exists a', b', c', i'. simpl. repeat split; tauto.
Qed.

(* well-formed mesh files: what mesh_wf needs, stated on the loaded meshes *)
Definition meshes_well_formed (g : geom) : Prop :=
  forall m, In m (g_meshes g) ->
    NoDup (lm_verts m) /\ (forall v, In v (lm_verts m) -> (v < g_nv g)%nat)
    /\ forall a b c, In (a, b, c) (lm_tris m) -> a <> b /\ b <> c /\ a <> c /\ In a (lm_verts m) /\ In b (lm_verts m) /\ In c (lm_verts m).

Section WF.
Variable g : geom.
Variables (hasc : bool) (zero : list bool) (snz : nat -> nat -> bool) (fi : fin).
Hypothesis Hfin : finalize g hasc zero snz false = (StOk, Some fi).
Hypothesis Hwf : meshes_well_formed g.
(* an isolated mesh is never flagged outermost (FinalizeProofs.finalize_quiet; true since the repair of
   Interface::set_to_outermost, 0970b63) *)
Lemma Hout : forall k, (k < length (g_meshes g))%nat ->
  f_out (nth k (mk_flags (fi_marks fi)) flags0) = true -> f_iso (nth k (mk_flags (fi_marks fi)) flags0) = false.
Proof.
  intros k _ Ho. destruct (f_iso (nth k (mk_flags (fi_marks fi)) flags0)) eqn:E; auto.
  rewrite (finalize_quiet _ _ _ _ _ _ Hfin k E) in Ho. discriminate.
Qed.
Variables sig sinv ind : nat -> nat -> R.

Notation fl := (mk_flags (fi_marks fi)).
Notation G := (to_igeom g fi sig sinv ind).
Definition VV : list N := map N.of_nat (valid_vertices g fi).

Lemma VV_In a : In a VV <-> exists v, a = N.of_nat v /\ (v < g_nv g)%nat /\ valid fi v = true.
Proof.
  unfold VV, valid_vertices. rewrite in_map_iff. split.
  - intros [v [<- H]]. apply filter_In in H. destruct H as [H1 H2]. apply in_seq in H1. exists v. repeat split; auto; lia.
  - intros [v [-> [H1 H2]]]. exists v. split; auto. apply filter_In. split; auto. apply in_seq. lia.
Qed.

Lemma len_ixv : length (ix_v (fi_idx fi)) = g_nv g.
Proof. destruct (ix_spec g hasc zero snz fi Hfin) as (_ & _ & _ & _ & _ & L & _). exact L. Qed.

Lemma vix_valid v : (v < g_nv g)%nat -> valid fi v = true -> Assembly.vix G (N.of_nat v) = Z.to_N (vindex fi v).
Proof.
  intros Hv Hval. unfold Assembly.vix. simpl Assembly.gvix. rewrite Nnat.Nat2N.id.
  change Assembly.NOIDX with (zidxN (-1)). rewrite map_nth.
  rewrite (nth_indep _ (-1) 0) by (rewrite len_ixv; auto). fold (vindex fi v).
  pose proof (vindex_range g hasc zero snz fi Hfin v Hv Hval). unfold zidxN.
  destruct (Z.ltb_spec (vindex fi v) 0); [lia|reflexivity].
Qed.

Lemma pairs_eq : fi_pairs fi = make_mesh_pairs g fl snz.
Proof.
  unfold finalize in Hfin. destruct (Nat.eqb (length (g_doms g)) 0).
  - simpl in Hfin. inversion Hfin; subst; reflexivity.
  - destruct (outermost_domain g); [|discriminate]. simpl in Hfin. inversion Hfin; subst; reflexivity.
Qed.

Lemma pair_meshes p : In p (Assembly.gpairs G) ->
  (Assembly.pm1 p < length (g_meshes g))%nat /\ (Assembly.pm2 p < length (g_meshes g))%nat
  /\ f_iso (nth (Assembly.pm1 p) fl flags0) = false /\ f_iso (nth (Assembly.pm2 p) fl flags0) = false.
Proof.
  simpl. rewrite in_map_iff. intros [[[i j] o] [<- Hin]]. simpl. rewrite pairs_eq in Hin.
  apply pairs_In in Hin. destruct Hin as (Hr & Hc & _). unfold communicating in Hc.
  apply andb_true_iff in Hc. destruct Hc as [Hc _]. apply andb_true_iff in Hc. destruct Hc as [Hc _].
  apply andb_true_iff in Hc. destruct Hc as [H1 H2]. apply negb_true_iff in H1. apply negb_true_iff in H2.
  repeat split; auto; lia.
Qed.

Lemma gmesh_eq k : (k < length (g_meshes g))%nat ->
  Assembly.gmesh G k = to_mesh (gmesh g k) (nth k fl flags0) (nth k (ix_t (fi_idx fi)) []).
Proof. intros Hk. unfold Assembly.gmesh. simpl Assembly.gmeshes. rewrite to_meshes_nth by auto. reflexivity. Qed.

Lemma mesh_wf_k k : (k < length (g_meshes g))%nat -> AssemblyProofs.mesh_wf (Assembly.gmesh G k).
Proof.
  intros Hk. rewrite gmesh_eq by auto. destruct (Hwf (gmesh g k) (nth_In _ _ Hk)) as (ND & Hb & Ht).
  split; simpl.
  - apply FinFun.Injective_map_NoDup; auto. intros a b. apply Nnat.Nat2N.inj.
  - intros t Hin. destruct (to_tris_In _ _ _ _ Hin) as (a & b & c & i & H1 & _ & E0 & E1 & E2 & _).
    destruct (Ht a b c H1) as (Dab & Dbc & Dac & Ia & Ib & Ic).
    unfold AssemblyProofs.distinct3. rewrite E0, E1, E2.
    repeat split; try (intros C; apply Nnat.Nat2N.inj in C; congruence); apply in_map; auto.
Qed.

Lemma mesh_verts_valid k : (k < length (g_meshes g))%nat -> f_iso (nth k fl flags0) = false ->
  incl (Assembly.mverts (Assembly.gmesh G k)) VV.
Proof.
  intros Hk Hiso a Ha. rewrite gmesh_eq in Ha by auto. simpl in Ha. apply in_map_iff in Ha. destruct Ha as [v [<- Hv]].
  apply VV_In. exists v. split; auto. split.
  - destruct (Hwf (gmesh g k) (nth_In _ _ Hk)) as (_ & Hb & _). auto.
  - eapply live_mesh_vertices_valid; eauto.
Qed.

Theorem finalize_wf_indexed : AssemblyProofs.wf_indexed G VV.
Proof.
  constructor.
  - unfold VV. apply FinFun.Injective_map_NoDup; [intros a b; apply Nnat.Nat2N.inj|].
    unfold valid_vertices. apply NoDup_filter, seq_NoDup.
  - intros a b Ha Hb E. apply VV_In in Ha. apply VV_In in Hb.
    destruct Ha as [v [-> [Hv Vv]]]. destruct Hb as [w [-> [Hw Vw]]].
    rewrite !vix_valid in E by auto. f_equal.
    pose proof (vindex_range g hasc zero snz fi Hfin v Hv Vv). pose proof (vindex_range g hasc zero snz fi Hfin w Hw Vw).
    apply (vindex_inj g hasc zero snz fi Hfin); auto. apply Z2N.inj in E; lia.
  - intros p Hp. destruct (pair_meshes p Hp) as (H1 & H2 & I1 & I2).
    split; [apply mesh_wf_k; auto|]. split; [apply mesh_wf_k; auto|]. split; apply mesh_verts_valid; auto.
  - intros p t Hp Ht. destruct (pair_meshes p Hp) as (H1 & H2 & I1 & I2).
    assert (exists k, (k < length (g_meshes g))%nat /\ f_iso (nth k fl flags0) = false /\ In t (Assembly.mtris (Assembly.gmesh G k))) as [k (Hk & Ik & Hin)].
    { destruct Ht as [Ht|Ht]; [exists (Assembly.pm1 p)|exists (Assembly.pm2 p)]; auto. }
    rewrite gmesh_eq in Hin by auto. simpl in Hin.
    destruct (to_tris_In _ _ _ _ Hin) as (a & b & c & x & _ & Hx & _ & _ & _ & Etx).
    pose proof (live_triangle_range g hasc zero snz fi Hfin k x Hk Ik Hx) as Rx.
    unfold AssemblyProofs.Cidx. intros C. apply in_map_iff in C. destruct C as [a0 [E Ha0]].
    apply VV_In in Ha0. destruct Ha0 as [v [-> [Hv Vv]]]. rewrite vix_valid in E by auto.
    pose proof (vindex_range g hasc zero snz fi Hfin v Hv Vv) as Rv.
    rewrite Etx in E. unfold zidxN in E. destruct (Z.ltb_spec x 0); [lia|]. apply Z2N.inj in E; lia.
  - intros part k _ _ Ho.
    destruct (Nat.lt_ge_cases k (length (g_meshes g))) as [Hk|Hk].
    + apply mesh_verts_valid; auto. apply Hout; auto. rewrite gmesh_eq in Ho by auto. exact Ho.
    + unfold Assembly.gmesh in Ho. rewrite nth_overflow in Ho by (simpl; rewrite to_meshes_length; auto). discriminate.
Qed.
End WF.
