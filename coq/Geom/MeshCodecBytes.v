(* C15 -- round trip of the .mesh byte format (MeshIOs/mesh.h) over the byte model of MeshCodec.v *)
From OM Require Import Base.Lists Geom.MeshCodec Geom.MeshCodecProofs.
From Coq Require Import NArith ZifyBool ZifyNat ZifyN.
Local Open Scope nat_scope.

Ltac Zify.zify_post_hook ::= Z.div_mod_to_equations.

Lemma u32_value (n : N) : (n < 4294967296)%N ->
  (n mod 256 + 256 * ((n / 256) mod 256) + 65536 * ((n / 65536) mod 256) + 16777216 * ((n / 16777216) mod 256) = n)%N.
Proof. intros H. lia. Qed.

Section Bytes.
Variable C : Type.
Variable ceq : C -> C -> bool.
Variable rnd : C -> C.
Variable c0 : C.
Notation mesh := (mesh C).
Notation bitem := (bitem C).
Notation V3 := (V3 C).
Notation vrnd := (vrnd C rnd).

Lemma rd_u32_u32 (n : N) (r : list bitem) : (n < 4294967296)%N -> rd_u32 C (u32 C n ++ r) = Some (n, r).
Proof. intros H. unfold u32, rd_u32. cbn [app]. rewrite u32_value; auto. Qed.

Lemma rd_u32n_u32n (n : nat) (r : list bitem) : fits32 n = true -> rd_u32n C (u32n C n ++ r) = Some (n, r).
Proof.
  intros H. unfold fits32 in H. apply N.ltb_lt in H. unfold rd_u32n, u32n.
  rewrite N.mod_small by auto. rewrite rd_u32_u32 by auto. cbn [obind]. rewrite Nat2N.id; auto.
Qed.

Lemma rd_u32n_const (n : N) (r : list bitem) : (n < 4294967296)%N -> rd_u32n C (u32 C n ++ r) = Some (N.to_nat n, r).
Proof. intros H. unfold rd_u32n. rewrite rd_u32_u32 by auto. reflexivity. Qed.

Lemma rd_bytes_bchars (l : list N) (r : list bitem) : rd_bytes C (length l) (bchars C l ++ r) = Some r.
Proof. induction l as [|a l IH]; simpl; auto. Qed.

Definition vfloats (v : V3) : list bitem := let '(x, y, z) := vrnd v in [BF x; BF y; BF z].
Definition vflat (v : V3) : list C := let '(x, y, z) := vrnd v in [x; y; z].

Lemma three_S n : 3 * S n = S (S (S (3 * n))).
Proof. lia. Qed.

Lemma rd_floats_ok (vs : list V3) (r : list bitem) :
  rd_floats C (3 * length vs) (flat_map vfloats vs ++ r) = Some (flat_map vflat vs, r).
Proof.
  induction vs as [|[[x y] z] vs IH]; [reflexivity|].
  cbn [length flat_map]. rewrite three_S. unfold vfloats at 1, vflat at 1. cbn [MeshCodec.vrnd app rd_floats].
  rewrite IH. reflexivity.
Qed.

Lemma group3_vflat (vs : list V3) : group3 (flat_map vflat vs) = map vrnd vs.
Proof. induction vs as [|[[x y] z] vs IH]; [reflexivity|]. cbn [flat_map map]. unfold vflat at 1. cbn. rewrite IH; auto. Qed.

Lemma skip_floats_ok {A} (l : list A) (r : list bitem) :
  skip_floats C (3 * length l) (flat_map (fun _ => [BNF; BNF; BNF]) l ++ r) = Some r.
Proof. induction l as [|a l IH]; [reflexivity|]. cbn [length flat_map]. rewrite three_S. cbn [app skip_floats]. exact IH. Qed.

Definition tbytes (t : tri) : list bitem := let '(a, b, c) := t in u32n C a ++ u32n C b ++ u32n C c.
Definition tflat (t : tri) : list nat := let '(a, b, c) := t in [a; b; c].

Lemma rd_u32s_ok (n : nat) (ts : list tri) (r : list bitem) :
  fits32 n = true -> (forall t g, In t ts -> In g (tverts t) -> g < n) ->
  rd_u32s C (3 * length ts) (flat_map tbytes ts ++ r) = Some (flat_map tflat ts, r).
Proof.
  intros Hn. induction ts as [|[[a b] c] ts IH]; intros Hlt; [reflexivity|].
  assert (Ha : fits32 a = true) by (eapply fits32_lt; [apply (Hlt (a, b, c) a)|auto]; simpl; auto).
  assert (Hb : fits32 b = true) by (eapply fits32_lt; [apply (Hlt (a, b, c) b)|auto]; simpl; auto).
  assert (Hc : fits32 c = true) by (eapply fits32_lt; [apply (Hlt (a, b, c) c)|auto]; simpl; auto).
  cbn [length flat_map]. rewrite three_S. unfold tbytes at 1, tflat at 1.
  rewrite <- !app_assoc. cbn [rd_u32s].
  rewrite rd_u32n_u32n by auto. cbn [obind].
  rewrite rd_u32n_u32n by auto. cbn [obind].
  rewrite rd_u32n_u32n by auto. cbn [obind].
  rewrite IH; [reflexivity|]. intros t g Ht Hg. apply (Hlt t g); simpl; auto.
Qed.

Lemma group3_tflat (ts : list tri) : group3 (flat_map tflat ts) = ts.
Proof. induction ts as [|[[a b] c] ts IH]; [reflexivity|]. cbn. rewrite IH; auto. Qed.

Lemma fits32_third n : fits32 (3 * n) = true -> fits32 n = true.
Proof. unfold fits32. intros H. apply N.ltb_lt in H. apply N.ltb_lt. lia. Qed.

Local Arguments u32 : simpl never.
Local Arguments u32n : simpl never.
Local Arguments rd_u32n : simpl never.
Local Arguments fits32 : simpl never.
Local Arguments rd_floats : simpl never.
Local Arguments skip_floats : simpl never.
Local Arguments rd_u32s : simpl never.
Local Arguments build : simpl never.
Local Arguments Nat.mul : simpl never.

Lemma roundtrip_mesh (m : mesh) :
  wf_mesh C m -> fits32 (3 * nv m) = true -> fits32 (3 * nt m) = true ->
  pdistinct C ceq (map vrnd (coords C c0 m)) -> locally_consistent C m ->
  exists s, save_mesh C rnd c0 m = Ok s /\ load_mesh C ceq s = Ok (reloaded C rnd c0 m).
Proof.
  intros Hwf Hnv3 Hnt3 Hd Hc.
  pose proof (fits32_third _ Hnv3) as Hnv. pose proof (fits32_third _ Hnt3) as Hnt.
  unfold save_mesh. rewrite local_triangles_wf by auto.
  eexists; split; [reflexivity|]. unfold load_mesh, load_mesh_parse.
  set (LT := map (tri_map (locf (mv m))) (tr m)).
  change (flat_map (fun v : V3 => let '(x, y, z) := vrnd v in [BF x; BF y; BF z]) (coords C c0 m))
    with (flat_map vfloats (coords C c0 m)).
  change (flat_map (fun t : tri => let '(a, b, c) := t in u32n C a ++ u32n C b ++ u32n C c) LT)
    with (flat_map tbytes LT).
  rewrite (rd_bytes_bchars [98%N; 105%N; 110%N; 97%N; 114%N]). cbn [obind].
  rewrite (rd_bytes_bchars [68%N; 67%N; 66%N; 65%N]). cbn [obind].
  rewrite rd_u32n_const by reflexivity. cbn [obind N.to_nat Pos.to_nat Pos.iter_op Nat.add Nat.eqb negb].
  rewrite (rd_bytes_bchars [86%N; 79%N; 73%N; 68%N]). cbn [obind].
  rewrite rd_u32n_const by reflexivity. cbn [obind].
  rewrite rd_u32n_const by reflexivity. cbn [obind].
  unfold rd_bytes at 1. unfold u32 at 1. cbn [app obind].
  cbn [N.to_nat Pos.to_nat Pos.iter_op Nat.add Nat.eqb negb].
  rewrite rd_u32n_u32n by auto. cbn [obind]. rewrite Hnv3. cbn [negb].
  rewrite <- (coords_length C c0 m) at 1. rewrite rd_floats_ok. cbn [obind].
  rewrite rd_u32n_u32n by auto. cbn [obind].
  unfold nv at 1. rewrite skip_floats_ok. cbn [obind].
  unfold rd_bytes at 1. unfold u32 at 1. cbn [app obind].
  rewrite rd_u32n_u32n by auto. cbn [obind]. rewrite Hnt3. cbn [negb].
  rewrite <- (app_nil_r (flat_map tbytes LT)).
  rewrite <- (lt_length C m) at 1. fold LT.
  rewrite (rd_u32s_ok (nv m)); auto.
  2:{ intros t g Ht Hg. eapply local_lt; eauto. }
  cbn [obind]. rewrite group3_vflat, group3_tflat. apply rt_build; auto.
Qed.

End Bytes.
