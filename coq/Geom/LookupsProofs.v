From OM Require Import Base.Lists Geom.Lookups.
Local Open Scope Z_scope.

Lemma lookup_from_absent names q pos : ~ In q names -> lookup_from names q pos = Thrown.
Proof.
  revert pos; induction names as [|n t IH]; intros pos H; simpl; auto.
  destruct (Z.eqb_spec n q) as [->|Hn]; [exfalso; apply H; left; auto|]. apply IH. intro; apply H; right; auto.
Qed.
Lemma lookup_absent_throws names q : ~ In q names -> lookup names q = Thrown.
Proof. apply lookup_from_absent. Qed.

Lemma lookup_from_present names q pos : In q names ->
  exists k, lookup_from names q pos = Found (pos + k) /\ nth k names (-1) = q /\ (forall k', (k' < k)%nat -> nth k' names (-1) <> q).
Proof.
  revert pos; induction names as [|n t IH]; intros pos H; [destruct H|]. simpl.
  destruct (Z.eqb_spec n q) as [->|Hn].
  - exists 0%nat. rewrite Nat.add_0_r. repeat split; auto. intros; lia.
  - destruct H as [H|H]; [congruence|]. destruct (IH (S pos) H) as (k & A & B & C).
    exists (S k). replace (pos + S k)%nat with (S pos + k)%nat by lia. repeat split; auto.
    intros [|k'] Hk; simpl; auto. apply C; lia.
Qed.
(* a present name returns the FIRST object carrying it, never a fabricated one *)
Lemma lookup_present_first names q : In q names ->
  exists k, lookup names q = Found k /\ nth k names (-1) = q /\ (forall k', (k' < k)%nat -> nth k' names (-1) <> q).
Proof. intros H. destruct (lookup_from_present names q 0 H) as (k & A & B & C). exists k. auto. Qed.
Lemma lookup_never_silent names q : lookup names q <> NotReported.
Proof. unfold lookup. generalize 0%nat. induction names as [|n t IH]; intros pos; simpl; [discriminate|]. destruct (n =? q); [discriminate|apply IH]. Qed.

Lemma unknown_suffix_throws table dot s : (forall e, In e table -> fst e <> s) -> format_from_suffix table dot s = Thrown.
Proof.
  intros H. unfold format_from_suffix. destruct dot; auto.
  destruct (find (fun e => fst e =? s) table) eqn:E; auto. apply find_some in E. destruct E as [I Q].
  apply Z.eqb_eq in Q. exfalso. apply (H p); auto.
Qed.
Lemma no_suffix_throws table s : format_from_suffix table false s = Thrown.
Proof. reflexivity. Qed.
Lemma open_failure_throws a b c : load_outcome false a b c = Thrown /\ save_outcome false = Thrown.
Proof. split; reflexivity. Qed.
Lemma unreadable_content_throws a : load_outcome true true false a = Thrown /\ load_outcome true false a false = Thrown.
Proof. split; reflexivity. Qed.

(* whatever was loaded and looked up before, a lookup after load(n) is the lookup in n *)
Lemma lookup_after_reload st ops n q : last (grun st (ops ++ [GLoad n; GLookup q])) Thrown = lookup n q.
Proof.
  revert st. induction ops as [|o t IH]; intros st; simpl; auto.
  destruct o as [m|p]; simpl; [apply IH|].
  specialize (IH st). destruct (grun st (t ++ [GLoad n; GLookup q])) eqn:E; [|exact IH].
  exfalso. clear - E. revert st E. induction t as [|o t IHt]; intros st E; simpl in E; [discriminate|].
  destruct o; [eapply IHt; eauto|discriminate].
Qed.
Lemma cached_lookup_refuted : exists ops, last (grun_cached [] [] ops) Thrown <> last (grun [] ops) Thrown /\ last (grun [] ops) Thrown = Thrown.
Proof. exists [GLoad [7; 8; 9]; GLookup 9; GLoad [5; 6]; GLookup 9]. vm_compute. split; [discriminate|reflexivity]. Qed.
