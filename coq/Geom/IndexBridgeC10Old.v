(* C10 -- wf_indexed for the OLD ordering of the unknowns (V_1,p_1,V_2,p_2,...): the indexed geometry read off a
   geometry that C11's model of Geometry::finalize accepts with OLD_ORDERING=true satisfies the hypothesis of the
   head-matrix theorems, when no vertex is shared between meshes (the code's own requirement for that ordering).
   Here EVERY mesh vertex carries an unknown (also those of isolated meshes), so VV = all mesh vertices. *)
From Coq Require Import Reals Lia ZArith Permutation.
From OM Require Import Base.Lists Base.Ops Geom.MeshTopo Geom.GeomModel Geom.GeomProofs Geom.FinalizeProofs Geom.OldOrdering Geom.IndexBridge Geom.IndexBridgeC10 Geom.DimensionBridgeC10.
From OM Require Geom.Assembly Geom.AssemblyProofs.
Local Open Scope Z_scope.

Lemma NoDup_map_inj {A B} (f : A -> B) (l : list A) : NoDup (map f l) -> forall x y, In x l -> In y l -> f x = f y -> x = y.
Proof.
  induction l as [|a l IH]; intros H x y Hx Hy E; simpl in *; [contradiction|].
  inversion H as [|? ? Ha Hl]; subst.
  destruct Hx as [<-|Hx], Hy as [<-|Hy]; auto.
  - exfalso. apply Ha. rewrite E. apply in_map; auto.
  - exfalso. apply Ha. rewrite <- E. apply in_map; auto.
Qed.

Lemma old_order_perm v : forall ms fl ts, length ts = length ms ->
  Permutation (old_order v ms fl ts) (map (fun x => nth x v 0) (flat_map lm_verts ms) ++ sel live fl ts).
Proof.
  induction ms as [|m r IH]; intros fl [|t lr] L; simpl in *; try discriminate; auto.
  rewrite map_app, <- !app_assoc. apply Permutation_app_head.
  specialize (IH (tl fl) lr ltac:(lia)).
  etransitivity; [apply Permutation_app_head; exact IH|].
  rewrite !app_assoc. apply Permutation_app_tail. apply Permutation_app_comm.
Qed.

Section WFOld.
Variable g : geom.
Variables (hasc : bool) (zero : list bool) (snz : nat -> nat -> bool) (fi : fin).
Hypothesis Hfin : finalize g hasc zero snz true = (StOk, Some fi).
Hypothesis Hwf : meshes_well_formed g.
Hypothesis ND : NoDup (flat_map lm_verts (g_meshes g)).
Variables sig sinv ind : nat -> nat -> R.
Notation fl := (mk_flags (fi_marks fi)).
Notation ix := (fi_idx fi).
Notation G := (to_igeom g fi sig sinv ind).
Notation allv := (flat_map lm_verts (g_meshes g)).
Definition VVold : list N := map N.of_nat allv.
Definition No : nat := old_total (g_meshes g) fl.

Lemma allv_bound x : In x allv -> (x < g_nv g)%nat.
Proof. intros H. apply in_flat_map in H. destruct H as [m [Hm Hx]]. destruct (Hwf m Hm) as (_ & Hb & _). auto. Qed.

Lemma old_spec_here :
  old_order (ix_v ix) (g_meshes g) fl (ix_t ix) = zseq 0 No /\ sel barf fl (ix_t ix) = zseq (Z.of_nat No) (ntris barf (g_meshes g) fl)
  /\ length (ix_v ix) = g_nv g /\ length (ix_t ix) = length (g_meshes g).
Proof.
  pose proof (old_ordering_spec g fl (mk_invalid (fi_marks fi)) ND allv_bound) as S. cbv zeta in S.
  rewrite <- (fin_idx_eq _ _ _ _ _ _ Hfin) in S. destruct S as (A & B & _ & L1 & L2 & _). auto.
Qed.

Lemma nodup_all : NoDup (map (fun x => nth x (ix_v ix) 0) allv ++ sel live fl (ix_t ix)).
Proof.
  destruct old_spec_here as (A & _ & _ & L2).
  eapply Permutation_NoDup; [apply old_order_perm; exact L2|]. rewrite A. apply zseq_NoDup.
Qed.
Lemma in_all_range z : In z (map (fun x => nth x (ix_v ix) 0) allv ++ sel live fl (ix_t ix)) -> 0 <= z < Z.of_nat No.
Proof.
  destruct old_spec_here as (A & _ & _ & L2). intros H.
  assert (In z (old_order (ix_v ix) (g_meshes g) fl (ix_t ix))) as H'.
  { eapply Permutation_in; [apply Permutation_sym, old_order_perm; exact L2|exact H]. }
  rewrite A in H'. apply zseq_In in H'. lia.
Qed.

Lemma vindex_old_range v : In v allv -> 0 <= nth v (ix_v ix) 0 < Z.of_nat No.
Proof. intros H. apply in_all_range. apply in_or_app. left. apply (in_map (fun x => nth x (ix_v ix) 0)); auto. Qed.

Lemma vix_old v : In v allv -> Assembly.vix G (N.of_nat v) = Z.to_N (nth v (ix_v ix) 0).
Proof.
  intros Hv. unfold Assembly.vix. simpl Assembly.gvix. rewrite Nnat.Nat2N.id.
  change Assembly.NOIDX with (zidxN (-1)). rewrite map_nth.
  destruct old_spec_here as (_ & _ & L1 & _).
  rewrite (nth_indep _ (-1) 0) by (rewrite L1; apply allv_bound; auto).
  pose proof (vindex_old_range v Hv). unfold zidxN. destruct (Z.ltb_spec (nth v (ix_v ix) 0) 0); [lia|reflexivity].
Qed.

Lemma VVold_In a : In a VVold <-> exists v, a = N.of_nat v /\ In v allv.
Proof.
  unfold VVold. rewrite in_map_iff. split; [intros [v [<- H]]; exists v; auto | intros [v [-> H]]; exists v; auto].
Qed.

Lemma pairs_eq_old : fi_pairs fi = make_mesh_pairs g fl snz.
Proof.
  revert Hfin. unfold finalize. destruct (Nat.eqb (length (g_doms g)) 0).
  - destruct (true && negb false && negb (Nat.eqb (length (g_meshes g)) 0))%bool; intros H; inversion H; subst; reflexivity.
  - destruct (outermost_domain g) as [k|]; [|discriminate].
    destruct (true && negb (check_nested g k) && negb (Nat.eqb (length (g_meshes g)) 0))%bool; intros H; inversion H; subst; reflexivity.
Qed.

Lemma pair_meshes_old p : In p (Assembly.gpairs G) ->
  (Assembly.pm1 p < length (g_meshes g))%nat /\ (Assembly.pm2 p < length (g_meshes g))%nat
  /\ f_iso (nth (Assembly.pm1 p) fl flags0) = false /\ f_iso (nth (Assembly.pm2 p) fl flags0) = false.
Proof.
  simpl. rewrite in_map_iff. intros [[[i j] o] [<- Hin]]. simpl. rewrite pairs_eq_old in Hin.
  apply pairs_In in Hin. destruct Hin as (Hr & Hc & _). unfold communicating in Hc.
  apply andb_true_iff in Hc. destruct Hc as [Hc _]. apply andb_true_iff in Hc. destruct Hc as [Hc _].
  apply andb_true_iff in Hc. destruct Hc as [H1 H2]. apply negb_true_iff in H1. apply negb_true_iff in H2.
  repeat split; auto; lia.
Qed.

Lemma mesh_verts_all k : (k < length (g_meshes g))%nat -> incl (Assembly.mverts (Assembly.gmesh G k)) VVold.
Proof.
  intros Hk a Ha. rewrite gmesh_eq in Ha by auto. simpl in Ha. apply in_map_iff in Ha. destruct Ha as [v [<- Hv]].
  apply VVold_In. exists v. split; auto. apply in_flat_map. exists (gmesh g k). split; auto. apply nth_In; auto.
Qed.

(* the index of a triangle of a mesh that is not isolated is never the index of a vertex *)
Lemma tri_index_not_vertex k x v : (k < length (g_meshes g))%nat -> f_iso (nth k fl flags0) = false ->
  In x (nth k (ix_t ix) []) -> In v allv -> x <> nth v (ix_v ix) 0.
Proof.
  intros Hk Hiso Hx Hv E. destruct old_spec_here as (_ & B & _ & L2).
  destruct (f_cb (nth k fl flags0)) eqn:Ecb.
  - assert (In x (sel barf fl (ix_t ix))) as H by (apply (sel_In barf _ _ k); [lia|unfold barf; rewrite Ecb, Hiso; reflexivity|exact Hx]).
    rewrite B in H. apply zseq_In in H. pose proof (vindex_old_range v Hv). lia.
  - assert (In x (sel live fl (ix_t ix))) as H by (apply (sel_In live _ _ k); [lia|unfold live; rewrite Ecb, Hiso; reflexivity|exact Hx]).
    pose proof nodup_all as NDa. apply NoDup_app_l in NDa. destruct NDa as (_ & _ & Dj).
    apply (Dj x); auto. rewrite E. apply (in_map (fun y => nth y (ix_v ix) 0)); auto.
Qed.

Theorem finalize_old_wf_indexed : AssemblyProofs.wf_indexed G VVold.
Proof.
  constructor.
  - unfold VVold. apply FinFun.Injective_map_NoDup; [intros a b; apply Nnat.Nat2N.inj|exact ND].
  - intros a b Ha Hb E. apply VVold_In in Ha. apply VVold_In in Hb.
    destruct Ha as [v [-> Hv]]. destruct Hb as [u [-> Hu]]. rewrite !vix_old in E by auto. f_equal.
    pose proof (vindex_old_range v Hv). pose proof (vindex_old_range u Hu).
    pose proof nodup_all as NDa. apply NoDup_app_l in NDa. destruct NDa as (NDv & _ & _).
    apply (NoDup_map_inj (fun x => nth x (ix_v ix) 0) allv NDv); auto. apply Z2N.inj in E; lia.
  - intros p Hp. destruct (pair_meshes_old p Hp) as (H1 & H2 & _ & _).
    split; [apply mesh_wf_k; auto|]. split; [apply mesh_wf_k; auto|]. split; apply mesh_verts_all; auto.
  - intros p t Hp Ht. destruct (pair_meshes_old p Hp) as (H1 & H2 & I1 & I2).
    assert (exists k, (k < length (g_meshes g))%nat /\ f_iso (nth k fl flags0) = false /\ In t (Assembly.mtris (Assembly.gmesh G k))) as [k (Hk & Ik & Hin)].
    { destruct Ht as [Ht|Ht]; [exists (Assembly.pm1 p)|exists (Assembly.pm2 p)]; auto. }
    rewrite gmesh_eq in Hin by auto. simpl in Hin.
    destruct (to_tris_In _ _ _ _ Hin) as (a & b & c & x & _ & Hx & _ & _ & _ & Etx).
    unfold AssemblyProofs.Cidx. intros C. apply in_map_iff in C. destruct C as [a0 [E Ha0]].
    apply VVold_In in Ha0. destruct Ha0 as [v [-> Hv]]. rewrite vix_old in E by auto.
    pose proof (vindex_old_range v Hv) as Rv.
    pose proof (tri_index_not_vertex k x v Hk Ik Hx Hv) as Ne.
    rewrite Etx in E. unfold zidxN in E. destruct (Z.ltb_spec x 0); [|apply Z2N.inj in E; lia].
    (* a negative triangle index would be the "no unknown" marker, never a vertex index below No < 2^32 ... *)
    assert (Z.to_N (nth v (ix_v ix) 0) = Assembly.NOIDX) as E' by auto.
    exfalso. clear -E' Rv Hk Ik Hx H Hfin Hwf ND.
    (* triangles of non isolated meshes have non negative indices *)
    destruct old_spec_here as (_ & B & _ & L2).
    destruct (f_cb (nth k fl flags0)) eqn:Ecb.
    + assert (In x (sel barf fl (ix_t ix))) as Hb by (apply (sel_In barf _ _ k); [lia|unfold barf; rewrite Ecb, Ik; reflexivity|exact Hx]).
      rewrite B in Hb. apply zseq_In in Hb. lia.
    + assert (In x (sel live fl (ix_t ix))) as Hl by (apply (sel_In live _ _ k); [lia|unfold live; rewrite Ecb, Ik; reflexivity|exact Hx]).
      assert (0 <= x < Z.of_nat No) by (apply in_all_range; apply in_or_app; auto). lia.
  - intros part k _ _ Ho.
    destruct (Nat.lt_ge_cases k (length (g_meshes g))) as [Hk|Hk].
    + apply mesh_verts_all; auto.
    + unfold Assembly.gmesh in Ho. rewrite nth_overflow in Ho by (simpl; rewrite to_meshes_length; auto). discriminate.
Qed.
End WFOld.
