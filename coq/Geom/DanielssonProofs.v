(* Lemmas about the Danielsson model over the reals (theorems of C09). *)
From Coq Require Import Reals Lra Lia List Bool Psatz.
From OM Require Import Base.Ops Geom.V3Q Geom.V3R Geom.Danielsson.
Local Open Scope R_scope.

Ltac rops :=
  change (fltb Rops) with Rltb in *; change (feqb Rops) with Reqb in *;
  change (f0 Rops) with 0 in *; change (f1 Rops) with 1 in *;
  change (fsub Rops) with Rminus in *; change (fdiv Rops) with Rdiv in *;
  change (fadd Rops) with Rplus in *; change (fmul Rops) with Rmult in *; change (fopp Rops) with Ropp in *.

Lemma dpc_unf {F} (o : Ops F) f p T al nb idx ins :
  dpc o (S f) p T al nb idx ins =
    if Nat.eqb nb 1 then
      DOk (vnorm2 o (vsub o p (get3 T (get3 idx 0)))) (set3 al (get3 idx 0) (f1 o)) ins
    else
      let A0 := get3 T (get3 idx 0) in
      let e1 := vsub o (get3 T (get3 idx 1)) A0 in
      let e2 := vsub o (get3 T (get3 idx 2)) A0 in
      let A0M := vsub o p A0 in
      let solved : option (option vec) :=
        if Nat.eqb nb 2 then Some (Some (solve2 o A0M e1 al idx))
        else if Nat.eqb nb 3 then Some (solve3 o A0M e1 e2 al idx)
        else None in
      match solved with
      | None => DErr 3
      | Some None => DErr 1
      | Some (Some al') =>
        match first_neg o al' idx 0 nb with
        | Some i =>
            dpc o f p T (set3 al' (get3 idx i) (f0 o)) (nb - 1) (swap3 idx i (nb - 1)) false
        | None =>
            let MH1 := vadd o (vneg o A0M) (vscale o (get3 al' (get3 idx 1)) e1) in
            let MH := if Nat.eqb nb 3 then vadd o MH1 (vscale o (get3 al' (get3 idx 2)) e2) else MH1 in
            DOk (vnorm2 o MH) al' ins
        end
      end.
Proof. reflexivity. Qed.

Ltac brk H :=
  repeat match type of H with
  | context [Rltb ?a ?b] => let E := fresh "E" in destruct (Rltb a b) eqn:E; cbv iota in H
  end.
Ltac step H := rewrite dpc_unf in H;
  cbv beta iota zeta delta [Nat.eqb Nat.sub swap3 get3 set3 fst snd solve2 solve3 first_neg] in H; rops.


(* runs the three levels of dpc on a hypothesis H : dist_point_triangle ... = DOk ..., leaving the ten
   leaves of the decision tree; r1 r2 are the plane coordinates, t the edge parameter *)
Ltac dpc_leaves H :=
  unfold dist_point_triangle in H; step H;
  destruct (Reqb _ _) eqn:Ed in H; [discriminate H|];
  match type of H with context [Rltb (1 - ?a - ?b) 0] => set (r1 := a) in *; set (r2 := b) in * end;
  brk H; try step H;
  try match type of H with context [Rltb (1 - ?a) 0] => set (t := a) in * end;
  brk H; try step H;
  inversion H; subst; clear H;
  repeat match goal with E : Rltb _ _ = true |- _ => apply Rltb_true in E | E : Rltb _ _ = false |- _ => apply Rltb_false in E end.

Lemma dpc_weights_nonneg_sum1 : forall p T al0 d2 al ins,
  dist_point_triangle Rops p T al0 = DOk d2 al ins ->
  0 <= get3 al 0 /\ 0 <= get3 al 1 /\ 0 <= get3 al 2 /\ get3 al 0 + get3 al 1 + get3 al 2 = 1.
Proof.
  intros p [[A B] C] [[x y] z] d2 al ins H.
  dpc_leaves H; cbv [get3 fst snd]; repeat split; lra.
Qed.

Ltac coords :=
  cbv [vnorm2 vsub vadd vscale vneg vdot recon vx vy vz mkv get3 fst snd]; rops.

(* the returned squared distance is the squared distance from p to the point the weights reconstruct *)
Lemma dpc_distance_of_recon : forall p T al0 d2 al ins,
  dist_point_triangle Rops p T al0 = DOk d2 al ins ->
  d2 = vnorm2 Rops (vsub Rops p (recon Rops T al)).
Proof.
  intros [[px py] pz] [[[[ax ay] az] [[bx by_] bz]] [[cx cy] cz]] [[x y] z] d2 al ins H.
  dpc_leaves H; coords; ring.
Qed.

(* the output does not depend on the content of the out-parameter at entry *)
Lemma dpc_ignores_initial_alphas : forall p T al0 al0',
  dist_point_triangle Rops p T al0 = dist_point_triangle Rops p T al0'.
Proof.
  intros p [[A B] C] [[x y] z] [[x' y'] z'].
  destruct (dist_point_triangle Rops p (A, B, C) (x, y, z)) eqn:H.
  - symmetry. revert H. unfold dist_point_triangle.
    rewrite !dpc_unf. cbv beta iota zeta delta [Nat.eqb Nat.sub swap3 get3 set3 fst snd solve2 solve3 first_neg]. rops.
    destruct (Reqb _ _); [discriminate|].
    repeat match goal with |- context [Rltb ?a ?b] => destruct (Rltb a b) end;
    rewrite ?dpc_unf; cbv beta iota zeta delta [Nat.eqb Nat.sub swap3 get3 set3 fst snd solve2 solve3 first_neg]; rops;
    repeat match goal with |- context [Rltb ?a ?b] => destruct (Rltb a b) end;
    rewrite ?dpc_unf; cbv beta iota zeta delta [Nat.eqb Nat.sub swap3 get3 set3 fst snd solve2 solve3 first_neg]; rops;
    intro H; exact H.
  - symmetry. revert H. unfold dist_point_triangle.
    rewrite !dpc_unf. cbv beta iota zeta delta [Nat.eqb Nat.sub swap3 get3 set3 fst snd solve2 solve3 first_neg]. rops.
    destruct (Reqb _ _); [intro H; exact H|].
    repeat match goal with |- context [Rltb ?a ?b] => destruct (Rltb a b) end;
    rewrite ?dpc_unf; cbv beta iota zeta delta [Nat.eqb Nat.sub swap3 get3 set3 fst snd solve2 solve3 first_neg]; rops;
    repeat match goal with |- context [Rltb ?a ?b] => destruct (Rltb a b) end;
    rewrite ?dpc_unf; cbv beta iota zeta delta [Nat.eqb Nat.sub swap3 get3 set3 fst snd solve2 solve3 first_neg]; rops;
    intro H; exact H.
Qed.

(* when no coordinate is clamped (inside = true) the answer is the orthogonal projection: nearest point *)
Lemma dpc_nearest_inside : forall p T al0 d2 al,
  dist_point_triangle Rops p T al0 = DOk d2 al true ->
  forall a b c, 0 <= a -> 0 <= b -> 0 <= c -> a + b + c = 1 ->
  d2 <= vnorm2 Rops (vsub Rops p (recon Rops T (a, b, c))).
Proof.
  intros [[px py] pz] [[[[ax ay] az] [[bx by_] bz]] [[cx cy] cz]] [[x y] z] d2 al H a b c Ha Hb Hc Hs.
  unfold dist_point_triangle in H; step H.
  destruct (Reqb _ _) eqn:Ed in H; [discriminate H|]. apply Reqb_false in Ed.
  match type of H with context [Rltb (1 - ?u - ?v) 0] => set (r1 := u) in *; set (r2 := v) in * end.
  brk H; try step H;
  try match type of H with context [Rltb (1 - ?u) 0] => set (t := u) in * end;
  brk H; try step H; try discriminate H.
  inversion H; subst d2 al; clear H.
  set (a00 := vdot Rops (vsub Rops (bx, by_, bz) (ax, ay, az)) (vsub Rops (bx, by_, bz) (ax, ay, az))) in *.
  set (a10 := vdot Rops (vsub Rops (bx, by_, bz) (ax, ay, az)) (vsub Rops (cx, cy, cz) (ax, ay, az))) in *.
  set (a11 := vdot Rops (vsub Rops (cx, cy, cz) (ax, ay, az)) (vsub Rops (cx, cy, cz) (ax, ay, az))) in *.
  set (b0 := vdot Rops (vsub Rops (px, py, pz) (ax, ay, az)) (vsub Rops (bx, by_, bz) (ax, ay, az))) in *.
  set (b1 := vdot Rops (vsub Rops (px, py, pz) (ax, ay, az)) (vsub Rops (cx, cy, cz) (ax, ay, az))) in *.
  assert (N1 : r1 * a00 + r2 * a10 = b0) by (unfold r1, r2; field; exact Ed).
  assert (N2 : r1 * a10 + r2 * a11 = b1) by (unfold r1, r2; field; exact Ed).
  clearbody r1 r2.
  unfold a00, a10, a11, b0, b1 in N1, N2. clear a00 a10 a11 b0 b1 Ed.
  revert N1 N2. coords. intros N1 N2.
  replace a with (1 - b - c) by lra.
  set (mx := px - ax - r1 * (bx - ax) - r2 * (cx - ax)).
  set (my := py - ay - r1 * (by_ - ay) - r2 * (cy - ay)).
  set (mz := pz - az - r1 * (bz - az) - r2 * (cz - az)).
  set (nx := (r1 - b) * (bx - ax) + (r2 - c) * (cx - ax)).
  set (ny := (r1 - b) * (by_ - ay) + (r2 - c) * (cy - ay)).
  set (nz := (r1 - b) * (bz - az) + (r2 - c) * (cz - az)).
  assert (M1 : mx * (bx - ax) + my * (by_ - ay) + mz * (bz - az) = 0) by (unfold mx, my, mz; lra).
  assert (M2 : mx * (cx - ax) + my * (cy - ay) + mz * (cz - az) = 0) by (unfold mx, my, mz; lra).
  match goal with |- ?L <= ?R =>
    replace L with (mx * mx + my * my + mz * mz) by (unfold mx, my, mz; ring);
    replace R with ((mx + nx) * (mx + nx) + (my + ny) * (my + ny) + (mz + nz) * (mz + nz)) by (unfold mx, my, mz, nx, ny, nz; ring)
  end.
  assert (C : mx * nx + my * ny + mz * nz = 0).
  { unfold nx, ny, nz.
    replace (mx * ((r1 - b) * (bx - ax) + (r2 - c) * (cx - ax)) + my * ((r1 - b) * (by_ - ay) + (r2 - c) * (cy - ay)) + mz * ((r1 - b) * (bz - az) + (r2 - c) * (cz - az)))
      with ((r1 - b) * (mx * (bx - ax) + my * (by_ - ay) + mz * (bz - az)) + (r2 - c) * (mx * (cx - ax) + my * (cy - ay) + mz * (cz - az))) by ring.
    rewrite M1, M2. ring. }
  nra.
Qed.
