(* C08 -- linearity of the source columns in the dipole moment, over the reals. *)
From Coq Require Import List ZArith Bool Arith Lia Reals Lra.
From OM Require Import Base.Ops Base.Lists Geom.AdaptInt Geom.AdaptIntProofs Geom.Sources Geom.SourcesProofs.
Import ListNotations.
Local Open Scope R_scope.

Notation Rpt := (pt (F:=R)).
Notation Rdipole := (dipole (F:=R)).
Notation Rtriangle := (triangle (F:=R)).

(* a*x + b*y on vectors and on points *)
Definition lc (a b : R) (r1 r2 : list R) : list R := map (fun xy => a * fst xy + b * snd xy) (combine r1 r2).
Definition plc (a b : R) (p q : Rpt) : Rpt := padd ROps (pscale ROps a p) (pscale ROps b q).
Definition lcM (a b : R) (M1 M2 : list (list R)) : list (list R) := map (fun cc => lc a b (fst cc) (snd cc)) (combine M1 M2).

Lemma lc_length a b r1 r2 : length r1 = length r2 -> length (lc a b r1 r2) = length r1.
Proof. intros H. unfold lc. rewrite map_length, combine_length, H, Nat.min_id; auto. Qed.

Lemma lc_nth a b r1 r2 k : length r1 = length r2 -> nth k (lc a b r1 r2) 0 = a * nth k r1 0 + b * nth k r2 0.
Proof.
  revert r2 k; induction r1 as [|x r1 IH]; intros [|y r2] k H; simpl in *; try discriminate.
  - destruct k; ring.
  - destruct k; simpl; auto. unfold lc in IH. apply IH. congruence.
Qed.

Ltac pt_ring := apply pt_eq; cbv [plc padd pscale psub px py pz vscale vadd vect3V fst snd fmul fadd fsub ROps]; ring.

Section Linearity.
Variable contains : domain (F:=R) -> Rpt -> bool.
Variable K : R.
Variables a b : R.

(* r = a*r1 + b*r2, all of the same length *)
Definition LC (r r1 r2 : list R) : Prop :=
  length r1 = length r /\ length r2 = length r /\ forall k, nth k r 0 = a * nth k r1 0 + b * nth k r2 0.

Lemma LC_eq r r1 r2 : LC r r1 r2 -> r = lc a b r1 r2.
Proof.
  intros [H1 [H2 H3]]. apply nth_ext with (d := 0) (d' := 0).
  - rewrite lc_length; congruence.
  - intros k _. rewrite lc_nth by congruence. auto.
Qed.

Lemma LC_add_at r r1 r2 i x x1 x2 : LC r r1 r2 -> x = a * x1 + b * x2 ->
  LC (add_at ROps r i x) (add_at ROps r1 i x1) (add_at ROps r2 i x2).
Proof.
  intros [H1 [H2 H3]] Hx. unfold add_at. repeat split; rewrite ?upd_length; auto.
  intros k. rewrite !nth_upd, H1, H2. destruct (_ && _); auto. simpl. rewrite H3, Hx. ring.
Qed.

Lemma fold_left_LC {A} (f f1 f2 : list R -> A -> list R) l :
  (forall x s s1 s2, LC s s1 s2 -> LC (f s x) (f1 s1 x) (f2 s2 x)) ->
  forall s s1 s2, LC s s1 s2 -> LC (fold_left f l s) (fold_left f1 l s1) (fold_left f2 l s2).
Proof. intros H. induction l as [|x l IH]; intros s s1 s2 Hs; simpl; auto. Qed.

(* three families of per-triangle integrals related by the same linear combination *)
Variables ID ID1 ID2 : Rdipole -> Rtriangle -> Rpt.
Variables IP IP1 IP2 : Rdipole -> Rtriangle -> R.
Variables d d1 d2 : Rdipole.
Hypothesis HD : forall t, ID d t = plc a b (ID1 d1 t) (ID2 d2 t).
Hypothesis HP : forall t, IP d t = a * IP1 d1 t + b * IP2 d2 t.

Lemma LC_boundary cond bd s s1 s2 : LC s s1 s2 ->
  LC (dsm_boundary ROps ID IP K d cond s bd) (dsm_boundary ROps ID1 IP1 K d1 cond s1 bd)
     (dsm_boundary ROps ID2 IP2 K d2 cond s2 bd).
Proof.
  unfold dsm_boundary. apply fold_left_LC. clear s s1 s2. intros om s s1 s2 Hs.
  unfold dsm_omesh.
  assert (G : forall c, LC (op_potder ROps ID d (om_mesh om) s c) (op_potder ROps ID1 d1 (om_mesh om) s1 c)
                          (op_potder ROps ID2 d2 (om_mesh om) s2 c)).
  { intros c. unfold op_potder. apply fold_left_LC; auto. intros t r r1 r2 Hr. unfold op_potder_tri.
    destruct (tr_vidx t) as [[i0 i1] i2]. rewrite HD.
    repeat apply LC_add_at; auto; unfold plc, padd, pscale, px, py, pz; simpl; ring. }
  destruct (negb _); auto.
  unfold op_pot. apply fold_left_LC; auto. intros t r r1 r2 Hr. unfold op_pot_tri.
  apply LC_add_at; auto. rewrite HP. simpl. ring.
Qed.

(* the column of d is the same combination of the columns of d1 and d2, whenever the three dipoles are given the
   same domain (same position, or a named domain) *)
Lemma dsm_col_lc geo named c1 c2 :
  lookup_domain contains geo named d1 = lookup_domain contains geo named d ->
  lookup_domain contains geo named d2 = lookup_domain contains geo named d ->
  dsm_col ROps contains ID1 IP1 K geo named d1 = Some c1 ->
  dsm_col ROps contains ID2 IP2 K geo named d2 = Some c2 ->
  dsm_col ROps contains ID IP K geo named d = Some (lc a b c1 c2).
Proof.
  unfold dsm_col, dsm_body. intros L1 L2. rewrite L1, L2.
  destruct (lookup_domain contains geo named d) as [[k dom]|]; [|discriminate].
  destruct (negb _).
  - destruct (dom_ok _ _); [|discriminate]. simpl. intros A B; inversion A; inversion B; subst. f_equal.
    apply LC_eq. apply fold_left_LC.
    + intros; apply LC_boundary; auto.
    + unfold LC. repeat split; auto. intros j. rewrite set_zero_zeros.
      unfold zeros. destruct (nth_in_or_default j (repeat (f0 ROps) (length (repeat (f0 ROps) (g_size geo)))) 0) as [H|H].
      * apply repeat_spec in H. rewrite H. simpl. ring.
      * rewrite H. ring.
  - simpl. intros A B; inversion A; inversion B; subst. f_equal. apply LC_eq.
    unfold LC. repeat split; auto. intros j.
    destruct (nth_in_or_default j (zeros ROps (length (zeros ROps (g_size geo)))) 0) as [H|H].
    + apply repeat_spec in H. rewrite H. simpl. ring.
    + rewrite H. ring.
Qed.
End Linearity.

(* ---- instantiation with the integrator applied to abstract kernels ---- *)
Section Kernels.
Variable contains : domain (F:=R) -> Rpt -> bool.
Variable K : R.
Variable rule : qrule (F:=R).
Variable tol : R.
Variable depth : nat.                                   (* Integrator::max_depth; 0 = fixed rule *)
Variable kder : Rdipole -> Rtriangle -> Rpt -> Rpt.     (* analyticDipPotDer(dipole,T).f *)
Variable kpot : Rdipole -> Rpt -> R.                    (* Dipole::potential *)

Definition IDer_of (n : nat) (d : Rdipole) (t : Rtriangle) : Rpt :=
  integrate ROps (vect3V ROps) rule tol (kder d t) n (tr_pts t).
Definition IPot_of (n : nat) (d : Rdipole) (t : Rtriangle) : R :=
  integrate ROps (scalarV ROps) rule tol (kpot d) n (tr_pts t).

Definition DSMk (n : nat) := DSM ROps contains (IDer_of n) (IPot_of n) K.
Definition dsm_colk (n : nat) := dsm_col ROps contains (IDer_of n) (IPot_of n) K.

(* the code's kernels are linear in the moment: assumed here, checked for the transcribed kernels elsewhere (C16) *)
Definition kernels_linear : Prop :=
  (forall p q1 q2 a b t r, kder (p, plc a b q1 q2) t r = plc a b (kder (p, q1) t r) (kder (p, q2) t r)) /\
  (forall p q1 q2 a b r, kpot (p, plc a b q1 q2) r = a * kpot (p, q1) r + b * kpot (p, q2) r).
Definition kernels_homogeneous : Prop :=
  (forall p q a t r, kder (p, pscale ROps a q) t r = pscale ROps a (kder (p, q) t r)) /\
  (forall p q a r, kpot (p, pscale ROps a q) r = a * kpot (p, q) r).

Lemma kernels_linear_homogeneous : kernels_linear -> kernels_homogeneous.
Proof.
  intros [H1 H2]. split.
  - intros p q a t r. specialize (H1 p q q a 0 t r).
    replace (plc a 0 q q) with (pscale ROps a q) in H1
      by (pt_ring).
    rewrite H1. pt_ring.
  - intros p q a r. specialize (H2 p q q a 0 r).
    replace (plc a 0 q q) with (pscale ROps a q) in H2
      by (pt_ring).
    rewrite H2. ring.
Qed.

(* fixed rule: the column is linear in the moment *)
Theorem dsm_linear_in_moment_fixed geo named p q1 q2 a b c1 c2 :
  kernels_linear ->
  dsm_colk 0 geo named (p, q1) = Some c1 -> dsm_colk 0 geo named (p, q2) = Some c2 ->
  dsm_colk 0 geo named (p, plc a b q1 q2) = Some (lc a b c1 c2).
Proof.
  intros [H1 H2]. unfold dsm_colk. apply dsm_col_lc; auto.
  - intros t. unfold IDer_of.
    rewrite (integrate_ext (vect3V ROps) rule tol _ (fun r => plc a b (kder (p, q1) t r) (kder (p, q2) t r)))
      by (intros; apply H1).
    exact (integrate_fixed_linear (vect3V ROps) vect3_laws rule tol a b (kder (p, q1) t) (kder (p, q2) t) (tr_pts t)).
  - intros t. unfold IPot_of.
    rewrite (integrate_ext (scalarV ROps) rule tol _ (fun r => a * kpot (p, q1) r + b * kpot (p, q2) r))
      by (intros; apply H2).
    exact (integrate_fixed_linear (scalarV ROps) scalar_laws rule tol a b (kpot (p, q1)) (kpot (p, q2)) (tr_pts t)).
Qed.

(* any depth (adaptive): the column is homogeneous in the moment *)
Theorem dsm_homogeneous_in_moment geo named p q a c :
  kernels_homogeneous ->
  dsm_colk depth geo named (p, q) = Some c ->
  dsm_colk depth geo named (p, pscale ROps a q) = Some (map (Rmult a) c).
Proof.
  intros [H1 H2] A. unfold dsm_colk in *.
  replace (map (Rmult a) c) with (lc a 0 c c).
  2:{ unfold lc. clear. induction c as [|x c IH]; simpl; auto. rewrite IH. f_equal. ring. }
  apply dsm_col_lc with (ID1 := IDer_of depth) (ID2 := IDer_of depth) (IP1 := IPot_of depth) (IP2 := IPot_of depth) (d1 := (p, q)) (d2 := (p, q)); auto.
  - intros t. unfold IDer_of.
    rewrite (integrate_ext (vect3V ROps) rule tol _ (fun r => pscale ROps a (kder (p, q) t r)))
      by (intros; apply H1).
    etransitivity; [exact (adaptive_homogeneous (vect3V ROps) vect3_laws rule tol a (kder (p, q) t) depth (tr_pts t))|].
    pt_ring.
  - intros t. unfold IPot_of.
    rewrite (integrate_ext (scalarV ROps) rule tol _ (fun r => a * kpot (p, q) r))
      by (intros; apply H2).
    etransitivity; [exact (adaptive_homogeneous (scalarV ROps) scalar_laws rule tol a (kpot (p, q)) depth (tr_pts t))|].
    simpl. ring.
Qed.
End Kernels.

(* ---- DipSource2MEGMat and DipSource2InternalPotMat: linear in the moment (no integration involved) ---- *)
Section Sensors.
Variable MagFactor : R.

Lemma meg_entry_linear pos ori p q1 q2 a b :
  meg_entry ROps MagFactor pos ori (p, plc a b q1 q2)
  = a * meg_entry ROps MagFactor pos ori (p, q1) + b * meg_entry ROps MagFactor pos ori (p, q2).
Proof.
  unfold meg_entry, pdot, pcross, pdiv, plc, padd, pscale, psub, dmom, dpos, px, py, pz; simpl.
  unfold Rdiv. ring.
Qed.

Lemma sparse_mul_col_linear n W c1 c2 a b : length c1 = length c2 ->
  sparse_mul_col ROps n W (lc a b c1 c2) = lc a b (sparse_mul_col ROps n W c1) (sparse_mul_col ROps n W c2).
Proof.
  intros Hl. unfold sparse_mul_col. apply (LC_eq a b).
  apply (fold_left_LC a b).
  - intros [[i j] w] s s1 s2 Hs. apply LC_add_at; auto. simpl. rewrite lc_nth by auto. ring.
  - unfold LC. repeat split; auto. intros k. unfold zeros.
    destruct (nth_in_or_default k (repeat (f0 ROps) n) 0) as [H|H].
    + apply repeat_spec in H. rewrite H. simpl. ring.
    + rewrite H. ring.
Qed.

Lemma meg_col_linear (l : list (Rpt * Rpt)) p q1 q2 a b :
  map (fun po => meg_entry ROps MagFactor (fst po) (snd po) (p, plc a b q1 q2)) l
  = lc a b (map (fun po => meg_entry ROps MagFactor (fst po) (snd po) (p, q1)) l)
           (map (fun po => meg_entry ROps MagFactor (fst po) (snd po) (p, q2)) l).
Proof.
  unfold lc. induction l as [|po l IH]; cbn [map combine fst snd]; auto.
  rewrite IH, meg_entry_linear; auto.
Qed.

Theorem ds2meg_linear S p q1 q2 a b :
  DS2MEG ROps MagFactor S [(p, plc a b q1 q2)]
  = lcM a b (DS2MEG ROps MagFactor S [(p, q1)]) (DS2MEG ROps MagFactor S [(p, q2)]).
Proof.
  unfold DS2MEG, ds2meg_mat, lcM. cbn [map combine fst snd]. f_equal.
  rewrite <- sparse_mul_col_linear by (rewrite !map_length; auto). f_equal.
  apply meg_col_linear.
Qed.

Variable contains : domain (F:=R) -> Rpt -> bool.
Variable K : R.
Variable kpot : Rdipole -> Rpt -> R.

Theorem ds2ip_linear geo named pts p q1 q2 a b M1 M2 :
  (forall p q1 q2 a b r, kpot (p, plc a b q1 q2) r = a * kpot (p, q1) r + b * kpot (p, q2) r) ->
  DS2IP ROps contains K kpot geo named pts [(p, q1)] = Some M1 ->
  DS2IP ROps contains K kpot geo named pts [(p, q2)] = Some M2 ->
  DS2IP ROps contains K kpot geo named pts [(p, plc a b q1 q2)] = Some (lcM a b M1 M2).
Proof.
  intros H. unfold DS2IP. destruct (ip_points _ _ _ _) as [kept|]; [|discriminate]. simpl.
  unfold ds2ip_col, lookup_domain; simpl.
  destruct (match named with Some n => domain_of_name geo n | None => domain_of_point contains geo p end) as [[k dom]|];
    [|discriminate].
  intros A B; inversion A; inversion B; subst. unfold lcM; simpl. f_equal. f_equal.
  unfold lc. induction kept as [|kp l IH]; cbn [map combine fst snd]; auto. rewrite IH. f_equal.
  destruct (Nat.eqb _ _); simpl; [rewrite H|]; ring.
  all: auto.
Qed.
End Sensors.
