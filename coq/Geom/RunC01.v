(* EXTRACT-F: c01 frun_c01 *)
(* Executable entry point of the C01 oracle (float wire).
     ints   : mode nlayers nterms ndip nelec nmeg
     floats : radii(nlayers) sigmas(nlayers) dipoles(6 each: position, moment) electrodes(3 each) squids(6 each: position, orientation)
   mode 1 -> [0; nelec; ndip; nmeg] | EEG potentials (nelec x ndip, row major; series, outer surface) then MEG readings (nmeg x ndip; Sarvas, tesla)
   mode 2 -> closed forms for cross-checks: homogeneous-sphere closed form (nelec x ndip, R = outer radius, sigma = inner sigma),
             then per squid x dipole: r.sarvas, r.biot_savart_primary                         (sphere centred at the origin in all modes) *)
From Coq Require Import ZArith List.
From OM Require Import Base.Ops Geom.SphereVec Geom.Sphere.
Import ListNotations.

Section Run.
  Context {F : Type} (o : Ops F).

  Fixpoint vecs3 (k : nat) (l : list F) : option (list (@v3 F) * list F) :=
    match k with
    | O => Some ([], l)
    | S k' => match l with
              | x :: y :: z :: l' => match vecs3 k' l' with Some (vs, r) => Some (V3 x y z :: vs, r) | None => None end
              | _ => None
              end
    end.
  Fixpoint pairs (l : list (@v3 F)) : list (@v3 F * @v3 F) :=
    match l with a :: b :: l' => (a, b) :: pairs l' | _ => [] end.
  Fixpoint takef (k : nat) (l : list F) : option (list F * list F) :=
    match k with
    | O => Some ([], l)
    | S k' => match l with x :: l' => match takef k' l' with Some (a, r) => Some (x :: a, r) | None => None end | [] => None end
    end.

  Definition run_mode (mode : Z) (nterms : nat) (radii sigmas : list F) (dips : list (@v3 F * @v3 F))
             (elec : list (@v3 F)) (meg : list (@v3 F * @v3 F)) : list F :=
    match mode with
    | 1%Z =>
        let coefs := sphere_coefs o radii sigmas nterms in
        let R := outer_radius o radii in let s1 := inner_sigma o sigmas in
        flat_map (fun e => map (fun d => sphere_pot_c o coefs R s1 (snd d) (fst d) e) dips) elec
        ++ flat_map (fun m => map (fun d => meg_sensor o (snd d) (fst d) (fst m) (snd m)) dips) meg
    | 2%Z =>
        let R := outer_radius o radii in let s1 := inner_sigma o sigmas in
        flat_map (fun e => map (fun d => homog_closed o R s1 (snd d) (fst d) e) dips) elec
        ++ flat_map (fun m => flat_map (fun d => [sv_dot o (fst m) (sarvas o (snd d) (fst d) (fst m));
                                                   sv_dot o (fst m) (biot_savart_primary o (snd d) (fst d) (fst m))]) dips) meg
    | 3%Z =>     (* closed-form pieces of the pipeline: primary-current MEG (nmeg x ndip), infinite-medium potential at the points (nelec x ndip) *)
        let s1 := inner_sigma o sigmas in
        flat_map (fun m => map (fun d => meg_primary_sensor o (snd d) (fst d) (fst m) (snd m)) dips) meg
        ++ flat_map (fun e => map (fun d => infinite_pot o s1 (snd d) (fst d) e) dips) elec
    | _ => []
    end.

  Definition frun_c01_ (zs : list Z) (fs : list F) : list Z * list F :=
    match zs with
    | [mode; nl; nt; nd; ne; nm] =>
        let nl := Z.to_nat nl in let nd := Z.to_nat nd in let ne := Z.to_nat ne in let nm := Z.to_nat nm in
        match takef nl fs with
        | Some (radii, fs1) =>
          match takef nl fs1 with
          | Some (sigmas, fs2) =>
            match vecs3 (2 * nd) fs2 with
            | Some (dv, fs3) =>
              match vecs3 ne fs3 with
              | Some (ev, fs4) =>
                match vecs3 (2 * nm) fs4 with
                | Some (mv, []) =>
                    ([0%Z; Z.of_nat ne; Z.of_nat nd; Z.of_nat nm],
                     run_mode mode (Z.to_nat nt) radii sigmas (pairs dv) ev (pairs mv))
                | _ => ([(-1)%Z], [])
                end
              | None => ([(-1)%Z], [])
              end
            | None => ([(-1)%Z], [])
            end
          | None => ([(-1)%Z], [])
          end
        | None => ([(-1)%Z], [])
        end
    | _ => ([(-1)%Z], [])
    end.
End Run.

Definition frun_c01 (F : Type) (o : Ops F) (zs : list Z) (fs : list F) : list Z * list F := frun_c01_ o zs fs.
