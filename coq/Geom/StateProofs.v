(* C17 — proofs about the object state machines: Geometry, Sensors, Mesh. *)
From OM Require Import Base.Lists Geom.GeomState Geom.SensorsState Geom.MeshState.
Local Open Scope Z_scope.

(* ================= Geometry ================= *)
(* repaired clear(): nothing of the previous content survives *)
Lemma g_clear_fixed : forall s, g_clear true s = g_clear true gst0.
Proof. reflexivity. Qed.

Lemma g_load_fixed : forall i d s, g_load true i d s = g_load true i d gst0.
Proof. intros; unfold g_load. rewrite (g_clear_fixed s). reflexivity. Qed.

Lemma g_step_load_fixed : forall W i s, g_step true W (GLoad i) s = g_step true W (GLoad i) gst0.
Proof. intros; simpl. rewrite (g_load_fixed i _ s). reflexivity. Qed.

Lemma g_run_app : forall fixed W h1 h2 s, g_run fixed W (h1 ++ h2) s = g_run fixed W h2 (g_run fixed W h1 s).
Proof. induction h1; simpl; auto. Qed.

(* everything that follows a load is independent of what preceded it: results of the load, of later assemblies,
   of later loads *)
Lemma geometry_history_independent_lemma : forall W h i t,
  g_trace true W (GLoad i :: t) (g_run true W h gst0) = g_trace true W (GLoad i :: t) gst0.
Proof.
  intros. cbn [g_trace]. rewrite (g_step_load_fixed W i (g_run true W h gst0)). reflexivity.
Qed.

Lemma geometry_last_lemma : forall W h i, g_last true W h (GLoad i) = g_last true W [] (GLoad i).
Proof. intros; unfold g_last. rewrite g_step_load_fixed. reflexivity. Qed.

(* assembling does not modify the object: twice, or after other assemblies, the same result (both variants) *)
Lemma assemble_twice_lemma : forall fixed W s n,
  g_trace fixed W (repeat GHeadMat (S n)) s = repeat (snd (g_step fixed W GHeadMat s)) (S n).
Proof.
  intros fixed W s n. induction n as [|n IH].
  - reflexivity.
  - change (repeat GHeadMat (S (S n))) with (GHeadMat :: repeat GHeadMat (S n)).
    cbn [g_trace]. cbn [g_step]. rewrite IH. reflexivity.
Qed.

(* assemblies never modify the geometry: HeadMat after any number of HeadMat / other assemblies = HeadMat right away *)
Definition is_assembly (o : gop) : bool := match o with GHeadMat | GOther => true | _ => false end.
Lemma g_run_assemblies : forall fixed W h s, forallb is_assembly h = true -> g_run fixed W h s = s.
Proof.
  induction h as [|o h IH]; intros s H; simpl in *; auto.
  apply andb_prop in H. destruct H as [Ho Hh]. destruct o; try discriminate; simpl; apply IH; auto.
Qed.
Lemma assemble_after_other_assemblies_lemma : forall fixed W h s, forallb is_assembly h = true ->
  snd (g_step fixed W GHeadMat (g_run fixed W h s)) = snd (g_step fixed W GHeadMat s).
Proof. intros. rewrite g_run_assemblies; auto. Qed.

(* repaired finalize(): calling it again on a freshly loaded geometry changes nothing *)
Lemma finalize_idempotent_lemma : forall W i s0,
  fst (g_step true W GFinalize (fst (g_step true W (GLoad i) s0))) = fst (g_step true W (GLoad i) s0)
  /\ (d_finalized (nth i W dummy_desc) = true ->
      snd (g_step true W GFinalize (fst (g_step true W (GLoad i) s0))) = g_observe 0 (fst (g_step true W (GLoad i) s0))).
Proof.
  intros W i s0. set (d := nth i W dummy_desc).
  assert (E : g_loaded (g_load true i d s0) = Some i).
  { unfold g_load. destruct (d_finalized d); reflexivity. }
  assert (K : d_finalized d = true -> g_finalize d (g_reset_derived (g_load true i d s0)) = g_load true i d s0).
  { intros Hf. unfold g_load. rewrite Hf. unfold g_finalize, g_reset_derived, g_clear. cbn. destruct (d_marks d); destruct (d_ndomains d); reflexivity. }
  cbn [g_step fst snd]. fold d. rewrite E. fold d.
  destruct (d_finalized d) eqn:Hf; cbn [fst snd].
  - rewrite (K eq_refl). split; [reflexivity | intros _; reflexivity].
  - split; [reflexivity | discriminate].
Qed.

(* every derived quantity is recomputed from the current inputs: changing the conductivities in place and finalizing
   again gives exactly the object obtained by loading the same geometry with those conductivities *)
Lemma eqbZs_eq : forall a b, eqbZs a b = true -> a = b.
Proof.
  induction a as [|x a IH]; intros [|y b] H; simpl in H; try discriminate; auto.
  apply andb_prop in H. destruct H as [H1 H2]. apply Z.eqb_eq in H1. subst. f_equal. apply IH, H2.
Qed.

Lemma finalize_is_a_function_of_inputs_lemma : forall W i j s0,
  d_finalized (nth i W dummy_desc) = true -> d_finalized (nth j W dummy_desc) = true ->
  same_geometry (nth i W dummy_desc) (nth j W dummy_desc) = true ->
  g_step true W (GSetCond j) (fst (g_step true W (GLoad i) s0)) = (fst (g_step true W (GLoad j) s0), g_observe 0 (fst (g_step true W (GLoad j) s0))).
Proof.
  intros W i j s0 Hi Hj Hs. set (di := nth i W dummy_desc) in *. set (dj := nth j W dummy_desc) in *.
  assert (E : g_loaded (g_load true i di s0) = Some i) by (unfold g_load; rewrite Hi; reflexivity).
  cbn [g_step fst snd]. fold di dj. rewrite E. fold di dj. rewrite Hi, Hj, Hs. cbn [andb].
  unfold same_geometry in Hs. apply andb_prop in Hs. destruct Hs as [Hs Hd]. apply andb_prop in Hs. destruct Hs as [Hv Hm].
  apply eqbZs_eq in Hv. apply Nat.eqb_eq in Hm. apply Nat.eqb_eq in Hd.
  assert (K : g_finalize dj (g_reset_derived
               {| g_verts := g_verts (g_load true i di s0); g_nmeshes := g_nmeshes (g_load true i di s0); g_ndomains := g_ndomains (g_load true i di s0);
                  g_nested := g_nested (g_load true i di s0); g_nparams := g_nparams (g_load true i di s0); g_cbt := g_cbt (g_load true i di s0);
                  g_pairs := g_pairs (g_load true i di s0); g_parts := g_parts (g_load true i di s0); g_invalid := g_invalid (g_load true i di s0);
                  g_loaded := Some j |}) = g_load true j dj s0).
  { unfold g_load. rewrite Hi, Hj. unfold g_finalize, g_reset_derived, g_clear. cbn. rewrite Hv, Hm, Hd.
    destruct (d_marks dj); destruct (d_marks di); destruct (d_ndomains dj); reflexivity. }
  rewrite K. reflexivity.
Qed.

(* the tree as found.  Descriptor 0: a three-layer nested head (Head1: 126 vertices, 5 communicating pairs);
   descriptor 1: a head with a fully immersed mesh whose vertices 0,1,2 are invalid; descriptor 2: the same
   meshes loaded without conductivities. *)
Definition Gref : list gdesc :=
  [ {| d_status := 0; d_verts := [10;11;12;13;14;15]; d_nmeshes := 3; d_ndomains := 4; d_finalized := true; d_marks := true;
       d_inv_add := []; d_noniso := [10;11;12;13;14;15]; d_parts := 1; d_tri_idx := 8; d_cbt := 2; d_pairs := 5; d_nested := true; d_headmat := 777 |};
    {| d_status := 0; d_verts := [0;1;2;3;4;5]; d_nmeshes := 2; d_ndomains := 3; d_finalized := true; d_marks := true;
       d_inv_add := [0;1;2]; d_noniso := [3;4;5]; d_parts := 0; d_tri_idx := 4; d_cbt := 0; d_pairs := 1; d_nested := false; d_headmat := 555 |};
    {| d_status := 0; d_verts := [0;1;2;3;4;5]; d_nmeshes := 2; d_ndomains := 3; d_finalized := true; d_marks := false;
       d_inv_add := []; d_noniso := []; d_parts := 0; d_tri_idx := 8; d_cbt := 0; d_pairs := 3; d_nested := false; d_headmat := 333 |} ].

Lemma geometry_reload_pinned_refuted_lemma :
  g_last false Gref [GLoad 0%nat] (GLoad 0%nat) <> g_last false Gref [] (GLoad 0%nat)
  /\ nth 5 (g_last false Gref [GLoad 0%nat] (GLoad 0%nat)) 0 = 10 /\ nth 5 (g_last false Gref [] (GLoad 0%nat)) 0 = 5.
Proof. vm_compute. repeat split; congruence. Qed.

(* stale invalid vertices change nb_parameters of an unrelated later load *)
Lemma geometry_stale_invalid_pinned_refuted_lemma :
  nth 4 (g_last false Gref [GLoad 1%nat] (GLoad 2%nat)) 0 = 11 /\ nth 4 (g_last false Gref [] (GLoad 2%nat)) 0 = 14.
Proof. vm_compute. split; reflexivity. Qed.

(* HeadMat after a reload iterates stale pairs (pinned), is the fresh result (repaired) *)
Lemma headmat_after_reload_lemma :
  snd (g_step false Gref GHeadMat (g_run false Gref [GLoad 0%nat; GLoad 0%nat] gst0)) <> snd (g_step false Gref GHeadMat (g_run false Gref [GLoad 0%nat] gst0))
  /\ snd (g_step true Gref GHeadMat (g_run true Gref [GLoad 0%nat; GLoad 0%nat] gst0)) = snd (g_step true Gref GHeadMat (g_run true Gref [GLoad 0%nat] gst0)).
Proof. vm_compute. split; congruence. Qed.

Lemma geometry_refinalize_pinned_refuted_lemma :
  snd (g_step false Gref GFinalize (g_run false Gref [GLoad 0%nat] gst0)) <> g_observe 0 (g_run false Gref [GLoad 0%nat] gst0)
  /\ snd (g_step true Gref GFinalize (g_run true Gref [GLoad 0%nat] gst0)) = g_observe 0 (g_run true Gref [GLoad 0%nat] gst0).
Proof. vm_compute. split; congruence. Qed.

(* ================= Sensors ================= *)
Lemma s_step_fixed : forall geom W i s, snd (s_step true geom W i s) = snd (s_step true geom W i sst0).
Proof.
  intros geom W i s. unfold s_step, s_load.
  destruct (d_status_ok (nth i W dummy_sdesc)) eqn:Hok; simpl.
  - reflexivity.
  - unfold d_status_ok in Hok. unfold s_observe. rewrite Hok. reflexivity.
Qed.

Lemma sensors_history_independent_lemma : forall geom W h i, s_last true geom W h i = s_last true geom W [] i.
Proof. intros; unfold s_last. rewrite s_step_fixed. reflexivity. Qed.

(* Head1.squids-like file: labels repeated per integration point are fine, loading the file twice is not (pinned) *)
Definition Sref : list sdesc := [ {| s_status := 0; s_labeled := true; s_names := [1;2;3]; s_nlin := 3; s_ncol := 7 |};
                                  {| s_status := 0; s_labeled := false; s_names := []; s_nlin := 2; s_ncol := 3 |} ].
Lemma sensors_reload_pinned_refuted_lemma :
  s_last false false Sref [0%nat] 0%nat <> s_last false false Sref [] 0%nat
  /\ nth 1 (s_last false false Sref [0%nat] 0%nat) 0 = 0 /\ nth 1 (s_last false false Sref [] 0%nat) 0 = 3.
Proof. vm_compute. repeat split; congruence. Qed.
(* orientations of the previous file survive a file without orientations (pinned) *)
Lemma sensors_stale_orientations_pinned_refuted_lemma :
  nth 3 (s_last false false Sref [0%nat] 1%nat) 0 = 3 /\ nth 3 (s_last false false Sref [] 1%nat) 0 = 0.
Proof. vm_compute. split; reflexivity. Qed.

(* ================= Mesh ================= *)
(* the flags and everything but the private geometry are history independent once clear() resets the flags;
   with the private geometry cleared as well, the whole observation is *)
Lemma m_load_ideal : forall i d s, m_load m_ideal i d s = m_load m_ideal i d mst0.
Proof. reflexivity. Qed.

Lemma mesh_ideal_lemma : forall W h i, m_last m_ideal W h (MLoad i) = m_last m_ideal W [] (MLoad i).
Proof. intros; unfold m_last; simpl. rewrite (m_load_ideal i _ (m_run m_ideal W h mst0)). reflexivity. Qed.

(* repaired code (flags reset, private geometry kept): the flags are history independent ... *)
Lemma mesh_flags_lemma : forall W h i,
  let s := fst (m_step m_repaired W (MLoad i) (m_run m_repaired W h mst0)) in
  y_outer s = false /\ y_cb s = false /\ y_iso s = false.
Proof.
  intros W h i; simpl. unfold m_load; simpl.
  destruct (negb (m_status (nth i W dummy_mdesc) =? 0)); simpl; auto.
  destruct (add_vertices _ _); simpl; auto.
Qed.

(* ... and so is every observation when the private geometry is still empty *)
Lemma mesh_partial_lemma : forall c W h i,
  y_gverts (m_run c W h mst0) = [] -> clear_flags c = true ->
  m_last c W h (MLoad i) = m_last c W [] (MLoad i).
Proof.
  intros c W h i Hg Hf. unfold m_last; simpl. unfold m_load, m_clear. rewrite Hg, Hf; simpl.
  destruct (clear_private_geometry c); reflexivity.
Qed.

Definition Mref : list mdesc :=
  [ {| m_status := 0; m_vs := [1;2;3;4]; m_ts := [(0,1,2);(0,2,3)]%nat; m_source := 99; m_sflag := true; m_source2 := 0; m_sflag2 := false |};
    {| m_status := 0; m_vs := [5;6;7]; m_ts := [(0,1,2)]%nat; m_source := 0; m_sflag := false; m_source2 := 0; m_sflag2 := false |} ].
(* Mesh::triangle(t) is offset by the vertices of the previously loaded file (pinned and repaired) *)
Lemma mesh_reload_refuted_lemma :
  m_last m_repaired Mref [MLoad 0%nat] (MLoad 1%nat) <> m_last m_repaired Mref [] (MLoad 1%nat)
  /\ m_last m_pinned Mref [MLoad 0%nat] (MLoad 1%nat) <> m_last m_pinned Mref [] (MLoad 1%nat)
  /\ skipn 7 (m_last m_repaired Mref [MLoad 0%nat] (MLoad 1%nat)) = [4;5;6;0;1;2] /\ skipn 7 (m_last m_repaired Mref [] (MLoad 1%nat)) = [0;1;2;0;1;2].
Proof. vm_compute. repeat split; congruence. Qed.
(* SurfSourceMat leaves current_barrier set on its argument; a reload does not clear it (pinned) *)
Lemma mesh_source_flag_pinned_refuted_lemma :
  nth 5 (m_last m_pinned Mref [MLoad 0%nat; MSurfSource] (MLoad 0%nat)) 0 = 1 /\ nth 5 (m_last m_pinned Mref [] (MLoad 0%nat)) 0 = 0
  /\ m_last m_repaired Mref [MLoad 0%nat; MSurfSource] (MLoad 0%nat) = m_last m_repaired Mref [] (MLoad 0%nat).
Proof. vm_compute. repeat split; reflexivity. Qed.
(* an assembly that must throw (mesh intersecting the second head) still throws after a successful assembly on the same mesh:
   its outcome is the descriptor's, whatever the flags *)
Lemma surfsource_outcome_independent_of_flags_lemma : forall c W s s',
  y_desc s = y_desc s' -> hd 0 (snd (m_step c W MSurfSource2 s)) = hd 0 (snd (m_step c W MSurfSource2 s')).
Proof.
  intros c W s s' H. cbn [m_step]. rewrite <- H. destruct (y_desc s) as [i|]; [|reflexivity].
  destruct (negb (m_sflag2 (nth i W dummy_mdesc))); reflexivity.
Qed.

(* SurfSourceMat twice on the same mesh: same result (the flags are set before they are read) *)
Lemma surfsource_twice_lemma : forall c W s,
  hd 0 (snd (m_step c W MSurfSource (fst (m_step c W MSurfSource s)))) = hd 0 (snd (m_step c W MSurfSource s)).
Proof.
  intros c W [g mv ts ou cb iso [i|]]; cbn [m_step y_desc]; [|reflexivity].
  destruct (m_sflag (nth i W dummy_mdesc)) eqn:Hz; cbn [negb fst snd m_step y_desc]; rewrite Hz; reflexivity.
Qed.
