(* well_indexed (the hypothesis of C05's loop theorems, coq/Geom/ParLoopsGeom.v) discharged from C11's model of
   Geometry::finalize, for the meshes that take part in the assembly (the non-isolated ones) of any geometry with
   well-formed mesh files. *)
From OM Require Import Base.Lists Base.Ops Geom.MeshTopo Geom.GeomModel Geom.GeomProofs Geom.FinalizeProofs Geom.IndexBridge Geom.IndexBridgeC10.
From OM Require Geom.ParLoops Geom.ParLoopsGeom.
Local Open Scope Z_scope.

Section WI.
Variable g : geom.
Variables (hasc : bool) (zero : list bool) (snz : nat -> nat -> bool) (fi : fin).
Hypothesis Hfin : finalize g hasc zero snz false = (StOk, Some fi).
Hypothesis Hwf : meshes_well_formed g.
Notation fl := (mk_flags (fi_marks fi)).

Definition to_ptri (ti : (nat * nat * nat) * Z) : ParLoops.tri :=
  let '((a, b, c), i) := ti in
  ParLoops.Build_tri i (fun k => if k =? 0 then vindex fi a else if k =? 1 then vindex fi b else vindex fi c).

Definition touches (v : Z) (t : ParLoops.tri) : bool :=
  (ParLoops.t_vertex t 0 =? v) || (ParLoops.t_vertex t 1 =? v) || (ParLoops.t_vertex t 2 =? v).

Definition to_pmesh (k : nat) : ParLoopsGeom.mesh :=
  let ts := map to_ptri (combine (lm_tris (gmesh g k)) (nth k (ix_t (fi_idx fi)) [])) in
  ParLoopsGeom.Build_mesh ts (map (vindex fi) (lm_verts (gmesh g k))) (fun v => filter (touches v) ts).

Definition assembly_meshes : list ParLoopsGeom.mesh :=
  map to_pmesh (filter (fun k => negb (f_iso (nth k fl flags0))) (seq 0 (length (g_meshes g)))).

Definition isV (i : Z) : Prop := 0 <= i < Z.of_nat (Nv g fi).

Lemma NoDup_app_parts {A} (a b : list A) : NoDup (a ++ b) -> NoDup a /\ NoDup b.
Proof.
  induction a as [|x a IH]; simpl; intros H; [split; [constructor|auto]|].
  inversion H; subst. destruct (IH H3). split; auto. constructor; auto. intros C. apply H2. apply in_or_app; auto.
Qed.

Lemma sel_component_NoDup p : forall (l : list (list Z)) fl0 k, NoDup (sel p fl0 l) -> (k < length l)%nat ->
  p (nth k fl0 flags0) = true -> NoDup (nth k l []).
Proof.
  induction l as [|t l IH]; intros fl0 k ND Hk Hp; simpl in *; [lia|].
  apply NoDup_app_parts in ND. destruct ND as [N1 N2]. destruct k as [|k].
  - replace (hd flags0 fl0) with (nth 0 fl0 flags0) in N1 by (destruct fl0; reflexivity). rewrite Hp in N1. exact N1.
  - apply (IH (tl fl0) k N2); [lia|].
    replace (nth k (tl fl0) flags0) with (nth (S k) fl0 flags0); auto. destruct fl0; simpl; auto. destruct k; reflexivity.
Qed.

Lemma live_triangles_NoDup k : (k < length (g_meshes g))%nat -> f_iso (nth k fl flags0) = false -> NoDup (nth k (ix_t (fi_idx fi)) []).
Proof.
  intros Hk Hiso. destruct (ix_spec g hasc zero snz fi Hfin) as (A & B & _ & _ & _ & _ & Lt & _).
  destruct (f_cb (nth k fl flags0)) eqn:Ecb.
  - apply (sel_component_NoDup barf _ fl k); [rewrite B; apply zseq_NoDup|lia|unfold barf; rewrite Ecb, Hiso; reflexivity].
  - apply (sel_component_NoDup live _ fl k); [|lia|unfold live; rewrite Ecb, Hiso; reflexivity].
    assert (ND : NoDup (assigned (ix_v (fi_idx fi)) ++ sel live fl (ix_t (fi_idx fi)))) by (rewrite A; apply zseq_NoDup).
    apply NoDup_app_parts in ND. tauto.
Qed.

Lemma map_snd_combine_NoDup {A} (a : list A) (b : list Z) : NoDup b -> NoDup (map snd (combine a b)).
Proof.
  revert b; induction a as [|x a IH]; intros [|y b] H; simpl; try constructor.
  - inversion H; subst. intros C. apply in_map_iff in C. destruct C as [[x' y'] [E C]]. simpl in E. subst.
    apply in_combine_r in C. auto.
  - inversion H; subst. auto.
Qed.

Lemma ptri_index ti : ParLoops.t_index (to_ptri ti) = snd ti.
Proof. destruct ti as [[[a b] c] i]; reflexivity. Qed.

Lemma mesh_k_facts k : (k < length (g_meshes g))%nat ->
  NoDup (lm_verts (gmesh g k)) /\ (forall v, In v (lm_verts (gmesh g k)) -> (v < g_nv g)%nat)
  /\ forall a b c, In (a, b, c) (lm_tris (gmesh g k)) -> In a (lm_verts (gmesh g k)) /\ In b (lm_verts (gmesh g k)) /\ In c (lm_verts (gmesh g k)).
Proof.
  intros Hk. destruct (Hwf (gmesh g k) (nth_In _ _ Hk)) as (ND & Hb & Ht). split; auto. split; auto.
  intros a b c H. destruct (Ht a b c H) as (_ & _ & _ & I). exact I.
Qed.

Lemma vertex_isV k v : (k < length (g_meshes g))%nat -> f_iso (nth k fl flags0) = false -> In v (lm_verts (gmesh g k)) ->
  isV (vindex fi v) /\ 0 <= vindex fi v.
Proof.
  intros Hk Hiso Hv. destruct (mesh_k_facts k Hk) as (_ & Hb & _).
  pose proof (vindex_range g hasc zero snz fi Hfin v (Hb v Hv) (live_mesh_vertices_valid g hasc zero snz fi Hfin k v Hk Hiso Hv)).
  unfold isV. lia.
Qed.

Theorem finalize_well_indexed : ParLoopsGeom.well_indexed isV assembly_meshes.
Proof.
  assert (Hm : forall m, In m assembly_meshes -> exists k, m = to_pmesh k /\ (k < length (g_meshes g))%nat /\ f_iso (nth k fl flags0) = false).
  { intros m H. unfold assembly_meshes in H. apply in_map_iff in H. destruct H as [k [<- H]].
    apply filter_In in H. destruct H as [H1 H2]. apply in_seq in H1. apply negb_true_iff in H2. exists k. repeat split; auto; lia. }
  assert (Ht : forall k t, (k < length (g_meshes g))%nat -> f_iso (nth k fl flags0) = false ->
            In t (ParLoopsGeom.m_triangles (to_pmesh k)) ->
            (forall j, isV (ParLoops.t_vertex t j) /\ 0 <= ParLoops.t_vertex t j) /\ (~ isV (ParLoops.t_index t) /\ 0 <= ParLoops.t_index t)).
  { intros k t Hk Hiso Hin. simpl in Hin. apply in_map_iff in Hin. destruct Hin as [[[[a b] c] i] [<- Hc]].
    pose proof (in_combine_l _ _ _ _ Hc) as Ht. pose proof (in_combine_r _ _ _ _ Hc) as Hi.
    destruct (mesh_k_facts k Hk) as (_ & _ & Hv). destruct (Hv a b c Ht) as (Ia & Ib & Ic). split.
    - intros j. simpl. destruct (j =? 0); [|destruct (j =? 1)]; eapply vertex_isV; eauto.
    - simpl. pose proof (live_triangle_range g hasc zero snz fi Hfin k i Hk Hiso Hi). unfold isV. lia. }
  constructor.
  - intros m H. destruct (Hm m H) as [k [-> [Hk Hiso]]]. simpl. rewrite map_map.
    rewrite (map_ext _ snd) by apply ptri_index. apply map_snd_combine_NoDup. apply live_triangles_NoDup; auto.
  - intros m H. destruct (Hm m H) as [k [-> [Hk Hiso]]]. simpl.
    destruct (mesh_k_facts k Hk) as (ND & Hb & _).
    assert (G : forall l, NoDup l -> (forall v, In v l -> In v (lm_verts (gmesh g k))) -> NoDup (map (vindex fi) l)).
    { induction l as [|v l IH]; intros N Hs; simpl; constructor.
      - inversion N; subst. intros C. apply in_map_iff in C. destruct C as [w [E Hw]].
        assert (w = v); [|congruence].
        apply (vindex_inj g hasc zero snz fi Hfin); auto.
        + apply Hb, Hs; right; auto.
        + apply Hb, Hs; left; auto.
        + eapply live_mesh_vertices_valid; eauto. apply Hs; right; auto.
        + eapply live_mesh_vertices_valid; eauto. apply Hs; left; auto.
      - inversion N; subst. apply IH; auto. intros w Hw. apply Hs; right; auto. }
    apply G; auto.
  - intros m v H Hv. destruct (Hm m H) as [k [-> [Hk Hiso]]]. simpl in Hv. apply in_map_iff in Hv. destruct Hv as [w [<- Hw]].
    eapply vertex_isV; eauto.
  - intros m t j H Hin. destruct (Hm m H) as [k [-> [Hk Hiso]]]. apply (Ht k t Hk Hiso Hin).
  - intros m t H Hin. destruct (Hm m H) as [k [-> [Hk Hiso]]]. apply (Ht k t Hk Hiso Hin).
  - intros m v t H Hin. destruct (Hm m H) as [k [-> [Hk Hiso]]]. simpl in Hin. apply filter_In in Hin. destruct Hin as [Hin _].
    apply (Ht k t Hk Hiso). exact Hin.
Qed.
End WI.
