(* C04 -- direct and adjoint gain computations (OpenMEEG/include/gain.h), exact algebra over a field.
   MathComp / ssreflect style.  LAPACK's packed Bunch-Kaufman solve (SymMatrix::solveLin, symmatrix.cpp:133) is a
   Section variable with its contract as a Section hypothesis: for an invertible matrix it returns H^-1 B.
   The per-dipole source column used by the adjoint classes (DipSourceMat(geo,dipoles.submat(i,1,0,ncol),"").getcol(0))
   is a Section variable `dsm1 i`; that it equals column i of the batch source matrix is C08's column theorem
   (Properties_C08.dsm_column_local), taken here as a hypothesis of the statements that need it. *)
From mathcomp Require Import all_ssreflect all_algebra.
Set Implicit Arguments.
Unset Strict Implicit.
Unset Printing Implicit Defensive.
Import GRing.Theory.
Local Open Scope ring_scope.

Section Gain.
Variable R : fieldType.
Variables n me mm nd : nat.        (* unknowns, EEG sensors, MEG sensors, dipoles *)
Variable H : 'M[R]_n.              (* HeadMat *)
Variable A : 'M[R]_(me, n).        (* Head2EEGMat *)
Variable B : 'M[R]_(mm, n).        (* Head2MEGMat *)
Variable S : 'M[R]_(n, nd).        (* DipSourceMat of the whole batch *)
Variable P : 'M[R]_(mm, nd).       (* DipSource2MEGMat (primary field) *)
Variable dsm1 : 'I_nd -> 'cV[R]_n. (* DipSourceMat of dipole i alone, column 0 *)

Variable solveLin : 'M[R]_n -> forall k, 'M[R]_(n, k) -> 'M[R]_(n, k).
Hypothesis solveLin_spec : forall (M : 'M[R]_n) k (X : 'M[R]_(n, k)), M \in unitmx -> solveLin M X = invmx M *m X.

(* gain.h:48  Matrix res(S.transpose()); H.solveLin(res); return res.transpose(); *)
Definition linsolve k (X : 'M[R]_(k, n)) : 'M[R]_(k, n) := (solveLin H X^T)^T.

(* GainEEG / GainMEG (direct): (Head2EEGMat*HeadMatInv)*SourceMat, Source2MEGMat+(Head2MEGMat*HeadMatInv)*SourceMat *)
Definition gain_direct (Hinv : 'M[R]_n) : 'M[R]_(me, nd) := (A *m Hinv) *m S.
Definition gain_meg_direct (Hinv : 'M[R]_n) : 'M[R]_(mm, nd) := P + (B *m Hinv) *m S.

(* GainEEGadjoint / GainMEGadjoint: setcol(i, Hinv*dsm_i [+ Source2MEGMat.getcol(i)]) *)
Definition gain_adjoint : 'M[R]_(me, nd) := \matrix_(r, i) (linsolve A *m dsm1 i) r 0.
Definition gain_meg_adjoint : 'M[R]_(mm, nd) := \matrix_(r, i) (linsolve B *m dsm1 i + col i P) r 0.

(* Matrix::submat(istart,isize,0,ncol) on rows: rows [s, s+k) *)
Definition submat_rows m (s k : nat) (M : 'M[R]_(m, n)) : 'M[R]_(k, n) :=
  \matrix_(i < k, j < n) (if insub (s + i)%N is Some r then M r j else 0).

(* GainEEGMEGadjoint: RHS = rows of Head2EEGMat then rows of Head2MEGMat; one solve; row ranges
   [0,me) and [me,me+mm) of the solution *)
Definition eegmeg_rhs : 'M[R]_(me + mm, n) := col_mx A B.
Definition gain_eegmeg_adjoint_eeg : 'M[R]_(me, nd) :=
  \matrix_(r, i) (submat_rows 0 me (linsolve eegmeg_rhs) *m dsm1 i) r 0.
Definition gain_eegmeg_adjoint_meg : 'M[R]_(mm, nd) :=
  \matrix_(r, i) (submat_rows me mm (linsolve eegmeg_rhs) *m dsm1 i + col i P) r 0.

(* ---- lemmas ---- *)
Lemma linsolve_transposes_twice k (X : 'M[R]_(k, n)) :
  H \in unitmx -> linsolve X = X *m (invmx H)^T.
Proof. by move=> Hu; rewrite /linsolve solveLin_spec // trmx_mul trmxK. Qed.

Lemma linsolve_sym k (X : 'M[R]_(k, n)) :
  H^T = H -> H \in unitmx -> linsolve X = X *m invmx H.
Proof. by move=> Hs Hu; rewrite linsolve_transposes_twice // trmx_inv Hs. Qed.

Lemma cols_mul m (M : 'M[R]_(m, n)) (Q : 'M[R]_(m, nd)) :
  (forall i, col i S = dsm1 i) ->
  (\matrix_(r, i) (M *m dsm1 i + col i Q) r 0) = M *m S + Q.
Proof.
move=> Hc; apply/matrixP => r i; rewrite !mxE -Hc.
by congr (_ + _); apply: eq_bigr => j _; rewrite !mxE.
Qed.

Lemma cols_mul0 m (M : 'M[R]_(m, n)) :
  (forall i, col i S = dsm1 i) ->
  (\matrix_(r, i) (M *m dsm1 i) r 0) = M *m S.
Proof.
move=> Hc; apply/matrixP => r i; rewrite !mxE -Hc.
by apply: eq_bigr => j _; rewrite !mxE.
Qed.

Theorem adjoint_eq_direct :
  H^T = H -> H \in unitmx -> (forall i, col i S = dsm1 i) ->
  gain_adjoint = gain_direct (invmx H).
Proof. by move=> Hs Hu Hc; rewrite /gain_adjoint cols_mul0 // linsolve_sym. Qed.

Theorem meg_adjoint_eq_direct :
  H^T = H -> H \in unitmx -> (forall i, col i S = dsm1 i) ->
  gain_meg_adjoint = gain_meg_direct (invmx H).
Proof. by move=> Hs Hu Hc; rewrite /gain_meg_adjoint cols_mul // linsolve_sym // addrC. Qed.

Lemma submat_rows_up (M : 'M[R]_(me + mm, n)) : submat_rows 0 me M = usubmx M.
Proof.
apply/matrixP => i j; rewrite !mxE add0n.
have lt : (i < me + mm)%N by rewrite ltn_addr.
by rewrite insubT /=; congr (M _ _); apply: val_inj.
Qed.

Lemma submat_rows_down (M : 'M[R]_(me + mm, n)) : submat_rows me mm M = dsubmx M.
Proof.
apply/matrixP => i j; rewrite !mxE.
have lt : (me + i < me + mm)%N by rewrite ltn_add2l.
by rewrite insubT /=; congr (M _ _); apply: val_inj.
Qed.

Lemma linsolve_col_mx : H \in unitmx ->
  linsolve eegmeg_rhs = col_mx (linsolve A) (linsolve B).
Proof. by move=> Hu; rewrite !linsolve_transposes_twice // /eegmeg_rhs mul_col_mx. Qed.

Theorem combined_eq_separate_eeg : H \in unitmx -> gain_eegmeg_adjoint_eeg = gain_adjoint.
Proof.
by move=> Hu; rewrite /gain_eegmeg_adjoint_eeg submat_rows_up linsolve_col_mx // col_mxKu.
Qed.

Theorem combined_eq_separate_meg : H \in unitmx -> gain_eegmeg_adjoint_meg = gain_meg_adjoint.
Proof.
by move=> Hu; rewrite /gain_eegmeg_adjoint_meg submat_rows_down linsolve_col_mx // col_mxKd.
Qed.

(* without symmetry the adjoint path computes A (H^-1)^T S: the two paths agree iff that equals A H^-1 S *)
Theorem adjoint_general : H \in unitmx -> (forall i, col i S = dsm1 i) ->
  gain_adjoint = A *m (invmx H)^T *m S.
Proof. by move=> Hu Hc; rewrite /gain_adjoint cols_mul0 // linsolve_transposes_twice. Qed.

End Gain.
