(* C04 -- direct and adjoint gain computations (OpenMEEG/include/gain.h), exact algebra over a field.
   MathComp / ssreflect style.  LAPACK's packed Bunch-Kaufman solve (SymMatrix::solveLin, symmatrix.cpp:133) is a
   Section variable with its contract as a Section hypothesis: for an invertible matrix it returns H^-1 B.
   The per-dipole source column used by the adjoint classes (DipSourceMat(geo,dipoles.submat(i,1,0,ncol),"").getcol(0))
   is a Section variable `dsm1 i`; that it equals column i of the batch source matrix is C08's column theorem
   (Properties_C08.dsm_column_local), taken here as a hypothesis of the statements that need it. *)
From mathcomp Require Import all_ssreflect all_algebra.
Set Implicit Arguments.
Unset Strict Implicit.
Unset Printing Implicit Defensive.
Import GRing.Theory.
Local Open Scope ring_scope.

Section Gain.
Variable R : fieldType.
Variables n me mm nd : nat.        (* unknowns, EEG sensors, MEG sensors, dipoles *)
Variable H : 'M[R]_n.              (* HeadMat *)
Variable A : 'M[R]_(me, n).        (* Head2EEGMat *)
Variable B : 'M[R]_(mm, n).        (* Head2MEGMat *)
Variable S : 'M[R]_(n, nd).        (* DipSourceMat of the whole batch *)
Variable P : 'M[R]_(mm, nd).       (* DipSource2MEGMat (primary field) *)
Variable dsm1 : 'I_nd -> 'cV[R]_n. (* DipSourceMat of dipole i alone, column 0 *)

Variable solveLin : 'M[R]_n -> forall k, 'M[R]_(n, k) -> 'M[R]_(n, k).
Hypothesis solveLin_spec : forall (M : 'M[R]_n) k (X : 'M[R]_(n, k)), M \in unitmx -> solveLin M X = invmx M *m X.

(* gain.h:48  Matrix res(S.transpose()); H.solveLin(res); return res.transpose(); *)
Definition linsolve k (X : 'M[R]_(k, n)) : 'M[R]_(k, n) := (solveLin H X^T)^T.

(* GainEEG / GainMEG (direct): (Head2EEGMat*HeadMatInv)*SourceMat, Source2MEGMat+(Head2MEGMat*HeadMatInv)*SourceMat *)
Definition gain_direct (Hinv : 'M[R]_n) : 'M[R]_(me, nd) := (A *m Hinv) *m S.
Definition gain_meg_direct (Hinv : 'M[R]_n) : 'M[R]_(mm, nd) := P + (B *m Hinv) *m S.

(* GainEEGadjoint / GainMEGadjoint: setcol(i, Hinv*dsm_i [+ Source2MEGMat.getcol(i)]) *)
Definition gain_adjoint : 'M[R]_(me, nd) := \matrix_(r, i) (linsolve A *m dsm1 i) r 0.
Definition gain_meg_adjoint : 'M[R]_(mm, nd) := \matrix_(r, i) (linsolve B *m dsm1 i + col i P) r 0.

(* Matrix::submat(istart,isize,0,ncol) on rows: rows [s, s+k) *)
Definition submat_rows m (s k : nat) (M : 'M[R]_(m, n)) : 'M[R]_(k, n) :=
  \matrix_(i < k, j < n) (if insub (s + i)%N is Some r then M r j else 0).

(* GainEEGMEGadjoint: RHS = rows of Head2EEGMat then rows of Head2MEGMat; one solve; row ranges
   [0,me) and [me,me+mm) of the solution *)
Definition eegmeg_rhs : 'M[R]_(me + mm, n) := col_mx A B.
Definition gain_eegmeg_adjoint_eeg : 'M[R]_(me, nd) :=
  \matrix_(r, i) (submat_rows 0 me (linsolve eegmeg_rhs) *m dsm1 i) r 0.
Definition gain_eegmeg_adjoint_meg : 'M[R]_(mm, nd) :=
  \matrix_(r, i) (submat_rows me mm (linsolve eegmeg_rhs) *m dsm1 i + col i P) r 0.

(* ---- lemmas ---- *)
Lemma linsolve_transposes_twice k (X : 'M[R]_(k, n)) :
  H \in unitmx -> linsolve X = X *m (invmx H)^T.
Proof. by move=> Hu; rewrite /linsolve solveLin_spec // trmx_mul trmxK. Qed.

Lemma linsolve_sym k (X : 'M[R]_(k, n)) :
  H^T = H -> H \in unitmx -> linsolve X = X *m invmx H.
Proof. by move=> Hs Hu; rewrite linsolve_transposes_twice // trmx_inv Hs. Qed.

Lemma cols_mul m (M : 'M[R]_(m, n)) (Q : 'M[R]_(m, nd)) :
  (forall i, col i S = dsm1 i) ->
  (\matrix_(r, i) (M *m dsm1 i + col i Q) r 0) = M *m S + Q.
Proof.
move=> Hc; apply/matrixP => r i; rewrite !mxE -Hc.
by congr (_ + _); apply: eq_bigr => j _; rewrite !mxE.
Qed.

Lemma cols_mul0 m (M : 'M[R]_(m, n)) :
  (forall i, col i S = dsm1 i) ->
  (\matrix_(r, i) (M *m dsm1 i) r 0) = M *m S.
Proof.
move=> Hc; apply/matrixP => r i; rewrite !mxE -Hc.
by apply: eq_bigr => j _; rewrite !mxE.
Qed.

(* every column of an adjoint gain is a function of its own dipole only (its source column and its primary-field column) *)
Lemma gain_adjoint_col i : col i gain_adjoint = linsolve A *m dsm1 i.
Proof. by apply/colP => r; rewrite !mxE. Qed.
Lemma gain_meg_adjoint_col i : col i gain_meg_adjoint = linsolve B *m dsm1 i + col i P.
Proof. by apply/colP => r; rewrite !mxE. Qed.
Lemma gain_eegmeg_adjoint_eeg_col i :
  col i gain_eegmeg_adjoint_eeg = submat_rows 0 me (linsolve eegmeg_rhs) *m dsm1 i.
Proof. by apply/colP => r; rewrite !mxE. Qed.
Lemma gain_eegmeg_adjoint_meg_col i :
  col i gain_eegmeg_adjoint_meg = submat_rows me mm (linsolve eegmeg_rhs) *m dsm1 i + col i P.
Proof. by apply/colP => r; rewrite !mxE. Qed.

Theorem adjoint_eq_direct :
  H^T = H -> H \in unitmx -> (forall i, col i S = dsm1 i) ->
  gain_adjoint = gain_direct (invmx H).
Proof. by move=> Hs Hu Hc; rewrite /gain_adjoint cols_mul0 // linsolve_sym. Qed.

Theorem meg_adjoint_eq_direct :
  H^T = H -> H \in unitmx -> (forall i, col i S = dsm1 i) ->
  gain_meg_adjoint = gain_meg_direct (invmx H).
Proof. by move=> Hs Hu Hc; rewrite /gain_meg_adjoint cols_mul // linsolve_sym // addrC. Qed.

Lemma submat_rows_up (M : 'M[R]_(me + mm, n)) : submat_rows 0 me M = usubmx M.
Proof.
apply/matrixP => i j; rewrite !mxE add0n.
have lt : (i < me + mm)%N by rewrite ltn_addr.
by rewrite insubT /=; congr (M _ _); apply: val_inj.
Qed.

Lemma submat_rows_down (M : 'M[R]_(me + mm, n)) : submat_rows me mm M = dsubmx M.
Proof.
apply/matrixP => i j; rewrite !mxE.
have lt : (me + i < me + mm)%N by rewrite ltn_add2l.
by rewrite insubT /=; congr (M _ _); apply: val_inj.
Qed.

Lemma linsolve_col_mx : H \in unitmx ->
  linsolve eegmeg_rhs = col_mx (linsolve A) (linsolve B).
Proof. by move=> Hu; rewrite !linsolve_transposes_twice // /eegmeg_rhs mul_col_mx. Qed.

Theorem combined_eq_separate_eeg : H \in unitmx -> gain_eegmeg_adjoint_eeg = gain_adjoint.
Proof.
by move=> Hu; rewrite /gain_eegmeg_adjoint_eeg submat_rows_up linsolve_col_mx // col_mxKu.
Qed.

Theorem combined_eq_separate_meg : H \in unitmx -> gain_eegmeg_adjoint_meg = gain_meg_adjoint.
Proof.
by move=> Hu; rewrite /gain_eegmeg_adjoint_meg submat_rows_down linsolve_col_mx // col_mxKd.
Qed.

(* without symmetry the adjoint path computes A (H^-1)^T S: the two paths agree iff that equals A H^-1 S *)
Theorem adjoint_general : H \in unitmx -> (forall i, col i S = dsm1 i) ->
  gain_adjoint = A *m (invmx H)^T *m S.
Proof. by move=> Hu Hc; rewrite /gain_adjoint cols_mul0 // linsolve_transposes_twice. Qed.

End Gain.

(* ---- GainEEGMEGadjoint builds its right-hand side row by row:
        RHS.setlin(i,Head2EEGMat.getlin(i));  RHS.setlin(i+Head2EEGMat.nlin(),Head2MEGMat.getlin(i));
      SparseMatrix::getlin / Matrix::getlin are Section variables; that they return the rows of their matrix is the premise
      (for the sparse one: C14's getlin theorem).  With a getlin that loses an entry the combined computation is wrong while the
      separate ones (which never call getlin) stay right: getlin_defect_breaks_combined. ---- *)
Section GainGetlin.
Variable R : fieldType.
Variables n me mm nd : nat.
Variable H : 'M[R]_n.
Variable A : 'M[R]_(me, n).
Variable B : 'M[R]_(mm, n).
Variable P : 'M[R]_(mm, nd).
Variable dsm1 : 'I_nd -> 'cV[R]_n.
Variable solveLin : 'M[R]_n -> forall k, 'M[R]_(n, k) -> 'M[R]_(n, k).
Variable getlinA : 'I_me -> 'rV[R]_n.      (* Head2EEGMat.getlin(i), SparseMatrix::getlin *)
Variable getlinB : 'I_mm -> 'rV[R]_n.      (* Head2MEGMat.getlin(i), Matrix::getlin *)

Definition eegmeg_rhs_rows : 'M[R]_(me + mm, n) :=
  \matrix_(r, j) match split r with inl i => getlinA i 0 j | inr i => getlinB i 0 j end.
Definition gain_eegmeg_rows_eeg : 'M[R]_(me, nd) :=
  \matrix_(r, i) (submat_rows 0 me (linsolve H solveLin eegmeg_rhs_rows) *m dsm1 i) r 0.
Definition gain_eegmeg_rows_meg : 'M[R]_(mm, nd) :=
  \matrix_(r, i) (submat_rows me mm (linsolve H solveLin eegmeg_rhs_rows) *m dsm1 i + col i P) r 0.

Lemma eegmeg_rhs_rows_col_mx :
  (forall i, getlinA i = row i A) -> (forall i, getlinB i = row i B) -> eegmeg_rhs_rows = col_mx A B.
Proof.
move=> HA HB; apply/matrixP => r j; rewrite !mxE.
by case: (split r) => i; rewrite ?HA ?HB !mxE.
Qed.

Lemma combined_rows_eq_eeg :
  (forall i, getlinA i = row i A) -> (forall i, getlinB i = row i B) ->
  gain_eegmeg_rows_eeg = gain_eegmeg_adjoint_eeg H A B dsm1 solveLin.
Proof. by move=> HA HB; rewrite /gain_eegmeg_rows_eeg eegmeg_rhs_rows_col_mx. Qed.

Lemma combined_rows_eq_meg :
  (forall i, getlinA i = row i A) -> (forall i, getlinB i = row i B) ->
  gain_eegmeg_rows_meg = gain_eegmeg_adjoint_meg H A B P dsm1 solveLin.
Proof. by move=> HA HB; rewrite /gain_eegmeg_rows_meg eegmeg_rhs_rows_col_mx. Qed.
End GainGetlin.

(* a getlin that starts after column 0 (the entry of column 0 is lost): 1 unknown, 1 electrode, no squid, 1 dipole, H = 1 *)
Lemma getlin_defect_breaks_combined :
  let H : 'M[rat]_1 := 1%:M in
  let A : 'M[rat]_(1, 1) := 1%:M in
  let B : 'M[rat]_(0, 1) := 0 in
  let dsm1 : 'I_1 -> 'cV[rat]_1 := fun _ => 1%:M in
  let solve := (fun (M : 'M[rat]_1) k (X : 'M[rat]_(1, k)) => invmx M *m X) in
  let getlin_bad : 'I_1 -> 'rV[rat]_1 := fun i => \row_j (if (j : nat) == 0%N then 0 else A i j) in
  gain_eegmeg_rows_eeg H dsm1 solve getlin_bad (fun i => row i B) 0 0 = 0 /\
  gain_adjoint H A dsm1 solve 0 0 = 1.
Proof.
move=> H A B dsm1 solve getlin_bad; split.
- rewrite /gain_eegmeg_rows_eeg mxE.
  have -> : eegmeg_rhs_rows getlin_bad (fun i => row i B) = 0.
    by apply/matrixP => r j; rewrite !mxE; case: (split r) => i; rewrite !mxE ?ord1.
  by rewrite /linsolve /solve trmx0 mulmx0 trmx0 /submat_rows !mxE big_ord_recl big_ord0 !mxE /=; case: insubP => [u _ _|_]; rewrite ?mxE ?mul0r ?addr0.
- rewrite /gain_adjoint mxE /linsolve /solve /H invmx1 mul1mx trmxK /A mul1mx /dsm1 !mxE.
  by [].
Qed.
