(* EXTRACT-F: c10 frun_c10 *)
(* Executable entry point of the C10 correspondence: decodes an indexed geometry + kernel tables
   (both dumped by harness/h_c10.cpp from the real Geometry / integrator) and runs the assembly model. *)
From Coq Require Import List NArith ZArith Bool FMapPositive.
From OM Require Import Base.Ops Base.Lists Base.Wire Geom.Assembly.
Import ListNotations.
Local Open Scope Z_scope.

Definition getNN : dec N := do x <- getZ; ret (Z.to_N x).
Definition getB : dec bool := do x <- getZ; ret (negb (x =? 0)).

(* triangles of one mesh; ids are a running count *)
Fixpoint getTris (n : nat) (tid0 : N) : dec (list tri) :=
  match n with
  | O => ret []
  | S n' => do a <- getNN; do b <- getNN; do c <- getNN; do ix <- getNN;
            do r <- getTris n' (N.succ tid0); ret (mkTri tid0 a b c ix :: r)
  end.
Fixpoint getMeshes (n : nat) (tid0 : N) : dec (list mesh) :=
  match n with
  | O => ret []
  | S n' => do nv <- getN; do vs <- getMany nv getNN; do nt <- getN; do ts <- getTris nt tid0;
            do bo <- getB; do bb <- getB; do bi <- getB;
            do r <- getMeshes n' (tid0 + N.of_nat nt)%N; ret (mkMesh vs ts bo bb bi :: r)
  end.
Definition getPairHead : dec (nat * nat * Z) := do a <- getN; do b <- getN; do s <- getZ; ret (a, b, s).
Definition getPart : dec (list nat) := do n <- getN; getMany n getN.

Record shape := mkShape { s_vix : list N; s_meshes : list mesh; s_pairs : list (nat * nat * Z);
                          s_parts : list (list nat); s_np : N; s_nb : N }.
Definition getShape : dec shape :=
  do nv <- getN; do vx <- getMany nv getNN;
  do nm <- getN; do ms <- getMeshes nm 0%N;
  do np <- getN; do ps <- getMany np getPairHead;
  do nq <- getN; do qs <- getMany nq getPart;
  do a <- getNN; do b <- getNN;
  ret (mkShape vx ms ps qs a b).

Section Run.
Context {F : Type} (o : Ops F).

Definition nthF (l : list F) (k : nat) : F := nth k l (f0 o).

(* table of floats indexed by N, as a positive trie *)
Definition tab := PositiveMap.t F.
Definition tab_of (l : list F) (k0 : N) (T : tab) : tab :=
  snd (fold_left (fun '(k, T) x => (N.succ k, PositiveMap.add (kp k) x T)) l (k0, T)).
Definition tget (T : tab) (k : N) : F := match PositiveMap.find (kp k) T with Some x => x | None => f0 o end.

Fixpoint pairsF (hs : list (nat * nat * Z)) (fs : list F) : list (pair F) :=
  match hs with
  | [] => []
  | (a, b, s) :: r => mkPair a b s (nthF fs 0) (nthF fs 1) (nthF fs 2) :: pairsF r (skipn 3 fs)
  end.

(* kernel tables keyed by (tid1*NT+tid2) resp. 3*(tid1*NT+tid2)+i ; blocks arrive in pair order:
   S[T1xT2], D[T1xT2x3] and, for two different meshes, D[T2xT1x3] *)
Definition fillS (NT : N) (ts1 ts2 : list tri) (fs : list F) (T : tab) : tab * list F :=
  fold_left (fun '(T, fs) t1 =>
    fold_left (fun '(T, fs) t2 =>
      (PositiveMap.add (kp (tid t1 * NT + tid t2)%N) (nthF fs 0) T, tl fs)) ts2 (T, fs)) ts1 (T, fs).
Definition fillD (NT : N) (ts1 ts2 : list tri) (fs : list F) (T : tab) : tab * list F :=
  fold_left (fun '(T, fs) t1 =>
    fold_left (fun '(T, fs) t2 =>
      let k := (3 * (tid t1 * NT + tid t2))%N in
      (PositiveMap.add (kp (k + 2)%N) (nthF fs 2) (PositiveMap.add (kp (k + 1)%N) (nthF fs 1) (PositiveMap.add (kp k) (nthF fs 0) T)),
       skipn 3 fs)) ts2 (T, fs)) ts1 (T, fs).
Definition fill_kernels (NT : N) (ms : list mesh) (hs : list (nat * nat * Z)) (fs : list F) : tab * tab :=
  let '(TS, TD, _) :=
    fold_left (fun '(TS, TD, fs) h =>
      let '(a, b, _) := h in
      let t1 := mtris (nth a ms empty_mesh) in let t2 := mtris (nth b ms empty_mesh) in
      let '(TS, fs) := fillS NT t1 t2 fs TS in
      let '(TD, fs) := fillD NT t1 t2 fs TD in
      if Nat.eqb a b then (TS, TD, fs) else let '(TD, fs) := fillD NT t2 t1 fs TD in (TS, TD, fs))
      hs (PositiveMap.empty _, PositiveMap.empty _, fs) in
  (TS, TD).

(* floats: K, 3 per vertex, 1 per triangle, 3 per pair, kernel blocks *)
Definition run_assemble (sh : shape) (fs : list F) : list Z * list F :=
  let nv := length (s_vix sh) in
  let NT := fold_left (fun a m => (a + N.of_nat (length (mtris m)))%N) (s_meshes sh) 0%N in
  let Kc := nthF fs 0 in
  let fs := tl fs in
  let P := tab_of (firstn (3 * nv) fs) 0%N (PositiveMap.empty _) in
  let fs := skipn (3 * nv) fs in
  let A := tab_of (firstn (N.to_nat NT) fs) 0%N (PositiveMap.empty _) in
  let fs := skipn (N.to_nat NT) fs in
  let ps := pairsF (s_pairs sh) fs in
  let fs := skipn (3 * length (s_pairs sh)) fs in
  let '(TS, TD) := fill_kernels NT (s_meshes sh) (s_pairs sh) fs in
  let g := mkGeom (s_vix sh) (s_meshes sh) ps (s_parts sh) (s_np sh) (s_nb sh) in
  let pos := fun v => (tget P (3 * v)%N, tget P (3 * v + 1)%N, tget P (3 * v + 2)%N) in
  let Sk := fun t1 t2 => tget TS (t1 * NT + t2)%N in
  let Dk := fun t1 t2 i => tget TD (3 * (t1 * NT + t2) + N.of_nat i)%N in
  let M := headmat o Kc pos (tget A) Sk Dk g in
  if headmat_ok o Kc pos (tget A) Sk Dk g
  then ([ST_OK; Z.of_N (hm_dim g)], dump o M (hm_dim g))
  else ([ST_ASSERT], []).

(* N from an injected S given by unknown index: S(i,j) = table at i*NP+j (NP = nb_parameters), symmetric
   use by the caller.  ints after the shape: pair number; output: the store after the N block alone. *)
Definition run_nblock (sh : shape) (pk : nat) (fs : list F) : list Z * list F :=
  let nv := length (s_vix sh) in
  let NT := fold_left (fun a m => (a + N.of_nat (length (mtris m)))%N) (s_meshes sh) 0%N in
  let coeff := nthF fs 0 in
  let fs := tl fs in
  let P := tab_of (firstn (3 * nv) fs) 0%N (PositiveMap.empty _) in
  let fs := skipn (3 * nv) fs in
  let A := tab_of (firstn (N.to_nat NT) fs) 0%N (PositiveMap.empty _) in
  let fs := skipn (N.to_nat NT) fs in
  let TS := tab_of fs 0%N (PositiveMap.empty _) in
  let NP := s_np sh in
  let g := mkGeom (s_vix sh) (s_meshes sh) [] (s_parts sh) (s_np sh) (s_nb sh) in
  let pos := fun v => (tget P (3 * v)%N, tget P (3 * v + 1)%N, tget P (3 * v + 2)%N) in
  let Sread := fun i j => tget TS (i * NP + j)%N in
  let '(a, b, _) := nth pk (s_pairs sh) (O, O, 0) in
  let m1 := nth a (s_meshes sh) empty_mesh in let m2 := nth b (s_meshes sh) empty_mesh in
  let M := if Nat.eqb a b then N_diag o pos (tget A) g sempty coeff Sread m1 (mverts m1)
           else N_off o pos (tget A) g sempty coeff Sread m1 m2 in
  ([ST_OK; Z.of_N NP], dump o M NP).

Definition frun_c10 (zs : list Z) (fs : list F) : list Z * list F :=
  match zs with
  | 1 :: w => match getShape w with Some (sh, []) => run_assemble sh fs | _ => ([-1], []) end
  | 2 :: w => match (do sh <- getShape; do k <- getN; ret (sh, k)) w with
              | Some ((sh, k), []) => run_nblock sh k fs | _ => ([-1], []) end
  | _ => ([-1], [])
  end.
End Run.
