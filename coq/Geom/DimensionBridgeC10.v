(* C10 -- the dimension of the head matrix for every geometry accepted by C11's model of Geometry::finalize, in both
   orderings of the unknowns: nb_parameters - nb_current_barrier_triangles counted in C11's own terms. *)
From OM Require Import Base.Lists Base.Ops Geom.MeshTopo Geom.GeomModel Geom.GeomProofs Geom.FinalizeProofs Geom.OldOrdering Geom.IndexBridge Geom.IndexBridgeC10.
From OM Require Geom.Assembly.
From Coq Require Import Reals Lia ZArith.
Local Open Scope Z_scope.

Lemma fin_idx_eq g hasc zero snz old fi : finalize g hasc zero snz old = (StOk, Some fi) ->
  fi_idx fi = generate_indices g old (mk_flags (fi_marks fi)) (mk_invalid (fi_marks fi)).
Proof.
  unfold finalize. destruct (Nat.eqb (length (g_doms g)) 0).
  - destruct (old && negb false && negb (Nat.eqb (length (g_meshes g)) 0))%bool; intros H; inversion H; subst; reflexivity.
  - destruct (outermost_domain g) as [k|]; [|discriminate].
    destruct (old && negb (check_nested g k) && negb (Nat.eqb (length (g_meshes g)) 0))%bool; intros H; inversion H; subst; reflexivity.
Qed.

(* default ordering: #vertices with an unknown + #triangles of current-carrying meshes *)
Theorem hm_dim_new g hasc zero snz fi sig sinv ind : finalize g hasc zero snz false = (StOk, Some fi) ->
  Assembly.hm_dim (to_igeom g fi sig sinv ind)
  = N.of_nat (valid_count (seq 0 (g_nv g)) (mk_invalid (fi_marks fi)) + ntris live (g_meshes g) (mk_flags (fi_marks fi))).
Proof.
  intros H. pose proof (generate_indices_new_spec g (mk_flags (fi_marks fi)) (mk_invalid (fi_marks fi))) as S.
  rewrite <- (fin_idx_eq _ _ _ _ _ _ H) in S. destruct S as (_ & _ & _ & _ & _ & _ & _ & Hn & Hb).
  unfold Assembly.hm_dim, to_igeom. simpl. rewrite Hn, Hb. lia.
Qed.

(* old ordering (meshes without shared vertices, as the code requires): every mesh vertex and every triangle of a
   current-carrying mesh *)
Theorem hm_dim_old g hasc zero snz fi sig sinv ind : finalize g hasc zero snz true = (StOk, Some fi) ->
  NoDup (flat_map lm_verts (g_meshes g)) -> (forall x, In x (flat_map lm_verts (g_meshes g)) -> (x < g_nv g)%nat) ->
  Assembly.hm_dim (to_igeom g fi sig sinv ind) = N.of_nat (old_total (g_meshes g) (mk_flags (fi_marks fi))).
Proof.
  intros H ND Hb. pose proof (old_ordering_spec g (mk_flags (fi_marks fi)) (mk_invalid (fi_marks fi)) ND Hb) as S.
  cbv zeta in S. rewrite <- (fin_idx_eq _ _ _ _ _ _ H) in S. destruct S as (_ & _ & _ & _ & _ & Hn & Hnb).
  unfold Assembly.hm_dim, to_igeom. simpl. rewrite Hn, Hnb. lia.
Qed.

(* every vertex of a mesh that takes part in the computation (not isolated) -- also a vertex it shares with an excluded
   mesh -- carries an unknown whose index is a row of the head matrix *)
Theorem participating_vertex_has_row g hasc zero snz fi sig sinv ind :
  finalize g hasc zero snz false = (StOk, Some fi) -> meshes_well_formed g ->
  forall k v, (k < length (g_meshes g))%nat -> f_iso (nth k (mk_flags (fi_marks fi)) flags0) = false ->
  In v (Assembly.mverts (Assembly.gmesh (to_igeom g fi sig sinv ind) k)) ->
  (Assembly.vix (to_igeom g fi sig sinv ind) v < Assembly.hm_dim (to_igeom g fi sig sinv ind))%N.
Proof.
  intros Hf Hw k v Hk Hiso Hv.
  pose proof (mesh_verts_valid g hasc zero snz fi Hf Hw sig sinv ind k Hk Hiso v Hv) as HV.
  apply (VV_In g fi) in HV. destruct HV as [u [-> [Hu Val]]].
  rewrite (vix_valid g hasc zero snz fi Hf sig sinv ind u Hu Val).
  pose proof (vindex_range g hasc zero snz fi Hf u Hu Val) as R.
  rewrite (hm_dim_new g hasc zero snz fi sig sinv ind Hf). unfold Nv in R. lia.
Qed.
