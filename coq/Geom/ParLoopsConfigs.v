(* C05 -- the loop descriptors under the other build configurations.
   clang (Linux, libomp): coq/Gen/ParLoopsLoops_clang.v re-checks every per-loop lemma against GenParLoops_clang.
   apple (macOS, clang): the pinned source compiles the omp critical of operatorDipolePotDer out (`#ifndef __APPLE__`,
   a workaround for a re-throw problem of libomp): the other eight loops are literally the g++ ones, the accumulation
   over shared vertices is unsynchronised -- refuted below on two triangles sharing an edge. *)
From OM Require Import Base.Lists Geom.ParLoops Geom.ParLoopsProofs Geom.ParLoopsGeom Geom.ParLoopsExamples.
From OM Require Gen.GenParLoops_gcc Gen.GenParLoops_clang Gen.GenParLoops_apple.
Local Open Scope Z_scope.

Module G := Gen.GenParLoops_gcc.
Module A := Gen.GenParLoops_apple.

Lemma apple_other_loops_are_the_gcc_ones :
  A.loop_operators_h_BlocksBase_D = G.loop_operators_h_BlocksBase_D /\
  A.loop_operators_h_DiagonalBlock_S = G.loop_operators_h_DiagonalBlock_S /\
  A.loop_operators_h_DiagonalBlock_N = G.loop_operators_h_DiagonalBlock_N /\
  A.loop_operators_h_NonDiagonalBlock_S = G.loop_operators_h_NonDiagonalBlock_S /\
  A.loop_operators_h_NonDiagonalBlock_N = G.loop_operators_h_NonDiagonalBlock_N /\
  A.loop_assembleHeadMat_cpp_deflate = G.loop_assembleHeadMat_cpp_deflate /\
  A.loop_operators_cpp_operatorFerguson = G.loop_operators_cpp_operatorFerguson /\
  A.loop_operators_cpp_operatorDipolePot = G.loop_operators_cpp_operatorDipolePot /\
  A.gen_region_count = G.gen_region_count /\ A.gen_progressbar_empty = G.gen_progressbar_empty /\
  A.gen_te_capture_locked = G.gen_te_capture_locked /\ A.gen_te_run_catches_all = G.gen_te_run_catches_all /\
  A.gen_te_rethrow_rethrows = G.gen_te_rethrow_rethrows.
Proof. repeat split; reflexivity. Qed.

(* the generated macOS loop on the example mesh, numbers = Z *)
Definition apple_potder_its : list (list (action Z unit)) :=
  r_its Z unit (A.loop_operators_cpp_operatorDipolePotDer Z unit Z.add 0 [ex_t4; ex_t5] 0%nat (fun _ _ _ => 1) (fun _ => None)).

Lemma apple_potder_not_DRF : ~ DRF Z unit apple_potder_its.
Proof.
  intros H.
  set (it0 := nth 0 apple_potder_its []). set (it1 := nth 1 apple_potder_its []).
  (* triangle 0 writes vertex 1 (second statement), triangle 1 reads vertex 1 (first statement) *)
  set (a := nth 3 (accesses Z unit it0) (Read (0%nat, 0), true)).
  set (b := nth 0 (accesses Z unit it1) (Read (0%nat, 0), true)).
  destruct (H 0%nat 1%nat it0 it1 a b ltac:(discriminate) eq_refl eq_refl) as [X _].
  - apply nth_In. vm_compute. lia.
  - apply nth_In. vm_compute. lia.
  - vm_compute. auto.
  - vm_compute in X. discriminate.
Qed.

Lemma apple_potder_schedule_dependent :
  exists sch s,
    finished Z unit (run Z unit sch (init Z unit apple_potder_its (fun _ => 0))) /\
    c_store Z unit (run Z unit sch (init Z unit apple_potder_its (fun _ => 0))) s
      <> run_seq Z unit apple_potder_its (fun _ => 0) s.
Proof.
  exists interleaved_schedule, (0%nat, 1). split.
  - intros th Hth. vm_compute in Hth. intuition; subst; reflexivity.
  - vm_compute. discriminate.
Qed.
