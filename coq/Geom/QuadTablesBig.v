(* The finite sweeps over the quadrature tables, evaluated with machine-word big integers (Bignums.BigZ over the kernel's
   primitive 63-bit integers) instead of binary Z/Q: the same statements as before about the plain rational `moment`,
   but cheap for every reduction machine -- in particular for coqchk, which re-checks vm_compute steps by lazy reduction
   (7.5 min for the Q version of the moments, 30 min for the permutation sweep; seconds now).
   Route:  moment rule a b c  ==  zmom rule a b c # D^(a+b+c+1)     (all table entries share the denominator D = 10^15)
           zmom rule a b c    =   [ bmom rule (a,b,c) ]              (BigZ specification lemmas). *)
From OM Require Import Gen.GenQuadTables Geom.Quadrature Geom.QuadTablesProofs.
From Coq Require Import ZArith QArith Qabs List Lia Bool Qfield.
From Bignums Require Import BigZ.
Import ListNotations.
Local Open Scope Q_scope.

Definition table_den : positive := 1000000000000000.
Definition node_den_ok (p : qpoint) : bool :=
  Pos.eqb (Qden (qp_l0 p)) table_den && Pos.eqb (Qden (qp_l1 p)) table_den && Pos.eqb (Qden (qp_l2 p)) table_den
  && Pos.eqb (Qden (qp_w p)) table_den.
Definition rule_den_ok (rule : list qpoint) : bool := forallb node_den_ok rule.

Fixpoint zpow (x : Z) (n : nat) : Z := match n with O => 1%Z | S k => (x * zpow x k)%Z end.
Definition zmom (rule : list qpoint) (a b c : nat) : Z :=
  fold_right (fun p acc => (Qnum (qp_w p) * (zpow (Qnum (qp_l0 p)) a * zpow (Qnum (qp_l1 p)) b * zpow (Qnum (qp_l2 p)) c) + acc)%Z) 0%Z rule.

Definition qD : Q := inject_Z (Zpos table_den).
Lemma qD_nz : ~ qD == 0. Proof. unfold qD, Qeq; cbn. lia. Qed.

Lemma entry_as_div x : Qden x = table_den -> x == inject_Z (Qnum x) / qD.
Proof. intros H. destruct x as [n d]; cbn in *. subst d. unfold qD. rewrite Qmake_Qdiv. reflexivity. Qed.

Lemma qpow_div n k : qpow (inject_Z n / qD) k == inject_Z (zpow n k) / qpow qD k.
Proof.
  induction k; cbn [qpow zpow].
  - unfold Qdiv. rewrite Qmult_1_l. reflexivity.
  - rewrite IHk, inject_Z_mult. field. split; [|apply qD_nz].
    clear IHk. induction k; cbn [qpow]; [discriminate|]. intros H. apply Qmult_integral in H. destruct H; [apply qD_nz; auto|auto].
Qed.

Lemma qpowD_nz k : ~ qpow qD k == 0.
Proof. induction k; cbn [qpow]; [discriminate|]. intros H. apply Qmult_integral in H. destruct H; [apply qD_nz; auto|auto]. Qed.

Lemma qpow_add x a b : qpow x (a + b) == qpow x a * qpow x b.
Proof. induction a; cbn [qpow Nat.add]; [ring|]. rewrite IHa. ring. Qed.

Lemma qpow_comp x y n : x == y -> qpow x n == qpow y n.
Proof. intros H. induction n; cbn [qpow]; [reflexivity|]. rewrite IHn, H. reflexivity. Qed.

Lemma term_as_Z (w l0 l1 l2 : Q) a b c :
  Qden w = table_den -> Qden l0 = table_den -> Qden l1 = table_den -> Qden l2 = table_den ->
  w * (qpow l0 a * qpow l1 b * qpow l2 c)
  == inject_Z (Qnum w * (zpow (Qnum l0) a * zpow (Qnum l1) b * zpow (Qnum l2) c)) / qpow qD (S (a + b + c)).
Proof.
  intros Hw H0 H1 H2.
  rewrite (qpow_comp _ _ a (entry_as_div l0 H0)), (qpow_comp _ _ b (entry_as_div l1 H1)), (qpow_comp _ _ c (entry_as_div l2 H2)).
  rewrite (entry_as_div w Hw) at 1.
  rewrite !qpow_div, !inject_Z_mult. cbn [qpow]. rewrite !qpow_add.
  pose proof qD_nz. pose proof (qpowD_nz a). pose proof (qpowD_nz b). pose proof (qpowD_nz c).
  field. repeat split; auto.
Qed.

Lemma moment_as_Z rule a b c : rule_den_ok rule = true ->
  moment rule a b c == inject_Z (zmom rule a b c) / qpow qD (S (a + b + c)).
Proof.
  intros H. unfold moment, zmom. induction rule as [|p r IH]; cbn [fold_right].
  - unfold Qdiv. rewrite Qmult_0_l. reflexivity.
  - cbn [rule_den_ok forallb] in H. apply andb_true_iff in H. destruct H as [Hp Hr]. rewrite (IH Hr).
    unfold node_den_ok in Hp. rewrite !andb_true_iff in Hp. destruct Hp as [[[H0 H1] H2] Hw].
    apply Pos.eqb_eq in H0, H1, H2, Hw.
    rewrite (term_as_Z (qp_w p) (qp_l0 p) (qp_l1 p) (qp_l2 p) a b c Hw H0 H1 H2).
    rewrite inject_Z_plus. pose proof (qpowD_nz (S (a + b + c))). field. auto.
Qed.

(* ---- BigZ evaluation ------------------------------------------------------------------------------------ *)
Local Open Scope bigZ_scope.
Fixpoint bpow (x : BigZ.t) (n : nat) : BigZ.t := match n with O => 1 | S k => x * bpow x k end.
Definition bmom (rule : list qpoint) (a b c : nat) : BigZ.t :=
  fold_right (fun p acc => BigZ.of_Z (Qnum (qp_w p)) *
                           (bpow (BigZ.of_Z (Qnum (qp_l0 p))) a * bpow (BigZ.of_Z (Qnum (qp_l1 p))) b * bpow (BigZ.of_Z (Qnum (qp_l2 p))) c)
                           + acc) 0 rule.
Lemma bpow_spec x n : [bpow x n] = zpow [x] n.
Proof. induction n; cbn [bpow zpow]; [apply BigZ.spec_1|]. rewrite BigZ.spec_mul, IHn. reflexivity. Qed.
Lemma bmom_spec rule a b c : [bmom rule a b c] = zmom rule a b c.
Proof.
  unfold bmom, zmom. induction rule as [|p r IH]; cbn [fold_right]; [apply BigZ.spec_0|].
  rewrite BigZ.spec_add, !BigZ.spec_mul, !bpow_spec, !BigZ.spec_of_Z, IH. reflexivity.
Qed.
Local Close Scope bigZ_scope.

(* the moment as a single fraction, numerator computed with BigZ *)
Definition moment_big (rule : list qpoint) (a b c : nat) : Q :=
  inject_Z (BigZ.to_Z (bmom rule a b c)) / qpow qD (S (a + b + c)).
Lemma moment_big_eq rule a b c : rule_den_ok rule = true -> moment_big rule a b c == moment rule a b c.
Proof. intros H. unfold moment_big. rewrite bmom_spec, (moment_as_Z rule a b c H). reflexivity. Qed.

(* ---- the moment sweeps ---------------------------------------------------------------------------------- *)
Definition moments_ok_big (rule : list qpoint) (d : nat) : bool :=
  rule_den_ok rule && forallb (fun m => let '(a, b, c) := m in within eps14 (moment_big rule a b c - dirichletQ a b c)) (monos d).

Lemma moments_ok_big_spec rule d : moments_ok_big rule d = true ->
  forall a b c, (a + b + c <= d)%nat ->
    - eps14 <= moment rule a b c - dirichletQ a b c /\ moment rule a b c - dirichletQ a b c <= eps14.
Proof.
  intros H a b c Hd. unfold moments_ok_big in H. apply andb_true_iff in H. destruct H as [Hden H].
  rewrite forallb_forall in H. specialize (H (a, b, c) (monos_complete d a b c Hd)). cbv beta iota in H.
  apply within_spec in H. rewrite (moment_big_eq rule a b c Hden) in H. exact H.
Qed.

Lemma rule0_moments_ok : moments_ok_big (rule_of_order 0) (rule_degree 0) = true. Proof. vm_compute. reflexivity. Qed.
Lemma rule1_moments_ok : moments_ok_big (rule_of_order 1) (rule_degree 1) = true. Proof. vm_compute. reflexivity. Qed.
Lemma rule2_moments_ok : moments_ok_big (rule_of_order 2) (rule_degree 2) = true. Proof. vm_compute. reflexivity. Qed.
Lemma rule3_moments_ok : moments_ok_big (rule_of_order 3) (rule_degree 3) = true. Proof. vm_compute. reflexivity. Qed.

Lemma rule_moments order : (order <= 3)%nat ->
  forall a b c, (a + b + c <= rule_degree order)%nat ->
    - eps14 <= moment (rule_of_order order) a b c - dirichletQ a b c /\
    moment (rule_of_order order) a b c - dirichletQ a b c <= eps14.
Proof.
  intros Ho. destruct order as [|[|[|[|o]]]]; try lia.
  - apply moments_ok_big_spec, rule0_moments_ok.
  - apply moments_ok_big_spec, rule1_moments_ok.
  - apply moments_ok_big_spec, rule2_moments_ok.
  - apply moments_ok_big_spec, rule3_moments_ok.
Qed.

(* ---- permutation invariance of the moments (rule 3) ------------------------------------------------------ *)
Definition eps15q : Q := 1 # 1000000000000000.
Definition mom_perm_ok_big (rule : list qpoint) (m : nat * nat * nat) : bool :=
  let '(a, b, c) := m in
  let m0 := moment_big rule a b c in
  within eps15q (m0 - moment_big rule b c a) && within eps15q (m0 - moment_big rule b a c).
Definition moms_perm_ok_big (rule : list qpoint) (d : nat) : bool := rule_den_ok rule && forallb (mom_perm_ok_big rule) (monos d).

Lemma mom_perm_big_spec rule d : moms_perm_ok_big rule d = true ->
  forall a b c, (a + b + c <= d)%nat ->
  (- eps15q <= moment rule a b c - moment rule b c a /\ moment rule a b c - moment rule b c a <= eps15q) /\
  (- eps15q <= moment rule a b c - moment rule b a c /\ moment rule a b c - moment rule b a c <= eps15q).
Proof.
  intros K a b c H. unfold moms_perm_ok_big in K. apply andb_true_iff in K. destruct K as [Hden K].
  rewrite forallb_forall in K. specialize (K (a, b, c) (monos_complete d a b c H)). unfold mom_perm_ok_big in K.
  rewrite andb_true_iff in K. destruct K as [K1 K2]. apply within_spec in K1, K2.
  rewrite (moment_big_eq rule a b c Hden), (moment_big_eq rule b c a Hden) in K1.
  rewrite (moment_big_eq rule a b c Hden), (moment_big_eq rule b a c Hden) in K2. split; assumption.
Qed.
Lemma rule3_moments_perm_ok : moms_perm_ok_big (rule_of_order 3) 8 = true. Proof. vm_compute. reflexivity. Qed.
Definition rule3_moments_perm := mom_perm_big_spec (rule_of_order 3) 8 rule3_moments_perm_ok.
