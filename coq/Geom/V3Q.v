(* Vectors of three numbers over a record of numeric operations (Base/Ops.v), and the exact
   rational instance used for witnesses and for the exact correspondence runs (C09, C12).
   Only + - * / and comparisons are used by the geometric models built on this file; the
   transcendental fields of the Q instance are dummies and are never called by them. *)
From Coq Require Import ZArith QArith Qreduction List Bool.
From OM Require Import Base.Ops.
Import ListNotations.

Declare Scope v3_scope.
Delimit Scope v3_scope with v3.

Section V3.
Context {F : Type} (o : Ops F).
Local Notation "x +! y" := (fadd o x y) (at level 50, left associativity).
Local Notation "x -! y" := (fsub o x y) (at level 50, left associativity).
Local Notation "x *! y" := (fmul o x y) (at level 40, left associativity).

Definition vec : Type := (F * F * F)%type.
Definition vx (v : vec) : F := fst (fst v).
Definition vy (v : vec) : F := snd (fst v).
Definition vz (v : vec) : F := snd v.
Definition mkv (x y z : F) : vec := (x, y, z).

Definition vsub (a b : vec) : vec := mkv (vx a -! vx b) (vy a -! vy b) (vz a -! vz b).
Definition vadd (a b : vec) : vec := mkv (vx a +! vx b) (vy a +! vy b) (vz a +! vz b).
Definition vneg (a : vec) : vec := mkv (fopp o (vx a)) (fopp o (vy a)) (fopp o (vz a)).
(* Vect3::operator*(double d) : (d*m0, d*m1, d*m2) *)
Definition vscale (d : F) (a : vec) : vec := mkv (d *! vx a) (d *! vy a) (d *! vz a).
(* dotprod : x*x' + y*y' + z*z' in this association *)
Definition vdot (a b : vec) : F := vx a *! vx b +! vy a *! vy b +! vz a *! vz b.
(* Vect3::norm2 : sqr(x)+sqr(y)+sqr(z) *)
Definition vnorm2 (a : vec) : F := vx a *! vx a +! vy a *! vy a +! vz a *! vz a.
(* CROSS macro / operator^ *)
Definition vcross (a b : vec) : vec :=
  mkv (vy a *! vz b -! vz a *! vy b) (vz a *! vx b -! vx a *! vz b) (vx a *! vy b -! vy a *! vx b).

(* three-element arrays indexed by 0,1,2 (any larger index reads/writes the last cell; never used) *)
Definition get3 {A} (a : A * A * A) (i : nat) : A :=
  match i with O => fst (fst a) | S O => snd (fst a) | _ => snd a end.
Definition set3 {A} (a : A * A * A) (i : nat) (v : A) : A * A * A :=
  match i with O => (v, snd (fst a), snd a) | S O => (fst (fst a), v, snd a) | _ => (fst (fst a), snd (fst a), v) end.
End V3.

(* ---- exact rational instance ---- *)
Definition Qltb (x y : Q) : bool := match Qcompare x y with Lt => true | _ => false end.
Definition Qleb (x y : Q) : bool := match Qcompare x y with Gt => false | _ => true end.
Definition Qabs' (x : Q) : Q := if Qltb x 0 then Qopp x else x.

Definition Qops : Ops Q :=
  mkOps Q 0%Q 1%Q
        (fun x y => Qred (Qplus x y)) (fun x y => Qred (Qminus x y))
        (fun x y => Qred (Qmult x y)) (fun x y => Qred (Qdiv x y))
        Qopp Qabs' Qltb Qleb Qeq_bool inject_Z
        (fun x => x) (fun x => x) (fun x _ => x) 0%Q.

(* wire helpers: a rational is sent as numerator over a per-case common denominator; results go
   out as (numerator, denominator) of the reduced fraction, or as a 2^-44 approximation from below
   when the reduced fraction does not fit 60 bits (the OCaml driver prints native ints). *)
Local Open Scope Z_scope.
Definition qofZ (n den : Z) : Q := Qred (Qmake n (Z.to_pos den)).
Definition BIG : Z := 2 ^ 60.
Definition SC : Z := 2 ^ 44.
Definition Qfloor' (q : Q) : Z := Z.div (Qnum q) (Zpos (Qden q)).
Definition outQ (q : Q) : list Z :=
  let r := Qred q in
  if (Z.abs (Qnum r) <? BIG) && (Zpos (Qden r) <? BIG) then [Qnum r; Zpos (Qden r)]
  else [Qfloor' (Qmult r (inject_Z SC)); SC].
