(* EXTRACT-Z: c15 run_c15 *)
(* Executable entry point of the C15 correspondence.  A coordinate token is the 64-bit pattern of the double
   (sent as two 32-bit halves); operator== identifies the two zeros; rnd is a finite table supplied by the
   harness side (identity outside the table). *)
From OM Require Import Base.Lists Base.Wire Geom.MeshCodec Geom.MeshFormat.
Local Open Scope Z_scope.

Definition Cz := Z.
Definition is_zero (x : Z) : bool := (x =? 0) || (x =? 9223372036854775808).
Definition ceqz (a b : Z) : bool := (a =? b) || (is_zero a && is_zero b).
Fixpoint lookup (tb : list (Z * Z)) (x : Z) : Z :=
  match tb with [] => x | (k, v) :: r => if k =? x then v else lookup r x end.

Definition getC : dec Z := do hi <- getZ; do lo <- getZ; ret (hi * 4294967296 + lo).
Definition getV3 : dec (V3 Z) := do x <- getC; do y <- getC; do z <- getC; ret (x, y, z).
Definition getTri : dec (nat * nat * nat) := do a <- getN; do b <- getN; do c <- getN; ret (a, b, c).
Definition getMeshIn : dec (list (V3 Z) * list (nat * nat * nat)) :=
  do n <- getN; do vs <- getMany n getV3; do k <- getN; do ts <- getMany k getTri; ret (vs, ts).
Definition getTable : dec (list (Z * Z)) :=
  do n <- getN; getMany n (do a <- getC; do b <- getC; ret (a, b)).

Definition outC (c : Z) : wire := [c / 4294967296; c mod 4294967296].
Definition outV3 (v : V3 Z) : wire := let '(x, y, z) := v in outC x ++ outC y ++ outC z.
Definition dump (m : mesh Z) : wire :=
  zn (length (mv m)) :: flat_map (fun g => zn g :: outV3 (nth g (gv m) (0, 0, 0))) (mv m)
  ++ zn (length (gv m)) :: zn (length (tr m)) :: flat_map (fun t => let '(a, b, c) := t in [zn a; zn b; zn c]) (tr m).

Definition mkmesh (flags : nat) (vs : list (V3 Z)) (ts : list (nat * nat * nat)) : res (mesh Z) :=
  match build_raw Z ceqz vs ts with
  | Ok m => Ok (if Nat.odd flags then update m else m)
  | e => e
  end.

Definition outTok (t : tok Z) : wire :=
  match t with
  | TNL => [0] | TW k => [1; zn k] | TNum n => [2; zn n] | TC c => 3 :: outC c | TNrm => [4]
  end.
Definition outB (b : bitem Z) : wire :=
  match b with BB x => [0; Z.of_N x] | BF c => 3 :: outC c | BNF => [4] end.

Inductive file := FT (s : list (tok Z)) | FB (s : list (bitem Z)).
Definition save_fmt (fmt : nat) (rnd : Z -> Z) (m : mesh Z) : res file :=
  let T := fun r => match r with Ok s => Ok (FT s) | Fail => Fail | Throw => Throw end in
  match fmt with
  | 0%nat => T (save_tri Z rnd 0 m)
  | 1%nat => T (save_off Z rnd 0 m)
  | 2%nat => T (save_bnd Z rnd 0 m)
  | 3%nat => match save_mesh Z rnd 0 m with Ok s => Ok (FB s) | Fail => Fail | Throw => Throw end
  | _ => T (save_vtk Z rnd 0 m)
  end.
Definition load_fmt (fmt : nat) (f : file) : res (mesh Z) :=
  match fmt, f with
  | 0%nat, FT s => load_tri Z ceqz s
  | 1%nat, FT s => load_off Z ceqz s
  | 2%nat, FT s => load_bnd Z ceqz s
  | 3%nat, FB s => load_mesh Z ceqz s
  | _, _ => Throw
  end.
Definition reload_fmt (fmt : nat) (g0 : list (V3 Z)) (f : file) : res (mesh Z) :=
  match fmt, f with
  | 0%nat, FT s => reload_tri Z ceqz g0 s
  | 1%nat, FT s => reload_off Z ceqz g0 s
  | 2%nat, FT s => reload_bnd Z ceqz g0 s
  | 3%nat, FB s => reload_mesh Z ceqz g0 s
  | _, _ => Throw
  end.
Definition outFile (f : file) : wire :=
  match f with FT s => flat_map outTok s | FB s => flat_map outB s end.

(* stage codes: 30 build threw, 31 save threw, 32 load threw, 33 the model's stream failed (outside the model) *)
Definition roundtrip (fmt flags : nat) (vs : list (V3 Z)) ts (tb : list (Z * Z)) : wire :=
  match mkmesh flags vs ts with
  | Ok m =>
      0 :: dump m ++
      match save_fmt fmt (lookup tb) m with
      | Ok f => match load_fmt fmt f with
                | Ok m' => 0 :: dump m'
                | Fail => [33] | Throw => [32]
                end
      | _ => [31]
      end
  | _ => [30]
  end.

(* om_mesh_convert rewrites every coordinate as v*1.0+0.0: the negative zero becomes the positive one *)
Definition nz (x : Z) : Z := if x =? 9223372036854775808 then 0 else x.
Definition retouch (m : mesh Z) : mesh Z :=
  mkMesh (map (fun v => let '(x, y, z) := v in (nz x, nz y, nz z)) (gv m)) (mv m) (tr m).

Definition rbind {A B} (r : res A) (f : A -> res B) : res B :=
  match r with Ok a => f a | Fail => Fail | Throw => Throw end.

Definition run_c15 (w : wire) : wire :=
  match w with
  (* API round trip *)
  | 1 :: w => run_dec (do fmt <- getN; do flags <- getN; do m <- getMeshIn; do tb <- getTable; ret (fmt, flags, m, tb)) w
                (fun '(fmt, flags, (vs, ts), tb) => roundtrip fmt flags vs ts tb)
  (* what a writer puts in the file *)
  | 2 :: w => run_dec (do fmt <- getN; do flags <- getN; do id <- getN; do m <- getMeshIn; do tb <- getTable; ret (fmt, flags, m, tb)) w
                (fun '(fmt, flags, (vs, ts), tb) =>
                   match mkmesh flags vs ts with
                   | Ok m => match save_fmt fmt (lookup tb) m with Ok f => 0 :: outFile f | _ => [31] end
                   | _ => [30]
                   end)
  (* Mesh::merge *)
  | 3 :: w => run_dec (do flags <- getN; do m1 <- getMeshIn; do m2 <- getMeshIn; ret (flags, m1, m2)) w
                (fun '(flags, (vs1, ts1), (vs2, ts2)) =>
                   match mkmesh flags vs1 ts1, mkmesh flags vs2 ts2 with
                   | Ok a, Ok b => match merge Z ceqz 0 a b with Ok m => 0 :: dump m | _ => [34] end
                   | _, _ => [30]
                   end)
  (* om_mesh_convert: load fmtA, correct_local_orientation, save fmtB; then load the result *)
  | 4 :: w => run_dec (do fa <- getN; do fb <- getN; do flags <- getN; do id <- getN; do m <- getMeshIn;
                       do ta <- getTable; do tb <- getTable; ret (fa, fb, flags, m, ta, tb)) w
                (fun '(fa, fb, flags, (vs, ts), ta, tb) =>
                   match rbind (mkmesh flags vs ts) (fun m =>
                         rbind (save_fmt fa (lookup ta) m) (fun f =>
                         rbind (load_fmt fa f) (fun m1 =>
                         rbind (save_fmt fb (lookup tb) (update (retouch m1))) (fun f2 => load_fmt fb f2)))) with
                   | Ok m' => 0 :: dump m'
                   | Fail => [33] | Throw => [32]
                   end)
  (* om_mesh_concat: load both, merge, save; then load the result *)
  | 5 :: w => run_dec (do fmt <- getN; do flags <- getN; do id <- getN; do m1 <- getMeshIn; do m2 <- getMeshIn;
                       do tb <- getTable; ret (fmt, flags, m1, m2, tb)) w
                (fun '(fmt, flags, (vs1, ts1), (vs2, ts2), tb) =>
                   let ld := fun vs ts => rbind (mkmesh flags vs ts) (fun m =>
                                          rbind (save_fmt fmt (lookup tb) m) (load_fmt fmt)) in
                   match rbind (ld vs1 ts1) (fun a => rbind (ld vs2 ts2) (fun b =>
                         rbind (merge Z ceqz 0 a b) (fun c =>
                         rbind (save_fmt fmt (lookup tb) c) (load_fmt fmt)))) with
                   | Ok m' => 0 :: dump m'
                   | Fail => [33] | Throw => [32]
                   end)
  (* tool chain: save fa (API), om_mesh_convert fa->fb, om_mesh_convert fb->fc, load fc (API); mesh before and after *)
  | 6 :: w => run_dec (do fa <- getN; do fb <- getN; do fc <- getN; do flags <- getN; do id <- getN; do m <- getMeshIn;
                       do ta <- getTable; do tb <- getTable; do tc <- getTable; ret (fa, fb, fc, flags, m, ta, tb, tc)) w
                (fun '(fa, fb, fc, flags, (vs, ts), ta, tb, tc) =>
                   match mkmesh flags vs ts with
                   | Ok m =>
                       0 :: dump m ++
                       match rbind (save_fmt fa (lookup ta) m) (fun f =>
                             rbind (load_fmt fa f) (fun m1 =>
                             rbind (save_fmt fb (lookup tb) (update (retouch m1))) (fun f2 =>
                             rbind (load_fmt fb f2) (fun m2 =>
                             rbind (save_fmt fc (lookup tc) (update (retouch m2))) (fun f3 => load_fmt fc f3))))) with
                       | Ok m' => 0 :: dump m'
                       | Fail => [33] | Throw => [32]
                       end
                   | _ => [30]
                   end)
  (* the same file loaded into a fresh Mesh and into a Mesh that has already loaded another file *)
  | 7 :: w => run_dec (do fmt <- getN; do flags <- getN; do id <- getN; do m1 <- getMeshIn; do m2 <- getMeshIn;
                       do tb <- getTable; ret (fmt, flags, m1, m2, tb)) w
                (fun '(fmt, flags, (vs1, ts1), (vs2, ts2), tb) =>
                   let sv := fun vs ts => rbind (mkmesh flags vs ts) (save_fmt fmt (lookup tb)) in
                   match sv vs1 ts1, sv vs2 ts2 with
                   | Ok f1, Ok f2 =>
                       match load_fmt fmt f2, rbind (load_fmt fmt f1) (fun a => reload_fmt fmt (gv a) f2) with
                       | Ok a, Ok b => 0 :: dump a ++ 0 :: dump b
                       | _, _ => [32]
                       end
                   | _, _ => [32]
                   end)
  (* format selection by file name: the mesh is saved under the given name (character codes) and loaded back *)
  | 8 :: w => run_dec (do flags <- getN; do n <- getN; do name <- getNs n; do m <- getMeshIn; do tb <- getTable; ret (flags, name, m, tb)) w
                (fun '(flags, name, (vs, ts), tb) =>
                   match mkmesh flags vs ts with
                   | Ok m =>
                       0 :: dump m ++
                       match format_of name with
                       | Some fmt =>
                           match save_fmt fmt (lookup tb) m with
                           | Ok f => if (fmt <=? 4)%nat then
                                       match load_fmt fmt f with Ok m' => 0 :: dump m' | Fail => [33] | Throw => [32] end
                                     else [31]
                           | _ => [31]
                           end
                       | None => [31]
                       end
                   | _ => [30]
                   end)
  (* a mesh given by its state (geometry vertices, vertices() as positions, triangles as positions): save, load *)
  | 10 :: w => run_dec (do fmt <- getN; do ng <- getN; do g <- getMany ng getV3; do nm <- getN; do mvl <- getNs nm;
                        do k <- getN; do ts <- getMany k getTri; do tb <- getTable; ret (fmt, g, mvl, ts, tb)) w
                (fun '(fmt, g, mvl, ts, tb) =>
                   match save_fmt fmt (lookup tb) (mkMesh g mvl ts) with
                   | Ok f => match load_fmt fmt f with Ok m' => 0 :: dump m' | Fail => [33] | Throw => [32] end
                   | _ => [31]
                   end)
  | _ => [-1]
  end.
