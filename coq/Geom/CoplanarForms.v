(* The degeneracy test shared by Vect3::solid_angle and analyticD3::f, in its two forms:
     absolute (pinned tree):   fabs(d) <  1e-10                    -- d is a volume (length^3)
     relative (repaired tree): fabs(d) <= 1e-10*(y1*y2*y3)         -- dimensionless
   The relative form is invariant under rescaling of lengths, the absolute one is not (rational witness).
   `kernels_coplanar_form` records which of the two Geom/Kernels.v currently transcribes. *)
From Coq Require Import Reals Lra QArith.
From OM Require Import Base.Ops Base.Vec3 Base.OpsR Base.Rigid Geom.Kernels Geom.ScaleKernels Geom.KernelProofs.
Local Open Scope R_scope.

Definition thrR : R := thr_1e10 OpsR.
Definition coplanar_abs (d y1 y2 y3 : R) : bool := Rltb (Rabs d) thrR.
Definition coplanar_rel (d y1 y2 y3 : R) : bool := Rleb (Rabs d) (thrR * (y1 * y2 * y3)).

Lemma thrR_val : thrR = / 10000000000.
Proof. unfold thrR, thr_1e10, fQ; cbn. lra. Qed.

Lemma coplanar_rel_scale s d y1 y2 y3 : 0 < s ->
  coplanar_rel (s * s * s * d) (s * y1) (s * y2) (s * y3) = coplanar_rel d y1 y2 y3.
Proof.
  intros Hs. unfold coplanar_rel.
  assert (H3 : 0 < s * s * s) by (apply Rmult_lt_0_compat; [apply Rmult_lt_0_compat |]; lra).
  rewrite Rabs_mult, (Rabs_pos_eq (s * s * s)) by lra.
  replace (thrR * (s * y1 * (s * y2) * (s * y3))) with (s * s * s * (thrR * (y1 * y2 * y3))) by ring.
  unfold Rleb. destruct (Rle_dec (s * s * s * Rabs d) (s * s * s * (thrR * (y1 * y2 * y3)))), (Rle_dec (Rabs d) (thrR * (y1 * y2 * y3))); try reflexivity; exfalso; nra.
Qed.

(* the absolute test changes its answer when a tetrahedron of volume 1e-9/6 (edges 1e-3) is shrunk by 10 *)
Lemma coplanar_abs_scale_refuted : exists s d y1 y2 y3, 0 < s /\
  coplanar_abs (s * s * s * d) (s * y1) (s * y2) (s * y3) <> coplanar_abs d y1 y2 y3.
Proof.
  exists (/ 10), (/ 1000000000), (/ 1000), (/ 1000), (/ 1000). split; [lra |].
  unfold coplanar_abs, Rltb. rewrite thrR_val.
  destruct (Rlt_dec (Rabs (/ 10 * / 10 * / 10 * / 1000000000)) (/ 10000000000)) as [H1 | H1];
  destruct (Rlt_dec (Rabs (/ 1000000000)) (/ 10000000000)) as [H2 | H2]; try discriminate; exfalso.
  - rewrite Rabs_pos_eq in H2 by lra. lra.
  - apply H1. rewrite Rabs_pos_eq by lra. lra.
Qed.

(* ... and it does so inside the kernel: the positive octant of edge 1e-3 seen from the origin subtends pi/2, its
   copy shrunk by 10 is reported as 0 (replayed on the C++ kernel by checks/c03.py) *)
Definition oct (e : R) : V3 * V3 * V3 := (mkV e 0 0, mkV 0 e 0, mkV 0 0 e).

Lemma solid_angle_octant_abs e :
  0 < e -> (forall d y1 y2 y3, coplanar_test OpsR d y1 y2 y3 = coplanar_abs d y1 y2 y3) ->
  solid_angle OpsR (mkV 0 0 0) (mkV e 0 0) (mkV 0 e 0) (mkV 0 0 e)
  = if Rlt_dec (e * e * e) thrR then 0 else PI / 2.
Proof.
  intros He Habs. unfold solid_angle; cbv zeta. rewrite Habs. unfold coplanar_abs, Rltb.
  assert (Hn : forall a b c, (a = e /\ b = 0 /\ c = 0) \/ (a = 0 /\ b = e /\ c = 0) \/ (a = 0 /\ b = 0 /\ c = e) ->
               normR (vsubR (mkV a b c) (mkV 0 0 0)) = e).
  { intros a b c H. unfold norm, norm2, sqr; cbn.
    replace ((a - 0) * (a - 0) + (b - 0) * (b - 0) + (c - 0) * (c - 0)) with (e * e) by (destruct H as [(-> & -> & ->) | [(-> & -> & ->) | (-> & -> & ->)]]; ring).
    apply sqrt_square; lra. }
  rewrite !Hn by tauto.
  assert (Hd : det3R (vsubR (mkV e 0 0) (mkV 0 0 0)) (vsubR (mkV 0 e 0) (mkV 0 0 0)) (vsubR (mkV 0 0 e) (mkV 0 0 0)) = e * e * e)
    by (unfold det3, dot, cross; cbn; ring).
  rewrite Hd. assert (H3 : 0 < e * e * e) by (apply Rmult_lt_0_compat; [apply Rmult_lt_0_compat |]; lra).
  rewrite Rabs_pos_eq by lra.
  destruct (Rlt_dec (e * e * e) thrR); [reflexivity |].
  assert (Hden : solid_angle_den OpsR (vsubR (mkV e 0 0) (mkV 0 0 0)) (vsubR (mkV 0 e 0) (mkV 0 0 0)) (vsubR (mkV 0 0 e) (mkV 0 0 0)) e e e = e * e * e)
    by (unfold solid_angle_den, dot; cbn; ring).
  rewrite Hden. cbn [fmul fatan2 f2 fZ fofZ OpsR]. unfold Ratan2.
  destruct (Rlt_dec 0 (e * e * e)); [| exfalso; lra].
  replace (e * e * e / (e * e * e)) with 1 by (field; lra). rewrite atan_1. lra.
Qed.

Lemma octant_witness_abs :
  (forall d y1 y2 y3, coplanar_test OpsR d y1 y2 y3 = coplanar_abs d y1 y2 y3) ->
  solid_angle OpsR (scl (/ 10) (mkV 0 0 0)) (scl (/ 10) (mkV (/ 1000) 0 0)) (scl (/ 10) (mkV 0 (/ 1000) 0)) (scl (/ 10) (mkV 0 0 (/ 1000)))
  <> solid_angle OpsR (mkV 0 0 0) (mkV (/ 1000) 0 0) (mkV 0 (/ 1000) 0) (mkV 0 0 (/ 1000)).
Proof.
  intros Habs.
  replace (scl (/ 10) (mkV 0 0 0)) with (mkV 0 0 0) by (unfold scl; v3).
  replace (scl (/ 10) (mkV (/ 1000) 0 0)) with (mkV (/ 10000) 0 0) by (unfold scl; v3; lra).
  replace (scl (/ 10) (mkV 0 (/ 1000) 0)) with (mkV 0 (/ 10000) 0) by (unfold scl; v3; lra).
  replace (scl (/ 10) (mkV 0 0 (/ 1000))) with (mkV 0 0 (/ 10000)) by (unfold scl; v3; lra).
  rewrite !solid_angle_octant_abs by (assumption || lra). rewrite thrR_val.
  destruct (Rlt_dec (/ 10000 * / 10000 * / 10000) (/ 10000000000)) as [H1 | H1]; [| exfalso; apply H1; lra].
  destruct (Rlt_dec (/ 1000 * / 1000 * / 1000) (/ 10000000000)) as [H2 | H2]; [exfalso; lra |].
  assert (0 < PI) by apply PI_RGT_0. lra.
Qed.

Lemma solid_angle_abs_scale_refuted :
  (forall d y1 y2 y3, coplanar_test OpsR d y1 y2 y3 = coplanar_abs d y1 y2 y3) ->
  exists s x v1 v2 v3, 0 < s /\
    solid_angle OpsR (scl s x) (scl s v1) (scl s v2) (scl s v3) <> solid_angle OpsR x v1 v2 v3.
Proof.
  intros Habs. exists (/ 10), (mkV 0 0 0), (mkV (/ 1000) 0 0), (mkV 0 (/ 1000) 0), (mkV 0 0 (/ 1000)). split; [lra |].
  apply octant_witness_abs; exact Habs.
Qed.

(* the same witness refutes analyticD3::f: its three components sum to the solid angle (C16: KernelProofs) *)
Lemma analyticD3_abs_scale_refuted :
  (forall d y1 y2 y3, coplanar_test OpsR d y1 y2 y3 = coplanar_abs d y1 y2 y3) ->
  exists s v0 v1 v2 x, 0 < s /\
    analyticD3_f OpsR (analyticD3_init OpsR (scl s v0) (scl s v1) (scl s v2)) (scl s x)
    <> analyticD3_f OpsR (analyticD3_init OpsR v0 v1 v2) x.
Proof.
  intros Habs. exists (/ 10), (mkV (/ 1000) 0 0), (mkV 0 (/ 1000) 0), (mkV 0 0 (/ 1000)), (mkV 0 0 0). split; [lra |].
  intros Heq. apply (octant_witness_abs Habs).
  rewrite <- !D3_components_sum_to_solid_angle_lemma. cbv zeta. rewrite Heq. reflexivity.
Qed.

(* which form does Geom/Kernels.v (and so the code it transcribes) have?  Provable exactly one way at any time. *)
Lemma kernels_coplanar_form :
  (forall d y1 y2 y3, coplanar_test OpsR d y1 y2 y3 = coplanar_abs d y1 y2 y3) \/
  (forall d y1 y2 y3, coplanar_test OpsR d y1 y2 y3 = coplanar_rel d y1 y2 y3).
Proof.
  first [ left; intros; unfold coplanar_test, coplanar_abs, thrR; cbn [fltb fabs OpsR]; reflexivity
        | right; intros; unfold coplanar_test, coplanar_rel, thrR; cbn [fleb fabs fmul OpsR]; first [reflexivity | f_equal; ring] ].
Qed.
