(* EXTRACT-F: c04 frun_c04 *)
(* C04 -- executable reference for the gains: P + A * solve(H, S) with our own partially pivoted Gaussian elimination,
   generic over the numeric operations (float instance for the correspondence, Q instance for the sanity examples).
   It is the *definition* the implementation paths are compared with (solver class), not a model of LAPACK. *)
From Coq Require Import List ZArith Bool Arith.
From OM Require Import Base.Ops Base.Wire.
Import ListNotations.

Section LA.
Context {F : Type} (o : Ops F).
Local Notation "x + y" := (fadd o x y).
Local Notation "x - y" := (fsub o x y).
Local Notation "x * y" := (fmul o x y).
Local Notation "x / y" := (fdiv o x y).
Definition row := list F.

Definition hd0 (r : row) : F := match r with [] => f0 o | x :: _ => x end.
(* r - f*p, componentwise *)
Fixpoint vsubmul (r p : row) (f : F) : row :=
  match r, p with x :: r', y :: p' => (x - f * y) :: vsubmul r' p' f | _, _ => [] end.
(* row with the largest |head| first, the others in any order *)
Fixpoint pick_pivot (best : row) (acc rows : list row) : row * list row :=
  match rows with
  | [] => (best, acc)
  | r :: rows' => if fltb o (fabs o (hd0 best)) (fabs o (hd0 r)) then pick_pivot r (best :: acc) rows'
                  else pick_pivot best (r :: acc) rows'
  end.
(* forward elimination of the augmented rows; result: triangular rows, row k starting at column k *)
Fixpoint forward (fuel : nat) (rows : list row) : list row :=
  match fuel, rows with
  | S k, r :: rs =>
    let '(p, others) := pick_pivot r [] rs in
    match p with
    | [] => []
    | a :: pt => p :: forward k (map (fun r => match r with [] => [] | b :: rt => vsubmul rt pt (b / a) end) others)
    end
  | _, _ => []
  end.
Fixpoint split_at (n : nat) (l : row) : row * row :=
  match n, l with
  | S k, x :: l' => let '(a, b) := split_at k l' in (x :: a, b)
  | _, _ => ([], l)
  end.
(* rhs - sum_j us_j * X_j *)
Fixpoint elim_known (rhs : row) (us : row) (X : list row) : row :=
  match us, X with u :: us', x :: X' => elim_known (vsubmul rhs x u) us' X' | _, _ => rhs end.
Fixpoint backsub (tri : list row) : list row :=
  match tri with
  | [] => []
  | r :: tri' =>
    let X := backsub tri' in
    match r with
    | [] => X
    | a :: rt => let '(us, rhs) := split_at (length X) rt in
                 map (fun v => v / a) (elim_known rhs us X) :: X
    end
  end.
(* solve H X = S; H, S as lists of rows *)
Definition solve (H S : list row) : list row :=
  backsub (forward (length H) (map (fun hs => fst hs ++ snd hs) (combine H S))).

Definition dot (a b : row) : F := fold_left (fun acc xy => acc + fst xy * snd xy) (combine a b) (f0 o).
Fixpoint transpose (m : nat) (M : list row) : list row :=   (* m = number of columns *)
  match m with
  | O => []
  | S k => map hd0 M :: transpose k (map (@tl F) M)
  end.
Definition matmul (A B : list row) (ncolB : nat) : list row :=
  let Bt := transpose ncolB B in map (fun a => map (dot a) Bt) A.
Definition matadd (A B : list row) : list row := map (fun ab => map (fun xy => fst xy + snd xy) (combine (fst ab) (snd ab))) (combine A B).

Fixpoint chunks (k m : nat) (l : row) : list row :=   (* k rows of m entries *)
  match k with O => [] | S k' => let '(a, b) := split_at m l in a :: chunks k' m b end.

(* gain = [P +] A * solve(H,S) *)
Definition gain (n nd me : nat) (withP : bool) (fs : row) : row :=
  let '(h, r1) := split_at (n * n) fs in
  let '(s, r2) := split_at (n * nd) r1 in
  let '(a, r3) := split_at (me * n) r2 in
  let X := solve (chunks n n h) (chunks n nd s) in
  let G := matmul (chunks me n a) X nd in
  concat (if withP then matadd (chunks me nd r3) G else G).

Definition frun_c04 (zs : list Z) (fs : list F) : list Z * list F :=
  match zs with
  | [n; nd; me; wp] => ([ST_OK; me; nd], gain (Z.to_nat n) (Z.to_nat nd) (Z.to_nat me) (negb (Z.eqb wp 0)) fs)
  | _ => ([(-1)%Z], [])
  end.
End LA.
