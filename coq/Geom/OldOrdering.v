(* OLD_ORDERING: per mesh, its vertex references then (if it carries current) its triangles.  The code asserts
   is_nested(); what the numbering really needs is that no vertex is referenced twice (neither by two meshes nor twice
   by one mesh) - that is the hypothesis here. *)
From OM Require Import Base.Lists Base.Ops Geom.MeshTopo Geom.GeomModel Geom.GeomProofs.
Local Open Scope Z_scope.

Fixpoint old_order (v : list Z) (ms : list lmesh) (fl : list flags) (l : list (list Z)) : list Z :=
  match ms, l with
  | m :: r, t :: lr => map (fun x => nth x v 0) (lm_verts m) ++ (if live (hd flags0 fl) then t else []) ++ old_order v r (tl fl) lr
  | _, _ => []
  end.

Fixpoint old_total (ms : list lmesh) (fl : list flags) : nat :=
  match ms with
  | [] => 0
  | m :: r => (length (lm_verts m) + (if live (hd flags0 fl) then length (lm_tris m) else 0) + old_total r (tl fl))%nat
  end.

Lemma map_nth_zseq (v : list Z) (vs : list nat) idx :
  (forall k, (k < length vs)%nat -> nth (nth k vs 0%nat) v 0 = idx + Z.of_nat k) ->
  map (fun x => nth x v 0) vs = zseq idx (length vs).
Proof.
  revert idx. induction vs as [|x r IH]; intros idx H; simpl; auto.
  rewrite zseq_S. f_equal.
  - specialize (H 0%nat ltac:(simpl; lia)). simpl in H. lia.
  - apply IH. intros k Hk. specialize (H (S k) ltac:(simpl; lia)). simpl in H. lia.
Qed.

Lemma old_order_ext v v' ms : forall fl l, (forall x, In x (flat_map lm_verts ms) -> nth x v 0 = nth x v' 0) ->
  old_order v ms fl l = old_order v' ms fl l.
Proof.
  induction ms as [|m r IH]; intros fl l H; simpl; auto. destruct l as [|t lr]; auto.
  f_equal.
  - apply map_ext_in. intros x Hx. apply H. simpl. apply in_or_app. left; auto.
  - f_equal. apply IH. intros x Hx. apply H. simpl. apply in_or_app. right; auto.
Qed.

Lemma NoDup_app_l {A} (a b : list A) : NoDup (a ++ b) -> NoDup a /\ NoDup b /\ forall x, In x a -> ~ In x b.
Proof.
  induction a as [|x a IH]; simpl; intros H.
  - split; [constructor|]. split; auto.
  - inversion H; subst. destruct (IH H3) as (A1 & A2 & A3). split.
    + constructor; auto. intros C. apply H2. apply in_or_app; left; auto.
    + split; auto. intros y [<-|Hy]; auto. intros C. apply H2. apply in_or_app; right; auto.
Qed.

Lemma zseq_0 a : zseq a 0 = [].
Proof. reflexivity. Qed.

Ltac zs := rewrite !zseq_app; rewrite ?zseq_0, ?app_nil_r, <- ?app_assoc; simpl; repeat (f_equal; try lia).

Lemma old_spec ms : forall fl vidx idx v pre i b nb0 l b' nb,
  number_old ms fl vidx idx = (v, pre, i) ->
  number_barrier_tris ms fl pre b nb0 = (l, b', nb) ->
  NoDup (flat_map lm_verts ms) -> (forall x, In x (flat_map lm_verts ms) -> (x < length vidx)%nat) ->
  length v = length vidx
  /\ (forall x, ~ In x (flat_map lm_verts ms) -> nth x v 0 = nth x vidx 0)
  /\ old_order v ms fl l = zseq idx (old_total ms fl) /\ i = idx + Z.of_nat (old_total ms fl)
  /\ length l = length ms
  /\ sel barf fl l = zseq b (ntris barf ms fl) /\ b' = b + Z.of_nat (ntris barf ms fl)
  /\ nb = nb0 + Z.of_nat (ntris barf ms fl)
  /\ sel isof fl l = repeat (-1) (ntris isof ms fl).
Proof.
  induction ms as [|m r IH]; intros fl vidx idx v pre i b nb0 l b' nb H1 H2 ND Hb; simpl in H1, H2.
  - inversion H1; inversion H2; subst. simpl. repeat split; auto; lia.
  - simpl in ND. destruct (NoDup_app_l _ _ ND) as (NDm & NDr & Dis).
    destruct (assign vidx (lm_verts m) idx) as [v1 i1] eqn:EA.
    destruct (assign_length _ _ _ _ _ EA) as [Lv1 Ei1].
    destruct (assign_spec _ _ _ _ _ NDm ltac:(intros x Hx; apply Hb; simpl; apply in_or_app; left; auto) EA) as [As1 As2].
    assert (Hb1 : forall x, In x (flat_map lm_verts r) -> (x < length v1)%nat)
      by (intros x Hx; rewrite Lv1; apply Hb; simpl; apply in_or_app; right; auto).
    unfold live, barf, isof in *. simpl.
    destruct (hd flags0 fl) as [cb iso out] eqn:Ef. simpl in *.
    assert (Vm : forall v2, (forall x, ~ In x (flat_map lm_verts r) -> nth x v2 0 = nth x v1 0) ->
                 map (fun x => nth x v2 0) (lm_verts m) = zseq idx (length (lm_verts m))).
    { intros v2 Hv2. apply map_nth_zseq. intros k Hk. rewrite Hv2; [apply As1; auto|].
      apply Dis. apply nth_In; auto. }
    assert (Um : forall v2 x, (forall y, ~ In y (flat_map lm_verts r) -> nth y v2 0 = nth y v1 0) ->
                 ~ In x (lm_verts m ++ flat_map lm_verts r) -> nth x v2 0 = nth x vidx 0).
    { intros v2 x Hv2 Hx. rewrite Hv2 by (intros C; apply Hx; apply in_or_app; right; auto).
      apply As2. intros C; apply Hx; apply in_or_app; left; auto. }
    subst i1.
    destruct iso, cb; simpl in *.
    + destruct (number_old r (tl fl) v1 (idx + Z.of_nat (length (lm_verts m)))) as [[v2 p1] i2] eqn:R1. inversion H1; subst. simpl in H2.
      destruct (number_barrier_tris r (tl fl) p1 b nb0) as [[l1 b1] n1] eqn:R2. inversion H2; subst.
      destruct (IH _ _ _ _ _ _ _ _ _ _ _ R1 R2 NDr Hb1) as (A & B & C & D & E & G & I & J & K). simpl. rewrite ?Ef; simpl.
      rewrite (Vm _ B), C, repeat_app.
      split; [lia|]. split; [intros x Hx; apply Um; auto|]. split; [zs|].
      split; [lia|]. split; [lia|]. split; [auto|]. split; [auto|]. split; [auto|]. f_equal; auto.
    + destruct (number_old r (tl fl) v1 (idx + Z.of_nat (length (lm_verts m)))) as [[v2 p1] i2] eqn:R1. inversion H1; subst. simpl in H2.
      destruct (number_barrier_tris r (tl fl) p1 b nb0) as [[l1 b1] n1] eqn:R2. inversion H2; subst.
      destruct (IH _ _ _ _ _ _ _ _ _ _ _ R1 R2 NDr Hb1) as (A & B & C & D & E & G & I & J & K). simpl. rewrite ?Ef; simpl.
      rewrite (Vm _ B), C.
      split; [lia|]. split; [intros x Hx; apply Um; auto|]. split; [zs|].
      split; [lia|]. split; [lia|]. split; [auto|]. split; [auto|]. split; [auto|]. auto.
    + destruct (number_old r (tl fl) v1 (idx + Z.of_nat (length (lm_verts m)))) as [[v2 p1] i2] eqn:R1. inversion H1; subst. simpl in H2.
      destruct (number_barrier_tris r (tl fl) p1 (b + Z.of_nat (length (lm_tris m))) (nb0 + Z.of_nat (length (lm_tris m)))) as [[l1 b1] n1] eqn:R2.
      inversion H2; subst.
      destruct (IH _ _ _ _ _ _ _ _ _ _ _ R1 R2 NDr Hb1) as (A & B & C & D & E & G & I & J & K). simpl. rewrite ?Ef; simpl.
      rewrite (Vm _ B), C, G.
      split; [lia|]. split; [intros x Hx; apply Um; auto|]. split; [zs|].
      split; [lia|]. split; [lia|]. split; [rewrite zseq_app; reflexivity|]. split; [lia|]. split; [lia|]. auto.
    + destruct (number_old r (tl fl) v1 (idx + Z.of_nat (length (lm_verts m)) + Z.of_nat (length (lm_tris m)))) as [[v2 p1] i2] eqn:R1. inversion H1; subst. simpl in H2.
      destruct (number_barrier_tris r (tl fl) p1 b nb0) as [[l1 b1] n1] eqn:R2. inversion H2; subst.
      destruct (IH _ _ _ _ _ _ _ _ _ _ _ R1 R2 NDr Hb1) as (A & B & C & D & E & G & I & J & K). simpl. rewrite ?Ef; simpl.
      rewrite (Vm _ B), C.
      split; [lia|]. split; [intros x Hx; apply Um; auto|].
      split; [zs|].
      split; [lia|]. split; [lia|]. split; [auto|]. split; [auto|]. split; [auto|]. auto.
Qed.

Theorem old_ordering_spec g fl invalid :
  NoDup (flat_map lm_verts (g_meshes g)) -> (forall x, In x (flat_map lm_verts (g_meshes g)) -> (x < g_nv g)%nat) ->
  let ix := generate_indices g true fl invalid in
  let No := old_total (g_meshes g) fl in
  let B := ntris barf (g_meshes g) fl in
  old_order (ix_v ix) (g_meshes g) fl (ix_t ix) = zseq 0 No
  /\ sel barf fl (ix_t ix) = zseq (Z.of_nat No) B
  /\ sel isof fl (ix_t ix) = repeat (-1) (ntris isof (g_meshes g) fl)
  /\ length (ix_v ix) = g_nv g /\ length (ix_t ix) = length (g_meshes g)
  /\ ix_n ix = Z.of_nat No + Z.of_nat B /\ ix_nb ix = Z.of_nat B.
Proof.
  intros ND Hb. unfold generate_indices.
  destruct (number_old (g_meshes g) fl (repeat (-1) (g_nv g)) 0) as [[v pre] i] eqn:R1.
  destruct (number_barrier_tris (g_meshes g) fl pre i 0) as [[t n] nb] eqn:R2. simpl.
  assert (Hb' : forall x, In x (flat_map lm_verts (g_meshes g)) -> (x < length (repeat (-1)%Z (g_nv g)))%nat)
    by (intros x Hx; rewrite repeat_length; auto).
  destruct (old_spec _ _ _ _ _ _ _ _ _ _ _ _ R1 R2 ND Hb') as (A & B0 & C & D & E & G & I & J & K).
  rewrite repeat_length in A. subst. repeat split; auto; lia.
Qed.
