(* OpenMEEG/include/integrator.h transcribed: class Integrator (safe_order, integrate, triangle_integration,
   adaptive_integration), generic over Ops and over the result type T of the integrand (double or Vect3 in
   the library).  The tables nbPts / rules[4][16] are NOT written here: they are regenerated from the source
   on every run by translators/t_quad.py into Gen/GenQuadTables.v.   DEFINITIONS ONLY. *)
From OM Require Import Base.Ops Base.Vec3 Gen.GenQuadTables.
From Coq Require Import ZArith QArith List.
Import ListNotations.

(* what the template needs from the result type T: T result = 0.0;  +=;  coarse-refined;  double*T;  norm() *)
Record RSpace (F T : Type) := mkRSpace {
  rs_zero : T; rs_add : T -> T -> T; rs_sub : T -> T -> T; rs_scale : F -> T -> T; rs_norm : T -> F }.
Arguments rs_zero {F T}. Arguments rs_add {F T}. Arguments rs_sub {F T}. Arguments rs_scale {F T}. Arguments rs_norm {F T}.

(* a rule in exact form: barycentric coordinates and weight, as the decimal literals of the source *)
Definition qpoint := (Q * Q * Q * Q)%type.
Definition qp_l0 (p : qpoint) : Q := let '(a, _, _, _) := p in a.
Definition qp_l1 (p : qpoint) : Q := let '(_, b, _, _) := p in b.
Definition qp_l2 (p : qpoint) : Q := let '(_, _, c, _) := p in c.
Definition qp_w  (p : qpoint) : Q := let '(_, _, _, w) := p in w.

(* rules[order][0 .. nbPts[order]-1]  -- the loop bound of triangle_integration *)
Definition rule_of_order (order : nat) : list qpoint :=
  firstn (nth order gen_nbPts O) (nth order gen_rules []).

(* static unsigned safe_order(const unsigned n) *)
Definition safe_order (n : nat) : nat :=
  if andb (Nat.ltb 0 n) (Nat.ltb n 4) then n else if Nat.ltb n 1 then 1%nat else 3%nat.

Section Quadrature.
  Context {F : Type} (o : Ops F).
  Local Notation V := (vec3 F).

  (* T = double:  norm(a) = fabs(a);   T = Vect3:  norm(a) = a.norm();  double*Vect3 = (d*x,d*y,d*z) *)
  Definition RS_scalar : RSpace F F :=
    {| rs_zero := f0 o; rs_add := fadd o; rs_sub := fsub o; rs_scale := fmul o; rs_norm := fabs o |}.
  Definition RS_vec3 : RSpace F V :=
    {| rs_zero := vconst (f0 o); rs_add := vadd o; rs_sub := vsub o; rs_scale := vscale o; rs_norm := norm o |}.

  Context {T : Type} (rs : RSpace F T).

  (* Vect3 v(0,0,0); for j<3: v.multadd(barycentric_coordinates[j],triangle[j]) *)
  Definition bary_point (l0 l1 l2 : F) (t0 t1 t2 : V) : V :=
    vmultadd o (vmultadd o (vmultadd o (vzero o) l0 t0) l1 t1) l2 t2.
  Definition quad_node (p : qpoint) (t0 t1 t2 : V) : V :=
    bary_point (fQ o (qp_l0 p)) (fQ o (qp_l1 p)) (fQ o (qp_l2 p)) t0 t1 t2.

  (* result = 0.0; for i<nbPts[order]: result += rules[order][i].weight*function(v);
     area2 = crossprod(triangle[1]-triangle[0],triangle[2]-triangle[0]).norm();  return result*area2 *)
  Definition area2 (t0 t1 t2 : V) : F := norm o (cross o (vsub o t1 t0) (vsub o t2 t0)).

  Definition rule_sum (rule : list qpoint) (f : V -> T) (t0 t1 t2 : V) : T :=
    fold_left (fun acc p => rs_add rs acc (rs_scale rs (fQ o (qp_w p)) (f (quad_node p t0 t1 t2)))) rule (rs_zero rs).

  Definition triangle_integration_rule (rule : list qpoint) (f : V -> T) (t0 t1 t2 : V) : T :=
    rs_scale rs (area2 t0 t1 t2) (rule_sum rule f t0 t1 t2).

  Definition triangle_integration (order : nat) := triangle_integration_rule (rule_of_order order).

  (* 0.5*(a+b) *)
  Definition midpoint (a b : V) : V := vscale o (fQ o (1 # 2)) (vadd o a b).

  (* adaptive_integration(function,triangle,coarse,level); level is the recursion fuel (unsigned, level-1 per call,
     stop at 0) *)
  Fixpoint adaptive_integration_rule (rule : list qpoint) (tolerance : F) (f : V -> T) (t0 t1 t2 : V)
                                     (coarse : T) (level : nat) {struct level} : T :=
    let m0 := midpoint t1 t2 in
    let m1 := midpoint t2 t0 in
    let m2 := midpoint t0 t1 in
    let i0 := triangle_integration_rule rule f t0 m1 m2 in
    let i1 := triangle_integration_rule rule f m0 t1 m2 in
    let i2 := triangle_integration_rule rule f m0 m1 t2 in
    let i3 := triangle_integration_rule rule f m0 m1 m2 in
    let refined := rs_add rs (rs_add rs (rs_add rs (rs_add rs (rs_zero rs) i0) i1) i2) i3 in
    match level with
    | O => refined
    | S level' =>
      if fleb o (rs_norm rs (rs_sub rs coarse refined)) (fmul o tolerance (rs_norm rs coarse)) then refined
      else
        rs_add rs (rs_add rs (rs_add rs (rs_add rs (rs_zero rs)
          (adaptive_integration_rule rule tolerance f t0 m1 m2 i0 level'))
          (adaptive_integration_rule rule tolerance f m0 t1 m2 i1 level'))
          (adaptive_integration_rule rule tolerance f m0 m1 t2 i2 level'))
          (adaptive_integration_rule rule tolerance f m0 m1 m2 i3 level')
    end.

  (* Integrator(ord,levels,tol).integrate(function,triangle) *)
  Definition integrate (ord : nat) (max_depth : nat) (tolerance : F) (f : V -> T) (t0 t1 t2 : V) : T :=
    let rule := rule_of_order (safe_order ord) in
    let coarse := triangle_integration_rule rule f t0 t1 t2 in
    match max_depth with
    | O => coarse
    | _ => adaptive_integration_rule rule tolerance f t0 t1 t2 coarse max_depth
    end.
End Quadrature.
