(* C20 — model of OpenMEEG/include/commandline.h and of the argument handling of the command-line tools,
   as the code is (not as it should be).  Pure list/string logic; no proofs in this file.

   A command line is [argv : list tok]; a token is the list of byte codes of a C string.
   [find_argument], [num_args], the [option] overloads, typed options and [assert_non_conflicting_options]
   follow commandline.h line by line.  The per-tool part (which names, which parameter lists, which
   [opt_parms[k]] under which guard, which early returns) is NOT written here: it is the table
   [Gen.GenCli.gen_tools] regenerated from the sources by translators/t_cli.py, interpreted by [run_tool]. *)
From Coq Require Import List Arith ZArith Bool.
Import ListNotations.
Local Open Scope Z_scope.

(* ---------------------------------------------------------------- tokens *)
Definition tok := list Z.

Fixpoint tok_eqb (a b : tok) : bool :=
  match a, b with
  | [], [] => true
  | x :: a', y :: b' => (x =? y) && tok_eqb a' b'
  | _, _ => false
  end.

Definition starts_with (c : Z) (t : tok) : bool :=
  match t with x :: _ => x =? c | [] => false end.
Definition is_dash (t : tok) : bool := starts_with 45 t.                   (* first character of the argument is '-' *)
Definition is_optional_name (s : tok) : bool := starts_with 91 s.         (* parm[0]=='[' *)

(* ---------------------------------------------------------------- commandline.h *)
(* find_argument: first position (argv[0] included) whose string equals name; None is end() *)
Fixpoint find_from (name : tok) (l : list tok) (i : nat) : option nat :=
  match l with
  | [] => None
  | t :: r => if tok_eqb name t then Some i else find_from name r (S i)
  end.
Definition find_argument (argv : list tok) (name : tok) : option nat := find_from name argv 0.

(* num_args: tokens after position i up to the end or to the first one starting with '-' *)
Fixpoint count_args (l : list tok) : nat :=
  match l with
  | [] => O
  | t :: r => if is_dash t then O else S (count_args r)
  end.
Definition num_args (argv : list tok) (i : nat) : nat := count_args (skipn (S i) argv).

Inductive res (A : Type) : Type := Ret (a : A) | Exit (c : Z).
Arguments Ret {A} a. Arguments Exit {A} c.

(* char** option(const std::string& option,const Strings& parms,const std::size_t num_mandatory_parms) *)
Definition option3 (argv : list tok) (name : tok) (nmand : nat) : res (option nat) :=
  match find_argument argv name with
  | None => Ret None
  | Some i => if (num_args argv i <? nmand)%nat then Exit 1 else Ret (Some i)
  end.

Definition mandatory (parms : list tok) : nat :=
  (List.length parms - List.length (filter is_optional_name parms))%nat.

(* the alias loop of option(const Strings& options,const Strings& parms); found = mandatory_args *)
Fixpoint alias_loop (argv : list tok) (aliases : list tok) (nmand : nat) (found : option nat) : res (option nat) :=
  match aliases with
  | [] => Ret found
  | a :: r =>
      match option3 argv a nmand with
      | Exit c => Exit c
      | Ret None => alias_loop argv r nmand found
      | Ret (Some i) =>
          match found with
          | Some _ => Exit 1                       (* "provided multiple times" *)
          | None => alias_loop argv r nmand (Some i)
          end
      end
  end.

(* typed options: the token after the first occurrence of the name, whatever it starts with *)
Inductive tval : Type := VAbsent | VAtEnd | VAt (pos : nat) (t : tok).
Definition typed_lookup (argv : list tok) (name : tok) : tval :=
  match find_argument argv name with
  | None => VAbsent
  | Some i => match nth_error argv (S i) with None => VAtEnd | Some t => VAt (S i) t end
  end.

Definition is_space (c : Z) : bool := ((9 <=? c) && (c <=? 13)) || (c =? 32).
Fixpoint drop_ws (t : tok) : tok :=
  match t with c :: r => if is_space c then drop_ws r else t | [] => [] end.
Fixpoint take_word (t : tok) : tok :=
  match t with c :: r => if is_space c then [] else c :: take_word r | [] => [] end.
Definition first_word (t : tok) : tok := take_word (drop_ws t).

(* parse_value<std::string>: iss >> value (value keeps the default when nothing can be extracted) *)
Definition string_value (argv : list tok) (name : tok) (dflt : tok) : tok :=
  match typed_lookup argv name with
  | VAt _ t => if is_dash t then dflt                      (* a string option never takes the next option as value *)
               else match first_word t with [] => dflt | w => w end
  | _ => dflt
  end.
Definition bool_value (argv : list tok) (name : tok) (dflt : bool) : bool :=
  match find_argument argv name with None => dflt | Some _ => negb dflt end.

Definition tok_h : tok := [45; 104].                        (* "-h" *)
Definition tok_help : tok := [45; 45; 104; 101; 108; 112].  (* "--help" *)
Definition help_mode (argv : list tok) : bool :=
  match find_argument argv tok_h, find_argument argv tok_help with
  | None, None => false
  | _, _ => true
  end.

(* ---------------------------------------------------------------- per-tool tables (filled by T4) *)
Inductive gatom : Type := AEq (c : nat) | ANe (c : nat) | AGe (c : nat) | ALt (c : nat).
Definition atom_holds (a : gatom) (n : nat) : bool :=
  match a with
  | AEq c => (n =? c)%nat
  | ANe c => negb (n =? c)%nat
  | AGe c => (c <=? n)%nat
  | ALt c => (n <? c)%nat
  end.
(* conjunction of comparisons of cmd.num_args(opt_parms) with constants *)
Definition guard_holds (g : list gatom) (n : nat) : bool := forallb (fun a => atom_holds a n) g.

(* what a parameter is: as documented by the help text (from its wording) / as used by the code (from the type it is
   handed to: Geometry constructor argument 0 or 1, Matrix, SymMatrix, SparseMatrix, Sensors, Mesh, save, a string) *)
Inductive pkind : Type := PGeom | PCond | PMatrix | PSym | PSparse | PSensors | PMesh | PName | POut | PAny.
Definition pkind_code (p : pkind) : nat :=
  match p with PGeom => 0 | PCond => 1 | PMatrix => 2 | PSym => 3 | PSparse => 4 | PSensors => 5 | PMesh => 6 | PName => 7 | POut => 8 | PAny => 9 end%nat.
Definition compat (doc used : pkind) : bool :=
  (pkind_code doc =? pkind_code used)%nat || ((pkind_code doc =? 9)%nat && (pkind_code used =? 7)%nat).

Record use : Type := { u_k : nat; u_guard : list gatom; u_sink : tok; u_argpos : nat; u_kind : pkind }.
Record block : Type := {
  b_aliases : list tok;
  b_multi : bool;              (* brace-list overload (optional [names] counted) vs single-name overload *)
  b_parms : list tok;
  b_variant : list tok;     (* aliases that select the variant inside the block (via opt_parms[0]) *)
  b_geo : list tok;         (* one entry per Geometry built in the block: the boolean option variable passed as OLD_ORDERING, [] if none *)
  b_doc : list (pkind * bool); (* parameters in the order the help text lists them; true = optional *)
  b_uses : list use }.
Inductive kind : Type := KString | KDouble | KBool.
Record decl : Type := { d_var : tok; d_name : tok; d_kind : kind; d_default : tok }.
Inductive cond : Type :=
  | CArgcLt (k : nat) | CHelp | CEmpty (var : tok)
  | CManyOptions (ignored : list tok)     (* cmd.num_options(ignored)>1 *)
  | CUnknown.                             (* cmd.unknown_argument()!=nullptr *)
Record precheck : Type := { pc_conds : list cond; pc_calls_help : bool; pc_ret : Z }.
(* the conversion of om_matrix_convert: which option variable names the input file, the output file, the explicit
   input / output format, and the name whose suffix selects the output format when none is given *)
Record conv : Type := { cv_in_file : tok; cv_out_file : tok; cv_in_fmt : tok; cv_out_fmt : tok; cv_suffix : tok }.
Record tool : Type := {
  t_name : tok;
  t_decls : list decl;
  t_help_exit : option Z;               (* help() itself calls exit(c) *)
  t_pre : list precheck;                (* early returns, in source order *)
  t_argv_uses : list (nat * tok);       (* argv[k] read after the early returns *)
  t_blocks : list block;
  t_unknown_exit : option Z;            (* if (num_options==0) exit(c) *)
  t_documented : list tok;              (* option names introduced by the help text *)
  t_conv : option conv }.               (* om_matrix_convert: option variables feeding the conversion *)

Definition nmand (b : block) : nat :=
  if b_multi b then mandatory (b_parms b) else List.length (b_parms b).
Definition block_option (argv : list tok) (b : block) : res (option nat) :=
  alias_loop argv (b_aliases b) (nmand b) None.

(* ---------------------------------------------------------------- early returns *)
Definition decl_string (argv : list tok) (d : decl) : tok :=
  string_value argv (d_name d) (d_default d).
Definition var_empty (t : tool) (argv : list tok) (v : tok) : bool :=
  match find (fun d => tok_eqb (d_var d) v) (t_decls t) with
  | Some d => match decl_string argv d with [] => true | _ => false end
  | None => false
  end.
(* CommandLine::num_options: arguments after argv[0] that start with '-' and are not in the ignored list *)
Definition counted_option (ign : list tok) (a : tok) : bool := is_dash a && negb (existsb (tok_eqb a) ign).
Definition num_options (argv : list tok) (ign : list tok) : nat :=
  List.length (filter (counted_option ign) (tl argv)).

(* CommandLine::used after the declarations: argv[0], the first -h / --help, the first occurrence of every declared
   option name and the value taken after it (none for flags; for strings only when it does not start with '-') *)
Definition value_taken (d : decl) (argv : list tok) (j : nat) : bool :=
  match d_kind d, nth_error argv (S j) with
  | KBool, _ => false
  | _, None => false
  | KString, Some v => negb (is_dash v)
  | KDouble, Some _ => true
  end.
Definition marked_by (argv : list tok) (name : tok) (i : nat) : bool :=
  match find_argument argv name with Some j => (i =? j)%nat | None => false end.
Definition marked (t : tool) (argv : list tok) (i : nat) : bool :=
  (i =? 0)%nat || marked_by argv tok_h i || marked_by argv tok_help i
  || existsb (fun d => match find_argument argv (d_name d) with
                       | Some j => (i =? j)%nat || (value_taken d argv j && (i =? S j)%nat)
                       | None => false
                       end) (t_decls t).
Definition unknown_argument (t : tool) (argv : list tok) : option nat :=
  find (fun i => negb (marked t argv i)) (seq 1 (List.length argv - 1)).

Definition cond_holds (t : tool) (argv : list tok) (c : cond) : bool :=
  match c with
  | CArgcLt k => (List.length argv <? k)%nat
  | CHelp => help_mode argv
  | CEmpty v => var_empty t argv v
  | CManyOptions ign => (1 <? num_options argv ign)%nat
  | CUnknown => match unknown_argument t argv with Some _ => true | None => false end
  end.
Definition pc_code (t : tool) (p : precheck) : Z :=
  if pc_calls_help p then match t_help_exit t with Some c => c | None => pc_ret p end else pc_ret p.
Fixpoint pre_exit_from (t : tool) (argv : list tok) (ps : list precheck) : option Z :=
  match ps with
  | [] => None
  | p :: r => if existsb (cond_holds t argv) (pc_conds p) then Some (pc_code t p) else pre_exit_from t argv r
  end.
Definition pre_exit (t : tool) (argv : list tok) : option Z := pre_exit_from t argv (t_pre t).

(* ---------------------------------------------------------------- option blocks *)
Record exec : Type := {
  e_block : nat;                 (* index of the block in the tool *)
  e_variant : bool;              (* opt_parms[0] is one of b_variant *)
  e_pos : nat;                   (* position of the option name in argv *)
  e_nargs : nat;                 (* cmd.num_args(opt_parms) *)
  e_reads : list (nat * nat) }.  (* (k, argv position i+k) for every opt_parms[k] whose guard holds *)

Inductive final : Type :=
  | FDone                         (* the argument handling lets the tool run to its end *)
  | FExit (c : Z)                 (* exit / return with status c decided by the argument handling *)
  | FCrash.                       (* a read at or beyond argv[argc]: undefined behaviour *)

Definition block_reads (b : block) (i n : nat) : list (nat * nat) :=
  map (fun u => (u_k u, (i + u_k u)%nat)) (filter (fun u => guard_holds (u_guard u) n) (b_uses b)).
Definition variant_of (argv : list tok) (b : block) (i : nat) : bool :=
  existsb (fun a => tok_eqb a (nth i argv [])) (b_variant b).

(* the sequence of `if (char** opt_parms = cmd.option(...)) { assert_non_conflicting_options(argv[0],++num_options); ... }`
   followed by `if (num_options==0) exit(c)`.  Blocks run in source order: a block that is reached with
   num_options already 1 exits with status 1 AFTER the earlier block has done its work. *)
Fixpoint run_blocks (argv : list tok) (bs : list block) (idx nopt : nat) (unk : option Z) : list exec * final :=
  match bs with
  | [] => ([], if (nopt =? 0)%nat then match unk with Some c => FExit c | None => FDone end else FDone)
  | b :: r =>
      match block_option argv b with
      | Exit c => ([], FExit c)
      | Ret None => run_blocks argv r (S idx) nopt unk
      | Ret (Some i) =>
          if negb (nopt =? 0)%nat then ([], FExit 1)
          else
            let n := num_args argv i in
            let rd := block_reads b i n in
            let e := {| e_block := idx; e_variant := variant_of argv b i; e_pos := i; e_nargs := n; e_reads := rd |} in
            if existsb (fun kp => (List.length argv <=? snd kp)%nat) rd then ([e], FCrash)
            else let (es, f) := run_blocks argv r (S idx) 1%nat unk in (e :: es, f)
      end
  end.

(* ---------------------------------------------------------------- a whole tool *)
Record result : Type := {
  r_final : final;
  r_execs : list exec;            (* option blocks that ran (their reads), in order *)
  r_values : list tval }.         (* typed options, in declaration order *)

Definition decl_values (t : tool) (argv : list tok) : list tval :=
  map (fun d => typed_lookup argv (d_name d)) (t_decls t).

Definition run_tool (t : tool) (argv : list tok) : result :=
  let vals := decl_values t argv in
  match pre_exit t argv with
  | Some c => {| r_final := FExit c; r_execs := []; r_values := vals |}
  | None =>
      match t_blocks t with
      | [] =>
          if existsb (fun ks => (List.length argv <=? fst ks)%nat) (t_argv_uses t)
          then {| r_final := FCrash; r_execs := []; r_values := vals |}
          else {| r_final := FDone; r_execs := []; r_values := vals |}
      | _ :: _ => let rb := run_blocks argv (t_blocks t) 0 0 (t_unknown_exit t) in
                  {| r_final := snd rb; r_execs := fst rb; r_values := vals |}
      end
  end.

(* ---------------------------------------------------------------- decidable table conditions used by the theorems *)
(* opt_parms[k] under guard g with at least nm arguments: for no n in [nm,k) does the guard hold *)
Definition use_ok (nm : nat) (u : use) : bool :=
  forallb (fun n => negb (guard_holds (u_guard u) n)) (seq nm (u_k u - nm)).
Definition block_ok (b : block) : bool := forallb (use_ok (nmand b)) (b_uses b).
Definition is_argc_lt_above (k : nat) (c : cond) : bool :=
  match c with CArgcLt m => (k <? m)%nat | _ => false end.
Definition argv_use_ok (t : tool) (ks : nat * tok) : bool :=
  existsb (fun p => existsb (is_argc_lt_above (fst ks)) (pc_conds p)) (t_pre t).
Definition tool_ok (t : tool) : bool :=
  forallb block_ok (t_blocks t) && forallb (argv_use_ok t) (t_argv_uses t).

(* offending (block index, k) pairs, for the search when [tool_ok] fails *)
Fixpoint bad_uses_from (bs : list block) (idx : nat) : list (nat * nat) :=
  match bs with
  | [] => []
  | b :: r => map (fun u => (idx, u_k u)) (filter (fun u => negb (use_ok (nmand b) u)) (b_uses b)) ++ bad_uses_from r (S idx)
  end.
Definition bad_uses (t : tool) : list (nat * nat) := bad_uses_from (t_blocks t) 0.
Definition bad_argv_uses (t : tool) : list nat :=
  map fst (filter (fun ks => negb (argv_use_ok t ks)) (t_argv_uses t)).

(* every early return that can be taken without -h/--help has a non-zero status *)
Definition is_help (c : cond) : bool := match c with CHelp => true | _ => false end.
Definition precheck_ok (t : tool) (p : precheck) : bool :=
  forallb is_help (pc_conds p) || negb (pc_code t p =? 0).
Definition pre_ok (t : tool) : bool := forallb (precheck_ok t) (t_pre t).

(* tools with option blocks end with a non-zero exit when no option was given *)
Definition unknown_ok (t : tool) : bool :=
  match t_blocks t with
  | [] => true
  | _ => match t_unknown_exit t with Some c => negb (c =? 0) | None => false end
  end.

(* alias names: no repetition inside a tool (within and across blocks) *)
Fixpoint nodupb (l : list tok) : bool :=
  match l with
  | [] => true
  | a :: r => negb (existsb (tok_eqb a) r) && nodupb r
  end.
Definition all_aliases (t : tool) : list tok := flat_map b_aliases (t_blocks t).
Definition aliases_ok (t : tool) : bool :=
  nodupb (all_aliases t) && forallb (fun b => forallb (fun v => existsb (tok_eqb v) (b_aliases b)) (b_variant b)) (t_blocks t).

(* every option name the help text documents is accepted by some option block *)
Definition documented_ok (t : tool) : bool :=
  forallb (fun a => existsb (tok_eqb a) (flat_map b_aliases (t_blocks t))) (t_documented t).

(* every parameter of a documented line is consumed: with n = the mandatory count or the full documented count,
   each k in 1..n is read by some use whose guard holds at n *)
Definition reads_at (b : block) (n : nat) : list nat :=
  map u_k (filter (fun u => guard_holds (u_guard u) n) (b_uses b)).
Definition covers (b : block) (n : nat) : bool :=
  forallb (fun k => existsb (Nat.eqb k) (reads_at b n)) (seq 1 n).
Definition params_used_ok (b : block) : bool := covers b (nmand b) && covers b (List.length (b_parms b)).
Definition tool_params_used_ok (t : tool) : bool := forallb params_used_ok (t_blocks t).

(* tools with option blocks count the options before any block runs; no alias is in the ignored list, all start with '-' *)
Definition many_check (t : tool) (c : cond) : bool :=
  match c with
  | CManyOptions ign => forallb (fun a => counted_option ign a) (all_aliases t)
  | _ => false
  end.
Definition option_count_ok (t : tool) : bool :=
  match t_blocks t with
  | [] => true
  | _ => existsb (fun p => existsb (many_check t) (pc_conds p)) (t_pre t)
  end.
(* tools without option blocks that declare typed options reject unknown arguments *)
Definition is_unknown_check (c : cond) : bool := match c with CUnknown => true | _ => false end.
Definition has_unknown_check (t : tool) : bool := existsb (fun p => existsb is_unknown_check (pc_conds p)) (t_pre t).
Definition unknown_check_ok (t : tool) : bool :=
  match t_blocks t, t_decls t with
  | [], _ :: _ => has_unknown_check t
  | _, _ => true
  end.

(* documented order = order read: on a line with all documented parameters, and on a line with the mandatory ones
   only, the k-th parameter is handed to something of the kind the help text announces at that place *)
Definition doc_full (b : block) : list pkind := map fst (b_doc b).
Definition doc_mand (b : block) : list pkind := map fst (filter (fun x => negb (snd x)) (b_doc b)).
Definition use_follows_doc (docs : list pkind) (u : use) : bool :=
  if guard_holds (u_guard u) (List.length docs) && (1 <=? u_k u)%nat
  then match nth_error docs (u_k u - 1) with Some d => compat d (u_kind u) | None => false end
  else true.
Definition line_ok (b : block) (docs : list pkind) : bool := forallb (use_follows_doc docs) (b_uses b).
Definition doc_order_ok (b : block) : bool :=
  line_ok b (doc_full b) && line_ok b (doc_mand b)
  && (List.length (doc_mand b) =? nmand b)%nat && (List.length (b_parms b) <=? List.length (doc_full b))%nat.
Definition tool_doc_order_ok (t : tool) : bool := forallb doc_order_ok (t_blocks t).

(* ---------------------------------------------------------------- formats used by om_matrix_convert *)
Definition var_value (t : tool) (argv : list tok) (v : tok) : tok :=
  match find (fun d => tok_eqb (d_var d) v) (t_decls t) with Some d => decl_string argv d | None => [] end.
(* characters after the last '.' (None: no dot) *)
Fixpoint suffix_from (name : tok) (acc : option tok) : option tok :=
  match name with
  | [] => acc
  | c :: r => if c =? 46 then suffix_from r (Some []) else suffix_from r (match acc with Some a => Some (a ++ [c]) | None => None end)
  end.
Definition format_of_suffix (table : list (tok * tok)) (name : tok) : tok :=
  match suffix_from name None with
  | None => []
  | Some sfx => match find (fun p => tok_eqb (fst p) sfx) table with Some p => snd p | None => [] end
  end.
Definition tok_auto : tok := [97; 117; 116; 111].      (* "auto": no format given, the reader identifies the content *)
Record conv_plan : Type := { cp_in : tok; cp_in_fmt : tok; cp_out : tok; cp_out_fmt : tok }.
Definition conv_plan_of (table : list (tok * tok)) (t : tool) (argv : list tok) : option conv_plan :=
  match t_conv t with
  | None => None
  | Some cv =>
      let inf := var_value t argv (cv_in_fmt cv) in
      let outf := var_value t argv (cv_out_fmt cv) in
      Some {| cp_in := var_value t argv (cv_in_file cv);
              cp_in_fmt := match inf with [] => tok_auto | _ => inf end;
              cp_out := var_value t argv (cv_out_file cv);
              cp_out_fmt := match outf with [] => format_of_suffix table (var_value t argv (cv_suffix cv)) | _ => outf end |}
  end.

(* ---------------------------------------------------------------- the ordering flag reaches every Geometry *)
Definition flag_decls (t : tool) : list decl := filter (fun d => match d_kind d with KBool => true | _ => false end) (t_decls t).
(* value of the boolean option variable v (false for an unknown variable and for the empty name) *)
Definition flag_value (t : tool) (argv : list tok) (v : tok) : bool :=
  match find (fun d => tok_eqb (d_var d) v) (flag_decls t) with
  | Some d => bool_value argv (d_name d) false
  | None => false
  end.
(* OLD_ORDERING handed to each Geometry the block builds *)
Definition block_orderings (t : tool) (argv : list tok) (b : block) : list bool := map (flag_value t argv) (b_geo b).
Definition tok_old_ordering : tok := [45; 111; 108; 100; 45; 111; 114; 100; 101; 114; 105; 110; 103].   (* "-old-ordering" *)
Definition ordering_var (t : tool) : option tok :=
  match find (fun d => tok_eqb (d_name d) tok_old_ordering) (flag_decls t) with Some d => Some (d_var d) | None => None end.
Definition geo_ordering_ok (t : tool) : bool :=
  match ordering_var t with
  | None => true
  | Some v => forallb (fun b => forallb (tok_eqb v) (b_geo b)) (t_blocks t)
  end.

(* the aliases that select the variant of a block (e.g. no adaptive integration) are not among the option names the help
   text documents: every documented alias has the documented (default) meaning *)
Definition variant_doc_ok (t : tool) : bool :=
  forallb (fun b => forallb (fun a => negb (existsb (tok_eqb a) (t_documented t))) (b_variant b)) (t_blocks t).
