(* C10 (widening) -- structure of the assembly functions modelled in Geom/AssemblyOps.v: which cells can be written.
   Everything here is independent of the numeric instance (any Ops F, in particular IEEE doubles). *)
From Coq Require Import List NArith ZArith Bool FMapPositive Lia.
From OM Require Import Base.Ops Geom.Assembly Geom.AssemblyProofs Geom.AssemblyOps.
Import ListNotations.
Local Open Scope N_scope.

Section Support.
Context {F : Type} (o : Ops F).

Lemma rat_rset (M : store F) i j x r c : rat o (rset M i j x) r c = if (N.eqb i r && N.eqb j c)%bool then x else rat o M r c.
Proof.
  unfold rat, rset, rget.
  destruct (N.eqb_spec i r) as [->|Hi]; destruct (N.eqb_spec j c) as [->|Hj]; simpl;
    try (rewrite rfind_rput_same; reflexivity); rewrite rfind_rput_other; auto; congruence.
Qed.
Lemma rat_radd_other (M : store F) i j x r c : (i, j) <> (r, c) -> rat o (radd o M i j x) r c = rat o M r c.
Proof.
  intros H. unfold radd. change (rput M j i ?y) with (rset M i j y). rewrite rat_rset.
  destruct (N.eqb_spec i r) as [->|Hi]; destruct (N.eqb_spec j c) as [->|Hj]; simpl; auto. congruence.
Qed.
Lemma rat_rset_other (M : store F) i j x r c : (i, j) <> (r, c) -> rat o (rset M i j x) r c = rat o M r c.
Proof.
  intros H. rewrite rat_rset.
  destruct (N.eqb_spec i r) as [->|Hi]; destruct (N.eqb_spec j c) as [->|Hj]; simpl; auto. congruence.
Qed.

(* a cell no write addresses keeps its value; on a matrix that starts at zero it stays zero *)
Lemma apply_raw_support ws : forall (M : store F) r c, (forall w, In w ws -> (wi w, wj w) <> (r, c)) ->
  rat o (apply_raw o M ws) r c = rat o M r c.
Proof.
  induction ws as [|w ws IH]; intros M r c H; simpl; auto.
  rewrite IH by (intros; apply H; simpl; auto).
  destruct (wset w); [apply rat_rset_other | apply rat_radd_other]; apply H; simpl; auto.
Qed.
Lemma rat_empty r c : rat o (@sempty F) r c = f0 o.
Proof. unfold rat, rget, rfind, sempty. rewrite PositiveMap.gempty; auto. Qed.
Lemma apply_raw_zero ws r c : (forall w, In w ws -> (wi w, wj w) <> (r, c)) -> rat o (apply_raw o sempty ws) r c = f0 o.
Proof. intros H. rewrite apply_raw_support by auto. apply rat_empty. Qed.

Variable K : F.
Variable pos : N -> F * F * F.
Variable area : N -> F.
Variable g : igeom F.
Notation vixs m := (map (vix g) (mverts m)).
Notation tixs m := (map tix (mtris m)).

Lemma In_tvi (t : tri) i : tvi t i = tv0 t \/ tvi t i = tv1 t \/ tvi t i = tv2 t.
Proof. destruct i as [|[|i]]; simpl; auto. Qed.

Lemma N_off_w_sites coeff S m1 m2 w : In w (N_off_w o pos area g coeff S m1 m2) -> In (wi w) (vixs m1) /\ In (wj w) (vixs m2) /\ wset w = false.
Proof.
  unfold N_off_w. intros H. apply in_flat_map in H. destruct H as [a [Ha H]]. apply in_map_iff in H. destruct H as [b [<- Hb]].
  simpl. repeat split; apply in_map; auto.
Qed.
Lemma D_block_w_sites Dk coeff ts1 ts2 w : In w (D_block_w o g Dk coeff ts1 ts2) ->
  In (wi w) (map tix ts1) /\ (exists t2 i, In t2 ts2 /\ wj w = vix g (tvi t2 i)) /\ wset w = false.
Proof.
  unfold D_block_w. intros H. apply in_flat_map in H. destruct H as [t1 [H1 H]]. apply in_flat_map in H. destruct H as [t2 [H2 H]].
  apply in_map_iff in H. destruct H as [i [<- _]]. simpl. repeat split; [apply in_map; auto|]. exists t2, i; auto.
Qed.
Lemma S_off_w_sites Sk coeff ts1 ts2 w : In w (S_off_w o Sk coeff ts1 ts2) -> In (wi w) (map tix ts1) /\ In (wj w) (map tix ts2) /\ wset w = true.
Proof.
  unfold S_off_w. intros H. apply in_flat_map in H. destruct H as [t1 [H1 H]]. apply in_map_iff in H. destruct H as [t2 [<- H2]].
  simpl. repeat split; apply in_map; auto.
Qed.

(* SurfSourceMat: rows = potentials of the boundary meshes of the source's domain and currents of those that are
   not current barriers; columns = vertices of the source mesh *)
Lemma surfsource_sites Sk Dk src cond bnds w : In w (surfsource_writes o K pos area g Sk Dk src cond bnds) ->
  exists b, In b bnds /\ let m := gmesh g (fst (fst b)) in
    (In (wi w) (vixs m) \/ (mbarrier m = false /\ In (wi w) (tixs m))) /\
    (In (wj w) (vixs src) \/ exists t2 i, In t2 (mtris src) /\ wj w = vix g (tvi t2 i)).
Proof.
  unfold surfsource_writes. intros H. apply in_flat_map in H. destruct H as [[[k s] ins] [Hb H]].
  exists (k, s, ins). split; auto. simpl. unfold surfsource_mesh in H. apply in_app_or in H. destruct H as [H|H].
  - apply N_off_w_sites in H. destruct H as (H1 & H2 & _). auto.
  - destruct (mbarrier (gmesh g k)) eqn:E; [contradiction|]. apply D_block_w_sites in H. destruct H as (H1 & H2 & _). auto.
Qed.

(* EITSourceMat: the intermediate matrix only has rows of triangles of current-barrier meshes *)
Lemma eit_pair_sites Sk Dk p w : In w (eit_pair o K area g Sk Dk p) ->
  mbarrier (gmesh g (pm1 p)) = true /\ In (wi w) (tixs (gmesh g (pm1 p))).
Proof.
  unfold eit_pair. destruct (mbarrier (gmesh g (pm1 p))) eqn:E; [|contradiction]. intros H. split; auto.
  apply in_app_or in H. destruct H as [H|H].
  - apply D_block_w_sites in H. tauto.
  - destruct (Nat.eqb (pm1 p) (pm2 p)).
    + unfold identity_w in H. apply in_flat_map in H. destruct H as [t [Ht H]]. apply in_map_iff in H. destruct H as [i [<- _]]. simpl. apply in_map; auto.
    + apply S_off_w_sites in H. tauto.
Qed.

(* assemble_ferguson / Head2MEGMat: only potential columns, and only of vertices that carry an unknown *)
Lemma ferguson_sites Mag Fk jump npts w : In w (ferguson_writes o pos area g Mag Fk jump npts) ->
  exists m, In m (gmeshes g) /\ misolated m = false /\ In (wj w) (vixs m).
Proof.
  unfold ferguson_writes. intros H. apply in_concat in H. destruct H as [l [Hl H]]. apply in_map_iff in Hl. destruct Hl as [[k m] [<- Hkm]].
  destruct (misolated m) eqn:E; [contradiction|]. exists m. split; [eapply in_combine_r; eauto|]. split; auto.
  apply in_flat_map in H. destruct H as [i [_ H]]. apply in_flat_map in H. destruct H as [v [Hv H]].
  destruct (ferguson_vec o pos area Fk m v i) as [[x y] z]. simpl in H.
  destruct H as [<-|[<-|[<-|[]]]]; simpl; apply in_map; auto.
Qed.
Lemma meg_sites FM nverts dirs w : In w (meg_writes o g FM nverts dirs) ->
  wj w <> NOIDX /\ exists v, (v < nverts)%nat /\ wj w = vix g (N.of_nat v).
Proof.
  unfold meg_writes. intros H. apply in_concat in H. destruct H as [l [Hl H]]. apply in_map_iff in Hl. destruct Hl as [[i d] [<- _]].
  apply in_flat_map in H. destruct H as [v [Hv H]]. apply in_seq in Hv.
  destruct (N.eqb_spec (vix g (N.of_nat v)) NOIDX) as [E|E]; [contradiction|].
  destruct H as [<-|[]]. simpl. split; auto. exists v. split; auto; lia.
Qed.

(* Surf2VolMat: row = one of the points of the domain; column = a potential of a boundary mesh of that domain, or a
   current of one that is not a current barrier *)
Lemma surf2vol_sites Dp Sp doms w : In w (surf2vol_writes o K g Dp Sp doms) ->
  exists cond bnds pts, In (cond, bnds, pts) doms /\ In (wi w) pts /\
    exists b, In b bnds /\ let m := gmesh g (fst b) in
      (exists t i, In t (mtris m) /\ wj w = vix g (tvi t i)) \/ (mbarrier m = false /\ In (wj w) (tixs m)).
Proof.
  unfold surf2vol_writes. intros H. apply in_flat_map in H. destruct H as [[[cond bnds] pts] [Hd H]].
  exists cond, bnds, pts. split; auto. unfold surf2vol_domain in H. apply in_flat_map in H. destruct H as [[k s] [Hb H]].
  apply in_app_or in H. destruct H as [H|H].
  - unfold addD_w in H. apply in_flat_map in H. destruct H as [t [Ht H]]. apply in_flat_map in H. destruct H as [p [Hp H]].
    apply in_map_iff in H. destruct H as [i [<- _]]. simpl. split; auto. exists (k, s). split; auto. left. exists t, i; auto.
  - simpl in H. destruct (mbarrier (gmesh g k)) eqn:E; [contradiction|].
    unfold partS_w in H. apply in_flat_map in H. destruct H as [t [Ht H]]. apply in_map_iff in H. destruct H as [p [<- Hp]].
    simpl. split; auto. exists (k, s). split; auto. right. split; auto. apply in_map; auto.
Qed.

(* Head2ECoGMat / Head2EEGMat: row s only addresses the three corners of the triangle found for sensor s *)
Lemma interp_sites hits w : In w (interp_writes g hits) ->
  exists a b c wa wb wc, In (a, b, c, (wa, wb, wc)) hits /\ (wi w < N.of_nat (length hits)) /\
    (wj w = vix g a \/ wj w = vix g b \/ wj w = vix g c) /\ wset w = true.
Proof.
  unfold interp_writes. intros H. apply in_concat in H. destruct H as [l [Hl H]]. apply in_map_iff in Hl. destruct Hl as [[s h] [<- Hs]].
  destruct h as [[[a b] c] [[wa wb] wc]].
  exists a, b, c, wa, wb, wc. split; [eapply in_combine_r; eauto|].
  assert (s < length hits)%nat as Hlt by (apply in_combine_l in Hs; apply in_seq in Hs; lia).
  simpl in H. destruct H as [<-|[<-|[<-|[]]]]; simpl; repeat split; auto; lia.
Qed.
End Support.
