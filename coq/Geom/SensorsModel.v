(* Model of the row assembly of Head2EEGMat / Head2ECoGMat (assembleSensors.cpp) and of
   Sensors::getWeightsMatrix with the label grouping of Sensors::load (sensors.h / sensors.cpp).
   No proofs here. *)
From Coq Require Import ZArith List Bool.
From OM Require Import Base.Ops Geom.V3Q Geom.Danielsson.
Import ListNotations.

Section Rows.
Context {F : Type} (o : Ops F).
Local Notation vec := (@vec F).

(* a sparse row: SparseMatrix is a std::map, mat(i,c) = v inserts or overwrites *)
Definition srow : Type := list (nat * F).
Fixpoint row_set (r : srow) (c : nat) (v : F) : srow :=
  match r with
  | [] => [(c, v)]
  | (c', v') :: r' => if Nat.eqb c c' then (c, v) :: r' else (c', v') :: row_set r' c v
  end.
Fixpoint row_get (r : srow) (c : nat) : F :=
  match r with
  | [] => (f0 o)
  | (c', v') :: r' => if Nat.eqb c c' then v' else row_get r' c
  end.

(* for (j=0;j<3;++j) mat(i,current_triangle.vertex(j).index()) = current_alphas(j); *)
Definition write_row (ix : idx3) (al : vec) : srow :=
  row_set (row_set (row_set [] (get3 ix 0) (get3 al 0)) (get3 ix 1) (get3 al 1)) (get3 ix 2) (get3 al 2).

Definition nth_tri (ifc : @interface F) (mi ti : nat) : option (@itri F) :=
  match nth_error ifc mi with Some m => nth_error m ti | None => None end.

Fixpoint find_iface (g : @geometry F) (id : nat) : option (@interface F) :=
  match g with
  | [] => None
  | d :: g' =>
      match find (fun b => Nat.eqb (fst b) id) (snd d) with
      | Some b => Some (snd b)
      | None => find_iface g' id
      end
  end.

(* the triangle returned by dist_point_geom (first boundary with that interface id, as the code returns
   a reference to the interface object itself) *)
Definition geom_triangle (g : @geometry F) (st : @gstate F) : option (@itri F) :=
  match gs_near st with
  | Some (iid, mi, ti) => match find_iface g iid with Some ifc => nth_tri ifc mi ti | None => None end
  | None => None
  end.

(* one row of Head2EEGMat: Vect3 current_alphas; (zero-filled) dist_point_geom; three writes *)
Definition head2eeg_row (g : @geometry F) (p : vec) : option srow :=
  let st := dist_point_geom o p g (vzero o) in
  match gs_err st with
  | Some _ => None
  | None => match geom_triangle g st with Some t => Some (write_row (snd t) (gs_al st)) | None => None end
  end.

(* one row of Head2ECoGMat for the named interface *)
Definition head2ecog_row (ifc : @interface F) (p : vec) : option srow :=
  let st := dist_point_interface o p ifc (vzero o) in
  match is_err st, is_near st with
  | None, Some (mi, ti) => match nth_tri ifc mi ti with Some t => Some (write_row (snd t) (is_al st)) | None => None end
  | _, _ => None
  end.

(* potential read by a row from a vector of unknowns *)
Definition row_apply (r : srow) (x : nat -> F) : F :=
  fold_right (fun cv acc => fadd o (fmul o (snd cv) (x (fst cv))) acc) (f0 o) r.
End Rows.

(* ---- Sensors: label grouping and weight matrix (labels are compared for equality only: nat ids) ---- *)
Section Weights.
Context {F : Type} (o : Ops F).

Fixpoint index_of (names : list nat) (n : nat) : option nat :=
  match names with
  | [] => None
  | x :: r => if Nat.eqb x n then Some 0 else match index_of r n with Some k => Some (S k) | None => None end
  end.

(* the loop of Sensors::load over the labels: m_nb counts the new names, m_names grows,
   m_pointSensorIdx[i] = getSensorIdx(name) when hasSensor(name) else m_nb++.
   [names0] is m_names at entry (empty for a fresh object), m_nb starts at 0 as in the code. *)
Fixpoint group_labels (names : list nat) (nb : nat) (labels : list nat) : list nat * nat * list nat :=
  match labels with
  | [] => (names, nb, [])
  | l :: r =>
      match index_of names l with
      | Some k => let '(nm, n, ix) := group_labels names nb r in (nm, n, k :: ix)
      | None => let '(nm, n, ix) := group_labels (names ++ [l]) (S nb) r in (nm, n, nb :: ix)
      end
  end.

(* getWeightsMatrix: weight_matrix(m_pointSensorIdx[i],i) = m_weights(i); dense view, nb rows *)
Definition weights_entry (ix : list nat) (w : list F) (s i : nat) : F :=
  match nth_error ix i, nth_error w i with
  | Some k, Some wi => if Nat.eqb k s then wi else (f0 o)
  | _, _ => (f0 o)
  end.
Definition weights_matrix (labels : list nat) (w : list F) : nat * list (list F) :=
  let '(_, nb, ix) := group_labels [] 0 labels in
  (nb, map (fun s => map (fun i => weights_entry ix w s i) (seq 0 (length labels))) (seq 0 nb)).
End Weights.

(* ---- the label-based constructors Sensors(labels,positions,orientations,weights,radii[,geometry]) (sensors.h):
   m_nb(labels.size()), m_names(labels), init_labels: m_pointSensorIdx[i] = getSensorIdx(m_names[i]) = position of the
   FIRST occurrence of the i-th label.  So the object keeps one row per integration point (rows of repeated labels other
   than the first occurrence stay empty) and the points of one label are gathered in the row of its first occurrence. ---- *)
Section Ctor.
Context {F : Type} (o : Ops F).
Definition ctor_index (labels : list nat) : list nat :=
  map (fun l => match index_of labels l with Some k => k | None => 0 end) labels.
Definition ctor_weights_matrix (labels : list nat) (w : list F) : nat * list (list F) :=
  let ix := ctor_index labels in let nb := length labels in
  (nb, map (fun s => map (fun i => weights_entry o ix w s i) (seq 0 (length labels))) (seq 0 nb)).
End Ctor.

(* ---- file semantics of Sensors::load without a geometry (sensors.cpp): ncol = number of numeric columns (the label,
   if any, removed).  ncol = 4 throws (radii need a geometry); the weights are the last column exactly when ncol = 7,
   LABELLED OR NOT, and 1 otherwise; an unlabelled file makes every integration point its own sensor. ---- *)
Section FileSemantics.
Context {F : Type} (o : Ops F).
Definition file_weights (ncol : nat) (lastcol : list F) : list F :=
  if Nat.eqb ncol 7 then lastcol else map (fun _ => f1 o) lastcol.
Definition unlabelled_index (n : nat) : list nat := seq 0 n.
Definition file_weights_matrix (labelled : bool) (ncol : nat) (labels : list nat) (lastcol : list F) : option (nat * list (list F)) :=
  if Nat.eqb ncol 4 then None
  else
    let w := file_weights ncol lastcol in
    if labelled then Some (weights_matrix o labels w)
    else let n := length lastcol in
         Some (n, map (fun s => map (fun i => weights_entry o (unlabelled_index n) w s i) (seq 0 n)) (seq 0 n)).
End FileSemantics.

(* ---- the labelled / unlabelled decision of Sensors::load, exactly as the code has it: the file is UNLABELLED as soon as
   ANY line's first token contains exactly one '.' (looks like a float), labelled otherwise; then the label column, if
   any, is removed from the column count. ---- *)
Section LabelRule.
Context {F : Type} (o : Ops F).
Definition file_is_labelled (first_token_has_one_dot : list bool) : bool := negb (existsb (fun b => b) first_token_has_one_dot).
Definition file_matrix_of_tokens (ntokens : nat) (dots : list bool) (first_tokens : list nat) (lastcol : list F) : option (nat * list (list F)) :=
  let lab := file_is_labelled dots in
  file_weights_matrix o lab (if lab then ntokens - 1 else ntokens) first_tokens lastcol.
End LabelRule.
