(* C10 (widening) -- models of the other assembly functions built from the blocks of operators.h:
     SurfSourceMat, EITSourceMat (assembleSourceMat.cpp), assemble_ferguson + Head2MEGMat, Head2ECoGMat
     (assembleFerguson.cpp, assembleSensors.cpp), Surf2VolMat (assembleHeadMat.cpp, PartialBlock).
   Each function is modelled as the ordered list of cell writes it performs (assignment or accumulation) on a
   matrix that starts at zero; the kernels are abstract Section variables, as in Geom/Assembly.v.
   A source mesh is represented as one more mesh of the indexed geometry (its vertices are appended to the vertex
   table with the mesh's own indices), so that the block code of Assembly.v applies unchanged.  No proofs here. *)
From Coq Require Import List NArith ZArith Bool FMapPositive.
From OM Require Import Base.Ops Geom.Assembly.
Import ListNotations.
Local Open Scope N_scope.

Record write (F : Type) := mkW { wi : N; wj : N; wset : bool; wx : F }.
Arguments mkW {F}. Arguments wi {F}. Arguments wj {F}. Arguments wset {F}. Arguments wx {F}.

Section Ops2.
Context {F : Type} (o : Ops F).
Variable K : F.
Variable pos : N -> F * F * F.
Variable area : N -> F.
Variable g : igeom F.

(* plain Matrix (row, column) *)
Definition radd (M : store F) (i j : N) (x : F) : store F := rput M j i (fadd o (rget o M j i) x).
Definition rset (M : store F) (i j : N) (x : F) : store F := rput M j i x.
Definition rat (M : store F) (i j : N) : F := rget o M j i.
Definition apply_raw (M : store F) (ws : list (write F)) : store F :=
  fold_left (fun M w => if wset w then rset M (wi w) (wj w) (wx w) else radd M (wi w) (wj w) (wx w)) ws M.
Definition apply_sym (M : store F) (ws : list (write F)) : store F :=
  fold_left (fun M w => if wset w then mset M (wi w) (wj w) (wx w) else madd o M (wi w) (wj w) (wx w)) ws M.
(* om_assert(i<nlin() && j<ncol()) *)
Definition writes_in_range (ws : list (write F)) (nl nc : N) : bool :=
  forallb (fun w => (wi w <? nl) && (wj w <? nc)) ws.
(* Matrix::data(): column major *)
Definition dump_raw (M : store F) (nl nc : N) : list F :=
  flat_map (fun j => map (fun i => rat M (N.of_nat i) (N.of_nat j)) (seq 0 (N.to_nat nl))) (seq 0 (N.to_nat nc)).

(* ---- blocks as write lists ---- *)
Definition N_off_w (coeff : F) (Sread : N -> N -> F) (m1 m2 : mesh) : list (write F) :=
  flat_map (fun a => map (fun b =>
    mkW (vix g a) (vix g b) false (fmul o (Nval o pos area (Nfac o a b) Sread m1 m2 a b) coeff)) (mverts m2)) (mverts m1).
Section DW.
Variable Dk : N -> N -> nat -> F.
Definition D_block_w (coeff : F) (ts1 ts2 : list tri) : list (write F) :=
  flat_map (fun t1 => flat_map (fun t2 => map (fun i =>
    mkW (tix t1) (vix g (tvi t2 i)) false (fmul o (Dk (tid t1) (tid t2) i) coeff)) [0%nat; 1%nat; 2%nat]) ts2) ts1.
End DW.
Section SW.
Variable Sk : N -> N -> F.
Definition S_off_w (coeff : F) (ts1 ts2 : list tri) : list (write F) :=
  flat_map (fun t1 => map (fun t2 => mkW (tix t1) (tix t2) true (fmul o (Sk (tid t1) (tid t2)) coeff)) ts2) ts1.
End SW.

Definition signed (s : bool) (x : F) : F := if s then x else fopp o x.

(* ---- SurfSourceMat(geo,source_mesh): boundaries of the domain holding the source, as
        (mesh number, oriented_mesh.orientation(), boundary.inside()) ; cond = conductivity of that domain ---- *)
Section SurfSource.
Variable Sk : N -> N -> F.
Variable Dk : N -> N -> nat -> F.
Definition surfsource_mesh (src : mesh) (cond : F) (b : nat * Z * bool) : list (write F) :=
  let '(k, orient, inside) := b in
  let m := gmesh g k in
  let L := fdiv o (fopp o (f1 o)) cond in
  let coeffN := fmul o (signed inside K) (fofZ o orient) in
  let i0 := front_ix m in let j0 := front_ix src in
  let B := S_off o Sk (bset i0 j0) sempty (f1 o) (mtris m) (mtris src) in
  N_off_w coeffN (bget o i0 j0 B) m src ++
  (if mbarrier m then [] else D_block_w Dk (fmul o coeffN L) (mtris m) (mtris src)).   (* guard: fix in assembleSourceMat.cpp *)
Definition surfsource_writes (src : mesh) (cond : F) (bnds : list (nat * Z * bool)) : list (write F) :=
  flat_map (surfsource_mesh src cond) bnds.
Definition surfsource (src : mesh) (cond : F) (bnds : list (nat * Z * bool)) : store F :=
  apply_raw sempty (surfsource_writes src cond bnds).
End SurfSource.

(* ---- EITSourceMat(geo,electrodes): electrodes = per electrode the injection triangles (unknown index, coeff) ---- *)
Section EIT.
Variable Sk : N -> N -> F.
Variable Dk : N -> N -> nat -> F.
Definition third : F := fofZ o 3.
Definition identity_w (coeff : F) (m : mesh) : list (write F) :=
  flat_map (fun t => map (fun i =>
    mkW (tix t) (vix g (tvi t i)) false (fmul o (fdiv o (area (tid t)) third) coeff)) [0%nat; 1%nat; 2%nat]) (mtris m).
Definition eit_pair (p : pair F) : list (write F) :=
  let m1 := gmesh g (pm1 p) in let m2 := gmesh g (pm2 p) in
  if mbarrier m1 then
    D_block_w Dk (fmul o K (fofZ o (porient p))) (mtris m1) (mtris m2) ++
    (if Nat.eqb (pm1 p) (pm2 p) then identity_w (fopp o (half o)) m1
     else S_off_w Sk (fmul o (fmul o (fopp o K) (fofZ o (porient p))) (psiginv p)) (mtris m1) (mtris m2))
  else [].
Definition eit_transmat : store F := apply_sym sempty (flat_map eit_pair (gpairs g)).
Definition eit_writes (T : store F) (nl : N) (elecs : list (list (N * F))) : list (write F) :=
  concat (map (fun '(e, inj) =>
    flat_map (fun '(t, c) => map (fun i => mkW (N.of_nat i) (N.of_nat e) false (fmul o (mget o T t (N.of_nat i)) c)) (seq 0 (N.to_nat nl))) inj)
    (combine (seq 0 (length elecs)) elecs)).
Definition eit (elecs : list (list (N * F))) : store F :=
  apply_raw sempty (eit_writes eit_transmat (hm_dim g) elecs).
End EIT.

(* ---- assemble_ferguson + Head2MEGMat: Fk t v i = analyticS(V,A,B).f(point i) for triangle t seen from its corner v ---- *)
Section MEG.
Variable MagFactor : F.
Variable Fk : N -> N -> nat -> F.
Variable jump : nat -> F.                 (* Geometry::conductivity_jump(mesh) *)
Definition vscale (c : F) (a : F * F * F) : F * F * F := let '(x, y, z) := a in (fmul o x c, fmul o y c, fmul o z c).
Definition vdivs (a : F * F * F) (c : F) : F * F * F := let '(x, y, z) := a in (fdiv o x c, fdiv o y c, fdiv o z c).
Definition vadd (a b : F * F * F) : F * F * F :=
  let '(ax, ay, az) := a in let '(bx, b_y, bz) := b in (fadd o ax bx, fadd o ay b_y, fadd o az bz).
(* Details::operatorFerguson(x,V,m) *)
Definition ferguson_vec (m : mesh) (v : N) (i : nat) : F * F * F :=
  fold_left (fun acc t =>
    let AB := vdivs (CB o pos t v) (fmul o (fofZ o 2) (area (tid t))) in
    vadd acc (vscale (Fk (tid t) v i) AB)) (tris_of m v) (f0 o, f0 o, f0 o).
Definition ferguson_writes (npts : nat) : list (write F) :=
  concat (map (fun '(k, m) =>
    if misolated m then [] else
    let coeff := fmul o MagFactor (jump k) in
    flat_map (fun i => flat_map (fun v =>
      let '(x, y, z) := ferguson_vec m v i in
      [mkW (N.of_nat (3 * i)) (vix g v) false (fmul o x coeff);
       mkW (N.of_nat (3 * i + 1)) (vix g v) false (fmul o y coeff);
       mkW (N.of_nat (3 * i + 2)) (vix g v) false (fmul o z coeff)]) (mverts m)) (seq 0 npts))
    (combine (seq 0 (length (gmeshes g))) (gmeshes g))).
Definition norm3 (a : F * F * F) : F := let '(x, y, z) := a in fsqrt o (fadd o (fadd o (fmul o x x) (fmul o y y)) (fmul o z z)).
(* the loop over geo.vertices() of Head2MEGMat: nverts = number of vertices of the geometry *)
Definition meg_writes (FM : store F) (nverts : nat) (dirs : list (F * F * F)) : list (write F) :=
  concat (map (fun '(i, d) =>
    flat_map (fun v =>
      let ix := vix g (N.of_nat v) in
      if ix =? NOIDX then [] else
      let f := (rat FM (N.of_nat (3 * i)) ix, rat FM (N.of_nat (3 * i + 1)) ix, rat FM (N.of_nat (3 * i + 2)) ix) in
      [mkW (N.of_nat i) ix true (fdiv o (dot o f d) (norm3 d))]) (seq 0 nverts))
    (combine (seq 0 (length dirs)) dirs)).
(* sensors.getWeightsMatrix()*mat : W as (sensor, position, weight) in the order of the sparse map *)
Definition weight_writes (Mx : store F) (nc : N) (W : list (N * N * F)) : list (write F) :=
  flat_map (fun '(s, j, w) => map (fun k => mkW s (N.of_nat k) false (fmul o w (rat Mx j (N.of_nat k)))) (seq 0 (N.to_nat nc))) W.
Definition head2meg (nverts : nat) (dirs : list (F * F * F)) (W : list (N * N * F)) : store F :=
  let FM := apply_raw sempty (ferguson_writes (length dirs)) in
  let Mx := apply_raw sempty (meg_writes FM nverts dirs) in
  apply_raw sempty (weight_writes Mx (hm_dim g) W).
End MEG.

(* ---- Surf2VolMat: per conductive domain holding points: conductivity, boundaries (mesh number,
        boundary.mesh_orientation(omesh)), the points (row numbers); Dp t p i = analyticD3(t).f(p)(i), Sp t p = analyticS(t).f(p) ---- *)
Section Surf2Vol.
Variable Dp : N -> N -> nat -> F.
Variable Sp : N -> N -> F.
Definition addD_w (coeff : F) (m : mesh) (pts : list N) : list (write F) :=
  flat_map (fun t => flat_map (fun p => map (fun i =>
    mkW p (vix g (tvi t i)) false (fmul o (Dp (tid t) p i) coeff)) [0%nat; 1%nat; 2%nat]) pts) (mtris m).
Definition partS_w (coeff : F) (m : mesh) (pts : list N) : list (write F) :=
  flat_map (fun t => map (fun p => mkW p (tix t) true (fmul o coeff (Sp (tid t) p))) pts) (mtris m).
Definition surf2vol_domain (d : F * list (nat * Z) * list N) : list (write F) :=
  let '(cond, bnds, pts) := d in
  flat_map (fun '(k, orient) =>
    let m := gmesh g k in
    let coeff := fmul o (fofZ o orient) K in
    addD_w (fopp o coeff) m pts ++ (if mbarrier m then [] else partS_w (fdiv o coeff cond) m pts)) bnds.
Definition surf2vol_writes (doms : list (F * list (nat * Z) * list N)) : list (write F) := flat_map surf2vol_domain doms.
Definition surf2vol (doms : list (F * list (nat * Z) * list N)) : store F := apply_raw sempty (surf2vol_writes doms).
End Surf2Vol.

(* ---- Head2ECoGMat / Head2EEGMat: per sensor the triangle found (three vertex ids) and the barycentric weights ---- *)
Definition interp_writes (hits : list (N * N * N * (F * F * F))) : list (write F) :=
  concat (map (fun '(s, h) =>
    let '(a, b, c, (wa, wb, wc)) := h in
    [mkW (N.of_nat s) (vix g a) true wa; mkW (N.of_nat s) (vix g b) true wb; mkW (N.of_nat s) (vix g c) true wc])
    (combine (seq 0 (length hits)) hits)).
Definition head2ecog (hits : list (N * N * N * (F * F * F))) : store F := apply_raw sempty (interp_writes hits).
End Ops2.
