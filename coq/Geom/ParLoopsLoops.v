(* C05 -- per-loop lemmas over the GENERATED descriptors (coq/Gen/GenParLoops.v): every owner-computes loop is
   conflict free for every geometry with a consistent indexing, for every target container kind it is
   instantiated with; the accumulation over shared vertices is race free because it sits inside omp critical. *)
From OM Require Import Base.Lists Geom.ParLoops Geom.ParLoopsProofs Geom.ParLoopsCrit Geom.ParLoopsGeom Gen.GenParLoops.
Local Open Scope Z_scope.

(* row-wise injectivity: what the loops with one fixed index need; implied by both kinds of addressing *)
Definition row_inj (domr domc : Z -> Prop) (a : Z -> Z -> Z) : Prop :=
  forall i j j', domr i -> domc j -> domc j' -> a i j = a i j' -> j = j'.
Lemma sym_row_inj dom a : sym_inj dom a -> row_inj dom dom a.
Proof. intros H i j j' Hi Hj Hj' Heq. destruct (H i j i j' Hi Hj Hi Hj' Heq) as [[_ ?]|[? ?]]; congruence. Qed.
Lemma ord_row_inj d1 d2 a : ord_inj d1 d2 a -> row_inj d1 d2 a.
Proof. intros H i j j' Hi Hj Hj' Heq. destruct (H i j i j' Hi Hj Hi Hj' Heq); auto. Qed.

Ltac inv_b H :=
  repeat first
   [ rewrite all_basics_app in H; apply in_app_iff in H; destruct H as [H|H]
   | apply in_all_basics_flat_map in H; destruct H as (? & ? & H)
   | rewrite all_basics_acts in H
   | rewrite all_basics_crit1 in H
   | apply in_flat_map in H; destruct H as (? & ? & H)
   | apply in_accum in H
   | apply in_assign in H ].

Section Loops.
  Variable F : Type.
  Variable E : Type.
  Variable fadd : F -> F -> F.
  Variable f0 : F.
  Notation cf := (conflict_free F E).
  Notation its r := (r_its F E r).

  Lemma in_nil_false {A} (x : A) : In x [] -> False. Proof. intros []. Qed.

  (* ---------------- BlocksBase::D : row triangle1.index(), columns = vertex unknowns ---------------- *)
  (* target addressed up to swapping (SymMatrix): needs the vertex / triangle unknown ranges to be disjoint *)
  Lemma loop_D_cf_sym isV ms m1 m2 c a val exn :
    well_indexed isV ms -> In m1 ms -> In m2 ms -> sym_inj (fun i => 0 <= i) a ->
    cf (its (loop_operators_h_BlocksBase_D F E fadd f0 (m_triangles m1) (m_triangles m2) c a val exn)).
  Proof.
    intros WI H1 H2 SI. unfold loop_operators_h_BlocksBase_D; cbn [r_its].
    apply conflict_free_throw_at.
    apply owner_conflict_free with (own := fun t1 s => exists v, isV v /\ 0 <= v /\ s = (c, a (t_index t1) v)).
    - intros i j x y s Hij Hx Hy (v & Vv & Pv & ->) (v' & Vv' & Pv' & Heq).
      pose proof (nodup_positions t_index _ i j x y (wi_tri_distinct _ _ WI m1 H1) Hij Hx Hy) as Hne.
      destruct (wi_tri_notV _ _ WI m1 x H1 (nth_error_In _ _ Hx)) as [NVx Px].
      destruct (wi_tri_notV _ _ WI m1 y H1 (nth_error_In _ _ Hy)) as [NVy Py].
      injection Heq as Heq.
      destruct (SI (t_index x) v (t_index y) v') as [[? ?]|[? ?]]; auto; try congruence.
    - intros x b Hx Hb. left. inv_b Hb.
      match goal with H : In ?t (m_triangles m2) |- _ => destruct (wi_tvert_isV _ _ WI m2 t x1 H2 H) as [V P] end.
      destruct Hb as [[_ [[]| ->]]|[_ ->]]; eexists; eauto.
  Qed.

  (* target addressed on ordered pairs (Matrix, rows in range): distinct triangles suffice; the column unknowns may
     live in another index space (SurfSourceMat: columns = vertices of the source mesh) *)
  Lemma loop_D_cf_ord (domr domc : Z -> Prop) ts1 ts2 c a val exn :
    NoDup (map t_index ts1) -> ord_inj domr domc a ->
    (forall t, In t ts1 -> domr (t_index t)) -> (forall t k, In t ts2 -> domc (t_vertex t k)) ->
    cf (its (loop_operators_h_BlocksBase_D F E fadd f0 ts1 ts2 c a val exn)).
  Proof.
    intros ND OI Hr Hc. unfold loop_operators_h_BlocksBase_D; cbn [r_its].
    apply conflict_free_throw_at.
    apply owner_conflict_free with (own := fun t1 s => exists v, domc v /\ s = (c, a (t_index t1) v)).
    - intros i j x y s Hij Hx Hy (v & Dv & ->) (v' & Dv' & Heq).
      pose proof (nodup_positions t_index _ i j x y ND Hij Hx Hy) as Hne.
      injection Heq as Heq.
      destruct (OI (t_index x) v (t_index y) v'); auto; try congruence.
      + apply Hr; eapply nth_error_In; eauto.
      + apply Hr; eapply nth_error_In; eauto.
    - intros x b Hx Hb. left. inv_b Hb.
      match goal with H : In ?t ts2 |- _ => pose proof (Hc t x1 H) as Dc end.
      destruct Hb as [[_ [[]| ->]]|[_ ->]]; eexists; eauto.
  Qed.

  (* ---------------- S blocks: row triangle1 fixed, one column per iteration ---------------- *)
  Lemma loop_S_diag_cf (domr domc : Z -> Prop) ts k c a val exn :
    NoDup (map t_index ts) -> row_inj domr domc a ->
    domr (t_index (nth k ts dtri)) -> (forall t, In t ts -> domc (t_index t)) ->
    cf (its (loop_operators_h_DiagonalBlock_S F E fadd f0 ts k c a val exn)).
  Proof.
    intros ND RI Hr Hc. unfold loop_operators_h_DiagonalBlock_S; cbn [r_its].
    apply conflict_free_throw_at.
    apply owner_conflict_free with (own := fun t2 s => s = (c, a (t_index (nth k ts dtri)) (t_index t2))).
    - intros i j x y s Hij Hx Hy -> Heq.
      assert (NDs : NoDup (map t_index (skipn k ts))) by (rewrite <- skipn_map; apply NoDup_skipn; auto).
      pose proof (nodup_positions t_index _ i j x y NDs Hij Hx Hy) as Hne.
      injection Heq as Heq. apply Hne. symmetry.
      eapply RI; eauto; apply Hc; eapply In_skipn; eapply nth_error_In; eauto.
    - intros x b Hx Hb. left. inv_b Hb. destruct Hb as [[_ []]|[_ ->]]; reflexivity.
  Qed.

  Lemma loop_S_nondiag_cf (domr domc : Z -> Prop) ts1 t1 ts2 c a val exn :
    NoDup (map t_index ts2) -> row_inj domr domc a ->
    domr (t_index t1) -> (forall t, In t ts2 -> domc (t_index t)) ->
    cf (its (loop_operators_h_NonDiagonalBlock_S F E fadd f0 ts1 t1 ts2 c a val exn)).
  Proof.
    intros ND RI Hr Hc. unfold loop_operators_h_NonDiagonalBlock_S; cbn [r_its].
    apply conflict_free_throw_at.
    apply owner_conflict_free with (own := fun t2 s => s = (c, a (t_index t1) (t_index t2))).
    - intros i j x y s Hij Hx Hy -> Heq.
      pose proof (nodup_positions t_index _ i j x y ND Hij Hx Hy) as Hne.
      injection Heq as Heq. apply Hne. symmetry.
      eapply RI; eauto; apply Hc; eapply nth_error_In; eauto.
    - intros x b Hx Hb. left. inv_b Hb. destruct Hb as [[_ []]|[_ ->]]; reflexivity.
  Qed.

  (* ---------------- N blocks: write (v1,v2), read S on (triangle,triangle) ---------------- *)
  (* S is the target itself (S block already computed): vertex x vertex slots against triangle x triangle slots *)
  Lemma loop_N_diag_cf_alias isV ms m k c a val exn :
    well_indexed isV ms -> In m ms -> sym_inj (fun i => 0 <= i) a -> (k < length (m_vertices m))%nat ->
    cf (its (loop_operators_h_DiagonalBlock_N F E fadd f0 (m_vertices m) k c a (m_adj m) c a val exn)).
  Proof.
    intros WI Hm SI Hk. unfold loop_operators_h_DiagonalBlock_N; cbn [r_its].
    set (v1 := nth k (m_vertices m) 0).
    assert (Hv1 : isV v1 /\ 0 <= v1) by (apply (wi_vert_isV _ _ WI m); auto; apply nth_In; auto).
    apply conflict_free_throw_at.
    apply owner_conflict_free with (own := fun v2 s => s = (c, a v1 v2)).
    - intros i j x y s Hij Hx Hy -> Heq.
      pose proof (NoDup_skipn k _ (wi_vert_distinct _ _ WI m Hm)) as NDs.
      assert (NDs' : NoDup (map (fun v : Z => v) (skipn k (m_vertices m)))) by (rewrite map_id; auto).
      pose proof (nodup_positions (fun v : Z => v) _ i j x y NDs' Hij Hx Hy) as Hne.
      injection Heq as Heq. apply Hne. symmetry.
      destruct (wi_vert_isV _ _ WI m x Hm (In_skipn _ _ _ (nth_error_In _ _ Hx))).
      destruct (wi_vert_isV _ _ WI m y Hm (In_skipn _ _ _ (nth_error_In _ _ Hy))).
      eapply (sym_row_inj _ _ SI v1); eauto; tauto.
    - intros x b Hx Hb. inv_b Hb.
      destruct (wi_vert_isV _ _ WI m x Hm (In_skipn _ _ _ Hx)) as [Vx Px].
      destruct Hb as [[Rb [Hr| ->]]|[_ ->]]; auto.
      right; split; auto. intros y Hy Hown.
      apply in_flat_map in Hr as (tp1 & Ht1 & Hr). apply in_map_iff in Hr as (tp2 & Heq & Ht2).
      rewrite Hown in Heq. injection Heq as Heq.
      destruct (wi_adj_tri _ _ WI m _ tp1 Hm Ht1) as [N1 P1]. destruct (wi_adj_tri _ _ WI m _ tp2 Hm Ht2) as [N2 P2].
      destruct (wi_vert_isV _ _ WI m y Hm (In_skipn _ _ _ Hy)) as [Vy Py].
      destruct (SI (t_index tp1) (t_index tp2) v1 y) as [[e1 e2]|[e1 e2]]; auto; try tauto;
        rewrite e1 in N1; tauto.
  Qed.

  (* S is a separate temporary (SymBloc): only the writes matter *)
  Lemma loop_N_diag_cf_sep (domr domc : Z -> Prop) vs k c a adj cS aS val exn :
    NoDup vs -> cS <> c -> row_inj domr domc a -> domr (nth k vs 0) -> (forall v, In v vs -> domc v) ->
    cf (its (loop_operators_h_DiagonalBlock_N F E fadd f0 vs k c a adj cS aS val exn)).
  Proof.
    intros ND Hc RI Hr Hd. unfold loop_operators_h_DiagonalBlock_N; cbn [r_its].
    apply conflict_free_throw_at.
    apply owner_conflict_free with (own := fun v2 s => s = (c, a (nth k vs 0) v2)).
    - intros i j x y s Hij Hx Hy -> Heq.
      assert (NDs' : NoDup (map (fun v : Z => v) (skipn k vs))) by (rewrite map_id; apply NoDup_skipn; auto).
      pose proof (nodup_positions (fun v : Z => v) _ i j x y NDs' Hij Hx Hy) as Hne.
      injection Heq as Heq. apply Hne. symmetry.
      eapply RI; eauto; apply Hd; eapply In_skipn; eapply nth_error_In; eauto.
    - intros x b Hx Hb. inv_b Hb.
      destruct Hb as [[Rb [Hr'| ->]]|[_ ->]]; auto.
      right; split; auto. intros y Hy Hown.
      apply in_flat_map in Hr' as (tp1 & Ht1 & Hr'). apply in_map_iff in Hr' as (tp2 & Heq & Ht2).
      rewrite Hown in Heq. injection Heq as Heq _. congruence.
  Qed.

  Lemma loop_N_nondiag_cf_alias isV ms m1 m2 v1 c a val exn :
    well_indexed isV ms -> In m1 ms -> In m2 ms -> sym_inj (fun i => 0 <= i) a -> In v1 (m_vertices m1) ->
    cf (its (loop_operators_h_NonDiagonalBlock_N F E fadd f0 (m_vertices m1) v1 (m_vertices m2) c a (m_adj m1) (m_adj m2) c a val exn)).
  Proof.
    intros WI H1 H2 SI Hin. unfold loop_operators_h_NonDiagonalBlock_N; cbn [r_its].
    assert (Hv1 : isV v1 /\ 0 <= v1) by (apply (wi_vert_isV _ _ WI m1); auto).
    apply conflict_free_throw_at.
    apply owner_conflict_free with (own := fun v2 s => s = (c, a v1 v2)).
    - intros i j x y s Hij Hx Hy -> Heq.
      assert (NDs' : NoDup (map (fun v : Z => v) (m_vertices m2))) by (rewrite map_id; apply (wi_vert_distinct _ _ WI); auto).
      pose proof (nodup_positions (fun v : Z => v) _ i j x y NDs' Hij Hx Hy) as Hne.
      injection Heq as Heq. apply Hne. symmetry.
      destruct (wi_vert_isV _ _ WI m2 x H2 (nth_error_In _ _ Hx)).
      destruct (wi_vert_isV _ _ WI m2 y H2 (nth_error_In _ _ Hy)).
      eapply (sym_row_inj _ _ SI v1); eauto; tauto.
    - intros x b Hx Hb. inv_b Hb.
      destruct Hb as [[Rb [Hr| ->]]|[_ ->]]; auto.
      right; split; auto. intros y Hy Hown.
      apply in_flat_map in Hr as (tp1 & Ht1 & Hr). apply in_map_iff in Hr as (tp2 & Heq & Ht2).
      rewrite Hown in Heq. injection Heq as Heq.
      destruct (wi_adj_tri _ _ WI m1 _ tp1 H1 Ht1) as [N1 P1]. destruct (wi_adj_tri _ _ WI m2 _ tp2 H2 Ht2) as [N2 P2].
      destruct (wi_vert_isV _ _ WI m2 y H2 Hy) as [Vy Py].
      destruct (SI (t_index tp1) (t_index tp2) v1 y) as [[e1 e2]|[e1 e2]]; auto; try tauto;
        rewrite e1 in N1; tauto.
  Qed.

  Lemma loop_N_nondiag_cf_sep (domr domc : Z -> Prop) vs1 v1 vs2 c a adj1 adj2 cS aS val exn :
    NoDup vs2 -> cS <> c -> row_inj domr domc a -> domr v1 -> (forall v, In v vs2 -> domc v) ->
    cf (its (loop_operators_h_NonDiagonalBlock_N F E fadd f0 vs1 v1 vs2 c a adj1 adj2 cS aS val exn)).
  Proof.
    intros ND Hc RI Hr Hd. unfold loop_operators_h_NonDiagonalBlock_N; cbn [r_its].
    apply conflict_free_throw_at.
    apply owner_conflict_free with (own := fun v2 s => s = (c, a v1 v2)).
    - intros i j x y s Hij Hx Hy -> Heq.
      assert (NDs' : NoDup (map (fun v : Z => v) vs2)) by (rewrite map_id; auto).
      pose proof (nodup_positions (fun v : Z => v) _ i j x y NDs' Hij Hx Hy) as Hne.
      injection Heq as Heq. apply Hne. symmetry.
      eapply RI; eauto; apply Hd; eapply nth_error_In; eauto.
    - intros x b Hx Hb. inv_b Hb.
      destruct Hb as [[Rb [Hr'| ->]]|[_ ->]]; auto.
      right; split; auto. intros y Hy Hown.
      apply in_flat_map in Hr' as (tp1 & Ht1 & Hr'). apply in_map_iff in Hr' as (tp2 & Heq & Ht2).
      rewrite Hown in Heq. injection Heq as Heq _. congruence.
  Qed.

  (* ---------------- deflate: M(v1,v2) += coef, v2 from v1 on ---------------- *)
  Lemma loop_deflate_cf (domr domc : Z -> Prop) vs k c a val exn :
    NoDup vs -> row_inj domr domc a -> domr (nth k vs 0) -> (forall v, In v vs -> domc v) ->
    cf (its (loop_assembleHeadMat_cpp_deflate F E fadd f0 vs k c a val exn)).
  Proof.
    intros ND RI Hr Hd. unfold loop_assembleHeadMat_cpp_deflate; cbn [r_its].
    apply conflict_free_throw_at.
    apply owner_conflict_free with (own := fun v2 s => s = (c, a (nth k vs 0) v2)).
    - intros i j x y s Hij Hx Hy -> Heq.
      assert (NDs' : NoDup (map (fun v : Z => v) (skipn k vs))) by (rewrite map_id; apply NoDup_skipn; auto).
      pose proof (nodup_positions (fun v : Z => v) _ i j x y NDs' Hij Hx Hy) as Hne.
      injection Heq as Heq. apply Hne. symmetry.
      eapply RI; eauto; apply Hd; eapply In_skipn; eapply nth_error_In; eauto.
    - intros x b Hx Hb. left. inv_b Hb. destruct Hb as [[_ [[]| ->]]|[_ ->]]; reflexivity.
  Qed.

  (* ---------------- operatorFerguson: three rows offsetI+k, column = vertex unknown ---------------- *)
  Lemma loop_ferguson_cf vs c off nlin v0 v1 v2 exn :
    NoDup vs -> 0 <= off -> off + 2 < nlin ->
    cf (its (loop_operators_cpp_operatorFerguson F E fadd f0 vs c off nlin v0 v1 v2 exn)).
  Proof.
    intros ND H0 H2. unfold loop_operators_cpp_operatorFerguson; cbn [r_its].
    apply conflict_free_throw_at.
    apply owner_conflict_free with (own := fun v s => exists r, 0 <= r < nlin /\ s = (c, cmidx nlin r v)).
    - intros i j x y s Hij Hx Hy (r & Hr & ->) (r' & Hr' & Heq).
      assert (NDs' : NoDup (map (fun v : Z => v) vs)) by (rewrite map_id; auto).
      pose proof (nodup_positions (fun v : Z => v) _ i j x y NDs' Hij Hx Hy) as Hne.
      injection Heq as Heq. destruct (cmidx_ord_inj nlin r x r' y); auto.
    - intros x b Hx Hb. left. inv_b Hb.
      all: destruct Hb as [[_ [[]| ->]]|[_ ->]]; eexists; split; eauto; lia.
  Qed.

  (* ---------------- operatorDipolePot: rhs(triangle.index()) ---------------- *)
  Lemma loop_dipolepot_cf ts c val exn :
    NoDup (map t_index ts) -> cf (its (loop_operators_cpp_operatorDipolePot F E fadd f0 ts c val exn)).
  Proof.
    intros ND. unfold loop_operators_cpp_operatorDipolePot; cbn [r_its].
    apply conflict_free_throw_at.
    apply owner_conflict_free with (own := fun t s => s = (c, vidx (t_index t))).
    - intros i j x y s Hij Hx Hy -> Heq.
      pose proof (nodup_positions t_index _ i j x y ND Hij Hx Hy) as Hne. injection Heq as Heq. auto.
    - intros x b Hx Hb. left. inv_b Hb. destruct Hb as [[_ [[]| ->]]|[_ ->]]; reflexivity.
  Qed.

  (* ---------------- operatorDipolePotDer: accumulation over SHARED vertices inside omp critical ---------------- *)
  Definition potder_contribs (c : nat) (val : tri -> Z -> list F -> F) (ts : list tri) : list (list (slot * F)) :=
    map (fun t => map (fun j => ((c, vidx (t_vertex t j)), val t j [])) [0; 1; 2]) ts.

  (* the generated loop IS a family of critical accumulations (fails to typecheck if the pragma disappears) *)
  Lemma loop_potder_shape ts c val :
    its (loop_operators_cpp_operatorDipolePotDer F E fadd f0 ts c val (fun _ => None)) =
    crit_its F E fadd f0 (potder_contribs c val ts).
  Proof.
    unfold loop_operators_cpp_operatorDipolePotDer, crit_its, potder_contribs; cbn [r_its].
    rewrite map_map. apply map_ext. intros t. reflexivity.
  Qed.

  Lemma loop_potder_DRF ts c val exn :
    DRF F E (its (loop_operators_cpp_operatorDipolePotDer F E fadd f0 ts c val exn)).
  Proof.
    unfold loop_operators_cpp_operatorDipolePotDer; cbn [r_its].
    apply DRF_throw_at.
    intros i j iti itj a b _ Hi Hj Ha Hb _.
    rewrite nth_error_map in Hi, Hj.
    destruct (nth_error ts i); [|discriminate]. destruct (nth_error ts j); [|discriminate].
    injection Hi as <-. injection Hj as <-. cbn [accesses] in *. rewrite app_nil_r in *.
    apply in_map_iff in Ha as (x & <- & _). apply in_map_iff in Hb as (y & <- & _). auto.
  Qed.
End Loops.
