(* analyticS::f for an evaluation point IN THE PLANE of the triangle, off the three edge lines:
   the value of the model is  sum_i (x-to-edge-line signed distance factor p_i x . nu_i) * (line integral of 1/|x-y| along edge i),
   each line integral being Coquelicot's Riemann integral (green_log_is_edge_integral).  This is the code's decomposition
   made a theorem; what is NOT proved is the classical divergence-theorem step
        int int_T 1/|x-y| dS(y) = sum_i h_i int_{edge i} 1/|x-y| dl(y)      (x in the plane),
   which stays measured (reference quadrature). *)
From Coq Require Import Reals Lra.
From Coquelicot Require Import Coquelicot.
From OM Require Import Base.Ops Base.OpsR Base.Vec3 Geom.Kernels Geom.KernelProofs Geom.EdgeIntegral.
Local Open Scope R_scope.

Definition edge_integrand (a b x : V3) (t : R) : R :=
  norm OpsR (vsub OpsR b a) / norm OpsR (vsub OpsR (vadd OpsR a (vscale OpsR t (vsub OpsR b a))) x).
Definition edge_arg (a b x : V3) : R :=
  green_arg OpsR (vsub OpsR a x) (norm OpsR (vsub OpsR a x)) (vsub OpsR b x) (norm OpsR (vsub OpsR b x))
            (vsub OpsR b a) (norm OpsR (vsub OpsR b a)).

Theorem analyticS_in_plane_lemma (v0 v1 v2 x : V3) :
  let a := analyticS_init OpsR v0 v1 v2 in
  dot OpsR (vsub OpsR v0 x) (S_n a) = 0 ->
  0 < norm2 OpsR (cross OpsR (vsub OpsR v0 x) (vsub OpsR v1 v0)) ->
  0 < norm2 OpsR (cross OpsR (vsub OpsR v1 x) (vsub OpsR v2 v1)) ->
  0 < norm2 OpsR (cross OpsR (vsub OpsR v2 x) (vsub OpsR v0 v2)) ->
  fisnormal OpsR (edge_arg v0 v1 x) = true -> fisnormal OpsR (edge_arg v1 v2 x) = true -> fisnormal OpsR (edge_arg v2 v0 x) = true ->
  exists I0 I1 I2,
    is_RInt (edge_integrand v0 v1 x) 0 1 I0 /\ is_RInt (edge_integrand v1 v2 x) 0 1 I1 /\ is_RInt (edge_integrand v2 v0 x) 0 1 I2 /\
    analyticS_f OpsR a x = dot OpsR (vsub OpsR v0 x) (S_nu0 a) * I0 + dot OpsR (vsub OpsR v1 x) (S_nu1 a) * I1
                           + dot OpsR (vsub OpsR v2 x) (S_nu2 a) * I2.
Proof.
  intros a Hp H0 H1 H2 N0 N1 N2.
  exists (ln (edge_arg v0 v1 x)), (ln (edge_arg v1 v2 x)), (ln (edge_arg v2 v0 x)).
  split; [apply (green_log_is_edge_integral_lemma v0 v1 x H0)|].
  split; [apply (green_log_is_edge_integral_lemma v1 v2 x H1)|].
  split; [apply (green_log_is_edge_integral_lemma v2 v0 x H2)|].
  unfold analyticS_f. cbv zeta.
  cbn [S_p0 S_p1 S_p2 S_p1p0 S_p2p1 S_p0p2 S_norm2p1p0 S_norm2p2p1 S_norm2p0p2 a analyticS_init analyticS_init_with_normal].
  rewrite (green_log_branch_lemma v0 v1 x H0 N0), (green_log_branch_lemma v1 v2 x H1 N1), (green_log_branch_lemma v2 v0 x H2 N2).
  fold a. rewrite Hp. cbn [fsub fadd fmul OpsR]. unfold edge_arg. ring.
Qed.
