(* C15 -- model of the mesh readers/writers (OpenMEEG/include/MeshIOs/{tri,off,bnd,mesh,vtk}.h), of the
   machinery they share (MeshIO.h VertexIndices / reference_vertices, Geometry::add_vertex(es),
   Mesh::add_triangle through the index map, Mesh::load -> update(true) -> correct_local_orientation)
   and of Mesh::merge.  Model of the code AS IT IS; no proofs in this file.

   Abstractions (stated in design/C15.md):
   - a coordinate is an opaque token of type C; [ceq] is operator== of double, [rnd] is what the format
     stores (text: the digits operator<< writes at the default stream precision 6; .mesh: float32);
   - a pointer to a Vertex of the geometry is its position in Geometry::vertices() (a nat);
   - text files are token streams (newline is a token: skip_line / skip_comments depend on it), the
     .mesh file is a stream of bytes in which a float32 is one 4-byte item;
   - [Fail] = the stream entered the fail state (what the real readers then do is C19's subject);
     [Throw] = a C++ exception (std::out_of_range from map::at / vector::at, std::invalid_argument). *)
From OM Require Import Base.Lists.
From Coq Require Import NArith.
Local Open Scope nat_scope.

Inductive res (A : Type) : Type := Ok (a : A) | Fail | Throw.
Arguments Ok {A} a. Arguments Fail {A}. Arguments Throw {A}.

Notation tri := (nat * nat * nat)%type.
Notation edge := (nat * nat)%type.

Definition obind {A B} (o : option A) (f : A -> option B) : option B :=
  match o with Some a => f a | None => None end.
Notation "'olet' p <- m ;; k" := (obind m (fun p => k)) (at level 200, p pattern, m at level 100, k at level 200, right associativity).

(* unsigned is 32 bits *)
Definition fits32 (n : nat) : bool := (N.of_nat n <? 4294967296)%N.

(* position of the LAST occurrence of g in l  (std::map insertion vmap[vertex] = i++ : last write wins) *)
Fixpoint last_pos (l : list nat) (g p : nat) (acc : option nat) : option nat :=
  match l with
  | [] => acc
  | h :: t => last_pos t g (S p) (if h =? g then Some p else acc)
  end.
Definition vpos (l : list nat) (g : nat) : option nat := last_pos l g 0 None.

Definition map_tri (f : nat -> option nat) (t : tri) : option tri :=
  let '(a, b, c) := t in
  olet a' <- f a ;; olet b' <- f b ;; olet c' <- f c ;; Some (a', b', c').
Fixpoint map_tris (f : nat -> option nat) (ts : list tri) : option (list tri) :=
  match ts with
  | [] => Some []
  | t :: r => olet t' <- map_tri f t ;; olet r' <- map_tris f r ;; Some (t' :: r')
  end.

(* ------------------------------------------------------------------ orientation (mesh.cpp:266-340) *)
Definition flip (t : tri) : tri := let '(a, b, c) := t in (b, a, c).          (* Triangle::change_orientation *)
Definition dedges (t : tri) : list edge := let '(a, b, c) := t in [(b, c); (c, a); (a, b)].   (* Triangle::edges *)
Definition tverts (t : tri) : list nat := let '(a, b, c) := t in [a; b; c].
Definition peqb (p q : edge) : bool := (fst p =? fst q) && (snd p =? snd q).

(* compute_edge_map: the key an edge is filed under and its increment *)
Definition ekey (ix : nat -> N) (e : edge) : edge * Z :=
  let (a, b) := e in if (ix b <? ix a)%N then ((a, b), 1%Z) else ((b, a), (-1)%Z).
(* value stored under key k once all edges have been filed *)
Definition eval (ix : nat -> N) (es : list edge) (k : edge) : Z :=
  zsum (map (fun e => let (k', s) := ekey ix e in if peqb k' k then s else 0%Z) es).
(* has_correct_orientation: no stored value is +-2 (keys never filed hold nothing) *)
Definition hco_tr (ix : nat -> N) (ts : list tri) : bool :=
  let es := flat_map dedges ts in
  forallb (fun e => negb (Z.abs (eval ix es (fst (ekey ix e))) =? 2)%Z) es.

(* the same check computed the way the code does it: one pass filing every edge in a map (rows indexed by the first
   vertex of the key, each row an association list), then one pass reading the values.  hco_fast = hco_tr
   (MeshCodecFast.hco_fast_eq); it is what [correct_local] runs, so that large meshes stay cheap once extracted. *)
Fixpoint aget (r : list (nat * Z)) (b : nat) : Z :=
  match r with [] => 0%Z | (b', v) :: t => if b' =? b then v else aget t b end.
Fixpoint aadd (r : list (nat * Z)) (b : nat) (s : Z) : list (nat * Z) :=
  match r with
  | [] => [(b, s)]
  | (b', v) :: t => if b' =? b then (b', (v + s)%Z) :: t else (b', v) :: aadd t b s
  end.
Definition mget (M : list (list (nat * Z))) (k : edge) : Z := aget (nth (fst k) M []) (snd k).
Definition madd (M : list (list (nat * Z))) (k : edge) (s : Z) : list (list (nat * Z)) :=
  upd M (fst k) (aadd (nth (fst k) M []) (snd k) s).
Definition maxv (es : list edge) : nat := fold_right (fun e m => Nat.max (Nat.max (fst e) (snd e)) m) 0 es.
Definition mbuild (ix : nat -> N) (es : list edge) (M0 : list (list (nat * Z))) : list (list (nat * Z)) :=
  fold_left (fun M e => let (k, s) := ekey ix e in madd M k s) es M0.
Definition hco_fast (ix : nat -> N) (ts : list tri) : bool :=
  let es := flat_map dedges ts in
  let M := mbuild ix es (repeat [] (S (maxv es))) in
  forallb (fun e => negb (Z.abs (mget M (fst (ekey ix e))) =? 2)%Z) es.

(* position table of vertices(): tab[g] = last position of g (VertexIndices / generate_indices in one pass) *)
Fixpoint postab_from (l : list nat) (p : nat) (tab : list (option nat)) : list (option nat) :=
  match l with [] => tab | h :: t => postab_from t (S p) (upd tab h (Some p)) end.
Definition postab (l : list nat) : list (option nat) := postab_from l 0 (repeat None (S (list_max l))).
Definition vpos_t (tab : list (option nat)) (g : nat) : option nat := nth g tab None.   (* = vpos l g for tab = postab l *)

(* make_adjacencies: triangles containing vertex v, in triangle order, one entry per slot *)
Fixpoint vtris_from (i : nat) (ts : list tri) (v : nat) : list nat :=
  match ts with
  | [] => []
  | t :: r => map (fun _ => i) (filter (Nat.eqb v) (tverts t)) ++ vtris_from (S i) r v
  end.
Definition vtris (ts : list tri) (v : nat) : list nat := vtris_from 0 ts v.

(* adjacent_triangles: a triangle is reported when its counter reaches 2 *)
Fixpoint second_occ (seen l : list nat) : list nat :=
  match l with
  | [] => []
  | x :: r => if count_occ Nat.eq_dec seen x =? 1 then x :: second_occ (x :: seen) r
              else second_occ (x :: seen) r
  end.
Definition adjacent (ts : list tri) (t : tri) : list nat :=
  second_occ [] (flat_map (vtris ts) (tverts t)).

Definition has_same_edge (e1 e2 : list edge) : bool :=
  existsb (fun x2 => existsb (fun x1 => peqb x1 x2) e1) e2.

Definition tnth (ts : list tri) (i : nat) : tri := nth i ts (0, 0, 0).

(* the body of the for loop over adjacent_triangles(t1) *)
Fixpoint visit_adj (e1 : list edge) (adj : list nat) (st : list nat * list nat * list tri)
  : list nat * list nat * list tri :=
  match adj with
  | [] => st
  | tp :: r =>
      let '(stk, vis, ts) := st in
      if existsb (Nat.eqb tp) vis then visit_adj e1 r st
      else
        let t2 := tnth ts tp in
        let ts' := if has_same_edge e1 (dedges t2) then upd ts tp (flip t2) else ts in
        visit_adj e1 r (tp :: stk, tp :: vis, ts')
  end.

(* the while loop over the stack; every triangle is pushed at most once, so [length ts] rounds suffice *)
Fixpoint fill (fuel : nat) (stk vis : list nat) (ts : list tri) : list tri :=
  match fuel, stk with
  | S f, t1 :: stk' =>
      let t := tnth ts t1 in
      let '(stk2, vis2, ts2) := visit_adj (dedges t) (adjacent ts t) (stk', vis, ts) in
      fill f stk2 vis2 ts2
  | _, _ => ts
  end.

Definition correct_local (ix : nat -> N) (ts : list tri) : list tri :=
  if hco_fast ix ts then ts else
  match ts with [] => ts | _ => fill (length ts) [0] [0] ts end.

Section Codec.
Variable C : Type.
Variable ceq : C -> C -> bool.      (* operator== on double *)
Variable rnd : C -> C.              (* what the format keeps of a coordinate *)
Variable c0 : C.

Definition V3 : Type := (C * C * C)%type.
Definition veq (a b : V3) : bool :=
  let '(ax, ay, az) := a in let '(bx, b_y, bz) := b in ceq ax bx && ceq ay b_y && ceq az bz.
Definition vrnd (a : V3) : V3 := let '(x, y, z) := a in (rnd x, rnd y, rnd z).
Definition v0 : V3 := (c0, c0, c0).

(* ------------------------------------------------------------------ Geometry::add_vertex (geometry.h:96) *)
Fixpoint find_v (g : list V3) (v : V3) : option nat :=
  match g with
  | [] => None
  | h :: t => if veq h v then Some 0 else option_map S (find_v t v)
  end.
Definition add_vertex (g : list V3) (v : V3) : list V3 * nat :=
  match find_v g v with Some i => (g, i) | None => (g ++ [v], length g) end.
(* add_vertices: the IndexMap k -> position, as the list of positions *)
Fixpoint add_vertices (g : list V3) (vs : list V3) : list V3 * list nat :=
  match vs with
  | [] => (g, [])
  | v :: r => let (g1, i) := add_vertex g v in
              let (g2, im) := add_vertices g1 r in (g2, i :: im)
  end.

(* ------------------------------------------------------------------ Mesh *)
Record mesh := mkMesh {
  gv : list V3;      (* geometry().vertices() *)
  mv : list nat;     (* vertices(): references into the geometry, in order *)
  tr : list tri      (* triangles(): references into the geometry *)
}.

(* Vertex::index() after generate_indices; a vertex the mesh does not reference keeps unsigned(-1) *)
Definition vindex_t (tab : list (option nat)) (g : nat) : N :=
  match vpos_t tab g with Some p => N.of_nat p | None => 4294967295%N end.
Definition vindex (m : mesh) : nat -> N := vindex_t (postab (mv m)).

Definition has_correct_orientation (m : mesh) : bool := hco_fast (vindex m) (tr m).

(* update(true): make_adjacencies; generate_indices; correct_local_orientation (normals/areas not modelled) *)
Definition update (m : mesh) : mesh :=
  mkMesh (gv m) (mv m) (correct_local (vindex m) (tr m)).

Definition coords (m : mesh) : list V3 := map (fun g => nth g (gv m) v0) (mv m).
(* MeshIO::VertexIndices *)
Definition loc (m : mesh) (g : nat) : option nat := vpos (mv m) g.
Definition local_triangles (m : mesh) : option (list tri) := map_tris (vpos_t (postab (mv m))) (tr m).   (* = map_tris (loc m) *)
(* vertex_triangles.at(&V) in Mesh::normal *)
Definition has_tri (m : mesh) (g : nat) : bool := existsb (fun t => existsb (Nat.eqb g) (tverts t)) (tr m).

(* what every reader does once points and triangles are parsed: add_vertices, reference_vertices,
   add_triangle through indmap, MeshIO::load -> update(true), Mesh::load -> update(true) *)
Definition build (vs : list V3) (ts : list tri) : res mesh :=
  let (g, im) := add_vertices [] vs in
  match map_tris (nth_error im) ts with
  | None => Throw
  | Some ts' => Ok (update (update (mkMesh g im ts')))
  end.
(* the same into a mesh object whose private geometry already holds the vertices g0 of an earlier load
   (Mesh::clear, called by Mesh::load, empties vertices() and triangles() but not the geometry) *)
Definition build_on (g0 : list V3) (vs : list V3) (ts : list tri) : res mesh :=
  let (g, im) := add_vertices g0 vs in
  match map_tris (nth_error im) ts with
  | None => Throw
  | Some ts' => Ok (update (update (mkMesh g im ts')))
  end.
(* the same construction without the orientation repair (the harness uses it to obtain inconsistent meshes) *)
Definition build_raw (vs : list V3) (ts : list tri) : res mesh :=
  let (g, im) := add_vertices [] vs in
  match map_tris (nth_error im) ts with
  | None => Throw
  | Some ts' => Ok (mkMesh g im ts')
  end.

(* ------------------------------------------------------------------ text streams *)
Inductive tok := TNL | TW (k : nat) | TNum (n : nat) | TC (c : C) | TNrm.

(* words (table shared with checks/c15.py) *)
Definition wDash := 0. Definition wOFF := 1. Definition wHash := 2. Definition wText := 3.
Definition wType := 4. Definition wUnknown := 5. Definition wNumPos := 6. Definition wUnitPos := 7.
Definition wmm := 8. Definition wPositions := 9. Definition wNumPoly := 10. Definition wTypePoly := 11.
Definition wPolygons := 12.
Definition wvtk := 20. Definition wDataFile := 21. Definition wVersion := 22. Definition w20 := 23.
Definition wMesh := 24. Definition wfile := 25. Definition wgenerated := 26. Definition wby := 27.
Definition wOpenMEEG := 28. Definition wASCII := 29. Definition wDATASET := 30. Definition wPOLYDATA := 31.
Definition wPOINTS := 32. Definition wfloat := 33. Definition wPOLYGONS := 34. Definition wCELL_DATA := 35.
Definition wPOINT_DATA := 36. Definition wNORMALS := 37. Definition wnormals := 38.

Fixpoint skip_ws (s : list tok) : list tok := match s with TNL :: r => skip_ws r | _ => s end.
(* io_utils::skip_comments('#'): skip blanks, and whole lines whose first token is '#' *)
Fixpoint skipc (inl : bool) (s : list tok) : list tok :=
  match s with
  | [] => []
  | t :: r =>
      if inl then match t with TNL => skipc false r | _ => skipc true r end
      else match t with
           | TNL => skipc false r
           | TW k => if k =? wHash then skipc true r else s
           | _ => s
           end
  end.
Fixpoint skip_line (s : list tok) : list tok :=
  match s with [] => [] | TNL :: r => r | _ :: r => skip_line r end.

Definition rd_nat (s : list tok) : option (nat * list tok) :=
  match skip_ws s with TNum n :: r => if fits32 n then Some (n, r) else None | _ => None end.
Definition rd_str (s : list tok) : option (tok * list tok) :=
  match skip_ws s with [] => None | t :: r => Some (t, r) end.
Definition rd_word (k : nat) (s : list tok) : option (list tok) :=      (* fs >> st; om_error(st==...) handled by callers *)
  match skip_ws s with TW k' :: r => if k' =? k then Some r else None | _ => None end.
Definition rd_coord (s : list tok) : option (C * list tok) :=
  match skip_ws s with TC c :: r => Some (c, r) | _ => None end.
Definition rd_v3 (s : list tok) : option (V3 * list tok) :=
  olet (x, s1) <- rd_coord s ;; olet (y, s2) <- rd_coord s1 ;; olet (z, s3) <- rd_coord s2 ;; Some ((x, y, z), s3).
Definition rd_nrm (s : list tok) : option (list tok) :=
  match skip_ws s with TNrm :: r => Some r | _ => None end.
Definition rd_nrm3 (s : list tok) : option (list tok) :=
  olet s1 <- rd_nrm s ;; olet s2 <- rd_nrm s1 ;; rd_nrm s2.

(* n vertex lines; sc: skip_comments before each; nn: a normal follows the point *)
Fixpoint rd_vlines (sc nn : bool) (n : nat) (s : list tok) : option (list V3 * list tok) :=
  match n with
  | O => Some ([], s)
  | S n' =>
      olet (v, s1) <- rd_v3 (if sc then skipc false s else s) ;;
      olet s2 <- (if nn then rd_nrm3 s1 else Some s1) ;;
      olet (vs, s3) <- rd_vlines sc nn n' s2 ;;
      Some (v :: vs, s3)
  end.
(* n triangle lines; lead: a vertex count precedes the indices *)
Fixpoint rd_tlines (sc lead : bool) (n : nat) (s : list tok) : option (list tri * list tok) :=
  match n with
  | O => Some ([], s)
  | S n' =>
      let s0 := if sc then skipc false s else s in
      olet s1 <- (if lead then olet (_, r) <- rd_nat s0 ;; Some r else Some s0) ;;
      olet (a, s2) <- rd_nat s1 ;; olet (b, s3) <- rd_nat s2 ;; olet (c, s4) <- rd_nat s3 ;;
      olet (ts, s5) <- rd_tlines sc lead n' s4 ;;
      Some ((a, b, c) :: ts, s5)
  end.

Definition parsed (o : option (list V3 * list tri)) : res mesh :=
  match o with None => Fail | Some (vs, ts) => build vs ts end.

(* ---- writers: common parts *)
Definition vline (nn : bool) (v : V3) : list tok :=
  let '(x, y, z) := vrnd v in
  [TC x; TC y; TC z] ++ (if nn then [TNrm; TNrm; TNrm] else []) ++ [TNL].
Definition tline (lead : bool) (t : tri) : list tok :=
  let '(a, b, c) := t in (if lead then [TNum 3] else []) ++ [TNum a; TNum b; TNum c; TNL].

Definition nv (m : mesh) := length (mv m).
Definition nt (m : mesh) := length (tr m).

(* before the repair of Mesh::normal a writer that prints normals threw for a vertex no triangle uses *)
Definition normals_ok (m : mesh) : bool := forallb (has_tri m) (mv m).

(* ---- TRI *)
Definition save_tri (m : mesh) : res (list tok) :=
  match local_triangles m with
  | None => Throw
  | Some lt =>
      Ok ([TW wDash; TNum (nv m); TNL] ++ flat_map (vline true) (coords m)
          ++ [TW wDash; TNum (nt m); TNum (nt m); TNum (nt m); TNL] ++ flat_map (tline false) lt)
  end.
Definition parse_tri (s : list tok) : option (list V3 * list tri) :=
         (olet s1 <- rd_word wDash s ;; olet (np, s2) <- rd_nat s1 ;;
          olet (vs, s3) <- rd_vlines false true np s2 ;;
          olet s4 <- rd_word wDash s3 ;; olet (_, s5) <- rd_nat s4 ;; olet (_, s6) <- rd_nat s5 ;; olet (ntr, s7) <- rd_nat s6 ;;
          olet (ts, _) <- rd_tlines false false ntr s7 ;;
          Some (vs, ts)).
Definition load_tri (s : list tok) : res mesh := parsed (parse_tri s).

(* ---- OFF (the magic word is read but a mismatch is not reported: the exception object is never thrown) *)
Definition save_off (m : mesh) : res (list tok) :=
  match local_triangles m with
  | None => Throw
  | Some lt =>
      Ok ([TW wOFF; TNL; TNum (nv m); TNum (nt m); TNum 0; TNL] ++ flat_map (vline false) (coords m)
          ++ flat_map (tline true) lt)
  end.
Definition parse_off (s : list tok) : option (list V3 * list tri) :=
         (olet (_, s1) <- rd_str s ;; olet (np, s2) <- rd_nat (skipc false s1) ;;
          olet (ntr, s3) <- rd_nat s2 ;; olet (_, s4) <- rd_nat s3 ;;
          olet (vs, s5) <- rd_vlines false false np s4 ;;
          olet (ts, _) <- rd_tlines false true ntr s5 ;;
          Some (vs, ts)).
Definition load_off (s : list tok) : res mesh := parsed (parse_off s).
(* loading into a used mesh object: same parsers, the points go through add_vertices of the geometry as it is *)
Definition reload_tri (g0 : list V3) (s : list tok) : res mesh :=
  match parse_tri s with None => Fail | Some (vs, ts) => build_on g0 vs ts end.
Definition reload_off (g0 : list V3) (s : list tok) : res mesh :=
  match parse_off s with None => Fail | Some (vs, ts) => build_on g0 vs ts end.

(* ---- BND *)
Definition save_bnd (m : mesh) : res (list tok) :=
  match local_triangles m with
  | None => Throw
  | Some lt =>
      Ok ([TW wHash; TW wText; TW wText; TW wText; TW wText; TW wText; TW wText; TNL;
           TW wType; TW wUnknown; TNL; TW wNumPos; TNum (nv m); TNL; TW wUnitPos; TW wmm; TNL; TW wPositions; TNL]
          ++ flat_map (vline false) (coords m)
          ++ [TW wNumPoly; TNum (nt m); TNL; TW wTypePoly; TNum 3; TNL; TW wPolygons; TNL]
          ++ flat_map (tline false) lt)
  end.

Definition is_w (k : nat) (t : tok) : bool := match t with TW k' => k' =? k | _ => false end.
Definition is_num (n : nat) (t : tok) : bool := match t with TNum n' => n' =? n | _ => false end.

(* [None] = stream failed, [Some None] = om_error threw, [Some (Some x)] = parsed *)
Definition load_bnd_parse (s : list tok) : option (option (list V3 * list tri)) :=
  olet (st, s1) <- rd_str (skipc false s) ;;
  olet (st, s2) <- (if is_w wType st then rd_str (skipc false (skip_line s1)) else Some (st, s1)) ;;
  if negb (is_w wNumPos st) then Some None else
  olet (np, s3) <- rd_nat s2 ;;
  olet (st, s4) <- rd_str (skipc false s3) ;;
  let s5 := if is_w wUnitPos st then skip_line s4 else s4 in
  olet (st, s6) <- rd_str (skipc false s5) ;;
  if negb (is_w wPositions st) then Some None else
  olet (vs, s7) <- rd_vlines true false np s6 ;;
  olet (st, s8) <- rd_str (skipc false s7) ;;
  if negb (is_w wNumPoly st) then Some None else
  olet (ntr, s9) <- rd_nat (skipc false s8) ;;
  olet (st, s10) <- rd_str (skipc false s9) ;;
  if negb (is_w wTypePoly st) then Some None else
  olet (st, s11) <- rd_str (skipc false s10) ;;
  if negb (is_num 3 st) then Some None else
  olet (st, s12) <- rd_str (skipc false s11) ;;
  if negb (is_w wPolygons st) then Some None else
  olet (ts, _) <- rd_tlines true false ntr s12 ;;
  Some (Some (vs, ts)).
Definition load_bnd (s : list tok) : res mesh :=
  match load_bnd_parse s with
  | None => Fail
  | Some None => Throw
  | Some (Some (vs, ts)) => build vs ts
  end.
Definition reload_bnd (g0 : list V3) (s : list tok) : res mesh :=
  match load_bnd_parse s with
  | None => Fail
  | Some None => Throw
  | Some (Some (vs, ts)) => build_on g0 vs ts
  end.

(* ---- VTK (writer only in this build: load() throws VTKError without USE_VTK) *)
Definition save_vtk (m : mesh) : res (list tok) :=
  match local_triangles m with
  | None => Throw
  | Some lt =>
      Ok ([TW wHash; TW wvtk; TW wDataFile; TW wVersion; TW w20; TNL;
           TW wMesh; TW wfile; TW wgenerated; TW wby; TW wOpenMEEG; TNL;
           TW wASCII; TNL; TW wDATASET; TW wPOLYDATA; TNL;
           TW wPOINTS; TNum (nv m); TW wfloat; TNL]
          ++ flat_map (vline false) (coords m)
          ++ [TW wPOLYGONS; TNum (nt m); TNum (nt m * 4); TNL]
          ++ flat_map (tline true) lt
          ++ [TW wCELL_DATA; TNum (nt m); TNL; TW wPOINT_DATA; TNum (nv m); TNL;
              TW wNORMALS; TW wnormals; TW wfloat; TNL]
          ++ flat_map (fun _ => [TNrm; TNrm; TNrm; TNL]) (mv m))
  end.
Definition load_vtk (s : list tok) : res mesh := Throw.

(* ------------------------------------------------------------------ .mesh : bytes *)
Inductive bitem := BB (b : N) | BF (c : C) | BNF.    (* one byte | a float32 coordinate (4 bytes) | a float32 normal component *)

Definition u32 (n : N) : list bitem :=
  [BB (n mod 256)%N; BB ((n / 256) mod 256)%N; BB ((n / 65536) mod 256)%N; BB ((n / 16777216) mod 256)%N].
Definition u32n (n : nat) : list bitem := u32 (N.of_nat n mod 4294967296)%N.    (* unsigned x = size() *)
Definition rd_u32 (s : list bitem) : option (N * list bitem) :=
  match s with
  | BB a :: BB b :: BB c :: BB d :: r => Some ((a + 256 * b + 65536 * c + 16777216 * d)%N, r)
  | _ => None
  end.
Definition rd_u32n (s : list bitem) : option (nat * list bitem) :=
  olet (n, r) <- rd_u32 s ;; Some (N.to_nat n, r).
Fixpoint rd_bytes (k : nat) (s : list bitem) : option (list bitem) :=     (* read/ignore k raw bytes *)
  match k with
  | O => Some s
  | S k' => match s with BB _ :: r => rd_bytes k' r | _ => None end
  end.
Fixpoint rd_floats (n : nat) (s : list bitem) : option (list C * list bitem) :=
  match n with
  | O => Some ([], s)
  | S n' => match s with BF c :: r => olet (cs, r') <- rd_floats n' r ;; Some (c :: cs, r') | _ => None end
  end.
Fixpoint skip_floats (n : nat) (s : list bitem) : option (list bitem) :=   (* fs.ignore(4*n) over float items *)
  match n with
  | O => Some s
  | S n' => match s with BF _ :: r | BNF :: r => skip_floats n' r | _ => None end
  end.
Fixpoint group3 {A} (l : list A) : list (A * A * A) :=
  match l with a :: b :: c :: r => (a, b, c) :: group3 r | _ => [] end.
Fixpoint rd_u32s (n : nat) (s : list bitem) : option (list nat * list bitem) :=
  match n with
  | O => Some ([], s)
  | S n' => olet (x, r) <- rd_u32n s ;; olet (xs, r') <- rd_u32s n' r ;; Some (x :: xs, r')
  end.

Definition bchars (l : list N) : list bitem := map BB l.
Definition save_mesh (m : mesh) : res (list bitem) :=
  match local_triangles m with
  | None => Throw
  | Some lt =>
      Ok (bchars [98; 105; 110; 97; 114]%N ++ bchars [68; 67; 66; 65]%N ++ u32 4 ++ bchars [86; 79; 73; 68]%N
          ++ u32 3 ++ u32 1 ++ u32 0
          ++ u32n (nv m) ++ flat_map (fun v => let '(x, y, z) := vrnd v in [BF x; BF y; BF z]) (coords m)
          ++ u32n (nv m) ++ flat_map (fun _ => [BNF; BNF; BNF]) (mv m)
          ++ u32 0 ++ u32n (nt m)
          ++ flat_map (fun t => let '(a, b, c) := t in u32n a ++ u32n b ++ u32n c) lt)
  end.

(* the arrays are sized with 32-bit products 3*npts, 3*ntrgs: beyond 2^32 the reader is outside the model *)
Definition load_mesh_parse (s : list bitem) : option (option (list V3 * list tri)) :=
  olet s1 <- rd_bytes 5 s ;; olet s2 <- rd_bytes 4 s1 ;;
  olet (asz, s3) <- rd_u32n s2 ;;
  if negb (asz =? 4) then None else
  olet s4 <- rd_bytes 4 s3 ;;
  olet (vpf, s5) <- rd_u32n s4 ;; olet (mt, s6) <- rd_u32n s5 ;; olet s7 <- rd_bytes 4 s6 ;;
  if negb (vpf =? 3) then Some None else
  if negb (mt =? 1) then Some None else
  olet (np, s8) <- rd_u32n s7 ;;
  if negb (fits32 (3 * np)) then None else
  olet (cs, s9) <- rd_floats (3 * np) s8 ;;
  olet (nn, s10) <- rd_u32n s9 ;;
  olet s11 <- skip_floats (3 * nn) s10 ;;
  olet s12 <- rd_bytes 4 s11 ;;
  olet (ntr, s13) <- rd_u32n s12 ;;
  if negb (fits32 (3 * ntr)) then None else
  olet (ix, _) <- rd_u32s (3 * ntr) s13 ;;
  Some (Some (group3 cs, group3 ix)).
Definition load_mesh (s : list bitem) : res mesh :=
  match load_mesh_parse s with
  | None => Fail
  | Some None => Throw
  | Some (Some (vs, ts)) => build vs ts
  end.
Definition reload_mesh (g0 : list V3) (s : list bitem) : res mesh :=
  match load_mesh_parse s with
  | None => Fail
  | Some None => Throw
  | Some (Some (vs, ts)) => build_on g0 vs ts
  end.

(* ------------------------------------------------------------------ Mesh::merge (om_mesh_concat) *)
(* add_mesh: vertices of m go through add_vertex of the receiver's geometry and are referenced once;
   triangles are rebuilt through the pointer map (vmap.at throws for a vertex m does not reference) *)
Fixpoint add_mesh_verts (g : list V3) (mvl : list nat) (vmap : list (nat * nat)) (src : list (nat * V3))
  : list V3 * list nat * list (nat * nat) :=
  match src with
  | [] => (g, mvl, vmap)
  | (p, v) :: r =>
      let (g1, i) := add_vertex g v in
      add_mesh_verts g1 (if existsb (Nat.eqb i) mvl then mvl else mvl ++ [i]) ((p, i) :: vmap) r
  end.
Definition vmap_at (vmap : list (nat * nat)) (p : nat) : option nat :=
  option_map snd (find (fun e => fst e =? p) vmap).
Definition add_mesh (acc : mesh) (m : mesh) : res mesh :=
  let '(g, mvl, vmap) := add_mesh_verts (gv acc) (mv acc) [] (combine (mv m) (coords m)) in
  match map_tris (vmap_at vmap) (tr m) with
  | None => Throw
  | Some ts => Ok (mkMesh g mvl (tr acc ++ ts))
  end.
Definition merge_raw (m1 m2 : mesh) : res mesh :=
  match add_mesh (mkMesh [] [] []) m1 with
  | Ok a => add_mesh a m2
  | e => e
  end.
Definition merge (m1 m2 : mesh) : res mesh :=
  match merge_raw m1 m2 with Ok m => Ok (update m) | e => e end.

End Codec.

Arguments TNL {C}. Arguments TW {C} k. Arguments TNum {C} n. Arguments TC {C} c. Arguments TNrm {C}.
Arguments BB {C} b. Arguments BF {C} c. Arguments BNF {C}.
Arguments gv {C} m. Arguments mv {C} m. Arguments tr {C} m. Arguments mkMesh {C} gv mv tr.
Arguments update {C} m. Arguments has_correct_orientation {C} m. Arguments vindex {C} m.
Arguments loc {C} m g. Arguments local_triangles {C} m. Arguments has_tri {C} m g. Arguments normals_ok {C} m.
Arguments nv {C} m. Arguments nt {C} m.
