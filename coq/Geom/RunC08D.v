(* EXTRACT-F: c08d frun_c08d *)
(* EXTRACT-F: c08m frun_c08m *)
(* C08 -- the complete float instance of the source assembly:
     c08d : Sources.DSM / Sources.DS2IP with IDer, IPot := AdaptInt.integrate applied to the code's kernels as transcribed in
            Geom/Kernels.v (C16: analyticDipPotDer::f, Dipole::potential), on the geometry as the library loaded it
            (structure + coordinates), with the quadrature table and the constant K read from the compiled library;
     c08m : Sources.DS2MEG (closed form, no integration).
   Compared entry by entry with the real DipSourceMat / DipSource2InternalPotMat / DipSource2MEGMat. *)
From Coq Require Import List ZArith Bool Arith.
From OM Require Import Base.Ops Base.Lists Base.Wire Geom.AdaptInt Geom.Sources.
From OM Require Base.Vec3 Geom.Kernels.
Import ListNotations.
Local Open Scope Z_scope.

Section FloatSources.
Context {F : Type} (o : Ops F).
Local Notation Fpt := (pt (F:=F)).

Definition to_v (p : Fpt) : Vec3.vec3 F := Vec3.mkV (px p) (py p) (pz p).
Definition of_v (v : Vec3.vec3 F) : Fpt := (Vec3.vx v, Vec3.vy v, Vec3.vz v).

Variable rule : qrule (F:=F).
Variable tol : F.
Variable depth : nat.

(* operators.cpp:51-54: analyticDipPotDer anaDPD(dipole,triangle) is built once per triangle, then integrated *)
Definition f_IDer (d : dipole (F:=F)) (t : triangle (F:=F)) : Fpt :=
  let a := Kernels.analyticDipPotDer_init o (to_v (dpos d)) (to_v (dmom d))
             (to_v (t0 (tr_pts t))) (to_v (t1 (tr_pts t))) (to_v (t2 (tr_pts t))) in
  integrate o (vect3V o) rule tol (fun r => of_v (Kernels.analyticDipPotDer_f o a (to_v r))) depth (tr_pts t).
Definition f_kpot (d : dipole (F:=F)) (r : Fpt) : F :=
  Kernels.dipole_potential o (to_v (dpos d)) (to_v (dmom d)) (to_v r).
Definition f_IPot (d : dipole (F:=F)) (t : triangle (F:=F)) : F :=
  integrate o (scalarV o) rule tol (f_kpot d) depth (tr_pts t).

(* containment as reported by the library for the points of the case: table (point, ids of the domains containing it) *)
Definition pt_eqb (a b : Fpt) : bool := feqb o (px a) (px b) && feqb o (py a) (py b) && feqb o (pz a) (pz b).
Fixpoint lookup_cont (tab : list (Fpt * list Z)) (p : Fpt) : list Z :=
  match tab with [] => [] | (q, ids) :: tab' => if pt_eqb p q then ids else lookup_cont tab' p end.
Definition f_contains (tab : list (Fpt * list Z)) (dom : domain (F:=F)) (p : Fpt) : bool :=
  existsb (Z.eqb (dm_name dom)) (lookup_cont tab p).
End FloatSources.

(* ---- decoding: integers carry the structure (as c08s), floats the numbers ---- *)
Section Decode.
Context {F : Type} (o : Ops F).
Local Notation Fpt := (pt (F:=F)).
Variable tris : list (tri (F:=F)).       (* coordinates by triangle serial *)
Variable conds : list F.                 (* conductivity by domain id *)
Definition zpt : Fpt := (f0 o, f0 o, f0 o).

Definition getTriF : dec (triangle (F:=F)) :=
  do i <- getN; do a <- getN; do b <- getN; do c <- getN; do s <- getN;
  ret (@mkTriangle F i (a, b, c) (nth s tris (zpt, zpt, zpt))).
Definition getOMeshF : dec (omesh (F:=F)) :=
  do ori <- getZ; do bar <- getZ; do n <- getN; do ts <- getMany n getTriF;
  ret (@mkOMesh F (@mkMesh F ts (negb (Z.eqb bar 0))) ori).
Definition getBoundaryF : dec (boundary (F:=F)) :=
  do ins <- getZ; do n <- getN; do oms <- getMany n getOMeshF; ret (@mkBoundary F (negb (Z.eqb ins 0)) oms).
Definition getDomainF : dec (domain (F:=F)) :=
  do name <- getZ; do c <- getZ; do n <- getN; do bs <- getMany n getBoundaryF;
  ret (@mkDomain F name (nth (Z.to_nat name) conds (f0 o)) bs).
Definition getGeoF : dec (geometry (F:=F)) :=
  do size <- getN; do n <- getN; do ds <- getMany n getDomainF; ret (@mkGeometry F ds size).
Definition getCont : dec (list Z) := getVec.
End Decode.

Section Run.
Context {F : Type} (o : Ops F).
Local Notation Fpt := (pt (F:=F)).

Fixpoint take3 (n : nat) (l : list F) : list Fpt * list F :=
  match n, l with
  | S k, a :: b :: c :: l' => let '(r, rest) := take3 k l' in ((a, b, c) :: r, rest)
  | _, _ => ([], l)
  end.
Fixpoint take9 (n : nat) (l : list F) : list (tri (F:=F)) * list F :=
  match n, l with
  | S k, a0 :: a1 :: a2 :: b0 :: b1 :: b2 :: c0 :: c1 :: c2 :: l' =>
    let '(r, rest) := take9 k l' in (((a0, a1, a2), (b0, b1, b2), (c0, c1, c2)) :: r, rest)
  | _, _ => ([], l)
  end.
Fixpoint take6 (n : nat) (l : list F) : list (dipole (F:=F)) * list F :=
  match n, l with
  | S k, a :: b :: c :: d :: e :: f :: l' => let '(r, rest) := take6 k l' in (((a, b, c), (d, e, f)) :: r, rest)
  | _, _ => ([], l)
  end.
Fixpoint taken (n : nat) (l : list F) : list F * list F :=
  match n, l with S k, a :: l' => let '(r, rest) := taken k l' in (a :: r, rest) | _, _ => ([], l) end.
Fixpoint get_rule4 (n : nat) (l : list F) : qrule (F:=F) * list F :=
  match n, l with
  | S n', a :: b :: c :: w :: l' => let '(r, rest) := get_rule4 n' l' in (((a, b, c), w) :: r, rest)
  | _, _ => ([], l)
  end.

Definition out_matF (M : option (list (list F))) (nrows : nat) : list Z * list F :=
  match M with
  | None => ([ST_OTHER], [])
  | Some cols => ([ST_OK; zn (length cols); zn nrows], concat cols)
  end.

(* ints : op npts depth nser ndom_f npts_ip ndip  <geo> named  <containment of each ip point> <containment of each dipole>
   floats : K tol rule(4*npts) conds(ndom_f) tris(9*nser) ip points(3 each) dipoles(6 each)
   op 1 = DipSourceMat, 2 = DipSource2InternalPotMat *)
Definition frun_c08d (zs : list Z) (fs : list F) : list Z * list F :=
  match zs with
  | op :: npts :: depth :: nser :: ndomf :: nip :: ndip :: zs' =>
    match fs with
    | K :: tol :: fs1 =>
      let '(rule, fs2) := get_rule4 (Z.to_nat npts) fs1 in
      let '(conds, fs3) := taken (Z.to_nat ndomf) fs2 in
      let '(tris, fs4) := take9 (Z.to_nat nser) fs3 in
      let '(ipts, fs5) := take3 (Z.to_nat nip) fs4 in
      let '(dips, _) := take6 (Z.to_nat ndip) fs5 in
      match (do g <- getGeoF o tris conds; do nm <- getZ;
             do ci <- getMany (Z.to_nat nip) getCont; do cd <- getMany (Z.to_nat ndip) getCont; ret (g, nm, ci, cd)) zs' with
      | Some ((g, nm, ci, cd), []) =>
        let named := if nm <? 0 then None else Some nm in
        let tab := combine ipts ci ++ combine (map (@dpos F) dips) cd in
        let cont := f_contains o tab in
        if Z.eqb op 1 then
          out_matF (DSM o cont (f_IDer o rule tol (Z.to_nat depth)) (f_IPot o rule tol (Z.to_nat depth)) K g named
                        (zeros o (g_size g)) dips) (g_size g)
        else
          match DS2IP o cont K (f_kpot o) g named ipts dips with
          | None => ([ST_OTHER], [])
          | Some cols => ([ST_OK; zn (length cols); zn (match cols with c :: _ => length c | [] => O end)], concat cols)
          end
      | _ => ([-1], [])
      end
    | _ => ([-1], [])
    end
  | _ => ([-1], [])
  end.

(* DipSource2MEGMat: ints npos ndip ; floats MagFactor, per position pos(3) ori(3) weight, dipoles(6 each);
   sensor i = position i (distinct labels), weights matrix = diagonal in map order *)
Fixpoint take7 (n : nat) (k : nat) (l : list F) : list ((Fpt * Fpt) * (nat * nat * F)) * list F :=
  match n, l with
  | S n', a :: b :: c :: d :: e :: f :: w :: l' =>
    let '(r, rest) := take7 n' (S k) l' in ((((a, b, c), (d, e, f)), (k, k, w)) :: r, rest)
  | _, _ => ([], l)
  end.
Definition frun_c08m (zs : list Z) (fs : list F) : list Z * list F :=
  match zs, fs with
  | [npos; ndip], mag :: fs1 =>
    let '(sw, fs2) := take7 (Z.to_nat npos) O fs1 in
    let '(dips, _) := take6 (Z.to_nat ndip) fs2 in
    let S := @mkSensors F (map fst sw) (Z.to_nat npos) (map snd sw) in
    let cols := DS2MEG o mag S dips in
    ([ST_OK; zn (length cols); npos], concat cols)
  | _, _ => ([-1], [])
  end.
End Run.
