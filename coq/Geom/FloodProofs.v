(* flood_fill_consistent: on a connected mesh that admits a coherent orientation, the stack-based repair of
   Mesh::correct_local_orientation ends with the coherent orientation that agrees with the first triangle. *)
From OM Require Import Base.Lists Geom.MeshTopo Geom.MeshTopoProofs.
From Coq Require Import Permutation.

(* ---------- basic facts on triangles *)
Definition nondeg (t : tri) : Prop := let '(a, b, c) := t in a <> b /\ b <> c /\ a <> c.

Lemma edge_eqb_eq e f : edge_eqb e f = true <-> e = f.
Proof.
  unfold edge_eqb. destruct e as [a b], f as [c d]; simpl. rewrite andb_true_iff, !Nat.eqb_eq.
  split; [intros [-> ->]; auto|intros H; inversion H; auto].
Qed.

Lemma has_same_edge_iff e1 e2 : has_same_edge e1 e2 = true <-> exists e, In e e1 /\ In e e2.
Proof.
  unfold has_same_edge. rewrite existsb_exists. split.
  - intros [b [Hb H]]. apply existsb_exists in H. destruct H as [a [Ha E]]. apply edge_eqb_eq in E. subst. exists b; auto.
  - intros [e [H1 H2]]. exists e. split; auto. apply existsb_exists. exists e. split; auto. apply edge_eqb_eq; auto.
Qed.

Lemma verts_flip v t : In v (tri_verts (tri_flip t)) <-> In v (tri_verts t).
Proof. destruct t as [[a b] c]; simpl. tauto. Qed.

Lemma edges_flip e t : In e (tri_edges (tri_flip t)) <-> In (swap_edge e) (tri_edges t).
Proof.
  destruct t as [[a b] c], e as [x y]; unfold swap_edge; simpl.
  split; intros H; repeat (destruct H as [H|H]; [inversion H; subst; auto|]); try tauto.
Qed.

Lemma nondeg_flip t : nondeg t -> nondeg (tri_flip t).
Proof. destruct t as [[a b] c]; simpl. intuition. Qed.

Lemma flip_neq t : nondeg t -> tri_flip t <> t.
Proof. destruct t as [[a b] c]; simpl. intros [H _] E. inversion E. auto. Qed.

(* two distinct vertices of a non-degenerate triangle are joined by one of its edges, one way or the other *)
Lemma edge_between t a b : nondeg t -> In a (tri_verts t) -> In b (tri_verts t) -> a <> b ->
  In (a, b) (tri_edges t) \/ In (b, a) (tri_edges t).
Proof.
  destruct t as [[x y] z]; simpl. intros _ Ha Hb Hab.
  destruct Ha as [<-|[<-|[<-|[]]]]; destruct Hb as [<-|[<-|[<-|[]]]]; try congruence; auto 10.
Qed.

Lemma edge_verts t e : In e (tri_edges t) -> In (fst e) (tri_verts t) /\ In (snd e) (tri_verts t).
Proof. destruct t as [[x y] z]; simpl. intros [<-|[<-|[<-|[]]]]; simpl; auto. Qed.

(* ---------- adjacency *)
Definition inc (t u : tri) : nat := length (filter (fun v => memb v (tri_verts u)) (tri_verts t)).
(* for the code: a triangle is adjacent when it is met twice while running through the vertices *)
Definition adjacent (t u : tri) : Prop := exists a b, a <> b /\ In a (tri_verts t) /\ In b (tri_verts t) /\ In a (tri_verts u) /\ In b (tri_verts u).

Lemma adjacent_flip_r t u : adjacent t (tri_flip u) <-> adjacent t u.
Proof. unfold adjacent. split; intros [a [b H]]; exists a, b; rewrite ?verts_flip in *; auto. Qed.
Lemma adjacent_flip_l t u : adjacent (tri_flip t) u <-> adjacent t u.
Proof. unfold adjacent. split; intros [a [b H]]; exists a, b; rewrite ?verts_flip in *; auto. Qed.

(* ---------- what adjacent_triangles computes *)
Definition cnt (j : nat) (l : list nat) : nat := length (filter (Nat.eqb j) l).

Lemma memb_In k l : memb k l = true <-> In k l.
Proof.
  unfold memb. rewrite existsb_exists. split.
  - intros [x [Hx E]]. apply Nat.eqb_eq in E. subst; auto.
  - intros H. exists k. split; auto. apply Nat.eqb_refl.
Qed.

Lemma memb_false k l : memb k l = false <-> ~ In k l.
Proof. rewrite <- memb_In. destruct (memb k l); split; congruence. Qed.

Lemma second_occurrences_spec l : forall once twice j,
  In j (second_occurrences l once twice) <->
  ~ In j twice /\ ((In j once /\ 1 <= cnt j l) \/ (~ In j once /\ 2 <= cnt j l)).
Proof.
  induction l as [|x l IH]; intros once twice j; simpl.
  - unfold cnt; simpl. split; [tauto|]. intros [_ [[_ H]|[_ H]]]; lia.
  - unfold cnt in *. simpl.
    destruct (memb x twice) eqn:E2.
    + rewrite IH. apply memb_In in E2.
      destruct (Nat.eqb_spec j x) as [->|Hn]; simpl; [|tauto].
      split; [intros [H _]; tauto|intros [H _]; tauto].
    + apply memb_false in E2. destruct (memb x once) eqn:E1.
      * apply memb_In in E1. simpl. rewrite IH. simpl.
        destruct (Nat.eqb_spec j x) as [->|Hn]; simpl.
        -- split; [intros _|auto]. split; auto. left. split; auto. lia.
        -- split.
           ++ intros [C|[H1 H2]]; [congruence|]. split; [tauto|]. tauto.
           ++ intros [H1 H2]. right. split; [intros [C|C]; [congruence|tauto]|]. tauto.
      * apply memb_false in E1. rewrite IH. simpl.
        destruct (Nat.eqb_spec j x) as [->|Hn]; simpl.
        -- split.
           ++ intros [H1 [[_ H2]|[H2 _]]]; [|exfalso; apply H2; left; auto]. split; auto. right. split; auto. lia.
           ++ intros [H1 [[H2 _]|[_ H2]]]; [tauto|]. split; auto. left. split; [left; auto|lia].
        -- split.
           ++ intros [H1 [[[C|H2] H3]|[H2 H3]]]; [congruence| |]; (split; [auto|]); [left|right]; tauto.
           ++ intros [H1 [[H2 H3]|[H2 H3]]]; (split; [auto|]); [left; split; [right; auto|auto]|right; split; [intros [C|C]; [congruence|tauto]|auto]].
Qed.

Lemma cnt_app j a b : cnt j (a ++ b) = (cnt j a + cnt j b)%nat.
Proof. unfold cnt. rewrite filter_app, app_length. reflexivity. Qed.

Lemma cnt_repeat j x k : cnt j (repeat x k) = if Nat.eqb j x then k else 0%nat.
Proof.
  unfold cnt. induction k as [|k IH]; simpl; [destruct (Nat.eqb j x); auto|].
  destruct (Nat.eqb j x) eqn:E; simpl; rewrite IH; auto.
Qed.

Lemma cnt_vertex_triangles ts v j :
  cnt j (vertex_triangles ts v) = if Nat.ltb j (length ts) then occurrences v (nth j ts (0, 0, 0))%nat else 0%nat.
Proof.
  unfold vertex_triangles.
  assert (G : forall len a, cnt j (flat_map (fun j0 => repeat j0 (occurrences v (nth j0 ts (0, 0, 0))%nat)) (seq a len))
             = if (Nat.leb a j && Nat.ltb j (a + len))%bool then occurrences v (nth j ts (0, 0, 0))%nat else 0%nat).
  { induction len as [|len IH]; intros a; simpl.
    - destruct (Nat.leb_spec a j), (Nat.ltb_spec j (a + 0)); simpl; auto; lia.
    - rewrite cnt_app, cnt_repeat, IH.
      destruct (Nat.eqb_spec j a) as [->|Hn].
      + destruct (Nat.leb_spec (S a) a), (Nat.leb_spec a a), (Nat.ltb_spec a (a + S len)); simpl; try lia.
      + destruct (Nat.leb_spec (S a) j), (Nat.leb_spec a j), (Nat.ltb_spec j (S a + len)), (Nat.ltb_spec j (a + S len)); simpl; try lia. }
  rewrite G. simpl. destruct (Nat.ltb j (length ts)); reflexivity.
Qed.

Lemma occ_nondeg v u : nondeg u -> occurrences v u = if memb v (tri_verts u) then 1%nat else 0%nat.
Proof.
  destruct u as [[a b] c]; simpl. intros (H1 & H2 & H3). unfold occurrences, memb; simpl.
  destruct (Nat.eqb_spec v a), (Nat.eqb_spec v b), (Nat.eqb_spec v c); simpl; auto; subst; congruence.
Qed.

Lemma adjacent_triangles_spec ts t j : nondeg t -> (forall k, (k < length ts)%nat -> nondeg (nth k ts (0, 0, 0))%nat) ->
  In j (adjacent_triangles ts t) <-> (j < length ts)%nat /\ adjacent t (nth j ts (0, 0, 0))%nat.
Proof.
  intros Nt Nts. unfold adjacent_triangles. rewrite second_occurrences_spec.
  destruct t as [[a b] c]. simpl tri_verts. simpl flat_map. rewrite !cnt_app, !cnt_vertex_triangles. unfold cnt at 1; simpl.
  destruct (Nat.ltb_spec j (length ts)) as [Hj|Hj].
  - specialize (Nts j Hj). rewrite !(occ_nondeg _ _ Nts). simpl in Nt. destruct Nt as (Hab & Hbc & Hac).
    set (u := nth j ts (0, 0, 0)%nat) in *.
    destruct (memb a (tri_verts u)) eqn:Ea, (memb b (tri_verts u)) eqn:Eb, (memb c (tri_verts u)) eqn:Ec;
      rewrite ?memb_In, ?memb_false in *; simpl; change (cnt j []) with 0%nat; split.
    all: try (intros H; first
      [ (split; [exact Hj|]; unfold adjacent; simpl; first [exists a, b; tauto | exists a, c; tauto | exists b, c; tauto])
      | (exfalso; destruct H as [_ [[F _]|[_ H]]]; [exact F|lia]) ]; fail).
    all: intros [_ H]; first
      [ (split; [tauto|right; split; [tauto|lia]])
      | (exfalso; destruct H as [x [y (Hxy & Hx & Hy & Ux & Uy)]]; simpl in Hx, Hy;
         destruct Hx as [<-|[<-|[<-|[]]]]; destruct Hy as [<-|[<-|[<-|[]]]]; tauto) ].
  - change (cnt j []) with 0%nat. split; [intros [_ [[F _]|[_ H]]]; [destruct F|lia]|intros [H _]; lia].
Qed.

(* ---------- the invariant of the flood *)
Section Flood.
Variables orig tgt : list tri.
Notation d := ((0, 0, 0)%nat : tri).
Notation n := (length orig).
Hypothesis Hn : (0 < n)%nat.
Hypothesis Hlen : length tgt = n.
Hypothesis Hnd : forall k, (k < n)%nat -> nondeg (nth k orig d).
Hypothesis Hrel : forall k, (k < n)%nat -> nth k tgt d = nth k orig d \/ nth k tgt d = tri_flip (nth k orig d).
Hypothesis H0 : nth 0 tgt d = nth 0 orig d.
(* coherent orientation: no directed edge is used by two different triangles *)
Hypothesis Hcoh : forall k j, (k < n)%nat -> (j < n)%nat -> k <> j ->
  forall e, In e (tri_edges (nth k tgt d)) -> In e (tri_edges (nth j tgt d)) -> False.

Inductive reach : nat -> Prop :=
| reach0 : reach 0
| reachS k j : reach k -> (k < n)%nat -> (j < n)%nat -> adjacent (nth k orig d) (nth j orig d) -> reach j.
Hypothesis Hconn : forall j, (j < n)%nat -> reach j.

Lemma tgt_nondeg k : (k < n)%nat -> nondeg (nth k tgt d).
Proof. intros Hk. destruct (Hrel k Hk) as [-> | ->]; [|apply nondeg_flip]; auto. Qed.

Lemma tgt_verts k v : (k < n)%nat -> In v (tri_verts (nth k tgt d)) <-> In v (tri_verts (nth k orig d)).
Proof. intros Hk. destruct (Hrel k Hk) as [-> | ->]; [tauto|apply verts_flip]. Qed.

(* the decision taken when j is discovered from k gives j its target orientation *)
Lemma discover k j : (k < n)%nat -> (j < n)%nat -> k <> j -> adjacent (nth k orig d) (nth j orig d) ->
  (if has_same_edge (tri_edges (nth k tgt d)) (tri_edges (nth j orig d)) then tri_flip (nth j orig d) else nth j orig d) = nth j tgt d.
Proof.
  intros Hk Hj Hkj [a [b (Hab & Ka & Kb & Ja & Jb)]].
  destruct (Hrel j Hj) as [E|E].
  - (* already right: no common directed edge *)
    destruct (has_same_edge _ _) eqn:S; [|auto]. exfalso. apply has_same_edge_iff in S. destruct S as [e [E1 E2]].
    rewrite <- E in E2. eapply Hcoh; eauto.
  - assert (S : has_same_edge (tri_edges (nth k tgt d)) (tri_edges (nth j orig d)) = true).
    { apply has_same_edge_iff.
      assert (Ka' := proj2 (tgt_verts k a Hk) Ka). assert (Kb' := proj2 (tgt_verts k b Hk) Kb).
      assert (Ja' := proj2 (tgt_verts j a Hj) Ja). assert (Jb' := proj2 (tgt_verts j b Hj) Jb).
      destruct (edge_between _ a b (tgt_nondeg k Hk) Ka' Kb' Hab) as [Ek|Ek];
        destruct (edge_between _ a b (tgt_nondeg j Hj) Ja' Jb' Hab) as [Ej|Ej].
      - exfalso. eapply Hcoh; eauto.
      - exists (a, b). split; auto. rewrite E in Ej. apply edges_flip in Ej. exact Ej.
      - exists (b, a). split; auto. rewrite E in Ej. apply edges_flip in Ej. exact Ej.
      - exfalso. eapply Hcoh; eauto. }
    rewrite S. auto.
Qed.

Definition Inv (ts : list tri) (seen : list nat) : Prop :=
  length ts = n
  /\ (forall j, (j < n)%nat -> In j seen -> nth j ts d = nth j tgt d)
  /\ (forall j, (j < n)%nat -> ~ In j seen -> nth j ts d = nth j orig d)
  /\ (forall j, In j seen -> (j < n)%nat) /\ NoDup seen.

(* processing the neighbours of a reached triangle k *)
Lemma visit_all k : (k < n)%nat -> forall adj ts seen rest,
  Inv ts seen -> In k seen ->
  (forall j, In j adj -> (j < n)%nat /\ adjacent (nth k orig d) (nth j orig d)) ->
  exists ts' seen' new,
    fold_left (visit_neighbour (tri_edges (nth k tgt d))) adj (ts, seen, rest) = (ts', new ++ seen, new ++ rest)
    /\ seen' = new ++ seen /\ Inv ts' seen'
    /\ (forall j, In j adj -> In j seen') /\ (forall j, In j new -> ~ In j seen).
Proof.
  intros Hk. induction adj as [|j adj IH]; intros ts seen rest I Ks Hadj; simpl.
  - exists ts, seen, []. simpl. split; [reflexivity|]. split; [reflexivity|]. split; [exact I|]. split; intros j0 [].
  - destruct (Hadj j (or_introl eq_refl)) as [Hj Aj].
    assert (Hadj' : forall j0, In j0 adj -> (j0 < n)%nat /\ adjacent (nth k orig d) (nth j0 orig d)) by (intros; apply Hadj; right; auto).
    destruct (memb j seen) eqn:M.
    + apply memb_In in M. destruct (IH ts seen rest I Ks Hadj') as [ts' [seen' [new (F & E & I' & A & N)]]].
      exists ts', seen', new. split; [exact F|]. split; [exact E|]. split; [exact I'|]. split; [|exact N].
      intros j0 [<-|Hj0]; auto. subst seen'. apply in_or_app; right; auto.
    + apply memb_false in M.
      destruct I as (L & It & Io & Ib & ND).
      assert (Hkj : k <> j) by (intros ->; auto).
      assert (T2 : nth j ts d = nth j orig d) by (apply Io; auto). rewrite T2.
      remember (if has_same_edge (tri_edges (nth k tgt d)) (tri_edges (nth j orig d)) then upd ts j (tri_flip (nth j orig d)) else ts) as ts1 eqn:Ets1.
      assert (I1 : Inv ts1 (j :: seen)).
      { assert (L1 : length ts1 = n) by (rewrite Ets1; destruct (has_same_edge _ _); [rewrite upd_length|]; auto).
        assert (V : nth j ts1 d = nth j tgt d).
        { rewrite <- (discover k j Hk Hj Hkj Aj). rewrite Ets1.
          destruct (has_same_edge _ _); [rewrite nth_upd_same; auto; lia|]. exact T2. }
        assert (O : forall x, x <> j -> nth x ts1 d = nth x ts d).
        { intros x Hx. rewrite Ets1. destruct (has_same_edge _ _); auto. apply nth_upd_other. auto. }
        split; auto. split; [|split; [|split]].
        - intros x Hx [<-|Hs]; auto. destruct (Nat.eq_dec x j) as [->|Hne]; auto. rewrite O; auto.
        - intros x Hx Hs. rewrite O; [apply Io; auto; intros C; apply Hs; right; auto|intros ->; apply Hs; left; auto].
        - intros x [<-|Hs]; auto.
        - constructor; auto. }
      destruct (IH ts1 (j :: seen) (j :: rest) I1 (or_intror Ks) Hadj') as [ts' [seen' [new (F & E & I' & A & N)]]].
      exists ts', seen', (new ++ [j]). rewrite <- !app_assoc. simpl. split; [exact F|]. split; [exact E|]. split; [exact I'|]. split.
      * intros j0 [<-|Hj0]; auto. subst seen'. apply in_or_app; right; left; auto.
      * intros x Hx. apply in_app_or in Hx. destruct Hx as [Hx|[<-|[]]]; auto. intros C. apply (N x Hx). right; auto.
Qed.

Lemma cur_cases ts seen j : Inv ts seen -> (j < n)%nat -> nth j ts d = nth j orig d \/ nth j ts d = tri_flip (nth j orig d).
Proof.
  intros (L & It & Io & Ib & ND) Hj. destruct (in_dec Nat.eq_dec j seen) as [Hs|Hs].
  - rewrite (It j Hj Hs). apply Hrel; auto.
  - left. apply Io; auto.
Qed.

Lemma cur_nondeg ts seen j : Inv ts seen -> (j < n)%nat -> nondeg (nth j ts d).
Proof. intros I Hj. destruct (cur_cases ts seen j I Hj) as [-> | ->]; [|apply nondeg_flip]; auto. Qed.

Lemma cur_adjacent ts seen k j : Inv ts seen -> (k < n)%nat -> (j < n)%nat ->
  adjacent (nth k ts d) (nth j ts d) <-> adjacent (nth k orig d) (nth j orig d).
Proof.
  intros I Hk Hj. destruct (cur_cases ts seen k I Hk) as [-> | ->], (cur_cases ts seen j I Hj) as [-> | ->];
    rewrite ?adjacent_flip_l, ?adjacent_flip_r; tauto.
Qed.

Lemma bounded_NoDup_length (l : list nat) : NoDup l -> (forall x, In x l -> (x < n)%nat) -> (length l <= n)%nat.
Proof.
  intros ND B. rewrite <- (seq_length n 0). apply NoDup_incl_length; auto.
  intros x Hx. apply in_seq. specialize (B x Hx). lia.
Qed.

Definition Closed (seen stack : list nat) : Prop :=
  forall k, In k seen -> ~ In k stack -> forall j, (j < n)%nat -> adjacent (nth k orig d) (nth j orig d) -> In j seen.

Lemma flood_reaches_target : forall fuel ts seen stack,
  Inv ts seen -> (forall k, In k stack -> In k seen) -> Closed seen stack -> In 0%nat seen ->
  (n - length seen + length stack + 1 <= fuel)%nat -> flood fuel ts seen stack = tgt.
Proof.
  induction fuel as [|f IH]; intros ts seen stack I Sub Cl Z Fu; [lia|].
  simpl. destruct stack as [|k rest].
  - (* nothing left: everything reachable has been reached *)
    assert (All : forall j, reach j -> In j seen).
    { intros j R. induction R as [|k j R IHr Hk Hj' A]; auto. apply (Cl k IHr); auto. }
    destruct I as (L & It & Io & Ib & ND).
    apply (nth_ext _ _ d d); [congruence|]. intros j Hj. rewrite L in Hj. apply It; auto.
  - assert (Ks : In k seen) by (apply Sub; left; auto).
    assert (Hk : (k < n)%nat) by (destruct I as (_ & _ & _ & Ib & _); auto).
    assert (T1 : nth k ts d = nth k tgt d) by (destruct I as (_ & It & _); auto).
    assert (Adj : forall j, In j (adjacent_triangles ts (nth k ts d)) <-> (j < n)%nat /\ adjacent (nth k orig d) (nth j orig d)).
    { intros j. rewrite adjacent_triangles_spec.
      - destruct I as (L & I2). rewrite L. split; intros [Hj A]; split; auto;
          [apply (cur_adjacent ts seen k j (conj L I2) Hk Hj); auto|apply (cur_adjacent ts seen k j (conj L I2) Hk Hj); auto].
      - apply (cur_nondeg ts seen k I Hk).
      - intros x Hx. destruct I as (L & I2). rewrite L in Hx. apply (cur_nondeg ts seen x (conj L I2) Hx). }
    rewrite T1.
    destruct (visit_all k Hk (adjacent_triangles ts (nth k ts d)) ts seen rest I Ks (fun j Hj => proj1 (Adj j) Hj))
      as [ts' [seen' [new (F & E & I' & A & N)]]].
    rewrite T1 in F. rewrite F. subst seen'.
    assert (Len : (length (new ++ seen) <= n)%nat) by (destruct I' as (_ & _ & _ & Ib & ND); apply bounded_NoDup_length; auto).
    apply IH; auto.
    + intros x Hx. apply in_app_or in Hx. apply in_or_app. destruct Hx as [Hx|Hx]; auto. right. apply Sub. right; auto.
    + intros x Hx Hns j Hj Aj.
      assert (Hxn : ~ In x new) by (intros C; apply Hns; apply in_or_app; left; auto).
      assert (Hxr : ~ In x rest) by (intros C; apply Hns; apply in_or_app; right; auto).
      apply in_app_or in Hx. destruct Hx as [Hx|Hx]; [tauto|].
      destruct (Nat.eq_dec x k) as [->|Hne].
      * apply A. apply Adj. auto.
      * apply in_or_app. right. apply (Cl x Hx); auto. intros [C|C]; [congruence|tauto].
    + apply in_or_app. right; auto.
    + rewrite !app_length in *. simpl in Fu. lia.
Qed.

Theorem flood_fill_target : flood (S n) orig [0%nat] [0%nat] = tgt.
Proof.
  apply flood_reaches_target.
  - split; [reflexivity|]. split; [|split; [|split]].
    + intros j Hj [<-|[]]. symmetry. exact H0.
    + intros j Hj Hs. reflexivity.
    + intros j [<-|[]]. exact Hn.
    + repeat constructor. intros [].
  - intros k Hk. exact Hk.
  - intros k [<-|[]] Hns. exfalso. apply Hns. left; auto.
  - left; auto.
  - simpl. lia.
Qed.

Theorem repair_reaches_target : has_correct_orientation orig = false -> correct_local_orientation orig = tgt.
Proof.
  intros H. unfold correct_local_orientation. rewrite H.
  assert (G : forall (l : list tri) (X : list tri), (0 < length l)%nat -> match l with [] => l | _ :: _ => X end = X)
    by (intros [|t r] X Hl; [simpl in Hl; lia|reflexivity]).
  rewrite G by exact Hn. apply flood_fill_target.
Qed.
End Flood.
