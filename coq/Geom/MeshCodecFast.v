(* C15 -- the efficient executable definitions of MeshCodec.v compute what the proved ones define:
   hco_fast = hco_tr (edge map in one pass), vpos_t (postab l) = vpos l (position table in one pass). *)
From OM Require Import Base.Lists Geom.MeshCodec.
From Coq Require Import NArith ZifyBool ZifyNat.
Local Open Scope nat_scope.

Lemma aget_aadd r b s b' : aget (aadd r b s) b' = (aget r b' + (if (b =? b')%nat then s else 0))%Z.
Proof.
  induction r as [|[c v] t IH]; simpl.
  - destruct (Nat.eqb_spec b b'); lia.
  - destruct (Nat.eqb_spec c b) as [->|Hcb]; simpl.
    + destruct (Nat.eqb_spec b b'); lia.
    + destruct (Nat.eqb_spec c b') as [->|Hcb'].
      * destruct (Nat.eqb_spec b b'); [congruence|lia].
      * apply IH.
Qed.

Lemma madd_length M k s : length (madd M k s) = length M.
Proof. apply upd_length. Qed.

Lemma mget_madd M k s k' : fst k < length M ->
  mget (madd M k s) k' = (mget M k' + (if peqb k k' then s else 0))%Z.
Proof.
  intros H. unfold mget, madd, peqb. rewrite nth_upd.
  replace (fst k <? length M) with true by (symmetry; apply Nat.ltb_lt; auto). rewrite andb_true_r.
  destruct (Nat.eqb_spec (fst k) (fst k')) as [E|E]; simpl.
  - rewrite aget_aadd, E. reflexivity.
  - lia.
Qed.

Lemma mbuild_length ix es : forall M0, length (mbuild ix es M0) = length M0.
Proof.
  induction es as [|e r IH]; intros M0; simpl; auto. unfold mbuild in *. simpl.
  destruct (ekey ix e) as [k s]. rewrite IH. apply madd_length.
Qed.

Lemma mbuild_get ix es : forall M0 k,
  (forall e, In e es -> fst (fst (ekey ix e)) < length M0) ->
  mget (mbuild ix es M0) k = (mget M0 k + eval ix es k)%Z.
Proof.
  induction es as [|e r IH]; intros M0 k Hb.
  - unfold eval; simpl. lia.
  - pose proof (Hb e (or_introl eq_refl)) as He.
    assert (Hm : mbuild ix (e :: r) M0 = mbuild ix r (let (k', s) := ekey ix e in madd M0 k' s)) by reflexivity.
    assert (Hev : eval ix (e :: r) k = ((let (k', s) := ekey ix e in if peqb k' k then s else 0) + eval ix r k)%Z) by reflexivity.
    rewrite Hm, Hev. destruct (ekey ix e) as [k' s] eqn:Ek. simpl in He.
    rewrite IH.
    + rewrite mget_madd by auto. lia.
    + intros e' He'. rewrite madd_length. apply Hb; simpl; auto.
Qed.

Lemma mget_empty n k : mget (repeat [] n) k = 0%Z.
Proof.
  unfold mget. replace (nth (fst k) (repeat [] n) []) with (@nil (nat * Z)); auto.
  symmetry. apply nth_repeat.
Qed.

Lemma maxv_in es e : In e es -> fst e <= maxv es /\ snd e <= maxv es.
Proof.
  induction es as [|a r IH]; intros H; simpl in *; [contradiction|].
  destruct H as [->|H]; [lia|]. destruct (IH H). lia.
Qed.

Lemma ekey_fst ix e : fst (fst (ekey ix e)) = fst e \/ fst (fst (ekey ix e)) = snd e.
Proof. destruct e as [a b]; unfold ekey. destruct (ix b <? ix a)%N; simpl; auto. Qed.

Lemma forallb_ext_in' {A} (f g : A -> bool) l : (forall a, In a l -> f a = g a) -> forallb f l = forallb g l.
Proof. induction l as [|a l IH]; intros H; simpl; auto. rewrite H, IH; simpl; auto. intros; apply H; simpl; auto. Qed.

Lemma hco_fast_eq ix ts : hco_fast ix ts = hco_tr ix ts.
Proof.
  unfold hco_fast, hco_tr. set (es := flat_map dedges ts).
  apply forallb_ext_in'.
  intros e He. rewrite mbuild_get.
  - rewrite mget_empty. reflexivity.
  - intros e' He'. rewrite repeat_length. destruct (maxv_in es e' He'). destruct (ekey_fst ix e') as [->| ->]; lia.
Qed.

(* ---- position table *)
Lemma postab_from_length l : forall p tab, length (postab_from l p tab) = length tab.
Proof. induction l as [|h t IH]; intros p tab; simpl; auto. rewrite IH. apply upd_length. Qed.

Lemma postab_from_nth l : forall p tab g, (forall h, In h l -> h < length tab) ->
  nth g (postab_from l p tab) None = last_pos l g p (nth g tab None).
Proof.
  induction l as [|h t IH]; intros p tab g Hb; simpl; auto.
  rewrite IH by (intros x Hx; rewrite upd_length; apply Hb; simpl; auto).
  f_equal. rewrite nth_upd.
  replace (h <? length tab) with true by (symmetry; apply Nat.ltb_lt; apply Hb; simpl; auto).
  rewrite andb_true_r. reflexivity.
Qed.

Lemma vpos_t_eq l g : vpos_t (postab l) g = vpos l g.
Proof.
  unfold vpos_t, postab, vpos. rewrite postab_from_nth.
  - f_equal. apply nth_repeat.
  - intros h Hh. rewrite repeat_length.
    assert (H : Forall (fun k => k <= list_max l) l) by (apply list_max_le; auto).
    rewrite Forall_forall in H. specialize (H h Hh). lia.
Qed.
