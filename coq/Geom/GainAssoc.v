(* C20 — the gain tools split the products to spare memory: (A*Hinv)*S instead of A*(Hinv*S), and
   S2 + (A*Hinv)*S.  In exact arithmetic the association is immaterial (any ring).  ssreflect style. *)
Set Warnings "-notation-overridden,-ambiguous-paths".
From mathcomp Require Import all_ssreflect all_algebra.
Set Implicit Arguments.
Unset Strict Implicit.
Unset Printing Implicit Defensive.
Import GRing.Theory.
Local Open Scope ring_scope.

Section Gain.
Variable R : ringType.

Lemma gain_reassoc m n p (A : 'M[R]_(m,n)) (Hinv : 'M[R]_n) (S : 'M[R]_(n,p)) :
  (A *m Hinv) *m S = A *m (Hinv *m S).
Proof. by rewrite mulmxA. Qed.

Lemma gain_meg_reassoc m n p (A : 'M[R]_(m,n)) (Hinv : 'M[R]_n) (S : 'M[R]_(n,p)) (S2 : 'M[R]_(m,p)) :
  S2 + (A *m Hinv) *m S = S2 + A *m (Hinv *m S).
Proof. by rewrite mulmxA. Qed.

(* the gain is linear in the source matrix: column blocks can be computed separately (file pipeline by parts) *)
Lemma gain_additive m n p (A : 'M[R]_(m,n)) (Hinv : 'M[R]_n) (S1 S2 : 'M[R]_(n,p)) :
  (A *m Hinv) *m (S1 + S2) = (A *m Hinv) *m S1 + (A *m Hinv) *m S2.
Proof. by rewrite mulmxDr. Qed.
End Gain.
