(* C17 — what survives Mesh::clear() / Mesh::load() for a stand-alone Mesh (mesh.h, mesh.cpp, MeshIO.h) and the
   flag side effect of SurfSourceMat on its argument mesh (assembleSourceMat.cpp:33-34).

   A stand-alone mesh owns a private Geometry (Mesh::create_geometry) whose vertices are never cleared:
     load(file): clear();                       mesh_vertices, mesh_triangles, name, vertex_triangles, outermost_
                                                (repaired: also current_barrier_, isolated_)
                 io->load_points(geometry())    add_vertex for every file vertex: index of an equal vertex already
                                                stored, else push_back  -> indmap
                 io->load_triangles(mesh)       reference_vertices(indmap); triangles through indmap
   Mesh::triangle(t) returns the positions of the triangle's vertices in geometry().vertices(). *)
From OM Require Import Base.Lists.
Local Open Scope Z_scope.

Record mdesc := {
  m_status : Z;                       (* 0, or the exception thrown after clear() and before any point is loaded *)
  m_vs : list Z;                      (* coordinate identity of every vertex of the file *)
  m_ts : list (nat * nat * nat);      (* triangles, file-local vertex numbers *)
  m_source : Z;                       (* SurfSourceMat(reference head, this mesh): 0 = exception, otherwise fingerprint of the matrix *)
  m_sflag : bool;                     (* the call got as far as marking the mesh outermost / current barrier *)
  m_source2 : Z;                      (* the same against a SECOND reference head (one the mesh may intersect): 0 = exception *)
  m_sflag2 : bool
}.
Record mst := {
  y_gverts : list Z;                  (* geometry().vertices() *)
  y_mverts : list nat;                (* mesh_vertices as positions in y_gverts *)
  y_tris : list (nat * nat * nat);    (* triangles as positions in y_gverts *)
  y_outer : bool; y_cb : bool; y_iso : bool;
  y_desc : option nat
}.
Definition mst0 : mst := {| y_gverts := []; y_mverts := []; y_tris := []; y_outer := false; y_cb := false; y_iso := false; y_desc := None |}.

Fixpoint find_idx (x : Z) (l : list Z) (k : nat) : option nat :=
  match l with [] => None | y :: t => if x =? y then Some k else find_idx x t (S k) end.
(* Geometry::add_vertices *)
Fixpoint add_vertices (vs : list Z) (g : list Z) : list Z * list nat :=
  match vs with
  | [] => (g, [])
  | v :: t =>
      match find_idx v g 0 with
      | Some k => let '(g', im) := add_vertices t g in (g', k :: im)
      | None => let '(g', im) := add_vertices t (g ++ [v]) in (g', length g :: im)
      end
  end.

Record mcfg := { clear_flags : bool; clear_private_geometry : bool }.
Definition m_pinned : mcfg := {| clear_flags := false; clear_private_geometry := false |}.
Definition m_repaired : mcfg := {| clear_flags := true; clear_private_geometry := false |}.   (* the private geometry is NOT repaired *)
Definition m_ideal : mcfg := {| clear_flags := true; clear_private_geometry := true |}.

Definition m_clear (c : mcfg) (s : mst) : mst :=
  {| y_gverts := if clear_private_geometry c then [] else y_gverts s; y_mverts := []; y_tris := []; y_outer := false;
     y_cb := if clear_flags c then false else y_cb s; y_iso := if clear_flags c then false else y_iso s; y_desc := None |}.

Definition m_load (c : mcfg) (i : nat) (d : mdesc) (s : mst) : mst :=
  let s1 := m_clear c s in
  if negb (m_status d =? 0) then s1 else
  let '(g, im) := add_vertices (m_vs d) (y_gverts s1) in
  let f := fun k => nth k im 0%nat in
  {| y_gverts := g; y_mverts := im; y_tris := map (fun t => let '(a, b, cc) := t in (f a, f b, f cc)) (m_ts d);
     y_outer := false; y_cb := y_cb s1; y_iso := y_iso s1; y_desc := Some i |}.

Definition b2z (b : bool) : Z := if b then 1 else 0.
Definition sort3 (t : nat * nat * nat) : list Z :=
  let '(a, b, c) := t in
  let lo := Nat.min a (Nat.min b c) in let hi := Nat.max a (Nat.max b c) in
  [Z.of_nat lo; Z.of_nat (a + b + c - lo - hi); Z.of_nat hi].
Fixpoint pos_in (x : nat) (l : list nat) : nat :=
  match l with [] => 0%nat | y :: t => if Nat.eqb x y then 0%nat else S (pos_in x t) end.
(* observation: status, sizes, flags, Mesh::triangle(t) of every triangle as an unordered vertex set
   (update(true) may reverse a triangle; the set of its vertices is unaffected), then the same triangles as positions
   in the mesh's own vertex list (what Mesh::save writes) *)
Definition m_observe (st : Z) (s : mst) : list Z :=
  [st; Z.of_nat (length (y_gverts s)); Z.of_nat (length (y_mverts s)); Z.of_nat (length (y_tris s));
   b2z (y_outer s); b2z (y_cb s); b2z (y_iso s)] ++ flat_map sort3 (y_tris s)
  ++ flat_map (fun t => let '(a, b, c) := t in sort3 (pos_in a (y_mverts s), pos_in b (y_mverts s), pos_in c (y_mverts s))) (y_tris s).

(* the same without the private geometry: status, #mesh vertices, #triangles, flags, triangles as positions in the mesh's
   own vertex list *)
Definition m_observe_local (st : Z) (s : mst) : list Z :=
  [st; Z.of_nat (length (y_mverts s)); Z.of_nat (length (y_tris s)); b2z (y_outer s); b2z (y_cb s); b2z (y_iso s)]
  ++ flat_map (fun t => let '(a, b, c) := t in sort3 (pos_in a (y_mverts s), pos_in b (y_mverts s), pos_in c (y_mverts s))) (y_tris s).
(* every triangle of the file refers to vertices of the file *)
Definition wf_mdesc (d : mdesc) : Prop :=
  Forall (fun t => let '(a, b, c) := t in (a < length (m_vs d) /\ b < length (m_vs d) /\ c < length (m_vs d))%nat) (m_ts d).

Inductive mop :=
| MLoad (i : nat)
| MSurfSource       (* SurfSourceMat(reference head, mesh) *)
| MSurfSource2.     (* SurfSourceMat(second reference head, the SAME mesh object): the overlap check must not depend on the flags
                       left by an earlier call *)

Definition dummy_mdesc : mdesc := {| m_status := 3; m_vs := []; m_ts := []; m_source := 0; m_sflag := false; m_source2 := 0; m_sflag2 := false |}.

Definition m_step (c : mcfg) (W : list mdesc) (o : mop) (s : mst) : mst * list Z :=
  match o with
  | MLoad i => let d := nth i W dummy_mdesc in let s' := m_load c i d s in (s', m_observe (m_status d) s')
  | MSurfSource =>
      match y_desc s with
      | None => (s, m_observe (-1) s)
      | Some i => let d := nth i W dummy_mdesc in
                  if negb (m_sflag d) then (s, m_observe (m_source d) s)
                  else let s' := {| y_gverts := y_gverts s; y_mverts := y_mverts s; y_tris := y_tris s; y_outer := true; y_cb := true;
                                    y_iso := y_iso s; y_desc := y_desc s |} in (s', m_observe (m_source d) s')
      end
  | MSurfSource2 =>
      match y_desc s with
      | None => (s, m_observe (-1) s)
      | Some i => let d := nth i W dummy_mdesc in
                  if negb (m_sflag2 d) then (s, m_observe (m_source2 d) s)
                  else let s' := {| y_gverts := y_gverts s; y_mverts := y_mverts s; y_tris := y_tris s; y_outer := true; y_cb := true;
                                    y_iso := y_iso s; y_desc := y_desc s |} in (s', m_observe (m_source2 d) s')
      end
  end.
Fixpoint m_run (c : mcfg) (W : list mdesc) (h : list mop) (s : mst) : mst :=
  match h with [] => s | o :: h' => m_run c W h' (fst (m_step c W o s)) end.
Fixpoint m_trace (c : mcfg) (W : list mdesc) (h : list mop) (s : mst) : list (list Z) :=
  match h with [] => [] | o :: h' => let '(s', r) := m_step c W o s in r :: m_trace c W h' s' end.
Definition m_last (c : mcfg) (W : list mdesc) (h : list mop) (o : mop) : list Z :=
  snd (m_step c W o (m_run c W h mst0)).
