(* C06 (2): combinatorial equivariance on the GeomModel.
   - listing a domain's boundaries in another order changes nothing that is derived from the domain;
   - relabelling the vertices inside the mesh files leaves every triangle's label-free identity (its three points)
     and the set of points unchanged, so the unknowns of the two descriptions are in one-to-one correspondence
     (vertex unknown <-> point, triangle unknown <-> (mesh, position)); with generate_indices_bijection both index
     maps are bijections onto the same range, i.e. they differ by the induced permutation. *)
From OM Require Import Base.Lists Base.Ops Geom.MeshTopo Geom.GeomModel Geom.GeomProofs.
From Coq Require Import Permutation.
Local Open Scope Z_scope.

(* ------------------------------------------------------------------ boundaries of a domain in another order *)
Definition bound_assoc (b : gbound) : list (nat * Z) :=
  map (fun om => (snd om, if b_inside b then fst om else - fst om)) (b_om b).
Definition dom_assoc (d : list gbound) : list (nat * Z) := flat_map bound_assoc d.

Fixpoint assoc (m : nat) (l : list (nat * Z)) : option Z :=
  match l with
  | [] => None
  | (k, v) :: r => if Nat.eqb k m then Some v else assoc m r
  end.

Lemma assoc_app m l1 l2 : assoc m (l1 ++ l2) = match assoc m l1 with Some v => Some v | None => assoc m l2 end.
Proof. induction l1 as [|[k v] l IH]; simpl; auto. destruct (Nat.eqb k m); auto. Qed.

Lemma om_find_assoc m b : assoc m (bound_assoc b) = option_map (fun o => if b_inside b then o else - o) (om_find m (b_om b)).
Proof.
  unfold bound_assoc. induction (b_om b) as [|[o k] l IH]; simpl; auto. destruct (Nat.eqb k m); auto.
Qed.

Lemma mesh_orientation_assoc d m : mesh_orientation d m = match assoc m (dom_assoc d) with Some v => v | None => 0 end.
Proof.
  induction d as [|b d IH]; simpl; auto. unfold dom_assoc; simpl. rewrite assoc_app, om_find_assoc.
  destruct (om_find m (b_om b)); simpl; auto.
Qed.

Lemma assoc_In_None m l : ~ In m (map fst l) -> assoc m l = None.
Proof.
  induction l as [|[k v] l IH]; simpl; intros H; auto. destruct (Nat.eqb_spec k m); [exfalso; apply H; left; auto|].
  apply IH. intros C; apply H; right; auto.
Qed.

Lemma assoc_perm m l l' : Permutation l l' -> NoDup (map fst l) -> assoc m l = assoc m l'.
Proof.
  induction 1; intros ND; simpl; auto.
  - destruct x as [k v]. simpl in ND. inversion ND; subst. rewrite IHPermutation; auto.
  - destruct x as [k v], y as [k' v']. simpl in ND.
    destruct (Nat.eqb_spec k m), (Nat.eqb_spec k' m); auto. subst. inversion ND; subst. exfalso. apply H1. left; auto.
  - rewrite IHPermutation1; auto. apply IHPermutation2.
    eapply Permutation_NoDup; [|exact ND]. apply Permutation_map; auto.
Qed.

Lemma dom_assoc_perm d d' : Permutation d d' -> Permutation (dom_assoc d) (dom_assoc d').
Proof.
  unfold dom_assoc. induction 1; simpl; auto.
  - apply Permutation_app_head; auto.
  - rewrite !app_assoc. apply Permutation_app_tail. apply Permutation_app_comm.
  - eapply perm_trans; eauto.
Qed.

(* each mesh occurs at most once among the boundaries of the domain *)
Definition simple_domain (d : list gbound) : Prop := NoDup (map fst (dom_assoc d)).

Lemma mesh_orientation_perm d d' m : Permutation d d' -> simple_domain d -> mesh_orientation d' m = mesh_orientation d m.
Proof.
  intros P S. rewrite !mesh_orientation_assoc. rewrite (assoc_perm m _ _ (dom_assoc_perm _ _ P) S). reflexivity.
Qed.

Lemma dom_contains_perm ins d d' : Permutation d d' -> dom_contains ins d' = dom_contains ins d.
Proof. intros P. unfold dom_contains. symmetry. apply forallb_perm; auto. Qed.

Lemma no_inside_perm d d' : Permutation d d' -> no_inside d' = no_inside d.
Proof. intros P. unfold no_inside. symmetry. apply forallb_perm; auto. Qed.

Lemma count_inside_perm d d' : Permutation d d' -> count_inside d' = count_inside d.
Proof. intros P. unfold count_inside. symmetry. apply count_perm; auto. Qed.

(* two geometries that differ only by the order of the boundaries inside each domain *)
Definition same_up_to_boundary_order (g g' : geom) : Prop :=
  g_nv g' = g_nv g /\ g_meshes g' = g_meshes g /\ Forall2 (@Permutation _) (g_doms g) (g_doms g')
  /\ Forall simple_domain (g_doms g).

Lemma Forall2_nth {A} (R : A -> A -> Prop) l l' d : Forall2 R l l' -> R d d -> forall k, R (nth k l d) (nth k l' d).
Proof. induction 1; intros Hd [|k]; simpl; auto. Qed.

Lemma Forall2_length_eq {A} (R : A -> A -> Prop) l l' : Forall2 R l l' -> length l = length l'.
Proof. induction 1; simpl; auto. Qed.

Section Reorder.
Variables g g' : geom.
Hypothesis H : same_up_to_boundary_order g g'.

Lemma dom_perm k : Permutation (dom g k) (dom g' k).
Proof. destruct H as (_ & _ & F & _). unfold dom. apply Forall2_nth; auto. Qed.

Lemma dom_simple k : simple_domain (dom g k).
Proof.
  destruct H as (_ & _ & _ & S). unfold dom. destruct (Nat.lt_ge_cases k (length (g_doms g))).
  - rewrite Forall_forall in S. apply S, nth_In; auto.
  - rewrite nth_overflow by auto. constructor.
Qed.

Lemma ndoms_eq : length (g_doms g') = length (g_doms g).
Proof. destruct H as (_ & _ & F & _). symmetry. eapply Forall2_length_eq; eauto. Qed.

Lemma domains_of_reorder m : domains_of g' m = domains_of g m.
Proof.
  unfold domains_of. rewrite ndoms_eq. apply filter_ext. intros k. unfold dom_has_mesh.
  rewrite (mesh_orientation_perm _ _ m (dom_perm k) (dom_simple k)). reflexivity.
Qed.

Lemma common_domains_reorder m1 m2 : common_domains g' m1 m2 = common_domains g m1 m2.
Proof. unfold common_domains. rewrite !domains_of_reorder. reflexivity. Qed.

Lemma relative_orientation_reorder m1 m2 : relative_orientation g' m1 m2 = relative_orientation g m1 m2.
Proof.
  unfold relative_orientation. rewrite common_domains_reorder. destruct (Nat.eqb m1 m2); auto.
  destruct (common_domains g m1 m2) as [|k r]; auto.
  rewrite !(mesh_orientation_perm _ _ _ (dom_perm k) (dom_simple k)). reflexivity.
Qed.

Lemma first_index_ext {A B} (p : A -> bool) (q : B -> bool) : forall l l' k,
  Forall2 (fun a b => p a = q b) l l' -> first_index p l k = first_index q l' k.
Proof. intros l l' k F. revert k. induction F; intros k; simpl; auto. rewrite H0, IHF. reflexivity. Qed.

Lemma Forall2_impl' {A} (R S : A -> A -> Prop) l l' : (forall a b, R a b -> S a b) -> Forall2 R l l' -> Forall2 S l l'.
Proof. intros I. induction 1; constructor; auto. Qed.

Lemma outermost_domain_reorder : outermost_domain g' = outermost_domain g.
Proof.
  unfold outermost_domain. symmetry. apply first_index_ext. destruct H as (_ & _ & F & _).
  eapply Forall2_impl'; [|exact F]. intros a b P. symmetry. apply (no_inside_perm a b P).
Qed.

Lemma domain_of_point_reorder ins : domain_of_point g' ins = domain_of_point g ins.
Proof.
  unfold domain_of_point. symmetry. apply first_index_ext. destruct H as (_ & _ & F & _).
  eapply Forall2_impl'; [|exact F]. intros a b P. symmetry. apply dom_contains_perm; auto.
Qed.

Section F.
Context {F : Type} (o : Ops F) (conds : list F).
Lemma sigma_reorder f m1 m2 : eval_common o g' conds f m1 m2 = eval_common o g conds f m1 m2.
Proof. unfold eval_common. rewrite common_domains_reorder. reflexivity. Qed.
End F.
End Reorder.

(* ------------------------------------------------------------------ relabelling the vertices inside mesh files *)
Lemma find_pos_spec p : forall tbl k0 k, find_pos p tbl k0 = Some k -> (k0 <= k)%nat /\ nth_error tbl (k - k0) = Some p.
Proof.
  induction tbl as [|q t IH]; intros k0 k H; simpl in H; [discriminate|].
  destruct (Nat.eqb_spec p q) as [->|Hn].
  - inversion H; subst. rewrite Nat.sub_diag. split; auto.
  - apply IH in H. destruct H as [A B]. split; [lia|]. replace (k - k0)%nat with (S (k - S k0)) by lia. exact B.
Qed.

Lemma find_pos_none p : forall tbl k0, find_pos p tbl k0 = None -> ~ In p tbl.
Proof.
  induction tbl as [|q t IH]; intros k0 H; simpl in *; auto.
  destruct (Nat.eqb_spec p q); [discriminate|]. intros [C|C]; [congruence|]. eapply IH; eauto.
Qed.

Lemma add_vertex_spec tbl p t k : add_vertex tbl p = (t, k) ->
  (exists ext, t = tbl ++ ext) /\ nth_error t k = Some p /\ (NoDup tbl -> NoDup t) /\ (forall q, In q t <-> In q tbl \/ q = p).
Proof.
  unfold add_vertex. destruct (find_pos p tbl 0) as [k'|] eqn:E; intros H; inversion H; subst.
  - apply find_pos_spec in E. destruct E as [_ E]. rewrite Nat.sub_0_r in E. split; [exists []; rewrite app_nil_r; auto|].
    split; auto. split; auto. intros q. split; auto. intros [C| ->]; auto. eapply nth_error_In; eauto.
  - apply find_pos_none in E. split; [exists [p]; auto|]. split.
    + rewrite nth_error_app2, Nat.sub_diag by lia. reflexivity.
    + split.
      * intros ND. apply NoDup_app_intro; auto; [repeat constructor; auto|]. intros x Hx [<-|[]]. auto.
      * intros q. rewrite in_app_iff. simpl. split; intros [C|C]; auto. destruct C as [<-|[]]; auto.
Qed.

Lemma nth_error_prefix {A} (l ext : list A) k x : nth_error l k = Some x -> nth_error (l ++ ext) k = Some x.
Proof. intros H. rewrite nth_error_app1; auto. apply nth_error_Some. congruence. Qed.

Lemma add_vertices_spec pts : forall tbl t ks, add_vertices tbl pts = (t, ks) ->
  (exists ext, t = tbl ++ ext) /\ length ks = length pts
  /\ (forall a, (a < length pts)%nat -> nth_error t (nth a ks 0%nat) = Some (nth a pts 0%nat))
  /\ (NoDup tbl -> NoDup t) /\ (forall q, In q t <-> In q tbl \/ In q pts).
Proof.
  induction pts as [|p r IH]; intros tbl t ks H; simpl in H.
  - inversion H; subst. split; [exists []; rewrite app_nil_r; auto|]. split; auto. split; [intros a Ha; simpl in Ha; lia|].
    split; auto. intros q; simpl; tauto.
  - destruct (add_vertex tbl p) as [t1 k] eqn:E1. destruct (add_vertices t1 r) as [t2 ks'] eqn:E2. inversion H; subst.
    destruct (add_vertex_spec _ _ _ _ E1) as ([e1 ->] & N1 & D1 & I1).
    destruct (IH _ _ _ E2) as ([e2 ->] & L & N2 & D2 & I2).
    split; [exists (e1 ++ e2); rewrite app_assoc; auto|]. split; [simpl; auto|]. split.
    + intros [|a] Ha; simpl in *.
      * apply nth_error_prefix; auto.
      * apply N2. lia.
    + split; auto. intros q. rewrite I2, I1. simpl. split; intros C.
      * destruct C as [[C|C]|C]; auto.
      * destruct C as [C|[C|C]]; auto.
Qed.

Lemma import_points_spec ms : forall tbl t ims, import_points tbl ms = (t, ims) ->
  (exists ext, t = tbl ++ ext) /\ length ims = length ms
  /\ (forall k a, (k < length ms)%nat -> (a < length (m_pts (nth k ms (mkMesh [] []))))%nat ->
        nth_error t (nth a (nth k ims []) 0%nat) = Some (nth a (m_pts (nth k ms (mkMesh [] []))) 0%nat))
  /\ (NoDup tbl -> NoDup t) /\ (forall q, In q t <-> In q tbl \/ exists m, In m ms /\ In q (m_pts m)).
Proof.
  induction ms as [|m r IH]; intros tbl t ims H; simpl in H.
  - inversion H; subst. split; [exists []; rewrite app_nil_r; auto|]. split; auto. split; [intros k a Hk; simpl in Hk; lia|].
    split; auto. intros q. split; auto. intros [C|[m [[] _]]]; auto.
  - destruct (add_vertices tbl (m_pts m)) as [t1 im] eqn:E1. destruct (import_points t1 r) as [t2 ims'] eqn:E2. inversion H; subst.
    destruct (add_vertices_spec _ _ _ _ E1) as ([e1 ->] & L1 & N1 & D1 & I1).
    destruct (IH _ _ _ E2) as ([e2 ->] & L2 & N2 & D2 & I2).
    split; [exists (e1 ++ e2); rewrite app_assoc; auto|]. split; [simpl; auto|]. split.
    + intros [|k] a Hk Ha; simpl in *.
      * apply nth_error_prefix. apply N1; auto.
      * apply N2; auto. lia.
    + split; auto. intros q. rewrite I2, I1. split; intros C.
      * destruct C as [[C|C]|[m' [A B]]]; auto; right; [exists m|exists m']; simpl; auto.
      * destruct C as [C|[m' [[<-|A] B]]]; auto. right. exists m'; auto.
Qed.

Lemma import_points_lens ms : forall tbl t ims, import_points tbl ms = (t, ims) ->
  forall k, (k < length ms)%nat -> length (nth k ims []) = length (m_pts (nth k ms (mkMesh [] []))).
Proof.
  induction ms as [|m r IH]; intros tbl t ims H k Hk; simpl in *; [lia|].
  destruct (add_vertices tbl (m_pts m)) as [t1 im] eqn:E1. destruct (import_points t1 r) as [t2 ims'] eqn:E2. inversion H; subst.
  destruct k as [|k]; simpl.
  - destruct (add_vertices_spec _ _ _ _ E1) as (_ & L & _). auto.
  - eapply IH; eauto. lia.
Qed.

(* label-free identity of a triangle: the three points it joins *)
Definition tri_points (tbl : list nat) (t : nat * nat * nat) : nat * nat * nat :=
  let '(a, b, c) := t in (nth a tbl 0%nat, nth b tbl 0%nat, nth c tbl 0%nat).

Lemma nth_error_nth' {A} (l : list A) k x d : nth_error l k = Some x -> nth k l d = x.
Proof. revert k; induction l as [|a l IH]; intros [|k] H; simpl in *; try discriminate; [congruence|auto]. Qed.

Lemma nth_error_nth_lt {A} (l : list A) k d : (k < length l)%nat -> nth_error l k = Some (nth k l d).
Proof. revert k; induction l as [|a l IH]; intros [|k] H; simpl in *; try lia; auto. apply IH. lia. Qed.

(* an imported triangle joins the points its file-local numbers designate in the file *)
Lemma map_tri_points tbl im pts t t' :
  length im = length pts ->
  (forall a, (a < length pts)%nat -> nth_error tbl (nth a im 0%nat) = Some (nth a pts 0%nat)) ->
  map_tri im t = Some t' -> tri_points tbl t' = tri_points pts t.
Proof.
  intros L N H. destruct t as [[a b] c]. unfold map_tri in H.
  destruct (nth_error im a) as [x|] eqn:Ea; [|discriminate].
  destruct (nth_error im b) as [y|] eqn:Eb; [|discriminate].
  destruct (nth_error im c) as [z|] eqn:Ec; [|discriminate]. inversion H; subst. simpl.
  assert (La : (a < length pts)%nat) by (rewrite <- L; apply nth_error_Some; congruence).
  assert (Lb : (b < length pts)%nat) by (rewrite <- L; apply nth_error_Some; congruence).
  assert (Lc : (c < length pts)%nat) by (rewrite <- L; apply nth_error_Some; congruence).
  rewrite <- (nth_error_nth' _ _ _ 0%nat Ea), <- (nth_error_nth' _ _ _ 0%nat Eb), <- (nth_error_nth' _ _ _ 0%nat Ec).
  rewrite (nth_error_nth' _ _ _ 0%nat (N a La)), (nth_error_nth' _ _ _ 0%nat (N b Lb)), (nth_error_nth' _ _ _ 0%nat (N c Lc)).
  reflexivity.
Qed.

Lemma map_tris_points tbl im pts : forall ts ts',
  length im = length pts ->
  (forall a, (a < length pts)%nat -> nth_error tbl (nth a im 0%nat) = Some (nth a pts 0%nat)) ->
  map_tris im ts = Some ts' -> map (tri_points tbl) ts' = map (tri_points pts) ts.
Proof.
  induction ts as [|t r IH]; intros ts' L N H; simpl in H.
  - inversion H; auto.
  - destruct (map_tri im t) as [t1|] eqn:E1; [|discriminate]. destruct (map_tris im r) as [r1|] eqn:E2; [|discriminate].
    inversion H; subst. simpl. rewrite (map_tri_points _ _ _ _ _ L N E1), (IH _ L N eq_refl). reflexivity.
Qed.

(* a vertex relabelling of a mesh file: pi sends old file-local numbers to new ones *)
Definition relabelled (pi : nat -> nat) (m m' : mesh) : Prop :=
  length (m_pts m') = length (m_pts m)
  /\ (forall a, (a < length (m_pts m))%nat -> (pi a < length (m_pts m))%nat /\ nth (pi a) (m_pts m') 0%nat = nth a (m_pts m) 0%nat)
  /\ m_tris m' = map (fun t => let '(a, b, c) := t in (pi a, pi b, pi c)) (m_tris m)
  /\ Permutation (m_pts m) (m_pts m')
  /\ Forall (fun t => let '(a, b, c) := t in (a < length (m_pts m))%nat /\ (b < length (m_pts m))%nat /\ (c < length (m_pts m))%nat) (m_tris m).

Lemma relabelled_tri_points pi m m' : relabelled pi m m' ->
  map (tri_points (m_pts m')) (m_tris m') = map (tri_points (m_pts m)) (m_tris m).
Proof.
  intros (L & P & T & _ & B). rewrite T, map_map. apply map_ext_in. intros [[a b] c] Hin.
  rewrite Forall_forall in B. specialize (B _ Hin). simpl in B. destruct B as (Ba & Bb & Bc). simpl.
  rewrite (proj2 (P a Ba)), (proj2 (P b Bb)), (proj2 (P c Bc)). reflexivity.
Qed.

Lemma Forall2_len {A B} (R : A -> B -> Prop) l l' : Forall2 R l l' -> length l = length l'.
Proof. induction 1; simpl; auto. Qed.

(* relabel_vertices_equivariant (import level): same set of points (hence the same number of vertex unknowns) and,
   mesh by mesh and position by position, triangles joining the same points *)
Theorem relabel_import ms ms' pis t ims t' ims' :
  Forall2 (fun pm m' => relabelled (fst pm) (snd pm) m') (combine pis ms) ms' -> length pis = length ms ->
  import_points [] ms = (t, ims) -> import_points [] ms' = (t', ims') ->
  Permutation t t' /\ length t' = length t
  /\ forall k lts lts', (k < length ms)%nat ->
       map_tris (nth k ims []) (m_tris (nth k ms (mkMesh [] []))) = Some lts ->
       map_tris (nth k ims' []) (m_tris (nth k ms' (mkMesh [] []))) = Some lts' ->
       map (tri_points t') lts' = map (tri_points t) lts.
Proof.
  intros R Lp I I'.
  destruct (import_points_spec _ _ _ _ I) as (_ & L1 & N1 & D1 & E1).
  destruct (import_points_spec _ _ _ _ I') as (_ & L1' & N1' & D1' & E1').
  assert (Lms : length ms' = length ms).
  { apply Forall2_len in R. rewrite combine_length, Lp, Nat.min_id in R. auto. }
  assert (Rk : forall k, (k < length ms)%nat -> relabelled (nth k pis (fun x => x)) (nth k ms (mkMesh [] [])) (nth k ms' (mkMesh [] []))).
  { intros k Hk. clear - R Lp Hk. revert pis ms' R Lp k Hk. induction ms as [|m r IH]; intros pis ms' R Lp k Hk; simpl in Hk; [lia|].
    destruct pis as [|p ps]; [discriminate|]. simpl in R. inversion R; subst. destruct k as [|k]; simpl; auto.
    apply IH; auto. lia. }
  assert (P : Permutation t t').
  { apply NoDup_Permutation; [apply D1; constructor|apply D1'; constructor|].
    intros q. rewrite E1, E1'. split; intros [[]|[m [Hm Hq]]]; right.
    - destruct (In_nth _ _ (mkMesh [] []) Hm) as [k [Hk <-]]. exists (nth k ms' (mkMesh [] [])). split; [apply nth_In; lia|].
      destruct (Rk k Hk) as (_ & _ & _ & Pm & _). eapply Permutation_in; eauto.
    - destruct (In_nth _ _ (mkMesh [] []) Hm) as [k [Hk <-]]. rewrite Lms in Hk. exists (nth k ms (mkMesh [] [])). split; [apply nth_In; lia|].
      destruct (Rk k Hk) as (_ & _ & _ & Pm & _). eapply Permutation_in; [apply Permutation_sym|]; eauto. }
  split; auto. split; [symmetry; apply Permutation_length; auto|].
  intros k lts lts' Hk M M'.
  assert (A : map (tri_points t) lts = map (tri_points (m_pts (nth k ms (mkMesh [] [])))) (m_tris (nth k ms (mkMesh [] [])))).
  { eapply map_tris_points; [| |exact M].
    - apply (import_points_lens _ _ _ _ I k Hk).
    - intros a Ha. apply N1; auto. }
  assert (A' : map (tri_points t') lts' = map (tri_points (m_pts (nth k ms' (mkMesh [] [])))) (m_tris (nth k ms' (mkMesh [] [])))).
  { eapply map_tris_points; [| |exact M'].
    - apply (import_points_lens _ _ _ _ I' k). lia.
    - intros a Ha. apply N1'; auto. lia. }
  rewrite A, A'. apply (relabelled_tri_points _ _ _ (Rk k Hk)).
Qed.

(* ------------------------------------------------------------------ the induced permutation of the unknowns *)
(* Two descriptions of the same head give index maps idx, idx' on the same label-free set of unknowns [us] (points
   for vertex unknowns, (mesh, position) for triangle unknowns).  generate_indices_bijection says both enumerate
   [0,N) without repetition; hence idx' = pi o idx for a permutation pi of [0,N). *)
Section Induced.
Variable U : Type.
Variables (us : list U) (idx idx' : U -> Z) (N : nat).
Hypothesis E : Permutation (map idx us) (zseq 0 N).
Hypothesis E' : Permutation (map idx' us) (zseq 0 N).

Definition induced (x : Z) : Z :=
  match find (fun u => idx u =? x) us with Some u => idx' u | None => x end.

Lemma idx_inj_on : forall u v, In u us -> In v us -> idx u = idx v -> forall k k', nth_error us k = Some u -> nth_error us k' = Some v -> k = k'.
Proof.
  intros u v _ _ Huv k k' Hk Hk'.
  assert (ND : NoDup (map idx us)) by (eapply Permutation_NoDup; [apply Permutation_sym; exact E|apply zseq_NoDup]).
  rewrite NoDup_nth_error in ND. apply ND.
  - rewrite map_length. apply nth_error_Some. congruence.
  - rewrite !nth_error_map, Hk, Hk'. simpl. congruence.
Qed.

Lemma induced_spec u : In u us -> induced (idx u) = idx' u.
Proof.
  intros Hu. unfold induced. destruct (find (fun v => idx v =? idx u) us) as [v|] eqn:F.
  - apply find_some in F. destruct F as [Hv Ev]. apply Z.eqb_eq in Ev.
    destruct (In_nth_error _ _ Hu) as [k Hk]. destruct (In_nth_error _ _ Hv) as [k' Hk'].
    assert (k' = k) by (apply (idx_inj_on v u Hv Hu Ev k' k Hk' Hk)). subst. congruence.
  - exfalso. apply (find_none _ _ F) in Hu. rewrite Z.eqb_refl in Hu. discriminate.
Qed.

Lemma induced_range x : 0 <= x < Z.of_nat N -> 0 <= induced x < Z.of_nat N.
Proof.
  intros Hx. assert (In x (map idx us)) by (eapply Permutation_in; [apply Permutation_sym; exact E|apply zseq_In; lia]).
  apply in_map_iff in H. destruct H as [u [<- Hu]]. rewrite induced_spec by auto.
  assert (In (idx' u) (zseq 0 N)) by (eapply Permutation_in; [exact E'|apply in_map; auto]).
  apply zseq_In in H. lia.
Qed.

Lemma induced_inj x y : 0 <= x < Z.of_nat N -> 0 <= y < Z.of_nat N -> induced x = induced y -> x = y.
Proof.
  intros Hx Hy.
  assert (Ix : In x (map idx us)) by (eapply Permutation_in; [apply Permutation_sym; exact E|apply zseq_In; lia]).
  assert (Iy : In y (map idx us)) by (eapply Permutation_in; [apply Permutation_sym; exact E|apply zseq_In; lia]).
  apply in_map_iff in Ix. destruct Ix as [u [<- Hu]]. apply in_map_iff in Iy. destruct Iy as [v [<- Hv]].
  rewrite !induced_spec by auto. intros Hi.
  destruct (In_nth_error _ _ Hu) as [k Hk]. destruct (In_nth_error _ _ Hv) as [k' Hk'].
  assert (ND : NoDup (map idx' us)) by (eapply Permutation_NoDup; [apply Permutation_sym; exact E'|apply zseq_NoDup]).
  rewrite NoDup_nth_error in ND. assert (k = k').
  { apply ND; [rewrite map_length; apply nth_error_Some; congruence|]. rewrite !nth_error_map, Hk, Hk'. simpl. congruence. }
  subst. congruence.
Qed.
End Induced.

(* ------------------------------------------------------------------ declaring the meshes in another order *)
(* (b) an imported triangle joins the points its file designates - whatever the position of its mesh in the list and
   whatever the other meshes are *)
Theorem imported_triangles_label_free ms t ims k lts :
  import_points [] ms = (t, ims) -> (k < length ms)%nat ->
  map_tris (nth k ims []) (m_tris (nth k ms (mkMesh [] []))) = Some lts ->
  map (tri_points t) lts = map (tri_points (m_pts (nth k ms (mkMesh [] [])))) (m_tris (nth k ms (mkMesh [] []))).
Proof.
  intros I Hk M. destruct (import_points_spec _ _ _ _ I) as (_ & _ & N1 & _ & _).
  eapply map_tris_points; [| |exact M].
  - apply (import_points_lens _ _ _ _ I k Hk).
  - intros a Ha. apply N1; auto.
Qed.

(* (a) the set of points, hence the number of vertex unknowns, does not depend on the order of the meshes *)
Theorem import_points_order_free ms ms' t ims t' ims' : Permutation ms ms' ->
  import_points [] ms = (t, ims) -> import_points [] ms' = (t', ims') -> Permutation t t' /\ length t' = length t.
Proof.
  intros P I I'.
  destruct (import_points_spec _ _ _ _ I) as (_ & _ & _ & D1 & E1).
  destruct (import_points_spec _ _ _ _ I') as (_ & _ & _ & D1' & E1').
  assert (Pt : Permutation t t').
  { apply NoDup_Permutation; [apply D1; constructor|apply D1'; constructor|].
    intros q. rewrite E1, E1'. split; intros [[]|[m [Hm Hq]]]; right; exists m; split; auto.
    - eapply Permutation_in; eauto.
    - eapply Permutation_in; [apply Permutation_sym|]; eauto. }
  split; auto. symmetry. apply Permutation_length; auto.
Qed.

(* (c) renumbering the meshes by an injective map in every interface of every domain *)
Section RenumberMeshes.
Variable pi : nat -> nat.
Hypothesis pi_inj : forall a b, pi a = pi b -> a = b.

Definition ren_gb (b : gbound) : gbound := mkGB (b_inside b) (b_if b) (map (fun om => (fst om, pi (snd om))) (b_om b)).

Lemma om_find_ren m l : om_find (pi m) (map (fun om : Z * nat => (fst om, pi (snd om))) l) = om_find m l.
Proof.
  induction l as [|[o k] l IH]; simpl; auto.
  destruct (Nat.eqb_spec k m) as [->|Hn]; [rewrite Nat.eqb_refl; auto|].
  replace (Nat.eqb (pi k) (pi m)) with false; auto. symmetry. apply Nat.eqb_neq. intros C. apply Hn, pi_inj, C.
Qed.

Lemma mesh_orientation_ren d m : mesh_orientation (map ren_gb d) (pi m) = mesh_orientation d m.
Proof. induction d as [|b d IH]; simpl; auto. rewrite om_find_ren, IH. reflexivity. Qed.

Variables g g' : geom.
Hypothesis Hd : g_doms g' = map (map ren_gb) (g_doms g).

Lemma dom_ren k : dom g' k = map ren_gb (dom g k).
Proof. unfold dom. rewrite Hd. change (@nil gbound) with (map ren_gb []). apply map_nth. Qed.

Lemma domains_of_ren m : domains_of g' (pi m) = domains_of g m.
Proof.
  unfold domains_of. rewrite Hd, map_length. apply filter_ext. intros k. unfold dom_has_mesh.
  rewrite dom_ren, mesh_orientation_ren. reflexivity.
Qed.

Lemma common_domains_ren m1 m2 : common_domains g' (pi m1) (pi m2) = common_domains g m1 m2.
Proof. unfold common_domains. rewrite !domains_of_ren. reflexivity. Qed.

Lemma relative_orientation_ren m1 m2 : relative_orientation g' (pi m1) (pi m2) = relative_orientation g m1 m2.
Proof.
  unfold relative_orientation. rewrite common_domains_ren.
  destruct (Nat.eqb_spec m1 m2) as [->|Hn]; [rewrite Nat.eqb_refl; auto|].
  replace (Nat.eqb (pi m1) (pi m2)) with false by (symmetry; apply Nat.eqb_neq; intros C; apply Hn, pi_inj, C).
  destruct (common_domains g m1 m2) as [|k r]; auto. rewrite dom_ren, !mesh_orientation_ren. reflexivity.
Qed.

Lemma dom_contains_ren ins d : dom_contains ins (map ren_gb d) = dom_contains ins d.
Proof. unfold dom_contains. induction d as [|b d IH]; simpl; auto. rewrite IH. reflexivity. Qed.

Lemma domain_of_point_ren ins : domain_of_point g' ins = domain_of_point g ins.
Proof.
  unfold domain_of_point. rewrite Hd. generalize 0%nat. generalize (g_doms g). intros l.
  induction l as [|d l IH]; intros k; simpl; auto.
  rewrite dom_contains_ren, IH. reflexivity.
Qed.

Section F.
Context {F : Type} (o : Ops F) (conds : list F).
Lemma eval_common_ren f m1 m2 : eval_common o g' conds f (pi m1) (pi m2) = eval_common o g conds f m1 m2.
Proof. unfold eval_common. rewrite common_domains_ren. reflexivity. Qed.
End F.
End RenumberMeshes.
