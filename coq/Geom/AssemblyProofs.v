(* C10 -- lemmas about the assembly model (Geom/Assembly.v), R instance of the numeric record. *)
From Coq Require Import List NArith ZArith Bool FMapPositive Reals Lra Lia Permutation.
From OM Require Import Base.Ops Geom.Assembly.
Import ListNotations.
Local Open Scope R_scope.

(* R instance. The transcendental fields are not used by the assembly model. *)
Definition RO : Ops R :=
  mkOps R 0 1 Rplus Rminus Rmult Rdiv Ropp Rabs
        (fun x y => if Rlt_dec x y then true else false)
        (fun x y => if Rle_dec x y then true else false)
        (fun x y => if Req_EM_T x y then true else false)
        IZR sqrt ln (fun _ _ => 0) PI.

(* ------------------------------------------------------------------ finite sums *)
Fixpoint Rsum {A} (f : A -> R) (l : list A) : R :=
  match l with [] => 0 | x :: r => f x + Rsum f r end.

Lemma Rsum_ext {A} (f g : A -> R) l : (forall x, In x l -> f x = g x) -> Rsum f l = Rsum g l.
Proof. induction l as [|a l IH]; simpl; intros H; auto. rewrite H, IH; auto. Qed.
Lemma Rsum_zero {A} (f : A -> R) l : (forall x, In x l -> f x = 0) -> Rsum f l = 0.
Proof. induction l as [|a l IH]; simpl; intros H; auto. rewrite H, IH; auto; lra. Qed.
Lemma Rsum_plus {A} (f g : A -> R) l : Rsum (fun x => f x + g x) l = Rsum f l + Rsum g l.
Proof. induction l; simpl; [lra|]. rewrite IHl; lra. Qed.
Lemma Rsum_minus {A} (f g : A -> R) l : Rsum (fun x => f x - g x) l = Rsum f l - Rsum g l.
Proof. induction l; simpl; [lra|]. rewrite IHl; lra. Qed.
Lemma Rsum_scal {A} c (f : A -> R) l : Rsum (fun x => c * f x) l = c * Rsum f l.
Proof. induction l; simpl; [lra|]. rewrite IHl; lra. Qed.
Lemma Rsum_opp {A} (f : A -> R) l : Rsum (fun x => - f x) l = - Rsum f l.
Proof. induction l; simpl; [lra|]. rewrite IHl; lra. Qed.
Lemma Rsum_swap {A B} (f : A -> B -> R) la lb :
  Rsum (fun a => Rsum (fun b => f a b) lb) la = Rsum (fun b => Rsum (fun a => f a b) la) lb.
Proof.
  induction la as [|a la IH]; simpl.
  - symmetry; apply Rsum_zero; auto.
  - rewrite IH, <- Rsum_plus; auto.
Qed.
Lemma Rsum_app {A} (f : A -> R) l1 l2 : Rsum f (l1 ++ l2) = Rsum f l1 + Rsum f l2.
Proof. induction l1; simpl; [lra|]. rewrite IHl1; lra. Qed.
Lemma Rsum_filter {A} (p : A -> bool) (f : A -> R) l :
  Rsum f (filter p l) = Rsum (fun x => if p x then f x else 0) l.
Proof. induction l as [|a l IH]; simpl; auto. destruct (p a); simpl; rewrite IH; lra. Qed.

Definition memN (x : N) (l : list N) : bool := existsb (N.eqb x) l.
Lemma memN_In x l : memN x l = true <-> In x l.
Proof.
  unfold memN; rewrite existsb_exists; split.
  - intros [y [Hy He]]. apply N.eqb_eq in He; subst; auto.
  - intros H; exists x; split; auto. apply N.eqb_refl.
Qed.

(* a single spike on a duplicate-free list *)
Lemma Rsum_spike (f : N -> R) (a : N) l : NoDup l ->
  Rsum (fun v => if N.eqb v a then f v else 0) l = if memN a l then f a else 0.
Proof.
  induction l as [|x l IH]; simpl; intros Hnd; auto.
  inversion Hnd as [|? ? Hx Hl]; subst. rewrite IH by auto.
  rewrite (N.eqb_sym a x).
  destruct (N.eqb_spec x a) as [->|Hne]; simpl.
  - destruct (memN a l) eqn:E; [apply memN_In in E; contradiction | lra].
  - lra.
Qed.

Lemma fold_left_sub {A} (f : A -> R) l a :
  fold_left (fun acc x => acc - f x) l a = a - Rsum f l.
Proof. revert a; induction l as [|x l IH]; intros a; simpl; [lra|]. rewrite IH; lra. Qed.

(* ------------------------------------------------------------------ the two-level store *)
Lemma kp_inj i j : kp i = kp j -> i = j.
Proof. unfold kp; intros H. rewrite <- (N.pos_pred_succ i), <- (N.pos_pred_succ j), H; auto. Qed.

Section StoreLemmas.
Context {F : Type}.
Lemma rfind_rput_same (M : store F) a b x : rfind (rput M a b x) a b = Some x.
Proof. unfold rfind, rput. rewrite PositiveMap.gss, PositiveMap.gss; auto. Qed.
Lemma rfind_rput_other (M : store F) a b a' b' x : (a, b) <> (a', b') -> rfind (rput M a b x) a' b' = rfind M a' b'.
Proof.
  unfold rfind, rput; intros H.
  destruct (Pos.eq_dec (kp b') (kp b)) as [E|E].
  - apply kp_inj in E; subst b'. rewrite PositiveMap.gss.
    rewrite PositiveMap.gso by (intros E2; apply kp_inj in E2; subst; congruence).
    destruct (PositiveMap.find (kp b) M); auto. apply PositiveMap.gempty.
  - rewrite PositiveMap.gso; auto.
Qed.
End StoreLemmas.

Lemma ord_sym i j : ord i j = ord j i.
Proof.
  unfold ord. destruct (N.leb_spec i j), (N.leb_spec j i); auto; try lia.
  assert (i = j) by lia; subst; auto.
Qed.
Lemma ord_eq i j r c : ord i j = ord r c <-> (i = r /\ j = c) \/ (i = c /\ j = r).
Proof.
  unfold ord. destruct (N.leb_spec i j) as [Ha|Ha], (N.leb_spec r c) as [Hb|Hb]; split; intros HH;
    try (inversion HH; subst; auto; fail);
    try (destruct HH as [[-> ->]|[-> ->]]; auto; f_equal; lia).
Qed.

Section RStore.
Notation mgetR := (mget RO).
Notation msetR := (@mset R).
Notation maddR := (madd RO).

Lemma mget_sym (M : store R) i j : mgetR M i j = mgetR M j i.
Proof. unfold mget. rewrite (ord_sym i j); auto. Qed.

Lemma mget_mset (M : store R) i j x r c :
  mgetR (msetR M i j x) r c = if (if N.eqb i r then N.eqb j c else false) || (if N.eqb i c then N.eqb j r else false) then x else mgetR M r c.
Proof.
  unfold mget, mset.
  destruct (ord i j) as [a b] eqn:Eij. destruct (ord r c) as [a' b'] eqn:Erc.
  unfold rget.
  destruct ((if N.eqb i r then N.eqb j c else false) || (if N.eqb i c then N.eqb j r else false)) eqn:E.
  - assert (ord i j = ord r c) as H.
    { apply ord_eq. apply orb_true_iff in E. destruct E as [E|E].
      - destruct (N.eqb_spec i r); [|discriminate]. apply N.eqb_eq in E; auto.
      - destruct (N.eqb_spec i c); [|discriminate]. apply N.eqb_eq in E; auto. }
    rewrite Eij, Erc in H; inversion H; subst. rewrite rfind_rput_same; auto.
  - rewrite rfind_rput_other; auto.
    intros H. assert (ord i j = ord r c) as H' by (rewrite Eij, Erc; auto).
    apply ord_eq in H'. destruct H' as [[-> ->]|[-> ->]]; rewrite !N.eqb_refl in E; simpl in E;
      [discriminate | rewrite orb_true_r in E; discriminate].
Qed.

Definition hit (i j r c : N) : bool :=
  (if N.eqb i r then N.eqb j c else false) || (if N.eqb i c then N.eqb j r else false).

Lemma mget_madd (M : store R) i j x r c :
  mgetR (maddR M i j x) r c = mgetR M r c + (if hit i j r c then x else 0).
Proof.
  unfold madd. rewrite mget_mset. fold (hit i j r c).
  destruct (hit i j r c) eqn:E; [|lra].
  simpl. f_equal. unfold hit in E. apply orb_true_iff in E. destruct E as [E|E].
  - destruct (N.eqb_spec i r); [|discriminate]. apply N.eqb_eq in E; subst; auto.
  - destruct (N.eqb_spec i c); [|discriminate]. apply N.eqb_eq in E; subst. apply mget_sym.
Qed.

(* frame: a cell that is not hit keeps its value *)
Lemma mget_madd_other (M : store R) i j x r c : hit i j r c = false -> mgetR (maddR M i j x) r c = mgetR M r c.
Proof. intros H; rewrite mget_madd, H; lra. Qed.
End RStore.

(* ------------------------------------------------------------------ geometry of one mesh *)
Definition distinct3 (t : tri) : Prop := tv0 t <> tv1 t /\ tv1 t <> tv2 t /\ tv0 t <> tv2 t.
(* Mesh consistency (C11: the vertex list of a mesh is duplicate free and contains the three distinct
   corners of each of its triangles) *)
Definition mesh_wf (m : mesh) : Prop :=
  NoDup (mverts m) /\ forall t, In t (mtris m) -> distinct3 t /\ In (tv0 t) (mverts m) /\ In (tv1 t) (mverts m) /\ In (tv2 t) (mverts m).

Lemma has_v_split (t : tri) (g : N -> R) v : distinct3 t ->
  (if has_v t v then g v else 0) =
  (if N.eqb v (tv0 t) then g v else 0) + (if N.eqb v (tv1 t) then g v else 0) + (if N.eqb v (tv2 t) then g v else 0).
Proof.
  intros [H01 [H12 H02]]. unfold has_v.
  destruct (N.eqb_spec v (tv0 t)), (N.eqb_spec v (tv1 t)), (N.eqb_spec v (tv2 t)); simpl; subst; try congruence; lra.
Qed.

(* double counting over the triangle-vertex incidences of a mesh *)
Lemma double_count (g : tri -> N -> R) (V : list N) (T : list tri) :
  NoDup V ->
  (forall t, In t T -> distinct3 t /\ In (tv0 t) V /\ In (tv1 t) V /\ In (tv2 t) V) ->
  Rsum (fun v => Rsum (fun t => g t v) (filter (fun t => has_v t v) T)) V =
  Rsum (fun t => g t (tv0 t) + g t (tv1 t) + g t (tv2 t)) T.
Proof.
  intros Hnd. induction T as [|t T IH]; intros HT; simpl.
  - apply Rsum_zero; auto.
  - rewrite <- IH by (intros; apply HT; simpl; auto).
    destruct (HT t (or_introl eq_refl)) as [Hd [H0 [H1 H2]]].
    transitivity (Rsum (fun v => (if has_v t v then g t v else 0) + Rsum (fun t0 => g t0 v) (filter (fun t0 => has_v t0 v) T)) V).
    { apply Rsum_ext; intros v _. destruct (has_v t v); simpl; lra. }
    rewrite Rsum_plus. f_equal.
    transitivity (Rsum (fun v => (if N.eqb v (tv0 t) then g t v else 0) + (if N.eqb v (tv1 t) then g t v else 0) + (if N.eqb v (tv2 t) then g t v else 0)) V).
    { apply Rsum_ext; intros v _. apply (has_v_split t (g t) v Hd). }
    rewrite !Rsum_plus, !Rsum_spike by auto.
    apply memN_In in H0, H1, H2. rewrite H0, H1, H2; auto.
Qed.

Section Nops.
Variable pos : N -> R * R * R.
Variable area : N -> R.
Notation CBR := (CB RO pos).
Notation NtermR := (Nterm RO pos area).
Notation NvalR := (Nval RO pos area).

Definition vadd3 (a b c : R * R * R) : R * R * R :=
  let '(ax, ay, az) := a in let '(bx, b_y, bz) := b in let '(cx, cy, cz) := c in (ax + bx + cx, ay + b_y + cy, az + bz + cz).

(* the three edge vectors used by N for the three corners of a triangle sum to zero *)
Lemma edge_vectors_sum_zero t : distinct3 t ->
  vadd3 (CBR t (tv0 t)) (CBR t (tv1 t)) (CBR t (tv2 t)) = (0, 0, 0).
Proof.
  intros [H01 [H12 H02]]. unfold CB, edge_of.
  rewrite !N.eqb_refl.
  replace (N.eqb (tv1 t) (tv0 t)) with false by (symmetry; apply N.eqb_neq; auto).
  replace (N.eqb (tv2 t) (tv0 t)) with false by (symmetry; apply N.eqb_neq; auto).
  replace (N.eqb (tv2 t) (tv1 t)) with false by (symmetry; apply N.eqb_neq; auto).
  unfold vsub, vadd3. destruct (pos (tv0 t)) as [[x0 y0] z0], (pos (tv1 t)) as [[x1 y1] z1], (pos (tv2 t)) as [[x2 y2] z2].
  simpl. f_equal; [f_equal|]; lra.
Qed.

Lemma dot_sum3_r u a b c : vadd3 a b c = (0, 0, 0) -> dot RO u a + dot RO u b + dot RO u c = 0.
Proof.
  destruct u as [[ux uy] uz], a as [[ax ay] az], b as [[bx b_y] bz], c as [[cx cy] cz]; simpl.
  intros H; injection H as Hx Hy Hz.
  transitivity (ux * (ax + bx + cx) + uy * (ay + b_y + cy) + uz * (az + bz + cz)); [ring|].
  rewrite Hx, Hy, Hz; ring.
Qed.
Lemma dot_comm u v : dot RO u v = dot RO v u.
Proof. destruct u as [[ux uy] uz], v as [[vx vy] vz]; simpl; ring. Qed.
Lemma dot_sum3_l u a b c : vadd3 a b c = (0, 0, 0) -> dot RO a u + dot RO b u + dot RO c u = 0.
Proof. intros H. rewrite !(dot_comm _ u). apply dot_sum3_r; auto. Qed.

Lemma Nval_sum fac S m1 m2 v1 v2 :
  NvalR fac S m1 m2 v1 v2 = - Rsum (fun t1 => Rsum (fun t2 => NtermR fac S t1 v1 t2 v2) (tris_of m2 v2)) (tris_of m1 v1).
Proof.
  unfold Nval. change (fsub RO) with Rminus. change (f0 RO) with 0.
  assert (forall l a, fold_left (fun acc t1 => fold_left (fun acc0 t2 => acc0 - NtermR fac S t1 v1 t2 v2) (tris_of m2 v2) acc) l a
                      = a - Rsum (fun t1 => Rsum (fun t2 => NtermR fac S t1 v1 t2 v2) (tris_of m2 v2)) l) as H.
  { induction l as [|t l IH]; intros a; cbn [fold_left Rsum]; [lra|]. rewrite IH, fold_left_sub. lra. }
  rewrite H; lra.
Qed.

Lemma Nterm_lin fac S t1 v1 t2 v2 :
  NtermR fac S t1 v1 t2 v2 = dot RO (CBR t1 v1) (CBR t2 v2) * (fac * S (tix t1) (tix t2) / (area (tid t1) * area (tid t2))).
Proof. unfold Nterm; simpl. unfold Rdiv; ring. Qed.

(* N_row_sum_zero: for ANY S (no symmetry needed here), any factor, any v1: the sum over the vertices of m2 vanishes *)
Lemma Nval_row_sum_zero fac S m1 m2 v1 : mesh_wf m2 ->
  Rsum (fun v2 => NvalR fac S m1 m2 v1 v2) (mverts m2) = 0.
Proof.
  intros [Hnd HT].
  transitivity (- Rsum (fun t1 => Rsum (fun v2 => Rsum (fun t2 => NtermR fac S t1 v1 t2 v2) (tris_of m2 v2)) (mverts m2)) (tris_of m1 v1)).
  { rewrite <- Rsum_swap, <- Rsum_opp. apply Rsum_ext; intros v2 _. apply Nval_sum. }
  rewrite Rsum_zero; [lra|]. intros t1 _.
  unfold tris_of. rewrite (double_count (fun t2 v2 => NtermR fac S t1 v1 t2 v2) (mverts m2) (mtris m2) Hnd HT).
  apply Rsum_zero; intros t2 Ht2. rewrite !Nterm_lin.
  destruct (HT t2 Ht2) as [Hd _].
  pose proof (dot_sum3_r (CBR t1 v1) _ _ _ (edge_vectors_sum_zero t2 Hd)) as H.
  set (c := fac * S (tix t1) (tix t2) / (area (tid t1) * area (tid t2))) in *.
  replace (dot RO (CBR t1 v1) (CBR t2 (tv0 t2)) * c + dot RO (CBR t1 v1) (CBR t2 (tv1 t2)) * c + dot RO (CBR t1 v1) (CBR t2 (tv2 t2)) * c)
    with ((dot RO (CBR t1 v1) (CBR t2 (tv0 t2)) + dot RO (CBR t1 v1) (CBR t2 (tv1 t2)) + dot RO (CBR t1 v1) (CBR t2 (tv2 t2))) * c) by ring.
  rewrite H; ring.
Qed.

(* ... and the sum over the vertices of m1 (columns) *)
Lemma Nval_col_sum_zero fac S m1 m2 v2 : mesh_wf m1 ->
  Rsum (fun v1 => NvalR fac S m1 m2 v1 v2) (mverts m1) = 0.
Proof.
  intros [Hnd HT].
  transitivity (- Rsum (fun v1 => Rsum (fun t1 => Rsum (fun t2 => NtermR fac S t1 v1 t2 v2) (tris_of m2 v2)) (tris_of m1 v1)) (mverts m1)).
  { rewrite <- Rsum_opp. apply Rsum_ext; intros v1 _. apply Nval_sum. }
  unfold tris_of at 2.
  rewrite (double_count (fun t1 v1 => Rsum (fun t2 => NtermR fac S t1 v1 t2 v2) (tris_of m2 v2)) (mverts m1) (mtris m1) Hnd HT).
  rewrite Rsum_zero; [lra|]. intros t1 Ht1.
  rewrite <- !Rsum_plus. apply Rsum_zero; intros t2 _. rewrite !Nterm_lin.
  destruct (HT t1 Ht1) as [Hd _].
  pose proof (dot_sum3_l (CBR t2 v2) _ _ _ (edge_vectors_sum_zero t1 Hd)) as H.
  (* the scalar depends on t1,t2 only *)
  set (c := fac * S (tix t1) (tix t2) / (area (tid t1) * area (tid t2))) in *.
  replace (dot RO (CBR t1 (tv0 t1)) (CBR t2 v2) * c + dot RO (CBR t1 (tv1 t1)) (CBR t2 v2) * c + dot RO (CBR t1 (tv2 t1)) (CBR t2 v2) * c)
    with ((dot RO (CBR t1 (tv0 t1)) (CBR t2 v2) + dot RO (CBR t1 (tv1 t1)) (CBR t2 v2) + dot RO (CBR t1 (tv2 t1)) (CBR t2 v2)) * c) by ring.
  rewrite H; ring.
Qed.

(* linearity in the factor, symmetry for a symmetric S on one mesh *)
Lemma Nval_factor fac S m1 m2 v1 v2 : NvalR fac S m1 m2 v1 v2 = fac * NvalR 1 S m1 m2 v1 v2.
Proof.
  rewrite !Nval_sum. rewrite <- Ropp_mult_distr_r, <- Rsum_scal. f_equal.
  apply Rsum_ext; intros t1 _. rewrite <- Rsum_scal. apply Rsum_ext; intros t2 _.
  rewrite !Nterm_lin. unfold Rdiv; ring.
Qed.
Lemma Nval_sym fac S m v1 v2 : (forall i j, S i j = S j i) ->
  NvalR fac S m m v1 v2 = NvalR fac S m m v2 v1.
Proof.
  intros HS. rewrite !Nval_sum. f_equal. rewrite Rsum_swap.
  apply Rsum_ext; intros t1 _. apply Rsum_ext; intros t2 _.
  rewrite !Nterm_lin. rewrite (dot_comm (CBR t2 v1)), (HS (tix t2)), (Rmult_comm (area (tid t2)) (area (tid t1))). unfold Rdiv; ring.
Qed.
End Nops.

(* ------------------------------------------------------------------ sums of a row over a set of columns *)
Section RowSums.
Notation mgetR := (mget RO).
Notation msetR := (@mset R).
Notation maddR := (madd RO).

Definition rowsum (M : store R) (r : N) (C : list N) : R := Rsum (fun c => mgetR M r c) C.
Definition delta (r : N) (C : list N) (i j : N) (x : R) : R :=
  (if N.eqb i r && memN j C then x else 0) + (if N.eqb j r && negb (N.eqb i j) && memN i C then x else 0).

Lemma mget_empty r c : mgetR sempty r c = 0.
Proof. unfold mget, rget, rfind, sempty. destruct (ord r c). rewrite PositiveMap.gempty; auto. Qed.

Lemma Rsum_const_spike (x : R) (a : N) l : NoDup l ->
  Rsum (fun v => if N.eqb a v then x else 0) l = if memN a l then x else 0.
Proof.
  intros H. rewrite <- (Rsum_spike (fun _ => x) a l H). apply Rsum_ext; intros v _. rewrite N.eqb_sym; auto.
Qed.

Lemma rowsum_madd M i j x r C : NoDup C -> rowsum (maddR M i j x) r C = rowsum M r C + delta r C i j x.
Proof.
  intros Hnd. unfold rowsum.
  transitivity (Rsum (fun c => mgetR M r c + (if hit i j r c then x else 0)) C).
  { apply Rsum_ext; intros c _. apply mget_madd. }
  rewrite Rsum_plus. f_equal. unfold delta, hit.
  destruct (N.eqb_spec i r) as [->|Hir]; destruct (N.eqb_spec j r) as [->|Hjr]; simpl.
  - rewrite N.eqb_refl; simpl.
    transitivity (Rsum (fun c => if N.eqb r c then x else 0) C).
    { apply Rsum_ext; intros c _. destruct (N.eqb r c); auto. }
    rewrite Rsum_const_spike by auto. lra.
  - transitivity (Rsum (fun c => if N.eqb j c then x else 0) C).
    { apply Rsum_ext; intros c _. destruct (N.eqb_spec r c); [|rewrite orb_false_r; auto].
      subst. replace (N.eqb j c) with false by (symmetry; apply N.eqb_neq; auto). auto. }
    rewrite Rsum_const_spike by auto. lra.
  - replace (N.eqb i r) with false by (symmetry; apply N.eqb_neq; auto). simpl.
    transitivity (Rsum (fun c => if N.eqb i c then x else 0) C).
    { apply Rsum_ext; intros c _. destruct (N.eqb i c); auto. }
    rewrite Rsum_const_spike by auto. lra.
  - transitivity (Rsum (fun _ : N => 0) C); [|rewrite Rsum_zero; auto; lra].
    apply Rsum_ext; intros c _. destruct (N.eqb i c); auto.
Qed.

Lemma rowsum_fold_madd {A} (ii jj : A -> N) (xx : A -> R) (L : list A) M r C : NoDup C ->
  rowsum (fold_left (fun M b => maddR M (ii b) (jj b) (xx b)) L M) r C
  = rowsum M r C + Rsum (fun b => delta r C (ii b) (jj b) (xx b)) L.
Proof.
  intros Hnd. revert M; induction L as [|b L IH]; intros M; simpl; [lra|].
  rewrite IH, rowsum_madd by auto. lra.
Qed.

(* frame lemmas: cells outside are not touched *)
Lemma hit_false_row i j r c : i <> r -> j <> r -> hit i j r c = false.
Proof.
  intros Hi Hj. unfold hit.
  replace (N.eqb i r) with false by (symmetry; apply N.eqb_neq; auto).
  replace (N.eqb j r) with false by (symmetry; apply N.eqb_neq; auto).
  destruct (N.eqb i c); auto.
Qed.
Lemma hit_sym_rc i j r c : hit i j r c = hit i j c r.
Proof. unfold hit. apply orb_comm. Qed.
Lemma hit_false_tri i j r C : In r C -> ~ In i C -> forall c, In c C -> hit i j r c = false.
Proof.
  intros Hr Hi c Hc. unfold hit.
  replace (N.eqb i r) with false by (symmetry; apply N.eqb_neq; intros ->; auto).
  replace (N.eqb i c) with false by (symmetry; apply N.eqb_neq; intros ->; auto). auto.
Qed.

Lemma rowsum_mset_frame M i j x r C : (forall c, In c C -> hit i j r c = false) -> rowsum (msetR M i j x) r C = rowsum M r C.
Proof.
  intros H. unfold rowsum. apply Rsum_ext; intros c Hc. rewrite mget_mset. fold (hit i j r c). rewrite H; auto.
Qed.
Lemma rowsum_madd_frame M i j x r C : (forall c, In c C -> hit i j r c = false) -> rowsum (maddR M i j x) r C = rowsum M r C.
Proof.
  intros H. unfold rowsum. apply Rsum_ext; intros c Hc. rewrite mget_madd, H; auto; lra.
Qed.

(* a store transformer that keeps the sum of row r over C *)
Definition keeps (r : N) (C : list N) (f : store R -> store R) : Prop := forall M, rowsum (f M) r C = rowsum M r C.
Lemma keeps_fold {A} r C (f : store R -> A -> store R) (L : list A) :
  (forall b, In b L -> keeps r C (fun M => f M b)) -> keeps r C (fun M => fold_left f L M).
Proof.
  induction L as [|b L IH]; intros H M; simpl; auto.
  rewrite IH by (intros; apply H; simpl; auto). apply (H b); simpl; auto.
Qed.
End RowSums.

(* ------------------------------------------------------------------ blocks *)
Section Blocks.
Variable K : R.
Variable pos : N -> R * R * R.
Variable area : N -> R.
Variable Sk : N -> N -> R.
Variable Dk : N -> N -> nat -> R.
Variable g : igeom R.
Notation mgetR := (mget RO).
Notation maddR := (madd RO).
Notation NvalR := (Nval RO pos area).
Notation vixg := (vix g).

(* Well-formedness of the indexed geometry, as delivered by the bookkeeping of Geometry (C11:
   generate_indices_bijection): VV = the vertices that carry an unknown. *)
Variable VV : list N.
Definition Cidx : list N := map vixg VV.
Record wf_indexed : Prop := {
  wf_nodup : NoDup VV;
  wf_inj : forall a b, In a VV -> In b VV -> vixg a = vixg b -> a = b;
  wf_mesh : forall p, In p (gpairs g) ->
      mesh_wf (gmesh g (pm1 p)) /\ mesh_wf (gmesh g (pm2 p)) /\
      incl (mverts (gmesh g (pm1 p))) VV /\ incl (mverts (gmesh g (pm2 p))) VV;
  wf_tri : forall p t, In p (gpairs g) -> In t (mtris (gmesh g (pm1 p))) \/ In t (mtris (gmesh g (pm2 p))) -> ~ In (tix t) Cidx;
  wf_parts : forall part k, In part (gparts g) -> In k part -> mouter (gmesh g k) = true -> incl (mverts (gmesh g k)) VV
}.
Hypothesis WF : wf_indexed.

Lemma Cidx_nodup : NoDup Cidx.
Proof.
  unfold Cidx. pose proof (wf_nodup WF) as Hnd. pose proof (wf_inj WF) as Hinj.
  induction VV as [|a l IH]; simpl; constructor.
  - intros Hin. apply in_map_iff in Hin. destruct Hin as [b [Hb Hbl]].
    inversion Hnd; subst. assert (b = a) by (apply Hinj; simpl; auto). subst; auto.
  - inversion Hnd; subst. apply IH; auto. intros; apply Hinj; simpl; auto.
Qed.
Lemma Cidx_in a : In a VV -> In (vixg a) Cidx.
Proof. intros; unfold Cidx; apply in_map; auto. Qed.

Lemma delta_vix rho a b x : In rho VV -> In a VV -> In b VV ->
  delta (vixg rho) Cidx (vixg a) (vixg b) x =
  (if N.eqb a rho then x else 0) + (if N.eqb b rho && negb (N.eqb a b) then x else 0).
Proof.
  intros Hr Ha Hb. unfold delta.
  assert (forall u v, In u VV -> In v VV -> N.eqb (vixg u) (vixg v) = N.eqb u v) as E.
  { intros u v Hu Hv. destruct (N.eqb_spec u v) as [->|Hne]; [apply N.eqb_refl|].
    apply N.eqb_neq; intros H; apply Hne, (wf_inj WF); auto. }
  rewrite !E by auto.
  replace (memN (vixg b) Cidx) with true by (symmetry; apply memN_In, Cidx_in; auto).
  replace (memN (vixg a) Cidx) with true by (symmetry; apply memN_In, Cidx_in; auto).
  rewrite !andb_true_r; auto.
Qed.

(* --- N block of two different meshes: every potential row sum is unchanged, for ANY S --- *)
Lemma N_off_keeps rho coeff S m1 m2 :
  In rho VV -> mesh_wf m1 -> mesh_wf m2 -> incl (mverts m1) VV -> incl (mverts m2) VV ->
  keeps (vixg rho) Cidx (fun M => N_off RO pos area g M coeff S m1 m2).
Proof.
  intros Hr W1 W2 I1 I2 M. unfold N_off.
  pose proof Cidx_nodup as Hnd.
  assert (forall L M0, incl L VV ->
    rowsum (fold_left (fun M a => fold_left (fun M b => maddR M (vixg a) (vixg b)
              (fmul RO (NvalR (Nfac RO a b) S m1 m2 a b) coeff)) (mverts m2) M) L M0) (vixg rho) Cidx
    = rowsum M0 (vixg rho) Cidx +
      Rsum (fun a => Rsum (fun b => delta (vixg rho) Cidx (vixg a) (vixg b) (fmul RO (NvalR (Nfac RO a b) S m1 m2 a b) coeff)) (mverts m2)) L) as H.
  { induction L as [|a L IH]; intros M0 HL; cbn [fold_left Rsum]; [lra|].
    rewrite IH by (intros x Hx; apply HL; simpl; auto).
    rewrite (rowsum_fold_madd (fun _ => vixg a) vixg) by auto. lra. }
  rewrite H by auto. clear H.
  match goal with |- _ + ?X = _ => assert (X = 0) as HX; [|rewrite HX; lra] end.
  set (n := fun a b => NvalR 1 S m1 m2 a b).
  transitivity (Rsum (fun a => Rsum (fun b => (coeff / 4) * ((if N.eqb a rho then n a b else 0) + (if N.eqb b rho then n a b else 0))) (mverts m2)) (mverts m1)).
  { apply Rsum_ext; intros a Ha. apply Rsum_ext; intros b Hb.
    rewrite delta_vix by auto. rewrite (Nval_factor pos area (Nfac RO a b)). fold (n a b).
    unfold Nfac, half, quarter. change (fmul RO) with Rmult. change (fdiv RO) with Rdiv. change (f1 RO) with 1. change (fofZ RO) with IZR.
    destruct (N.eqb_spec a b) as [->|Hab]; destruct (N.eqb_spec b rho) as [->|Hbr]; simpl.
    - lra.
    - lra.
    - destruct (N.eqb_spec a rho); [subst; congruence|]. lra.
    - destruct (N.eqb a rho); lra. }
  transitivity (coeff / 4 * (Rsum (fun a => if N.eqb a rho then Rsum (fun b => n a b) (mverts m2) else 0) (mverts m1)
                            + Rsum (fun b => if N.eqb b rho then Rsum (fun a => n a b) (mverts m1) else 0) (mverts m2))).
  { rewrite Rmult_plus_distr_l, <- !Rsum_scal.
    transitivity (Rsum (fun a => coeff / 4 * (if N.eqb a rho then Rsum (fun b => n a b) (mverts m2) else 0)
                                + coeff / 4 * Rsum (fun b => if N.eqb b rho then n a b else 0) (mverts m2)) (mverts m1)).
    { apply Rsum_ext; intros a _. rewrite Rsum_scal, Rsum_plus.
      destruct (N.eqb a rho); [|rewrite (Rsum_zero (fun _ => 0)) by auto]; lra. }
    rewrite Rsum_plus. f_equal. rewrite Rsum_scal, Rsum_swap, <- Rsum_scal.
    apply Rsum_ext; intros b _. destruct (N.eqb b rho); [lra|]. rewrite Rsum_zero by auto; lra. }
  rewrite (Rsum_zero (fun a => if N.eqb a rho then _ else 0)), (Rsum_zero (fun b => if N.eqb b rho then _ else 0)); [lra| |].
  - intros b _. destruct (N.eqb b rho); auto. apply (Nval_col_sum_zero pos area 1 S m1 m2 b W1).
  - intros a _. destruct (N.eqb a rho); auto. apply (Nval_row_sum_zero pos area 1 S m1 m2 a W2).
Qed.

(* --- N block of one mesh (upper triangle in vertex order): needs a symmetric S --- *)
Lemma N_diag_keeps rho coeff S m :
  In rho VV -> mesh_wf m -> incl (mverts m) VV -> (forall i j, S i j = S j i) ->
  keeps (vixg rho) Cidx (fun M => N_diag RO pos area g M coeff S m (mverts m)).
Proof.
  intros Hr W I HS M.
  pose proof Cidx_nodup as Hnd.
  set (w := fun a b => fmul RO (NvalR (quarter RO) S m m a b) coeff).
  assert (forall a b, w a b = w b a) as Hw.
  { intros a b. unfold w. rewrite (Nval_sym pos area (quarter RO) S m a b HS); auto. }
  (* the triangular sum *)
  assert (forall L M0, incl L VV -> NoDup L ->
    rowsum (N_diag RO pos area g M0 coeff S m L) (vixg rho) Cidx
    = rowsum M0 (vixg rho) Cidx + (if memN rho L then Rsum (fun b => w rho b) L else 0)) as H.
  { induction L as [|a L IH]; intros M0 HL HndL; cbn [N_diag]; [simpl; lra|].
    inversion HndL as [|? ? HaL HndL']; subst.
    rewrite IH by (auto; intros x Hx; apply HL; simpl; auto).
    rewrite (rowsum_fold_madd (fun _ => vixg a) vixg (fun b => w a b)) by auto.
    rewrite Rplus_assoc. f_equal.
    transitivity (Rsum (fun b => (if N.eqb a rho then w a b else 0) + (if N.eqb b rho && negb (N.eqb a b) then w a b else 0)) (a :: L)
                  + (if memN rho L then Rsum (fun b => w rho b) L else 0)).
    { f_equal. apply Rsum_ext; intros b Hb. apply delta_vix; auto; apply HL; simpl; auto. }
    cbn [memN existsb Rsum]. rewrite N.eqb_refl. cbn [negb andb].
    rewrite (N.eqb_sym rho a).
    destruct (N.eqb_spec a rho) as [->|Har]; cbn [orb].
    - (* a = rho: rho is not in L *)
      change (existsb (N.eqb rho) L) with (memN rho L).
      destruct (memN rho L) eqn:E; [apply memN_In in E; contradiction|].
      rewrite andb_false_r.
      assert (Rsum (fun b => w rho b + (if N.eqb b rho && negb (N.eqb rho b) then w rho b else 0)) L = Rsum (fun b => w rho b) L) as E2.
      { apply Rsum_ext; intros b Hb. destruct (N.eqb_spec b rho) as [->|]; [contradiction|]. simpl; lra. }
      rewrite E2; lra.
    - rewrite andb_false_r.
      assert (Rsum (fun b => 0 + (if N.eqb b rho && negb (N.eqb a b) then w a b else 0)) L
              = Rsum (fun b => if N.eqb b rho then w a rho else 0) L) as E2.
      { apply Rsum_ext; intros b Hb. destruct (N.eqb_spec b rho) as [->|]; simpl; [|lra].
        replace (N.eqb a rho) with false by (symmetry; apply N.eqb_neq; auto). simpl; lra. }
      rewrite E2, (Rsum_spike (fun _ => w a rho) rho L HndL').
      change (existsb (N.eqb rho) L) with (memN rho L).
      destruct (memN rho L); [rewrite (Hw a rho)|]; lra. }
  destruct W as [WN WT].
  rewrite H by auto.
  destruct (memN rho (mverts m)); [|lra].
  assert (Rsum (fun b => w rho b) (mverts m) = 0) as E; [|rewrite E; lra].
  unfold w. change (fmul RO) with Rmult.
  transitivity (Rsum (fun b => coeff * NvalR (quarter RO) S m m rho b) (mverts m)).
  { apply Rsum_ext; intros; ring. }
  rewrite Rsum_scal. replace (Rsum _ (mverts m)) with 0; [ring|].
  symmetry; apply (Nval_row_sum_zero pos area (quarter RO) S m m rho (conj WN WT)).
Qed.

(* --- S and D blocks never touch a potential-potential cell --- *)
Lemma S_diag_keeps rho coeff ts : In rho VV -> (forall t, In t ts -> ~ In (tix t) Cidx) ->
  keeps (vixg rho) Cidx (fun M => S_diag RO Sk (@mset R) M coeff ts).
Proof.
  intros Hr. induction ts as [|t1 rest IH]; intros Ht M; cbn [S_diag]; auto.
  rewrite IH by (intros; apply Ht; simpl; auto).
  apply (keeps_fold (vixg rho) Cidx (fun B t2 => mset B (tix t1) (tix t2) (fmul RO (Sk (tid t1) (tid t2)) coeff))).
  intros t2 _ M0. apply rowsum_mset_frame. apply hit_false_tri; [apply Cidx_in; auto | apply Ht; simpl; auto].
Qed.
Lemma S_off_keeps rho coeff ts1 ts2 : In rho VV -> (forall t, In t ts1 -> ~ In (tix t) Cidx) ->
  keeps (vixg rho) Cidx (fun M => S_off RO Sk (@mset R) M coeff ts1 ts2).
Proof.
  intros Hr Ht. unfold S_off. apply keeps_fold; intros t1 H1.
  apply (keeps_fold (vixg rho) Cidx (fun B t2 => mset B (tix t1) (tix t2) (fmul RO (Sk (tid t1) (tid t2)) coeff))).
  intros t2 _ M0. apply rowsum_mset_frame. apply hit_false_tri; [apply Cidx_in; auto | apply Ht; auto].
Qed.
Lemma D_block_keeps rho coeff ts1 ts2 : In rho VV -> (forall t, In t ts1 -> ~ In (tix t) Cidx) ->
  keeps (vixg rho) Cidx (fun M => D_block RO Dk g M coeff ts1 ts2).
Proof.
  intros Hr Ht. unfold D_block. apply keeps_fold; intros t1 H1.
  apply keeps_fold; intros t2 _.
  apply (keeps_fold (vixg rho) Cidx (fun M i => maddR M (tix t1) (vixg (tvi t2 i)) (fmul RO (Dk (tid t1) (tid t2) i) coeff))).
  intros i _ M0. apply rowsum_madd_frame. apply hit_false_tri; [apply Cidx_in; auto | apply Ht; auto].
Qed.

Lemma sbget_sym off B i j : sbget RO off B i j = sbget RO off B j i.
Proof. unfold sbget. apply mget_sym. Qed.

(* --- one mesh pair --- *)
Lemma S_diag_rs rho coeff ts M : In rho VV -> (forall t, In t ts -> ~ In (tix t) Cidx) ->
  rowsum (S_diag RO Sk (@mset R) M coeff ts) (vixg rho) Cidx = rowsum M (vixg rho) Cidx.
Proof. intros; apply (S_diag_keeps rho coeff ts); auto. Qed.
Lemma S_off_rs rho coeff ts1 ts2 M : In rho VV -> (forall t, In t ts1 -> ~ In (tix t) Cidx) ->
  rowsum (S_off RO Sk (@mset R) M coeff ts1 ts2) (vixg rho) Cidx = rowsum M (vixg rho) Cidx.
Proof. intros; apply (S_off_keeps rho coeff ts1 ts2); auto. Qed.
Lemma D_block_rs rho coeff ts1 ts2 M : In rho VV -> (forall t, In t ts1 -> ~ In (tix t) Cidx) ->
  rowsum (D_block RO Dk g M coeff ts1 ts2) (vixg rho) Cidx = rowsum M (vixg rho) Cidx.
Proof. intros; apply (D_block_keeps rho coeff ts1 ts2); auto. Qed.
Lemma N_off_rs rho coeff S m1 m2 M :
  In rho VV -> mesh_wf m1 -> mesh_wf m2 -> incl (mverts m1) VV -> incl (mverts m2) VV ->
  rowsum (N_off RO pos area g M coeff S m1 m2) (vixg rho) Cidx = rowsum M (vixg rho) Cidx.
Proof. intros; apply (N_off_keeps rho coeff S m1 m2); auto. Qed.
Lemma N_diag_rs rho coeff S m M :
  In rho VV -> mesh_wf m -> incl (mverts m) VV -> (forall i j, S i j = S j i) ->
  rowsum (N_diag RO pos area g M coeff S m (mverts m)) (vixg rho) Cidx = rowsum M (vixg rho) Cidx.
Proof. intros; apply (N_diag_keeps rho coeff S m); auto. Qed.

Lemma pair_step_keeps rho p : In rho VV -> In p (gpairs g) ->
  keeps (vixg rho) Cidx (fun M => pair_step RO K pos area Sk Dk g M p).
Proof.
  intros Hr Hp M. unfold pair_step.
  destruct (wf_mesh WF p Hp) as [W1 [W2 [I1 I2]]].
  assert (forall t, In t (mtris (gmesh g (pm1 p))) -> ~ In (tix t) Cidx) as T1 by (intros; apply (wf_tri WF p); auto).
  assert (forall t, In t (mtris (gmesh g (pm2 p))) -> ~ In (tix t) Cidx) as T2 by (intros; apply (wf_tri WF p); auto).
  cbv zeta.
  set (cS := fmul RO (fmul RO (fofZ RO (porient p)) K) (psiginv p)).
  set (cN := fmul RO (fmul RO (fofZ RO (porient p)) K) (psig p)).
  set (cD := fmul RO (fopp RO (fmul RO (fofZ RO (porient p)) K)) (pind p)).
  clearbody cS cN cD.
  assert (forall off B i j, sbget RO off B i j = sbget RO off B j i) as HSB by (intros; apply sbget_sym).
  assert (forall B i j, mgetR B i j = mgetR B j i) as HMG by (intros; apply mget_sym).
  destruct (Nat.eqb (pm1 p) (pm2 p)).
  - unfold diag_block. cbv zeta. set (m := gmesh g (pm1 p)) in *.
    destruct (mbarrier m); destruct (feqb RO _ _);
      rewrite ?D_block_rs by auto; rewrite ?N_diag_rs by auto; rewrite ?S_diag_rs by auto; reflexivity.
  - unfold nondiag_block. cbv zeta. set (m1 := gmesh g (pm1 p)) in *. set (m2 := gmesh g (pm2 p)) in *.
    destruct (mbarrier m1); destruct (mbarrier m2); destruct (tris_eqb (mtris m1) (mtris m2)); cbn [negb andb];
      destruct (feqb RO _ _);
      rewrite ?D_block_rs by auto; rewrite ?N_off_rs by auto; rewrite ?S_off_rs by auto; reflexivity.
Qed.

Lemma assemble_rowsum_zero rho : In rho VV ->
  rowsum (assemble_pairs RO K pos area Sk Dk g) (vixg rho) Cidx = 0.
Proof.
  intros Hr. unfold assemble_pairs.
  rewrite (keeps_fold (vixg rho) Cidx (pair_step RO K pos area Sk Dk g) (gpairs g)).
  - unfold rowsum. apply Rsum_zero; intros; apply mget_empty.
  - intros p Hp. apply pair_step_keeps; auto.
Qed.

(* --- deflation: support --- *)
Definition outer_idx : list N :=
  flat_map (fun part => flat_map (fun k => if mouter (gmesh g k) then map vixg (mverts (gmesh g k)) else []) part) (gparts g).

Lemma deflate_mesh_frame coef vs M r c : (~ In r (map vixg vs) \/ ~ In c (map vixg vs)) ->
  mgetR (deflate_mesh RO g M coef vs) r c = mgetR M r c.
Proof.
  revert M. induction vs as [|a rest IH]; intros M H; cbn [deflate_mesh]; auto.
  rewrite IH by (simpl in H; tauto).
  assert (forall L M0, incl L (a :: rest) -> mgetR (fold_left (fun M b => maddR M (vixg a) (vixg b) coef) L M0) r c = mgetR M0 r c) as HF.
  { induction L as [|b L IHL]; intros M0 HL; simpl; auto.
    rewrite IHL by (intros x Hx; apply HL; simpl; auto).
    apply mget_madd_other.
    assert (In (vixg a) (map vixg (a :: rest))) as Ia by (apply in_map; simpl; auto).
    assert (In (vixg b) (map vixg (a :: rest))) as Ib by (apply in_map, HL; simpl; auto).
    destruct H as [H|H].
    - apply hit_false_row; intros E; subst; auto.
    - rewrite hit_sym_rc. apply hit_false_row; intros E; subst; auto. }
  apply HF. apply incl_refl.
Qed.

Lemma deflate_part_frame part M r c : In part (gparts g) -> (~ In r outer_idx \/ ~ In c outer_idx) ->
  mgetR (deflate_part RO g M part) r c = mgetR M r c.
Proof.
  intros Hp H. unfold deflate_part. destruct (part_scan g part) as [nb ifirst].
  set (coef := fdiv RO (mgetR M ifirst ifirst) (fofZ RO (Z.of_N nb))). clearbody coef.
  assert (forall L M0, incl L part ->
     mgetR (fold_left (fun M k => if mouter (gmesh g k) then deflate_mesh RO g M coef (mverts (gmesh g k)) else M) L M0) r c = mgetR M0 r c) as HF.
  { induction L as [|k L IHL]; intros M0 HL; simpl; auto.
    rewrite IHL by (intros x Hx; apply HL; simpl; auto).
    destruct (mouter (gmesh g k)) eqn:Eo; auto.
    apply deflate_mesh_frame.
    assert (incl (map vixg (mverts (gmesh g k))) outer_idx) as Hi.
    { intros x Hx. unfold outer_idx. apply in_flat_map. exists part; split; auto.
      apply in_flat_map. exists k; split; [apply HL; simpl; auto|]. rewrite Eo; auto. }
    destruct H as [H|H]; [left|right]; intros Hin; apply H, Hi; auto. }
  apply HF, incl_refl.
Qed.

Lemma deflate_frame M r c : (~ In r outer_idx \/ ~ In c outer_idx) ->
  mgetR (deflate RO g M) r c = mgetR M r c.
Proof.
  intros H. unfold deflate.
  assert (forall L M0, incl L (gparts g) -> mgetR (fold_left (deflate_part RO g) L M0) r c = mgetR M0 r c) as HF.
  { induction L as [|p L IHL]; intros M0 HL; simpl; auto.
    rewrite IHL by (intros x Hx; apply HL; simpl; auto).
    apply deflate_part_frame; auto. apply HL; simpl; auto. }
  apply HF, incl_refl.
Qed.

(* --- the potential rows of the assembled matrix --- *)
Lemma headmat_rowsum_zero rho : In rho VV -> ~ In (vixg rho) outer_idx ->
  Rsum (fun u => mgetR (headmat RO K pos area Sk Dk g) (vixg rho) (vixg u)) VV = 0.
Proof.
  intros Hr Ho.
  transitivity (rowsum (assemble_pairs RO K pos area Sk Dk g) (vixg rho) Cidx); [|apply assemble_rowsum_zero; auto].
  unfold rowsum, Cidx. 
  assert (forall (f h : N -> R) L, (forall u, In u L -> f u = h (vixg u)) -> Rsum f L = Rsum h (map vixg L)) as HM.
  { intros f h L; induction L as [|a L IH]; intros HH; simpl; auto. rewrite HH, IH; simpl; auto. intros; apply HH; simpl; auto. }
  apply HM. intros u _. unfold headmat. apply deflate_frame; auto.
Qed.
End Blocks.

(* ------------------------------------------------------------------ dimension *)
Section Dimension.
Context {F : Type}.
Definition nvalid (g : igeom F) : N := N.of_nat (length (filter (fun i => negb (N.eqb i NOIDX)) (gvix g))).
Definition count_tris (sel : mesh -> bool) (g : igeom F) : N :=
  fold_right (fun m a => ((if sel m then ntris m else 0) + a)%N) 0%N (gmeshes g).
Definition ncurrent (g : igeom F) : N := count_tris (fun m => negb (misolated m) && negb (mbarrier m)) g.
Definition nbarrier_tris (g : igeom F) : N := count_tris (fun m => negb (misolated m) && mbarrier m) g.
(* C11 (generate_indices_bijection): nb_parameters = N + B, nb_current_barrier_triangles = B *)
Lemma headmat_dimension_lemma (g : igeom F) :
  gnparams g = (nvalid g + ncurrent g + nbarrier_tris g)%N -> gnbarrier g = nbarrier_tris g ->
  hm_dim g = (nvalid g + ncurrent g)%N.
Proof. unfold hm_dim; intros -> ->. lia. Qed.
End Dimension.

(* ------------------------------------------------------------------ the i_first sentinel of deflate *)
Section IFirst.
Context {F : Type} (g : igeom F).
Definition first_ix (k : nat) : N := vix g (hd 0%N (mverts (gmesh g k))).
Definition outers (part : list nat) : list nat := filter (fun k => mouter (gmesh g k)) part.
(* what the code means: the index of the first vertex of the first outermost mesh of the part *)
Definition ifirst_intended (part : list nat) : N := match outers part with k :: _ => first_ix k | [] => 0%N end.
(* what it computes: the first NON-ZERO such index (0 is used as "not set yet") *)
Fixpoint first_nonzero (l : list N) : N := match l with [] => 0%N | x :: r => if N.eqb x 0 then first_nonzero r else x end.

Lemma part_scan_snd_gen part nb i0 :
  snd (fold_left (fun '(nb, ifirst) k =>
    let m := gmesh g k in
    if mouter m then ((nb + N.of_nat (length (mverts m)))%N, if N.eqb ifirst 0 then vix g (hd 0%N (mverts m)) else ifirst)
    else (nb, ifirst)) part (nb, i0))
  = if N.eqb i0 0 then first_nonzero (map first_ix (outers part)) else i0.
Proof.
  revert nb i0. induction part as [|k part IH]; intros nb i0; simpl.
  - destruct (N.eqb_spec i0 0); auto.
  - unfold outers in *. simpl. destruct (mouter (gmesh g k)); simpl.
    + rewrite IH. fold (first_ix k). destruct (N.eqb_spec i0 0) as [->|Hne]; simpl.
      * destruct (N.eqb (first_ix k) 0); auto.
      * destruct (N.eqb_spec i0 0); [contradiction|auto].
    + apply IH.
Qed.
Lemma part_scan_ifirst part : snd (part_scan g part) = first_nonzero (map first_ix (outers part)).
Proof. unfold part_scan. rewrite part_scan_snd_gen; auto. Qed.
Lemma ifirst_partial_lemma part : ifirst_intended part <> 0%N -> snd (part_scan g part) = ifirst_intended part.
Proof.
  rewrite part_scan_ifirst. unfold ifirst_intended. destruct (outers part) as [|k r]; simpl; auto.
  intros H. destruct (N.eqb_spec (first_ix k) 0); [contradiction|auto].
Qed.
(* with a single outermost mesh in the part the sentinel is harmless *)
Lemma ifirst_single_lemma part k : outers part = [k] -> snd (part_scan g part) = ifirst_intended part.
Proof.
  intros H. rewrite part_scan_ifirst. unfold ifirst_intended. rewrite H; simpl.
  destruct (N.eqb_spec (first_ix k) 0); auto.
Qed.
End IFirst.

(* two outermost meshes in one part, the first vertex of the first one has index 0 (split hemispheres without
   outer layers under the default ordering): i_first is taken from the second mesh *)
Definition ifirst_witness : igeom R :=
  mkGeom [0%N; 1%N; 2%N; 3%N; 4%N; 5%N]
         [mkMesh [0%N; 1%N; 2%N] [] true true false; mkMesh [3%N; 4%N; 5%N] [] true true false] [] [[0%nat; 1%nat]] 6 0.
Lemma ifirst_zero_case_lemma :
  ifirst_intended ifirst_witness [0%nat; 1%nat] = 0%N /\ snd (part_scan ifirst_witness [0%nat; 1%nat]) = 3%N.
Proof. split; vm_compute; reflexivity. Qed.

(* ------------------------------------------------------------------ single-mesh component: no deflation, singular *)
Definition tetra_mesh : mesh :=
  mkMesh [0%N; 1%N; 2%N; 3%N]
         [mkTri 0 0 1 2 4; mkTri 1 0 3 1 5; mkTri 2 0 2 3 6; mkTri 3 1 3 2 7] true true false.
(* what Geometry holds for a one-layer model on the pinned tree: the outermost mesh is in no part *)
Definition one_layer : igeom R := mkGeom [0%N; 1%N; 2%N; 3%N] [tetra_mesh] [mkPair 0 0 1%Z 1 1 1] [] 8 4.
Definition one_layer_VV : list N := [0%N; 1%N; 2%N; 3%N].

Lemma one_layer_wf : wf_indexed one_layer one_layer_VV.
Proof.
  constructor.
  - repeat constructor; simpl; intuition discriminate.
  - intros a b Ha Hb. simpl in Ha, Hb.
    repeat (destruct Ha as [<-|Ha]; [|]); try contradiction;
    repeat (destruct Hb as [<-|Hb]; [|]); try contradiction; vm_compute; intros; congruence.
  - intros p [<-|[]]. simpl. 
    assert (mesh_wf tetra_mesh) as W.
    { split; [repeat constructor; simpl; intuition discriminate|].
      intros t Ht. simpl in Ht. unfold distinct3.
      repeat (destruct Ht as [<-|Ht]; [simpl; intuition discriminate|]). contradiction. }
    split; [exact W | split; [exact W | split; apply incl_refl]].
  - intros p t [<-|[]] Ht. simpl in Ht. unfold Cidx. 
    assert (In t (mtris tetra_mesh)) as Ht' by (destruct Ht as [Ht|Ht]; exact Ht). clear Ht. simpl in Ht'.
    repeat (destruct Ht' as [<-|Ht']; [vm_compute; intuition discriminate|]). contradiction.
  - intros part k [].
Qed.

Lemma no_parts_all_rows_sum_zero K pos area Sk Dk (g : igeom R) VV :
  wf_indexed g VV -> gparts g = [] ->
  forall rho, In rho VV -> Rsum (fun u => mget RO (headmat RO K pos area Sk Dk g) (vix g rho) (vix g u)) VV = 0.
Proof.
  intros WF Hp rho Hr. apply headmat_rowsum_zero; auto. unfold outer_idx. rewrite Hp; simpl; auto.
Qed.
