(* A value of the solid-angle formula that is forced by symmetry: the triangle cut out of the coordinate axes
   (trirectangular tetrahedron with apex x = origin) subtends one octant of the sphere, 4 PI / 8 = PI / 2.
   The model (van Oosterom-Strackee, threshold included) returns exactly PI/2 for all leg lengths a, b, c > 0. *)
From Coq Require Import Reals Lra.
From OM Require Import Base.Ops Base.OpsR Base.Vec3 Geom.Kernels Geom.KernelProofs.
Local Open Scope R_scope.

Lemma sqrt_axis a : 0 <= a -> sqrt (a * a + 0 * 0 + 0 * 0) = a.
Proof. intros H. replace (a * a + 0 * 0 + 0 * 0) with (a * a) by ring. apply sqrt_square, H. Qed.

Theorem solid_angle_octant_lemma a b c : 0 < a -> 0 < b -> 0 < c ->
  solid_angle OpsR (mkV 0 0 0) (mkV a 0 0) (mkV 0 b 0) (mkV 0 0 c) = PI / 2.
Proof.
  intros Ha Hb Hc. unfold solid_angle. cbv zeta.
  assert (E1 : vsub OpsR (mkV a 0 0) (mkV 0 0 0) = mkV a 0 0) by (unfold vsub; cbn; f_equal; ring).
  assert (E2 : vsub OpsR (mkV 0 b 0) (mkV 0 0 0) = mkV 0 b 0) by (unfold vsub; cbn; f_equal; ring).
  assert (E3 : vsub OpsR (mkV 0 0 c) (mkV 0 0 0) = mkV 0 0 c) by (unfold vsub; cbn; f_equal; ring).
  rewrite E1, E2, E3.
  assert (N1 : norm OpsR (mkV a 0 0) = a) by (unfold norm, norm2, sqr; cbn; apply sqrt_axis; lra).
  assert (N2 : norm OpsR (mkV 0 b 0) = b).
  { unfold norm, norm2, sqr; cbn. replace (0 * 0 + b * b + 0 * 0) with (b * b) by ring. apply sqrt_square; lra. }
  assert (N3 : norm OpsR (mkV 0 0 c) = c).
  { unfold norm, norm2, sqr; cbn. replace (0 * 0 + 0 * 0 + c * c) with (c * c) by ring. apply sqrt_square; lra. }
  rewrite N1, N2, N3.
  assert (D : det3 OpsR (mkV a 0 0) (mkV 0 b 0) (mkV 0 0 c) = a * b * c) by (unfold det3, dot, cross; cbn; ring).
  assert (Dn : solid_angle_den OpsR (mkV a 0 0) (mkV 0 b 0) (mkV 0 0 c) a b c = a * b * c)
    by (unfold solid_angle_den, dot; cbn; ring).
  rewrite D, Dn.
  assert (P : 0 < a * b * c) by (apply Rmult_lt_0_compat; [apply Rmult_lt_0_compat|]; lra).
  assert (T : coplanar_test OpsR (a * b * c) a b c = false).
  { unfold coplanar_test. cbn [fleb fabs fmul OpsR]. apply Rleb_false. rewrite Rabs_right by lra.
    pose proof thr_pos. assert (thr_1e10 OpsR < 1) by (unfold thr_1e10, fQ; cbn; lra).
    assert (thr_1e10 OpsR * (a * b * c) < 1 * (a * b * c)) by (apply Rmult_lt_compat_r; lra). lra. }
  rewrite T. cbn [fmul fatan2 f2 fZ fofZ OpsR]. unfold Ratan2.
  destruct (Rlt_dec 0 (a * b * c)); [|lra].
  replace (a * b * c / (a * b * c)) with 1 by (field; lra). rewrite atan_1. field.
Qed.
