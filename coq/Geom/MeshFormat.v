(* C15 -- format selection by file name (MeshIO::create, MeshIO.h:31): the suffix is what std::filesystem::path(name).extension()
   returns without its dot, lower-cased, looked up in the registry {tri, off, bnd, mesh, vtk, gii}.  Characters are their codes. *)
From OM Require Import Base.Lists.
Local Open Scope nat_scope.

(* (text before the last c, text after it) *)
Fixpoint split_last (c : nat) (s : list nat) : option (list nat * list nat) :=
  match s with
  | [] => None
  | h :: t => match split_last c t with
              | Some (a, b) => Some (h :: a, b)
              | None => if h =? c then Some ([], t) else None
              end
  end.
Definition basename (s : list nat) : list nat := match split_last 47 s with Some (_, b) => b | None => s end.
(* extension without the dot: empty when there is no dot or when the only candidate is the leading dot of the file name *)
Definition extension (f : list nat) : list nat :=
  match split_last 46 f with Some ([], _) => [] | Some (_, b) => b | None => [] end.
Definition lower (c : nat) : nat := if (65 <=? c) && (c <=? 90) then c + 32 else c.
Fixpoint leqb (a b : list nat) : bool :=
  match a, b with [], [] => true | x :: a', y :: b' => (x =? y) && leqb a' b' | _, _ => false end.
(* 0 tri, 1 off, 2 bnd, 3 mesh, 4 vtk, 5 gii (registered, unavailable in this build) *)
Definition registry (e : list nat) : option nat :=
  if leqb e [116; 114; 105] then Some 0 else if leqb e [111; 102; 102] then Some 1
  else if leqb e [98; 110; 100] then Some 2 else if leqb e [109; 101; 115; 104] then Some 3
  else if leqb e [118; 116; 107] then Some 4 else if leqb e [103; 105; 105] then Some 5 else None.
Definition format_of (name : list nat) : option nat := registry (map lower (extension (basename name))).

(* ---- proofs *)
Lemma split_last_none c s : ~ In c s -> split_last c s = None.
Proof.
  induction s as [|h t IH]; intros H; simpl; auto. rewrite IH by (intros Hi; apply H; simpl; auto).
  destruct (Nat.eqb_spec h c); auto. subst. exfalso; apply H; simpl; auto.
Qed.

Lemma split_last_app c a b : ~ In c b -> split_last c (a ++ c :: b) = Some (a, b).
Proof.
  intros H. induction a as [|h t IH]; simpl.
  - rewrite split_last_none by auto. rewrite Nat.eqb_refl; auto.
  - rewrite IH; auto.
Qed.

(* the suffix is what follows the last dot of the last path component: directories with dots, several dots in the stem *)
Lemma format_of_name pre stem ext :
  (pre = [] \/ exists d, pre = d ++ [47]) -> stem <> [] -> ~ In 47 stem -> ~ In 47 ext -> ~ In 46 ext ->
  format_of (pre ++ stem ++ 46 :: ext) = registry (map lower ext).
Proof.
  intros Hpre Hs H1 H2 H3. unfold format_of.
  assert (Hb : basename (pre ++ stem ++ 46 :: ext) = stem ++ 46 :: ext).
  { unfold basename. destruct Hpre as [->|[d ->]].
    - simpl. rewrite split_last_none; auto. intros Hi. apply in_app_or in Hi. destruct Hi as [Hi|[Hi|Hi]]; auto. discriminate.
    - rewrite <- app_assoc. simpl. rewrite split_last_app; auto.
      intros Hi. apply in_app_or in Hi. destruct Hi as [Hi|[Hi|Hi]]; auto. discriminate. }
  rewrite Hb. unfold extension. rewrite split_last_app by auto. destruct stem; [congruence|reflexivity].
Qed.

Lemma lower_idem c : lower (lower c) = lower c.
Proof.
  unfold lower. destruct ((65 <=? c) && (c <=? 90)) eqn:E; [|rewrite E; auto].
  apply andb_true_iff in E. destruct E as [E1 E2]. apply Nat.leb_le in E1. apply Nat.leb_le in E2.
  replace ((65 <=? c + 32) && (c + 32 <=? 90)) with false; auto.
  symmetry. apply andb_false_iff. right. apply Nat.leb_gt. lia.
Qed.

(* the selection does not depend on the case of the suffix *)
Lemma format_case_insensitive pre stem ext ext' :
  (pre = [] \/ exists d, pre = d ++ [47]) -> stem <> [] -> ~ In 47 stem ->
  ~ In 47 ext -> ~ In 46 ext -> ~ In 47 ext' -> ~ In 46 ext' -> map lower ext = map lower ext' ->
  format_of (pre ++ stem ++ 46 :: ext) = format_of (pre ++ stem ++ 46 :: ext').
Proof. intros. rewrite !format_of_name; auto. congruence. Qed.

Example format_examples :
  format_of [72; 69; 65; 68; 46; 84; 82; 73] = Some 0 /\                         (* HEAD.TRI *)
  format_of [120; 46; 77; 101; 115; 104] = Some 3 /\                              (* x.Mesh *)
  format_of [100; 46; 105; 114; 47; 97; 46; 98; 46; 66; 78; 68] = Some 2 /\       (* d.ir/a.b.BND *)
  format_of [100; 46; 116; 114; 105; 47; 120] = None /\                           (* d.tri/x *)
  format_of [46; 116; 114; 105] = None /\                                         (* .tri *)
  format_of [97; 46; 116; 114; 105; 46; 98; 97; 107] = None.                      (* a.tri.bak *)
Proof. vm_compute. repeat split; reflexivity. Qed.
