(* cond_render_roundtrip: a conductivity file written line by line (comments and "name value" entries in any order) is
   read back by the character-level reader as the names of its entries, in order.  Together with CondProofs
   (load_cond_spec) this gives back the name -> value table: the k-th entry carries the k-th value. *)
From OM Require Import Base.Lists Geom.GeomModel Geom.GeomFile Geom.GeomLex Geom.GeomLexProofs.

Inductive kline := KComment (body : list nat) | KEntry (name value : list nat).

Definition render_kline (l : kline) : list nat :=
  match l with KComment b => 35 :: b ++ [10] | KEntry n v => n ++ 32 :: v ++ [10] end.
Definition render_klines (ls : list kline) : list nat := flat_map render_kline ls.
Definition render_cond (ls : list kline) : list nat := s_prop_header ++ s_Conductivities ++ s_close ++ 10 :: render_klines ls.
Definition entry_names (ls : list kline) : list (list nat) :=
  flat_map (fun l => match l with KComment _ => [] | KEntry n _ => [n] end) ls.

Definition kline_ok (l : kline) : Prop :=
  match l with
  | KComment b => ~ In 10 b
  | KEntry n v => word n /\ word v /\ hd 0 n <> 35
  end.

(* ---------- lengths and fuel *)
Lemma drop_while_len p (l : list nat) : length (drop_while p l) <= length l.
Proof. induction l as [|c l IH]; simpl; auto. destruct (p c); simpl; lia. Qed.

Lemma skip_line_len l : length (skip_line l) <= length l.
Proof. unfold skip_line. pose proof (drop_while_len (fun c => negb (Nat.eqb c 10)) l). destruct (drop_while _ l); simpl in *; lia. Qed.

Lemma skip_comments_fuel : forall f1 f2 l, length l < f1 -> length l < f2 -> skip_comments_l f1 l = skip_comments_l f2 l.
Proof.
  induction f1 as [|f1 IH]; intros f2 l H1 H2; [lia|]. destruct f2 as [|f2]; [lia|]. simpl.
  pose proof (drop_while_len isspace l). destruct (drop_while isspace l) as [|c r] eqn:E; auto.
  destruct (Nat.eqb c 35); auto. apply IH; pose proof (skip_line_len r); simpl in *; lia.
Qed.

Lemma skip_comments_stop f c r : isspace c = false -> c <> 35 -> skip_comments_l (S f) (c :: r) = c :: r.
Proof. intros S N. simpl. rewrite S. replace (Nat.eqb c 35) with false by (symmetry; apply Nat.eqb_neq; auto). reflexivity. Qed.

Lemma skip_line_body b rest : ~ In 10 b -> skip_line (b ++ 10 :: rest) = rest.
Proof.
  intros Hb. unfold skip_line. induction b as [|c b IH]; simpl; auto.
  destruct (Nat.eqb_spec c 10) as [->|Hn]; [exfalso; apply Hb; left; auto|]. simpl. apply IH. intros C; apply Hb; right; auto.
Qed.

(* a comment line in front does not change what skip_comments leaves *)
Lemma skip_comments_comment b rest : ~ In 10 b ->
  skip_comments (mkS (35 :: b ++ 10 :: rest) false) = skip_comments (mkS rest false).
Proof.
  intros Hb. unfold skip_comments. simpl bad. cbv iota. f_equal. simpl inp.
  change (skip_comments_l (S (length (35 :: b ++ 10 :: rest))) (35 :: b ++ 10 :: rest))
    with (skip_comments_l (length (35 :: b ++ 10 :: rest)) (skip_line (b ++ 10 :: rest))).
  rewrite skip_line_body by auto. apply skip_comments_fuel; simpl; rewrite ?app_length; simpl; lia.
Qed.

Lemma word_head_nonspace n : word n -> exists c r, n = c :: r /\ isspace c = false.
Proof. intros [Hne Hw]. destruct n as [|c r]; [congruence|]. exists c, r. split; auto. apply Hw; left; auto. Qed.

Lemma read_word_word w c rest : word w -> isspace c = true ->
  read_word (mkS (w ++ c :: rest) false) = (mkS (c :: rest) false, w).
Proof.
  intros W Hc. destruct (word_head_nonspace w W) as [a [r [-> Ha]]]. destruct W as [_ Hw].
  unfold read_word. cbn [inp bad].
  assert (D : drop_while isspace ((a :: r) ++ c :: rest) = (a :: r) ++ c :: rest) by (simpl; rewrite Ha; reflexivity).
  rewrite D.
  assert (Hp : forall x, In x (a :: r) -> (fun c0 => negb (isspace c0)) x = true) by (intros x Hx; simpl; rewrite (Hw x Hx); reflexivity).
  destruct (take_while_app_stop _ (a :: r) c rest Hp ltac:(simpl; rewrite Hc; reflexivity)) as [T1 T2].
  rewrite T1, T2. reflexivity.
Qed.

Definition line_start (l : list nat) : Prop := l = [] \/ exists c r, l = c :: r /\ isspace c = false.

Lemma render_klines_start ls : Forall kline_ok ls -> line_start (render_klines ls).
Proof.
  intros F. destruct ls as [|l ls]; [left; reflexivity|right]. inversion F as [|? ? Hl F']; subst.
  destruct l as [b|n v]; simpl.
  - exists 35, ((b ++ [10]) ++ render_klines ls). split; reflexivity.
  - destruct Hl as (Wn & _ & _). destruct (word_head_nonspace n Wn) as [c [r [-> Hc]]]. simpl. eexists; eexists; split; eauto.
Qed.

Lemma drop_ws_line_start l : line_start l -> drop_while isspace (10 :: l) = l.
Proof. intros [->|[c [r [-> Hc]]]]; simpl; [reflexivity|]. rewrite Hc. reflexivity. Qed.

(* ---------- one iteration of the definition loop *)
Lemma cond_comment_step f b rest : ~ In 10 b ->
  cond_entries (S f) (mkS (35 :: b ++ 10 :: rest) false) = cond_entries (S f) (mkS rest false).
Proof.
  intros Hb. unfold cond_entries at 1. fold cond_entries. simpl bad. cbv iota. simpl inp. cbv iota.
  rewrite (skip_comments_comment b rest Hb).
  destruct rest as [|c r].
  - reflexivity.
  - reflexivity.
Qed.

Lemma cond_entry_step f n v rest : word n -> word v -> hd 0 n <> 35 -> line_start rest ->
  cond_entries (S f) (mkS (n ++ 32 :: v ++ 10 :: rest) false) = option_map (cons n) (cond_entries f (mkS rest false)).
Proof.
  intros Wn Wv Hh Hr. destruct (word_head_nonspace n Wn) as [c [r [E Hc]]].
  unfold cond_entries at 1. fold cond_entries. simpl bad. cbv iota.
  assert (SC : skip_comments (mkS (n ++ 32 :: v ++ 10 :: rest) false) = mkS (n ++ 32 :: v ++ 10 :: rest) false).
  { unfold skip_comments. simpl bad. cbv iota. f_equal. simpl inp. subst n. simpl app.
    apply skip_comments_stop; auto. }
  subst n. simpl inp. simpl app. cbv iota. simpl app in SC. rewrite SC.
  change (c :: r ++ 32 :: v ++ 10 :: rest) with ((c :: r) ++ 32 :: v ++ 10 :: rest).
  rewrite (read_word_word (c :: r) 32 (v ++ 10 :: rest) Wn eq_refl). simpl bad. cbv iota.
  assert (R2 : read_word (mkS (32 :: v ++ 10 :: rest) false) = (mkS (10 :: rest) false, v)).
  { destruct (word_head_nonspace v Wv) as [a [q [Ev Ha]]].
    pose proof (read_word_word v 10 rest Wv eq_refl) as H. unfold read_word in *. simpl bad in *. cbv iota in *. simpl inp in *.
    subst v. simpl drop_while. simpl drop_while in H. rewrite Ha in *. exact H. }
  rewrite R2. simpl bad. cbv iota.
  unfold ws. simpl bad. cbv iota. simpl inp. rewrite (drop_ws_line_start rest Hr).
  destruct (cond_entries f (mkS rest false)); reflexivity.
Qed.

Lemma cond_entries_rendered : forall ls fuel, Forall kline_ok ls -> length ls < fuel ->
  cond_entries fuel (mkS (render_klines ls) false) = Some (entry_names ls).
Proof.
  induction ls as [|l ls IH]; intros fuel F L.
  - destruct fuel; reflexivity.
  - destruct fuel as [|fuel]; [simpl in L; lia|]. inversion F as [|? ? Hl F']; subst.
    destruct l as [b|n v]; simpl in Hl; simpl render_klines; simpl entry_names.
    + change (render_kline (KComment b) ++ render_klines ls) with ((35 :: b ++ [10]) ++ render_klines ls).
      simpl app. rewrite <- app_assoc. simpl app. rewrite cond_comment_step by exact Hl.
      apply IH; auto. simpl in L. lia.
    + destruct Hl as (Wn & Wv & Hh).
      change (render_kline (KEntry n v) ++ render_klines ls) with ((n ++ 32 :: v ++ [10]) ++ render_klines ls).
      rewrite <- app_assoc. simpl app. rewrite <- app_assoc. simpl app.
      rewrite cond_entry_step; auto; [|apply render_klines_start; auto].
      rewrite IH; auto. simpl in L. lia.
Qed.

Lemma cond_header_eaten t :
  mtch s_close (fst (mtch_opt s_Conductivities (mtch s_prop_header (mkS (s_prop_header ++ s_Conductivities ++ s_close ++ t) false)))) = mkS t false
  /\ snd (mtch_opt s_Conductivities (mtch s_prop_header (mkS (s_prop_header ++ s_Conductivities ++ s_close ++ t) false))) = true.
Proof. split; reflexivity. Qed.

Lemma cond_leading_newline f L : line_start L ->
  cond_entries (S f) (mkS (10 :: L) false) = cond_entries (S f) (mkS L false).
Proof.
  intros [->|[c [r [-> Hc]]]]; [reflexivity|].
  assert (SK : skip_comments (mkS (10 :: c :: r) false) = skip_comments (mkS (c :: r) false)).
  { unfold skip_comments. cbn [inp bad]. f_equal.
    change (skip_comments_l (S (length (10 :: c :: r))) (10 :: c :: r)) with
      (match drop_while isspace (c :: r) with
       | c0 :: r0 => if Nat.eqb c0 35 then skip_comments_l (length (10 :: c :: r)) (skip_line r0) else c0 :: r0
       | [] => [] end).
    change (skip_comments_l (S (length (c :: r))) (c :: r)) with
      (match drop_while isspace (c :: r) with
       | c0 :: r0 => if Nat.eqb c0 35 then skip_comments_l (length (c :: r)) (skip_line r0) else c0 :: r0
       | [] => [] end).
    cbn [drop_while]. rewrite Hc. destruct (Nat.eqb c 35); auto.
    apply skip_comments_fuel; pose proof (skip_line_len r); cbn [length]; lia. }
  unfold cond_entries at 1 2. fold cond_entries. cbn [inp bad]. rewrite SK. reflexivity.
Qed.

Theorem cond_render_roundtrip ls : Forall kline_ok ls -> lex_cond (render_cond ls) = Some (entry_names ls).
Proof.
  intros F. unfold lex_cond, render_cond.
  destruct (cond_header_eaten (10 :: render_klines ls)) as [H1 H2].
  destruct (mtch_opt s_Conductivities (mtch s_prop_header (mkS (s_prop_header ++ s_Conductivities ++ s_close ++ 10 :: render_klines ls) false))) as [s2 tag].
  cbn [fst snd] in H1, H2. subst tag. rewrite H1. cbn [negb orb bad].
  assert (Lf : length ls < length (s_prop_header ++ s_Conductivities ++ s_close ++ 10 :: render_klines ls)).
  { rewrite !app_length. cbn [length]. assert (length ls <= length (render_klines ls)); [|lia].
    clear. induction ls as [|l ls IH]; cbn [render_klines flat_map length]; auto. rewrite app_length.
    destruct l; cbn [render_kline length]; rewrite ?app_length; cbn [length]; unfold render_klines in IH; lia. }
  rewrite cond_leading_newline by (apply render_klines_start; auto).
  apply cond_entries_rendered; auto.
Qed.
