(* C06 (3): the head matrix of c10's assembly model (coq/Geom/Assembly.v, R instance) under a renumbering of the vertex
   unknowns.  g' is g with every vertex index sent through an injective map pi that fixes the triangle indices (what a
   vertex relabelling does in the default ordering: relabel_vertices_equivariant + generate_indices_bijection).
   Then every cell of the assembled (not yet deflated) matrix moves with pi:
        mget (assemble_pairs g') (pi r) (pi c) = mget (assemble_pairs g) r c
   i.e. the hypothesis of label_free_matrices_are_conjugate holds for the head matrix with only the kernels Sk, Dk,
   the areas and the positions abstract.  Deflation is NOT covered, and cannot be in this form: its coefficient is read
   from the diagonal cell of the FIRST vertex of the first outermost mesh of the part (Details::deflate, i_first), so a
   relabelling changes the coefficient (not the solution modulo constants). *)
From Coq Require Import List NArith ZArith Bool FMapPositive Reals Lra Lia.
From OM Require Import Base.Ops Geom.Assembly Geom.AssemblyProofs.
Import ListNotations.
Local Open Scope R_scope.

Section Relabel.
Variable K : R.
Variable pos : N -> R * R * R.
Variable area : N -> R.
Variable Sk : N -> N -> R.
Variable Dk : N -> N -> nat -> R.
Variables g g' : igeom R.
Variable pi : N -> N.
Hypothesis pi_inj : forall a b, pi a = pi b -> a = b.
Hypothesis Hmeshes : gmeshes g' = gmeshes g.
Hypothesis Hpairs : gpairs g' = gpairs g.
Hypothesis Hvix : forall v, vix g' v = pi (vix g v).
Hypothesis Htix : forall k t, In t (mtris (gmesh g k)) -> pi (tix t) = tix t.

Notation mgetR := (mget RO).
Notation maddR := (madd RO).
Notation msetR := (@mset R).

Definition sim (M' M : store R) : Prop := forall r c, mgetR M' (pi r) (pi c) = mgetR M r c.

Lemma eqb_pi a b : N.eqb (pi a) (pi b) = N.eqb a b.
Proof. destruct (N.eqb_spec a b) as [->|H]; [apply N.eqb_refl|]. apply N.eqb_neq. intros C; apply H, pi_inj, C. Qed.

Lemma hit_pi i j r c : hit (pi i) (pi j) (pi r) (pi c) = hit i j r c.
Proof. unfold hit. rewrite !eqb_pi. reflexivity. Qed.

Lemma sim_madd M' M i j x : sim M' M -> sim (maddR M' (pi i) (pi j) x) (maddR M i j x).
Proof. intros S r c. rewrite !mget_madd, hit_pi, S. reflexivity. Qed.

Lemma sim_mset M' M i j x : sim M' M -> sim (msetR M' (pi i) (pi j) x) (msetR M i j x).
Proof. intros S r c. rewrite !mget_mset, !eqb_pi, S. reflexivity. Qed.

Lemma sim_empty : sim sempty sempty.
Proof. intros r c. rewrite !mget_empty. reflexivity. Qed.

Lemma sim_fold {A} (f' f : store R -> A -> store R) (L : list A) :
  (forall M' M b, In b L -> sim M' M -> sim (f' M' b) (f M b)) ->
  forall M' M, sim M' M -> sim (fold_left f' L M') (fold_left f L M).
Proof.
  induction L as [|b L IH]; intros H M' M S; simpl; auto.
  apply IH; [intros; apply H; auto; right; auto|]. apply H; auto. left; auto.
Qed.

Definition fixed (ts : list tri) : Prop := forall t, In t ts -> pi (tix t) = tix t.

(* ---- S blocks: triangle cells only *)
Lemma S_diag_sim coeff : forall ts M' M, fixed ts -> sim M' M ->
  sim (S_diag RO Sk msetR M' coeff ts) (S_diag RO Sk msetR M coeff ts).
Proof.
  induction ts as [|t1 rest IH]; intros M' M F S; cbn [S_diag]; auto.
  apply IH; [intros t Ht; apply F; right; auto|].
  apply sim_fold; auto. intros A B t2 Ht2 SAB.
  rewrite <- (F t1 (or_introl eq_refl)) at 1. rewrite <- (F t2 Ht2) at 1. apply sim_mset; auto.
Qed.

Lemma S_off_sim coeff ts1 ts2 M' M : fixed ts1 -> fixed ts2 -> sim M' M ->
  sim (S_off RO Sk msetR M' coeff ts1 ts2) (S_off RO Sk msetR M coeff ts1 ts2).
Proof.
  intros F1 F2. unfold S_off. apply sim_fold. intros A B t1 Ht1 SAB. apply sim_fold; auto.
  intros A0 B0 t2 Ht2 S0. rewrite <- (F1 t1 Ht1) at 1. rewrite <- (F2 t2 Ht2) at 1. apply sim_mset; auto.
Qed.

(* ---- N blocks *)
Lemma Nval_ext fac (S' S : N -> N -> R) m1 m2 v1 v2 :
  (forall t1 t2, In t1 (mtris m1) -> In t2 (mtris m2) -> S' (tix t1) (tix t2) = S (tix t1) (tix t2)) ->
  Nval RO pos area fac S' m1 m2 v1 v2 = Nval RO pos area fac S m1 m2 v1 v2.
Proof.
  intros H. unfold Nval.
  assert (G : forall L1 a, (forall t, In t L1 -> In t (mtris m1)) ->
    fold_left (fun acc t1 => fold_left (fun acc t2 => fsub RO acc (Nterm RO pos area fac S' t1 v1 t2 v2)) (tris_of m2 v2) acc) L1 a
    = fold_left (fun acc t1 => fold_left (fun acc t2 => fsub RO acc (Nterm RO pos area fac S t1 v1 t2 v2)) (tris_of m2 v2) acc) L1 a).
  { induction L1 as [|t1 L1 IH]; intros a HL; simpl; auto.
    rewrite IH by (intros; apply HL; right; auto). f_equal.
    assert (G2 : forall L2 b, (forall t, In t L2 -> In t (mtris m2)) ->
      fold_left (fun acc t2 => fsub RO acc (Nterm RO pos area fac S' t1 v1 t2 v2)) L2 b
      = fold_left (fun acc t2 => fsub RO acc (Nterm RO pos area fac S t1 v1 t2 v2)) L2 b).
    { induction L2 as [|t2 L2 IH2]; intros b HL2; simpl; auto.
      rewrite IH2 by (intros; apply HL2; right; auto). f_equal. unfold Nterm.
      rewrite (H t1 t2); auto; [apply HL; left; auto|apply HL2; left; auto]. }
    apply G2. intros t Ht. unfold tris_of in Ht. apply filter_In in Ht. tauto. }
  apply G. intros t Ht. unfold tris_of in Ht. apply filter_In in Ht. tauto.
Qed.

Lemma N_off_sim coeff (S' S : N -> N -> R) m1 m2 M' M :
  (forall t1 t2, In t1 (mtris m1) -> In t2 (mtris m2) -> S' (tix t1) (tix t2) = S (tix t1) (tix t2)) ->
  sim M' M -> sim (N_off RO pos area g' M' coeff S' m1 m2) (N_off RO pos area g M coeff S m1 m2).
Proof.
  intros HS. unfold N_off. apply sim_fold. intros A B a _ SAB. apply sim_fold; auto.
  intros A0 B0 b _ S0. rewrite !Hvix, (Nval_ext _ S' S m1 m2 a b HS). apply sim_madd; auto.
Qed.

Lemma N_diag_sim coeff (S' S : N -> N -> R) m :
  (forall t1 t2, In t1 (mtris m) -> In t2 (mtris m) -> S' (tix t1) (tix t2) = S (tix t1) (tix t2)) ->
  forall vs M' M, sim M' M -> sim (N_diag RO pos area g' M' coeff S' m vs) (N_diag RO pos area g M coeff S m vs).
Proof.
  intros HS. induction vs as [|a rest IH]; intros M' M SM; cbn [N_diag]; auto.
  apply IH. apply sim_fold; auto. intros A B b _ SAB.
  rewrite !Hvix, (Nval_ext _ S' S m m a b HS). apply sim_madd; auto.
Qed.

(* ---- D blocks *)
Lemma D_block_sim coeff ts1 ts2 M' M : fixed ts1 -> sim M' M ->
  sim (D_block RO Dk g' M' coeff ts1 ts2) (D_block RO Dk g M coeff ts1 ts2).
Proof.
  intros F1. unfold D_block. apply sim_fold. intros A B t1 Ht1 SAB. apply sim_fold; auto.
  intros A0 B0 t2 _ S0. apply sim_fold; auto. intros A1 B1 i _ S1.
  rewrite Hvix. rewrite <- (F1 t1 Ht1) at 1. apply sim_madd; auto.
Qed.

Lemma sim_read_fixed M' M ts1 ts2 : fixed ts1 -> fixed ts2 -> sim M' M ->
  forall t1 t2, In t1 ts1 -> In t2 ts2 -> mgetR M' (tix t1) (tix t2) = mgetR M (tix t1) (tix t2).
Proof. intros F1 F2 S t1 t2 H1 H2. rewrite <- (F1 t1 H1) at 1. rewrite <- (F2 t2 H2) at 1. apply S. Qed.

Lemma diag_block_sim cS cN cD m M' M : fixed (mtris m) -> sim M' M ->
  sim (diag_block RO pos area Sk Dk g' M' cS cN cD m) (diag_block RO pos area Sk Dk g M cS cN cD m).
Proof.
  intros F S. unfold diag_block.
  set (M1' := if mbarrier m then M' else S_diag RO Sk msetR M' cS (mtris m)).
  set (M1 := if mbarrier m then M else S_diag RO Sk msetR M cS (mtris m)).
  assert (S1 : sim M1' M1) by (unfold M1', M1; destruct (mbarrier m); auto; apply S_diag_sim; auto).
  set (Sc := if mbarrier m then f0 RO else cS).
  assert (S2 : sim (if feqb RO Sc (f0 RO)
                    then N_diag RO pos area g' M1' cN (sbget RO (front_ix m) (S_diag RO Sk (sbset (front_ix m)) sempty (f1 RO) (mtris m))) m (mverts m)
                    else N_diag RO pos area g' M1' (fdiv RO cN Sc) (mgetR M1') m (mverts m))
                   (if feqb RO Sc (f0 RO)
                    then N_diag RO pos area g M1 cN (sbget RO (front_ix m) (S_diag RO Sk (sbset (front_ix m)) sempty (f1 RO) (mtris m))) m (mverts m)
                    else N_diag RO pos area g M1 (fdiv RO cN Sc) (mgetR M1) m (mverts m))).
  { destruct (feqb RO Sc (f0 RO)).
    - apply N_diag_sim; auto.
    - apply N_diag_sim; auto. intros t1 t2 H1 H2. apply (sim_read_fixed M1' M1 (mtris m) (mtris m)); auto. }
  destruct (mbarrier m); auto. apply D_block_sim; auto.
Qed.

Lemma nondiag_block_sim cS cN cD m1 m2 M' M : fixed (mtris m1) -> fixed (mtris m2) -> sim M' M ->
  sim (nondiag_block RO pos area Sk Dk g' M' cS cN cD m1 m2) (nondiag_block RO pos area Sk Dk g M cS cN cD m1 m2).
Proof.
  intros F1 F2 S. unfold nondiag_block.
  set (both := negb (mbarrier m1) && negb (mbarrier m2)).
  set (M1' := if both then S_off RO Sk msetR M' cS (mtris m1) (mtris m2) else M').
  set (M1 := if both then S_off RO Sk msetR M cS (mtris m1) (mtris m2) else M).
  assert (S1 : sim M1' M1) by (unfold M1', M1; destruct both; auto; apply S_off_sim; auto).
  set (Sc := if both then cS else f0 RO).
  set (M2' := if feqb RO Sc (f0 RO)
              then N_off RO pos area g' M1' cN (bget RO (front_ix m1) (front_ix m2) (S_off RO Sk (bset (front_ix m1) (front_ix m2)) sempty (f1 RO) (mtris m1) (mtris m2))) m1 m2
              else N_off RO pos area g' M1' (fdiv RO cN Sc) (mgetR M1') m1 m2).
  set (M2 := if feqb RO Sc (f0 RO)
              then N_off RO pos area g M1 cN (bget RO (front_ix m1) (front_ix m2) (S_off RO Sk (bset (front_ix m1) (front_ix m2)) sempty (f1 RO) (mtris m1) (mtris m2))) m1 m2
              else N_off RO pos area g M1 (fdiv RO cN Sc) (mgetR M1) m1 m2).
  assert (S2 : sim M2' M2).
  { unfold M2', M2. destruct (feqb RO Sc (f0 RO)).
    - apply N_off_sim; auto.
    - apply N_off_sim; auto. intros t1 t2 H1 H2. apply (sim_read_fixed M1' M1 (mtris m1) (mtris m2)); auto. }
  set (M3' := if mbarrier m1 then M2' else D_block RO Dk g' M2' cD (mtris m1) (mtris m2)).
  set (M3 := if mbarrier m1 then M2 else D_block RO Dk g M2 cD (mtris m1) (mtris m2)).
  assert (S3 : sim M3' M3) by (unfold M3', M3; destruct (mbarrier m1); auto; apply D_block_sim; auto).
  destruct (negb (tris_eqb (mtris m1) (mtris m2)) && negb (mbarrier m2)); auto. apply D_block_sim; auto.
Qed.

Lemma gmesh_eq k : gmesh g' k = gmesh g k.
Proof. unfold gmesh. rewrite Hmeshes. reflexivity. Qed.

Theorem assemble_pairs_relabel : forall r c,
  mgetR (assemble_pairs RO K pos area Sk Dk g') (pi r) (pi c) = mgetR (assemble_pairs RO K pos area Sk Dk g) r c.
Proof.
  unfold assemble_pairs. rewrite Hpairs. change (sim (fold_left (pair_step RO K pos area Sk Dk g') (gpairs g) sempty)
                                                  (fold_left (pair_step RO K pos area Sk Dk g) (gpairs g) sempty)).
  apply sim_fold; [|apply sim_empty]. intros M' M p _ S. unfold pair_step. rewrite !gmesh_eq.
  destruct (Nat.eqb (pm1 p) (pm2 p)).
  - apply diag_block_sim; auto. intros t Ht. eapply Htix; eauto.
  - apply nondiag_block_sim; auto; intros t Ht; eapply Htix; eauto.
Qed.
End Relabel.
