(* EXTRACT-Z: c08s run_c08s *)
(* EXTRACT-F: c08i frun_c08i *)
(* C08 -- executable entry points.
   c08s : the loop/buffer model of DipSourceMat / DipSource2InternalPotMat run on the *structure* of a geometry as the
          library loaded it (domains, boundaries, oriented meshes, triangle and vertex indices, barrier flags,
          zero-conductivity flags, which domains contain each dipole), instantiated with "provenance sets":
          a value is the set of kernel atoms (dipole key, triangle, component) that flowed into it.  It predicts, for every
          column, which rows can be non-zero and which columns are equal.  The kernel *values* are C16's business.
   c08i : Integrator::integrate on synthetic integrands, float instance (compared with the real template). *)
From Coq Require Import List ZArith Bool Arith.
From OM Require Import Base.Ops Base.Lists Base.Wire Geom.AdaptInt Geom.Sources.
Import ListNotations.
Local Open Scope Z_scope.

(* ---------------- provenance sets: sorted duplicate-free lists of atoms ---------------- *)
Fixpoint pmerge (a : list Z) : list Z -> list Z :=
  fix inner (b : list Z) : list Z :=
    match a, b with
    | [], _ => b
    | _, [] => a
    | x :: a', y :: b' =>
      match Z.compare x y with
      | Lt => x :: pmerge a' b
      | Eq => x :: pmerge a' b'
      | Gt => y :: inner b'
      end
    end.
Definition pnil (a : list Z) : bool := match a with [] => true | _ => false end.
Definition pmul (a b : list Z) : list Z := if pnil a || pnil b then [] else pmerge a b.
Definition pdivv (a b : list Z) : list Z := if pnil a then [] else pmerge a b.
Fixpoint peq (a b : list Z) : bool :=
  match a, b with
  | [], [] => true
  | x :: a', y :: b' => Z.eqb x y && peq a' b'
  | _, _ => false
  end.
Definition PROV : Ops (list Z) :=
  mkOps (list Z) [] [0] pmerge pmerge pmul pdivv (fun a => a) (fun a => a)
        (fun _ _ => false) (fun _ _ => true) peq (fun z => if Z.eqb z 0 then [] else [0])
        (fun a => a) (fun a => a) (fun a b => pmerge a b) [0].

Notation P := (list Z).
Notation Ppt := (pt (F:=P)).

(* encodings: a dipole's position carries (key, ids of the domains containing it, _), a triangle's first point carries
   its serial number *)
Definition atom (key serial j : Z) : Z := 1 + (key * 1048576 + serial) * 4 + j.
Definition dkey (d : dipole (F:=P)) : Z := hd 0 (px (dpos d)).
Definition tserial (t : triangle (F:=P)) : Z := hd 0 (px (t0 (tr_pts t))).
Definition s_contains (dom : domain (F:=P)) (p : Ppt) : bool := existsb (Z.eqb (dm_name dom)) (py p).
Definition s_IDer (d : dipole (F:=P)) (t : triangle (F:=P)) : Ppt :=
  ([atom (dkey d) (tserial t) 0], [atom (dkey d) (tserial t) 1], [atom (dkey d) (tserial t) 2]).
Definition s_IPot (d : dipole (F:=P)) (t : triangle (F:=P)) : P := [atom (dkey d) (tserial t) 3].
Definition s_kpot (d : dipole (F:=P)) (p : Ppt) : P := [atom (dkey d) (hd 0 (px p)) 3].

(* ---- decoding ---- *)
Definition mkpt (a b c : P) : Ppt := (a, b, c).
Definition getTri : dec (triangle (F:=P)) :=
  do i <- getN; do a <- getN; do b <- getN; do c <- getN; do s <- getZ;
  ret (@mkTriangle P i (a, b, c) (mkpt [s] [] [], mkpt [] [] [], mkpt [] [] [])).
Definition getOMesh : dec (omesh (F:=P)) :=
  do ori <- getZ; do bar <- getZ; do n <- getN; do ts <- getMany n getTri;
  ret (@mkOMesh P (@mkMesh P ts (negb (Z.eqb bar 0))) ori).
Definition getBoundary : dec (boundary (F:=P)) :=
  do ins <- getZ; do n <- getN; do oms <- getMany n getOMesh; ret (@mkBoundary P (negb (Z.eqb ins 0)) oms).
Definition getDomain : dec (domain (F:=P)) :=
  do name <- getZ; do c <- getZ; do n <- getN; do bs <- getMany n getBoundary;
  ret (@mkDomain P name (if Z.eqb c 0 then [] else [0]) bs).
Definition getGeo : dec (geometry (F:=P)) :=
  do size <- getN; do n <- getN; do ds <- getMany n getDomain; ret (@mkGeometry P ds size).
Definition getPoint : dec Ppt := do key <- getZ; do cont <- getVec; ret (mkpt [key] cont []).
Definition getDipole : dec (dipole (F:=P)) := do p <- getPoint; ret (p, mkpt [] [] []).
Definition getNamed : dec (option Z) := do n <- getZ; ret (if n <? 0 then None else Some n).

(* ---- output: per column, the index of the first equal column, then its support ---- *)
Fixpoint support (c : list P) (k : Z) : list Z :=
  match c with [] => [] | x :: c' => if pnil x then support c' (k + 1) else k :: support c' (k + 1) end.
Fixpoint coleq (a b : list P) : bool :=
  match a, b with [] , [] => true | x :: a', y :: b' => peq x y && coleq a' b' | _, _ => false end.
Fixpoint first_eq (c : list P) (prev : list (list P)) (k : Z) : Z :=
  match prev with [] => k | p :: prev' => if coleq c p then k else first_eq c prev' (k + 1) end.
Fixpoint out_cols (cols prev : list (list P)) : wire :=
  match cols with
  | [] => []
  | c :: cols' => let s := support c 0 in
                  first_eq c prev 0 :: zn (length s) :: s ++ out_cols cols' (prev ++ [c])
  end.
Definition out_mat (M : option (list (list P))) : wire :=
  match M with
  | None => [ST_OTHER]
  | Some cols => ST_OK :: zn (length cols) :: out_cols cols []
  end.

(* the initial content of rhs_col is arbitrary: use a buffer full of a junk atom to make a missing reset visible *)
Definition junk (n : nat) : list P := repeat [2] n.

Definition run_c08s (w : wire) : wire :=
  match w with
  | 1 :: w =>    (* DipSourceMat *)
    run_dec (do g <- getGeo; do nm <- getNamed; do n <- getN; do ds <- getMany n getDipole; ret (g, nm, ds)) w
      (fun '(g, nm, ds) => out_mat (DSM PROV s_contains s_IDer s_IPot [0] g nm (junk (g_size g)) ds))
  | 2 :: w =>    (* DipSource2InternalPotMat *)
    run_dec (do g <- getGeo; do nm <- getNamed; do np <- getN; do ps <- getMany np getPoint;
             do n <- getN; do ds <- getMany n getDipole; ret (g, nm, ps, ds)) w
      (fun '(g, nm, ps, ds) => out_mat (DS2IP PROV s_contains [0] s_kpot g nm ps ds))
  | 3 :: w =>    (* the model with the reset removed, same inputs as 1 (used to show what the structure check would see) *)
    run_dec (do g <- getGeo; do nm <- getNamed; do n <- getN; do ds <- getMany n getDipole; ret (g, nm, ds)) w
      (fun '(g, nm, ds) => out_mat (DSM_noreset PROV s_contains s_IDer s_IPot [0] g nm (junk (g_size g)) ds))
  | _ => [-1]
  end.

(* ---------------- float instance of the integrator on synthetic integrands ---------------- *)
Section FloatInt.
Context {F : Type} (o : Ops F).
Local Notation "x + y" := (fadd o x y).
Local Notation "x - y" := (fsub o x y).
Local Notation "x * y" := (fmul o x y).
Local Notation "x / y" := (fdiv o x y).
Local Notation Fpt := (pt (F:=F)).

Definition nthF (l : list F) (k : nat) : F := nth k l (f0 o).
(* integrand 0: c0 + c1 x + c2 y + c3 z + c4 x x + c5 x y + c6 z z, evaluated left to right *)
Definition g_poly (c : list F) (r : Fpt) : F :=
  nthF c 0 + nthF c 1 * px r + nthF c 2 * py r + nthF c 3 * pz r + nthF c 4 * px r * px r
  + nthF c 5 * px r * py r + nthF c 6 * pz r * pz r.
(* integrand 1: Dipole::potential  q.(r-r0)/(n2*sqrt(n2)), parameters r0 q *)
Definition g_pot (c : list F) (r : Fpt) : F :=
  let x := psub o r (nthF c 0, nthF c 1, nthF c 2) in
  let q : Fpt := (nthF c 3, nthF c 4, nthF c 5) in
  let n2 := pnorm2 o x in
  (px q * px x + py q * py x + pz q * pz x) / (n2 * fsqrt o n2).
(* integrand 2 (Vect3): potential(r) * (r-r0) *)
Definition g_vec (c : list F) (r : Fpt) : Fpt :=
  let x := psub o r (nthF c 0, nthF c 1, nthF c 2) in
  pscale o (g_pot c r) x.

Fixpoint get_rule (n : nat) (l : list F) : qrule (F:=F) * list F :=
  match n, l with
  | S n', a :: b :: c :: w :: l' => let '(r, rest) := get_rule n' l' in (((a, b, c), w) :: r, rest)
  | _, _ => ([], l)
  end.
Fixpoint rsize (t : rtree) : Z := match t with Leaf => 1 | Node a b c d => 1 + rsize a + rsize b + rsize c + rsize d end.

(* ints: kind depth npts ; floats: rule (4 per point), tol, triangle (9), parameters *)
Definition frun_c08i (zs : list Z) (fs : list F) : list Z * list F :=
  match zs with
  | [kind; depth; npts] =>
    let '(rule, rest) := get_rule (Z.to_nat npts) fs in
    match rest with
    | tol :: a0 :: a1 :: a2 :: b0 :: b1 :: b2 :: c0 :: c1 :: c2 :: par =>
      let t : tri := ((a0, a1, a2), (b0, b1, b2), (c0, c1, c2)) in
      let d := Z.to_nat depth in
      let calls {T} (V : VOps T) (f : Fpt -> T) : Z :=
        match d with O => 0%Z | _ => rsize (adaptive_tree o V rule tol f d t (triangle_integration o V rule f t)) end in
      if Z.eqb kind 0 then ([ST_OK; calls (scalarV o) (g_poly par)], [integrate o (scalarV o) rule tol (g_poly par) d t])
      else if Z.eqb kind 1 then ([ST_OK; calls (scalarV o) (g_pot par)], [integrate o (scalarV o) rule tol (g_pot par) d t])
      else if Z.eqb kind 2 then
        let v := integrate o (vect3V o) rule tol (g_vec par) d t in
        ([ST_OK; calls (vect3V o) (g_vec par)], [px v; py v; pz v])
      else ([-1], [])
    | _ => ([-1], [])
    end
  | _ => ([-1], [])
  end.
End FloatInt.
