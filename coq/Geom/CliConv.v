(* C20 — om_matrix_convert: the formats the generated table makes the conversion use are the documented ones. *)
From Coq Require Import List ZArith String.
From OM Require Import Geom.Cli Gen.GenCli Geom.CliStrings.
Import ListNotations.

Definition opt (argv : list tok) (name : string) : tok := string_value argv (s2t name) [].

(* -i names the input, -o the output; -if forces the input format (otherwise the reader identifies the content);
   -of forces the output format (otherwise the suffix of the OUTPUT name selects it) *)
Definition conv_plan_spec (argv : list tok) : conv_plan :=
  {| cp_in := opt argv "-i";
     cp_in_fmt := (let f := opt argv "-if" in match f with [] => tok_auto | _ => f end);
     cp_out := opt argv "-o";
     cp_out_fmt := (let f := opt argv "-of" in match f with [] => format_of_suffix gen_suffix_formats (opt argv "-o") | _ => f end) |}.

Lemma matrix_convert_plan argv :
  conv_plan_of gen_suffix_formats tool_om_matrix_convert argv = Some (conv_plan_spec argv).
Proof. reflexivity. Qed.

Lemma suffix_table :
  map (fun s => format_of_suffix gen_suffix_formats (s2t s)) ["a.txt"; "b.bin"; "c.mat"; "d.tex"; "e.x.bin"; "noext"; "f.dat"]%string
  = map s2t ["ascii"; "binary"; "matlab"; "tex"; "binary"; ""; ""]%string.
Proof. vm_compute. reflexivity. Qed.
