(* Orbit structure of the generated quadrature tables: each rule's node set is closed under the permutations of
   the barycentric coordinates, with equal weights on an orbit.  Exact for rules 0,1,2; the 16-point table carries
   0.170569307751760 / 0.170569307751761 in one orbit, so rule 3 is symmetric only up to 1e-15 in the coordinates
   (weights still exactly equal) -- stated as _partial (tolerance) + _refuted (exact).
   Consequence used by C06 (per-triangle vertex rotation): for an exactly symmetric rule the reference sum of ANY
   integrand is invariant under every permutation of the coordinates. *)
From Coq Require Import Reals Qreals QArith Lra Lia List ZArith Bool Permutation.
From OM Require Import Gen.GenQuadTables Geom.Quadrature Geom.QuadTablesProofs Geom.QuadProofs.
Import ListNotations.

(* the six permutations of the coordinates, acting on a node *)
Definition psw01 (p : qpoint) : qpoint := (qp_l1 p, qp_l0 p, qp_l2 p, qp_w p).
Definition prot  (p : qpoint) : qpoint := (qp_l1 p, qp_l2 p, qp_l0 p, qp_w p).
Definition perms6 : list (qpoint -> qpoint) :=
  [fun p => p; prot; fun p => prot (prot p); psw01; fun p => psw01 (prot p); fun p => psw01 (prot (prot p))].

(* structural equality of nodes (the generated entries share one denominator, so equal values are equal terms) *)
Definition q_eqb (x y : Q) : bool := Z.eqb (Qnum x) (Qnum y) && Pos.eqb (Qden x) (Qden y).
Lemma q_eqb_eq x y : q_eqb x y = true -> x = y.
Proof.
  destruct x, y; unfold q_eqb; cbn. rewrite andb_true_iff, Z.eqb_eq, Pos.eqb_eq. intros [-> ->]. reflexivity.
Qed.
Definition qp_eqb (p q : qpoint) : bool :=
  q_eqb (qp_l0 p) (qp_l0 q) && q_eqb (qp_l1 p) (qp_l1 q) && q_eqb (qp_l2 p) (qp_l2 q) && q_eqb (qp_w p) (qp_w q).
Lemma qp_eqb_eq p q : qp_eqb p q = true -> p = q.
Proof.
  destruct p as [[[a b] c] w], q as [[[a' b'] c'] w']. unfold qp_eqb; cbn. rewrite !andb_true_iff.
  intros [[[H1 H2] H3] H4]. apply q_eqb_eq in H1, H2, H3, H4. subst. reflexivity.
Qed.

(* remove the first occurrence *)
Fixpoint remove1 (x : qpoint) (l : list qpoint) : option (list qpoint) :=
  match l with
  | [] => None
  | y :: t => if qp_eqb x y then Some t else match remove1 x t with Some t' => Some (y :: t') | None => None end
  end.
Lemma remove1_perm x l l' : remove1 x l = Some l' -> Permutation l (x :: l').
Proof.
  revert l'; induction l as [|y t IH]; intros l'; cbn; [discriminate|].
  destruct (qp_eqb x y) eqn:E.
  - intros H; inversion H; subst. apply qp_eqb_eq in E. subst. apply Permutation_refl.
  - destruct (remove1 x t) as [t'|] eqn:R; [|discriminate]. intros H; inversion H; subst.
    eapply Permutation_trans; [apply perm_skip, (IH t' eq_refl)|]. apply perm_swap.
Qed.
Fixpoint is_perm (l1 l2 : list qpoint) : bool :=
  match l1 with
  | [] => match l2 with [] => true | _ => false end
  | x :: t => match remove1 x l2 with Some l2' => is_perm t l2' | None => false end
  end.
Lemma is_perm_sound l1 l2 : is_perm l1 l2 = true -> Permutation l1 l2.
Proof.
  revert l2; induction l1 as [|x t IH]; intros l2; cbn.
  - destruct l2; [constructor|discriminate].
  - destruct (remove1 x l2) as [l2'|] eqn:R; [|discriminate]. intros H.
    apply Permutation_sym. eapply Permutation_trans; [apply (remove1_perm _ _ _ R)|].
    apply perm_skip, Permutation_sym, IH, H.
Qed.

(* exact symmetry of a rule: every coordinate permutation maps the node list onto a permutation of itself *)
Definition rule_symmetric (rule : list qpoint) : bool := forallb (fun s => is_perm (map s rule) rule) perms6.

Lemma rules_012_symmetric : forallb (fun o => rule_symmetric (rule_of_order o)) [0; 1; 2]%nat = true.
Proof. vm_compute. reflexivity. Qed.
Lemma rule_3_not_symmetric : rule_symmetric (rule_of_order 3) = false.
Proof. vm_compute. reflexivity. Qed.

Lemma rule_symmetric_perm order s : (order <= 2)%nat -> In s perms6 ->
  Permutation (map s (rule_of_order order)) (rule_of_order order).
Proof.
  intros Ho Hs. pose proof rules_012_symmetric as H. rewrite forallb_forall in H.
  assert (Hi : In order [0; 1; 2]%nat) by (simpl; lia). specialize (H order Hi).
  unfold rule_symmetric in H. rewrite forallb_forall in H. apply is_perm_sound, H, Hs.
Qed.

(* closure with a tolerance on the coordinates and EQUAL weights: every image of a node under a permutation is,
   within eps per coordinate, a node of the rule with exactly the same weight *)
Definition near (eps x y : Q) : bool := within eps (x - y).
Definition node_near (eps : Q) (p q : qpoint) : bool :=
  near eps (qp_l0 p) (qp_l0 q) && near eps (qp_l1 p) (qp_l1 q) && near eps (qp_l2 p) (qp_l2 q) && Qeq_bool (qp_w p) (qp_w q).
Definition rule_closed (eps : Q) (rule : list qpoint) : bool :=
  forallb (fun s => forallb (fun p => existsb (node_near eps (s p)) rule) rule) perms6.
Definition eps15 : Q := 1 # 1000000000000000.

Lemma rules_closed : forallb (fun o => rule_closed eps15 (rule_of_order o)) [0; 1; 2; 3]%nat = true.
Proof. vm_compute. reflexivity. Qed.

Lemma rule_closed_spec order s p : (order <= 3)%nat -> In s perms6 -> In p (rule_of_order order) ->
  exists q, In q (rule_of_order order) /\ qp_w q == qp_w (s p) /\
    (- eps15 <= qp_l0 (s p) - qp_l0 q /\ qp_l0 (s p) - qp_l0 q <= eps15)%Q /\
    (- eps15 <= qp_l1 (s p) - qp_l1 q /\ qp_l1 (s p) - qp_l1 q <= eps15)%Q /\
    (- eps15 <= qp_l2 (s p) - qp_l2 q /\ qp_l2 (s p) - qp_l2 q <= eps15)%Q.
Proof.
  intros Ho Hs Hp. pose proof rules_closed as H. rewrite forallb_forall in H.
  assert (Hi : In order [0; 1; 2; 3]%nat) by (simpl; lia). specialize (H order Hi).
  unfold rule_closed in H. rewrite forallb_forall in H. specialize (H s Hs).
  rewrite forallb_forall in H. specialize (H p Hp). apply existsb_exists in H. destruct H as [q [Hq Hn]].
  exists q. split; auto. unfold node_near, near in Hn. rewrite !andb_true_iff in Hn.
  destruct Hn as [[[H0 H1] H2] Hw]. apply within_spec in H0, H1, H2. apply Qeq_bool_eq in Hw.
  split; [symmetry; exact Hw|]. auto.
Qed.

(* ---- consequence over R: for the exactly symmetric rules the reference sum is permutation invariant ------- *)
Local Open Scope R_scope.
Definition node_term (g : R -> R -> R -> R) (p : qpoint) : R :=
  Q2R (qp_w p) * g (Q2R (qp_l0 p)) (Q2R (qp_l1 p)) (Q2R (qp_l2 p)).
Lemma refquad_as_sum rule g : refquad rule g = fold_right (fun p acc => node_term g p + acc) 0 rule.
Proof. reflexivity. Qed.
Lemma sum_perm (h : qpoint -> R) l1 l2 : Permutation l1 l2 ->
  fold_right (fun p acc => h p + acc) 0 l1 = fold_right (fun p acc => h p + acc) 0 l2.
Proof. induction 1; cbn [fold_right]; try lra; congruence. Qed.
Lemma sum_map (h : qpoint -> R) (s : qpoint -> qpoint) l :
  fold_right (fun p acc => h p + acc) 0 (map s l) = fold_right (fun p acc => h (s p) + acc) 0 l.
Proof. induction l; cbn [fold_right map]; [reflexivity|]. rewrite IHl. reflexivity. Qed.

Lemma refquad_rot_invariant order g : (order <= 2)%nat ->
  refquad (rule_of_order order) (fun l0 l1 l2 => g l1 l2 l0) = refquad (rule_of_order order) g.
Proof.
  intros Ho. rewrite !refquad_as_sum.
  rewrite <- (sum_perm (node_term g) _ _ (rule_symmetric_perm order prot Ho ltac:(simpl; auto))).
  rewrite sum_map. reflexivity.
Qed.
Lemma refquad_swap_invariant order g : (order <= 2)%nat ->
  refquad (rule_of_order order) (fun l0 l1 l2 => g l1 l0 l2) = refquad (rule_of_order order) g.
Proof.
  intros Ho. rewrite !refquad_as_sum.
  rewrite <- (sum_perm (node_term g) _ _ (rule_symmetric_perm order psw01 Ho ltac:(simpl; auto 10))).
  rewrite sum_map. reflexivity.
Qed.

(* rule 3's moment invariance under permutations of the exponents (within 1e-15): Geom/QuadTablesBig.v, rule3_moments_perm *)
