(* C15 -- lemmas about the model in MeshCodec.v *)
From OM Require Import Base.Lists Geom.MeshCodec Geom.MeshCodecFast.
From Coq Require Import NArith ZifyBool ZifyNat.
Local Open Scope nat_scope.

(* ------------------------------------------------------------------ generic list facts *)
Lemma NoDup_map_inj_on {A B} (f : A -> B) (l : list A) :
  (forall x y, In x l -> In y l -> f x = f y -> x = y) -> NoDup l -> NoDup (map f l).
Proof.
  induction l as [|a l IH]; intros Hinj Hnd; simpl; [constructor|].
  inversion Hnd as [|? ? Hnin Hnd']; subst. constructor.
  - intros Hin. apply in_map_iff in Hin. destruct Hin as [x [Hfx Hx]].
    assert (x = a) by (apply Hinj; simpl; auto). subst. contradiction.
  - apply IH; auto. intros x y Hx Hy. apply Hinj; simpl; auto.
Qed.

Lemma NoDup_snoc {A} (l : list A) x : NoDup l -> ~ In x l -> NoDup (l ++ [x]).
Proof.
  induction l as [|a l IH]; intros Hnd Hn; simpl; [constructor; auto; constructor|].
  inversion Hnd; subst. constructor.
  - intros Hi. apply in_app_or in Hi. destruct Hi as [Hi|[<-|[]]]; auto. apply Hn; simpl; auto.
  - apply IH; auto. intros Hi; apply Hn; simpl; auto.
Qed.

Lemma Forall2_len {A B} (R : A -> B -> Prop) l1 l2 : Forall2 R l1 l2 -> length l1 = length l2.
Proof. induction 1; simpl; auto. Qed.

Lemma map_nth_seq {A} (l : list A) d : map (fun g => nth g l d) (seq 0 (length l)) = l.
Proof.
  induction l as [|a l IH] using rev_ind; simpl; auto.
  rewrite app_length; simpl. rewrite Nat.add_1_r, seq_S, map_app; simpl.
  rewrite app_nth2, Nat.sub_diag by lia; simpl. f_equal.
  rewrite <- IH at 2. apply map_ext_in. intros g Hg. apply in_seq in Hg. rewrite app_nth1; auto; lia.
Qed.

(* ------------------------------------------------------------------ last_pos / vpos *)
Lemma last_pos_notin l g p acc : ~ In g l -> last_pos l g p acc = acc.
Proof.
  revert p acc; induction l as [|h t IH]; intros p acc Hn; simpl; auto.
  destruct (Nat.eqb_spec h g) as [-> | Hne]; [exfalso; apply Hn; simpl; auto|].
  apply IH. intros Hi; apply Hn; simpl; auto.
Qed.

Lemma last_pos_nodup l : forall g p acc k d, NoDup l -> k < length l -> nth k l d = g ->
  last_pos l g p acc = Some (p + k).
Proof.
  induction l as [|h t IH]; intros g p acc k d Hnd Hk Hg; simpl in *; [lia|].
  inversion Hnd as [|? ? Hnin Hnd']; subst.
  destruct k as [|k].
  - rewrite Nat.eqb_refl. rewrite last_pos_notin; auto.
  - assert (Hin : In (nth k t d) t) by (apply nth_In; lia).
    destruct (Nat.eqb_spec h (nth k t d)) as [He|Hne]; [rewrite He in Hnin; contradiction|].
    rewrite (IH (nth k t d) (S p) acc k d); auto; try lia. f_equal; lia.
Qed.

Lemma vpos_nodup l k d : NoDup l -> k < length l -> vpos l (nth k l d) = Some k.
Proof. intros. unfold vpos. rewrite (last_pos_nodup l _ 0 None k d); auto. Qed.

Lemma vpos_seq n k : k < n -> vpos (seq 0 n) k = Some k.
Proof.
  intros H. pose proof (vpos_nodup (seq 0 n) k 0 (seq_NoDup n 0)) as Hv.
  rewrite seq_length, seq_nth in Hv; auto.
Qed.

Lemma last_pos_range l : forall g p acc q, last_pos l g p acc = Some q ->
  acc = Some q \/ (p <= q < p + length l /\ nth (q - p) l 0 = g).
Proof.
  induction l as [|h t IH]; intros g p acc q H; simpl in *; auto.
  apply IH in H. destruct H as [H|[H1 H2]].
  - destruct (Nat.eqb_spec h g) as [-> | Hne]; auto.
    inversion H; subst. right. split; [lia|]. rewrite Nat.sub_diag; auto.
  - right. split; [lia|]. replace (q - p) with (S (q - S p)) by lia. auto.
Qed.

Lemma vpos_lt l g p : vpos l g = Some p -> p < length l.
Proof. intros H. apply last_pos_range in H. destruct H as [H|[H _]]; [discriminate|lia]. Qed.

(* the total renumbering function behind VertexIndices *)
Definition locf (l : list nat) (g : nat) : nat := match vpos l g with Some p => p | None => 0 end.
Definition tri_map (f : nat -> nat) (t : tri) : tri := let '(a, b, c) := t in (f a, f b, f c).
Definition edge_map (f : nat -> nat) (e : edge) : edge := (f (fst e), f (snd e)).

Lemma vpos_in l g : NoDup l -> In g l -> exists k, k < length l /\ nth k l 0 = g /\ vpos l g = Some k.
Proof.
  intros Hnd Hin. destruct (In_nth l g 0 Hin) as [k [Hk Hn]].
  exists k; repeat split; auto. rewrite <- Hn. apply vpos_nodup; auto.
Qed.

Lemma locf_inj l x y : NoDup l -> In x l -> In y l -> locf l x = locf l y -> x = y.
Proof.
  intros Hnd Hx Hy. unfold locf.
  destruct (vpos_in l x Hnd Hx) as [k [_ [Hk ->]]].
  destruct (vpos_in l y Hnd Hy) as [j [_ [Hj ->]]].
  intros ->. congruence.
Qed.

(* ------------------------------------------------------------------ map_tris *)
Lemma map_tris_total (f : nat -> option nat) (f' : nat -> nat) ts :
  (forall t g, In t ts -> In g (tverts t) -> f g = Some (f' g)) ->
  map_tris f ts = Some (map (tri_map f') ts).
Proof.
  induction ts as [|[[a b] c] r IH]; intros H; simpl; auto.
  rewrite (H (a, b, c) a), (H (a, b, c) b), (H (a, b, c) c); simpl; auto.
  rewrite IH; auto. intros t g Ht Hg. apply (H t g); simpl; auto.
Qed.

Lemma map_tris_id (f : nat -> option nat) ts :
  (forall t g, In t ts -> In g (tverts t) -> f g = Some g) -> map_tris f ts = Some ts.
Proof.
  intros H. rewrite (map_tris_total f (fun g => g)); auto.
  f_equal. induction ts as [|[[a b] c] r IH]; simpl; auto. f_equal. apply IH.
  intros t g Ht Hg. apply (H t g); simpl; auto.
Qed.

Lemma map_tris_length f ts ts' : map_tris f ts = Some ts' -> length ts' = length ts.
Proof.
  revert ts'; induction ts as [|t r IH]; intros ts' H; simpl in *.
  - inversion H; auto.
  - destruct (map_tri f t); simpl in H; [|discriminate].
    destruct (map_tris f r) eqn:E; simpl in H; [|discriminate]. inversion H; subst; simpl. f_equal; auto.
Qed.

Lemma dedges_map f t : dedges (tri_map f t) = map (edge_map f) (dedges t).
Proof. destruct t as [[a b] c]; reflexivity. Qed.

Lemma edges_map f ts : flat_map dedges (map (tri_map f) ts) = map (edge_map f) (flat_map dedges ts).
Proof.
  induction ts as [|t r IH]; simpl; auto. rewrite map_app, dedges_map, IH; auto.
Qed.

Lemma tverts_map f t : tverts (tri_map f t) = map f (tverts t).
Proof. destruct t as [[a b] c]; reflexivity. Qed.

Lemma edge_verts t e : In e (dedges t) -> In (fst e) (tverts t) /\ In (snd e) (tverts t).
Proof.
  destruct t as [[a b] c]; simpl. intros [<-|[<-|[<-|[]]]]; simpl; auto.
Qed.

(* ------------------------------------------------------------------ orientation check *)
Definition cnt (k : edge) (es : list edge) : nat := length (filter (peqb k) es).

Lemma peqb_eq p q : peqb p q = true <-> p = q.
Proof.
  destruct p as [a b], q as [c d]; unfold peqb; simpl. rewrite andb_true_iff, !Nat.eqb_eq.
  split; [intros [-> ->]; auto | intros H; inversion H; auto].
Qed.

Lemma cnt_notin k es : ~ In k es -> cnt k es = 0.
Proof.
  unfold cnt. induction es as [|e r IH]; intros Hn; simpl; auto.
  destruct (peqb k e) eqn:E.
  - apply peqb_eq in E. subst. exfalso; apply Hn; simpl; auto.
  - apply IH. intros Hi; apply Hn; simpl; auto.
Qed.

Lemma cnt_nodup k es : NoDup es -> cnt k es <= 1.
Proof.
  induction es as [|e r IH]; intros Hnd; simpl; [unfold cnt; simpl; lia|].
  inversion Hnd as [|? ? Hnin Hnd']; subst. unfold cnt in *; simpl.
  destruct (peqb k e) eqn:E; auto.
  apply peqb_eq in E; subst. simpl. fold (cnt e r). rewrite cnt_notin; auto.
Qed.

Lemma contrib_bounds ix e k :
  (- (if peqb (snd k, fst k) e then 1 else 0) <= (let (k', s) := ekey ix e in if peqb k' k then s else 0)
   <= (if peqb k e then 1 else 0))%Z.
Proof.
  destruct e as [a b], k as [k1 k2]. unfold ekey, peqb; simpl.
  rewrite (Nat.eqb_sym k2 a), (Nat.eqb_sym k1 b), (Nat.eqb_sym k1 a), (Nat.eqb_sym k2 b).
  destruct (ix b <? ix a)%N; simpl;
  destruct (Nat.eqb_spec a k1), (Nat.eqb_spec b k2), (Nat.eqb_spec a k2), (Nat.eqb_spec b k1); simpl; lia.
Qed.

Lemma eval_bounds ix es k :
  (- Z.of_nat (cnt (snd k, fst k) es) <= eval ix es k <= Z.of_nat (cnt k es))%Z.
Proof.
  unfold eval, cnt. induction es as [|e r IH]; simpl; [lia|].
  pose proof (contrib_bounds ix e k) as Hc.
  destruct (peqb (snd k, fst k) e), (peqb k e); simpl length; lia.
Qed.

Lemma hco_consistent ix ts : NoDup (flat_map dedges ts) -> hco_tr ix ts = true.
Proof.
  intros Hnd. unfold hco_tr. apply forallb_forall. intros e _.
  set (k := fst (ekey ix e)).
  pose proof (eval_bounds ix (flat_map dedges ts) k) as Hb.
  pose proof (cnt_nodup k _ Hnd). pose proof (cnt_nodup (snd k, fst k) _ Hnd).
  apply negb_true_iff. apply Z.eqb_neq. lia.
Qed.

Lemma correct_local_consistent ix ts : NoDup (flat_map dedges ts) -> correct_local ix ts = ts.
Proof. intros H. unfold correct_local. rewrite hco_fast_eq, hco_consistent; auto. Qed.

(* the flood fill only ever swaps the first two vertices of a triangle *)
Definition same_or_flipped (t t' : tri) : Prop := t' = t \/ t' = flip t.

Lemma flip_flip t : flip (flip t) = t.
Proof. destruct t as [[a b] c]; reflexivity. Qed.

Lemma sof_refl l : Forall2 same_or_flipped l l.
Proof. induction l; constructor; auto. left; auto. Qed.

Lemma sof_trans l1 l2 l3 : Forall2 same_or_flipped l1 l2 -> Forall2 same_or_flipped l2 l3 -> Forall2 same_or_flipped l1 l3.
Proof.
  intros H; revert l3; induction H as [|a b l1 l2 Hab H IH]; intros l3 H3; inversion H3; subst; constructor; auto.
  destruct Hab as [-> | ->]; auto.
  match goal with H : same_or_flipped (flip a) _ |- _ => destruct H as [-> | ->] end; [right; auto|left; apply flip_flip].
Qed.

Lemma sof_upd ts i : Forall2 same_or_flipped ts (upd ts i (flip (tnth ts i))).
Proof.
  revert i; induction ts as [|t r IH]; intros i; simpl; [constructor|].
  destruct i; simpl.
  - constructor; [right; auto | apply sof_refl].
  - constructor; [left; auto|]. apply IH.
Qed.

Lemma visit_adj_sof e1 adj : forall stk vis ts,
  Forall2 same_or_flipped ts (snd (visit_adj e1 adj (stk, vis, ts))).
Proof.
  induction adj as [|tp r IH]; intros stk vis ts; simpl; [apply sof_refl|].
  destruct (existsb (Nat.eqb tp) vis); [apply IH|].
  destruct (has_same_edge e1 (dedges (tnth ts tp))); [|apply IH].
  eapply sof_trans; [apply sof_upd|apply IH].
Qed.

Lemma fill_sof fuel : forall stk vis ts, Forall2 same_or_flipped ts (fill fuel stk vis ts).
Proof.
  induction fuel as [|f IH]; intros stk vis ts; simpl; [destruct stk; apply sof_refl|].
  destruct stk as [|t1 stk']; [apply sof_refl|].
  pose proof (visit_adj_sof (dedges (tnth ts t1)) (adjacent ts (tnth ts t1)) stk' vis ts) as H.
  destruct (visit_adj _ _ _) as [[stk2 vis2] ts2]; simpl in H.
  eapply sof_trans; [exact H|apply IH].
Qed.

Lemma correct_local_sof ix ts : Forall2 same_or_flipped ts (correct_local ix ts).
Proof.
  unfold correct_local. destruct (hco_fast ix ts); [apply sof_refl|].
  destruct ts; [apply sof_refl|apply fill_sof].
Qed.

(* ------------------------------------------------------------------ fits32 *)
Lemma fits32_lt a n : a < n -> fits32 n = true -> fits32 a = true.
Proof. unfold fits32. intros H Hn. apply N.ltb_lt in Hn. apply N.ltb_lt. lia. Qed.

Section Proofs.
Variable C : Type.
Variable ceq : C -> C -> bool.
Variable rnd : C -> C.
Variable c0 : C.

Notation V3 := (V3 C).
Notation veq := (veq C ceq).
Notation vrnd := (vrnd C rnd).
Notation mesh := (mesh C).
Notation v0 := (v0 C c0).

(* vertices are pairwise different for operator== *)
Fixpoint pdistinct (vs : list V3) : Prop :=
  match vs with
  | [] => True
  | v :: r => (forall u, In u r -> veq v u = false) /\ pdistinct r
  end.

Lemma find_v_none g v : (forall u, In u g -> veq u v = false) -> find_v C ceq g v = None.
Proof.
  induction g as [|h t IH]; intros H; simpl; auto.
  rewrite (H h) by (simpl; auto). rewrite IH; auto. intros u Hu; apply H; simpl; auto.
Qed.

Lemma add_vertices_distinct vs : forall g,
  (forall u v, In u g -> In v vs -> veq u v = false) -> pdistinct vs ->
  add_vertices C ceq g vs = (g ++ vs, seq (length g) (length vs)).
Proof.
  induction vs as [|v r IH]; intros g Hg Hd; simpl.
  - rewrite app_nil_r; auto.
  - destruct Hd as [Hv Hd]. unfold add_vertex.
    rewrite find_v_none by (intros u Hu; apply Hg; simpl; auto).
    rewrite IH; auto.
    + rewrite <- app_assoc, app_length; simpl. repeat f_equal. lia.
    + intros u w Hu Hw. apply in_app_or in Hu. destruct Hu as [Hu|[<-|[]]]; [apply Hg; simpl; auto|apply Hv; auto].
Qed.

(* the geometry never holds two vertices equal for operator== *)
Definition geom_distinct (g : list V3) : Prop := forall i j, i < j < length g -> veq (nth i g v0) (nth j g v0) = false.

Lemma find_v_spec g v : match find_v C ceq g v with
                        | Some i => i < length g /\ veq (nth i g v0) v = true
                        | None => forall u, In u g -> veq u v = false end.
Proof.
  induction g as [|h t IH]; simpl; [intros u []|].
  destruct (veq h v) eqn:E; [split; [lia|auto]|].
  destruct (find_v C ceq t v); simpl.
  - destruct IH; split; [lia|auto].
  - intros u [<-|Hu]; auto.
Qed.

Lemma add_vertex_distinct g v : geom_distinct g -> geom_distinct (fst (add_vertex C ceq g v)).
Proof.
  intros Hg. unfold add_vertex. pose proof (find_v_spec g v) as Hs.
  destruct (find_v C ceq g v); simpl; auto.
  intros i j Hij. rewrite app_length in Hij; simpl in Hij.
  destruct (Nat.eq_dec j (length g)) as [-> | Hne].
  - rewrite app_nth1 by lia. rewrite app_nth2, Nat.sub_diag by lia; simpl. apply Hs. apply nth_In; lia.
  - rewrite !app_nth1 by lia. apply Hg; lia.
Qed.

Lemma add_vertex_stored g v : let (g', i) := add_vertex C ceq g v in
  i < length g' /\ (nth i g' v0 = v \/ veq (nth i g' v0) v = true) /\ exists ext, g' = g ++ ext.
Proof.
  unfold add_vertex. pose proof (find_v_spec g v) as Hs.
  destruct (find_v C ceq g v).
  - destruct Hs. repeat split; auto. exists []. rewrite app_nil_r; auto.
  - rewrite app_length; simpl. repeat split; [lia| |exists [v]; auto].
    left. rewrite app_nth2, Nat.sub_diag by lia; auto.
Qed.

(* ------------------------------------------------------------------ what a reader builds from a writer's data *)
Lemma nth_error_seq n k : k < n -> nth_error (seq 0 n) k = Some k.
Proof.
  intros H. rewrite (nth_error_nth' (seq 0 n) 0) by (rewrite seq_length; auto). rewrite seq_nth; auto.
Qed.

Lemma update_consistent (m : mesh) : NoDup (flat_map dedges (tr m)) -> update m = m.
Proof. intros H. unfold update. rewrite correct_local_consistent; auto. destruct m; auto. Qed.

Lemma build_roundtrip vs lt :
  pdistinct vs ->
  (forall t g, In t lt -> In g (tverts t) -> g < length vs) ->
  NoDup (flat_map dedges lt) ->
  build C ceq vs lt = Ok (mkMesh vs (seq 0 (length vs)) lt).
Proof.
  intros Hd Hlt Hnd. unfold build.
  rewrite add_vertices_distinct; auto; [|intros u v []]. simpl.
  rewrite map_tris_id by (intros t g Ht Hg; apply nth_error_seq; eauto).
  rewrite (update_consistent (mkMesh _ _ lt)) by auto. rewrite update_consistent; auto.
Qed.

(* ------------------------------------------------------------------ well-formed meshes and their local numbering *)
Definition wf_mesh (m : mesh) : Prop :=
  NoDup (mv m) /\ forall t g, In t (tr m) -> In g (tverts t) -> In g (mv m).
Definition locally_consistent (m : mesh) : Prop := NoDup (flat_map dedges (tr m)).

Lemma local_triangles_wf m : wf_mesh m -> local_triangles m = Some (map (tri_map (locf (mv m))) (tr m)).
Proof.
  intros [Hnd Hin]. unfold local_triangles. apply map_tris_total.
  intros t g Ht Hg. rewrite vpos_t_eq. unfold locf.
  destruct (vpos_in (mv m) g Hnd (Hin t g Ht Hg)) as [k [_ [_ ->]]]; auto.
Qed.

Lemma local_lt m t g : wf_mesh m -> In t (map (tri_map (locf (mv m))) (tr m)) -> In g (tverts t) -> g < nv m.
Proof.
  intros [Hnd Hin] Ht Hg. apply in_map_iff in Ht. destruct Ht as [t0 [<- Ht0]].
  rewrite tverts_map in Hg. apply in_map_iff in Hg. destruct Hg as [g0 [<- Hg0]].
  unfold locf. destruct (vpos_in (mv m) g0 Hnd (Hin t0 g0 Ht0 Hg0)) as [k [Hk [_ ->]]]. exact Hk.
Qed.

Lemma local_consistent m : wf_mesh m -> locally_consistent m ->
  NoDup (flat_map dedges (map (tri_map (locf (mv m))) (tr m))).
Proof.
  intros [Hnd Hin] Hc. rewrite edges_map. apply NoDup_map_inj_on; auto.
  assert (Hv : forall e, In e (flat_map dedges (tr m)) -> In (fst e) (mv m) /\ In (snd e) (mv m)).
  { intros e He. apply in_flat_map in He. destruct He as [t [Ht He]].
    destruct (edge_verts t e He). split; eapply Hin; eauto. }
  intros [a b] [c d] Hx Hy H. unfold edge_map in H; simpl in H. inversion H.
  destruct (Hv _ Hx), (Hv _ Hy); simpl in *.
  f_equal; eapply locf_inj; eauto.
Qed.

(* ------------------------------------------------------------------ token readers on writer output *)
Notation tok := (tok C).

Lemma rd_word_hit k (r : list tok) : rd_word C k (TW k :: r) = Some r.
Proof. unfold rd_word; simpl. rewrite Nat.eqb_refl; auto. Qed.
Lemma rd_nat_hit n (r : list tok) : fits32 n = true -> rd_nat C (TNum n :: r) = Some (n, r).
Proof. intros H. unfold rd_nat; simpl. rewrite H; auto. Qed.
Lemma rd_nat_nl (r : list tok) : rd_nat C (TNL :: r) = rd_nat C r.
Proof. reflexivity. Qed.
Lemma rd_word_nl k (r : list tok) : rd_word C k (TNL :: r) = rd_word C k r.
Proof. reflexivity. Qed.

Definition nls (j : nat) : list tok := repeat TNL j.

Lemma skip_ws_nls j (r : list tok) : skip_ws C (nls j ++ r) = skip_ws C r.
Proof. induction j; simpl; auto. Qed.
Lemma skipc_nls j (r : list tok) : skipc C false (nls j ++ r) = skipc C false r.
Proof. induction j; simpl; auto. Qed.
Lemma rd_nat_nls j (r : list tok) : rd_nat C (nls j ++ r) = rd_nat C r.
Proof. unfold rd_nat. rewrite skip_ws_nls; auto. Qed.
Lemma rd_word_nls k j (r : list tok) : rd_word C k (nls j ++ r) = rd_word C k r.
Proof. unfold rd_word. rewrite skip_ws_nls; auto. Qed.
Lemma rd_str_nls j (r : list tok) : rd_str C (nls j ++ r) = rd_str C r.
Proof. unfold rd_str. rewrite skip_ws_nls; auto. Qed.
Lemma rd_v3_nls j (r : list tok) : rd_v3 C (nls j ++ r) = rd_v3 C r.
Proof. unfold rd_v3, rd_coord. rewrite skip_ws_nls; auto. Qed.

Lemma rd_vlines_ok sc nn vs : forall rest j, exists j',
  rd_vlines C sc nn (length vs) (nls j ++ flat_map (vline C rnd nn) vs ++ rest) = Some (map vrnd vs, nls j' ++ rest).
Proof.
  induction vs as [|v r IH]; intros rest j; simpl; [exists j; auto|].
  destruct v as [[x y] z]. unfold vline at 1; simpl.
  set (tail := (((if nn then [TNrm; TNrm; TNrm] else []) ++ [TNL]) ++ flat_map (vline C rnd nn) r) ++ rest).
  assert (Hv : rd_v3 C (if sc then skipc C false (nls j ++ TC (rnd x) :: TC (rnd y) :: TC (rnd z) :: tail)
                        else nls j ++ TC (rnd x) :: TC (rnd y) :: TC (rnd z) :: tail) = Some ((rnd x, rnd y, rnd z), tail)).
  { destruct sc; [rewrite skipc_nls | rewrite rd_v3_nls]; reflexivity. }
  rewrite Hv. cbn [obind].
  assert (Ht : tail = (if nn then [TNrm; TNrm; TNrm] else []) ++ TNL :: flat_map (vline C rnd nn) r ++ rest)
    by (subst tail; rewrite <- !app_assoc; reflexivity).
  rewrite Ht. destruct (IH rest 1) as [j' Hj']. exists j'. simpl in Hj'.
  destruct nn; simpl app; [unfold rd_nrm3, rd_nrm; simpl|]; cbn [obind]; rewrite Hj'; auto.
Qed.

Lemma rd_tlines_ok sc lead n ts : forall rest j,
  fits32 n = true -> (forall t g, In t ts -> In g (tverts t) -> g < n) ->
  exists j', rd_tlines C sc lead (length ts) (nls j ++ flat_map (tline C lead) ts ++ rest) = Some (ts, nls j' ++ rest).
Proof.
  intros rest j Hn. revert rest j.
  induction ts as [|t r IH]; intros rest j Hlt; simpl; [exists j; auto|].
  destruct t as [[a b] c].
  assert (Ha : fits32 a = true) by (eapply fits32_lt; [apply (Hlt (a, b, c) a)|auto]; simpl; auto).
  assert (Hb : fits32 b = true) by (eapply fits32_lt; [apply (Hlt (a, b, c) b)|auto]; simpl; auto).
  assert (Hc : fits32 c = true) by (eapply fits32_lt; [apply (Hlt (a, b, c) c)|auto]; simpl; auto).
  destruct (IH rest 1) as [j' Hj']. { intros t g Ht Hg; apply (Hlt t g); simpl; auto. }
  exists j'. simpl in Hj'.
  unfold tline at 1. destruct lead; simpl.
  - replace (rd_nat C (if sc then _ else _)) with
      (Some (3, @TNum C a :: TNum b :: TNum c :: TNL :: flat_map (tline C true) r ++ rest))
      by (destruct sc; [rewrite skipc_nls|rewrite rd_nat_nls]; reflexivity).
    simpl. rewrite rd_nat_hit by auto; simpl. rewrite rd_nat_hit by auto; simpl. rewrite rd_nat_hit by auto; simpl.
    rewrite Hj'; auto.
  - replace (rd_nat C (if sc then _ else _)) with
      (Some (a, @TNum C b :: TNum c :: TNL :: flat_map (tline C false) r ++ rest)).
    2:{ destruct sc; [rewrite skipc_nls|rewrite rd_nat_nls]; simpl; rewrite rd_nat_hit; auto. }
    simpl. rewrite rd_nat_hit by auto; simpl. rewrite rd_nat_hit by auto; simpl.
    rewrite Hj'; auto.
Qed.


(* ------------------------------------------------------------------ round trips *)
Definition reloaded (m : mesh) : mesh :=
  mkMesh (map vrnd (coords C c0 m)) (seq 0 (nv m)) (map (tri_map (locf (mv m))) (tr m)).

Lemma coords_length (m : mesh) : length (coords C c0 m) = nv m.
Proof. unfold coords, nv. apply map_length. Qed.

Lemma rt_build (m : mesh) : wf_mesh m -> pdistinct (map vrnd (coords C c0 m)) -> locally_consistent m ->
  build C ceq (map vrnd (coords C c0 m)) (map (tri_map (locf (mv m))) (tr m)) = Ok (reloaded m).
Proof.
  intros Hwf Hd Hc. rewrite build_roundtrip; auto.
  - unfold reloaded. rewrite map_length, coords_length; auto.
  - intros t g Ht Hg. rewrite map_length, coords_length. eapply local_lt; eauto.
  - apply local_consistent; auto.
Qed.

Lemma lt_length (m : mesh) : length (map (tri_map (locf (mv m))) (tr m)) = nt m.
Proof. apply map_length. Qed.

Lemma roundtrip_tri (m : mesh) :
  wf_mesh m -> fits32 (nv m) = true -> fits32 (nt m) = true ->
  pdistinct (map vrnd (coords C c0 m)) -> locally_consistent m ->
  exists s, save_tri C rnd c0 m = Ok s /\ load_tri C ceq s = Ok (reloaded m).
Proof.
  intros Hwf Hnv Hnt Hd Hc. unfold save_tri. rewrite local_triangles_wf by auto.
  eexists; split; [reflexivity|]. unfold load_tri, parse_tri.
  set (LT := map (tri_map (locf (mv m))) (tr m)).
  cbn [app]. rewrite rd_word_hit. cbn [obind]. rewrite rd_nat_hit by auto. cbn [obind].
  match goal with |- context [flat_map (vline C rnd true) _ ++ ?R] =>
    destruct (rd_vlines_ok false true (coords C c0 m) R 1) as [j Hj] end.
  rewrite coords_length in Hj. cbn [nls repeat app] in Hj. rewrite Hj. cbn [obind app].
  rewrite rd_word_nls, rd_word_hit. cbn [obind].
  rewrite !rd_nat_hit by auto. cbn [obind]. rewrite rd_nat_hit by auto. cbn [obind]. rewrite rd_nat_hit by auto. cbn [obind].
  destruct (rd_tlines_ok false false (nv m) LT [] 1 Hnv) as [j2 Hj2].
  { intros t g Ht Hg. eapply local_lt; eauto. }
  unfold LT at 1 in Hj2. rewrite lt_length in Hj2. fold LT in Hj2. rewrite app_nil_r in Hj2. cbn [nls repeat app] in Hj2.
  rewrite Hj2. cbn [obind parsed]. apply rt_build; auto.
Qed.

Lemma roundtrip_off (m : mesh) :
  wf_mesh m -> fits32 (nv m) = true -> fits32 (nt m) = true ->
  pdistinct (map vrnd (coords C c0 m)) -> locally_consistent m ->
  exists s, save_off C rnd c0 m = Ok s /\ load_off C ceq s = Ok (reloaded m).
Proof.
  intros Hwf Hnv Hnt Hd Hc. unfold save_off. rewrite local_triangles_wf by auto.
  eexists; split; [reflexivity|]. unfold load_off, parse_off.
  set (LT := map (tri_map (locf (mv m))) (tr m)).
  cbn [app]. unfold rd_str at 1. cbn [skip_ws obind skipc].
  rewrite rd_nat_hit by auto. cbn [obind]. rewrite rd_nat_hit by auto. cbn [obind].
  rewrite rd_nat_hit by reflexivity. cbn [obind].
  destruct (rd_tlines_ok false true (nv m) LT [] 1 Hnv) as [j2 Hj2].
  { intros t g Ht Hg. eapply local_lt; eauto. }
  unfold LT at 1 in Hj2. rewrite lt_length in Hj2. fold LT in Hj2. rewrite app_nil_r in Hj2.
  destruct (rd_vlines_ok false false (coords C c0 m) (flat_map (tline C true) LT) 1) as [j Hj].
  rewrite coords_length in Hj. cbn [nls repeat app] in Hj. rewrite Hj. cbn [obind].
  destruct (rd_tlines_ok false true (nv m) LT [] j Hnv) as [j3 Hj3].
  { intros t g Ht Hg. eapply local_lt; eauto. }
  unfold LT at 1 in Hj3. rewrite lt_length in Hj3. fold LT in Hj3. rewrite app_nil_r in Hj3.
  rewrite Hj3. cbn [obind parsed]. apply rt_build; auto.
Qed.


Lemma rd_str_hit (t : tok) r : t <> TNL -> rd_str C (t :: r) = Some (t, r).
Proof. intros H. unfold rd_str. destruct t; simpl; auto. congruence. Qed.

Local Arguments fits32 : simpl never.
Local Arguments rd_nat : simpl never.
Local Arguments rd_str : simpl never.
Local Arguments rd_vlines : simpl never.
Local Arguments rd_tlines : simpl never.
Local Arguments build : simpl never.

Lemma roundtrip_bnd (m : mesh) :
  wf_mesh m -> fits32 (nv m) = true -> fits32 (nt m) = true ->
  pdistinct (map vrnd (coords C c0 m)) -> locally_consistent m ->
  exists s, save_bnd C rnd c0 m = Ok s /\ load_bnd C ceq s = Ok (reloaded m).
Proof.
  intros Hwf Hnv Hnt Hd Hc. unfold save_bnd. rewrite local_triangles_wf by auto.
  eexists; split; [reflexivity|]. unfold load_bnd, load_bnd_parse.
  set (LT := map (tri_map (locf (mv m))) (tr m)).
  simpl. repeat (first [rewrite rd_str_hit by discriminate | rewrite rd_nat_hit by auto]; simpl).
  match goal with |- context [flat_map (vline C rnd false) _ ++ ?R] =>
    destruct (rd_vlines_ok true false (coords C c0 m) R 1) as [j Hj] end.
  rewrite coords_length in Hj. simpl in Hj. rewrite Hj. simpl.
  rewrite skipc_nls. simpl.
  repeat (first [rewrite rd_str_hit by discriminate | rewrite rd_nat_hit by auto]; simpl).
  destruct (rd_tlines_ok true false (nv m) LT [] 1 Hnv) as [j2 Hj2].
  { intros t g Ht Hg. eapply local_lt; eauto. }
  unfold LT at 1 in Hj2. rewrite lt_length in Hj2. fold LT in Hj2. rewrite app_nil_r in Hj2. simpl in Hj2.
  rewrite Hj2. simpl. apply rt_build; auto.
Qed.



(* ------------------------------------------------------------------ add_vertices without any premise on the points *)
Lemma add_vertices_spec vs : forall g, geom_distinct g ->
  let (g', im) := add_vertices C ceq g vs in
  geom_distinct g' /\ length im = length vs /\ (exists ext, g' = g ++ ext) /\
  forall k, k < length vs -> nth k im 0 < length g' /\
    (nth (nth k im 0) g' v0 = nth k vs v0 \/ veq (nth (nth k im 0) g' v0) (nth k vs v0) = true).
Proof.
  induction vs as [|v r IH]; intros g Hg; simpl.
  - split; [auto|split; [auto|split; [exists []; rewrite app_nil_r; auto|intros k Hk; simpl in Hk; lia]]].
  - pose proof (add_vertex_distinct g v Hg) as Hd. pose proof (add_vertex_stored g v) as Hs.
    destruct (add_vertex C ceq g v) as [g1 i]. simpl in Hd. destruct Hs as [Hi [Hst [ext1 He1]]].
    specialize (IH g1 Hd). destruct (add_vertices C ceq g1 r) as [g2 im].
    destruct IH as [D2 [L2 [[ext2 He2] K2]]].
    split; auto. split; [simpl; auto|]. split; [exists (ext1 ++ ext2); rewrite app_assoc, <- He1; auto|].
    intros k Hk. destruct k as [|k']; simpl.
    + subst g2. rewrite app_length. split; [lia|]. rewrite app_nth1 by auto. auto.
    + apply K2. lia.
Qed.


(* points of one file (or of a file and of the geometry as it is) that are equal for operator== become ONE vertex:
   the premise-free counterpart of mesh_roundtrip (operator== assumed to be an equivalence, as it is on numbers) *)
Lemma repeated_points_merge vs g :
  (forall a, veq a a = true) -> (forall a b, veq a b = true -> veq b a = true) ->
  (forall a b c, veq a b = true -> veq b c = true -> veq a c = true) ->
  geom_distinct g ->
  forall i j, i < length vs -> j < length vs -> veq (nth i vs v0) (nth j vs v0) = true ->
  nth i (snd (add_vertices C ceq g vs)) 0 = nth j (snd (add_vertices C ceq g vs)) 0.
Proof.
  intros Hrefl Hsym Htr Hg i j Hi Hj Hij.
  pose proof (add_vertices_spec vs g Hg) as H. destruct (add_vertices C ceq g vs) as [g' im]. simpl.
  destruct H as [D [_ [_ K]]]. destruct (K i Hi) as [Li Si]. destruct (K j Hj) as [Lj Sj].
  set (p := nth i im 0) in *. set (q := nth j im 0) in *.
  assert (Ei : veq (nth p g' v0) (nth i vs v0) = true) by (destruct Si as [->|]; auto).
  assert (Ej : veq (nth q g' v0) (nth j vs v0) = true) by (destruct Sj as [->|]; auto).
  assert (Epq : veq (nth p g' v0) (nth q g' v0) = true) by (eapply Htr; [eapply Htr; eauto|apply Hsym; auto]).
  destruct (Nat.lt_trichotomy p q) as [Hlt|[Heq|Hgt]]; auto.
  - rewrite (D p q) in Epq by lia. discriminate.
  - apply Hsym in Epq. rewrite (D q p) in Epq by lia. discriminate.
Qed.


(* ------------------------------------------------------------------ the writers do not read Vertex::index() *)
(* A mesh together with the index field of its vertices (Vertex::index(): set by Mesh::generate_indices to the position in
   vertices(), by Geometry::generate_indices to a geometry-wide number, unset before the first update).  The writers number
   the vertices by their position in vertices() (MeshIO::VertexIndices): what they write is the same for every content of
   the index field. *)
Record imesh := { im_mesh : mesh; im_index : nat -> N }.
Definition isave_tri (im : imesh) := save_tri C rnd c0 (im_mesh im).
Definition isave_off (im : imesh) := save_off C rnd c0 (im_mesh im).
Definition isave_bnd (im : imesh) := save_bnd C rnd c0 (im_mesh im).
Definition isave_mesh (im : imesh) := save_mesh C rnd c0 (im_mesh im).
Definition isave_vtk (im : imesh) := save_vtk C rnd c0 (im_mesh im).

Lemma writers_ignore_index (m : mesh) (ix ix' : nat -> N) :
  isave_tri {| im_mesh := m; im_index := ix |} = isave_tri {| im_mesh := m; im_index := ix' |} /\
  isave_off {| im_mesh := m; im_index := ix |} = isave_off {| im_mesh := m; im_index := ix' |} /\
  isave_bnd {| im_mesh := m; im_index := ix |} = isave_bnd {| im_mesh := m; im_index := ix' |} /\
  isave_mesh {| im_mesh := m; im_index := ix |} = isave_mesh {| im_mesh := m; im_index := ix' |} /\
  isave_vtk {| im_mesh := m; im_index := ix |} = isave_vtk {| im_mesh := m; im_index := ix' |}.
Proof. repeat split; reflexivity. Qed.

(* the triangle indices a writer emits are positions in vertices(): below the vertex count, and naming the vertex the
   triangle uses - whatever the geometry positions (a mesh that shares its geometry with other meshes) *)
Lemma written_indices_are_positions (m : mesh) lt : wf_mesh m -> local_triangles m = Some lt ->
  length lt = nt m /\
  forall k, k < nt m -> forall s, s < 3 ->
    nth s (tverts (nth k lt (0, 0, 0))) 0 < nv m /\
    nth (nth s (tverts (nth k lt (0, 0, 0))) 0) (mv m) 0 = nth s (tverts (nth k (tr m) (0, 0, 0))) 0.
Proof.
  intros Hwf Hl. rewrite (local_triangles_wf m Hwf) in Hl. injection Hl as <-.
  split; [apply map_length|]. intros k Hk s Hs.
  rewrite (nth_indep _ (0, 0, 0) (tri_map (locf (mv m)) (0, 0, 0))) by (rewrite map_length; auto).
  rewrite map_nth, tverts_map.
  assert (H3 : length (tverts (nth k (tr m) (0, 0, 0))) = 3) by (destruct (nth k (tr m) (0, 0, 0)) as [[a b] c]; reflexivity).
  rewrite (nth_indep _ 0 (locf (mv m) 0)) by (rewrite map_length; lia). rewrite map_nth.
  set (g := nth s (tverts (nth k (tr m) (0, 0, 0))) 0).
  destruct Hwf as [Hnd Hin].
  assert (Hg : In g (mv m)).
  { apply (Hin (nth k (tr m) (0, 0, 0))); [apply nth_In; auto|]. apply nth_In.
    lia. }
  destruct (vpos_in (mv m) g Hnd Hg) as [p [Hp [Hn Hv]]].
  unfold locf. rewrite Hv. split; auto.
Qed.

(* ------------------------------------------------------------------ VTK writer *)
Lemma vtk_structure (m : mesh) : wf_mesh m ->
  save_vtk C rnd c0 m =
  Ok ([TW wHash; TW wvtk; TW wDataFile; TW wVersion; TW w20; TNL;
       TW wMesh; TW wfile; TW wgenerated; TW wby; TW wOpenMEEG; TNL;
       TW wASCII; TNL; TW wDATASET; TW wPOLYDATA; TNL;
       TW wPOINTS; TNum (nv m); TW wfloat; TNL]
      ++ flat_map (vline C rnd false) (coords C c0 m)
      ++ [TW wPOLYGONS; TNum (nt m); TNum (nt m * 4); TNL]
      ++ flat_map (tline C true) (map (tri_map (locf (mv m))) (tr m))
      ++ [TW wCELL_DATA; TNum (nt m); TNL; TW wPOINT_DATA; TNum (nv m); TNL;
          TW wNORMALS; TW wnormals; TW wfloat; TNL]
      ++ flat_map (fun _ => [TNrm; TNrm; TNrm; TNL]) (mv m)).
Proof. intros H. unfold save_vtk. rewrite local_triangles_wf; auto. Qed.

Definition is_nl (t : tok) : bool := match t with TNL => true | _ => false end.
Definition nlines (s : list tok) : nat := length (filter is_nl s).

Lemma nlines_app a b : nlines (a ++ b) = nlines a + nlines b.
Proof. unfold nlines. rewrite filter_app, app_length; auto. Qed.
Lemma nlines_vlines nn vs : nlines (flat_map (vline C rnd nn) vs) = length vs.
Proof.
  induction vs as [|[[x y] z] r IH]; [reflexivity|]. cbn [flat_map]. rewrite nlines_app, IH.
  destruct nn; reflexivity.
Qed.
Lemma nlines_tlines lead ts : nlines (flat_map (tline C lead) ts) = length ts.
Proof.
  induction ts as [|[[a b] c] r IH]; [reflexivity|]. cbn [flat_map].
  rewrite nlines_app, IH. destruct lead; reflexivity.
Qed.
Lemma nlines_const {A} (l : list A) : nlines (flat_map (fun _ => [TNrm; TNrm; TNrm; TNL]) l) = length l.
Proof. induction l as [|a l IH]; [reflexivity|]. cbn [flat_map]. rewrite nlines_app, IH. reflexivity. Qed.

Lemma vtk_line_count (m : mesh) s : wf_mesh m -> save_vtk C rnd c0 m = Ok s -> nlines s = 9 + 2 * nv m + nt m.
Proof.
  intros H Hs. rewrite vtk_structure in Hs by auto.
  apply (f_equal (fun r => match r with Ok x => nlines x | _ => 0 end)) in Hs. rewrite <- Hs.
  rewrite !nlines_app, nlines_vlines, nlines_tlines, nlines_const, coords_length, lt_length.
  unfold nv. simpl. lia.
Qed.

(* ------------------------------------------------------------------ merge *)
Lemma add_mesh_verts_inv src : forall g mvl vmap g' mvl' vmap',
  add_mesh_verts C ceq g mvl vmap src = (g', mvl', vmap') ->
  geom_distinct g -> NoDup mvl -> (forall i, In i mvl -> i < length g) ->
  geom_distinct g' /\ NoDup mvl' /\ (forall i, In i mvl' -> i < length g') /\ (exists ext, g' = g ++ ext).
Proof.
  induction src as [|[p v] r IH]; intros g mvl vmap g' mvl' vmap' H Hg Hnd Hlt; simpl in H.
  - inversion H; subst. repeat split; auto. exists []; rewrite app_nil_r; auto.
  - pose proof (add_vertex_distinct g v Hg) as Hd. pose proof (add_vertex_stored g v) as Hs.
    destruct (add_vertex C ceq g v) as [g1 i]; simpl in Hd. destruct Hs as [Hi [_ [ext Hext]]].
    apply IH in H; auto.
    + destruct H as [H1 [H2 [H3 [ext2 H4]]]]. repeat split; auto. exists (ext ++ ext2). rewrite app_assoc, <- Hext; auto.
    + destruct (existsb (Nat.eqb i) mvl) eqn:E; auto.
      apply NoDup_snoc; auto. intros Hin. assert (existsb (Nat.eqb i) mvl = true); [|congruence].
      apply existsb_exists. exists i; split; auto. apply Nat.eqb_refl.
    + intros k Hk. destruct (existsb (Nat.eqb i) mvl) eqn:E.
      * apply Hlt in Hk. subst g1. rewrite app_length; lia.
      * apply in_app_or in Hk. destruct Hk as [Hk|[<-|[]]]; auto. apply Hlt in Hk. subst g1. rewrite app_length; lia.
Qed.


Lemma add_mesh_spec (acc m r : mesh) : add_mesh C ceq c0 acc m = Ok r ->
  (exists ts, tr r = tr acc ++ ts /\ length ts = nt m) /\
  (geom_distinct (gv acc) -> NoDup (mv acc) -> (forall i, In i (mv acc) -> i < length (gv acc)) ->
   geom_distinct (gv r) /\ NoDup (mv r) /\ (forall i, In i (mv r) -> i < length (gv r))).
Proof.
  unfold add_mesh. intros H.
  destruct (add_mesh_verts C ceq (gv acc) (mv acc) [] (combine (mv m) (coords C c0 m))) as [[g mvl] vmap] eqn:E.
  destruct (map_tris (vmap_at vmap) (tr m)) as [ts|] eqn:Et; [|discriminate].
  injection H as <-. simpl. split.
  - exists ts; split; auto. eapply map_tris_length; eauto.
  - intros Hg Hnd Hlt. apply add_mesh_verts_inv in E; auto. destruct E as [H1 [H2 [H3 _]]]. auto.
Qed.

Lemma merge_raw_spec (m1 m2 r : mesh) : merge_raw C ceq c0 m1 m2 = Ok r ->
  length (tr r) = nt m1 + nt m2 /\ geom_distinct (gv r) /\ NoDup (mv r) /\ (forall i, In i (mv r) -> i < length (gv r)).
Proof.
  unfold merge_raw. intros H.
  destruct (add_mesh C ceq c0 (mkMesh [] [] []) m1) as [a| |] eqn:E1; try discriminate.
  apply add_mesh_spec in E1. destruct E1 as [[ts1 [Ht1 Hl1]] Hi1].
  apply add_mesh_spec in H. destruct H as [[ts2 [Ht2 Hl2]] Hi2].
  destruct Hi1 as [G1 [N1 L1]]; simpl.
  - intros i j Hij; simpl in Hij; lia.
  - constructor.
  - intros i [].
  - destruct (Hi2 G1 N1 L1) as [G2 [N2 L2]].
    repeat split; auto. rewrite Ht2, Ht1, !app_length; simpl. lia.
Qed.

Lemma merge_spec (m1 m2 m3 : mesh) : merge C ceq c0 m1 m2 = Ok m3 ->
  exists raw, merge_raw C ceq c0 m1 m2 = Ok raw /\
    length (tr m3) = nt m1 + nt m2 /\ Forall2 same_or_flipped (tr raw) (tr m3) /\
    gv m3 = gv raw /\ mv m3 = mv raw.
Proof.
  unfold merge. intros H. destruct (merge_raw C ceq c0 m1 m2) as [raw| |] eqn:E; try discriminate.
  injection H as <-. exists raw. split; auto.
  pose proof (correct_local_sof (vindex raw) (tr raw)) as Hs.
  destruct (merge_raw_spec _ _ _ E) as [Hl _].
  simpl. repeat split; auto.
  rewrite <- Hl. symmetry. eapply Forall2_len; eauto.
Qed.


Lemma reloaded_counts (m : mesh) :
  nv (reloaded m) = nv m /\ nt (reloaded m) = nt m /\ length (gv (reloaded m)) = nv m.
Proof.
  unfold reloaded, nv, nt; simpl. rewrite seq_length, !map_length. repeat split; auto.
  unfold coords. apply map_length.
Qed.

Lemma reloaded_triangles (m : mesh) : wf_mesh m -> local_triangles (reloaded m) = local_triangles m.
Proof.
  intros Hwf. rewrite (local_triangles_wf m Hwf). unfold local_triangles, reloaded; simpl.
  apply map_tris_id. intros t g Ht Hg. rewrite vpos_t_eq. apply vpos_seq. eapply local_lt; eauto.
Qed.

Lemma reloaded_coords (m : mesh) : coords C c0 (reloaded m) = map vrnd (coords C c0 m).
Proof.
  unfold reloaded, coords at 1; simpl.
  replace (nv m) with (length (map vrnd (coords C c0 m))) by (rewrite map_length; apply coords_length).
  apply map_nth_seq.
Qed.

Lemma consistent_preserved (m : mesh) : locally_consistent m -> has_correct_orientation m = true /\ update m = m.
Proof.
  intros H. split; [unfold has_correct_orientation; rewrite hco_fast_eq; apply hco_consistent; auto | apply update_consistent; auto].
Qed.

Lemma add_vertices_fresh (vs : list V3) : pdistinct vs -> add_vertices C ceq [] vs = (vs, seq 0 (length vs)).
Proof. intros H. rewrite add_vertices_distinct; auto. intros u v []. Qed.

End Proofs.

Definition rnd_ex' (x : nat) : nat := if x =? 51 then 50 else x.
Definition fan' : MeshCodec.mesh nat :=
  mkMesh [(50, 50, 0); (51, 50, 0); (0, 0, 0); (100, 0, 0); (100, 100, 0); (0, 100, 0)]
         [0; 1; 2; 3; 4; 5] [(0, 2, 3); (0, 3, 4); (1, 4, 5); (1, 5, 2)].

Ltac nodup_nat := repeat (constructor; [simpl; intros Hc; repeat destruct Hc as [Hc|Hc]; try discriminate; try (inversion Hc; fail); auto|]); try constructor.

Lemma fan_wf : wf_mesh nat fan'.
Proof.
  split; [simpl; nodup_nat|].
  intros t g Ht Hg. simpl in Ht. repeat destruct Ht as [Ht|Ht]; try contradiction; subst; simpl in Hg;
  repeat destruct Hg as [Hg|Hg]; try contradiction; subst; simpl; auto 10.
Qed.

Lemma fan_lc : locally_consistent nat fan'.
Proof. unfold locally_consistent; simpl. nodup_nat. Qed.

Lemma fan_ok :
  wf_mesh nat fan' /\ locally_consistent nat fan' /\ fits32 (nv fan') = true /\ fits32 (nt fan') = true /\
  pdistinct nat Nat.eqb (map (vrnd nat (fun x => x)) (coords nat 0 fan')).
Proof.
  split; [apply fan_wf|]. split; [apply fan_lc|]. split; [reflexivity|]. split; [reflexivity|].
  simpl. repeat split; intros u Hu; repeat destruct Hu as [Hu|Hu]; try contradiction; subst; reflexivity.
Qed.

Lemma fan_collides :
  exists m : MeshCodec.mesh nat, wf_mesh nat m /\ locally_consistent nat m /\
    exists s m', save_tri nat rnd_ex' 0 m = Ok s /\ load_tri nat Nat.eqb s = Ok m' /\
      nv m' = nv m /\ length (gv m') = 5 /\ mv m' = [0; 0; 1; 2; 3; 4] /\
      tr m' = [(0, 1, 2); (0, 2, 3); (0, 3, 4); (0, 4, 1)].
Proof.
  exists fan'. split; [apply fan_wf|]. split; [apply fan_lc|].
  eexists. eexists. split; [vm_compute; reflexivity|]. split; [vm_compute; reflexivity|].
  vm_compute. repeat split; reflexivity.
Qed.

Definition sq_bad : MeshCodec.mesh nat :=
  mkMesh [(0, 0, 0); (1, 0, 0); (0, 1, 0); (1, 1, 0)] [0; 1; 2; 3] [(0, 1, 2); (1, 2, 3)].

Lemma square_reoriented :
  exists m : MeshCodec.mesh nat, wf_mesh nat m /\
    exists s m', save_off nat (fun x => x) 0 m = Ok s /\ load_off nat Nat.eqb s = Ok m' /\
      local_triangles m = Some [(0, 1, 2); (1, 2, 3)] /\ tr m' = [(0, 1, 2); (2, 1, 3)] /\
      has_correct_orientation m' = true.
Proof.
  exists sq_bad. split.
  - split; [simpl; nodup_nat|].
    intros t g Ht Hg. simpl in Ht. repeat destruct Ht as [Ht|Ht]; try contradiction; subst; simpl in Hg;
    repeat destruct Hg as [Hg|Hg]; try contradiction; subst; simpl; auto 10.
  - eexists. eexists. split; [vm_compute; reflexivity|]. split; [vm_compute; reflexivity|].
    vm_compute. repeat split; reflexivity.
Qed.

(* a file that lists a point twice (the two centre points of the fan collide once written), loaded into a fresh mesh
   object and into one whose geometry already holds (0,0,0) and (7,7,7): the same mesh up to the numbering of the geometry *)
Lemma seam_fresh_and_reused :
  exists s a b, save_tri nat rnd_ex' 0 fan' = Ok s /\
    load_tri nat Nat.eqb s = Ok a /\ reload_tri nat Nat.eqb [(0, 0, 0); (7, 7, 7)] s = Ok b /\
    length (gv a) = 5 /\ mv a = [0; 0; 1; 2; 3; 4] /\
    length (gv b) = 6 /\ mv b = [2; 2; 0; 3; 4; 5] /\
    local_triangles a = local_triangles b /\ coords nat 0 a = coords nat 0 b.
Proof.
  eexists. eexists. eexists. split; [vm_compute; reflexivity|]. split; [vm_compute; reflexivity|].
  split; [vm_compute; reflexivity|]. vm_compute. repeat split; reflexivity.
Qed.
