(* C18 (b): name lookups of Geometry (mesh / interface / domain by name), format selection by suffix or name,
   opening of input files: outcome classes.  Names and suffixes are abstract identifiers (the check maps equal
   strings to equal numbers).  No proofs here. *)
From OM Require Import Base.Lists.
Local Open Scope Z_scope.

Inductive lres := Found (pos : nat) | NotReported | Thrown.
(* for (x : container) if (x.name()==id) return x; throw ... *)
Fixpoint lookup_from (names : list Z) (q : Z) (pos : nat) : lres :=
  match names with
  | [] => Thrown
  | n :: t => if n =? q then Found pos else lookup_from t q (S pos)
  end.
Definition lookup (names : list Z) (q : Z) : lres := lookup_from names q 0.

(* format_from_suffix: no '.' -> NoSuffix; otherwise the first registered format that knows the suffix, else UnknownFileSuffix *)
Definition format_from_suffix (table : list (Z * Z)) (has_dot : bool) (suffix : Z) : lres :=
  if has_dot then
    match find (fun e => fst e =? suffix) table with Some e => Found (Z.to_nat (snd e)) | None => Thrown end
  else Thrown.

(* load(filename): the file must open, then (suffix known -> that format must recognise the content, otherwise
   every format is tried on the content); save(filename): the file must open for writing, an unknown suffix falls
   back to the first format that can store the object *)
Definition load_outcome (opens suffix_known content_ok_for_suffix content_sniffable : bool) : lres :=
  if opens then (if suffix_known then (if content_ok_for_suffix then Found 0 else Thrown)
                 else (if content_sniffable then Found 0 else Thrown)) else Thrown.
Definition save_outcome (opens : bool) : lres := if opens then Found 0 else Thrown.

(* ---- a Geometry object that is reused: load() replaces the meshes / interfaces / domains; a lookup sees the current ones ---- *)
Inductive gop := GLoad (names : list Z) | GLookup (q : Z).
Fixpoint grun (st : list Z) (ops : list gop) : list lres :=
  match ops with
  | [] => []
  | GLoad n :: t => grun n t
  | GLookup q :: t => lookup st q :: grun st t
  end.
(* a lookup that remembers name -> position across load() and trusts a remembered position (NOT the code) *)
Fixpoint grun_cached (cache : list (Z * nat)) (st : list Z) (ops : list gop) : list lres :=
  match ops with
  | [] => []
  | GLoad n :: t => grun_cached cache n t
  | GLookup q :: t =>
      match find (fun e => fst e =? q) cache with
      | Some e => Found (snd e) :: grun_cached cache st t
      | None => match lookup st q with
                | Found p => Found p :: grun_cached ((q, p) :: cache) st t
                | r => r :: grun_cached cache st t
                end
      end
  end.
