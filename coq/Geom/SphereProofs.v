(* C01 — lemmas about the analytic oracle over the R instance of the numeric record. *)
From Coq Require Import Reals Lra Lia List ZArith Psatz Nsatz.
From OM Require Import Base.Ops Geom.SphereVec Geom.Sphere.
Import ListNotations.
Local Open Scope R_scope.

(* R instance of the numeric record.  fatan2 is not used by this model (placeholder atan (y/x)). *)
Definition ROps_c01 : Ops R :=
  mkOps R 0 1 Rplus Rminus Rmult Rdiv Ropp Rabs
        (fun x y => if Rlt_dec x y then true else false)
        (fun x y => if Rle_dec x y then true else false)
        (fun x y => if Req_EM_T x y then true else false)
        IZR sqrt ln (fun y x => atan (y / x)) PI.

Notation rv := (@v3 R).
Notation rdot := (sv_dot ROps_c01).
Notation rcross := (sv_cross ROps_c01).
Notation rsub := (sv_sub ROps_c01).
Notation radd := (sv_add ROps_c01).
Notation rscale := (sv_scale ROps_c01).
Notation rnorm := (sv_norm ROps_c01).
Notation rzero := (sv_zero ROps_c01).

Ltac vunf := unfold sv_dot, sv_cross, sv_sub, sv_add, sv_scale, sv_zero, two; cbn [fadd fsub fmul fdiv f0 f1 fopp ROps_c01 vx vy vz].

Lemma v3_eq (u v : rv) : vx u = vx v -> vy u = vy v -> vz u = vz v -> u = v.
Proof. destruct u, v; cbn; intros; subst; reflexivity. Qed.

Lemma rdot_sym u v : rdot u v = rdot v u.
Proof. vunf; ring. Qed.

Lemma rdot_self_nonneg u : 0 <= rdot u u.
Proof. vunf; nra. Qed.

Lemma rnorm_sq u : rnorm u * rnorm u = rdot u u.
Proof. unfold sv_norm; cbn [fsqrt ROps_c01]. apply sqrt_sqrt, rdot_self_nonneg. Qed.

Lemma rnorm_nonneg u : 0 <= rnorm u.
Proof. unfold sv_norm; cbn [fsqrt ROps_c01]. apply sqrt_pos. Qed.

Lemma rnorm_scale s u : 0 <= s -> rnorm (rscale s u) = s * rnorm u.
Proof.
  intros Hs. unfold sv_norm; cbn [fsqrt ROps_c01].
  replace (rdot (rscale s u) (rscale s u)) with (s * s * rdot u u) by (vunf; ring).
  rewrite sqrt_mult_alt by nra. rewrite sqrt_square by assumption. reflexivity.
Qed.

(* Lagrange identity and Cauchy-Schwarz *)
Lemma lagrange u v : rdot u u * rdot v v - rdot u v * rdot u v = rdot (rcross u v) (rcross u v).
Proof. vunf; ring. Qed.

Lemma cauchy_schwarz u v : rdot u v <= rnorm u * rnorm v.
Proof.
  pose proof (lagrange u v) as L. pose proof (rdot_self_nonneg (rcross u v)) as C.
  pose proof (rnorm_sq u) as Hu. pose proof (rnorm_sq v) as Hv.
  pose proof (rnorm_nonneg u) as Pu. pose proof (rnorm_nonneg v) as Pv.
  destruct (Rle_or_lt (rdot u v) (rnorm u * rnorm v)) as [H|H]; [assumption|exfalso].
  assert (0 <= rnorm u * rnorm v) by nra.
  assert ((rnorm u * rnorm v) * (rnorm u * rnorm v) < rdot u v * rdot u v) by nra.
  nra.
Qed.

(* ------------------------------------------------------------------ rotations (unit quaternions) *)
(* matrix of the quaternion (a,b,c,d) applied to v; a rotation when a^2+b^2+c^2+d^2 = 1 (every rotation is of this form) *)
Definition qrot (a b c d : R) (v : rv) : rv :=
  V3 ((a*a+b*b-c*c-d*d) * vx v + 2*(b*c-a*d) * vy v + 2*(b*d+a*c) * vz v)
     (2*(b*c+a*d) * vx v + (a*a-b*b+c*c-d*d) * vy v + 2*(c*d-a*b) * vz v)
     (2*(b*d-a*c) * vx v + 2*(c*d+a*b) * vy v + (a*a-b*b-c*c+d*d) * vz v).

Section Rot.
  Variables a b c d : R.
  Hypothesis unit : a*a + b*b + c*c + d*d = 1.
  Local Notation rot := (qrot a b c d).

  Lemma rot_dot u v : rdot (rot u) (rot v) = rdot u v.
  Proof.
    assert (G : rdot (rot u) (rot v) = (a*a+b*b+c*c+d*d) * (a*a+b*b+c*c+d*d) * rdot u v)
      by (unfold qrot; vunf; ring).
    rewrite G, unit; ring.
  Qed.

  Lemma rot_cross u v : rcross (rot u) (rot v) = rot (rcross u v).
  Proof.
    assert (G : rcross (rot u) (rot v) = rscale (a*a+b*b+c*c+d*d) (rot (rcross u v)))
      by (unfold qrot; vunf; apply v3_eq; cbn [vx vy vz]; ring).
    rewrite G, unit. unfold qrot; vunf; apply v3_eq; cbn [vx vy vz]; ring.
  Qed.

  Lemma rot_sub u v : rot (rsub u v) = rsub (rot u) (rot v).
  Proof. unfold qrot; vunf; apply v3_eq; cbn [vx vy vz]; ring. Qed.
  Lemma rot_scale s u : rot (rscale s u) = rscale s (rot u).
  Proof. unfold qrot; vunf; apply v3_eq; cbn [vx vy vz]; ring. Qed.
  Lemma rot_norm u : rnorm (rot u) = rnorm u.
  Proof. unfold sv_norm. now rewrite rot_dot. Qed.

  Lemma sarvas_ff_rot r0 r : sarvas_ff ROps_c01 (rot r0) (rot r) = sarvas_ff ROps_c01 r0 r.
  Proof. unfold sarvas_ff. now rewrite <- rot_sub, !rot_norm, rot_dot. Qed.
  Lemma sarvas_gf_rot r0 r : sarvas_gf ROps_c01 (rot r0) (rot r) = rot (sarvas_gf ROps_c01 r0 r).
  Proof. unfold sarvas_gf. now rewrite <- rot_sub, !rot_norm, rot_dot, rot_sub, !rot_scale. Qed.

  Lemma sarvas_rot q r0 r : sarvas ROps_c01 (rot q) (rot r0) (rot r) = rot (sarvas ROps_c01 q r0 r).
  Proof.
    unfold sarvas. rewrite sarvas_ff_rot, sarvas_gf_rot, rot_cross, rot_dot.
    now rewrite rot_scale, rot_sub, !rot_scale.
  Qed.

  Lemma sphere_pot_rot radii sigmas q r0 r n :
    sphere_pot ROps_c01 radii sigmas (rot q) (rot r0) (rot r) n = sphere_pot ROps_c01 radii sigmas q r0 r n.
  Proof. unfold sphere_pot, sphere_pot_c. now rewrite !rot_dot. Qed.

  Lemma infinite_pot_rot sigma q r0 r :
    infinite_pot ROps_c01 sigma (rot q) (rot r0) (rot r) = infinite_pot ROps_c01 sigma q r0 r.
  Proof. unfold infinite_pot. now rewrite <- rot_sub, rot_norm, rot_dot. Qed.
End Rot.

(* ------------------------------------------------------------------ Sarvas *)
Lemma sarvas_radial_zero q r0 r : rcross q r0 = rzero -> sarvas ROps_c01 q r0 r = rzero.
Proof.
  intros H. unfold sarvas. rewrite H. vunf. apply v3_eq; cbn [vx vy vz]; unfold Rdiv; ring.
Qed.

(* geometry of a source strictly inside the sensor sphere *)
Lemma inside_a_pos r0 r : rnorm r0 < rnorm r -> 0 < rnorm (rsub r r0).
Proof.
  intros H. destruct (rnorm_nonneg (rsub r r0)) as [P|E]; [assumption|exfalso].
  assert (Z : rdot (rsub r r0) (rsub r r0) = 0) by (rewrite <- rnorm_sq, <- E; ring).
  assert (vx r = vx r0 /\ vy r = vy r0 /\ vz r = vz r0) as (A & B & C).
  { revert Z; vunf; intros Z.
    pose proof (Rle_0_sqr (vx r - vx r0)) as S1. pose proof (Rle_0_sqr (vy r - vy r0)) as S2.
    pose proof (Rle_0_sqr (vz r - vz r0)) as S3. unfold Rsqr in *.
    assert (E1 : (vx r - vx r0) * (vx r - vx r0) = 0) by lra.
    assert (E2 : (vy r - vy r0) * (vy r - vy r0) = 0) by lra.
    assert (E3 : (vz r - vz r0) * (vz r - vz r0) = 0) by lra.
    apply Rsqr_0_uniq in E1, E2, E3. repeat split; lra. }
  assert (r = r0) by (apply v3_eq; assumption). subst. lra.
Qed.

Lemma inside_ff_pos r0 r : rnorm r0 < rnorm r -> 0 < sarvas_ff ROps_c01 r0 r.
Proof.
  intros H. unfold sarvas_ff. cbn [fadd fsub fmul ROps_c01].
  pose proof (inside_a_pos _ _ H) as Ha. pose proof (cauchy_schwarz r0 r) as CS.
  pose proof (rnorm_nonneg r0) as P0.
  assert (0 < rnorm r) by lra.
  apply Rmult_lt_0_compat; [assumption|]. nra.
Qed.

(* r . B(Sarvas) = r . B(primary current): the radial field does not see the volume currents *)
Lemma dot_lin2 c1 c2 (r r0 : rv) : rdot r (rsub (rscale c1 r) (rscale c2 r0)) = c1 * rdot r r - c2 * rdot r0 r.
Proof. vunf; ring. Qed.
Lemma dot_sub_l (r r0 : rv) : rdot (rsub r r0) r = rdot r r - rdot r0 r.
Proof. vunf; ring. Qed.

Lemma sarvas_dot_r q r0 r :
  rdot r (sarvas ROps_c01 q r0 r) =
  / (sarvas_ff ROps_c01 r0 r * sarvas_ff ROps_c01 r0 r) *
  (rdot (rcross q r0) r * (sarvas_ff ROps_c01 r0 r - rdot r (sarvas_gf ROps_c01 r0 r))).
Proof.
  unfold sarvas. generalize (sarvas_gf ROps_c01 r0 r) (sarvas_ff ROps_c01 r0 r). intros g f.
  vunf. unfold Rdiv. ring.
Qed.

Lemma biot_dot_r q r0 r :
  rdot r (biot_savart_primary ROps_c01 q r0 r) =
  - rdot (rcross q r0) r / (rnorm (rsub r r0) * rnorm (rsub r r0) * rnorm (rsub r r0)).
Proof.
  unfold biot_savart_primary. generalize (rnorm (rsub r r0)). intros a. vunf. unfold Rdiv. ring.
Qed.

Lemma sarvas_radial_component q r0 r : rnorm r0 < rnorm r ->
  rdot r (sarvas ROps_c01 q r0 r) = rdot r (biot_savart_primary ROps_c01 q r0 r).
Proof.
  intros H. pose proof (inside_ff_pos _ _ H) as Hf. pose proof (inside_a_pos _ _ H) as Ha.
  assert (Hr : 0 < rnorm r) by (pose proof (rnorm_nonneg r0); lra).
  rewrite sarvas_dot_r, biot_dot_r. unfold sarvas_gf. rewrite dot_lin2, dot_sub_l.
  revert Hf. unfold sarvas_ff. rewrite <- (rnorm_sq r). cbn [fadd fsub fmul fdiv two f1 ROps_c01].
  generalize (rdot (rcross q r0) r). generalize (rdot r0 r).
  set (a := rnorm (rsub r r0)) in *. set (rn := rnorm r) in *. intros t X Hf.
  assert (Hg : rn * a + rn * rn - t <> 0) by (intros E; rewrite E in Hf; lra).
  field. repeat split; try lra; try assumption.
Qed.

Lemma cross_scale_r q s r0 : rcross q (rscale s r0) = rscale s (rcross q r0).
Proof. vunf; apply v3_eq; cbn [vx vy vz]; ring. Qed.
Lemma sub_scale s (u v : rv) : rsub (rscale s u) (rscale s v) = rscale s (rsub u v).
Proof. vunf; apply v3_eq; cbn [vx vy vz]; ring. Qed.
Lemma dot_scale2 s (u v : rv) : rdot (rscale s u) (rscale s v) = s * s * rdot u v.
Proof. vunf; ring. Qed.
Lemma dot_scale_r s (u v : rv) : rdot u (rscale s v) = s * rdot u v.
Proof. vunf; ring. Qed.
Lemma dot_scale_l s (u v : rv) : rdot (rscale s u) v = s * rdot u v.
Proof. vunf; ring. Qed.

Lemma sarvas_ff_scale s r0 r : 0 < s ->
  sarvas_ff ROps_c01 (rscale s r0) (rscale s r) = s * s * s * sarvas_ff ROps_c01 r0 r.
Proof.
  intros Hs. unfold sarvas_ff. rewrite sub_scale, !rnorm_scale, dot_scale2 by lra.
  cbn [fadd fsub fmul ROps_c01]. ring.
Qed.

Lemma sarvas_gf_scale s r0 r : 0 < s -> rnorm r0 < rnorm r ->
  sarvas_gf ROps_c01 (rscale s r0) (rscale s r) = rscale (s * s) (sarvas_gf ROps_c01 r0 r).
Proof.
  intros Hs H. pose proof (inside_a_pos _ _ H) as Ha.
  assert (Hr : 0 < rnorm r) by (pose proof (rnorm_nonneg r0); lra).
  unfold sarvas_gf. rewrite sub_scale, !rnorm_scale, dot_scale2 by lra.
  generalize dependent (rnorm (rsub r r0)). generalize dependent (rnorm r). generalize (rdot (rsub r r0) r).
  intros ar rn _ Hr a Ha.
  vunf. apply v3_eq; cbn [vx vy vz]; field; repeat split; lra.
Qed.

Lemma sarvas_scale_len q r0 r s : 0 < s -> rnorm r0 < rnorm r ->
  sarvas ROps_c01 q (rscale s r0) (rscale s r) = rscale (/ (s * s)) (sarvas ROps_c01 q r0 r).
Proof.
  intros Hs H. pose proof (inside_ff_pos _ _ H) as Hf.
  unfold sarvas. rewrite sarvas_ff_scale, sarvas_gf_scale, cross_scale_r, dot_scale2 by assumption.
  generalize dependent (sarvas_ff ROps_c01 r0 r). generalize (sarvas_gf ROps_c01 r0 r).
  generalize (rdot (rcross q r0) r). generalize (rcross q r0).
  intros c X g f Hf. vunf. apply v3_eq; cbn [vx vy vz]; field; repeat split; lra.
Qed.
