(* C01 — further lemmas about the oracle: the loop computes the stated sum, the Legendre derivative recursion is the
   derivative, centred dipole in a homogeneous sphere = closed form. *)
From Coq Require Import Reals Lra Lia List ZArith Psatz.
From OM Require Import Base.Ops Geom.SphereVec Geom.Sphere Geom.SphereProofs Geom.SpherePotProofs.
Import ListNotations.
Local Open Scope R_scope.

(* ------------------------------------------------------------------ the loop is the sum of the stated terms *)
Fixpoint series_sum (cs : list R) (t m2 qr qw : R) (n : nat) : R :=
  match cs with
  | [] => 0
  | c :: cs' => c * (qr * solid_d O_ t m2 n - qw * solid_d O_ t m2 (pred n)) + series_sum cs' t m2 qr qw (S n)
  end.

Lemma series_is_sum cs t m2 qr qw k acc :
  series O_ cs t m2 qr qw (S k) (leg_state O_ t m2 k) acc = acc + series_sum cs t m2 qr qw (S k).
Proof.
  revert k acc. induction cs as [|c cs IH]; intros k acc; cbn [series series_sum].
  - ring.
  - rewrite (leg_state_shape t m2 k) at 1. cbv beta iota zeta.
    rewrite <- leg_state_S. rewrite IH. cbn [pred]. runf. ring.
Qed.

(* ------------------------------------------------------------------ Legendre: D_n is the derivative of P_n *)
Notation P n x := (legendre O_ n x).
Notation D n x := (legendre_d O_ n x).

Lemma P_rec n x : (INR (S n) + 1) * P (S (S n)) x = (2 * INR (S n) + 1) * x * P (S n) x - INR (S n) * P n x.
Proof. destruct (legendre_spec x) as (_ & _ & H & _). apply H. Qed.
Lemma D_rec n x : D (S (S n)) x = x * D (S n) x + (INR (S n) + 1) * P (S n) x.
Proof. destruct (legendre_spec x) as (_ & _ & _ & _ & _ & H). apply H. Qed.
Lemma P_0 x : P 0 x = 1. Proof. reflexivity. Qed.
Lemma P_1 x : P 1 x = x. Proof. reflexivity. Qed.
Lemma D_0 x : D 0 x = 0. Proof. reflexivity. Qed.
Lemma D_1 x : D 1 x = 1. Proof. reflexivity. Qed.

(* (x^2-1) P_n' = n (x P_n - P_(n-1)) *)
Lemma leg_c n x : (x * x - 1) * D (S n) x = INR (S n) * (x * P (S n) x - P n x).
Proof.
  induction n as [|n IH].
  - rewrite D_1, P_1, P_0. cbn [INR]. ring.
  - rewrite D_rec. pose proof (P_rec n x) as E.
    replace (INR (S (S n))) with (INR (S n) + 1) by (rewrite (S_INR (S n)); ring).
    set (a := INR (S n)) in *.
    transitivity (x * ((x * x - 1) * D (S n) x) + (a + 1) * (x * x - 1) * P (S n) x); [ring|].
    rewrite IH. transitivity (x * ((a + 1) * P (S (S n)) x) - (a + 1) * P (S n) x); [rewrite E; ring|ring].
Qed.

(* x P_n' - P_(n-1)' = n P_n *)
Lemma leg_b n x : x * D (S n) x - D n x = INR (S n) * P (S n) x.
Proof.
  destruct n as [|n].
  - rewrite D_1, D_0, P_1. cbn [INR]. ring.
  - rewrite D_rec. pose proof (leg_c n x) as C. pose proof (P_rec n x) as E.
    replace (INR (S (S n))) with (INR (S n) + 1) by (rewrite (S_INR (S n)); ring).
    set (a := INR (S n)) in *.
    transitivity ((x * x - 1) * D (S n) x + (a + 1) * x * P (S n) x); [ring|].
    rewrite C, E. ring.
Qed.

Lemma dpl_ext (f g : R -> R) x l : (forall y, f y = g y) -> derivable_pt_lim f x l -> derivable_pt_lim g x l.
Proof.
  intros E H eps He. destruct (H eps He) as [delta Hd]. exists delta. intros h Hh Hlt.
  rewrite <- !E. apply Hd; assumption.
Qed.

Lemma legendre_deriv_pair n x :
  derivable_pt_lim (fun y => P n y) x (D n x) /\ derivable_pt_lim (fun y => P (S n) y) x (D (S n) x).
Proof.
  induction n as [|n [IH1 IH2]].
  - split.
    + apply (dpl_ext (fun _ => 1)); [intros; reflexivity|]. rewrite D_0. apply derivable_pt_lim_const.
    + apply (dpl_ext (fun y => y)); [intros; reflexivity|]. rewrite D_1. apply derivable_pt_lim_id.
  - split; [assumption|].
    assert (Ha : 0 <= INR (S n)) by apply pos_INR.
    set (a := INR (S n)) in *.
    apply (dpl_ext (fun y => (((2 * a + 1) * (y * P (S n) y)) - a * P n y) * / (a + 1))).
    { intros y. pose proof (P_rec n y) as E. fold a in E.
      apply Rmult_eq_reg_l with (a + 1); [|lra]. rewrite E. field. lra. }
    replace (D (S (S n)) x) with ((((2 * a + 1) * (1 * P (S n) x + x * D (S n) x)) - a * D n x) * / (a + 1)).
    2:{ rewrite D_rec. fold a. pose proof (leg_b n x) as B. fold a in B.
        assert (Dn : D n x = x * D (S n) x - a * P (S n) x) by lra. rewrite Dn. field. lra. }
    apply (derivable_pt_lim_scal_right (fun y => (2 * a + 1) * (y * P (S n) y) - a * P n y)).
    apply (derivable_pt_lim_minus (fun y => (2 * a + 1) * (y * P (S n) y)) (fun y => a * P n y)).
    + apply (derivable_pt_lim_scal (fun y => y * P (S n) y)).
      apply (derivable_pt_lim_mult (fun y => y) (fun y => P (S n) y)); [apply derivable_pt_lim_id|assumption].
    + apply (derivable_pt_lim_scal (fun y => P n y)). assumption.
Qed.

Lemma legendre_d_derivative n x : derivable_pt_lim (fun y => P n y) x (D n x).
Proof. apply legendre_deriv_pair. Qed.

(* ------------------------------------------------------------------ centred dipole, homogeneous sphere *)
Lemma series_dead cs qr n pm dm acc : series O_ cs 0 0 qr 0 n (pm, 0, dm, 0) acc = acc.
Proof.
  revert n pm dm acc. induction cs as [|c cs IH]; intros n pm dm acc; cbn [series]; [reflexivity|].
  unfold leg_step. runf.
  replace ((two O_ * fnat O_ n + 1) * 0 * 0 - fnat O_ n * 0 * pm) with 0 by ring.
  replace (0 / (fnat O_ n + 1)) with 0 by (unfold Rdiv; ring).
  replace (0 * 0 + (fnat O_ n + 1) * 0) with 0 by ring.
  rewrite IH. ring.
Qed.

Lemma rsub_zero (u : rv) : rsub u rzero = u.
Proof. vunf. apply v3_eq; cbn [vx vy vz]; ring. Qed.
Lemma rdot_zero_r (u : rv) : rdot u rzero = 0.
Proof. vunf. ring. Qed.
Lemma rdot_zero_l (u : rv) : rdot rzero u = 0.
Proof. vunf. ring. Qed.

Lemma centre_dipole_closed_form Ro sg (q r : rv) n :
  0 < Ro -> rnorm r <> 0 -> (1 <= n)%nat ->
  sphere_pot O_ [Ro] [sg] q rzero r n = homog_closed O_ Ro sg q rzero r.
Proof.
  intros HR Hr Hn. destruct n as [|n]; [lia|].
  assert (Hnr : 0 < rnorm r) by (pose proof (rnorm_nonneg r); lra).
  unfold sphere_pot, sphere_coefs, sphere_pot_c, sphere_pot_inv, homog_closed.
  change (outer_radius O_ [Ro]) with Ro. change (inner_sigma O_ [sg]) with sg. cbn [ifaces sphere_coefs_from].
  rewrite rsub_zero, !rdot_zero_r, !rdot_zero_l.
  rewrite rnorm_scale by (runf; apply Rlt_le, Rdiv_lt_0_compat; assumption).
  rewrite dot_scale_r.
  change (fsqrt O_ (rdot r r)) with (rnorm r).
  set (nr := rnorm r) in *. runf.
  replace (0 / (Ro * nr)) with 0 by (unfold Rdiv; ring).
  replace (0 / (Ro * Ro)) with 0 by (unfold Rdiv; ring).
  replace (0 / Ro) with 0 by (unfold Rdiv; ring).
  cbn [series]. unfold leg_step. runf. rewrite fnat_INR, two_R. cbn [INR].
  replace ((2 * 1 + 1) * 0 * 0 - 1 * 0 * 1) with 0 by ring.
  replace (0 / (1 + 1)) with 0 by (unfold Rdiv; ring).
  replace (0 * 1 + (1 + 1) * 0) with 0 by ring.
  rewrite series_dead. rewrite one_layer_coef by lia. cbn [INR].
  replace (Ro / nr * nr) with Ro by (field; lra).
  unfold four_pi. rewrite two_R. runf.
  unfold Rdiv. rewrite !Rinv_mult. generalize (/ PI) (/ sg). intros ip isg. clearbody nr. field. repeat split; try lra; nra.
Qed.

(* ------------------------------------------------------------------ linearity in the dipole moment (ties to C08) *)
Lemma sarvas_linear a b (q1 q2 r0 r : rv) :
  sarvas O_ (radd (rscale a q1) (rscale b q2)) r0 r = radd (rscale a (sarvas O_ q1 r0 r)) (rscale b (sarvas O_ q2 r0 r)).
Proof.
  unfold sarvas. generalize (sarvas_gf O_ r0 r) (sarvas_ff O_ r0 r). intros g f.
  vunf. apply v3_eq; cbn [vx vy vz]; unfold Rdiv; ring.
Qed.

Lemma series_linear cs t m2 a b qr1 qr2 qw1 qw2 n s acc1 acc2 :
  series O_ cs t m2 (a * qr1 + b * qr2) (a * qw1 + b * qw2) n s (a * acc1 + b * acc2)
  = a * series O_ cs t m2 qr1 qw1 n s acc1 + b * series O_ cs t m2 qr2 qw2 n s acc2.
Proof.
  revert n s acc1 acc2. induction cs as [|c cs IH]; intros n s acc1 acc2; cbn [series]; [reflexivity|].
  destruct s as [[[pm p] dm] d]. rewrite <- IH. f_equal. runf. ring.
Qed.

Lemma series_linear0 cs t m2 a b qr1 qr2 qw1 qw2 n s :
  series O_ cs t m2 (a * qr1 + b * qr2) (a * qw1 + b * qw2) n s 0
  = a * series O_ cs t m2 qr1 qw1 n s 0 + b * series O_ cs t m2 qr2 qw2 n s 0.
Proof. rewrite <- series_linear. f_equal. ring. Qed.

Lemma sphere_pot_linear radii sigmas a b (q1 q2 r0 r : rv) n :
  sphere_pot O_ radii sigmas (radd (rscale a q1) (rscale b q2)) r0 r n
  = a * sphere_pot O_ radii sigmas q1 r0 r n + b * sphere_pot O_ radii sigmas q2 r0 r n.
Proof.
  unfold sphere_pot, sphere_pot_c, sphere_pot_inv.
  replace (rdot (radd (rscale a q1) (rscale b q2)) r) with (a * rdot q1 r + b * rdot q2 r) by (vunf; ring).
  replace (rdot (radd (rscale a q1) (rscale b q2)) r0) with (a * rdot q1 r0 + b * rdot q2 r0) by (vunf; ring).
  runf.
  set (nr := sqrt (rdot r r)). set (Ro := outer_radius O_ radii).
  replace ((a * rdot q1 r + b * rdot q2 r) / nr) with (a * (rdot q1 r / nr) + b * (rdot q2 r / nr)) by (unfold Rdiv; ring).
  replace ((a * rdot q1 r0 + b * rdot q2 r0) / Ro) with (a * (rdot q1 r0 / Ro) + b * (rdot q2 r0 / Ro)) by (unfold Rdiv; ring).
  rewrite series_linear0. unfold Rdiv. ring.
Qed.

(* ------------------------------------------------------------------ the potential oracle sees only the direction of r *)
Lemma sphere_pot_direction radii sigmas (q r0 r : rv) n s : 0 < s -> rnorm r <> 0 ->
  sphere_pot O_ radii sigmas q r0 (rscale s r) n = sphere_pot O_ radii sigmas q r0 r n.
Proof.
  intros Hs Hr. unfold sphere_pot, sphere_pot_c, sphere_pot_inv.
  rewrite dot_scale2, !dot_scale_r. runf.
  rewrite sqrt_mult_alt by nra. rewrite sqrt_square by lra.
  change (sqrt (rdot r r)) with (rnorm r). set (nr := rnorm r) in *. set (Ro := outer_radius O_ radii).
  replace (s * rdot r0 r / (Ro * (s * nr))) with (rdot r0 r / (Ro * nr)).
  2:{ unfold Rdiv. rewrite !Rinv_mult. generalize (/ Ro). intros iR. clearbody nr. field. split; lra. }
  replace (s * rdot q r / (s * nr)) with (rdot q r / nr) by (clearbody nr; field; split; lra).
  reflexivity.
Qed.

(* closed forms are rotation invariant too *)
Lemma homog_closed_rot a b c d (U : a*a + b*b + c*c + d*d = 1) Ro sg (q r0 r : rv) :
  homog_closed O_ Ro sg (qrot a b c d q) (qrot a b c d r0) (qrot a b c d r) = homog_closed O_ Ro sg q r0 r.
Proof.
  unfold homog_closed. rewrite (rot_norm a b c d U). rewrite <- (rot_scale a b c d).
  rewrite <- (rot_sub a b c d), (rot_norm a b c d U), !(rot_dot a b c d U). reflexivity.
Qed.
