(* adaptive_exact_on_polynomials WITHOUT a coefficient-norm hypothesis, for degree <= 2 (complete):
   f(x) = c + g.x + x.Q.x  (Q symmetric, 6 entries).  On a triangle S = (s0,s1,s2) the restriction is
       c + sum_i l_i (g.s_i) + sum_ij l_i l_j q(s_i,s_j),
   whose coefficients per homogeneous degree are the BERNSTEIN coefficients c | g.s_i | q(s_i,s_j) (the blossom values).
   Under the midpoint split the new vertices are convex combinations, so the new Bernstein coefficients are convex
   combinations of the old ones (de Casteljau): the bounds  |g.s_i| <= Ma, |q(s_i,s_j)| <= Mq  are INHERITED by the four
   sub-triangles.  The rule band 1e-14 * ||p||_1 is bounded through the Bernstein max-norm by 1e-14 (|c| + 3 Ma + 9 Mq),
   uniformly over the whole refinement tree, hence the unconditional theorem at every order, depth and tolerance.
   (General degree d needs the multinomial de Casteljau argument; not done.) *)
From Coq Require Import Reals Qreals QArith Lra Lia List ZArith.
From OM Require Import Base.Ops Base.OpsR Base.Vec3 Gen.GenQuadTables Geom.Quadrature Geom.QuadTablesProofs Geom.QuadProofs
                       Geom.AdaptiveProofs.
Import ListNotations.
Local Open Scope R_scope.

(* ---- adaptive bound under an invariant inherited by the sub-triangles ------------------------------------ *)
Section AdaptiveInvariant.
  Variable rule : list qpoint.
  Variable tol : R.
  Variable f : V3 -> R.
  Variable I : V3 -> V3 -> V3 -> R.
  Variable P : V3 -> V3 -> V3 -> Prop.
  Variable E : R.
  Hypothesis I_additive : forall t0 t1 t2,
    I t0 t1 t2 = I t0 (midpoint OpsR t2 t0) (midpoint OpsR t0 t1) + I (midpoint OpsR t1 t2) t1 (midpoint OpsR t0 t1)
               + I (midpoint OpsR t1 t2) (midpoint OpsR t2 t0) t2 + I (midpoint OpsR t1 t2) (midpoint OpsR t2 t0) (midpoint OpsR t0 t1).
  Hypothesis P_inherited : forall t0 t1 t2, P t0 t1 t2 ->
    P t0 (midpoint OpsR t2 t0) (midpoint OpsR t0 t1) /\ P (midpoint OpsR t1 t2) t1 (midpoint OpsR t0 t1) /\
    P (midpoint OpsR t1 t2) (midpoint OpsR t2 t0) t2 /\ P (midpoint OpsR t1 t2) (midpoint OpsR t2 t0) (midpoint OpsR t0 t1).
  Hypothesis rule_error : forall t0 t1 t2, P t0 t1 t2 ->
    Rabs (triangle_integration_rule OpsR (RS_scalar OpsR) rule f t0 t1 t2 - I t0 t1 t2) <= E * area2 OpsR t0 t1 t2.

  Lemma adaptive_invariant_lemma level : forall t0 t1 t2 coarse, P t0 t1 t2 ->
    Rabs (adaptive_integration_rule OpsR (RS_scalar OpsR) rule tol f t0 t1 t2 coarse level - I t0 t1 t2) <= E * area2 OpsR t0 t1 t2.
  Proof.
    assert (Hrefined : forall t0 t1 t2, P t0 t1 t2 ->
      let m0 := midpoint OpsR t1 t2 in let m1 := midpoint OpsR t2 t0 in let m2 := midpoint OpsR t0 t1 in
      Rabs (0 + triangle_integration_rule OpsR (RS_scalar OpsR) rule f t0 m1 m2
              + triangle_integration_rule OpsR (RS_scalar OpsR) rule f m0 t1 m2
              + triangle_integration_rule OpsR (RS_scalar OpsR) rule f m0 m1 t2
              + triangle_integration_rule OpsR (RS_scalar OpsR) rule f m0 m1 m2 - I t0 t1 t2) <= E * area2 OpsR t0 t1 t2).
    { intros t0 t1 t2 HP m0 m1 m2. rewrite (I_additive t0 t1 t2). fold m0 m1 m2.
      rewrite <- (refinement_partition_lemma t0 t1 t2). fold m0 m1 m2.
      destruct (P_inherited t0 t1 t2 HP) as [P0 [P1 [P2 P3]]]. fold m0 m1 m2 in P0, P1, P2, P3.
      pose proof (rule_error _ _ _ P0) as E0. pose proof (rule_error _ _ _ P1) as E1.
      pose proof (rule_error _ _ _ P2) as E2. pose proof (rule_error _ _ _ P3) as E3.
      apply Rabs_le_inv' in E0, E1, E2, E3. apply Rabs_le. lra. }
    induction level as [|level IH]; intros t0 t1 t2 coarse HP.
    - cbn [adaptive_integration_rule rs_add rs_zero RS_scalar fadd f0 OpsR]. apply Hrefined, HP.
    - cbn [adaptive_integration_rule rs_add rs_zero rs_sub rs_norm RS_scalar fadd f0 fleb fmul OpsR].
      match goal with |- context [if ?b then _ else _] => destruct b end.
      + apply Hrefined, HP.
      + rewrite (I_additive t0 t1 t2). rewrite <- (refinement_partition_lemma t0 t1 t2). cbv zeta.
        destruct (P_inherited t0 t1 t2 HP) as [P0 [P1 [P2 P3]]].
        set (m0 := midpoint OpsR t1 t2) in *. set (m1 := midpoint OpsR t2 t0) in *. set (m2 := midpoint OpsR t0 t1) in *.
        pose proof (IH t0 m1 m2 (triangle_integration_rule OpsR (RS_scalar OpsR) rule f t0 m1 m2) P0) as E0.
        pose proof (IH m0 t1 m2 (triangle_integration_rule OpsR (RS_scalar OpsR) rule f m0 t1 m2) P1) as E1.
        pose proof (IH m0 m1 t2 (triangle_integration_rule OpsR (RS_scalar OpsR) rule f m0 m1 t2) P2) as E2.
        pose proof (IH m0 m1 m2 (triangle_integration_rule OpsR (RS_scalar OpsR) rule f m0 m1 m2) P3) as E3.
        apply Rabs_le_inv' in E0, E1, E2, E3. apply Rabs_le. lra.
  Qed.
End AdaptiveInvariant.

(* ---- quadratic integrands ------------------------------------------------------------------------------- *)
Section Quadratic.
  Variables c q11 q22 q33 q12 q13 q23 : R.
  Variable g : V3.

  Definition bil (u v : V3) : R :=
    q11 * (vx u * vx v) + q22 * (vy u * vy v) + q33 * (vz u * vz v)
    + q12 * (vx u * vy v + vy u * vx v) + q13 * (vx u * vz v + vz u * vx v) + q23 * (vy u * vz v + vz u * vy v).
  Definition quadf (v : V3) : R := c + dot OpsR g v + bil v v.

  Lemma bil_sym u v : bil u v = bil v u. Proof. unfold bil; ring. Qed.
  Lemma bil_mid_l a b v : bil (midpoint OpsR a b) v = (bil a v + bil b v) / 2.
  Proof. unfold bil, midpoint, vscale, vadd; rewrite half_R; destruct a, b, v; cbn. field. Qed.
  Lemma bil_mid_r v a b : bil v (midpoint OpsR a b) = (bil v a + bil v b) / 2.
  Proof. rewrite bil_sym, bil_mid_l, (bil_sym a), (bil_sym b). reflexivity. Qed.

  (* the integral: area2 * ( c/2 + sum_i g.s_i / 6 + sum_{i<=j} q(s_i,s_j) / 12 ) *)
  Definition quad_I (s0 s1 s2 : V3) : R :=
    area2 OpsR s0 s1 s2 * (c / 2 + (dot OpsR g s0 + dot OpsR g s1 + dot OpsR g s2) / 6
                           + (bil s0 s0 + bil s1 s1 + bil s2 s2 + bil s0 s1 + bil s0 s2 + bil s1 s2) / 12).

  Definition quad_P (Ma Mq : R) (s0 s1 s2 : V3) : Prop :=
    (Rabs (dot OpsR g s0) <= Ma /\ Rabs (dot OpsR g s1) <= Ma /\ Rabs (dot OpsR g s2) <= Ma) /\
    (Rabs (bil s0 s0) <= Mq /\ Rabs (bil s1 s1) <= Mq /\ Rabs (bil s2 s2) <= Mq /\
     Rabs (bil s0 s1) <= Mq /\ Rabs (bil s0 s2) <= Mq /\ Rabs (bil s1 s2) <= Mq).

  Lemma dirichletR_200 : dirichletR 2 0 0 = / 12. Proof. unfold dirichletR; cbn. lra. Qed.
  Lemma dirichletR_020 : dirichletR 0 2 0 = / 12. Proof. unfold dirichletR; cbn. lra. Qed.
  Lemma dirichletR_002 : dirichletR 0 0 2 = / 12. Proof. unfold dirichletR; cbn. lra. Qed.
  Lemma dirichletR_110 : dirichletR 1 1 0 = / 24. Proof. unfold dirichletR; cbn. lra. Qed.
  Lemma dirichletR_101 : dirichletR 1 0 1 = / 24. Proof. unfold dirichletR; cbn. lra. Qed.
  Lemma dirichletR_011 : dirichletR 0 1 1 = / 24. Proof. unfold dirichletR; cbn. lra. Qed.

  Lemma quad_rule_error order Ma Mq s0 s1 s2 : (1 <= order <= 3)%nat -> quad_P Ma Mq s0 s1 s2 ->
    Rabs (triangle_integration OpsR (RS_scalar OpsR) order quadf s0 s1 s2 - quad_I s0 s1 s2)
      <= (eps14R * (Rabs c + 3 * Ma + 9 * Mq)) * area2 OpsR s0 s1 s2.
  Proof.
    intros Ho [[A0 [A1 A2]] [B00 [B11 [B22 [B01 [B02 B12]]]]]].
    pose (p := [(c, (0, 0, 0)%nat); (dot OpsR g s0, (1, 0, 0)%nat); (dot OpsR g s1, (0, 1, 0)%nat); (dot OpsR g s2, (0, 0, 1)%nat);
                (bil s0 s0, (2, 0, 0)%nat); (bil s1 s1, (0, 2, 0)%nat); (bil s2 s2, (0, 0, 2)%nat);
                (2 * bil s0 s1, (1, 1, 0)%nat); (2 * bil s0 s2, (1, 0, 1)%nat); (2 * bil s1 s2, (0, 1, 1)%nat)] : list term).
    assert (Hd : pdeg_le (rule_degree order) p).
    { destruct order as [|[|[|[|o]]]]; try lia; repeat constructor; cbn; lia. }
    pose proof (polynomial_exactness_lemma order quadf s0 s1 s2 p ltac:(lia) Hd) as H.
    assert (Hf : forall l0 l1 l2, quadf (bary_point OpsR l0 l1 l2 s0 s1 s2) = peval p l0 l1 l2).
    { intros. unfold p, quadf, peval, tmono, monoR, bary_point, vmultadd, vzero, dot; cbn [fold_right fst]; unfold bil; cbn. ring. }
    specialize (H Hf).
    assert (Hi : area2 OpsR s0 s1 s2 * pintegral p = quad_I s0 s1 s2).
    { unfold quad_I, pintegral, p; cbn [fold_right fst tdir].
      rewrite dirichletR_000, dirichletR_100, dirichletR_010, dirichletR_001, dirichletR_200, dirichletR_020, dirichletR_002,
              dirichletR_110, dirichletR_101, dirichletR_011. field. }
    rewrite Hi in H. eapply Rle_trans; [exact H|].
    pose proof (area2_nonneg s0 s1 s2) as Ha.
    assert (He : 0 < eps14R) by (unfold eps14R; apply Rinv_0_lt_compat; cbn; lra).
    apply Rmult_le_compat_r; auto. apply Rmult_le_compat_l; [lra|].
    unfold pnorm1, p; cbn [fold_right fst]. rewrite !Rabs_mult, (Rabs_right 2) by lra. lra.
  Qed.

  Lemma quad_I_additive t0 t1 t2 :
    quad_I t0 t1 t2 = quad_I t0 (midpoint OpsR t2 t0) (midpoint OpsR t0 t1) + quad_I (midpoint OpsR t1 t2) t1 (midpoint OpsR t0 t1)
                    + quad_I (midpoint OpsR t1 t2) (midpoint OpsR t2 t0) t2
                    + quad_I (midpoint OpsR t1 t2) (midpoint OpsR t2 t0) (midpoint OpsR t0 t1).
  Proof.
    unfold quad_I. destruct (quarter_areas t0 t1 t2) as [E0 [E1 [E2 E3]]]. cbv zeta in E0, E1, E2, E3.
    rewrite E0, E1, E2, E3, !dot_midpoint. repeat (rewrite bil_mid_l || rewrite bil_mid_r).
    rewrite (bil_sym t1 t0), (bil_sym t2 t0), (bil_sym t2 t1). field.
  Qed.

  Lemma quad_P_inherited Ma Mq t0 t1 t2 : quad_P Ma Mq t0 t1 t2 ->
    quad_P Ma Mq t0 (midpoint OpsR t2 t0) (midpoint OpsR t0 t1) /\ quad_P Ma Mq (midpoint OpsR t1 t2) t1 (midpoint OpsR t0 t1) /\
    quad_P Ma Mq (midpoint OpsR t1 t2) (midpoint OpsR t2 t0) t2 /\
    quad_P Ma Mq (midpoint OpsR t1 t2) (midpoint OpsR t2 t0) (midpoint OpsR t0 t1).
  Proof.
    intros [[A0 [A1 A2]] [B00 [B11 [B22 [B01 [B02 B12]]]]]].
    apply Rabs_le_inv' in A0, A1, A2, B00, B11, B22, B01, B02, B12.
    unfold quad_P. rewrite !dot_midpoint. repeat (rewrite bil_mid_l || rewrite bil_mid_r).
    rewrite ?(bil_sym t1 t0), ?(bil_sym t2 t0), ?(bil_sym t2 t1).
    repeat split; apply Rabs_le; lra.
  Qed.

  (* the unconditional theorem: every order, depth, tolerance; bounds on the Bernstein coefficients of the ROOT triangle only *)
  Theorem adaptive_exact_on_quadratics_lemma ord depth tol Ma Mq t0 t1 t2 : quad_P Ma Mq t0 t1 t2 ->
    Rabs (integrate OpsR (RS_scalar OpsR) ord depth tol quadf t0 t1 t2 - quad_I t0 t1 t2)
      <= eps14R * (Rabs c + 3 * Ma + 9 * Mq) * area2 OpsR t0 t1 t2.
  Proof.
    intros HP. unfold integrate.
    assert (Hr : forall a b d, quad_P Ma Mq a b d ->
      Rabs (triangle_integration_rule OpsR (RS_scalar OpsR) (rule_of_order (safe_order ord)) quadf a b d - quad_I a b d)
        <= (eps14R * (Rabs c + 3 * Ma + 9 * Mq)) * area2 OpsR a b d).
    { intros a b d Hp. apply (quad_rule_error (safe_order ord)); auto. apply safe_order_range. }
    destruct depth as [|n].
    - apply Hr, HP.
    - apply (adaptive_invariant_lemma (rule_of_order (safe_order ord)) tol quadf quad_I (quad_P Ma Mq)
               (eps14R * (Rabs c + 3 * Ma + 9 * Mq)) quad_I_additive (quad_P_inherited Ma Mq) Hr); exact HP.
  Qed.
End Quadratic.
