(* Facts about the character-level readers: what io_utils::token accepts, comments. *)
From OM Require Import Base.Lists Geom.GeomModel Geom.GeomFile Geom.GeomLex.

Definition plain (name : list nat) : Prop := forall c, In c name -> isspace c = false /\ c <> 58.

Lemma token_l_plain name : plain name -> forall rest acc, token_l (name ++ 58 :: rest) true acc = (rest, false, acc ++ name).
Proof.
  induction name as [|c name IH]; intros P rest acc; simpl.
  - rewrite app_nil_r. reflexivity.
  - destruct (P c (or_introl eq_refl)) as [S C]. rewrite S. simpl.
    replace (Nat.eqb c 58) with false by (symmetry; apply Nat.eqb_neq; auto).
    rewrite IH by (intros x Hx; apply P; right; auto). rewrite <- app_assoc. reflexivity.
Qed.

(* "Domain Air:" - exactly one white-space character between the keyword and the name is accepted ... *)
Lemma token_one_blank sp name rest : isspace sp = true -> plain name -> name <> [] ->
  token (mkS (sp :: name ++ 58 :: rest) false) = (mkS rest false, name).
Proof.
  intros S P N. unfold token. simpl. rewrite S. simpl.
  replace (Nat.eqb sp 58) with false by (symmetry; apply Nat.eqb_neq; intros ->; discriminate).
  rewrite token_l_plain by auto. reflexivity.
Qed.

(* ... a second one sets the fail bit (the TODO in IOUtils.H: two blanks, or a blank before the colon) *)
Lemma token_two_blanks sp1 sp2 l : isspace sp1 = true -> isspace sp2 = true -> bad (fst (token (mkS (sp1 :: sp2 :: l) false))) = true.
Proof.
  intros S1 S2. unfold token. simpl. rewrite S1. simpl.
  replace (Nat.eqb sp1 58) with false by (symmetry; apply Nat.eqb_neq; intros ->; discriminate).
  rewrite S2. reflexivity.
Qed.

Lemma token_blank_before_colon sp name sp2 rest : isspace sp = true -> plain name -> name <> [] -> isspace sp2 = true ->
  bad (fst (token (mkS (sp :: name ++ sp2 :: 58 :: rest) false))) = true.
Proof.
  intros S P N S2. unfold token. simpl. rewrite S. simpl.
  replace (Nat.eqb sp 58) with false by (symmetry; apply Nat.eqb_neq; intros ->; discriminate).
  assert (G : forall nm acc, plain nm -> token_l (nm ++ sp2 :: 58 :: rest) true acc = (58 :: rest, true, acc ++ nm)).
  { induction nm as [|c nm IH]; intros acc Pn; simpl.
    - rewrite S2. rewrite app_nil_r. reflexivity.
    - destruct (Pn c (or_introl eq_refl)) as [Sc C]. rewrite Sc. simpl.
      replace (Nat.eqb c 58) with false by (symmetry; apply Nat.eqb_neq; auto).
      rewrite IH by (intros x Hx; apply Pn; right; auto). rewrite <- app_assoc. reflexivity. }
  rewrite G by auto. reflexivity.
Qed.

(* once the fail bit is set nothing is extracted any more *)
Lemma failed_stream_is_inert s : bad s = true ->
  ws s = s /\ skip_comments s = s /\ (forall p, mtch p s = s) /\ (forall p, mtch_opt p s = (s, false))
  /\ read_nat s = (s, 0) /\ read_word s = (s, []) /\ token s = (s, []) /\ filename s = (s, []) /\ line_tokens s = (s, []).
Proof.
  intros H. unfold ws, skip_comments, mtch, mtch_opt, read_nat, read_word, token, filename, line_tokens. rewrite H. repeat split; auto.
Qed.

(* a comment line is consumed whole by one round of skip_comments *)
Lemma comment_line_skipped f body rest : ~ In 10 body ->
  skip_comments_l (S f) (35 :: body ++ 10 :: rest) = skip_comments_l f rest.
Proof.
  intros Hb.
  assert (SL : skip_line (body ++ 10 :: rest) = rest).
  { unfold skip_line. induction body as [|c b IH]; simpl; auto.
    destruct (Nat.eqb_spec c 10) as [->|Hn]; [exfalso; apply Hb; left; auto|]. simpl. apply IH. intros C; apply Hb; right; auto. }
  change (skip_comments_l (S f) (35 :: body ++ 10 :: rest)) with (skip_comments_l f (skip_line (body ++ 10 :: rest))).
  rewrite SL. reflexivity.
Qed.

(* ------------------------------------------------------------------ the Domains section: lexer refines the token level *)
Definition word (t : list nat) : Prop := t <> [] /\ forall c, In c t -> isspace c = false.

Definition render_line (name : list nat) (toks : list (list nat)) : list nat :=
  s_Domain ++ 32 :: name ++ 58 :: flat_map (fun t => 32 :: t) toks ++ [10].

Lemma take_while_app_stop (p : nat -> bool) a c r : (forall x, In x a -> p x = true) -> p c = false ->
  take_while p (a ++ c :: r) = a /\ drop_while p (a ++ c :: r) = c :: r.
Proof.
  intros Ha Hc. induction a as [|x a IH]; simpl.
  - rewrite Hc. auto.
  - rewrite (Ha x (or_introl eq_refl)). destruct IH as [I1 I2]; [intros y Hy; apply Ha; right; auto|]. rewrite I1, I2. auto.
Qed.

Lemma take_drop_all (p : nat -> bool) t : (forall x, In x t -> p x = true) -> take_while p t = t /\ drop_while p t = [].
Proof.
  induction t as [|x t IH]; intros H; simpl; auto. rewrite (H x (or_introl eq_refl)).
  destruct IH as [I1 I2]; [intros y Hy; apply H; right; auto|]. rewrite I1, I2. auto.
Qed.

Lemma split_ws_step fuel t r : word t -> (r = [] \/ exists r', r = 32 :: r') ->
  split_ws (S fuel) (32 :: t ++ r) = t :: split_ws fuel r.
Proof.
  intros [Hne Hw] Hr. destruct t as [|c t]; [congruence|].
  assert (Hc : isspace c = false) by (apply Hw; left; auto).
  assert (Hp : forall x, In x (c :: t) -> (fun c0 => negb (isspace c0)) x = true) by (intros x Hx; simpl; rewrite (Hw x Hx); reflexivity).
  change (split_ws (S fuel) (32 :: (c :: t) ++ r)) with
    (match drop_while isspace ((c :: t) ++ r) with
     | [] => []
     | l' => take_while (fun c0 => negb (isspace c0)) l' :: split_ws fuel (drop_while (fun c0 => negb (isspace c0)) l')
     end).
  assert (D : drop_while isspace ((c :: t) ++ r) = (c :: t) ++ r) by (simpl; rewrite Hc; reflexivity).
  rewrite D.
  destruct Hr as [-> | [r' ->]].
  - rewrite app_nil_r. destruct (take_drop_all _ (c :: t) Hp) as [T1 T2]. cbv beta iota zeta. rewrite T1, T2. reflexivity.
  - destruct (take_while_app_stop _ (c :: t) 32 r' Hp eq_refl) as [T1 T2]. simpl app in *. cbv beta iota zeta. rewrite T1, T2. reflexivity.
Qed.

Lemma split_ws_words : forall toks fuel, Forall word toks -> (length (flat_map (fun t => 32 :: t) toks) < fuel)%nat ->
  split_ws fuel (flat_map (fun t => 32 :: t) toks) = toks.
Proof.
  induction toks as [|t toks IH]; intros fuel F L.
  - destruct fuel; reflexivity.
  - destruct fuel as [|fuel]; [simpl in L; lia|]. inversion F as [|? ? W F']; subst.
    simpl flat_map. rewrite split_ws_step; auto.
    + f_equal. apply IH; auto. simpl in L. rewrite app_length in L. lia.
    + destruct toks as [|u toks]; [left; reflexivity|right]. simpl. eexists; reflexivity.
Qed.

Lemma line_tokens_rendered toks rest : Forall word toks ->
  line_tokens (mkS (flat_map (fun t => 32 :: t) toks ++ 10 :: rest) false) = (mkS rest false, toks).
Proof.
  intros F. unfold line_tokens. simpl bad. cbv iota. simpl inp.
  assert (NL : forall x, In x (flat_map (fun t => 32 :: t) toks) -> negb (Nat.eqb x 10) = true).
  { intros x Hx. apply in_flat_map in Hx. destruct Hx as [t [Ht Hx]]. rewrite Forall_forall in F. destruct (F t Ht) as [_ Hw].
    destruct Hx as [<-|Hx]; [reflexivity|]. specialize (Hw x Hx). destruct (Nat.eqb_spec x 10); [subst; discriminate|reflexivity]. }
  destruct (take_while_app_stop (fun c => negb (Nat.eqb c 10)) _ 10 rest NL eq_refl) as [T1 T2].
  rewrite T1, T2. f_equal. apply split_ws_words; auto.
Qed.

Lemma domain_prefix tail : mtch s_Domain (skip_comments (mkS (s_Domain ++ tail) false)) = mkS tail false.
Proof. reflexivity. Qed.

Lemma render_line_shape name toks rest :
  render_line name toks ++ rest = s_Domain ++ 32 :: name ++ 58 :: flat_map (fun t => 32 :: t) toks ++ 10 :: rest.
Proof.
  unfold render_line. rewrite <- app_assoc. f_equal. simpl. f_equal. rewrite <- app_assoc. f_equal. simpl. f_equal.
  rewrite <- app_assoc. reflexivity.
Qed.

(* one rendered domain line is read back as its name and its tokens *)
Lemma read_domain_line name toks rest : plain name -> name <> [] -> Forall word toks ->
  read_domains V11 1 (mkS (render_line name toks ++ rest) false) = (mkS rest false, [(name, map dtok_of toks)]).
Proof.
  intros P N F. rewrite render_line_shape. unfold read_domains. rewrite domain_prefix.
  rewrite (token_one_blank 32 name _ eq_refl P N).
  rewrite (line_tokens_rendered toks rest F). reflexivity.
Qed.

(* the whole Domains section: n rendered lines are read back one after the other *)
Fixpoint render_lines (ds : list (list nat * list (list nat))) : list nat :=
  match ds with [] => [] | (n, toks) :: r => render_line n toks ++ render_lines r end.

Lemma read_domains_cons n name toks tail : plain name -> name <> [] -> Forall word toks ->
  read_domains V11 (S n) (mkS (render_line name toks ++ tail) false)
  = (fst (read_domains V11 n (mkS tail false)), (name, map dtok_of toks) :: snd (read_domains V11 n (mkS tail false))).
Proof.
  intros P N F. rewrite render_line_shape. unfold read_domains at 1. fold read_domains. rewrite domain_prefix.
  rewrite (token_one_blank 32 name _ eq_refl P N).
  rewrite (line_tokens_rendered toks tail F).
  destruct (read_domains V11 n (mkS tail false)) as [s4 r]. reflexivity.
Qed.

Lemma read_domains_rendered : forall ds rest,
  Forall (fun d => plain (fst d) /\ fst d <> [] /\ Forall word (snd d)) ds ->
  read_domains V11 (length ds) (mkS (render_lines ds ++ rest) false)
  = (mkS rest false, map (fun d => (fst d, map dtok_of (snd d))) ds).
Proof.
  induction ds as [|[n toks] ds IH]; intros rest F; [reflexivity|].
  inversion F as [|? ? (P & N & W) F']; subst. simpl in P, N, W.
  change (render_lines ((n, toks) :: ds)) with (render_line n toks ++ render_lines ds).
  rewrite <- app_assoc. change (length ((n, toks) :: ds)) with (S (length ds)).
  rewrite (read_domains_cons _ n toks _ P N W), (IH rest F'). reflexivity.
Qed.
