(* Facts about the character-level readers: what io_utils::token accepts, comments. *)
From OM Require Import Base.Lists Geom.GeomLex.

Definition plain (name : list nat) : Prop := forall c, In c name -> isspace c = false /\ c <> 58.

Lemma token_l_plain name : plain name -> forall rest acc, token_l (name ++ 58 :: rest) true acc = (rest, false, acc ++ name).
Proof.
  induction name as [|c name IH]; intros P rest acc; simpl.
  - rewrite app_nil_r. reflexivity.
  - destruct (P c (or_introl eq_refl)) as [S C]. rewrite S. simpl.
    replace (Nat.eqb c 58) with false by (symmetry; apply Nat.eqb_neq; auto).
    rewrite IH by (intros x Hx; apply P; right; auto). rewrite <- app_assoc. reflexivity.
Qed.

(* "Domain Air:" - exactly one white-space character between the keyword and the name is accepted ... *)
Lemma token_one_blank sp name rest : isspace sp = true -> plain name -> name <> [] ->
  token (mkS (sp :: name ++ 58 :: rest) false) = (mkS rest false, name).
Proof.
  intros S P N. unfold token. simpl. rewrite S. simpl.
  replace (Nat.eqb sp 58) with false by (symmetry; apply Nat.eqb_neq; intros ->; discriminate).
  rewrite token_l_plain by auto. reflexivity.
Qed.

(* ... a second one sets the fail bit (the TODO in IOUtils.H: two blanks, or a blank before the colon) *)
Lemma token_two_blanks sp1 sp2 l : isspace sp1 = true -> isspace sp2 = true -> bad (fst (token (mkS (sp1 :: sp2 :: l) false))) = true.
Proof.
  intros S1 S2. unfold token. simpl. rewrite S1. simpl.
  replace (Nat.eqb sp1 58) with false by (symmetry; apply Nat.eqb_neq; intros ->; discriminate).
  rewrite S2. reflexivity.
Qed.

Lemma token_blank_before_colon sp name sp2 rest : isspace sp = true -> plain name -> name <> [] -> isspace sp2 = true ->
  bad (fst (token (mkS (sp :: name ++ sp2 :: 58 :: rest) false))) = true.
Proof.
  intros S P N S2. unfold token. simpl. rewrite S. simpl.
  replace (Nat.eqb sp 58) with false by (symmetry; apply Nat.eqb_neq; intros ->; discriminate).
  assert (G : forall nm acc, plain nm -> token_l (nm ++ sp2 :: 58 :: rest) true acc = (58 :: rest, true, acc ++ nm)).
  { induction nm as [|c nm IH]; intros acc Pn; simpl.
    - rewrite S2. rewrite app_nil_r. reflexivity.
    - destruct (Pn c (or_introl eq_refl)) as [Sc C]. rewrite Sc. simpl.
      replace (Nat.eqb c 58) with false by (symmetry; apply Nat.eqb_neq; auto).
      rewrite IH by (intros x Hx; apply Pn; right; auto). rewrite <- app_assoc. reflexivity. }
  rewrite G by auto. reflexivity.
Qed.

(* once the fail bit is set nothing is extracted any more *)
Lemma failed_stream_is_inert s : bad s = true ->
  ws s = s /\ skip_comments s = s /\ (forall p, mtch p s = s) /\ (forall p, mtch_opt p s = (s, false))
  /\ read_nat s = (s, 0) /\ read_word s = (s, []) /\ token s = (s, []) /\ filename s = (s, []) /\ line_tokens s = (s, []).
Proof.
  intros H. unfold ws, skip_comments, mtch, mtch_opt, read_nat, read_word, token, filename, line_tokens. rewrite H. repeat split; auto.
Qed.

(* a comment line is consumed whole by one round of skip_comments *)
Lemma comment_line_skipped f body rest : ~ In 10 body ->
  skip_comments_l (S f) (35 :: body ++ 10 :: rest) = skip_comments_l f rest.
Proof.
  intros Hb.
  assert (SL : skip_line (body ++ 10 :: rest) = rest).
  { unfold skip_line. induction body as [|c b IH]; simpl; auto.
    destruct (Nat.eqb_spec c 10) as [->|Hn]; [exfalso; apply Hb; left; auto|]. simpl. apply IH. intros C; apply Hb; right; auto. }
  change (skip_comments_l (S f) (35 :: body ++ 10 :: rest)) with (skip_comments_l f (skip_line (body ++ 10 :: rest))).
  rewrite SL. reflexivity.
Qed.
