(* Token-level model of the .geom reader (OpenMEEG/include/GeometryIOs/GeomFile.h, load_meshes / load_domains).
   The character level (io_utils::match, skip_comments, token(':'), quoting of paths) is abstracted: the input is the
   sequence of sections with their entries already split into tokens; comments and blank lines are gone.  Names are
   numbers (identity of the string); [numname k] is the identity of the decimal string of k+1, which is what
   default_name gives to the (k+1)-th unnamed entry of a section.
   What is modelled: versions 1.0 / 1.1; optional Meshes section; named ("Mesh name: path") and unnamed ("Mesh: path",
   and every entry of a 1.0 file) entries; meshes given as interfaces when there is no Meshes section; signed mesh
   names in an interface ('+' or nothing = Normal, '-' = Opposite); signed interface names in a domain ('+' or
   nothing = Outside, '-' = Inside); the "shared" keyword stops a domain line; Geometry::mesh(name) returns the FIRST
   mesh of that name and throws when there is none; the interface map keeps the FIRST interface of a name and
   .at(name) throws when there is none. *)
From OM Require Import Base.Lists Geom.GeomModel.
Local Open Scope Z_scope.

Inductive version := V10 | V11.
Inductive sgn := SNone | SPlus | SMinus.
Notation stok := (sgn * nat)%type.                       (* a token with its optional sign stripped *)
Inductive dtok := DShared | DTok (t : stok).             (* token of a domain line *)

Record gfile := mkGFile {
  gf_version : version;
  gf_meshes : option (list (option nat * mesh));         (* Meshes section (1.1 only): optional name, mesh file content *)
  gf_ifaces_as_meshes : list (option nat * mesh);        (* Interfaces section when no Meshes section: paths *)
  gf_ifaces : list (option nat * list stok);             (* Interfaces section otherwise: signed mesh names *)
  gf_domains : list (nat * list dtok)
}.

Section Parse.
Variable numname : nat -> nat.

(* section_name: unnamed, or any entry of a 1.0 file -> default_name(n+1) *)
Definition entry_name (v : version) (k : nat) (given : option nat) : nat :=
  match v, given with
  | V11, Some n => n
  | _, _ => numname k
  end.

Fixpoint name_entries {A} (v : version) (k : nat) (l : list (option nat * A)) : list (nat * A) :=
  match l with
  | [] => []
  | (g, a) :: r => (entry_name v k g, a) :: name_entries v (S k) r
  end.

Fixpoint find_name {A} (n : nat) (l : list (nat * A)) (k : nat) : option nat :=
  match l with
  | [] => None
  | (m, _) :: r => if Nat.eqb m n then Some k else find_name n r (S k)
  end.

Definition sign_plus (s : sgn) : bool := match s with SMinus => false | _ => true end.

(* tokens of an interface line -> oriented meshes; None when a mesh name is unknown (BadInterface) *)
Fixpoint resolve_meshes {A} (ms : list (nat * A)) (ts : list stok) : option (list (Z * nat)) :=
  match ts with
  | [] => Some []
  | (s, n) :: r =>
    match find_name n ms 0, resolve_meshes ms r with
    | Some k, Some l => Some ((if sign_plus s then 1 else -1, k) :: l)
    | _, _ => None
    end
  end.

Fixpoint resolve_ifaces {A} (ms : list (nat * A)) (l : list (nat * list stok)) : option (list (nat * list (Z * nat))) :=
  match l with
  | [] => Some []
  | (n, ts) :: r =>
    match resolve_meshes ms ts, resolve_ifaces ms r with
    | Some om, Some l' => Some ((n, om) :: l')
    | _, _ => None
    end
  end.

(* tokens of a domain line, up to "shared"; '-' = Inside.  None when an interface name is unknown *)
Fixpoint resolve_bounds {A} (ifs : list (nat * A)) (ts : list dtok) : option (list (bool * nat)) :=
  match ts with
  | [] => Some []
  | DShared :: _ => Some []
  | DTok (s, n) :: r =>
    match find_name n ifs 0, resolve_bounds ifs r with
    | Some k, Some l => Some ((negb (sign_plus s), k) :: l)
    | _, _ => None
    end
  end.

Fixpoint resolve_domains {A} (ifs : list (nat * A)) (ds : list (nat * list dtok)) : option (list (list (bool * nat))) :=
  match ds with
  | [] => Some []
  | (_, ts) :: r =>
    match resolve_bounds ifs ts, resolve_domains ifs r with
    | Some b, Some l => Some (b :: l)
    | _, _ => None
    end
  end.

(* the description the rest of the model works on, with the names of meshes / interfaces / domains in order *)
Record parsed := mkParsed { p_desc : desc; p_mesh_names : list nat; p_iface_names : list nat; p_domain_names : list nat }.

(* the Meshes section is only looked for in a 1.1 file *)
Definition mesh_section (f : gfile) : option (list (option nat * mesh)) :=
  match gf_version f with V11 => gf_meshes f | V10 => None end.

(* meshes provided as interfaces: one interface per mesh, same name, orientation Normal *)
Definition shorthand_ifaces (nms : list (nat * mesh)) : list (nat * list (Z * nat)) :=
  map (fun km => (fst (snd km), [(1, fst km)])) (combine (seq 0 (length nms)) nms).

Definition finish_parse (meshes : list (nat * mesh)) (ifaces : option (list (nat * list (Z * nat)))) (ds : list (nat * list dtok)) : option parsed :=
  match ifaces with
  | None => None
  | Some ifs =>
    match resolve_domains ifs ds with
    | None => None
    | Some bs => Some (mkParsed (mkDesc (map snd meshes) (map snd ifs) bs) (map fst meshes) (map fst ifs) (map fst ds))
    end
  end.

Definition parse_geom (f : gfile) : option parsed :=
  let v := gf_version f in
  match mesh_section f with
  | Some ms =>
      let nms := name_entries v 0 ms in
      finish_parse nms (resolve_ifaces nms (name_entries v 0 (gf_ifaces f))) (gf_domains f)
  | None =>
      let nms := name_entries v 0 (gf_ifaces_as_meshes f) in
      finish_parse nms (Some (shorthand_ifaces nms)) (gf_domains f)
  end.
End Parse.
