(* C06 (1): algebra of re-labelling the unknowns, in MathComp.
   H : head matrix, S : source matrix, A : head-to-sensor matrix.  Relabelling the unknowns by a permutation s turns
   them into P H P^T, P S, A P^T with P = perm_mx s; the gain A H^-1 S is unchanged.  Re-referencing the sensor
   potentials (subtracting any fixed linear reference r with r.1 = 1, e.g. the mean) removes a per-source constant. *)
From mathcomp Require Import all_ssreflect all_fingroup all_algebra.
Set Implicit Arguments.
Unset Strict Implicit.
Unset Printing Implicit Defensive.
Import GRing.Theory.
Local Open Scope ring_scope.

Section Gain.
Variable F : fieldType.

Lemma perm_mx_trK n (s : 'S_n) : (perm_mx s : 'M[F]_n)^T *m perm_mx s = 1%:M.
Proof. by rewrite tr_perm_mx -perm_mxM mulVg perm_mx1. Qed.

Lemma perm_mx_Ktr n (s : 'S_n) : (perm_mx s : 'M[F]_n) *m (perm_mx s)^T = 1%:M.
Proof. by rewrite tr_perm_mx -perm_mxM mulgV perm_mx1. Qed.

Lemma invmx_conj_perm n (s : 'S_n) (H : 'M[F]_n) : H \in unitmx ->
  invmx (perm_mx s *m H *m (perm_mx s)^T) = perm_mx s *m invmx H *m (perm_mx s)^T.
Proof.
move=> uH; set P := perm_mx s; set Q := P *m H *m P^T; set B := P *m invmx H *m P^T.
have QB : Q *m B = 1%:M.
  rewrite /Q /B !mulmxA -(mulmxA (P *m H)) perm_mx_trK mulmx1.
  by rewrite -(mulmxA P) (mulmxV uH) mulmx1 perm_mx_Ktr.
have [uQ _] := mulmx1_unit QB.
by rewrite -[LHS]mulmx1 -QB mulmxA (mulVmx uQ) mul1mx.
Qed.

Theorem gain_perm_invariant m n k (s : 'S_n) (A : 'M[F]_(m, n)) (H : 'M[F]_n) (S : 'M[F]_(n, k)) :
  H \in unitmx ->
  (A *m (perm_mx s)^T) *m invmx (perm_mx s *m H *m (perm_mx s)^T) *m (perm_mx s *m S) = A *m invmx H *m S.
Proof.
move=> uH; rewrite (invmx_conj_perm s uH) !mulmxA.
rewrite -(mulmxA A) perm_mx_trK mulmx1.
by rewrite -(mulmxA (A *m invmx H)) perm_mx_trK mulmx1.
Qed.

(* the permuted head matrix is invertible exactly when the original one is *)
Lemma unitmx_conj_perm n (s : 'S_n) (H : 'M[F]_n) : H \in unitmx -> perm_mx s *m H *m (perm_mx s)^T \in unitmx.
Proof.
move=> uH; set P := perm_mx s.
have QB : (P *m H *m P^T) *m (P *m invmx H *m P^T) = 1%:M.
  rewrite !mulmxA -(mulmxA (P *m H)) perm_mx_trK mulmx1.
  by rewrite -(mulmxA P) (mulmxV uH) mulmx1 perm_mx_Ktr.
by have [] := mulmx1_unit QB.
Qed.

(* reference shift: if the rows of A sum to one (A *m 1 = 1: every sensor is an interpolation of the potential),
   adding a constant per source to the potentials adds the same constant to every sensor *)
Theorem gain_reference_shift m n k (A : 'M[F]_(m, n)) (V : 'M[F]_(n, k)) (c : 'rV[F]_k) :
  A *m (const_mx 1 : 'cV_n) = (const_mx 1 : 'cV_m) ->
  A *m (V + (const_mx 1 : 'cV_n) *m c) = A *m V + (const_mx 1 : 'cV_m) *m c.
Proof. by move=> A1; rewrite mulmxDr mulmxA A1. Qed.

(* re-referencing with any linear reference r such that r.1 = 1 (the mean over the sensors is one) removes it *)
Definition reref m k (r : 'rV[F]_m) (G : 'M[F]_(m, k)) : 'M[F]_(m, k) := G - (const_mx 1 : 'cV_m) *m (r *m G).

Theorem reref_shift_invariant m k (r : 'rV[F]_m) (G : 'M[F]_(m, k)) (c : 'rV[F]_k) :
  r *m (const_mx 1 : 'cV_m) = 1%:M -> reref r (G + (const_mx 1 : 'cV_m) *m c) = reref r G.
Proof.
move=> r1; rewrite /reref mulmxDr mulmxDr (mulmxA r) r1 mul1mx.
by rewrite opprD addrACA subrr addr0.
Qed.

(* permuting the sensors-independent unknowns and shifting the reference together *)
Corollary gain_redescription_invariant m n k (s : 'S_n) (r : 'rV[F]_m) (A : 'M[F]_(m, n)) (H : 'M[F]_n) (S : 'M[F]_(n, k)) (c : 'rV[F]_k) :
  H \in unitmx -> r *m (const_mx 1 : 'cV_m) = 1%:M ->
  reref r ((A *m (perm_mx s)^T) *m invmx (perm_mx s *m H *m (perm_mx s)^T) *m (perm_mx s *m S) + (const_mx 1 : 'cV_m) *m c)
  = reref r (A *m invmx H *m S).
Proof. by move=> uH r1; rewrite (reref_shift_invariant _ _ r1) (gain_perm_invariant s A S uH). Qed.

(* Link with the combinatorics: when every entry of the head / source / sensor matrices is a function of the
   label-free unknowns (points, (mesh, position) pairs) and two descriptions enumerate the same unknowns in two
   orders related by a permutation s, the matrices are P H P^T, P S, A P^T - and the gain is the same. *)
Section LabelFree.
Variables (U : Type) (n m k : nat).
Variables (Kh : U -> U -> F) (Ks : U -> 'I_k -> F) (Ka : 'I_m -> U -> F).
Variable u : 'I_n -> U.           (* the unknown carrying index i in the first description *)
Variable s : 'S_n.                (* index i of the second description carries the unknown u (s i) *)

Definition headmx (v : 'I_n -> U) : 'M[F]_n := \matrix_(i, j) Kh (v i) (v j).
Definition srcmx (v : 'I_n -> U) : 'M[F]_(n, k) := \matrix_(i, j) Ks (v i) j.
Definition sensmx (v : 'I_n -> U) : 'M[F]_(m, n) := \matrix_(i, j) Ka i (v j).

Lemma headmx_relabel : headmx (u \o s) = perm_mx s *m headmx u *m (perm_mx s)^T.
Proof.
rewrite tr_perm_mx -col_permE -row_permE; apply/matrixP=> i j.
by rewrite !mxE.
Qed.

Lemma srcmx_relabel : srcmx (u \o s) = perm_mx s *m srcmx u.
Proof. by rewrite -row_permE; apply/matrixP=> i j; rewrite !mxE. Qed.

Lemma sensmx_relabel : sensmx (u \o s) = sensmx u *m (perm_mx s)^T.
Proof. by rewrite tr_perm_mx -col_permE; apply/matrixP=> i j; rewrite !mxE. Qed.

Theorem gain_enumeration_free : headmx u \in unitmx ->
  sensmx (u \o s) *m invmx (headmx (u \o s)) *m srcmx (u \o s) = sensmx u *m invmx (headmx u) *m srcmx u.
Proof.
by move=> uH; rewrite headmx_relabel srcmx_relabel sensmx_relabel (gain_perm_invariant s _ _ uH).
Qed.
End LabelFree.
End Gain.
