(* An independent closest-point oracle for a triangle, over a record of numeric operations: the seven candidates of
   the Voronoi-region classification (three vertices, the orthogonal projections on the three edge lines, the
   orthogonal projection on the plane) are formed and the first one that carries a Karush-Kuhn-Tucker certificate
   (weights >= 0 and (p-h).(V-h) <= 0 for the three vertices V) is returned.  It shares no code with dpc.
   Soundness (what it returns IS a nearest point) is proved below over the reals; that it always returns something
   on a triangle of non-zero area is validated by the runs (never None), not proved. *)
From Coq Require Import Reals Lra List Bool.
From OM Require Import Base.Ops Geom.V3Q Geom.V3R Geom.Danielsson Geom.DanielssonProofs Geom.NearestProofs Geom.ClosestOracleModel.
Import ListNotations.

Local Open Scope R_scope.
Lemma sum_candidates : forall p T al, In al (candidates Rops p T) -> get3 al 0 + get3 al 1 + get3 al 2 = 1.
Proof.
  intros p [[A B] C] al H. unfold candidates in H. cbv zeta in H. rops.
  repeat (destruct H as [H | H]; [subst al; cbv [get3 fst snd]; lra|]). destruct H.
Qed.

Theorem closest_oracle_sound : forall p T al, closest_oracle Rops p T = Some al ->
  0 <= get3 al 0 /\ 0 <= get3 al 1 /\ 0 <= get3 al 2 /\ get3 al 0 + get3 al 1 + get3 al 2 = 1 /\
  forall a b c, 0 <= a -> 0 <= b -> 0 <= c -> a + b + c = 1 ->
    vnorm2 Rops (vsub Rops p (recon Rops T al)) <= vnorm2 Rops (vsub Rops p (recon Rops T (a, b, c))).
Proof.
  intros p [[A B] C] al H. unfold closest_oracle in H. apply find_some in H. destruct H as [Hin Hc].
  pose proof (sum_candidates _ _ _ Hin) as Hs.
  unfold certified, nonneg, nonpos in Hc. change (fleb Rops) with Rleb in Hc. change (f0 Rops) with 0 in Hc.
  repeat (apply andb_true_iff in Hc; destruct Hc as [Hc ?]).
  repeat match goal with E : Rleb _ _ = true |- _ => apply Rleb_true in E end.
  cbv [get3 fst snd] in H, H0, H1. change (og Rops p (A, B, C) al) with (gdot p (A, B, C) al) in *.
  repeat split; auto. intros. apply kkt_nearest; auto.
Qed.
