(* EXTRACT-Z: c09 run_c09 *)
(* Executable entry point of the C09 correspondence: exact rational instance of the Danielsson /
   sensor-row / weight-matrix models.  Coordinates are integers over a per-case common denominator. *)
From Coq Require Import ZArith QArith List Bool.
From OM Require Import Base.Lists Base.Wire Base.Ops Geom.V3Q Geom.Danielsson Geom.SensorsModel Geom.ClosestOracleModel.
Import ListNotations.
Local Open Scope Z_scope.

Definition qvec := (@vec Q).
Definition getQ (den : Z) : dec Q := do n <- getZ; ret (qofZ n den).
Definition getV (den : Z) : dec qvec := do x <- getQ den; do y <- getQ den; do z <- getQ den; ret (x, y, z).
Definition getIdx3 : dec idx3 := do a <- getN; do b <- getN; do c <- getN; ret (a, b, c).

Definition outV (v : qvec) : wire := outQ (vx v) ++ outQ (vy v) ++ outQ (vz v).
Definition outRow (r : @srow Q) : wire :=
  zn (length r) :: flat_map (fun cv => zn (fst cv) :: outQ (snd cv)) r.

(* vertices, meshes (triangles over global vertex ids) *)
Definition zeroV : qvec := (0%Q, 0%Q, 0%Q).
Definition mk_itri (vs : list qvec) (ix : idx3) : @itri Q :=
  ((nth (get3 ix 0) vs zeroV, nth (get3 ix 1) vs zeroV, nth (get3 ix 2) vs zeroV), ix).
Definition getMeshes (vs : list qvec) : dec (list (@mesh Q)) :=
  do nm <- getN; getMany nm (do nt <- getN; do ts <- getMany nt getIdx3; ret (map (mk_itri vs) ts)).
Definition pick {A} (l : list (list A)) (ids : list nat) : list (list A) := map (fun i => nth i l []) ids.
Definition getIds : dec (list nat) := do k <- getN; getNs k.

Definition run_c09 (w : wire) : wire :=
  match w with
  | 1 :: den :: w' =>
      run_dec (do p <- getV den; do a <- getV den; do b <- getV den; do c <- getV den; ret (p, (a, b, c))) w'
        (fun '(p, T) =>
           match dist_point_triangle Qops p T zeroV with
           | DOk d2 al ins => [0; if ins then 1 else 0] ++ outV al ++ outQ d2
           | DErr c => [zn c]
           end)
  | 9 :: den :: w' =>       (* the independent certifying closest-point oracle on a triangle *)
      run_dec (do p <- getV den; do a <- getV den; do b <- getV den; do c <- getV den; ret (p, (a, b, c))) w'
        (fun '(p, T) =>
           match closest_oracle Qops p T with
           | Some al => [0] ++ outV al ++ outQ (vnorm2 Qops (vsub Qops p (recon Qops T al)))
           | None => [7]
           end)
  | 2 :: den :: w' =>
      run_dec (do p <- getV den; do nv <- getN; do vs <- getMany nv (getV den); do ms <- getMeshes vs;
               do ids <- getIds; ret (p, pick ms ids)) w'
        (fun '(p, ifc) =>
           let st := dist_point_interface Qops p ifc zeroV in
           match is_err st, is_d st, is_near st, head2ecog_row Qops ifc p with
           | None, Some d, Some (mi, ti), Some r => [0; zn mi; zn ti] ++ outV (is_al st) ++ outQ d ++ outRow r
           | Some c, _, _, _ => [zn c]
           | _, _, _, _ => [4]
           end)
  | op :: den :: w' =>
      if (op =? 3) || (op =? 4) then   (* 3: the code as it is, 4: the variant keeping the minimum's weights *)
      run_dec (do den' <- getZ; do np <- getN; do ps <- getMany np (getV den');
               do nv <- getN; do vs <- getMany nv (getV den'); do ms <- getMeshes vs;
               do ni <- getN; do ifs <- getMany ni getIds;
               do nd <- getN; do ds <- getMany nd (do s <- getZ; do bs <- getIds; ret (s, bs));
               ret (ps, map (fun '(s, bs) => (inject_Z s, map (fun i => (i, pick ms (nth i ifs []))) bs)) ds)) w'
        (fun '(ps, g) =>
           0 :: flat_map (fun p =>
           let st := dist_point_geom_gen Qops (op =? 4) p g zeroV in
           match gs_err st, gs_d st, gs_near st, geom_triangle g st with
           | None, Some d, Some (iid, mi, ti), Some t =>
               [zn iid; zn (get3 (snd t) 0); zn (get3 (snd t) 1); zn (get3 (snd t) 2)] ++ outV (gs_al st) ++ outQ d
                 ++ outRow (write_row (snd t) (gs_al st))
           | Some c, _, _, _ => [-100 - zn c]
           | _, _, _, _ => [-104]
           end) ps)
      else if (op =? 6) || (op =? 7) then   (* soup-level geometry, one point; 6: the code as it is, 7: keeping the minimum's weights *)
      run_dec (do p <- getV den; do nv <- getN; do vs <- getMany nv (getV den); do ms <- getMeshes vs;
               do ni <- getN; do ifs <- getMany ni getIds;
               do nd <- getN; do ds <- getMany nd (do s <- getZ; do bs <- getIds; ret (s, bs));
               ret (p, map (fun '(s, bs) => (inject_Z s, map (fun i => (i, pick ms (nth i ifs []))) bs)) ds)) w'
        (fun '(p, g) =>
           let st := dist_point_geom_gen Qops (op =? 7) p g zeroV in
           match gs_err st, gs_d st, gs_near st, geom_triangle g st with
           | None, Some d, Some (iid, mi, ti), Some t =>
               [0; zn iid; zn (get3 (snd t) 0); zn (get3 (snd t) 1); zn (get3 (snd t) 2)] ++ outV (gs_al st) ++ outQ d
           | Some c, _, _, _ => [zn c]
           | _, _, _, _ => [4]
           end)
      else if op =? 12 then      (* label rule: tokens per line, n, per line: first token float-looking?, its integer part, last column *)
      run_dec (do nt <- getN; do n <- getN; do ds <- getNs n; do vs <- getNs n; do ws <- getZs n; ret (nt, map (fun d => negb (Nat.eqb d 0)) ds, vs, map inject_Z ws)) (den :: w')
        (fun '(nt, ds, vs, ws) =>
           match file_matrix_of_tokens Qops nt ds vs ws with
           | Some (nb, M) => [0; if file_is_labelled ds then 1 else 0; zn nb] ++ flat_map (fun r => map (fun q => Qnum (Qred q)) r) M
           | None => [3]
           end)
      else if op =? 11 then      (* file semantics: labelled flag, ncol, n, labels (n, ignored when unlabelled), last column (n) *)
      run_dec (do lab <- getN; do ncol <- getN; do n <- getN; do ls <- getNs n; do ws <- getZs n; ret (negb (Nat.eqb lab 0), ncol, ls, map inject_Z ws)) (den :: w')
        (fun '(lab, ncol, ls, ws) =>
           match file_weights_matrix Qops lab ncol ls ws with
           | Some (nb, M) => 0 :: zn nb :: flat_map (fun r => map (fun q => Qnum (Qred q)) r) M
           | None => [3]
           end)
      else if op =? 10 then      (* label-based constructor: labels, integer weights *)
      run_dec (do n <- getN; do ls <- getNs n; do ws <- getZs n; ret (ls, map inject_Z ws)) (den :: w')
        (fun '(ls, ws) =>
           let '(nb, M) := ctor_weights_matrix Qops ls ws in
           0 :: zn nb :: flat_map (fun r => map (fun q => Qnum (Qred q)) r) M)
      else if op =? 5 then
      run_dec (do n <- getN; do ls <- getNs n; do ws <- getZs n; ret (ls, map inject_Z ws)) (den :: w')
        (fun '(ls, ws) =>
           let '(nb, M) := weights_matrix Qops ls ws in
           0 :: zn nb :: flat_map (fun r => map (fun q => Qnum (Qred q)) r) M)
      else [-1]
  | _ => [-1]
  end.
