(* The real-number instance of the numeric record: the instance the theorems are stated for. *)
From Coq Require Import Reals Lra.
From OM Require Import Base.Ops Geom.V3Q.
Local Open Scope R_scope.

Definition Rltb (x y : R) : bool := if Rlt_dec x y then true else false.
Definition Rleb (x y : R) : bool := if Rle_dec x y then true else false.
Definition Reqb (x y : R) : bool := if Req_EM_T x y then true else false.

(* sqrt, ln: the library functions; atan2 is not used by the models proved over this instance *)
Definition Rops : Ops R :=
  mkOps R 0 1 Rplus Rminus Rmult Rdiv Ropp Rabs Rltb Rleb Reqb IZR sqrt ln (fun y x => 0) PI.

Lemma Rltb_true x y : Rltb x y = true <-> x < y.
Proof. unfold Rltb; destruct (Rlt_dec x y); split; intros; auto; try discriminate; contradiction. Qed.
Lemma Rltb_false x y : Rltb x y = false <-> y <= x.
Proof. unfold Rltb; destruct (Rlt_dec x y); split; intros; auto; try discriminate; lra. Qed.
Lemma Rleb_true x y : Rleb x y = true <-> x <= y.
Proof. unfold Rleb; destruct (Rle_dec x y); split; intros; auto; try discriminate; contradiction. Qed.
Lemma Rleb_false x y : Rleb x y = false <-> y < x.
Proof. unfold Rleb; destruct (Rle_dec x y); split; intros; auto; try discriminate; lra. Qed.
Lemma Reqb_true x y : Reqb x y = true <-> x = y.
Proof. unfold Reqb; destruct (Req_EM_T x y); split; intros; auto; try discriminate; contradiction. Qed.
Lemma Reqb_false x y : Reqb x y = false <-> x <> y.
Proof. unfold Reqb; destruct (Req_EM_T x y); split; intros; auto; try discriminate; contradiction. Qed.
