(* C10 -- the head matrix is a LINEAR function of the kernel family (Sk, Dk), with coefficients that come from the
   geometry only (orientation, sigma, sigma_inv, indicator, K, edge vectors, areas, the index tables):
     headmat (a*S1 + b*S2, a*D1 + b*D2) = a * headmat (S1,D1) + b * headmat (S2,D2)      entry by entry,
   for every indexed geometry (no well-formedness needed).  Together with the trivial extensionality in the kernels
   this is the precise form of "each entry is a fixed linear combination of kernel values".
   Also: the packed storage is symmetric by construction, accumulations commute, and the cells that are ASSIGNED
   (S blocks) are never cells that are accumulated into. *)
From Coq Require Import List NArith ZArith Bool FMapPositive Reals Lra Lia.
From OM Require Import Base.Ops Geom.Assembly Geom.AssemblyProofs.
Import ListNotations.
Local Open Scope R_scope.

(* ------------------------------------------------------------------ symmetric storage *)
Section Storage.
Notation mgetR := (mget RO).
Notation maddR := (madd RO).
Lemma headmat_symmetric K pos area Sk Dk (g : igeom R) i j :
  mgetR (headmat RO K pos area Sk Dk g) i j = mgetR (headmat RO K pos area Sk Dk g) j i.
Proof. apply mget_sym. Qed.
(* (i,j) and (j,i) are one cell: an assignment to one is read back from the other, accumulations add up *)
Lemma transposed_cell_assign (M : store R) i j x : mgetR (mset M i j x) j i = x.
Proof.
  rewrite mget_mset. rewrite !N.eqb_refl. destruct (N.eqb i j); simpl; auto. rewrite orb_true_r; auto.
Qed.
Lemma transposed_cell_accumulate (M : store R) i j x y : mgetR (maddR (maddR M i j x) j i y) i j = mgetR M i j + x + y.
Proof.
  rewrite !mget_madd. unfold hit. rewrite !N.eqb_refl. destruct (N.eqb j i); simpl; try rewrite orb_true_r; lra.
Qed.
Lemma accumulations_commute (M : store R) i j x k l y r c :
  mgetR (maddR (maddR M i j x) k l y) r c = mgetR (maddR (maddR M k l y) i j x) r c.
Proof. rewrite !mget_madd. lra. Qed.
(* an S cell (two triangle indices of the pair's meshes) is never a cell with a vertex index: no N, D, D* or
   deflate accumulation can land on it, so the order between assignments and accumulations is immaterial *)
Lemma assigned_cells_are_not_accumulated (g : igeom R) VV : wf_indexed g VV ->
  forall p t1 t2, In p (gpairs g) ->
  (In t1 (mtris (gmesh g (pm1 p))) \/ In t1 (mtris (gmesh g (pm2 p)))) ->
  (In t2 (mtris (gmesh g (pm1 p))) \/ In t2 (mtris (gmesh g (pm2 p)))) ->
  forall r c, In r (Cidx g VV) \/ In c (Cidx g VV) -> hit (tix t1) (tix t2) r c = false.
Proof.
  intros WF p t1 t2 Hp H1 H2 r c Hrc.
  pose proof (wf_tri _ _ WF p t1 Hp H1) as N1. pose proof (wf_tri _ _ WF p t2 Hp H2) as N2.
  unfold hit.
  destruct (N.eqb_spec (tix t1) r) as [E1|_]; destruct (N.eqb_spec (tix t2) c) as [E2|_];
  destruct (N.eqb_spec (tix t1) c) as [E3|_]; destruct (N.eqb_spec (tix t2) r) as [E4|_]; simpl; auto;
  exfalso; destruct Hrc as [H|H]; subst; auto.
Qed.
End Storage.

(* ------------------------------------------------------------------ linearity in the kernels *)
Section Linear.
Variable K : R.
Variable pos : N -> R * R * R.
Variable area : N -> R.
Variable g : igeom R.
Variables (S1 S2 : N -> N -> R) (D1 D2 : N -> N -> nat -> R) (a b : R).
Definition Sab : N -> N -> R := fun t u => a * S1 t u + b * S2 t u.
Definition Dab : N -> N -> nat -> R := fun t u i => a * D1 t u i + b * D2 t u i.
Notation mgetR := (mget RO).
Notation maddR := (madd RO).

Definition Lin (M M1 M2 : store R) : Prop := forall i j, mgetR M i j = a * mgetR M1 i j + b * mgetR M2 i j.

Lemma Lin_empty : Lin sempty sempty sempty.
Proof. intros i j. rewrite !mget_empty. lra. Qed.
Lemma Lin_mset M M1 M2 i j x x1 x2 : x = a * x1 + b * x2 -> Lin M M1 M2 -> Lin (mset M i j x) (mset M1 i j x1) (mset M2 i j x2).
Proof. intros Hx H r c. rewrite !mget_mset. destruct (_ || _)%bool; auto. Qed.
Lemma Lin_madd M M1 M2 i j x x1 x2 : x = a * x1 + b * x2 -> Lin M M1 M2 -> Lin (maddR M i j x) (maddR M1 i j x1) (maddR M2 i j x2).
Proof. intros Hx H r c. rewrite !mget_madd, (H r c). destruct (hit i j r c); subst; lra. Qed.
Lemma Lin_fold {A} (f f1 f2 : store R -> A -> store R) (L : list A) :
  (forall e, In e L -> forall M M1 M2, Lin M M1 M2 -> Lin (f M e) (f1 M1 e) (f2 M2 e)) ->
  forall M M1 M2, Lin M M1 M2 -> Lin (fold_left f L M) (fold_left f1 L M1) (fold_left f2 L M2).
Proof.
  induction L as [|e L IH]; intros Hf M M1 M2 H; simpl; auto.
  apply IH; [intros; apply Hf; simpl; auto|]. apply Hf; simpl; auto.
Qed.

Lemma Nval_lin fac (S T1 T2 : N -> N -> R) m1 m2 v1 v2 : (forall i j, S i j = a * T1 i j + b * T2 i j) ->
  Nval RO pos area fac S m1 m2 v1 v2 = a * Nval RO pos area fac T1 m1 m2 v1 v2 + b * Nval RO pos area fac T2 m1 m2 v1 v2.
Proof.
  intros H. rewrite !Nval_sum.
  transitivity (- (a * Rsum (fun t1 => Rsum (fun t2 => Nterm RO pos area fac T1 t1 v1 t2 v2) (tris_of m2 v2)) (tris_of m1 v1)
                 + b * Rsum (fun t1 => Rsum (fun t2 => Nterm RO pos area fac T2 t1 v1 t2 v2) (tris_of m2 v2)) (tris_of m1 v1))); [|lra].
  f_equal. rewrite <- !Rsum_scal, <- Rsum_plus. apply Rsum_ext; intros t1 _.
  rewrite <- !Rsum_scal, <- Rsum_plus. apply Rsum_ext; intros t2 _.
  rewrite !Nterm_lin, H. unfold Rdiv; ring.
Qed.

(* raw (non symmetric) temporary block *)
Definition LinR (B B1 B2 : store R) : Prop := forall i j, rget RO B i j = a * rget RO B1 i j + b * rget RO B2 i j.
Lemma rget_rput (M : store R) p q x i j : rget RO (rput M p q x) i j = if (N.eqb p i && N.eqb q j)%bool then x else rget RO M i j.
Proof.
  unfold rget. destruct (N.eqb_spec p i) as [->|Hp]; destruct (N.eqb_spec q j) as [->|Hq]; simpl;
    try (rewrite rfind_rput_same; reflexivity); rewrite rfind_rput_other; auto; congruence.
Qed.
Lemma LinR_put B B1 B2 p q x x1 x2 : x = a * x1 + b * x2 -> LinR B B1 B2 -> LinR (rput B p q x) (rput B1 p q x1) (rput B2 p q x2).
Proof. intros Hx H i j. rewrite !rget_rput. destruct (_ && _)%bool; auto. Qed.
Lemma LinR_empty : LinR sempty sempty sempty.
Proof. intros i j. unfold rget, rfind, sempty. rewrite !PositiveMap.gempty. simpl. lra. Qed.
Lemma LinR_fold {A} (f f1 f2 : store R -> A -> store R) (L : list A) :
  (forall e, In e L -> forall M M1 M2, LinR M M1 M2 -> LinR (f M e) (f1 M1 e) (f2 M2 e)) ->
  forall M M1 M2, LinR M M1 M2 -> LinR (fold_left f L M) (fold_left f1 L M1) (fold_left f2 L M2).
Proof.
  induction L as [|e L IH]; intros Hf M M1 M2 H; simpl; auto.
  apply IH; [intros; apply Hf; simpl; auto|]. apply Hf; simpl; auto.
Qed.

Lemma kS t u c : fmul RO (Sab t u) c = a * fmul RO (S1 t u) c + b * fmul RO (S2 t u) c.
Proof. unfold Sab. simpl. ring. Qed.
Lemma kD t u i c : fmul RO (Dab t u i) c = a * fmul RO (D1 t u i) c + b * fmul RO (D2 t u i) c.
Proof. unfold Dab. simpl. ring. Qed.

Lemma S_diag_lin coeff ts : forall M M1 M2, Lin M M1 M2 ->
  Lin (S_diag RO Sab (@mset R) M coeff ts) (S_diag RO S1 (@mset R) M1 coeff ts) (S_diag RO S2 (@mset R) M2 coeff ts).
Proof.
  induction ts as [|t1 rest IH]; intros M M1 M2 H; cbn [S_diag]; auto.
  apply IH. revert M M1 M2 H. apply Lin_fold. intros t2 _ M M1 M2 H. apply Lin_mset; auto. apply kS.
Qed.
Lemma S_diag_bloc_lin off ts : forall B B1 B2, Lin B B1 B2 ->
  Lin (S_diag RO Sab (sbset off) B (f1 RO) ts) (S_diag RO S1 (sbset off) B1 (f1 RO) ts) (S_diag RO S2 (sbset off) B2 (f1 RO) ts).
Proof.
  induction ts as [|t1 rest IH]; intros M M1 M2 H; cbn [S_diag]; auto.
  apply IH. revert M M1 M2 H. apply Lin_fold. intros t2 _ M M1 M2 H. unfold sbset. apply Lin_mset; auto. apply kS.
Qed.
Lemma S_off_lin coeff ts1 ts2 : forall M M1 M2, Lin M M1 M2 ->
  Lin (S_off RO Sab (@mset R) M coeff ts1 ts2) (S_off RO S1 (@mset R) M1 coeff ts1 ts2) (S_off RO S2 (@mset R) M2 coeff ts1 ts2).
Proof.
  unfold S_off. apply Lin_fold. intros t1 _ M M1 M2 H. revert M M1 M2 H. apply Lin_fold. intros t2 _ M M1 M2 H.
  apply Lin_mset; auto. apply kS.
Qed.
Lemma S_off_bloc_lin i0 j0 ts1 ts2 : forall B B1 B2, LinR B B1 B2 ->
  LinR (S_off RO Sab (bset i0 j0) B (f1 RO) ts1 ts2) (S_off RO S1 (bset i0 j0) B1 (f1 RO) ts1 ts2) (S_off RO S2 (bset i0 j0) B2 (f1 RO) ts1 ts2).
Proof.
  unfold S_off. apply LinR_fold. intros t1 _ M M1 M2 H. revert M M1 M2 H. apply LinR_fold. intros t2 _ M M1 M2 H.
  unfold bset. apply LinR_put; auto. apply kS.
Qed.
Lemma D_block_lin coeff ts1 ts2 : forall M M1 M2, Lin M M1 M2 ->
  Lin (D_block RO Dab g M coeff ts1 ts2) (D_block RO D1 g M1 coeff ts1 ts2) (D_block RO D2 g M2 coeff ts1 ts2).
Proof.
  unfold D_block. apply Lin_fold. intros t1 _ M M1 M2 H. revert M M1 M2 H. apply Lin_fold. intros t2 _ M M1 M2 H.
  revert M M1 M2 H. apply Lin_fold. intros i _ M M1 M2 H. apply Lin_madd; auto. apply kD.
Qed.
Lemma N_off_lin coeff (S T1 T2 : N -> N -> R) m1 m2 : (forall i j, S i j = a * T1 i j + b * T2 i j) ->
  forall M M1 M2, Lin M M1 M2 ->
  Lin (N_off RO pos area g M coeff S m1 m2) (N_off RO pos area g M1 coeff T1 m1 m2) (N_off RO pos area g M2 coeff T2 m1 m2).
Proof.
  intros HS. unfold N_off. apply Lin_fold. intros u _ M M1 M2 H. revert M M1 M2 H. apply Lin_fold. intros v _ M M1 M2 H.
  apply Lin_madd; auto. rewrite (Nval_lin _ S T1 T2) by auto. simpl. ring.
Qed.
Lemma N_diag_lin coeff (S T1 T2 : N -> N -> R) m : (forall i j, S i j = a * T1 i j + b * T2 i j) ->
  forall vs M M1 M2, Lin M M1 M2 ->
  Lin (N_diag RO pos area g M coeff S m vs) (N_diag RO pos area g M1 coeff T1 m vs) (N_diag RO pos area g M2 coeff T2 m vs).
Proof.
  intros HS. induction vs as [|u rest IH]; intros M M1 M2 H; cbn [N_diag]; auto.
  apply IH. revert M M1 M2 H. apply Lin_fold. intros v _ M M1 M2 H.
  apply Lin_madd; auto. rewrite (Nval_lin _ S T1 T2) by auto. simpl. ring.
Qed.

Lemma pair_step_lin p M M1 M2 : Lin M M1 M2 ->
  Lin (pair_step RO K pos area Sab Dab g M p) (pair_step RO K pos area S1 D1 g M1 p) (pair_step RO K pos area S2 D2 g M2 p).
Proof.
  intros H. unfold pair_step. cbv zeta.
  set (cS := fmul RO (fmul RO (fofZ RO (porient p)) K) (psiginv p)).
  set (cN := fmul RO (fmul RO (fofZ RO (porient p)) K) (psig p)).
  set (cD := fmul RO (fopp RO (fmul RO (fofZ RO (porient p)) K)) (pind p)).
  clearbody cS cN cD.
  set (m1 := gmesh g (pm1 p)). set (m2 := gmesh g (pm2 p)).
  destruct (Nat.eqb (pm1 p) (pm2 p)).
  - unfold diag_block. cbv zeta.
    assert (Lin (if mbarrier m1 then M else S_diag RO Sab (@mset R) M cS (mtris m1))
                (if mbarrier m1 then M1 else S_diag RO S1 (@mset R) M1 cS (mtris m1))
                (if mbarrier m1 then M2 else S_diag RO S2 (@mset R) M2 cS (mtris m1))) as HA.
    { destruct (mbarrier m1); auto. apply S_diag_lin; auto. }
    set (MA := if mbarrier m1 then M else S_diag RO Sab (@mset R) M cS (mtris m1)) in *.
    set (MA1 := if mbarrier m1 then M1 else S_diag RO S1 (@mset R) M1 cS (mtris m1)) in *.
    set (MA2 := if mbarrier m1 then M2 else S_diag RO S2 (@mset R) M2 cS (mtris m1)) in *.
    match goal with |- Lin (if _ then ?X else _) (if _ then ?X1 else _) (if _ then ?X2 else _) => assert (Lin X X1 X2) as HB end.
    { destruct (feqb RO (if mbarrier m1 then f0 RO else cS) (f0 RO)).
      - apply N_diag_lin; auto. intros i j. unfold sbget. apply (S_diag_bloc_lin (front_ix m1) (mtris m1) sempty sempty sempty Lin_empty).
      - apply N_diag_lin; auto. }
    destruct (mbarrier m1); auto. apply D_block_lin; auto.
  - unfold nondiag_block. cbv zeta.
    assert (forall i j, mgetR (S_off RO Sab (@mset R) M cS (mtris m1) (mtris m2)) i j
                        = a * mgetR (S_off RO S1 (@mset R) M1 cS (mtris m1) (mtris m2)) i j + b * mgetR (S_off RO S2 (@mset R) M2 cS (mtris m1) (mtris m2)) i j) as HSo
      by (apply S_off_lin; exact H).
    assert (forall i j, bget RO (front_ix m1) (front_ix m2) (S_off RO Sab (bset (front_ix m1) (front_ix m2)) sempty (f1 RO) (mtris m1) (mtris m2)) i j
                        = a * bget RO (front_ix m1) (front_ix m2) (S_off RO S1 (bset (front_ix m1) (front_ix m2)) sempty (f1 RO) (mtris m1) (mtris m2)) i j
                        + b * bget RO (front_ix m1) (front_ix m2) (S_off RO S2 (bset (front_ix m1) (front_ix m2)) sempty (f1 RO) (mtris m1) (mtris m2)) i j) as HBl.
    { intros i j. unfold bget. apply (S_off_bloc_lin (front_ix m1) (front_ix m2) (mtris m1) (mtris m2) sempty sempty sempty LinR_empty). }
    destruct (mbarrier m1); destruct (mbarrier m2); cbn [negb andb]; destruct (tris_eqb (mtris m1) (mtris m2)); cbn [negb andb];
      destruct (feqb RO _ _);
      repeat (first [ exact H | exact HSo | exact HBl | apply D_block_lin | apply N_off_lin | apply S_off_lin ]).
Qed.

Lemma deflate_mesh_lin c c1 c2 vs : c = a * c1 + b * c2 -> forall M M1 M2, Lin M M1 M2 ->
  Lin (deflate_mesh RO g M c vs) (deflate_mesh RO g M1 c1 vs) (deflate_mesh RO g M2 c2 vs).
Proof.
  intros Hc. induction vs as [|u rest IH]; intros M M1 M2 H; cbn [deflate_mesh]; auto.
  apply IH. revert M M1 M2 H. apply Lin_fold. intros v _ M M1 M2 H. apply Lin_madd; auto.
Qed.
Lemma deflate_part_lin part M M1 M2 : Lin M M1 M2 -> Lin (deflate_part RO g M part) (deflate_part RO g M1 part) (deflate_part RO g M2 part).
Proof.
  intros H. unfold deflate_part. destruct (part_scan g part) as [nb ifirst].
  assert (fdiv RO (mgetR M ifirst ifirst) (fofZ RO (Z.of_N nb)) = a * fdiv RO (mgetR M1 ifirst ifirst) (fofZ RO (Z.of_N nb)) + b * fdiv RO (mgetR M2 ifirst ifirst) (fofZ RO (Z.of_N nb))) as Hc.
  { rewrite (H ifirst ifirst). simpl. unfold Rdiv. ring. }
  revert Hc. generalize (fdiv RO (mgetR M ifirst ifirst) (fofZ RO (Z.of_N nb))) (fdiv RO (mgetR M1 ifirst ifirst) (fofZ RO (Z.of_N nb))) (fdiv RO (mgetR M2 ifirst ifirst) (fofZ RO (Z.of_N nb))).
  intros c c1 c2 Hc. revert M M1 M2 H. apply Lin_fold. intros k _ M M1 M2 H.
  destruct (mouter (gmesh g k)); auto. apply deflate_mesh_lin; auto.
Qed.

Theorem headmat_linear_in_kernels_lemma : forall i j,
  mgetR (headmat RO K pos area Sab Dab g) i j
  = a * mgetR (headmat RO K pos area S1 D1 g) i j + b * mgetR (headmat RO K pos area S2 D2 g) i j.
Proof.
  unfold headmat, deflate, assemble_pairs.
  apply (Lin_fold (deflate_part RO g) (deflate_part RO g) (deflate_part RO g)); [intros; apply deflate_part_lin; auto|].
  apply (Lin_fold (pair_step RO K pos area Sab Dab g) (pair_step RO K pos area S1 D1 g) (pair_step RO K pos area S2 D2 g));
    [intros; apply pair_step_lin; auto | apply Lin_empty].
Qed.
End Linear.
