(* C15 -- the flood fill of correct_local_orientation (model: visit_adj / fill in MeshCodec.v) drives every
   triangle it visits to the consistent orientation that agrees with triangle 0 (two-colouring argument). *)
From OM Require Import Base.Lists Geom.MeshCodec Geom.MeshCodecProofs.
From Coq Require Import NArith ZifyBool ZifyNat.
Local Open Scope nat_scope.

Definition nondeg (t : tri) : Prop := let '(a, b, c) := t in a <> b /\ b <> c /\ a <> c.
Definition pair_ok (t1 t2 : tri) : Prop := has_same_edge (dedges t1) (dedges t2) = false.
Definition share2 (t t' : tri) : Prop :=
  exists u v, u <> v /\ In u (tverts t) /\ In v (tverts t) /\ In u (tverts t') /\ In v (tverts t').

(* sg is an orientation of ts0: the same triangles, each possibly flipped *)
Definition orientation_of (ts0 sg : list tri) : Prop :=
  length sg = length ts0 /\ forall i, i < length ts0 -> tnth sg i = tnth ts0 i \/ tnth sg i = flip (tnth ts0 i).
(* ... in which no two triangles run along a common edge in the same direction *)
Definition consistent_all (sg : list tri) : Prop :=
  forall i j, i < length sg -> j < length sg -> i <> j -> pair_ok (tnth sg i) (tnth sg j).

(* ------------------------------------------------------------------ triangles and edges *)
Lemma tverts_flip t x : In x (tverts (flip t)) <-> In x (tverts t).
Proof. destruct t as [[a b] c]; simpl; tauto. Qed.

Lemma nondeg_flip t : nondeg t -> nondeg (flip t).
Proof. destruct t as [[a b] c]; simpl; intuition. Qed.

Lemma flip_edges t u v : In (u, v) (dedges (flip t)) <-> In (v, u) (dedges t).
Proof.
  destruct t as [[a b] c]; simpl.
  split; intros [H|[H|[H|[]]]]; inversion H; subst; auto.
Qed.

Lemma nondeg_edge t u v : nondeg t -> u <> v -> In u (tverts t) -> In v (tverts t) ->
  In (u, v) (dedges t) \/ In (v, u) (dedges t).
Proof.
  destruct t as [[a b] c]; simpl. intros _ Huv [<-|[<-|[<-|[]]]] [<-|[<-|[<-|[]]]]; try congruence; auto 10.
Qed.

Lemma hse_true e a b : In e a -> In e b -> has_same_edge a b = true.
Proof.
  intros Ha Hb. unfold has_same_edge. apply existsb_exists. exists e; split; auto.
  apply existsb_exists. exists e; split; auto. apply peqb_eq; auto.
Qed.

Lemma hse_false e a b : has_same_edge a b = false -> In e a -> In e b -> False.
Proof. intros H Ha Hb. rewrite (hse_true e a b Ha Hb) in H. discriminate. Qed.

(* the decision taken for a neighbour: s1 is already right, s2 is the right orientation of the neighbour *)
Lemma decide_flip s1 s2 : nondeg s1 -> nondeg s2 -> share2 s1 s2 -> pair_ok s1 s2 ->
  has_same_edge (dedges s1) (dedges (flip s2)) = true.
Proof.
  intros N1 N2 [u [v [Huv [H1u [H1v [H2u H2v]]]]]] Hok.
  destruct (nondeg_edge s1 u v N1 Huv H1u H1v) as [E1|E1];
  destruct (nondeg_edge s2 u v N2 Huv H2u H2v) as [E2|E2].
  - exfalso. eapply hse_false; eauto.
  - eapply hse_true; eauto. apply flip_edges; auto.
  - eapply hse_true; eauto. apply flip_edges; auto.
  - exfalso. eapply hse_false; eauto.
Qed.

(* ------------------------------------------------------------------ adjacent_triangles *)
Lemma second_occ_count l : forall seen x, In x (second_occ seen l) ->
  2 <= count_occ Nat.eq_dec seen x + count_occ Nat.eq_dec l x.
Proof.
  induction l as [|y r IH]; intros seen x H; simpl in *; [contradiction|].
  destruct (count_occ Nat.eq_dec seen y =? 1) eqn:E.
  - destruct H as [<-|H].
    + apply Nat.eqb_eq in E. destruct (Nat.eq_dec y y); [lia|congruence].
    + apply IH in H. simpl in H. destruct (Nat.eq_dec y x); lia.
  - apply IH in H. simpl in H. destruct (Nat.eq_dec y x); lia.
Qed.

Definition slots (t : tri) (v : nat) : nat := length (filter (Nat.eqb v) (tverts t)).

Lemma count_const i x n : count_occ Nat.eq_dec (map (fun _ : nat => i) n) x = if Nat.eq_dec i x then length n else 0.
Proof. induction n as [|a n IH]; simpl; [destruct (Nat.eq_dec i x); auto|]. rewrite IH. destruct (Nat.eq_dec i x); auto. Qed.

Lemma count_vtris ts : forall i0 v x,
  count_occ Nat.eq_dec (vtris_from i0 ts v) x =
  if (i0 <=? x) && (x <? i0 + length ts) then slots (tnth ts (x - i0)) v else 0.
Proof.
  induction ts as [|t r IH]; intros i0 v x; simpl.
  - destruct (i0 <=? x) eqn:E1; simpl; auto. destruct (x <? i0 + 0) eqn:E2; auto.
    apply Nat.leb_le in E1. apply Nat.ltb_lt in E2. exfalso. clear - E1 E2. rewrite Nat.add_0_r in E2. apply (Nat.lt_irrefl x). eapply Nat.lt_le_trans; eauto.
  - rewrite count_occ_app, count_const, IH.
    destruct (Nat.eq_dec i0 x) as [->|Hne].
    + rewrite Nat.sub_diag.
      replace ((x <=? x) && (x <? x + S (length r))) with true.
      2:{ symmetry. apply andb_true_iff. split; [apply Nat.leb_le|apply Nat.ltb_lt]; simpl; lia. }
      destruct (S x <=? x) eqn:E; [apply Nat.leb_le in E; lia|]. cbn [andb].
      unfold tnth, slots; cbn [nth]. lia.
    + destruct (Nat.leb_spec i0 x), (Nat.leb_spec (S i0) x), (Nat.ltb_spec x (S i0 + length r)),
               (Nat.ltb_spec x (i0 + S (length r))); cbn [andb]; try lia.
      replace (x - i0) with (S (x - S i0)) by lia. reflexivity.
Qed.

Lemma slots_nondeg t v : nondeg t -> slots t v <= 1 /\ (slots t v = 1 -> In v (tverts t)).
Proof.
  destruct t as [[a b] c]; unfold slots; simpl. intros [H1 [H2 H3]].
  destruct (Nat.eqb_spec v a), (Nat.eqb_spec v b), (Nat.eqb_spec v c); subst; simpl; try congruence; split; auto; lia.
Qed.

Lemma adjacent_share2 ts t tp : (forall i, i < length ts -> nondeg (tnth ts i)) -> nondeg t ->
  In tp (adjacent ts t) -> tp < length ts /\ share2 t (tnth ts tp).
Proof.
  intros Hnd Ht H. unfold adjacent in H. apply second_occ_count in H. simpl in H.
  destruct t as [[a b] c]. simpl in H. rewrite !count_occ_app in H. simpl in H.
  unfold vtris in H. rewrite !count_vtris in H. simpl in H. rewrite Nat.sub_0_r in H.
  destruct (tp <? length ts) eqn:E; [|lia]. apply Nat.ltb_lt in E. split; auto.
  destruct (slots_nondeg (tnth ts tp) a (Hnd tp E)) as [A1 A2].
  destruct (slots_nondeg (tnth ts tp) b (Hnd tp E)) as [B1 B2].
  destruct (slots_nondeg (tnth ts tp) c (Hnd tp E)) as [C1 C2].
  destruct Ht as [Hab [Hbc Hac]].
  unfold share2; simpl.
  destruct (Nat.eq_dec (slots (tnth ts tp) a) 1) as [Ea|Ea];
  destruct (Nat.eq_dec (slots (tnth ts tp) b) 1) as [Eb|Eb];
  destruct (Nat.eq_dec (slots (tnth ts tp) c) 1) as [Ec|Ec]; try lia.
  - exists a, b; repeat split; auto.
  - exists a, b; repeat split; auto.
  - exists a, c; repeat split; auto.
  - exists b, c; repeat split; auto.
Qed.


Lemma second_occ_complete l : forall seen x, count_occ Nat.eq_dec seen x <= 1 ->
  2 <= count_occ Nat.eq_dec seen x + count_occ Nat.eq_dec l x -> In x (second_occ seen l).
Proof.
  induction l as [|y r IH]; intros seen x Hs H; simpl in *; [lia|].
  destruct (Nat.eq_dec y x) as [->|Hne].
  - destruct (count_occ Nat.eq_dec seen x =? 1) eqn:E.
    + simpl; auto.
    + apply Nat.eqb_neq in E. apply IH; simpl; destruct (Nat.eq_dec x x); try congruence; lia.
  - assert (In x (second_occ (y :: seen) r)).
    { apply IH; simpl; destruct (Nat.eq_dec y x); try congruence; lia. }
    destruct (count_occ Nat.eq_dec seen y =? 1); simpl; auto.
Qed.

Lemma slots_in t v : nondeg t -> In v (tverts t) -> slots t v = 1.
Proof.
  destruct t as [[a b] c]; unfold slots; simpl. intros [H1 [H2 H3]] [<-|[<-|[<-|[]]]];
  repeat match goal with |- context [?x =? ?y] => destruct (Nat.eqb_spec x y) end; simpl; congruence.
Qed.

Lemma share2_adjacent ts t tp : (forall i, i < length ts -> nondeg (tnth ts i)) -> nondeg t ->
  tp < length ts -> share2 t (tnth ts tp) -> In tp (adjacent ts t).
Proof.
  intros Hnd Ht Htp [u [v [Huv [Hu [Hv [Hu' Hv']]]]]].
  unfold adjacent. apply second_occ_complete; [simpl; lia|]. simpl.
  pose proof (slots_in (tnth ts tp) u (Hnd tp Htp) Hu') as Su.
  pose proof (slots_in (tnth ts tp) v (Hnd tp Htp) Hv') as Sv.
  destruct t as [[a b] c]. simpl. rewrite !count_occ_app. simpl. unfold vtris. rewrite !count_vtris. simpl.
  rewrite Nat.sub_0_r. replace (tp <? length ts) with true by (symmetry; apply Nat.ltb_lt; auto).
  simpl in Hu, Hv. destruct Hu as [<-|[<-|[<-|[]]]]; destruct Hv as [<-|[<-|[<-|[]]]]; try congruence; lia.
Qed.

(* bookkeeping of one pass over adjacent_triangles: the new triangles go on top of the stack and of the visited list *)
Lemma visit_adj_struct e1 adj : forall stk vis ts,
  exists news, fst (fst (visit_adj e1 adj (stk, vis, ts))) = news ++ stk /\
               snd (fst (visit_adj e1 adj (stk, vis, ts))) = news ++ vis /\
               (forall x, In x news -> In x adj) /\
               (NoDup vis -> NoDup (news ++ vis)) /\
               (forall x, In x adj -> In x (news ++ vis)).
Proof.
  induction adj as [|tp r IH]; intros stk vis ts; simpl.
  - exists []; simpl; repeat split; auto. intros x [].
  - destruct (existsb (Nat.eqb tp) vis) eqn:E.
    + destruct (IH stk vis ts) as [news [A [B [C0 [D F]]]]]. exists news. repeat split; auto.
      intros x [<-|Hx]; auto. apply in_or_app; right. apply existsb_exists in E. destruct E as [y [Hy Ey]].
      apply Nat.eqb_eq in Ey; subst; auto.
    + set (ts' := if has_same_edge e1 (dedges (tnth ts tp)) then upd ts tp (flip (tnth ts tp)) else ts).
      destruct (IH (tp :: stk) (tp :: vis) ts') as [news [A [B [C0 [D F]]]]].
      exists (news ++ [tp]). rewrite <- !app_assoc; simpl. repeat split; auto.
      * intros x Hx. apply in_app_or in Hx. destruct Hx as [Hx|[<-|[]]]; auto.
      * intros Hnd. apply D. constructor; auto. intros Hin.
        assert (existsb (Nat.eqb tp) vis = true); [|congruence].
        apply existsb_exists. exists tp; split; auto. apply Nat.eqb_refl.
      * intros x [<-|Hx]; [apply in_or_app; right; simpl; auto|apply F; auto].
Qed.

(* ------------------------------------------------------------------ the invariant of the fill *)
Section Fill.
Variable ts0 sg : list tri.
Hypothesis Hnd0 : forall i, i < length ts0 -> nondeg (tnth ts0 i).
Hypothesis Hor : orientation_of ts0 sg.
Hypothesis Hcons : consistent_all sg.

Definition inv (vis : list nat) (ts : list tri) : Prop :=
  length ts = length ts0 /\
  forall i, i < length ts0 -> (In i vis -> tnth ts i = tnth sg i) /\ (~ In i vis -> tnth ts i = tnth ts0 i).

Lemma sg_nondeg i : i < length ts0 -> nondeg (tnth sg i).
Proof. intros H. destruct Hor as [_ Ho]. destruct (Ho i H) as [->| ->]; auto. apply nondeg_flip; auto. Qed.

Lemma sg_verts i x : i < length ts0 -> (In x (tverts (tnth sg i)) <-> In x (tverts (tnth ts0 i))).
Proof. intros H. destruct Hor as [_ Ho]. destruct (Ho i H) as [->| ->]; [tauto|apply tverts_flip]. Qed.

Lemma inv_verts vis ts i x : inv vis ts -> i < length ts0 -> (In x (tverts (tnth ts i)) <-> In x (tverts (tnth ts0 i))).
Proof.
  intros [_ Hi] H. destruct (in_dec Nat.eq_dec i vis) as [Hv|Hv].
  - rewrite (proj1 (Hi i H) Hv). apply sg_verts; auto.
  - rewrite (proj2 (Hi i H) Hv). tauto.
Qed.

Lemma inv_nondeg vis ts i : inv vis ts -> i < length ts -> nondeg (tnth ts i).
Proof.
  intros Hinv H. pose proof Hinv as [Hl Hi]. rewrite Hl in H. destruct (in_dec Nat.eq_dec i vis) as [Hv|Hv].
  - rewrite (proj1 (Hi i H) Hv). apply sg_nondeg; auto.
  - rewrite (proj2 (Hi i H) Hv). auto.
Qed.

Lemma tnth_upd ts i j x : tnth (upd ts i x) j = if (i =? j) && (i <? length ts) then x else tnth ts j.
Proof. unfold tnth. apply nth_upd. Qed.

Lemma existsb_eqb_in x l : existsb (Nat.eqb x) l = true <-> In x l.
Proof.
  rewrite existsb_exists. split; [intros [y [Hy He]]; apply Nat.eqb_eq in He; subst; auto|].
  intros H; exists x; split; auto. apply Nat.eqb_refl.
Qed.

(* one pass over adjacent_triangles(t1), t1 already right *)
Lemma visit_adj_inv t1 adj : forall stk vis ts,
  t1 < length ts0 -> In t1 vis ->
  (forall tp, In tp adj -> tp < length ts0 /\ share2 (tnth sg t1) (tnth ts0 tp)) ->
  inv vis ts -> (forall i, In i stk -> In i vis /\ i < length ts0) ->
  let '(stk', vis', ts') := visit_adj (dedges (tnth sg t1)) adj (stk, vis, ts) in
  inv vis' ts' /\ (forall i, In i stk' -> In i vis' /\ i < length ts0) /\ (forall i, In i vis -> In i vis').
Proof.
  induction adj as [|tp r IH]; intros stk vis ts Ht1 Hv1 Hadj Hinv Hstk; simpl; [auto|].
  destruct (existsb (Nat.eqb tp) vis) eqn:E.
  - apply IH; auto. intros x Hx; apply Hadj; simpl; auto.
  - assert (Hnv : ~ In tp vis) by (intros Hc; apply existsb_eqb_in in Hc; congruence).
    destruct (Hadj tp (or_introl eq_refl)) as [Htp Hsh].
    pose proof Hinv as [Hl Hi].
    assert (Hcur : tnth ts tp = tnth ts0 tp) by (apply (Hi tp Htp); auto).
    assert (Hne : t1 <> tp) by (intros ->; contradiction).
    destruct Hor as [Hlen Ho].
    assert (Hok : pair_ok (tnth sg t1) (tnth sg tp)) by (apply Hcons; auto; lia).
    set (ts' := if has_same_edge (dedges (tnth sg t1)) (dedges (tnth ts tp)) then upd ts tp (flip (tnth ts tp)) else ts).
    assert (Hinv' : inv (tp :: vis) ts').
    { assert (Hnew : tnth ts' tp = tnth sg tp).
      { unfold ts'. rewrite Hcur. destruct (Ho tp Htp) as [Hs|Hs].
        - rewrite <- Hs. unfold pair_ok in Hok. rewrite Hok. rewrite Hcur; auto.
        - assert (Hs' : tnth ts0 tp = flip (tnth sg tp)) by (rewrite Hs, flip_flip; auto).
          rewrite Hs'. rewrite decide_flip; auto.
          + rewrite tnth_upd, Nat.eqb_refl. replace (tp <? length ts) with true by (symmetry; apply Nat.ltb_lt; lia).
            simpl. apply flip_flip.
          + apply sg_nondeg; auto.
          + apply sg_nondeg; auto.
          + destruct Hsh as [u [v [Huv [A [B [C0 D]]]]]]. exists u, v; repeat split; auto; apply sg_verts; auto. }
      split.
      - unfold ts'. destruct (has_same_edge _ _); [rewrite upd_length|]; auto.
      - intros i Hi0. split.
        + intros [<-|Hin]; auto.
          assert (i <> tp) by (intros ->; contradiction).
          unfold ts'. destruct (has_same_edge _ _); [rewrite tnth_upd|]; try apply (Hi i Hi0); auto.
          replace (tp =? i) with false by (symmetry; apply Nat.eqb_neq; auto). simpl. apply (Hi i Hi0); auto.
        + intros Hnin. assert (i <> tp) by (intros ->; apply Hnin; simpl; auto).
          assert (~ In i vis) by (intros Hc; apply Hnin; simpl; auto).
          unfold ts'. destruct (has_same_edge _ _); [rewrite tnth_upd|]; try apply (Hi i Hi0); auto.
          replace (tp =? i) with false by (symmetry; apply Nat.eqb_neq; auto). simpl. apply (Hi i Hi0); auto. }
    assert (Hstk' : forall i, In i (tp :: stk) -> In i (tp :: vis) /\ i < length ts0).
    { intros i [<-|Hin]; simpl; auto. destruct (Hstk i Hin); auto. }
    pose proof (IH (tp :: stk) (tp :: vis) ts' Ht1 (or_intror Hv1) (fun x Hx => Hadj x (or_intror Hx)) Hinv' Hstk') as IHr.
    fold ts'.
    destruct (visit_adj (dedges (tnth sg t1)) r (tp :: stk, tp :: vis, ts')) as [[stk2 vis2] ts2].
    destruct IHr as [I1 [I2 I3]]. split; [|split]; auto. intros i Hin. apply I3; simpl; auto.
Qed.

Lemma fill_inv fuel : forall stk vis ts,
  inv vis ts -> (forall i, In i stk -> In i vis /\ i < length ts0) ->
  exists vis', inv vis' (fill fuel stk vis ts) /\ (forall i, In i vis -> In i vis').
Proof.
  induction fuel as [|f IH]; intros stk vis ts Hinv Hstk; simpl; [destruct stk; exists vis; auto|].
  destruct stk as [|t1 stk']; [exists vis; auto|].
  destruct (Hstk t1 (or_introl eq_refl)) as [Hv1 Ht1].
  pose proof Hinv as [Hl Hi].
  assert (Hcur : tnth ts t1 = tnth sg t1) by (apply (Hi t1 Ht1); auto).
  rewrite Hcur.
  pose proof (visit_adj_inv t1 (adjacent ts (tnth sg t1)) stk' vis ts Ht1 Hv1) as Hstep.
  assert (Hadj : forall tp, In tp (adjacent ts (tnth sg t1)) -> tp < length ts0 /\ share2 (tnth sg t1) (tnth ts0 tp)).
  { intros tp Htp.
    assert (N1 : forall i, i < length ts -> nondeg (tnth ts i)) by (intros i Hi0; eapply inv_nondeg; eauto).
    assert (N2 : nondeg (tnth sg t1)) by (apply sg_nondeg; auto).
    destruct (adjacent_share2 ts (tnth sg t1) tp N1 N2 Htp) as [A B].
    rewrite Hl in A. split; auto.
    destruct B as [u [v [Huv [B1 [B2 [B3 B4]]]]]]. exists u, v.
    repeat split; auto; apply (proj1 (inv_verts vis ts tp _ Hinv A)); auto. }
  assert (Hstk2 : forall i, In i stk' -> In i vis /\ i < length ts0) by (intros i Hin; apply Hstk; simpl; auto).
  specialize (Hstep Hadj Hinv Hstk2).
  destruct (visit_adj (dedges (tnth sg t1)) (adjacent ts (tnth sg t1)) (stk', vis, ts)) as [[stk2 vis2] ts2].
  destruct Hstep as [I1 [I2 I3]].
  destruct (IH stk2 vis2 ts2 I1 I2) as [vis' [J1 J2]]. exists vis'; split; auto.
Qed.

(* correct_local_orientation, when it runs: triangle 0 and every triangle the fill visited have the orientation sg,
   the others are untouched *)
Lemma fill_consistent : 0 < length ts0 -> tnth sg 0 = tnth ts0 0 ->
  exists vis, In 0 vis /\ inv vis (fill (length ts0) [0] [0] ts0).
Proof.
  intros Hpos H0.
  destruct (fill_inv (length ts0) [0] [0] ts0) as [vis' [J1 J2]].
  - split; auto. intros i Hi. split.
    + intros [<-|[]]; auto.
    + auto.
  - intros i [<-|[]]; simpl; auto.
  - exists vis'; split; auto. apply J2; simpl; auto.
Qed.


(* ------------------------------------------------------------------ the traversal reaches every triangle *)
Definition E (i j : nat) : Prop := i < length ts0 /\ j < length ts0 /\ share2 (tnth ts0 i) (tnth ts0 j).
Definition closed (stk vis : list nat) : Prop := forall i, In i vis -> ~ In i stk -> forall j, E i j -> In j vis.

Lemma length_le_range (l : list nat) : NoDup l -> (forall i, In i l -> i < length ts0) -> length l <= length ts0.
Proof.
  intros Hnd Hlt. rewrite <- (seq_length (length ts0) 0). apply NoDup_incl_length; auto.
  intros i Hi. apply in_seq. specialize (Hlt i Hi). lia.
Qed.

Lemma fill_full fuel : forall stk vis ts,
  inv vis ts -> (forall i, In i stk -> In i vis /\ i < length ts0) ->
  NoDup vis -> (forall i, In i vis -> i < length ts0) ->
  closed stk vis -> length stk + (length ts0 - length vis) <= fuel ->
  exists vis', inv vis' (fill fuel stk vis ts) /\ (forall i, In i vis -> In i vis') /\ closed [] vis'.
Proof.
  induction fuel as [|f IH]; intros stk vis ts Hinv Hstk Hnd Hlt Hcl Hm.
  - destruct stk; [|simpl in Hm; lia]. simpl. exists vis; auto.
  - destruct stk as [|t1 stk']; [simpl; exists vis; auto|]. simpl.
    destruct (Hstk t1 (or_introl eq_refl)) as [Hv1 Ht1].
    pose proof Hinv as [Hl Hi].
    assert (Hcur : tnth ts t1 = tnth sg t1) by (apply (Hi t1 Ht1); auto).
    rewrite Hcur.
    assert (N1 : forall i, i < length ts -> nondeg (tnth ts i)) by (intros i Hi0; eapply inv_nondeg; eauto).
    assert (N2 : nondeg (tnth sg t1)) by (apply sg_nondeg; auto).
    pose proof (visit_adj_inv t1 (adjacent ts (tnth sg t1)) stk' vis ts Ht1 Hv1) as Hstep.
    assert (Hadj : forall tp, In tp (adjacent ts (tnth sg t1)) -> tp < length ts0 /\ share2 (tnth sg t1) (tnth ts0 tp)).
    { intros tp Htp.
      destruct (adjacent_share2 ts (tnth sg t1) tp N1 N2 Htp) as [A B].
      rewrite Hl in A. split; auto.
      destruct B as [u [v [Huv [B1 [B2 [B3 B4]]]]]]. exists u, v.
      repeat split; auto; apply (proj1 (inv_verts vis ts tp _ Hinv A)); auto. }
    assert (Hstk2 : forall i, In i stk' -> In i vis /\ i < length ts0) by (intros i Hin; apply Hstk; simpl; auto).
    specialize (Hstep Hadj Hinv Hstk2).
    destruct (visit_adj_struct (dedges (tnth sg t1)) (adjacent ts (tnth sg t1)) stk' vis ts) as [news [A [B [C0 [D F]]]]].
    destruct (visit_adj (dedges (tnth sg t1)) (adjacent ts (tnth sg t1)) (stk', vis, ts)) as [[stk2 vis2] ts2].
    simpl in A, B. subst stk2 vis2. destruct Hstep as [I1 [I2 I3]].
    assert (Hlt2 : forall i, In i (news ++ vis) -> i < length ts0).
    { intros i Hin. apply in_app_or in Hin. destruct Hin as [Hin|Hin]; auto. apply C0 in Hin. apply Hadj in Hin. tauto. }
    assert (Hlen : length (news ++ vis) <= length ts0) by (apply length_le_range; auto).
    assert (P1 : closed (news ++ stk') (news ++ vis)).
    { intros i Hin Hns j HE. apply in_app_or in Hin. destruct Hin as [Hin|Hin].
      * exfalso. apply Hns. apply in_or_app; auto.
      * destruct (Nat.eq_dec i t1) as [->|Hne].
        -- apply F. destruct HE as [_ [Hj Hsh]].
           apply share2_adjacent; auto; [lia|].
           destruct Hsh as [u [v [Huv [S1 [S2 [S3 S4]]]]]]. exists u, v. repeat split; auto.
           ++ apply sg_verts; auto.
           ++ apply sg_verts; auto.
           ++ apply (proj2 (inv_verts vis ts j _ Hinv Hj)); auto.
           ++ apply (proj2 (inv_verts vis ts j _ Hinv Hj)); auto.
        -- apply in_or_app; right. apply (Hcl i Hin); auto.
           intros [Heq|Hin']; [congruence|]. apply Hns. apply in_or_app; auto. }
    assert (P2 : length (news ++ stk') + (length ts0 - length (news ++ vis)) <= f).
    { rewrite !app_length in *. simpl in Hm. lia. }
    destruct (IH (news ++ stk') (news ++ vis) ts2 I1 I2 (D Hnd) Hlt2 P1 P2) as [vis' [J1 [J2 J3]]].
    exists vis'. split; [auto|split; [|auto]]. intros i Hin. apply J2. apply in_or_app; auto.
Qed.

Inductive reach : nat -> Prop :=
| reach0 : reach 0
| reach_step i j : reach i -> E i j -> reach j.

Lemma closed_reach vis : In 0 vis -> closed [] vis -> forall j, reach j -> In j vis.
Proof. intros H0 Hc j Hr. induction Hr; auto. eapply Hc; eauto. Qed.

(* edge-connected + a consistent orientation agreeing with triangle 0: the fill produces exactly that orientation *)
Lemma fill_connected : 0 < length ts0 -> tnth sg 0 = tnth ts0 0 ->
  (forall j, j < length ts0 -> reach j) -> fill (length ts0) [0] [0] ts0 = sg.
Proof.
  intros Hpos H0 Hconn.
  destruct (fill_full (length ts0) [0] [0] ts0) as [vis' [J1 [J2 J3]]].
  - split; auto. intros i Hi. split; [intros [<-|[]]; auto|auto].
  - intros i [<-|[]]; simpl; auto.
  - constructor; [intros []|constructor].
  - intros i [<-|[]]; auto.
  - intros i [<-|[]] Hn. exfalso; apply Hn; simpl; auto.
  - simpl. lia.
  - destruct J1 as [Hl Hi]. destruct Hor as [Hls _].
    apply (nth_ext _ _ (0, 0, 0) (0, 0, 0)); [congruence|].
    intros n Hn. rewrite Hl in Hn. apply (Hi n Hn). apply (closed_reach vis'); auto. apply J2; simpl; auto.
Qed.

End Fill.

(* when the fill has visited every triangle the result is the consistent orientation itself *)
Lemma fill_all_visited ts0 sg vis ts : inv ts0 sg vis ts -> orientation_of ts0 sg ->
  (forall i, i < length ts0 -> In i vis) -> ts = sg.
Proof.
  intros [Hl Hi] [Hls _] Hall. apply (nth_ext _ _ (0, 0, 0) (0, 0, 0)); [congruence|].
  intros n Hn. rewrite Hl in Hn. apply (Hi n Hn). auto.
Qed.

(* a mesh connected through a vertex only: triangle 0 touches the pair (1,2) at vertex 2; the pair runs along
   edge 3-4 in the same direction and is never reached by the fill, which starts at triangle 0 and walks across edges *)
Definition bowtie : list tri := [(0, 1, 2); (2, 3, 4); (3, 4, 5)].
Definition bowtie_sg : list tri := [(0, 1, 2); (2, 3, 4); (4, 3, 5)].

Lemma bowtie_refutes :
  (forall i, i < length bowtie -> nondeg (tnth bowtie i)) /\
  orientation_of bowtie bowtie_sg /\ consistent_all bowtie_sg /\
  NoDup (flat_map dedges bowtie_sg) /\
  correct_local N.of_nat bowtie = bowtie /\ hco_tr N.of_nat (correct_local N.of_nat bowtie) = false.
Proof.
  split; [|split; [|split; [|split; [|split]]]].
  - intros i Hi. simpl in Hi. destruct i as [|[|[|i]]]; simpl; try lia; repeat split; discriminate.
  - split; [reflexivity|]. intros i Hi. simpl in Hi. destruct i as [|[|[|i]]]; simpl; auto; lia.
  - intros i j Hi Hj Hne. simpl in Hi, Hj.
    destruct i as [|[|[|i]]]; destruct j as [|[|[|j]]]; try lia; reflexivity.
  - simpl. repeat (constructor; [simpl; intros Hc; repeat destruct Hc as [Hc|Hc]; try discriminate; auto|]). constructor.
  - vm_compute. reflexivity.
  - vm_compute. reflexivity.
Qed.

(* ------------------------------------------------------------------ global flip, and the full statement *)
Lemma hse_exists a b : has_same_edge a b = true -> exists e, In e a /\ In e b.
Proof.
  unfold has_same_edge. intros H. apply existsb_exists in H. destruct H as [x2 [H2 H]].
  apply existsb_exists in H. destruct H as [x1 [H1 H]]. apply peqb_eq in H. subst. exists x2; auto.
Qed.

Lemma pair_ok_flip a b : pair_ok a b -> pair_ok (flip a) (flip b).
Proof.
  unfold pair_ok. intros H. destruct (has_same_edge (dedges (flip a)) (dedges (flip b))) eqn:E; auto.
  apply hse_exists in E. destruct E as [[u v] [Ea Eb]]. apply (proj1 (flip_edges a u v)) in Ea. apply (proj1 (flip_edges b u v)) in Eb.
  rewrite (hse_true (v, u) _ _ Ea Eb) in H. discriminate.
Qed.

Lemma tnth_map_flip sg i : tnth (map flip sg) i = flip (tnth sg i).
Proof. unfold tnth. change (0, 0, 0) with (flip (0, 0, 0)) at 1. apply map_nth. Qed.

Lemma flip_orientation ts0 sg : orientation_of ts0 sg -> orientation_of ts0 (map flip sg).
Proof.
  intros [Hl Ho]. split; [rewrite map_length; auto|]. intros i Hi. rewrite tnth_map_flip.
  destruct (Ho i Hi) as [-> | ->]; [right; auto|left; apply flip_flip].
Qed.

Lemma flip_consistent sg : consistent_all sg -> consistent_all (map flip sg).
Proof.
  intros H i j Hi Hj Hne. rewrite map_length in Hi, Hj. rewrite !tnth_map_flip. apply pair_ok_flip. apply H; auto.
Qed.

(* flood_fill_consistent: non-degenerate triangles, a consistent orientation exists (edge-orientable), every triangle
   is reachable from triangle 0 by steps across a shared edge (edge-connected): the fill that correct_local_orientation
   runs ends in a consistent orientation of the same triangles *)
Theorem fill_makes_consistent ts0 :
  (forall i, i < length ts0 -> nondeg (tnth ts0 i)) ->
  (exists sg, orientation_of ts0 sg /\ consistent_all sg) ->
  (forall j, j < length ts0 -> reach ts0 j) -> 0 < length ts0 ->
  orientation_of ts0 (fill (length ts0) [0] [0] ts0) /\ consistent_all (fill (length ts0) [0] [0] ts0).
Proof.
  intros Hnd [sg [Hor Hc]] Hconn Hpos.
  destruct (proj2 Hor 0 Hpos) as [H0|H0].
  - rewrite (fill_connected ts0 sg); auto.
  - assert (H0' : tnth (map flip sg) 0 = tnth ts0 0) by (rewrite tnth_map_flip, H0; apply flip_flip).
    rewrite (fill_connected ts0 (map flip sg)); auto.
    + split; [apply flip_orientation|apply flip_consistent]; auto.
    + apply flip_orientation; auto.
    + apply flip_consistent; auto.
Qed.

Theorem correct_local_makes_consistent ix ts0 :
  (forall i, i < length ts0 -> nondeg (tnth ts0 i)) ->
  (exists sg, orientation_of ts0 sg /\ consistent_all sg) ->
  (forall j, j < length ts0 -> reach ts0 j) ->
  hco_fast ix ts0 = false ->
  orientation_of ts0 (correct_local ix ts0) /\ consistent_all (correct_local ix ts0).
Proof.
  intros Hnd Hsg Hconn Hh. unfold correct_local. rewrite Hh.
  destruct ts0 as [|t r] eqn:Ets; [discriminate|]. rewrite <- Ets in *.
  apply fill_makes_consistent; auto. rewrite Ets; simpl; lia.
Qed.

Lemma square_fill_hyps :
  let ts := [(0, 1, 2); (1, 2, 3)] in
  (forall i, i < length ts -> nondeg (tnth ts i)) /\
  (exists sg, orientation_of ts sg /\ consistent_all sg) /\
  (forall j, j < length ts -> reach ts j) /\ hco_fast N.of_nat ts = false.
Proof.
  cbv zeta. split; [|split; [|split]].
  - intros i Hi. simpl in Hi. destruct i as [|[|i]]; simpl; try lia; repeat split; discriminate.
  - exists [(0, 1, 2); (2, 1, 3)]. split.
    + split; [reflexivity|]. intros i Hi. simpl in Hi. destruct i as [|[|i]]; simpl; auto; lia.
    + intros i j Hi Hj Hne. simpl in Hi, Hj. destruct i as [|[|i]]; destruct j as [|[|j]]; try lia; reflexivity.
  - intros j Hj. simpl in Hj. destruct j as [|[|j]]; try lia; [constructor|].
    apply (reach_step _ 0 1); [constructor|]. repeat split; simpl; try lia.
    exists 1, 2. simpl. repeat split; auto.
  - vm_compute. reflexivity.
Qed.
