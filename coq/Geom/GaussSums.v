(* The barycentric coordinates of the quadrature tables of integrator.h (regenerated from the source into
   Gen/GenQuadTables.v on every run) sum to 1 only up to the rounding of their 15-digit decimal literals.
   Consequence (Geom/RigidKernels.quad_node_affine): a Gauss node of a translated triangle is the translated node
   plus (sum-1)*translation; the defect is bounded here for the tables as they are in the source. *)
From Coq Require Import Reals Lra List QArith Qreals Qabs.
From OM Require Import Base.Ops Base.Vec3 Base.OpsR Base.Rigid Geom.Quadrature Geom.RigidKernels Gen.GenQuadTables.
Import ListNotations.

Definition qsum (p : qpoint) : Q := (qp_l0 p + qp_l1 p + qp_l2 p)%Q.

Lemma fQ_Q2R (q : Q) : fQ OpsR q = Q2R q.
Proof. unfold fQ, Q2R; cbn. reflexivity. Qed.

Lemma bsum_Q2R p : bsum p = Q2R (qsum p).
Proof. unfold bsum, qsum. rewrite !fQ_Q2R, !Q2R_plus. reflexivity. Qed.

Lemma bsum_one_iff p : bsum p = 1%R <-> (qsum p == 1)%Q.
Proof.
  rewrite bsum_Q2R. replace 1%R with (Q2R 1) by (unfold Q2R; cbn; lra).
  split; [apply eqR_Qeq | apply Qeq_eqR].
Qed.

Definition defect_ok (p : qpoint) : bool := Qle_bool (Qabs (qsum p - 1)) (2 # 1000000000000000).

(* every node of the three usable rules (orders 1,2,3 = 6, 7, 16 points) has |l0+l1+l2 - 1| <= 2e-15 *)
Lemma gauss_sum_defect_small :
  forallb defect_ok (rule_of_order 1 ++ rule_of_order 2 ++ rule_of_order 3) = true.
Proof. vm_compute. reflexivity. Qed.

(* ... and it is not exactly 1: the first node of the 16-point rule (1/3,1/3,1/3 as 0.333333333333333) *)
Lemma gauss_sum_not_one : exists p, In p (rule_of_order 3) /\ ~ (qsum p == 1)%Q.
Proof.
  exists (nth 0 (rule_of_order 3) (0, 0, 0, 0)%Q). split.
  - vm_compute. left. reflexivity.
  - vm_compute. discriminate.
Qed.

(* the exact displacement of a Gauss node under a rigid motion *)
Lemma quad_node_defect (g : rigid) p t0 t1 t2 :
  quad_node OpsR p (app g t0) (app g t1) (app g t2)
  = vaddR (app g (quad_node OpsR p t0 t1 t2)) (vscaleR (Q2R (qsum p) - 1)%R (tr g)).
Proof. rewrite quad_node_affine, bsum_Q2R. unfold app. v3. Qed.

(* pure rotations (no translation): nodes are exactly equivariant whatever the table *)
Lemma quad_node_rotation (g : rigid) p t0 t1 t2 :
  tr g = vconstR 0%R -> quad_node OpsR p (app g t0) (app g t1) (app g t2) = app g (quad_node OpsR p t0 t1 t2).
Proof. intros H. rewrite quad_node_defect, H. unfold app; rewrite H. v3. Qed.
