(* The flags produced by Geometry::finalize satisfy isolated => current_barrier, so "live" (numbered in the first
   range) is exactly "not a current barrier": generate_indices_bijection restated on the result of finalize. *)
From OM Require Import Base.Lists Base.Ops Geom.MeshTopo Geom.GeomModel Geom.GeomProofs.
Local Open Scope Z_scope.

Definition good_flags (fl : list flags) : Prop := forall m, f_iso (nth m fl flags0) = true -> f_cb (nth m fl flags0) = true.

Lemma good_repeat k : good_flags (repeat flags0 k).
Proof.
  intros m. assert (E : nth m (repeat flags0 k) flags0 = flags0).
  { revert m; induction k as [|k IH]; intros [|m]; simpl; auto. }
  rewrite E. simpl. discriminate.
Qed.

Lemma visit1_good g : forall vs fl inv, good_flags fl -> good_flags (fst (fold_left (visit1 g) vs (fl, inv))).
Proof.
  induction vs as [|v vs IH]; intros fl inv G; simpl; auto.
  unfold visit1 at 1. destruct (f_cb (nth v fl flags0)) eqn:E.
  - apply IH. intros m. rewrite nth_upd. destruct (Nat.eqb v m && Nat.ltb v (length fl))%bool; simpl; auto.
  - apply IH. intros m. rewrite nth_upd. destruct (Nat.eqb v m && Nat.ltb v (length fl))%bool; simpl; auto.
Qed.

Lemma visit2_good : forall vs fl, good_flags fl -> good_flags (fold_left visit2 vs fl).
Proof.
  induction vs as [|v vs IH]; intros fl G; simpl; auto. apply IH. unfold visit2.
  destruct (f_cb (nth v fl flags0) && negb (f_iso (nth v fl flags0)))%bool eqn:E; auto.
  intros m. rewrite nth_upd. destruct (Nat.eqb_spec v m) as [->|Hn]; simpl; [|apply G].
  destruct (Nat.ltb m (length fl)); simpl; auto.
Qed.

Lemma mark_good g zero : good_flags (mk_flags (mark_current_barriers g zero)).
Proof.
  unfold mark_current_barriers.
  destruct (fold_left (visit1 g) (barrier_visits g zero false) (repeat flags0 (length (g_meshes g)), [])) as [fl1 inv1] eqn:E.
  simpl. apply visit2_good.
  change fl1 with (fst (fl1, inv1)). rewrite <- E. apply visit1_good. apply good_repeat.
Qed.

Lemma set_outermost_good g fl k : good_flags fl -> good_flags (set_outermost g fl k).
Proof.
  intros G m. rewrite set_outermost_raise.
  destruct (raise_out_spec (flat_map (fun b => map snd (b_om b)) (dom g k)) fl m) as (_ & B & C & _). rewrite B, C. apply G.
Qed.

Lemma finalize_good g hasc zero snz old fi : finalize g hasc zero snz old = (StOk, Some fi) -> good_flags (mk_flags (fi_marks fi)).
Proof.
  unfold finalize.
  assert (G0 : good_flags (mk_flags (if hasc then mark_current_barriers g zero else marks0 g))).
  { destruct hasc; [apply mark_good|apply good_repeat]. }
  set (mk := if hasc then mark_current_barriers g zero else marks0 g) in *.
  destruct (Nat.eqb (length (g_doms g)) 0).
  - destruct (old && negb false && negb (Nat.eqb (length (g_meshes g)) 0))%bool; intros H; inversion H; subst; simpl; auto.
  - destruct (outermost_domain g) as [k|]; [|discriminate].
    destruct (old && negb (check_nested g k) && negb (Nat.eqb (length (g_meshes g)) 0))%bool; intros H; inversion H; subst; simpl.
    apply set_outermost_good; auto.
Qed.

Definition carries_current (f : flags) : bool := negb (f_cb f).

Lemma good_tl fl : good_flags fl -> good_flags (tl fl).
Proof. intros G m. destruct fl as [|f fl]; simpl; [destruct m; simpl; discriminate|]. apply (G (S m)). Qed.

Lemma live_carries fl : good_flags fl -> live (hd flags0 fl) = carries_current (hd flags0 fl).
Proof.
  intros G. specialize (G 0%nat). unfold live, carries_current. destruct fl as [|f fl]; simpl in *; auto.
  destruct (f_iso f), (f_cb f); simpl in *; auto.
Qed.

Lemma sel_live_carries : forall l fl, good_flags fl -> sel live fl l = sel carries_current fl l.
Proof. induction l as [|t l IH]; intros fl G; simpl; auto. rewrite (live_carries fl G), (IH _ (good_tl fl G)). reflexivity. Qed.

Lemma ntris_live_carries : forall ms fl, good_flags fl -> ntris live ms fl = ntris carries_current ms fl.
Proof. induction ms as [|m ms IH]; intros fl G; simpl; auto. rewrite (live_carries fl G), (IH _ (good_tl fl G)). reflexivity. Qed.

(* generate_indices_bijection on what finalize actually produces (default ordering) *)
Theorem finalize_indices g hasc zero snz fi : finalize g hasc zero snz false = (StOk, Some fi) ->
  let fl := mk_flags (fi_marks fi) in let invalid := mk_invalid (fi_marks fi) in let ix := fi_idx fi in
  let Nv := valid_count (seq 0 (g_nv g)) invalid in
  let Nt := ntris carries_current (g_meshes g) fl in
  let B := ntris barf (g_meshes g) fl in
  assigned (ix_v ix) ++ sel carries_current fl (ix_t ix) = zseq 0 (Nv + Nt)
  /\ sel barf fl (ix_t ix) = zseq (Z.of_nat (Nv + Nt)) B
  /\ sel isof fl (ix_t ix) = repeat (-1) (ntris isof (g_meshes g) fl)
  /\ ix_n ix = Z.of_nat (Nv + Nt) + Z.of_nat B /\ ix_nb ix = Z.of_nat B.
Proof.
  intros H. pose proof (finalize_good _ _ _ _ _ _ H) as G. cbv zeta.
  assert (E : fi_idx fi = generate_indices g false (mk_flags (fi_marks fi)) (mk_invalid (fi_marks fi))).
  { unfold finalize in H. destruct (Nat.eqb (length (g_doms g)) 0).
    - simpl in H. inversion H; subst; reflexivity.
    - destruct (outermost_domain g); [|discriminate]. simpl in H. inversion H; subst; reflexivity. }
  rewrite E. destruct (generate_indices_new_spec g (mk_flags (fi_marks fi)) (mk_invalid (fi_marks fi))) as (A & B0 & _ & _ & I & _ & _ & N & NB).
  rewrite <- (sel_live_carries _ _ G), <- (ntris_live_carries _ _ G). repeat split; auto.
Qed.

(* isolated => not outermost (mark_current_barriers clears the flag when it isolates a mesh, and - since the repair of
   Interface::set_to_outermost - nothing raises it again) *)
Definition quiet_flags (fl : list flags) : Prop := forall m, f_iso (nth m fl flags0) = true -> f_out (nth m fl flags0) = false.

Lemma quiet_repeat k : quiet_flags (repeat flags0 k).
Proof.
  intros m. assert (E : nth m (repeat flags0 k) flags0 = flags0) by (revert m; induction k as [|k IH]; intros [|m]; simpl; auto).
  rewrite E. simpl. discriminate.
Qed.

Lemma visit1_quiet g : forall vs fl inv, quiet_flags fl -> quiet_flags (fst (fold_left (visit1 g) vs (fl, inv))).
Proof.
  induction vs as [|v vs IH]; intros fl inv G; simpl; auto.
  unfold visit1 at 1. destruct (f_cb (nth v fl flags0)) eqn:E.
  - apply IH. intros m. rewrite nth_upd. destruct (Nat.eqb v m && Nat.ltb v (length fl))%bool; simpl; auto.
  - apply IH. intros m. rewrite nth_upd. destruct (Nat.eqb v m && Nat.ltb v (length fl))%bool eqn:E2; simpl; auto.
Qed.

Lemma visit2_quiet : forall vs fl, quiet_flags fl -> quiet_flags (fold_left visit2 vs fl).
Proof.
  induction vs as [|v vs IH]; intros fl G; simpl; auto. apply IH. unfold visit2.
  destruct (f_cb (nth v fl flags0) && negb (f_iso (nth v fl flags0)))%bool eqn:E; auto.
  intros m. rewrite nth_upd. destruct (Nat.eqb_spec v m) as [->|Hn]; simpl; [|apply G].
  destruct (Nat.ltb m (length fl)); simpl; [|apply G].
  apply andb_true_iff in E. destruct E as [_ E]. apply negb_true_iff in E. rewrite E. discriminate.
Qed.

Lemma mark_quiet g zero : quiet_flags (mk_flags (mark_current_barriers g zero)).
Proof.
  unfold mark_current_barriers.
  destruct (fold_left (visit1 g) (barrier_visits g zero false) (repeat flags0 (length (g_meshes g)), [])) as [fl1 inv1] eqn:E.
  simpl. apply visit2_quiet. change fl1 with (fst (fl1, inv1)). rewrite <- E. apply visit1_quiet. apply quiet_repeat.
Qed.

Lemma set_outermost_quiet g fl k : quiet_flags fl -> quiet_flags (set_outermost g fl k).
Proof.
  intros G m. rewrite set_outermost_raise.
  destruct (raise_out_spec (flat_map (fun b => map snd (b_om b)) (dom g k)) fl m) as (_ & _ & C & D). rewrite C, D.
  intros Hi. rewrite Hi, (G m Hi). simpl. rewrite andb_false_r. reflexivity.
Qed.

Lemma finalize_quiet g hasc zero snz old fi : finalize g hasc zero snz old = (StOk, Some fi) -> quiet_flags (mk_flags (fi_marks fi)).
Proof.
  unfold finalize.
  assert (G0 : quiet_flags (mk_flags (if hasc then mark_current_barriers g zero else marks0 g))).
  { destruct hasc; [apply mark_quiet|apply quiet_repeat]. }
  set (mk := if hasc then mark_current_barriers g zero else marks0 g) in *.
  destruct (Nat.eqb (length (g_doms g)) 0).
  - destruct (old && negb false && negb (Nat.eqb (length (g_meshes g)) 0))%bool; intros H; inversion H; subst; simpl; auto.
  - destruct (outermost_domain g) as [k|]; [|discriminate].
    destruct (old && negb (check_nested g k) && negb (Nat.eqb (length (g_meshes g)) 0))%bool; intros H; inversion H; subst; simpl.
    apply set_outermost_quiet; auto.
Qed.
