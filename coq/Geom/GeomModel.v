(* Model of what OpenMEEG::Geometry derives from a head-model description
   (OpenMEEG/src/geometry.cpp, include/geometry.h, domain.h/.cpp, interface.h/.cpp, mesh.cpp, MeshIO.h).
   No proofs here (see GeomProofs.v).  Everything is executable; the float-valued accessors are written
   over the numeric record [Ops F].

   Abstraction of the input: a mesh file is a list of *point identities* (two file vertices get the same
   identity iff their three coordinates compare equal with ==, which is what Vertex::operator== tests)
   and a list of triangles over file-local vertex numbers.  Geometry enters only through two oracles
   handed in as data: the sign of the solid angle of each declared interface at an interior point
   ([is_mesh_orientations_coherent]) and, per probe point, whether it is inside each interface
   ([Interface::contains]). *)
From OM Require Import Base.Lists Base.Ops Geom.MeshTopo.
Local Open Scope Z_scope.

(* ------------------------------------------------------------------ description *)
Record mesh := mkMesh { m_pts : list nat; m_tris : list (nat * nat * nat) }.
Notation omesh := (Z * nat)%type.           (* orientation (+1 / -1), mesh number *)
Notation iface := (list (Z * nat)).
Notation bound := (bool * nat)%type.        (* inside? , interface number *)
Record desc := mkDesc { d_meshes : list mesh; d_ifaces : list iface; d_domains : list (list bound) }.

(* ------------------------------------------------------------------ Geometry::add_vertex / import *)
Fixpoint find_pos (p : nat) (tbl : list nat) (k : nat) : option nat :=
  match tbl with
  | [] => None
  | q :: t => if Nat.eqb p q then Some k else find_pos p t (S k)
  end.

(* std::find over vertices(), push_back when absent; returns the position *)
Definition add_vertex (tbl : list nat) (p : nat) : list nat * nat :=
  match find_pos p tbl 0 with
  | Some k => (tbl, k)
  | None => (tbl ++ [p], length tbl)
  end.

(* Geometry::add_vertices: the IndexMap file-local number -> position in the geometry *)
Fixpoint add_vertices (tbl : list nat) (pts : list nat) : list nat * list nat :=
  match pts with
  | [] => (tbl, [])
  | p :: r => let '(t1, k) := add_vertex tbl p in
              let '(t2, ks) := add_vertices t1 r in (t2, k :: ks)
  end.

(* first pass of Geometry::import: all points of all meshes, in mesh order *)
Fixpoint import_points (tbl : list nat) (ms : list mesh) : list nat * list (list nat) :=
  match ms with
  | [] => (tbl, [])
  | m :: r => let '(t1, im) := add_vertices tbl (m_pts m) in
              let '(t2, ims) := import_points t1 r in (t2, im :: ims)
  end.

(* a loaded mesh: Mesh::vertices() (references into the geometry, one per file vertex, file order) and
   triangles over geometry vertex numbers *)
Record lmesh := mkLMesh { lm_verts : list nat; lm_tris : list (nat * nat * nat) }.

Definition map_tri (im : list nat) (t : nat * nat * nat) : option (nat * nat * nat) :=
  let '(a, b, c) := t in
  match nth_error im a, nth_error im b, nth_error im c with
  | Some x, Some y, Some z => Some (x, y, z)
  | _, _, _ => None      (* IndexMap::at throws std::out_of_range *)
  end.

Fixpoint map_tris (im : list nat) (ts : list (nat * nat * nat)) : option (list (nat * nat * nat)) :=
  match ts with
  | [] => Some []
  | t :: r => match map_tri im t, map_tris im r with
              | Some t', Some r' => Some (t' :: r')
              | _, _ => None
              end
  end.

Fixpoint load_meshes (ms : list mesh) (ims : list (list nat)) : option (list lmesh) :=
  match ms, ims with
  | m :: r, im :: ir =>
      match map_tris im (m_tris m), load_meshes r ir with
      | Some ts, Some lr => Some (mkLMesh im (correct_local_orientation ts) :: lr)   (* Mesh::update(true) *)
      | _, _ => None
      end
  | _, _ => Some []
  end.

(* ------------------------------------------------------------------ loaded geometry *)
Record gbound := mkGB { b_inside : bool; b_if : nat; b_om : list (Z * nat) }.
Record geom := mkGeom { g_nv : nat; g_meshes : list lmesh; g_doms : list (list gbound) }.

(* Interface::is_mesh_orientations_coherent with the solid-angle sign supplied:
   s = +1: +4pi at an interior point => every oriented mesh of the interface is reversed;
   s = -1: -4pi => unchanged;  anything else => "not closed", the load fails *)
Definition orient_iface (s : Z) (i : iface) : option iface :=
  if s =? 1 then Some (map (fun om => (- fst om, snd om)) i)
  else if s =? -1 then Some i else None.

Fixpoint orient_ifaces (ss : list Z) (is_ : list iface) : option (list iface) :=
  match is_ with
  | [] => Some []
  | i :: r => match orient_iface (hd 0 ss) i, orient_ifaces (tl ss) r with
              | Some i', Some r' => Some (i' :: r')
              | _, _ => None
              end
  end.

Definition mk_bound (ifs : list iface) (b : bound) : gbound :=
  mkGB (fst b) (snd b) (nth (snd b) ifs []).

Inductive status := StOk | StAssert | StOther.

(* Geometry::read_geometry_file at the level of resolved names *)
Definition load_geom (d : desc) (isign : list Z) : option geom :=
  let '(tbl, ims) := import_points [] (d_meshes d) in
  match load_meshes (d_meshes d) ims with
  | None => None
  | Some lms =>
    if forallb (fun i => forallb (fun om => Nat.ltb (snd om) (length lms)) i) (d_ifaces d)
       && forallb (fun dm => forallb (fun b => Nat.ltb (snd b) (length (d_ifaces d))) dm) (d_domains d)
    then
      match orient_ifaces isign (d_ifaces d) with
      | None => None
      | Some ifs => Some (mkGeom (length tbl) lms (map (map (mk_bound ifs)) (d_domains d)))
      end
    else None
  end.

(* ------------------------------------------------------------------ Domain::mesh_orientation, common domains *)
Fixpoint om_find (m : nat) (l : list (Z * nat)) : option Z :=
  match l with
  | [] => None
  | om :: t => if Nat.eqb (snd om) m then Some (fst om) else om_find m t
  end.

Fixpoint mesh_orientation (d : list gbound) (m : nat) : Z :=
  match d with
  | [] => 0
  | b :: t => match om_find m (b_om b) with
              | Some o => if b_inside b then o else - o
              | None => mesh_orientation t m
              end
  end.

Definition dom_has_mesh (d : list gbound) (m : nat) : bool := negb (mesh_orientation d m =? 0).

Definition memn (k : nat) (l : list nat) : bool := existsb (Nat.eqb k) l.

Section Geom.
Variable g : geom.
Let nd := length (g_doms g).
Let nm := length (g_meshes g).
Definition dom (k : nat) : list gbound := nth k (g_doms g) [].
Definition gmesh (m : nat) : lmesh := nth m (g_meshes g) (mkLMesh [] []).

(* Geometry::domains(const Mesh&) *)
Definition domains_of (m : nat) : list nat := filter (fun k => dom_has_mesh (dom k) m) (seq 0 (length (g_doms g))).
(* std::set_intersection of two ascending lists *)
Definition common_domains (m1 m2 : nat) : list nat := filter (fun k => memn k (domains_of m2)) (domains_of m1).

Definition relative_orientation (m1 m2 : nat) : Z :=
  if Nat.eqb m1 m2 then 1
  else match common_domains m1 m2 with
       | [] => 0
       | k :: _ => if mesh_orientation (dom k) m1 =? mesh_orientation (dom k) m2 then 1 else -1
       end.

(* ------------------------------------------------------------------ mark_current_barriers *)
Record flags := mkFlags { f_cb : bool; f_iso : bool; f_out : bool }.
Definition flags0 := mkFlags false false false.

(* meshes visited by the first loop, in order: zero-conductivity domains, their boundaries, their meshes *)
Definition barrier_visits (zero : list bool) (only_outside : bool) : list nat :=
  flat_map (fun k => if nth k zero false
                     then flat_map (fun b => if only_outside && b_inside b then [] else map snd (b_om b)) (dom k)
                     else [])
           (seq 0 (length (g_doms g))).

Definition visit1 (st : list flags * list nat) (m : nat) : list flags * list nat :=
  let '(fl, inv) := st in
  let f := nth m fl flags0 in
  if f_cb f then (upd fl m (mkFlags true true false), inv ++ lm_verts (gmesh m))
  else (upd fl m (mkFlags true (f_iso f) (f_out f)), inv).

Definition visit2 (fl : list flags) (m : nat) : list flags :=
  let f := nth m fl flags0 in
  if f_cb f && negb (f_iso f) then upd fl m (mkFlags (f_cb f) (f_iso f) true) else fl.

Fixpoint dedup (l : list nat) : list nat :=
  match l with
  | [] => []
  | x :: r => if memn x r then dedup r else x :: dedup r
  end.

(* a vertex of an excluded mesh stays valid when a non-isolated mesh also references it *)
Definition shared_with_live (fl : list flags) (v : nat) : bool :=
  existsb (fun m => negb (f_iso (nth m fl flags0)) && memn v (lm_verts (gmesh m))) (seq 0 (length (g_meshes g))).

(* connected components of the "have a common domain" graph, as the code grows them *)
Fixpoint comp_grow (fuel : nat) (conn : list nat) (iit : nat) (seen : list nat) : list nat * list nat :=
  match fuel with
  | O => (conn, seen)
  | S f =>
    match nth_error conn iit with
    | None => (conn, seen)
    | Some c =>
      let '(conn', seen') :=
        fold_left (fun (cs : list nat * list nat) m =>
                     let '(cn, sn) := cs in
                     if negb (match common_domains c m with [] => true | _ => false end) && negb (memn m sn)
                     then (cn ++ [m], m :: sn) else (cn, sn))
                  (seq 0 (length (g_meshes g))) (conn, seen) in
      comp_grow f conn' (S iit) seen'
    end
  end.

Fixpoint comp_all (fuel : nat) (remaining : list nat) (seen : list nat) (fl : list flags) : list (list nat) :=
  match fuel with
  | O => []
  | S f =>
    match remaining with
    | [] => []
    | se :: _ =>
      let '(conn, seen') := comp_grow (S (length (g_meshes g))) [se] 0 (se :: seen) in
      let rest := filter (fun m => negb (memn m conn)) remaining in
      let tail := comp_all f rest seen' fl in
      (* conn.size()>=1 (repaired: a component bounded by a single mesh is a part too) && !conn.front()->isolated() *)
      if Nat.leb 1 (length conn) && negb (f_iso (nth se fl flags0)) then conn :: tail else tail
    end
  end.

Record marks := mkMarks { mk_flags : list flags; mk_invalid : list nat; mk_parts : list (list nat) }.

Definition marks0 : marks := mkMarks (repeat flags0 (length (g_meshes g))) [] [].

Definition mark_current_barriers (zero : list bool) : marks :=
  let '(fl1, inv1) := fold_left visit1 (barrier_visits zero false) (repeat flags0 (length (g_meshes g)), []) in
  let fl2 := fold_left visit2 (barrier_visits zero false) fl1 in
  let inv2 := dedup (filter (fun v => negb (shared_with_live fl2 v)) inv1) in
  mkMarks fl2 inv2 (comp_all (S (length (g_meshes g))) (seq 0 (length (g_meshes g))) [] fl2).

(* ------------------------------------------------------------------ outermost domain, nested flag *)
Fixpoint first_index {A} (p : A -> bool) (l : list A) (k : nat) : option nat :=
  match l with
  | [] => None
  | a :: t => if p a then Some k else first_index p t (S k)
  end.

Definition outermost_domain : option nat :=
  first_index (fun d => forallb (fun b => negb (b_inside b)) d) (g_doms g) 0.

(* set_outermost_domain: every mesh of every boundary of that domain - except isolated ones (repaired:
   Interface::set_to_outermost leaves a mesh alone whose vertices carry no unknown) *)
Definition set_outermost (fl : list flags) (k : nat) : list flags :=
  fold_left (fun fl m => let f := nth m fl flags0 in upd fl m (mkFlags (f_cb f) (f_iso f) (f_out f || negb (f_iso f))))
            (flat_map (fun b => map snd (b_om b)) (dom k)) fl.

Definition count_inside (d : list gbound) : nat := length (filter b_inside d).

(* sum of the orientations with which a mesh occurs in all boundaries of all domains *)
Definition oriented_sum (m : nat) : Z :=
  zsum (flat_map (fun d => flat_map (fun b => map fst (filter (fun om => Nat.eqb (snd om) m) (b_om b))) d) (g_doms g)).

Definition check_nested (outer : nat) : bool :=
  forallb (fun k => Nat.eqb k outer || Nat.ltb (count_inside (dom k)) 2) (seq 0 (length (g_doms g)))
  && forallb (fun m => negb (oriented_sum m mod 4294967296 =? 0)) (seq 0 (length (g_meshes g))).

(* ------------------------------------------------------------------ generate_indices *)
(* new ordering: valid vertices in geometry order *)
Fixpoint number_vertices (vs : list nat) (invalid : list nat) (idx : Z) : list Z * Z :=
  match vs with
  | [] => ([], idx)
  | v :: r => if memn v invalid
              then let '(l, i) := number_vertices r invalid idx in (-1 :: l, i)
              else let '(l, i) := number_vertices r invalid (idx + 1) in (idx :: l, i)
  end.

Definition zseq (start : Z) (n : nat) : list Z := map (fun k => start + Z.of_nat k) (seq 0 n).

Definition live (f : flags) : bool := negb (f_iso f) && negb (f_cb f).

(* first loop over the meshes (new ordering): triangles of meshes that carry current *)
Fixpoint number_live_tris (ms : list lmesh) (fl : list flags) (idx : Z) : list (option (list Z)) * Z :=
  match ms with
  | [] => ([], idx)
  | m :: r =>
    let f := hd flags0 fl in
    if live f
    then let n := length (lm_tris m) in
         let '(l, i) := number_live_tris r (tl fl) (idx + Z.of_nat n) in (Some (zseq idx n) :: l, i)
    else let '(l, i) := number_live_tris r (tl fl) idx in (None :: l, i)
  end.

(* old ordering: per mesh, its vertex references then (if live) its triangles; a vertex referenced again
   is overwritten *)
Fixpoint assign (vidx : list Z) (vs : list nat) (idx : Z) : list Z * Z :=
  match vs with
  | [] => (vidx, idx)
  | v :: r => assign (upd vidx v idx) r (idx + 1)
  end.

Fixpoint number_old (ms : list lmesh) (fl : list flags) (vidx : list Z) (idx : Z)
  : list Z * list (option (list Z)) * Z :=
  match ms with
  | [] => (vidx, [], idx)
  | m :: r =>
    let '(v1, i1) := assign vidx (lm_verts m) idx in
    let f := hd flags0 fl in
    if live f
    then let n := length (lm_tris m) in
         let '(v2, l, i2) := number_old r (tl fl) v1 (i1 + Z.of_nat n) in (v2, Some (zseq i1 n) :: l, i2)
    else let '(v2, l, i2) := number_old r (tl fl) v1 i1 in (v2, None :: l, i2)
  end.

(* second loop: current barriers. Triangles of a mesh not touched by either loop keep the value written by
   Mesh::generate_indices at load time (number of vertex references + position) *)
Fixpoint number_barrier_tris (ms : list lmesh) (fl : list flags) (pre : list (option (list Z))) (idx : Z) (nb : Z)
  : list (list Z) * Z * Z :=
  match ms with
  | [] => ([], idx, nb)
  | m :: r =>
    let f := hd flags0 fl in
    let n := length (lm_tris m) in
    if f_cb f
    then if negb (f_iso f)
         then let '(l, i, b) := number_barrier_tris r (tl fl) (tl pre) (idx + Z.of_nat n) (nb + Z.of_nat n) in
              (zseq idx n :: l, i, b)
         else let '(l, i, b) := number_barrier_tris r (tl fl) (tl pre) idx nb in
              (repeat (-1) n :: l, i, b)
    else let '(l, i, b) := number_barrier_tris r (tl fl) (tl pre) idx nb in
         ((match hd None pre with Some x => x | None => zseq (Z.of_nat (length (lm_verts m))) n end) :: l, i, b)
  end.

Record indices := mkIdx { ix_v : list Z; ix_t : list (list Z); ix_n : Z; ix_nb : Z }.

(* initial vertex index before generate_indices: whatever Mesh::generate_indices of the meshes loaded so far
   left there.  Only observable in the old ordering for vertices referenced by no mesh - which cannot occur
   (every geometry vertex comes from a mesh) - so -1 is used as the placeholder. *)
Definition generate_indices (old : bool) (fl : list flags) (invalid : list nat) : indices :=
  if old then
    let '(v, pre, i) := number_old (g_meshes g) fl (repeat (-1) (g_nv g)) 0 in
    let '(t, n, nb) := number_barrier_tris (g_meshes g) fl pre i 0 in mkIdx v t n nb
  else
    let '(v, i0) := number_vertices (seq 0 (g_nv g)) invalid 0 in
    let '(pre, i) := number_live_tris (g_meshes g) fl i0 in
    let '(t, n, nb) := number_barrier_tris (g_meshes g) fl pre i 0 in mkIdx v t n nb.

(* ------------------------------------------------------------------ make_mesh_pairs *)
(* [snz m1 m2] : sigma(m1,m2) != 0.0 *)
Definition make_mesh_pairs (fl : list flags) (snz : nat -> nat -> bool) : list (nat * nat * Z) :=
  flat_map (fun i =>
    if f_iso (nth i fl flags0) then []
    else flat_map (fun j =>
           let o := relative_orientation i j in
           if negb (f_iso (nth j fl flags0)) && snz i j && negb (o =? 0) then [(i, j, o)] else [])
         (seq 0 (S i)))
    (seq 0 (length (g_meshes g))).

(* ------------------------------------------------------------------ Domain::contains / Geometry::domain(p) *)
(* [ins i] : Interface::contains(p) for interface number i *)
Definition dom_contains (ins : nat -> bool) (d : list gbound) : bool :=
  forallb (fun b => Bool.eqb (ins (b_if b)) (b_inside b)) d.

Definition domain_of_point (ins : nat -> bool) : option nat := first_index (dom_contains ins) (g_doms g) 0.

(* ------------------------------------------------------------------ finalize *)
Record fin := mkFin { fi_marks : marks; fi_outer : option nat; fi_nested : bool; fi_idx : indices;
                      fi_pairs : list (nat * nat * Z) }.

Definition finalize (hasc : bool) (zero : list bool) (snz : nat -> nat -> bool) (old : bool) : status * option fin :=
  let mk := if hasc then mark_current_barriers zero else marks0 in
  let step (fl : list flags) (outer : option nat) (nested : bool) :=
    if old && negb nested && negb (Nat.eqb (length (g_meshes g)) 0) then (StAssert, None)
    else let ix := generate_indices old fl (mk_invalid mk) in
         (StOk, Some (mkFin (mkMarks fl (mk_invalid mk) (mk_parts mk)) outer nested ix (make_mesh_pairs fl snz))) in
  if Nat.eqb (length (g_doms g)) 0 then step (mk_flags mk) None false
  else match outermost_domain with
       | None => (StOther, None)
       | Some k => let fl := set_outermost (mk_flags mk) k in step fl (Some k) (check_nested k)
       end.

End Geom.

(* ------------------------------------------------------------------ float-valued accessors *)
Section Floats.
Context {F : Type} (o : Ops F).
Variable g : geom.
Variable conds : list F.

Definition cond (k : nat) : F := nth k conds (fofZ o (-1)).
Definition has_conductivities : bool := forallb (fun k => negb (feqb o (cond k) (fofZ o (-1)))) (seq 0 (length (g_doms g))).
(* almost_equal(c,0.0): |c| < DBL_EPSILON*|c|*1e3 (never, also not for 0) or |c| < DBL_MIN *)
Definition dbl_min : F := fdiv o (f1 o) (fofZ o (2 ^ 1022)).
Definition is_zero_cond (c : F) : bool := fltb o (fabs o c) dbl_min.
Definition zero_flags : list bool := map (fun k => is_zero_cond (cond k)) (seq 0 (length (g_doms g))).

Definition eval_common (f : F -> F) (m1 m2 : nat) : F :=
  fold_left (fun acc k => fadd o acc (f (cond k))) (common_domains g m1 m2) (f0 o).
Definition sigma := eval_common (fun c => c).
Definition sigma_inv := eval_common (fun c => fdiv o (f1 o) c).
Definition indicator := eval_common (fun _ => f1 o).
Definition sigma_nonzero (m1 m2 : nat) : bool := negb (feqb o (sigma m1 m2) (f0 o)).

Definition conductivity_jump (m : nat) : F :=
  fold_left (fun acc k => fadd o acc (fmul o (cond k) (fofZ o (mesh_orientation (dom g k) m)))) (domains_of g m) (f0 o).

Definition ffinalize (old : bool) := finalize g has_conductivities zero_flags sigma_nonzero old.
End Floats.
