(* EXTRACT-Z: c19 run_c19 *)
(* Executable entry point of the C19 mesh-reader correspondence: token view -> outcome. *)
From OM Require Import Base.Lists Base.Wire Maths.BinCodec Geom.MeshCount.
Local Open Scope Z_scope.

Definition getTok : dec mtok :=
  do c <- getZ; do us <- getZ; do u <- getZ; do ds <- getZ; do lo <- getZ; do hi <- getZ; do w <- getZ;
  ret {| k_c1 := negb (c =? 0); k_us := us; k_u := u; k_ds := ds; k_d := (lo mod W32) + W32 * (hi mod W32); k_word := w |}.
Definition outW (w : Z) : wire := [w mod W32; (w / W32) mod W32].
Definition outMesh (r : mres (list (list Z) * list (list Z))) : wire :=
  match r with
  | MErr e => [e]
  | MOk (pts, trs) => [0; zn (length pts)] ++ flat_map (fun p => flat_map outW p) pts ++ [zn (length trs)] ++ flat_map (fun t => t) trs
  end.
Definition run_c19 (w : wire) : wire :=
  match w with
  | 1 :: w' => run_dec (do n <- getN; getMany n getTok) w' (fun ts => outMesh (read_tri ts))
  | 2 :: w' => run_dec (do n <- getN; getMany n getTok) w' (fun ts => outMesh (read_off ts))
  | _ => [-1]
  end.
