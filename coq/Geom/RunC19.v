(* EXTRACT-Z: c19 run_c19 *)
(* Executable entry point of the C19 mesh-reader correspondence: token view -> outcome. *)
From OM Require Import Base.Lists Base.Wire Maths.BinCodec Geom.MeshCount Geom.ReaderCounts Geom.GeomFile Geom.GeomLex Geom.CondSensors.
Local Open Scope Z_scope.

Definition getTok : dec mtok :=
  do c <- getZ; do us <- getZ; do u <- getZ; do ds <- getZ; do lo <- getZ; do hi <- getZ; do w <- getZ;
  ret {| k_c1 := negb (c =? 0); k_us := us; k_u := u; k_ds := ds; k_d := (lo mod W32) + W32 * (hi mod W32); k_word := w |}.
Definition outW (w : Z) : wire := [w mod W32; (w / W32) mod W32].
Definition outMesh (r : mres (list (list Z) * list (list Z))) : wire :=
  match r with
  | MErr e => [e]
  | MOk (pts, trs) => [0; zn (length pts)] ++ flat_map (fun p => flat_map outW p) pts ++ [zn (length trs)] ++ flat_map (fun t => t) trs
  end.
Definition getOptZ : dec (option Z) := do f <- getZ; do v <- getZ; ret (if f =? 0 then None else Some v).
Definition getOptD : dec (option Z) := do f <- getZ; do lo <- getZ; do hi <- getZ; ret (if f =? 0 then None else Some ((lo mod W32) + W32 * (hi mod W32))).
Definition getRtok : dec rtok := do i <- getOptZ; do d <- getOptD; do w <- getZ; ret {| r_int := i; r_dbl := d; r_word := w |}.
Definition getRstream : dec rstream := do n <- getN; getMany n (do k <- getN; getMany k getRtok).
(* .mesh coordinates are 32-bit float words: printed as (word, 0) *)
Definition outMeshF (r : mres (list (list Z) * list (list Z))) : wire :=
  match r with
  | MErr e => [e]
  | MOk (pts, trs) => [0; zn (length pts)] ++ flat_map (fun p => p) pts ++ [zn (length trs)] ++ flat_map (fun t => t) trs
  end.
Definition run_c19 (w : wire) : wire :=
  match w with
  | 1 :: w' => run_dec (do n <- getN; getMany n getTok) w' (fun ts => outMesh (read_tri ts))
  | 2 :: w' => run_dec (do n <- getN; getMany n getTok) w' (fun ts => outMesh (read_off ts))
  | 5 :: w' => run_dec (do n <- getN; getNs n) w' (fun t => match lex_geom t with
        | Some x => [0; zn (length (lx_paths x)); zn (length (lx_ifaces x)); zn (length (lx_domains x))] | None => [1] end)
  | 6 :: w' => run_dec (do n <- getN; getNs n) w' (fun t => match lex_cond t with Some l => [0; zn (length l)] | None => [1] end)
  | 7 :: w' => run_dec (do n <- getN; do t <- getNs n; do nd <- getN; do ds <- getZs nd;
                        do nl <- getN; do st <- getMany nl (do k <- getN; getMany k
                           (do a <- getZ; do h <- getZ; do m <- getZ; do r <- getZ; do rh <- getZ;
                            ret {| c_name := a; c_hash := negb (h =? 0); c_num := m; c_rest := r; c_rest_hash := negb (rh =? 0) |}));
                        ret (t, ds, st)) w'
                 (fun '(t, ds, st) => [if load_cond_strict (match lex_cond t with Some _ => true | None => false end) st ds then 0 else 1])
  | 8 :: w' => run_dec (do nl <- getN; getMany nl (do e <- getZ; do k <- getN; do d <- getZ; do a <- getZ; do i <- getZ;
                           ret {| s_empty := negb (e =? 0); s_ntok := k; s_dot := negb (d =? 0); s_name := a; s_idx := i |})) w'
                 (fun ls => match sensors_load ls with
                            | SOk n k c rows => [0; zn n; zn k; zn c] ++ flat_map (fun r => [fst r; zn (snd r)]) rows
                            | SErr => [1] | SUnmodelled => [99] end)
  | 3 :: w' => run_dec getRstream w' (fun s => outMesh (read_bnd s))
  | 4 :: w' => run_dec (do n <- getN; getZs n) w' (fun bs => outMeshF (read_mesh bs))
  | _ => [-1]
  end.
