(* C08 -- model of the loop and buffer structure of
     DipSourceMat            (OpenMEEG/src/assembleSourceMat.cpp:64-100)
     operatorDipolePotDer / operatorDipolePot (OpenMEEG/src/operators.cpp:38-87, one thread)
     DipSource2MEGMat        (OpenMEEG/src/assembleSensors.cpp:133-159)
     DipSource2InternalPotMat(OpenMEEG/src/assembleSourceMat.cpp:158-195)
   generic over the numeric operations.  The per-triangle integrals of the two kernels are Section variables
   (IDer, IPot : what Integrator::integrate returns for analyticDipPotDer::f and Dipole::potential on a triangle);
   SourcesProofs.v instantiates them with AdaptInt.integrate of abstract kernels.  Point containment
   (Domain::contains, owned by C11/C12) is a Section variable too.
   The reused accumulation buffer rhs_col is explicit state threaded through the loop over the dipoles; its initial
   content is a parameter (the code's `Vector rhs_col(n)` is uninitialised memory).
   No proofs here (SourcesProofs.v). *)
From Coq Require Import List ZArith Bool Arith.
From OM Require Import Base.Ops Base.Lists Geom.AdaptInt.
Import ListNotations.

Section Sources.
Context {F : Type} (o : Ops F).
Local Notation "x + y" := (fadd o x y).
Local Notation "x - y" := (fsub o x y).
Local Notation "x * y" := (fmul o x y).
Local Notation "x / y" := (fdiv o x y).
Local Notation pt := (@pt F).

(* ---- the part of Geometry the source assembly looks at ---- *)
Record triangle := mkTriangle {
  tr_index : nat;                  (* Triangle::index(): row of its P0 unknown *)
  tr_vidx : nat * nat * nat;       (* vertex(j).index(): rows of the P1 unknowns *)
  tr_pts : @tri F                  (* coordinates *)
}.
Record mesh := mkMesh { ms_tris : list triangle; ms_barrier : bool (* Mesh::current_barrier() *) }.
Record omesh := mkOMesh { om_mesh : mesh; om_orient : Z (* OrientedMesh::orientation(): +1 / -1 *) }.
Record boundary := mkBoundary { bd_inside : bool; bd_interface : list omesh }.
Record domain := mkDomain { dm_name : Z; dm_cond : F; dm_bounds : list boundary }.
Record geometry := mkGeometry {
  g_domains : list domain;
  g_size : nat                     (* nb_parameters()-nb_current_barrier_triangles() *)
}.
Definition dipole : Type := (pt * pt)%type.      (* position r0, moment q *)
Definition dpos (d : dipole) : pt := fst d.
Definition dmom (d : dipole) : pt := snd d.

Variable contains : domain -> pt -> bool.        (* Domain::contains *)
Variable IDer : dipole -> triangle -> pt.        (* integrator.integrate(analyticDipPotDer(dipole,T).f, T) *)
Variable IPot : dipole -> triangle -> F.         (* integrator.integrate(dipole.potential, T) *)
Variable K : F.                                  (* constants.h K = 1/(4 pi) *)

(* Geometry::domain(const Vect3&) / domain(const std::string&): first match in declaration order; the index of
   the domain stands for its address (DipSource2InternalPotMat compares addresses). None = BadDomain thrown. *)
Fixpoint find_idx {A} (p : A -> bool) (l : list A) (k : nat) : option (nat * A) :=
  match l with
  | [] => None
  | a :: l' => if p a then Some (k, a) else find_idx p l' (S k)
  end.
Definition domain_of_point (geo : geometry) (p : pt) : option (nat * domain) :=
  find_idx (fun d => contains d p) (g_domains geo) 0.
Definition domain_of_name (geo : geometry) (n : Z) : option (nat * domain) :=
  find_idx (fun d => Z.eqb (dm_name d) n) (g_domains geo) 0.
(* domain_name=="" ? geo.domain(dipole.position()) : geo.domain(domain_name) *)
Definition lookup_domain (geo : geometry) (named : option Z) (d : dipole) : option (nat * domain) :=
  match named with None => domain_of_point geo (dpos d) | Some n => domain_of_name geo n end.

(* ---- Vector accumulation: rhs(i) += x.  Vector::operator() asserts i<size; the assertion is modelled by
   dom_ok below (every index the loops will touch is checked before, which is equivalent since the loops touch all
   of them whatever the values), so add_at itself is total. ---- *)
Definition add_at (v : list F) (i : nat) (x : F) : list F := upd v i (nth i v (f0 o) + x).

(* operatorDipolePotDer: for every triangle, for j<3: rhs(triangle.vertex(j).index()) += v(j)*coeff *)
Definition op_potder_tri (d : dipole) (coeff : F) (rhs : list F) (t : triangle) : list F :=
  let v := IDer d t in
  let '(i0, i1, i2) := tr_vidx t in
  add_at (add_at (add_at rhs i0 (px v * coeff)) i1 (py v * coeff)) i2 (pz v * coeff).
Definition op_potder (d : dipole) (m : mesh) (rhs : list F) (coeff : F) : list F :=
  fold_left (op_potder_tri d coeff) (ms_tris m) rhs.

(* operatorDipolePot: rhs(triangle.index()) += d*coeff *)
Definition op_pot_tri (d : dipole) (coeff : F) (rhs : list F) (t : triangle) : list F :=
  add_at rhs (tr_index t) (IPot d t * coeff).
Definition op_pot (d : dipole) (m : mesh) (rhs : list F) (coeff : F) : list F :=
  fold_left (op_pot_tri d coeff) (ms_tris m) rhs.

(* the body of `for (const auto& oriented_mesh : ...)` *)
Definition dsm_omesh (d : dipole) (cond factorD : F) (rhs : list F) (om : omesh) : list F :=
  let coeffD := factorD * fofZ o (om_orient om) in
  let rhs1 := op_potder d (om_mesh om) rhs coeffD in
  if negb (ms_barrier (om_mesh om))
  then op_pot d (om_mesh om) rhs1 (fopp o coeffD / cond)
  else rhs1.
(* the body of `for (const auto& boundary : domain.boundaries())` *)
Definition dsm_boundary (d : dipole) (cond : F) (rhs : list F) (b : boundary) : list F :=
  let factorD := if bd_inside b then K else fopp o K in
  fold_left (dsm_omesh d cond factorD) (bd_interface b) rhs.

(* all Vector indices the loops over this domain touch are below the size of rhs_col (else om_assert throws) *)
Definition tri_ok (n : nat) (barrier : bool) (t : triangle) : bool :=
  let '(i0, i1, i2) := tr_vidx t in
  (i0 <? n) && (i1 <? n) && (i2 <? n) && (barrier || (tr_index t <? n)).
Definition dom_ok (n : nat) (dom : domain) : bool :=
  forallb (fun b => forallb (fun om => forallb (tri_ok n (ms_barrier (om_mesh om))) (ms_tris (om_mesh om)))
                            (bd_interface b)) (dm_bounds dom).

Definition zeros (n : nat) : list F := repeat (f0 o) n.
Definition set_zero (v : list F) : list F := map (fun _ => f0 o) v.       (* Vector::set(0.0) *)

(* One iteration of the loop over the dipoles.  State = content of rhs_col; output = new state and column s of rhs.
   `reset` = true is the code as it is (rhs_col.set(0.0) at assembleSourceMat.cpp:83); false is the code with that
   line removed -- kept in the model so that the removal has a formal counterpart (dsm_noreset_not_local). *)
Definition dsm_body (reset : bool) (geo : geometry) (named : option Z) (buf : list F) (d : dipole)
  : option (list F * list F) :=
  match lookup_domain geo named d with
  | None => None
  | Some (_, dom) =>
    let cond := dm_cond dom in
    if negb (feqb o cond (f0 o)) then
      if dom_ok (length buf) dom then
        let buf0 := if reset then set_zero buf else buf in
        let buf1 := fold_left (dsm_boundary d cond) (dm_bounds dom) buf0 in
        Some (buf1, buf1)                               (* rhs.setcol(s,rhs_col) *)
      else None
    else Some (buf, zeros (length buf))                 (* the column keeps the zeros of rhs.set(0.0) *)
  end.

Fixpoint dsm_loop (reset : bool) (geo : geometry) (named : option Z) (buf : list F) (ds : list dipole)
  : option (list (list F)) :=
  match ds with
  | [] => Some []
  | d :: ds' =>
    match dsm_body reset geo named buf d with
    | None => None
    | Some (buf', col) =>
      match dsm_loop reset geo named buf' ds' with
      | None => None
      | Some cols => Some (col :: cols)
      end
    end
  end.

(* DipSourceMat: the matrix as the list of its columns; `init` = initial (uninitialised) content of rhs_col,
   of length g_size geo. *)
Definition DSM (geo : geometry) (named : option Z) (init : list F) (ds : list dipole) : option (list (list F)) :=
  dsm_loop true geo named init ds.
Definition DSM_noreset (geo : geometry) (named : option Z) (init : list F) (ds : list dipole) :=
  dsm_loop false geo named init ds.

(* what one dipole alone gives: the reference the column theorem talks about *)
Definition dsm_col (geo : geometry) (named : option Z) (d : dipole) : option (list F) :=
  option_map snd (dsm_body true geo named (zeros (g_size geo)) d).

(* ---- DipSource2MEGMat ---- *)
Definition pdot (a b : pt) : F := px a * px b + py a * py b + pz a * pz b.
Definition pdiv (a : pt) (d : F) : pt := (px a / d, py a / d, pz a / d).
Variable MagFactor : F.
(* mat(i,j): q ^ diff / (n*n*n) parses as q ^ (diff/(n*n*n)) *)
Definition meg_entry (pos ori : pt) (d : dipole) : F :=
  let diff := psub o pos (dpos d) in
  let nd := pnorm o diff in
  let field := pcross o (dmom d) (pdiv diff (nd * nd * nd)) in
  pdot field ori * MagFactor / pnorm o ori.
Record sensors := mkSensors {
  sn_points : list (pt * pt);                 (* positions, orientations *)
  sn_nb : nat;                                (* getNumberOfSensors() *)
  sn_weights : list (nat * nat * F)           (* getWeightsMatrix(): (sensor, position, weight) in map order *)
}.
(* SparseMatrix::operator*(Matrix) restricted to one column of the dense operand *)
Definition sparse_mul_col (n : nat) (W : list (nat * nat * F)) (c : list F) : list F :=
  fold_left (fun out e => let '(i, j, w) := e in add_at out i (w * nth j c (f0 o))) W (zeros n).
Definition ds2meg_mat (S : sensors) (ds : list dipole) : list (list F) :=
  map (fun d => map (fun po => meg_entry (fst po) (snd po) d) (sn_points S)) ds.
Definition DS2MEG (S : sensors) (ds : list dipole) : list (list F) :=
  map (sparse_mul_col (sn_nb S) (sn_weights S)) (ds2meg_mat S ds).

(* ---- DipSource2InternalPotMat ---- *)
Variable kpot : dipole -> pt -> F.               (* Dipole::potential *)
(* first loop: points in a non-conductive domain are dropped; None when geo.domain(point) throws *)
Fixpoint ip_points (geo : geometry) (pts : list pt) : option (list (nat * pt)) :=
  match pts with
  | [] => Some []
  | p :: pts' =>
    match domain_of_point geo p with
    | None => None
    | Some (k, dom) =>
      match ip_points geo pts' with
      | None => None
      | Some r => if negb (feqb o (dm_cond dom) (f0 o)) then Some ((k, p) :: r) else Some r
      end
    end
  end.
Definition ds2ip_col (geo : geometry) (named : option Z) (kept : list (nat * pt)) (d : dipole) : option (list F) :=
  match lookup_domain geo named d with
  | None => None
  | Some (k, dom) =>
    let coeff := K / dm_cond dom in
    Some (map (fun kp => if Nat.eqb (fst kp) k then f0 o + coeff * kpot d (snd kp) else f0 o) kept)
  end.
Fixpoint ds2ip_loop (geo : geometry) (named : option Z) (kept : list (nat * pt)) (ds : list dipole) : option (list (list F)) :=
  match ds with
  | [] => Some []
  | d :: ds' =>
    match ds2ip_col geo named kept d with
    | None => None
    | Some c => match ds2ip_loop geo named kept ds' with None => None | Some cs => Some (c :: cs) end
    end
  end.
Definition DS2IP (geo : geometry) (named : option Z) (pts : list pt) (ds : list dipole) : option (list (list F)) :=
  match ip_points geo pts with
  | None => None
  | Some kept => ds2ip_loop geo named kept ds
  end.

End Sources.
