(* Model of OpenMEEG/src/danielsson.cpp (closest point of a triangle / interface / geometry),
   written once over a record of numeric operations.  No proofs here.

   Deviation from the text of the code, stated once: the code returns and compares Euclidean
   distances  sqrt(norm2(MH));  the model returns and compares the squared distances norm2(MH)
   (sqrt is strictly increasing on non-negative numbers, so every `<` decision is the same in
   exact arithmetic).  Everything else follows the statements of the code one by one, including
   the out-parameter `alphas`, which is threaded as state.  *)
From Coq Require Import ZArith List Bool.
From OM Require Import Base.Ops Geom.V3Q.
Import ListNotations.

Section Dan.
Context {F : Type} (o : Ops F).
Local Notation "x +! y" := (fadd o x y) (at level 50, left associativity).
Local Notation "x -! y" := (fsub o x y) (at level 50, left associativity).
Local Notation "x *! y" := (fmul o x y) (at level 40, left associativity).
Local Notation "x /! y" := (fdiv o x y) (at level 40, left associativity).
Local Notation vec := (@vec F).
Local Notation vsub := (vsub o). Local Notation vadd := (vadd o). Local Notation vdot := (vdot o).
Local Notation vnorm2 := (vnorm2 o). Local Notation vscale := (vscale o). Local Notation vneg := (vneg o).

Definition tri : Type := (vec * vec * vec)%type.
Definition idx3 : Type := (nat * nat * nat)%type.
Definition swap3 (idx : idx3) (i j : nat) : idx3 := set3 (set3 idx i (get3 idx j)) j (get3 idx i).

(* DErr 1 : om_error(d!=0) -> std::invalid_argument ; DErr 3 : GenericError("dim>=4") / nb = 0 *)
Inductive dres : Type := DOk (d2 : F) (al : vec) (inside : bool) | DErr (code : nat).

(* for (i=0;i<nb;++i) if (alphas(idx[i])<0) ... : first such i *)
Fixpoint first_neg (al : vec) (idx : idx3) (i n : nat) : option nat :=
  match n with
  | O => None
  | S n' => if fltb o (get3 al (get3 idx i)) (f0 o) then Some i else first_neg al idx (S i) n'
  end.

(* the linear solve of dpc for nb = 2 and nb = 3; alphas is written cell by cell as in the code *)
Definition solve2 (A0M e1 : vec) (al : vec) (idx : idx3) : vec :=
  let al1 := set3 al (get3 idx 1) (vdot A0M e1 /! vdot e1 e1) in
  set3 al1 (get3 idx 0) ((f1 o) -! get3 al1 (get3 idx 1)).

Definition solve3 (A0M e1 e2 : vec) (al : vec) (idx : idx3) : option vec :=
  let a00 := vdot e1 e1 in
  let a10 := vdot e1 e2 in
  let a11 := vdot e2 e2 in
  let b0 := vdot A0M e1 in
  let b1 := vdot A0M e2 in
  let d := a00 *! a11 -! a10 *! a10 in
  if feqb o d (f0 o) then None
  else
    let al1 := set3 al (get3 idx 1) ((b0 *! a11 -! b1 *! a10) /! d) in
    let al2 := set3 al1 (get3 idx 2) ((a00 *! b1 -! a10 *! b0) /! d) in
    Some (set3 al2 (get3 idx 0) ((f1 o) -! get3 al2 (get3 idx 1) -! get3 al2 (get3 idx 2))).

Fixpoint dpc (fuel : nat) (p : vec) (T : tri) (al : vec) (nb : nat) (idx : idx3) (inside : bool) : dres :=
  match fuel with
  | O => DErr 3
  | S fuel' =>
    if Nat.eqb nb 1 then
      DOk (vnorm2 (vsub p (get3 T (get3 idx 0)))) (set3 al (get3 idx 0) (f1 o)) inside
    else
      let A0 := get3 T (get3 idx 0) in
      let e1 := vsub (get3 T (get3 idx 1)) A0 in
      let e2 := vsub (get3 T (get3 idx 2)) A0 in
      let A0M := vsub p A0 in
      let solved : option (option vec) :=
        if Nat.eqb nb 2 then Some (Some (solve2 A0M e1 al idx))
        else if Nat.eqb nb 3 then Some (solve3 A0M e1 e2 al idx)
        else None in
      match solved with
      | None => DErr 3
      | Some None => DErr 1
      | Some (Some al') =>
        match first_neg al' idx 0 nb with
        | Some i =>
            dpc fuel' p T (set3 al' (get3 idx i) (f0 o)) (nb - 1) (swap3 idx i (nb - 1)) false
        | None =>
            let MH1 := vadd (vneg A0M) (vscale (get3 al' (get3 idx 1)) e1) in
            let MH := if Nat.eqb nb 3 then vadd MH1 (vscale (get3 al' (get3 idx 2)) e2) else MH1 in
            DOk (vnorm2 MH) al' inside
        end
      end
  end.

(* dist_point_triangle: idx = {0,1,2}, inside = true *)
Definition dist_point_triangle (p : vec) (T : tri) (al : vec) : dres :=
  dpc 3 p T al 3 (0, 1, 2)%nat true.

(* ---- meshes, interfaces ---- *)
(* a triangle with the indices of its three vertices; a mesh = its triangles in iteration order *)
Definition itri : Type := (tri * idx3)%type.
Definition mesh : Type := list itri.
(* interface = its oriented meshes in order (the orientation plays no role here) *)
Definition interface : Type := list mesh.

Definition vzero : vec := ((f0 o), (f0 o), (f0 o)).

(* running state of dist_point_interface: distmin (None = numeric_limits<double>::max()),
   the caller's alphas, nearest (mesh number in the interface, triangle number in the mesh) *)
Record istate : Type := mkIS { is_d : option F; is_al : vec; is_near : option (nat * nat); is_err : option nat }.

Definition lt_min (d : F) (m : option F) : bool :=
  match m with None => true | Some m' => fltb o d m' end.

Definition scan_tri (p : vec) (mi ti : nat) (st : istate) (t : itri) : istate :=
  match is_err st with
  | Some _ => st
  | None =>
    match dist_point_triangle p (fst t) vzero with       (* Vect3 alphasLoop; is zero-filled *)
    | DErr c => mkIS (is_d st) (is_al st) (is_near st) (Some c)
    | DOk d al _ =>
        if lt_min d (is_d st) then mkIS (Some d) al (Some (mi, ti)) None else st
    end
  end.

Fixpoint scan_mesh (p : vec) (mi ti : nat) (st : istate) (m : mesh) : istate :=
  match m with
  | [] => st
  | t :: m' => scan_mesh p mi (S ti) (scan_tri p mi ti st t) m'
  end.

Fixpoint scan_meshes (p : vec) (mi : nat) (st : istate) (ms : interface) : istate :=
  match ms with
  | [] => st
  | m :: ms' => scan_meshes p (S mi) (scan_mesh p mi 0 st m) ms'
  end.

(* dist_point_interface(p, interface, alphas): alphas is the caller's vector *)
Definition dist_point_interface (p : vec) (ifc : interface) (al : vec) : istate :=
  scan_meshes p 0 (mkIS None al None None) ifc.

(* ---- geometry: domains in declaration order, each with its conductivity and its boundaries ---- *)
Definition domain : Type := (F * list (nat * interface))%type.     (* (sigma, [(interface id, interface)]) *)
Definition geometry : Type := list domain.

(* state of dist_point_geom: distmin, caller's alphas, nearest (interface id, mesh nr, triangle nr) *)
Record gstate : Type := mkGS { gs_d : option F; gs_al : vec; gs_near : option (nat * nat * nat); gs_err : option nat }.

(* [keep_min = false] : the code as it is - the caller's alphas is handed to every interface scan, which
   overwrites it with its own best triangle (so after the loop it holds the weights of the LAST boundary scanned).
   [keep_min = true]  : the variant that copies a local vector to the caller's alphas only when the interface
   improves the minimum.  It is NOT the code (the repair was withdrawn: the suite's HeadMN references were generated
   with the behaviour above); it is kept as the reference the property asks for and to classify mismatches. *)
Definition scan_boundary (keep_min : bool) (p : vec) (st : gstate) (b : nat * interface) : gstate :=
  match gs_err st with
  | Some _ => st
  | None =>
    let r := dist_point_interface p (snd b) (if keep_min then vzero else gs_al st) in
    match is_err r with
    | Some c => mkGS (gs_d st) (gs_al st) (gs_near st) (Some c)
    | None =>
      match is_d r, is_near r with
      | Some d, Some (mi, ti) =>
          if lt_min d (gs_d st) then mkGS (Some d) (is_al r) (Some (fst b, mi, ti)) None
          else mkGS (gs_d st) (if keep_min then gs_al st else is_al r) (gs_near st) None
      | _, _ => mkGS (gs_d st) (gs_al st) (gs_near st) (Some 4)  (* interface without triangle: null reference *)
      end
    end
  end.

Definition scan_domain (keep_min : bool) (p : vec) (st : gstate) (d : domain) : gstate :=
  if feqb o (fst d) (f0 o) then fold_left (scan_boundary keep_min p) (snd d) st else st.

Definition dist_point_geom_gen (keep_min : bool) (p : vec) (g : geometry) (al : vec) : gstate :=
  fold_left (scan_domain keep_min p) g (mkGS None al None None).

(* the code as it is *)
Definition dist_point_geom := dist_point_geom_gen false.
(* the behaviour the property requires (weights of the minimum are kept) *)
Definition dist_point_geom_repaired := dist_point_geom_gen true.

(* reconstruction of the point from the barycentric weights *)
Definition recon (T : tri) (al : vec) : vec :=
  vadd (vadd (vscale (get3 al 0) (get3 T 0)) (vscale (get3 al 1) (get3 T 1))) (vscale (get3 al 2) (get3 T 2)).

End Dan.

Arguments DOk {F}. Arguments DErr {F}.
