(* C01 — lemmas about the layered-sphere series over the R instance: scaling laws, collapse of equal conductivities,
   interface conditions solved by the layer recursion, Legendre recursion, centred dipole vs closed form. *)
From Coq Require Import Reals Lra Lia List ZArith Psatz.
From OM Require Import Base.Ops Geom.SphereVec Geom.Sphere Geom.SphereProofs.
Import ListNotations.
Local Open Scope R_scope.

Notation O_ := ROps_c01.
Ltac runf := cbn [fadd fsub fmul fdiv f0 f1 fopp fsqrt fpi fofZ ROps_c01].

Lemma fnat_INR n : fnat O_ n = INR n.
Proof. unfold fnat; cbn [fofZ ROps_c01]. symmetry; apply INR_IZR_INZ. Qed.
Lemma two_R : two O_ = 2.
Proof. unfold two; runf; ring. Qed.

(* ------------------------------------------------------------------ scaling of lengths *)
Lemma last_map_scale s (l : list R) : l <> [] -> last (map (Rmult s) l) 1 = s * last l 1.
Proof.
  induction l as [|x l IH]; [congruence|]. intros _. destruct l as [|y l]; [reflexivity|].
  change (last (map (Rmult s) (y :: l)) 1 = s * last (y :: l) 1). apply IH; congruence.
Qed.

Lemma ifaces_scale_len s Ro (radii sigmas : list R) : s <> 0 -> Ro <> 0 ->
  ifaces O_ (map (Rmult s) radii) sigmas (s * Ro) = ifaces O_ radii sigmas Ro.
Proof.
  intros Hs HR. revert sigmas. induction radii as [|r1 rs IH]; intros sigmas; [reflexivity|].
  destruct rs as [|r2 rs']; [reflexivity|].
  destruct sigmas as [|s1 [|s2 ss']]; try reflexivity.
  change (ifaces O_ (map (Rmult s) (r1 :: r2 :: rs')) (s1 :: s2 :: ss') (s * Ro))
    with ((fdiv O_ (s * r1) (s * Ro), fdiv O_ s2 s1) :: ifaces O_ (map (Rmult s) (r2 :: rs')) (s2 :: ss') (s * Ro)).
  change (ifaces O_ (r1 :: r2 :: rs') (s1 :: s2 :: ss') Ro)
    with ((fdiv O_ r1 Ro, fdiv O_ s2 s1) :: ifaces O_ (r2 :: rs') (s2 :: ss') Ro).
  rewrite IH. f_equal. f_equal. runf. field; split; assumption.
Qed.

Lemma ifaces_scale_sigma k Ro (radii sigmas : list R) : k <> 0 -> Forall (fun x => x <> 0) sigmas ->
  ifaces O_ radii (map (Rmult k) sigmas) Ro = ifaces O_ radii sigmas Ro.
Proof.
  intros Hk. revert sigmas. induction radii as [|r1 rs IH]; intros sigmas HF; [reflexivity|].
  destruct rs as [|r2 rs']; [destruct sigmas; reflexivity|].
  destruct sigmas as [|s1 [|s2 ss']]; try reflexivity.
  change (ifaces O_ (r1 :: r2 :: rs') (map (Rmult k) (s1 :: s2 :: ss')) Ro)
    with ((fdiv O_ r1 Ro, fdiv O_ (k * s2) (k * s1)) :: ifaces O_ (r2 :: rs') (map (Rmult k) (s2 :: ss')) Ro).
  change (ifaces O_ (r1 :: r2 :: rs') (s1 :: s2 :: ss') Ro)
    with ((fdiv O_ r1 Ro, fdiv O_ s2 s1) :: ifaces O_ (r2 :: rs') (s2 :: ss') Ro).
  inversion HF as [|? ? H1 HF']; subst. rewrite IH by assumption. f_equal. f_equal. runf. field; split; assumption.
Qed.

Lemma sphere_pot_inv_scale_len cs Ro sg qr qr0 r0r r0r0 rr s :
  0 < s -> Ro <> 0 -> 0 <= rr -> sqrt rr <> 0 ->
  sphere_pot_inv O_ cs (s * Ro) sg (s * qr) (s * qr0) (s * s * r0r) (s * s * r0r0) (s * s * rr)
  = / (s * s) * sphere_pot_inv O_ cs Ro sg qr qr0 r0r r0r0 rr.
Proof.
  intros Hs HR Hrr Hn. unfold sphere_pot_inv. runf.
  rewrite sqrt_mult_alt by nra. rewrite sqrt_square by lra.
  set (nr := sqrt rr) in *.
  replace (s * s * r0r / (s * Ro * (s * nr))) with (r0r / (Ro * nr)) by (field; repeat split; lra).
  replace (s * s * r0r0 / (s * Ro * (s * Ro))) with (r0r0 / (Ro * Ro)) by (field; repeat split; lra).
  replace (s * qr / (s * nr)) with (qr / nr) by (field; repeat split; lra).
  replace (s * qr0 / (s * Ro)) with (qr0 / Ro) by (field; repeat split; lra).
  match goal with |- ?X / _ = _ => generalize X end. intros X.
  unfold Rdiv. rewrite !Rinv_mult. ring.
Qed.

Lemma sphere_pot_scale_len radii sigmas q r0 r n s :
  0 < s -> radii <> [] -> outer_radius O_ radii <> 0 -> rnorm r <> 0 ->
  sphere_pot O_ (map (Rmult s) radii) sigmas q (rscale s r0) (rscale s r) n
  = / (s * s) * sphere_pot O_ radii sigmas q r0 r n.
Proof.
  intros Hs Hne HR Hr. unfold sphere_pot, sphere_coefs, outer_radius in *. cbn [f1 ROps_c01] in *.
  rewrite last_map_scale by assumption. rewrite ifaces_scale_len by lra.
  unfold sphere_pot_c. rewrite !dot_scale2, !dot_scale_r.
  apply sphere_pot_inv_scale_len; try assumption. apply rdot_self_nonneg.
Qed.

(* ------------------------------------------------------------------ scaling of conductivities *)
Lemma sphere_pot_scale_sig radii sigmas q r0 r n k :
  k <> 0 -> sigmas <> [] -> Forall (fun x => x <> 0) sigmas ->
  sphere_pot O_ radii (map (Rmult k) sigmas) q r0 r n = / k * sphere_pot O_ radii sigmas q r0 r n.
Proof.
  intros Hk Hne HF. unfold sphere_pot, sphere_coefs. rewrite ifaces_scale_sigma by assumption.
  replace (inner_sigma O_ (map (Rmult k) sigmas)) with (k * inner_sigma O_ sigmas)
    by (destruct sigmas; [congruence|reflexivity]).
  unfold sphere_pot_c, sphere_pot_inv. runf.
  match goal with |- ?X / _ = _ => generalize X end. intros X.
  unfold Rdiv. rewrite !Rinv_mult. ring.
Qed.

(* ------------------------------------------------------------------ the layer recursion *)
(* [layer_step] solves the two interface conditions.  With lengths in units of R, the degree-n radial factor in a layer
   with coefficients (a,b) is  f(x) = a x^n + b x^-(n+1); continuity of the potential and of sigma f' at x read (after
   dividing by x^n and x^(n-1), rho = x^(2n+1)):   a' + b'/rho = a + b/rho,   n a' - (n+1) b'/rho = s (n a - (n+1) b/rho). *)
Lemma layer_step_conditions n x s a b :
  fpow_pos O_ x (Pos.of_succ_nat (2 * n)) <> 0 ->
  let rho := fpow_pos O_ x (Pos.of_succ_nat (2 * n)) in
  let '(a', b') := layer_step O_ n (x, s) (a, b) in
  a' + b' / rho = a + b / rho /\
  INR n * a' - (INR n + 1) * (b' / rho) = s * (INR n * a - (INR n + 1) * (b / rho)).
Proof.
  intros Hrho rho. unfold layer_step. fold rho. rewrite fnat_INR, two_R. runf.
  assert (0 <= INR n) by apply pos_INR.
  change (rho <> 0) in Hrho. clearbody rho.
  split; field; split; try assumption; lra.
Qed.

(* outermost layer: zero normal current at x = 1 *)
Lemma layer_start_neumann n : let '(a, b) := layer_ab O_ [] n in INR n * a - (INR n + 1) * b = 0.
Proof.
  unfold layer_ab; cbn [fold_right]. rewrite fnat_INR. runf. assert (0 <= INR n) by apply pos_INR. field; lra.
Qed.

(* no conductivity jump: the step is the identity *)
Lemma layer_step_no_jump n x a b : layer_step O_ n (x, 1) (a, b) = (a, b).
Proof.
  unfold layer_step. rewrite fnat_INR, two_R. runf. assert (0 <= INR n) by apply pos_INR.
  f_equal; match goal with |- ?N / ?D = ?X => assert (E : N = X * D) by (unfold Rdiv; ring); rewrite E; field; lra end.
Qed.

Lemma ifaces_equal_sigma sg Ro (radii sigmas : list R) : sg <> 0 -> Forall (eq sg) sigmas ->
  Forall (fun xs => snd xs = 1) (ifaces O_ radii sigmas Ro).
Proof.
  intros Hs. revert sigmas. induction radii as [|r1 rs IH]; intros sigmas HF; [constructor|].
  destruct rs as [|r2 rs']; [destruct sigmas; constructor|].
  destruct sigmas as [|s1 [|s2 ss']]; [constructor|constructor|].
  change (ifaces O_ (r1 :: r2 :: rs') (s1 :: s2 :: ss') Ro)
    with ((fdiv O_ r1 Ro, fdiv O_ s2 s1) :: ifaces O_ (r2 :: rs') (s2 :: ss') Ro).
  inversion HF as [|? ? E1 HF']; subst. inversion HF' as [|? ? E2 HF'']; subst.
  constructor.
  - cbn [snd]. runf. field; assumption.
  - apply IH. assumption.
Qed.

Lemma layer_ab_no_jump n ifs : Forall (fun xs => snd xs = 1) ifs -> layer_ab O_ ifs n = layer_ab O_ [] n.
Proof.
  unfold layer_ab. induction 1 as [|[x s] l E _ IH]; [reflexivity|].
  cbn [fold_right]. rewrite IH. cbn [snd] in E; subst s. apply layer_step_no_jump.
Qed.

Lemma sphere_coefs_from_ext ifs1 ifs2 n0 k :
  (forall n, layer_ab O_ ifs1 n = layer_ab O_ ifs2 n) ->
  sphere_coefs_from O_ ifs1 n0 k = sphere_coefs_from O_ ifs2 n0 k.
Proof.
  intros E. revert n0. induction k; intros n0; [reflexivity|]. cbn [sphere_coefs_from].
  rewrite IHk. unfold sphere_coef. now rewrite E.
Qed.

(* equal conductivities in all layers: the interior interfaces disappear *)
Lemma equal_sigma_collapse radii sigmas sg q r0 r n :
  sg <> 0 -> sigmas <> [] -> Forall (eq sg) sigmas ->
  sphere_pot O_ radii sigmas q r0 r n = sphere_pot O_ [outer_radius O_ radii] [sg] q r0 r n.
Proof.
  intros Hs Hne HF. unfold sphere_pot, sphere_coefs.
  replace (inner_sigma O_ sigmas) with sg by (destruct sigmas; [congruence|inversion HF; subst; reflexivity]).
  replace (outer_radius O_ [outer_radius O_ radii]) with (outer_radius O_ radii) by reflexivity.
  replace (inner_sigma O_ [sg]) with sg by reflexivity.
  f_equal. cbn [ifaces]. apply sphere_coefs_from_ext. intros m.
  apply layer_ab_no_jump. eapply ifaces_equal_sigma; eassumption.
Qed.

(* one layer: the classical coefficient (2n+1)/n *)
Lemma one_layer_coef n : (0 < n)%nat -> sphere_coef O_ [] n = (2 * INR n + 1) / INR n.
Proof.
  intros Hn. unfold sphere_coef, layer_ab; cbn [fold_right snd]. rewrite fnat_INR, two_R. runf.
  assert (0 < INR n) by (apply lt_0_INR; assumption). field; lra.
Qed.

(* ------------------------------------------------------------------ Legendre recursion *)
Lemma leg_state_S t m2 k : leg_state O_ t m2 (S k) = leg_step O_ t m2 (S k) (leg_state O_ t m2 k).
Proof. reflexivity. Qed.

Lemma solid_p_0 t m2 : solid_p O_ t m2 0 = 1. Proof. reflexivity. Qed.
Lemma solid_p_1 t m2 : solid_p O_ t m2 1 = t.
Proof. unfold solid_p; cbn [leg_state leg_step]. reflexivity. Qed.

Lemma leg_state_shape t m2 k :
  leg_state O_ t m2 k = (solid_p O_ t m2 k, solid_p O_ t m2 (S k), solid_d O_ t m2 k, solid_d O_ t m2 (S k)).
Proof.
  unfold solid_p, solid_d. rewrite leg_state_S. destruct (leg_state O_ t m2 k) as [[[pm p] dm] d]. reflexivity.
Qed.

Lemma solid_p_rec t m2 n :
  (INR (S n) + 1) * solid_p O_ t m2 (S (S n)) =
  (2 * INR (S n) + 1) * t * solid_p O_ t m2 (S n) - INR (S n) * m2 * solid_p O_ t m2 n.
Proof.
  pose proof (leg_state_shape t m2 (S n)) as E1. rewrite leg_state_S in E1.
  rewrite (leg_state_shape t m2 n) in E1. unfold leg_step in E1. rewrite fnat_INR, two_R in E1.
  cbv beta iota zeta in E1.
  pose proof (f_equal (fun s : R * R * R * R => snd (fst (fst s))) E1) as E. cbv beta in E. cbn [fst snd] in E.
  rewrite <- E. runf. assert (0 <= INR (S n)) by apply pos_INR. field; lra.
Qed.

Lemma solid_d_rec t m2 n :
  solid_d O_ t m2 (S (S n)) = t * solid_d O_ t m2 (S n) + (INR (S n) + 1) * solid_p O_ t m2 (S n).
Proof.
  pose proof (leg_state_shape t m2 (S n)) as E1. rewrite leg_state_S in E1.
  rewrite (leg_state_shape t m2 n) in E1. unfold leg_step in E1. rewrite fnat_INR in E1.
  cbv beta iota zeta in E1.
  pose proof (f_equal (fun s : R * R * R * R => snd s) E1) as E. cbv beta in E. cbn [fst snd] in E.
  rewrite <- E. runf. reflexivity.
Qed.

Lemma solid_d_0 t m2 : solid_d O_ t m2 0 = 0. Proof. reflexivity. Qed.
Lemma solid_d_1 t m2 : solid_d O_ t m2 1 = 1. Proof. reflexivity. Qed.

Lemma legendre_spec x :
  legendre O_ 0 x = 1 /\ legendre O_ 1 x = x /\
  (forall n : nat, (INR (S n) + 1) * legendre O_ (S (S n)) x =
                   (2 * INR (S n) + 1) * x * legendre O_ (S n) x - INR (S n) * legendre O_ n x) /\
  legendre_d O_ 0 x = 0 /\ legendre_d O_ 1 x = 1 /\
  (forall n : nat, legendre_d O_ (S (S n)) x =
                   x * legendre_d O_ (S n) x + (INR (S n) + 1) * legendre O_ (S n) x).
Proof.
  unfold legendre, legendre_d. cbn [f1 ROps_c01]. repeat split.
  - intros n. rewrite (solid_p_rec x 1 n). ring.
  - intros n. apply solid_d_rec.
Qed.
