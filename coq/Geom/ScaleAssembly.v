(* C03, assembly level: over C10's model of the head-matrix assembly (Geom/Assembly.v, kernels as parameters).
   If, between two descriptions of a head,
      S kernel values are multiplied by sS, D kernel values by sD, edge dot products by s2, areas by sa,
      and the pair coefficients sigma^-1, sigma, indicator by gS, gN, gD,
   and these factors are tied to a pair (alpha, pt) by
      sS*gS = alpha*pt^2,   sD*gD = alpha*pt,   s2*pt^2*gN = sa^2*gS,
   then every entry (i,j) of the second head matrix is  alpha*phi(i)*phi(j)  times the entry of the first, where
   phi = pt on triangle unknowns and 1 on vertex unknowns:  H' = alpha * D H D  with  D = diag(I_v, pt*I_t),
   which is the hypothesis of the MathComp lift (Geom/ScalingAlgebra.v).
      lengths * s        : sS=s^3, sD=s^2, s2=s^2, sa=s^2, g*=1      => alpha=s, pt=s
      conductivities * k : s*=1, gS=1/k, gN=k, gD=1                  => alpha=k, pt=1/k                          *)
From Coq Require Import List NArith ZArith Bool FMapPositive Reals Lra Lia.
From OM Require Import Base.Ops Geom.Assembly Geom.AssemblyProofs.
Import ListNotations.
Local Open Scope R_scope.

Notation mgetR := (mget RO).
Notation msetR := (@mset R).
Notation maddR := (madd RO).

Section Rel.
  Variables (alpha : R) (phi : N -> R).
  (* M' = alpha * D M D *)
  Definition rel (M' M : store R) : Prop := forall r c, mgetR M' r c = alpha * phi r * phi c * mgetR M r c.

  Lemma hit_phi i j r c : hit i j r c = true -> phi r * phi c = phi i * phi j.
  Proof.
    unfold hit. intros H. apply orb_true_iff in H. destruct H as [H | H].
    - destruct (N.eqb_spec i r); [| discriminate]. apply N.eqb_eq in H. subst. reflexivity.
    - destruct (N.eqb_spec i c); [| discriminate]. apply N.eqb_eq in H. subst. ring.
  Qed.

  Lemma rel_empty : rel sempty sempty.
  Proof. intros r c. rewrite !mget_empty. ring. Qed.

  Lemma rel_mset M' M i j x' x : rel M' M -> x' = alpha * phi i * phi j * x -> rel (msetR M' i j x') (msetR M i j x).
  Proof.
    intros H Hx r c. rewrite !mget_mset. fold (hit i j r c).
    destruct (hit i j r c) eqn:E; [| apply H].
    rewrite Hx. pose proof (hit_phi _ _ _ _ E) as P.
    replace (alpha * phi r * phi c * x) with (alpha * (phi r * phi c) * x) by ring. rewrite P. ring.
  Qed.

  Lemma rel_madd M' M i j x' x : rel M' M -> x' = alpha * phi i * phi j * x -> rel (maddR M' i j x') (maddR M i j x).
  Proof.
    intros H Hx r c. rewrite !mget_madd, (H r c).
    destruct (hit i j r c) eqn:E; [| ring].
    rewrite Hx. pose proof (hit_phi _ _ _ _ E) as P.
    replace (alpha * phi r * phi c * (mgetR M r c + x)) with (alpha * phi r * phi c * mgetR M r c + alpha * (phi r * phi c) * x) by ring.
    rewrite P. ring.
  Qed.
End Rel.

(* generic: a fold preserves a relation between accumulators when each step does *)
Lemma fold_left_rel {A St : Type} (P : St -> St -> Prop) (f' f : St -> A -> St) (l : list A) :
  (forall M' M a, In a l -> P M' M -> P (f' M' a) (f M a)) ->
  forall M' M, P M' M -> P (fold_left f' l M') (fold_left f l M).
Proof.
  induction l as [| a l IH]; intros H M' M HP; cbn [fold_left]; [exact HP |].
  apply IH; [intros; apply H; [right |]; assumption | apply H; [left; reflexivity | exact HP]].
Qed.

(* raw (non-symmetric) temporary stores: B' = sg * B *)
Definition relraw (sg : R) (B' B : store R) : Prop := forall a b, rget RO B' a b = sg * rget RO B a b.
Lemma relraw_empty sg : relraw sg sempty sempty.
Proof. intros a b. unfold rget, rfind, sempty. rewrite PositiveMap.gempty. cbn. ring. Qed.
Lemma relraw_rput sg B' B a b x' x : relraw sg B' B -> x' = sg * x -> relraw sg (rput B' a b x') (rput B a b x).
Proof.
  intros H Hx a' b'. unfold rget.
  destruct (N.eq_dec a a') as [Ea | Ea]; [destruct (N.eq_dec b b') as [Eb | Eb] |].
  - subst a' b'. rewrite !rfind_rput_same. exact Hx.
  - rewrite !rfind_rput_other by congruence. apply H.
  - rewrite !rfind_rput_other by congruence. apply H.
Qed.

Section Blocks.
  (* the two descriptions *)
  Variables (pos pos' : N -> R * R * R) (area area' : N -> R) (Sk Sk' : N -> N -> R) (Dk Dk' : N -> N -> nat -> R).
  Variables (sS sD s2 sa gS gN gD alpha pt : R).
  Hypothesis Hdot : forall t1 v1 t2 v2,
    dot RO (CB RO pos' t1 v1) (CB RO pos' t2 v2) = s2 * dot RO (CB RO pos t1 v1) (CB RO pos t2 v2).
  Hypothesis Harea : forall t, area' t = sa * area t.
  Hypothesis HS : forall a b, Sk' a b = sS * Sk a b.
  Hypothesis HD : forall a b i, Dk' a b i = sD * Dk a b i.
  Hypothesis sa_nz : sa <> 0.
  Hypothesis gS_nz : gS <> 0.
  Hypothesis C1 : sS * gS = alpha * pt * pt.
  Hypothesis C2 : sD * gD = alpha * pt.
  Hypothesis C3 : s2 * pt * pt * gN = sa * sa * gS.

  Lemma C4 : s2 * sS * gN = alpha * (sa * sa).
  Proof.
    apply (Rmult_eq_reg_r gS); [| exact gS_nz].
    transitivity (s2 * gN * (sS * gS)); [ring | rewrite C1].
    transitivity (alpha * (s2 * pt * pt * gN)); [ring | rewrite C3; ring].
  Qed.

  (* unknown indices: triangle unknowns vs vertex unknowns *)
  Variable istri : N -> bool.
  Definition phi (i : N) : R := if istri i then pt else 1.
  Variable geo : igeom R.
  Hypothesis Htri : forall k t, In t (mtris (gmesh geo k)) -> istri (tix t) = true.
  Hypothesis Hvert : forall v, istri (vix geo v) = false.
  Hypothesis H0 : istri 0%N = false.

  Notation REL := (rel alpha phi).

  Lemma phi_tri k t : In t (mtris (gmesh geo k)) -> phi (tix t) = pt.
  Proof. intros H; unfold phi; rewrite (Htri k t H); reflexivity. Qed.
  Lemma phi_vert v : phi (vix geo v) = 1.
  Proof. unfold phi; rewrite Hvert; reflexivity. Qed.

  (* ---- S blocks written into the matrix ------------------------------------------------------------------- *)
  Lemma S_diag_rel k cS : forall ts M' M, incl ts (mtris (gmesh geo k)) -> REL M' M ->
    REL (S_diag RO Sk' msetR M' (gS * cS) ts) (S_diag RO Sk msetR M cS ts).
  Proof.
    induction ts as [| t1 rest IH]; intros M' M Hin HR; cbn [S_diag]; [exact HR |].
    apply IH; [intros x Hx; apply Hin; right; exact Hx |].
    apply (fold_left_rel REL); [| exact HR].
    intros N' N0 t2 Ht2 HRN. apply rel_mset; [exact HRN |].
    rewrite (phi_tri k t1), (phi_tri k t2) by (apply Hin; (left; reflexivity) || exact Ht2).
    cbn [fmul RO]. rewrite HS. transitivity (sS * gS * (Sk (tid t1) (tid t2) * cS)); [ring | rewrite C1; ring].
  Qed.

  Lemma S_off_rel k1 k2 cS ts1 ts2 M' M : incl ts1 (mtris (gmesh geo k1)) -> incl ts2 (mtris (gmesh geo k2)) -> REL M' M ->
    REL (S_off RO Sk' msetR M' (gS * cS) ts1 ts2) (S_off RO Sk msetR M cS ts1 ts2).
  Proof.
    intros H1 H2 HR. unfold S_off. apply (fold_left_rel REL); [| exact HR].
    intros N' N0 t1 Ht1 HRN. apply (fold_left_rel REL); [| exact HRN].
    intros P' P0 t2 Ht2 HRP. apply rel_mset; [exact HRP |].
    rewrite (phi_tri k1 t1), (phi_tri k2 t2) by (apply H1 || apply H2; assumption).
    cbn [fmul RO]. rewrite HS. transitivity (sS * gS * (Sk (tid t1) (tid t2) * cS)); [ring | rewrite C1; ring].
  Qed.

  (* ---- D blocks --------------------------------------------------------------------------------------------- *)
  Lemma D_block_rel k1 cD ts1 ts2 M' M : incl ts1 (mtris (gmesh geo k1)) -> REL M' M ->
    REL (D_block RO Dk' geo M' (gD * cD) ts1 ts2) (D_block RO Dk geo M cD ts1 ts2).
  Proof.
    intros H1 HR. unfold D_block. apply (fold_left_rel REL); [| exact HR].
    intros N' N0 t1 Ht1 HRN. apply (fold_left_rel REL); [| exact HRN].
    intros P' P0 t2 Ht2 HRP. apply (fold_left_rel REL); [| exact HRP].
    intros Q' Q0 i Hi HRQ. apply rel_madd; [exact HRQ |].
    rewrite (phi_tri k1 t1), phi_vert by (apply H1; assumption).
    cbn [fmul RO]. rewrite HD. transitivity (sD * gD * (Dk (tid t1) (tid t2) i * cD)); [ring | rewrite C2; ring].
  Qed.

  (* ---- N blocks: computed from (stored or temporary) S values --------------------------------------------------- *)
  Lemma Nterm_rel rho factor (Sread' Sread : N -> N -> R) t1 v1 t2 v2 :
    Sread' (tix t1) (tix t2) = rho * Sread (tix t1) (tix t2) ->
    Nterm RO pos' area' factor Sread' t1 v1 t2 v2 = (s2 * rho / (sa * sa)) * Nterm RO pos area factor Sread t1 v1 t2 v2.
  Proof.
    intros H. unfold Nterm. rewrite Hdot, !Harea, H. cbn [fdiv fmul RO]. unfold Rdiv. rewrite !Rinv_mult.
    set (a1 := / area (tid t1)). set (a2 := / area (tid t2)). set (S0 := Sread _ _). set (d := dot RO _ _).
    transitivity (factor * d * S0 * a1 * a2 * (s2 * rho * (/ sa * / sa))); ring.
  Qed.

  Lemma Nval_rel rho factor (Sread' Sread : N -> N -> R) m1 m2 v1 v2 :
    (forall t1 t2, In t1 (mtris m1) -> In t2 (mtris m2) -> Sread' (tix t1) (tix t2) = rho * Sread (tix t1) (tix t2)) ->
    Nval RO pos' area' factor Sread' m1 m2 v1 v2 = (s2 * rho / (sa * sa)) * Nval RO pos area factor Sread m1 m2 v1 v2.
  Proof.
    intros H. unfold Nval. set (c := s2 * rho / (sa * sa)).
    apply (fold_left_rel (fun a' a => a' = c * a)); [| cbn; ring].
    intros acc' acc t1 Ht1 Hacc. apply (fold_left_rel (fun a' a => a' = c * a)); [| exact Hacc].
    intros b' b t2 Ht2 Hb. cbn [fsub RO]. unfold tris_of in Ht1, Ht2. apply filter_In in Ht1, Ht2.
    rewrite (Nterm_rel rho factor Sread' Sread t1 v1 t2 v2) by (apply H; tauto). rewrite Hb. fold c. ring.
  Qed.

  Lemma N_diag_rel rho cN' cN (Sread' Sread : N -> N -> R) m :
    (forall t1 t2, In t1 (mtris m) -> In t2 (mtris m) -> Sread' (tix t1) (tix t2) = rho * Sread (tix t1) (tix t2)) ->
    (s2 * rho / (sa * sa)) * cN' = alpha * cN ->
    forall vs M' M, REL M' M -> REL (N_diag RO pos' area' geo M' cN' Sread' m vs) (N_diag RO pos area geo M cN Sread m vs).
  Proof.
    intros HS' Hc. induction vs as [| a rest IH]; intros M' M HR; cbn [N_diag]; [exact HR |].
    apply IH. apply (fold_left_rel REL); [| exact HR].
    intros P' P0 b Hb HRP. apply rel_madd; [exact HRP |].
    rewrite !phi_vert. cbn [fmul RO]. rewrite (Nval_rel rho (quarter RO) Sread' Sread m m a b) by exact HS'.
    transitivity ((s2 * rho / (sa * sa) * cN') * Nval RO pos area (quarter RO) Sread m m a b); [ring | rewrite Hc; ring].
  Qed.

  Lemma N_off_rel rho cN' cN (Sread' Sread : N -> N -> R) m1 m2 M' M :
    (forall t1 t2, In t1 (mtris m1) -> In t2 (mtris m2) -> Sread' (tix t1) (tix t2) = rho * Sread (tix t1) (tix t2)) ->
    (s2 * rho / (sa * sa)) * cN' = alpha * cN -> REL M' M ->
    REL (N_off RO pos' area' geo M' cN' Sread' m1 m2) (N_off RO pos area geo M cN Sread m1 m2).
  Proof.
    intros HS' Hc HR. unfold N_off. apply (fold_left_rel REL); [| exact HR].
    intros P' P0 a Ha HRP. apply (fold_left_rel REL); [| exact HRP].
    intros Q' Q0 b Hb HRQ. apply rel_madd; [exact HRQ |].
    rewrite !phi_vert. cbn [fmul RO]. rewrite (Nval_rel rho (Nfac RO a b) Sread' Sread m1 m2 a b) by exact HS'.
    transitivity ((s2 * rho / (sa * sa) * cN') * Nval RO pos area (Nfac RO a b) Sread m1 m2 a b); [ring | rewrite Hc; ring].
  Qed.

  (* ---- temporary S blocks (coefficient 1) --------------------------------------------------------------------- *)
  Notation RELU := (rel sS (fun _ => 1)).
  Lemma S_diag_tmp off : forall ts B' B, RELU B' B ->
    RELU (S_diag RO Sk' (@sbset R off) B' (f1 RO) ts) (S_diag RO Sk (@sbset R off) B (f1 RO) ts).
  Proof.
    induction ts as [| t1 rest IH]; intros B' B HR; cbn [S_diag]; [exact HR |].
    apply IH. apply (fold_left_rel RELU); [| exact HR].
    intros P' P0 t2 Ht2 HRP. unfold sbset. apply rel_mset; [exact HRP |]. cbn [fmul f1 RO]. rewrite HS. ring.
  Qed.

  Lemma S_off_tmp i0 j0 ts1 ts2 :
    relraw sS (S_off RO Sk' (@bset R i0 j0) sempty (f1 RO) ts1 ts2) (S_off RO Sk (@bset R i0 j0) sempty (f1 RO) ts1 ts2).
  Proof.
    unfold S_off. apply (fold_left_rel (relraw sS)); [| apply relraw_empty].
    intros P' P0 t1 Ht1 HRP. apply (fold_left_rel (relraw sS)); [| exact HRP].
    intros Q' Q0 t2 Ht2 HRQ. unfold bset. apply relraw_rput; [exact HRQ |]. cbn [fmul f1 RO]. rewrite HS. ring.
  Qed.

  Lemma feqb_scaled cS : feqb RO (gS * cS) (f0 RO) = feqb RO cS (f0 RO).
  Proof.
    cbn [feqb f0 RO]. destruct (Req_EM_T (gS * cS) 0) as [A | A], (Req_EM_T cS 0) as [B | B]; try reflexivity; exfalso.
    - apply B. apply (Rmult_eq_reg_l gS); [rewrite A; ring | exact gS_nz].
    - apply A. rewrite B; ring.
  Qed.

  Lemma ratio_cond cS cN : cS <> 0 ->
    s2 * (alpha * pt * pt) / (sa * sa) * (gN * cN / (gS * cS)) = alpha * (cN / cS).
  Proof.
    intros HcS. unfold Rdiv. rewrite !Rinv_mult.
    transitivity (alpha * (s2 * pt * pt * gN) * (/ sa * / sa) * / gS * (cN * / cS)); [ring | rewrite C3].
    transitivity (alpha * ((sa * / sa) * (sa * / sa) * (gS * / gS)) * (cN * / cS)); [ring | rewrite !Rinv_r by assumption; ring].
  Qed.

  Lemma tmp_cond cN : s2 * sS / (sa * sa) * (gN * cN) = alpha * cN.
  Proof.
    unfold Rdiv. rewrite Rinv_mult. transitivity ((s2 * sS * gN) * (/ sa * / sa) * cN); [ring | rewrite C4].
    transitivity (alpha * ((sa * / sa) * (sa * / sa)) * cN); [ring | rewrite !Rinv_r by assumption; ring].
  Qed.

  (* ---- HeadMatrixBlocks<DiagonalBlock>::set_blocks --------------------------------------------------------------- *)
  Lemma diag_block_rel k cS cN cD M' M : REL M' M ->
    REL (diag_block RO pos' area' Sk' Dk' geo M' (gS * cS) (gN * cN) (gD * cD) (gmesh geo k))
        (diag_block RO pos area Sk Dk geo M cS cN cD (gmesh geo k)).
  Proof.
    intros HR. unfold diag_block. set (m := gmesh geo k).
    assert (Hincl : incl (mtris m) (mtris (gmesh geo k))) by (intros x Hx; exact Hx).
    destruct (mbarrier m).
    - (* current barrier: no S, no D; N from a temporary S block *)
      replace (feqb RO (f0 RO) (f0 RO)) with true by (cbn; destruct (Req_EM_T 0 0); [reflexivity | exfalso; auto]).
      apply (N_diag_rel sS); [| apply tmp_cond | exact HR].
      intros t1 t2 _ _. unfold sbget. rewrite (S_diag_tmp (front_ix m) (mtris m) sempty sempty (rel_empty _ _)). ring.
    - rewrite feqb_scaled. apply (D_block_rel k); [exact Hincl |].
      assert (HR1 : REL (S_diag RO Sk' msetR M' (gS * cS) (mtris m)) (S_diag RO Sk msetR M cS (mtris m)))
        by (apply (S_diag_rel k); assumption).
      destruct (feqb RO cS (f0 RO)) eqn:E.
      + apply (N_diag_rel sS); [| apply tmp_cond | exact HR1].
        intros t1 t2 _ _. unfold sbget. rewrite (S_diag_tmp (front_ix m) (mtris m) sempty sempty (rel_empty _ _)). ring.
      + assert (HcS : cS <> 0) by (cbn in E; destruct (Req_EM_T cS 0); [discriminate | assumption]).
        apply (N_diag_rel (alpha * pt * pt)); [| cbn [fdiv RO]; apply ratio_cond; exact HcS | exact HR1].
        intros t1 t2 H1 H2. rewrite (HR1 (tix t1) (tix t2)), (phi_tri k t1), (phi_tri k t2) by assumption. ring.
  Qed.

  (* ---- HeadMatrixBlocks<NonDiagonalBlock>::set_blocks ------------------------------------------------------------ *)
  Lemma nondiag_block_rel k1 k2 cS cN cD M' M : REL M' M ->
    REL (nondiag_block RO pos' area' Sk' Dk' geo M' (gS * cS) (gN * cN) (gD * cD) (gmesh geo k1) (gmesh geo k2))
        (nondiag_block RO pos area Sk Dk geo M cS cN cD (gmesh geo k1) (gmesh geo k2)).
  Proof.
    intros HR. unfold nondiag_block. set (m1 := gmesh geo k1). set (m2 := gmesh geo k2).
    assert (Hi1 : incl (mtris m1) (mtris (gmesh geo k1))) by (intros x Hx; exact Hx).
    assert (Hi2 : incl (mtris m2) (mtris (gmesh geo k2))) by (intros x Hx; exact Hx).
    set (both := negb (mbarrier m1) && negb (mbarrier m2)).
    assert (HR1 : REL (if both then S_off RO Sk' msetR M' (gS * cS) (mtris m1) (mtris m2) else M')
                      (if both then S_off RO Sk msetR M cS (mtris m1) (mtris m2) else M))
      by (destruct both; [apply (S_off_rel k1 k2); assumption | exact HR]).
    set (M1' := if both then S_off RO Sk' msetR M' (gS * cS) (mtris m1) (mtris m2) else M') in *.
    set (M1 := if both then S_off RO Sk msetR M cS (mtris m1) (mtris m2) else M) in *.
    assert (Hsc : feqb RO (if both then gS * cS else f0 RO) (f0 RO) = feqb RO (if both then cS else f0 RO) (f0 RO))
      by (destruct both; [apply feqb_scaled | reflexivity]).
    rewrite Hsc.
    assert (HR2 : REL (if feqb RO (if both then cS else f0 RO) (f0 RO)
                       then N_off RO pos' area' geo M1' (gN * cN)
                              (bget RO (front_ix m1) (front_ix m2) (S_off RO Sk' (@bset R (front_ix m1) (front_ix m2)) sempty (f1 RO) (mtris m1) (mtris m2))) m1 m2
                       else N_off RO pos' area' geo M1' (fdiv RO (gN * cN) (if both then gS * cS else f0 RO)) (mget RO M1') m1 m2)
                      (if feqb RO (if both then cS else f0 RO) (f0 RO)
                       then N_off RO pos area geo M1 cN
                              (bget RO (front_ix m1) (front_ix m2) (S_off RO Sk (@bset R (front_ix m1) (front_ix m2)) sempty (f1 RO) (mtris m1) (mtris m2))) m1 m2
                       else N_off RO pos area geo M1 (fdiv RO cN (if both then cS else f0 RO)) (mget RO M1) m1 m2)).
    { destruct (feqb RO (if both then cS else f0 RO) (f0 RO)) eqn:E.
      - apply (N_off_rel sS); [| apply tmp_cond | exact HR1].
        intros t1 t2 _ _. unfold bget. apply S_off_tmp.
      - destruct both; [| cbn in E; destruct (Req_EM_T 0 0); [discriminate | exfalso; auto]].
        assert (HcS : cS <> 0) by (cbn in E; destruct (Req_EM_T cS 0); [discriminate | assumption]).
        apply (N_off_rel (alpha * pt * pt)); [| cbn [fdiv RO]; apply ratio_cond; exact HcS | exact HR1].
        intros t1 t2 H1 H2. rewrite (HR1 (tix t1) (tix t2)), (phi_tri k1 t1), (phi_tri k2 t2) by assumption. ring. }
    cbv zeta.
    assert (HR3 : forall X' X, REL X' X ->
              REL (if mbarrier m1 then X' else D_block RO Dk' geo X' (gD * cD) (mtris m1) (mtris m2))
                  (if mbarrier m1 then X else D_block RO Dk geo X cD (mtris m1) (mtris m2)))
      by (intros X' X HX; destruct (mbarrier m1); [exact HX | apply (D_block_rel k1); assumption]).
    destruct (negb (tris_eqb (mtris m1) (mtris m2)) && negb (mbarrier m2)).
    - apply (D_block_rel k2); [exact Hi2 |]. apply HR3. exact HR2.
    - apply HR3. exact HR2.
  Qed.

  (* ---- the loop over the communicating mesh pairs; the pair coefficients of the second description ------------ *)
  Definition scale_pair (p : pair R) : pair R :=
    mkPair (pm1 p) (pm2 p) (porient p) (gN * psig p) (gS * psiginv p) (gD * pind p).
  Definition geo' : igeom R :=
    mkGeom (gvix geo) (gmeshes geo) (map scale_pair (gpairs geo)) (gparts geo) (gnparams geo) (gnbarrier geo).

  Variable K : R.

  Lemma pair_step_rel p M' M : REL M' M ->
    REL (pair_step RO K pos' area' Sk' Dk' geo M' (scale_pair p)) (pair_step RO K pos area Sk Dk geo M p).
  Proof.
    intros HR. unfold pair_step. cbn [pm1 pm2 porient psig psiginv pind scale_pair].
    set (factor := fmul RO (fofZ RO (porient p)) K).
    replace (fmul RO factor (gS * psiginv p)) with (gS * fmul RO factor (psiginv p)) by (cbn; ring).
    replace (fmul RO factor (gN * psig p)) with (gN * fmul RO factor (psig p)) by (cbn; ring).
    replace (fmul RO (fopp RO factor) (gD * pind p)) with (gD * fmul RO (fopp RO factor) (pind p)) by (cbn; ring).
    destruct (Nat.eqb (pm1 p) (pm2 p)); [apply diag_block_rel | apply nondiag_block_rel]; exact HR.
  Qed.

  Lemma assemble_rel_aux : forall ps M' M, REL M' M ->
    REL (fold_left (pair_step RO K pos' area' Sk' Dk' geo) (map scale_pair ps) M')
        (fold_left (pair_step RO K pos area Sk Dk geo) ps M).
  Proof.
    induction ps as [| p ps IH]; intros M' M HR; cbn [map fold_left]; [exact HR |].
    apply IH. apply pair_step_rel. exact HR.
  Qed.

  (* ---- Details::deflate -------------------------------------------------------------------------------------------- *)
  Lemma part_scan_vertex part : istri (snd (part_scan geo part)) = false.
  Proof.
    unfold part_scan.
    assert (G : forall l acc, istri (snd acc) = false ->
      istri (snd (fold_left (fun '(nb, ifirst) k =>
         let m := gmesh geo k in
         if mouter m then ((nb + N.of_nat (length (mverts m)))%N, if (ifirst =? 0)%N then vix geo (hd 0%N (mverts m)) else ifirst)
         else (nb, ifirst)) l acc)) = false).
    { induction l as [| k l IH]; intros [nb i] Hacc; cbn [fold_left]; [exact Hacc |].
      apply IH. cbn [snd] in *. destruct (mouter (gmesh geo k)); cbn [snd]; [| exact Hacc].
      destruct (i =? 0)%N; [apply Hvert | exact Hacc]. }
    apply G. exact H0.
  Qed.

  Lemma deflate_mesh_rel coef : forall vs M' M, REL M' M ->
    REL (deflate_mesh RO geo M' (alpha * coef) vs) (deflate_mesh RO geo M coef vs).
  Proof.
    induction vs as [| a rest IH]; intros M' M HR; cbn [deflate_mesh]; [exact HR |].
    apply IH. apply (fold_left_rel REL); [| exact HR].
    intros P' P0 b Hb HRP. apply rel_madd; [exact HRP |]. rewrite !phi_vert. ring.
  Qed.

  Lemma deflate_part_rel part M' M : REL M' M -> REL (deflate_part RO geo M' part) (deflate_part RO geo M part).
  Proof.
    intros HR. unfold deflate_part. pose proof (part_scan_vertex part) as Hv.
    destruct (part_scan geo part) as [nb ifirst]. cbn [snd] in Hv.
    assert (Hc : fdiv RO (mget RO M' ifirst ifirst) (fofZ RO (Z.of_N nb)) = alpha * fdiv RO (mget RO M ifirst ifirst) (fofZ RO (Z.of_N nb))).
    { rewrite (HR ifirst ifirst). unfold phi. rewrite Hv. cbn [fdiv RO]. unfold Rdiv. ring. }
    rewrite Hc. apply (fold_left_rel REL); [| exact HR].
    intros P' P0 k Hk HRP. cbv zeta. destruct (mouter (gmesh geo k)); [apply deflate_mesh_rel |]; exact HRP.
  Qed.

  Lemma deflate_rel M' M : REL M' M -> REL (deflate RO geo M') (deflate RO geo M).
  Proof.
    intros HR. unfold deflate. apply (fold_left_rel REL); [| exact HR].
    intros P' P0 part _ HRP. apply deflate_part_rel. exact HRP.
  Qed.

  (* ---- the head matrix ------------------------------------------------------------------------------------------------ *)
  Theorem headmat_rel :
    REL (headmat RO K pos' area' Sk' Dk' geo') (headmat RO K pos area Sk Dk geo).
  Proof.
    unfold headmat.
    change (deflate RO geo' (assemble_pairs RO K pos' area' Sk' Dk' geo'))
      with (deflate RO geo (fold_left (pair_step RO K pos' area' Sk' Dk' geo) (map scale_pair (gpairs geo)) sempty)).
    apply deflate_rel. unfold assemble_pairs. apply assemble_rel_aux. apply rel_empty.
  Qed.
End Blocks.

(* ---- the two instances ---------------------------------------------------------------------------------------------- *)
Lemma geo'_id (geo : igeom R) : geo' 1 1 1 geo = geo.
Proof.
  destruct geo as [vixs ms ps parts np nb]. unfold geo'; cbn. f_equal.
  rewrite <- (map_id ps) at 2. apply map_ext. intros [a b c d e f]. unfold scale_pair; cbn. f_equal; ring.
Qed.

(* lengths * s: S kernel values * s^3, D * s^2, edge products * s^2, areas * s^2, same conductivities
   ==>  H(s) = s * D_s H D_s,  D_s = diag(I_v, s I_t) *)
Theorem headmat_length_scale (s : R) (pos pos' : N -> R * R * R) (area area' : N -> R)
    (Sk Sk' : N -> N -> R) (Dk Dk' : N -> N -> nat -> R) (istri : N -> bool) (geo : igeom R) (K : R) :
  s <> 0 ->
  (forall t1 v1 t2 v2, dot RO (CB RO pos' t1 v1) (CB RO pos' t2 v2) = s * s * dot RO (CB RO pos t1 v1) (CB RO pos t2 v2)) ->
  (forall t, area' t = s * s * area t) ->
  (forall a b, Sk' a b = s * s * s * Sk a b) ->
  (forall a b i, Dk' a b i = s * s * Dk a b i) ->
  (forall k t, In t (mtris (gmesh geo k)) -> istri (tix t) = true) ->
  (forall v, istri (vix geo v) = false) -> istri 0%N = false ->
  forall r c, mgetR (headmat RO K pos' area' Sk' Dk' geo) r c
              = s * phi s istri r * phi s istri c * mgetR (headmat RO K pos area Sk Dk geo) r c.
Proof.
  intros Hs Hdot Harea HS HD Htri Hvert H0.
  assert (A1 : s * s <> 0) by nra. assert (A2 : 1 <> 0) by lra.
  assert (B1 : s * s * s * 1 = s * s * s) by ring. assert (B2 : s * s * 1 = s * s) by ring.
  assert (B3 : s * s * s * s * 1 = s * s * (s * s) * 1) by ring.
  pose proof (headmat_rel pos pos' area area' Sk Sk' Dk Dk' (s * s * s) (s * s) (s * s) (s * s) 1 1 1 s s
                Hdot Harea HS HD A1 A2 B1 B2 B3 istri geo Htri Hvert H0 K) as H.
  rewrite geo'_id in H. exact H.
Qed.

(* conductivities * k: same geometry and kernels, pair coefficients sigma*k, sigma^-1/k, indicator unchanged
   ==>  H(k) = k * E_k H E_k,  E_k = diag(I_v, k^-1 I_t) *)
Theorem headmat_sigma_scale (k : R) (pos : N -> R * R * R) (area : N -> R)
    (Sk : N -> N -> R) (Dk : N -> N -> nat -> R) (istri : N -> bool) (geo : igeom R) (K : R) :
  k <> 0 ->
  (forall j t, In t (mtris (gmesh geo j)) -> istri (tix t) = true) ->
  (forall v, istri (vix geo v) = false) -> istri 0%N = false ->
  forall r c, mgetR (headmat RO K pos area Sk Dk (geo' (/ k) k 1 geo)) r c
              = k * phi (/ k) istri r * phi (/ k) istri c * mgetR (headmat RO K pos area Sk Dk geo) r c.
Proof.
  intros Hk Htri Hvert H0.
  apply (headmat_rel pos pos area area Sk Sk Dk Dk 1 1 1 1 (/ k) k 1 k (/ k)); try assumption; intros; try ring; try lra.
  - apply Rinv_neq_0_compat; exact Hk.
  - field; exact Hk.
  - field; exact Hk.
  - field; exact Hk.
Qed.
