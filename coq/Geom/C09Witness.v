(* Rational witnesses (vm_compute) for the refuted statements of C09 and examples showing that the
   hypotheses of the theorems are satisfiable.  The witnesses are replayed on the real code by checks/c09.py. *)
From Coq Require Import ZArith QArith List Bool.
From OM Require Import Base.Ops Geom.V3Q Geom.Danielsson Geom.SensorsModel.
Import ListNotations.
Local Open Scope Q_scope.

Definition qv (x y z : Q) : @vec Q := (x, y, z).
Definition qzero : @vec Q := qv 0 0 0.
Definition qdist2 (p q : @vec Q) : Q := vnorm2 Qops (vsub Qops p q).

(* DESIGN 4 row 13: obtuse corner *)
Definition w13_T : @tri Q := (qv 0 0 0, qv 4 0 0, qv (-3) 1 0).
Definition w13_p : @vec Q := qv (26 # 10) (-1) 0.
Definition w13_q : @vec Q := qv (7 # 20) (13 # 20) 0.      (* weights of the point (2.6,0,0) of edge AB *)

Lemma dpc_nearest_refuted_w :
  dist_point_triangle Qops w13_p w13_T qzero = DOk (194 # 25) (qv 1 0 0) false /\
  Qltb (qdist2 w13_p (recon Qops w13_T w13_q)) (194 # 25) = true /\
  qdist2 w13_p (recon Qops w13_T w13_q) = 1.
Proof. vm_compute. repeat split. Qed.

(* DESIGN 4 row 12: two non-conductive domains; the weights come from the last interface scanned *)
Definition w12_T1 : @itri Q := ((qv 0 0 0, qv 1 0 0, qv 0 1 0), (0, 1, 2)%nat).
Definition w12_T2 : @itri Q := ((qv 0 0 (-5), qv 4 0 (-5), qv 0 1 (-5)), (3, 4, 5)%nat).
Definition w12_g : @geometry Q := [(0, [(0%nat, [[w12_T1]])]); (0, [(1%nat, [[w12_T2]])])].
Definition w12_p : @vec Q := qv (1 # 4) (1 # 4) 1.

Lemma geom_alphas_refuted_w :
  let st := dist_point_geom Qops w12_p w12_g qzero in
  gs_near st = Some (0, 0, 0)%nat /\ gs_d st = Some 1 /\
  gs_al st = qv (11 # 16) (1 # 16) (1 # 4) /\
  dist_point_triangle Qops w12_p (fst w12_T1) qzero = DOk 1 (qv (1 # 2) (1 # 4) (1 # 4)) true.
Proof. vm_compute. repeat split. Qed.

(* the variant keeping the minimum's weights, on the same input *)
Lemma geom_alphas_repaired_w :
  let st := dist_point_geom_repaired Qops w12_p w12_g qzero in
  gs_near st = Some (0, 0, 0)%nat /\ gs_d st = Some 1 /\ gs_al st = qv (1 # 2) (1 # 4) (1 # 4).
Proof. vm_compute. repeat split. Qed.

(* a row of Head2EEGMat on this geometry: on the right triangle, summing to one, but with the stale weights *)
Lemma head2eeg_row_example :
  head2eeg_row Qops w12_g w12_p = Some [(0%nat, 11 # 16); (1%nat, 1 # 16); (2%nat, 1 # 4)].
Proof. vm_compute. reflexivity. Qed.

(* label grouping: points labelled 7 3 7 9 with weights 1 2 3 4 -> three sensors *)
Lemma weights_matrix_example :
  weights_matrix Qops [7; 3; 7; 9]%nat [1; 2; 3; 4] = (3%nat, [[1; 0; 3; 0]; [0; 2; 0; 0]; [0; 0; 0; 4]]).
Proof. vm_compute. reflexivity. Qed.

(* declared in the other order the nearest boundary is scanned last and the weights are the right ones *)
Definition w12_g' : @geometry Q := [(0, [(1%nat, [[w12_T2]])]); (0, [(0%nat, [[w12_T1]])])].
Lemma geom_alphas_other_order_w :
  let st := dist_point_geom Qops w12_p w12_g' qzero in
  gs_near st = Some (0, 0, 0)%nat /\ gs_d st = Some 1 /\ gs_al st = qv (1 # 2) (1 # 4) (1 # 4).
Proof. vm_compute. repeat split. Qed.
