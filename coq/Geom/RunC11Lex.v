(* EXTRACT-F: c11lex frun_c11lex *)
(* The C11 correspondence with the character-level readers in front: the .geom and .cond files come in as characters. *)
From OM Require Import Base.Lists Base.Ops Base.Wire Geom.GeomModel Geom.CondFile Geom.GeomFile Geom.GeomLex Geom.RunC11.
Local Open Scope Z_scope.

Definition getStr : dec (list nat) := do n <- getN; getNs n.
Definition getPayload : dec (list nat * mesh) := do p <- getStr; do m <- getMesh; ret (p, m).

Record lexcase := mkLC { lc_old : bool; lc_geom : list nat; lc_payload : list (list nat * mesh); lc_isign : list Z;
                         lc_probes : list (list bool); lc_has_cond : bool; lc_cond : list nat }.

Definition getLexCase : dec lexcase :=
  do old <- getZ; do g <- getStr; do np <- getN; do ps <- getMany np getPayload;
  do nif <- getN; do ss <- getZs nif; do npr <- getN; do prs <- getMany npr (getBools nif);
  do hc <- getZ; do c <- getStr;
  ret (mkLC (negb (old =? 0)) g ps ss prs (negb (hc =? 0)) c).

Section Run.
Context {F : Type} (o : Ops F).

Definition to_case (c : lexcase) : option c11case :=
  match lex_geom (lc_geom c) with
  | None => None
  | Some x =>
    match to_gfile x (lc_payload c) with
    | None => None
    | Some (f, T) =>
      let K := S (S (length (lx_paths x) + length (lx_ifaces x))) in
      let nn := map (numname_of T) (seq 0 K) in
      if lc_has_cond c then
        match lex_cond (lc_cond c) with
        | None => Some (mkCase (lc_old c) f nn (lc_isign c) (lc_probes c) (mkCC true false []))
        | Some names => Some (mkCase (lc_old c) f nn (lc_isign c) (lc_probes c)
                                     (mkCC true true (map (fun n => (1, intern (T ++ names) n 0)) names)))
        end
      else Some (mkCase (lc_old c) f nn (lc_isign c) (lc_probes c) (mkCC false true []))
    end
  end.

Definition frun_c11lex (w : list Z) (fs : list F) : list Z * list F :=
  match getLexCase w with
  | Some (c, []) => match to_case c with Some cs => run_case o cs fs | None => ([ST_OTHER], []) end
  | _ => ([-1], [])
  end.
End Run.
