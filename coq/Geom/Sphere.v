(* C01 — the analytic oracle: closed-form solutions of the forward problem in a spherically symmetric conductor,
   written once over the numeric record.  R instance: theorems (Geom/SphereProofs.v, Props/Properties_C01.v);
   IEEE double instance: the extracted function is the oracle the pipeline is compared with (Geom/RunC01.v).

   Conventions.  Layers are listed innermost first: radii r_1 < ... < r_N (r_N = R, the outer radius), conductivities
   sigma_1 ... sigma_N; the sphere is centred at the origin; the dipole (moment q, position r0) lies in layer 1.

   [sphere_pot]  surface potential at the point of the outer sphere in the direction of r  (series of de Munck 1988 /
   Zhang 1995, derived in design/C01.md).  In layer k the potential is
        V_k(x) = 1/(4 pi sigma_1) sum_n [ A_n^k |x|^n + B_n^k |x|^-(n+1) ] r0^(n-1) Y_n(x/|x|),     B_n^1 = 1 (the source),
   with   r0^(n-1) Y_n = (q.rh) d_n - (q.r0) d_(n-1),   d_n = |r0|^(n-1) P_n'(cos) ("solid" Legendre derivatives, regular
   at r0 = 0), and (A,B) fixed by continuity of V and sigma dV/dr at r_1..r_(N-1) and dV/dr = 0 at R.  With lengths in
   units of R the outside-in recursion [layer_step] starts from (alpha,beta) = (1, n/(n+1)) and the surface value is
        V(R rh) = 1/(4 pi sigma_1 R^2) sum_n  (2n+1)/((n+1) beta_n)  [ (q.rh) d_n - (q.w) d_(n-1) ],     w = r0/R.
   [sarvas]      Sarvas 1987 eq. (25), in units of mu0/(4 pi); has no conductivity argument at all.
   [homog_closed] closed form for the homogeneous sphere (sum of the N=1 series), [infinite_pot], [biot_savart_primary]. *)
From Coq Require Import ZArith List.
From OM Require Import Base.Ops Geom.SphereVec.
Import ListNotations.

Section Sphere.
  Context {F : Type} (o : Ops F).
  Local Notation "x + y" := (fadd o x y).
  Local Notation "x - y" := (fsub o x y).
  Local Notation "x * y" := (fmul o x y).
  Local Notation "x / y" := (fdiv o x y).
  Local Notation f_0 := (f0 o).
  Local Notation f_1 := (f1 o).
  Local Notation vec := (@v3 F).
  Local Notation dot := (sv_dot o).
  Local Notation cross := (sv_cross o).
  Local Notation nat2f := (fnat o).

  Definition two : F := f_1 + f_1.
  Definition four_pi : F := (two * two) * fpi o.

  (* ---------------------------------------------------------------- Legendre / solid harmonics *)
  (* p_n = m^n P_n(t/m), d_n = m^(n-1) P_n'(t/m) with m^2 = m2:  no division by m, so regular at m = 0.
     For m2 = 1 these are the Legendre polynomials and their derivatives.
     state after k steps: (p_k, p_(k+1), d_k, d_(k+1)) *)
  Definition leg_step (t m2 : F) (n : nat) (s : F * F * F * F) : F * F * F * F :=
    let '(pm, p, dm, d) := s in
    let nn := nat2f n in
    (p, ((two * nn + f_1) * t * p - nn * m2 * pm) / (nn + f_1), d, t * d + (nn + f_1) * p).

  (* leg_state t m2 n = (p_n, p_(n+1), d_n, d_(n+1)) *)
  Fixpoint leg_state (t m2 : F) (n : nat) : F * F * F * F :=
    match n with
    | O => (f_1, t, f_0, f_1)
    | S k => leg_step t m2 (S k) (leg_state t m2 k)
    end.
  Definition solid_p (t m2 : F) (n : nat) : F := let '(p, _, _, _) := leg_state t m2 n in p.
  Definition solid_d (t m2 : F) (n : nat) : F := let '(_, _, d, _) := leg_state t m2 n in d.
  Definition legendre (n : nat) (x : F) : F := solid_p x f_1 n.
  Definition legendre_d (n : nat) (x : F) : F := solid_d x f_1 n.

  (* ---------------------------------------------------------------- layer coefficients *)
  (* interface k (innermost first): (x_k, s_k) = (r_k / R, sigma_(k+1) / sigma_k) *)
  Fixpoint ifaces (radii sigmas : list F) (R : F) : list (F * F) :=
    match radii, sigmas with
    | r1 :: ((_ :: _) as rs), s1 :: ((s2 :: _) as ss) => (r1 / R, s2 / s1) :: ifaces rs ss R
    | _, _ => []
    end.

  (* from the coefficients (alpha, beta) of layer k+1 to those of layer k, degree n, across the interface (x, s) *)
  Definition layer_step (n : nat) (xs : F * F) (ab : F * F) : F * F :=
    let '(x, s) := xs in let '(a, b) := ab in
    let nn := nat2f n in let n1 := nn + f_1 in let d := two * nn + f_1 in
    let rho := fpow_pos o x (Pos.of_succ_nat (2 * n)) in            (* x^(2n+1) *)
    (((n1 + nn * s) * a + n1 * (f_1 - s) * (b / rho)) / d,
     (nn * (f_1 - s) * a * rho + (nn + n1 * s) * b) / d).

  Definition layer_ab (ifs : list (F * F)) (n : nat) : F * F :=
    fold_right (layer_step n) (f_1, nat2f n / (nat2f n + f_1)) ifs.

  (* coefficient of degree n of the surface series *)
  Definition sphere_coef (ifs : list (F * F)) (n : nat) : F :=
    (two * nat2f n + f_1) / ((nat2f n + f_1) * snd (layer_ab ifs n)).

  (* coefficients of degrees n0, n0+1, ..., n0+k-1 *)
  Fixpoint sphere_coefs_from (ifs : list (F * F)) (n0 k : nat) : list F :=
    match k with
    | O => []
    | S k' => sphere_coef ifs n0 :: sphere_coefs_from ifs (S n0) k'
    end.

  (* ---------------------------------------------------------------- the series *)
  (* consumes the coefficient list (degrees n, n+1, ...); state (p_(n-1), p_n, d_(n-1), d_n) *)
  Fixpoint series (cs : list F) (t m2 qr qw : F) (n : nat) (s : F * F * F * F) (acc : F) : F :=
    match cs with
    | [] => acc
    | c :: cs' =>
        let '(_, _, dm, d) := s in
        series cs' t m2 qr qw (S n) (leg_step t m2 n s) (acc + c * (qr * d - qw * dm))
    end.

  (* the potential as a function of the rotation invariants only:
     qr = q.r, qr0 = q.r0, r0r = r0.r, r0r0 = r0.r0, rr = r.r *)
  Definition sphere_pot_inv (coefs : list F) (R sigma1 : F) (qr qr0 r0r r0r0 rr : F) : F :=
    let nr := fsqrt o rr in
    let t := r0r / (R * nr) in
    let m2 := r0r0 / (R * R) in
    series coefs t m2 (qr / nr) (qr0 / R) (S O) (f_1, t, f_0, f_1) f_0 / (four_pi * sigma1 * (R * R)).

  Definition sphere_pot_c (coefs : list F) (R sigma1 : F) (q r0 r : vec) : F :=
    sphere_pot_inv coefs R sigma1 (dot q r) (dot q r0) (dot r0 r) (dot r0 r0) (dot r r).

  Definition outer_radius (radii : list F) : F := last radii f_1.
  Definition inner_sigma (sigmas : list F) : F := hd f_1 sigmas.

  Definition sphere_coefs (radii sigmas : list F) (nterms : nat) : list F :=
    sphere_coefs_from (ifaces radii sigmas (outer_radius radii)) (S O) nterms.

  Definition sphere_pot (radii sigmas : list F) (q r0 r : vec) (nterms : nat) : F :=
    sphere_pot_c (sphere_coefs radii sigmas nterms) (outer_radius radii) (inner_sigma sigmas) q r0 r.

  (* ---------------------------------------------------------------- closed forms *)
  (* unbounded homogeneous medium *)
  Definition infinite_pot (sigma : F) (q r0 r : vec) : F :=
    let dv := sv_sub o r r0 in let d := sv_norm o dv in
    dot q dv / (four_pi * sigma * (d * d * d)).

  (* homogeneous sphere of radius R, potential at the surface point R r/|r| *)
  Definition homog_closed (R sigma : F) (q r0 r : vec) : F :=
    let rs := sv_scale o (R / sv_norm o r) r in
    let dv := sv_sub o rs r0 in let d := sv_norm o dv in
    let den := R * R - dot rs r0 + R * d in
    (two * dot q dv / (d * d * d) + (dot q rs / R + dot q dv / d) / den) / (four_pi * sigma).

  (* Sarvas 1987 (25): B(r) = mu0/(4 pi F^2) (F q x r0 - (q x r0 . r) grad F), here without mu0/(4 pi).
     No conductivity, no radius: the field outside any spherically symmetric conductor. *)
  Definition sarvas_ff (r0 r : vec) : F :=
    let a := sv_norm o (sv_sub o r r0) in let rn := sv_norm o r in
    a * (rn * a + rn * rn - dot r0 r).
  Definition sarvas_gf (r0 r : vec) : vec :=
    let av := sv_sub o r r0 in let a := sv_norm o av in let rn := sv_norm o r in let ar := dot av r in
    sv_sub o (sv_scale o (a * a / rn + ar / a + two * a + two * rn) r)
             (sv_scale o (a + two * rn + ar / a) r0).
  Definition sarvas (q r0 r : vec) : vec :=
    let ff := sarvas_ff r0 r in
    let qr0 := cross q r0 in
    sv_scale o (f_1 / (ff * ff)) (sv_sub o (sv_scale o ff qr0) (sv_scale o (dot qr0 r) (sarvas_gf r0 r))).

  (* field of the primary current alone (Biot-Savart for a current dipole), same units *)
  Definition biot_savart_primary (q r0 r : vec) : vec :=
    let av := sv_sub o r r0 in let a := sv_norm o av in
    sv_scale o (f_1 / (a * a * a)) (cross q av).

  (* what a point magnetometer at r with orientation ori reads, in tesla, with the library's convention
     (component along ori/|ori|, MagFactor = mu0/(4 pi) = 1e-7) *)
  Definition mag_factor : F := f_1 / fofZ o 10000000%Z.
  Definition meg_sensor (q r0 r ori : vec) : F :=
    mag_factor * (dot (sarvas q r0 r) ori / sv_norm o ori).

  (* the part of the MEG reading that the pipeline computes in closed form (DipSource2MEGMat): primary current only *)
  Definition meg_primary_sensor (q r0 r ori : vec) : F :=
    mag_factor * (dot (biot_savart_primary q r0 r) ori / sv_norm o ori).
End Sphere.
